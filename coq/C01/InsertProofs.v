(** C01/C02 — insertion (btree.hpp insert_start / insert_descend / split_leaf_node / split_inner_node):
    on every tree satisfying the invariant, [insert] computes the sorted-list specification [spec_insert]
    on the element sequence (new list, rank of the returned iterator, inserted?), re-establishes the full
    invariant [Inv] (uniform depth, arity, minimum fill of both halves of every split, separators, order)
    and allocates exactly the nodes by which the tree grows.

    Structure: (1) list-level facts about [spec_insert]; (2) the leaf case; (3) the three split branches of
    insert_descend are all "split the one-too-wide node at p" ([wide_*]); (4) the inner case for an abstract
    child result; (5) the node-level theorem by [node_ind']; (6) the tree level. *)
From Coq Require Import List Bool Arith Lia.
From TLXV Require Import Common.Order C01.Model C01.Defs C01.SearchProofs C01.LookupProofs C01.BulkProofs
     C01.InsertLemmas.
Import ListNotations.

Section Insert.
  Context {K V : Type}.
  Variable ltb : K -> K -> bool.
  Variable key : V -> K.
  Variable dk : K.
  Variables leafmax innermax : nat.
  Variable dup binsearch : bool.
  Hypothesis Hswo : SWO ltb.
  Hypothesis Hl : 4 <= leafmax.
  Hypothesis Hi : 4 <= innermax.

  Notation node := (@node K V).
  Notation tree := (@tree K V).
  Notation ires := (@ires K V).
  Notation kle := (kle ltb).
  Notation keq := (keq ltb).
  Notation fll := (find_lower_lin ltb).
  Notation leafmin := (leafmin leafmax).
  Notation innermin := (innermin innermax).
  Notation maxkey := (maxkey key dk).
  Notation lastkey := (lastkey key dk).
  Notation sortedk := (sortedk ltb).
  Notation sortedk_strict := (sortedk_strict ltb).
  Notation seps_ok := (seps_ok ltb key dk).
  Notation shape := (shape ltb key dk leafmax innermax).
  Notation InvN := (InvN ltb key dk leafmax innermax dup).
  Notation Inv := (Inv ltb key dk leafmax innermax dup).
  Notation keys_sorted := (keys_sorted ltb key dup).
  Notation spec_lower := (spec_lower ltb key).
  Notation spec_has := (spec_has ltb key dk).
  Notation spec_insert := (spec_insert ltb key dk dup).
  Notation ins_leaf := (ins_leaf ltb key dk leafmax dup binsearch).
  Notation ins := (ins ltb key dk leafmax innermax dup binsearch).
  Notation insert := (insert ltb key dk leafmax innermax dup binsearch).

  (** * 1. the specification on lists *)
  Lemma spec_insert_rank (l : list V) v : snd (fst (spec_insert l v)) = spec_lower l (key v).
  Proof. unfold Defs.spec_insert. destruct (negb dup && spec_has l (key v)); reflexivity. Qed.

  Lemma spec_insert_length (l : list V) v :
    length (fst (fst (spec_insert l v))) = if snd (spec_insert l v) then S (length l) else length l.
  Proof.
    unfold Defs.spec_insert. destruct (negb dup && spec_has l (key v)); cbn [fst snd]; [reflexivity|].
    apply insert_at_length.
  Qed.

  Theorem spec_insert_sorted (l : list V) v :
    keys_sorted l -> keys_sorted (fst (fst (spec_insert l v))).
  Proof.
    intros [Hs Hst]. unfold Defs.spec_insert.
    destruct (negb dup && spec_has l (key v)) eqn:E; cbn [fst]; [split; assumption|].
    split.
    - apply (sortedk_insert ltb key Hswo). exact Hs.
    - intros Hd. rewrite Hd in E. cbn [negb andb] in E.
      apply (sortedk_strict_insert ltb key dk); [now apply Hst|exact E].
  Qed.

  Lemma keys_sorted_app_inv (a b : list V) : keys_sorted (a ++ b) -> keys_sorted a /\ keys_sorted b.
  Proof.
    intros [Hs Hst]. rewrite map_app in Hs, Hst. split; split.
    - exact (sortedk_app_l ltb Hswo _ _ Hs).
    - intros Hd. exact (sortedk_strict_app_l ltb _ _ (Hst Hd)).
    - exact (sortedk_app_r ltb Hswo _ _ Hs).
    - intros Hd. exact (sortedk_strict_app_r ltb _ _ (Hst Hd)).
  Qed.

  Lemma spec_lower_le' (l : list V) k : spec_lower l k <= length l.
  Proof.
    unfold Defs.spec_lower. pose proof (find_lower_lin_le_length ltb (map key l) k) as Hle.
    now rewrite map_length in Hle.
  Qed.

  (** insertion is local: everything in [B] is smaller than the key, and the scan stops inside [C]
      (or nothing follows [C]) *)
  Lemma spec_lower_local (B C A : list V) k :
    (forall x, In x B -> ltb (key x) k = true) ->
    (A = [] \/ spec_lower C k < length C) ->
    spec_lower (B ++ C ++ A) k = length B + spec_lower C k.
  Proof.
    intros HB HA. unfold Defs.spec_lower. rewrite !map_app.
    rewrite (fll_local ltb); [now rewrite map_length| |].
    - intros x Hx. apply in_map_iff in Hx as (y & <- & Hy). now apply HB.
    - destruct HA as [->|HA]; [now left|right]. now rewrite map_length.
  Qed.

  Lemma spec_has_local (B C A : list V) k :
    (forall x, In x B -> ltb (key x) k = true) ->
    (A = [] \/ spec_lower C k < length C) ->
    spec_has (B ++ C ++ A) k = spec_has C k.
  Proof.
    intros HB HA. unfold Defs.spec_has. rewrite (spec_lower_local B C A k HB HA).
    pose proof (spec_lower_le' C k) as Hle.
    fold (spec_lower C k). set (rc := spec_lower C k) in *.
    destruct (Nat.ltb_spec rc (length C)) as [L|L].
    - replace (length B + rc <? length (B ++ C ++ A)) with true
        by (symmetry; apply Nat.ltb_lt; rewrite !app_length; lia).
      cbn [andb]. f_equal. rewrite !map_app.
      rewrite app_nth2 by (rewrite map_length; lia).
      replace (length B + rc - length (map key B)) with rc by (rewrite map_length; lia).
      rewrite app_nth1 by (rewrite map_length; lia). reflexivity.
    - destruct HA as [->|HA]; [|lia].
      replace (length B + rc <? length (B ++ C ++ [])) with false; [reflexivity|].
      symmetry. apply Nat.ltb_ge. rewrite !app_length. cbn [length]. lia.
  Qed.

  Lemma spec_insert_local (B C A : list V) v :
    (forall x, In x B -> ltb (key x) (key v) = true) ->
    (A = [] \/ spec_lower C (key v) < length C) ->
    spec_insert (B ++ C ++ A) v =
    (B ++ fst (fst (spec_insert C v)) ++ A, length B + spec_lower C (key v), snd (spec_insert C v)).
  Proof.
    intros HB HA. unfold Defs.spec_insert.
    rewrite (spec_has_local B C A _ HB HA), (spec_lower_local B C A _ HB HA).
    destruct (negb dup && spec_has C (key v)); cbn [fst snd]; [reflexivity|].
    f_equal. f_equal.
    pose proof (spec_lower_le' C (key v)) as Hle.
    rewrite insert_at_app by (rewrite app_length; lia).
    f_equal. apply insert_at_app_l. exact Hle.
  Qed.

  (** inserting strictly inside a list does not change its last key *)
  Lemma spec_insert_last (C : list V) v :
    spec_lower C (key v) < length C ->
    last (map key (fst (fst (spec_insert C v)))) dk = last (map key C) dk.
  Proof.
    intros Hlt. unfold Defs.spec_insert.
    destruct (negb dup && spec_has C (key v)); cbn [fst]; [reflexivity|].
    replace (map key (insert_at (spec_lower C (key v)) v C))
      with (insert_at (spec_lower C (key v)) (key v) (map key C))
      by (unfold insert_at; rewrite map_app, firstn_map, skipn_map; reflexivity).
    apply last_insert_at_lt. now rewrite map_length.
  Qed.
  Lemma lastkey_insert_at_lt i v (l : list V) : i < length l -> lastkey (insert_at i v l) = lastkey l.
  Proof.
    intros Hlt. unfold Model.lastkey.
    replace (map key (insert_at i v l)) with (insert_at i (key v) (map key l))
      by (unfold insert_at; rewrite map_app, firstn_map, skipn_map; reflexivity).
    apply last_insert_at_lt. now rewrite map_length.
  Qed.

  Lemma half_bounds n : 2 * (n / 2) <= n /\ n <= 2 * (n / 2) + 1.
  Proof.
    pose proof (Nat.div_mod n 2 ltac:(lia)) as Hdm.
    pose proof (Nat.mod_upper_bound n 2 ltac:(lia)) as Hub. lia.
  Qed.

  (** * 2. node level: what one call of insert_descend returns *)
  Definition split_elems (s : option (K * node)) : list V :=
    match s with Some (_, nn) => elems nn | None => [] end.
  Definition split_nodes (s : option (K * node)) : nat :=
    match s with Some (_, nn) => nodes nn | None => 0 end.

  Definition res_ok (r : bool) (h : nat) (n : node) (v : V) (res : ires) : Prop :=
    elems (i_node res) ++ split_elems (i_split res) = fst (fst (spec_insert (elems n) v))
    /\ i_rank res = spec_lower (elems n) (key v)
    /\ i_ok res = snd (spec_insert (elems n) v)
    /\ match i_split res with
       | None => shape r h (i_node res)
       | Some (sk, nn) =>
         shape false h (i_node res) /\ shape false h nn /\ keq sk (maxkey (i_node res)) = true
       end
    /\ nodes (i_node res) + split_nodes (i_split res) = nodes n + i_allocs res.

  Lemma nodes_leaf (vs : list V) : nodes (Leaf vs : node) = 1.
  Proof. reflexivity. Qed.

  (** ** the leaf case (incl. split_leaf_node) *)
  Lemma ins_leaf_ok r h vs v : InvN r h (Leaf vs) -> res_ok r h (Leaf vs) v (ins_leaf vs v).
  Proof.
    intros [Hsh [Hs Hst]]. apply shape_leaf in Hsh as (-> & Hmax & Hmin & H1).
    cbn [elems] in Hs, Hst.
    unfold res_ok, Model.ins_leaf. cbn [elems]. cbv zeta.
    rewrite (find_lower_eq_lin ltb dk Hswo binsearch _ _ Hs).
    fold (spec_lower vs (key v)).
    pose proof (spec_lower_le' vs (key v)) as Hslot.
    replace (negb dup && (spec_lower vs (key v) <? length vs)
             && keq (key v) (nth (spec_lower vs (key v)) (map key vs) dk))
      with (negb dup && spec_has vs (key v))
      by (unfold Defs.spec_has; now rewrite andb_assoc).
    unfold Defs.spec_insert.
    set (slot := spec_lower vs (key v)) in *.
    destruct (negb dup && spec_has vs (key v)) eqn:E.
    - cbn [i_node i_split i_rank i_ok i_allocs split_elems split_nodes fst snd elems].
      rewrite app_nil_r. repeat split; try reflexivity.
      apply shape_leaf. repeat split; assumption.
    - destruct (length vs =? leafmax) eqn:Ef.
      + apply Nat.eqb_eq in Ef.
        destruct (half_bounds leafmax) as [Hh1 Hh2].
        assert (Hm2 : 2 <= leafmax / 2) by (apply Nat.div_le_lower_bound; lia).
        rewrite Ef. unfold Model.leafmin in *. set (m := leafmax / 2) in *.
        destruct (m <=? slot) eqn:Em.
        * apply Nat.leb_le in Em.
          cbn [i_node i_split i_rank i_ok i_allocs split_elems split_nodes fst snd elems].
          rewrite !nodes_leaf. repeat split; try reflexivity.
          -- rewrite <- (skipn_insert_at_ge m slot v vs Em Hslot).
             rewrite <- (firstn_insert_at_le m slot v vs Em Hslot) at 1.
             apply firstn_skipn.
          -- apply shape_leaf. unfold Model.leafmin. fold m. rewrite firstn_length. repeat split; lia.
          -- apply shape_leaf. unfold Model.leafmin. fold m. rewrite insert_at_length, skipn_length. repeat split; lia.
          -- apply (keq_refl ltb Hswo).
        * apply Nat.leb_gt in Em.
          assert (Hlen : length (insert_at slot v (firstn m vs)) = S m)
            by (rewrite insert_at_length, firstn_length; lia).
          rewrite Hlen. replace (S m - 1) with m by lia.
          replace (slot =? m) with false by (symmetry; apply Nat.eqb_neq; lia).
          cbn [i_node i_split i_rank i_ok i_allocs split_elems split_nodes fst snd elems].
          rewrite !nodes_leaf. repeat split; try reflexivity.
          -- rewrite <- (insert_at_app_l (firstn m vs) (skipn m vs) v slot)
               by (rewrite firstn_length; lia).
             now rewrite firstn_skipn.
          -- apply shape_leaf. unfold Model.leafmin. fold m. rewrite Hlen. repeat split; lia.
          -- apply shape_leaf. unfold Model.leafmin. fold m. rewrite skipn_length. repeat split; lia.
          -- rewrite maxkey_leaf, lastkey_insert_at_lt by (rewrite firstn_length; lia).
             apply (keq_refl ltb Hswo).
      + apply Nat.eqb_neq in Ef.
        cbn [i_node i_split i_rank i_ok i_allocs split_elems split_nodes fst snd elems].
        rewrite app_nil_r, !nodes_leaf. repeat split; try reflexivity.
        apply shape_leaf. rewrite insert_at_length. repeat split; try lia; destruct r; lia.
  Qed.
  (** ** the inner case, unfolded: [ins (Inner ks cs) v = inner_post ks cs slot (ins child v)] *)
  Definition split_post (ks : list K) (cs1 : list node) (slot : nat) (nk : K) (nc : node)
             (mid rank : nat) (ok : bool) (al : nat) : ires :=
    let lks := firstn mid ks in
    let lcs := firstn (S mid) cs1 in
    let rks := skipn (S mid) ks in
    let rcs := skipn (S mid) cs1 in
    let sk := nth mid ks dk in
    if (slot =? mid + 1) && (mid <? length rks) then
      mkI (Inner (lks ++ [sk]) (lcs ++ [hd dnode rcs])) (Some (nk, Inner rks (nc :: tl rcs))) rank ok (S al)
    else if mid + 1 <=? slot then
      let s' := slot - (mid + 1) in
      mkI (Inner lks lcs) (Some (sk, Inner (insert_at s' nk rks) (insert_at (S s') nc rcs))) rank ok (S al)
    else
      mkI (Inner (insert_at slot nk lks) (insert_at (S slot) nc lcs)) (Some (sk, Inner rks rcs)) rank ok (S al).

  Definition inner_post (ks : list K) (cs : list node) (slot : nat) (r : ires) : ires :=
    let cs1 := replace_at slot (i_node r) cs in
    let rank := sizes_before slot cs + i_rank r in
    match i_split r with
    | None => mkI (Inner ks cs1) None rank (i_ok r) (i_allocs r)
    | Some (nk, nc) =>
      let u := length ks in
      if u =? innermax then
        let mid0 := u / 2 in
        let mid := if (slot <=? mid0) && (u - (mid0 + 1) <? mid0) then mid0 - 1 else mid0 in
        split_post ks cs1 slot nk nc mid rank (i_ok r) (i_allocs r)
      else mkI (Inner (insert_at slot nk ks) (insert_at (S slot) nc cs1)) None rank (i_ok r) (i_allocs r)
    end.

  Lemma ins_inner ks cs v :
    ins (Inner ks cs) v =
    inner_post ks cs (find_lower ltb dk binsearch ks (key v))
               (apply_nth (fun c => ins c v) (mkI dnode None 0 false 0) cs
                          (find_lower ltb dk binsearch ks (key v))).
  Proof. reflexivity. Qed.

  (** ** 3. every branch of the split is "cut the one-too-wide node at p" *)
  Definition wide_l (KS : list K) (CS : list node) (p : nat) : node := Inner (firstn p KS) (firstn (S p) CS).
  Definition wide_r (KS : list K) (CS : list node) (p : nat) : node := Inner (skipn (S p) KS) (skipn (S p) CS).

  Lemma insert_at_0 {A} (x : A) l : insert_at 0 x l = x :: l.
  Proof. reflexivity. Qed.

  (** special case "insert slot == split point": cut at p = mid + 1 = slot *)
  Lemma split_post_special ks cs1 slot nk nc mid rank ok al :
    length cs1 = S (length ks) -> slot = S mid -> mid < length ks - S mid ->
    split_post ks cs1 slot nk nc mid rank ok al =
    mkI (wide_l (insert_at slot nk ks) (insert_at (S slot) nc cs1) (S mid))
        (Some (nth (S mid) (insert_at slot nk ks) dk,
               wide_r (insert_at slot nk ks) (insert_at (S slot) nc cs1) (S mid))) rank ok (S al).
  Proof.
    intros Hlen -> Hlt. unfold split_post. cbv zeta.
    destruct (Nat.eqb_spec (S mid) (mid + 1)) as [E1|E1]; [|lia].
    destruct (Nat.ltb_spec mid (length (skipn (S mid) ks))) as [E2|E2]; [|rewrite skipn_length in E2; lia].
    cbn [andb]. unfold wide_l, wide_r.
    rewrite (firstn_insert_at_le (S mid) (S mid) nk ks) by lia.
    rewrite (firstn_insert_at_le (S (S mid)) (S (S mid)) nc cs1) by lia.
    rewrite (nth_insert_at_eq (S mid) nk ks dk) by lia.
    rewrite (skipn_insert_at_lt (S mid) (S mid) nk ks) by lia.
    rewrite (skipn_insert_at_ge (S (S mid)) (S (S mid)) nc cs1) by lia.
    rewrite Nat.sub_diag, insert_at_0.
    rewrite (firstn_S_nth mid ks dk) by lia.
    rewrite (firstn_S_nth (S mid) cs1 dnode) by lia.
    rewrite hd_skipn, tl_skipn. reflexivity.
  Qed.

  (** insert into the right node: cut at p = mid *)
  Lemma split_post_right ks cs1 slot nk nc mid rank ok al :
    length cs1 = S (length ks) -> slot <= length ks -> S mid <= slot ->
    ~ (slot = S mid /\ mid < length ks - S mid) ->
    split_post ks cs1 slot nk nc mid rank ok al =
    mkI (wide_l (insert_at slot nk ks) (insert_at (S slot) nc cs1) mid)
        (Some (nth mid (insert_at slot nk ks) dk,
               wide_r (insert_at slot nk ks) (insert_at (S slot) nc cs1) mid)) rank ok (S al).
  Proof.
    intros Hlen Hslot Hge Hns. unfold split_post. cbv zeta.
    replace ((slot =? mid + 1) && (mid <? length (skipn (S mid) ks))) with false.
    2:{ symmetry. apply andb_false_iff. rewrite skipn_length.
        destruct (Nat.eqb_spec slot (mid + 1)) as [E1|E1]; [|now left].
        right. apply Nat.ltb_ge. lia. }
    destruct (Nat.leb_spec (mid + 1) slot) as [E3|E3]; [|lia].
    unfold wide_l, wide_r.
    rewrite (firstn_insert_at_le mid slot nk ks) by lia.
    rewrite (firstn_insert_at_le (S mid) (S slot) nc cs1) by lia.
    rewrite (nth_insert_at_lt mid slot nk ks dk) by lia.
    rewrite (skipn_insert_at_ge (S mid) slot nk ks) by lia.
    rewrite (skipn_insert_at_ge (S mid) (S slot) nc cs1) by lia.
    replace (slot - (mid + 1)) with (slot - S mid) by lia.
    replace (S slot - S mid) with (S (slot - S mid)) by lia.
    reflexivity.
  Qed.

  (** insert into the left node: cut at p = mid + 1 *)
  Lemma split_post_left ks cs1 slot nk nc mid rank ok al :
    length cs1 = S (length ks) -> mid < length ks -> slot <= mid ->
    split_post ks cs1 slot nk nc mid rank ok al =
    mkI (wide_l (insert_at slot nk ks) (insert_at (S slot) nc cs1) (S mid))
        (Some (nth (S mid) (insert_at slot nk ks) dk,
               wide_r (insert_at slot nk ks) (insert_at (S slot) nc cs1) (S mid))) rank ok (S al).
  Proof.
    intros Hlen Hmid Hle. unfold split_post. cbv zeta.
    destruct (Nat.eqb_spec slot (mid + 1)) as [E1|E1]; [lia|]. cbn [andb].
    destruct (Nat.leb_spec (mid + 1) slot) as [E3|E3]; [lia|].
    unfold wide_l, wide_r.
    rewrite (firstn_insert_at_gt mid slot nk ks) by lia.
    rewrite (firstn_insert_at_gt (S mid) (S slot) nc cs1) by lia.
    rewrite (nth_insert_at_gt mid slot nk ks dk) by lia.
    rewrite (skipn_insert_at_lt (S mid) slot nk ks) by lia.
    rewrite (skipn_insert_at_lt (S mid) (S slot) nc cs1) by lia.
    reflexivity.
  Qed.

  (** the split of a full inner node, all cases: a cut of the wide node leaving >= innermin keys on both sides *)
  Lemma inner_post_split ks cs slot r nk nc :
    i_split r = Some (nk, nc) -> length ks = innermax -> slot <= length ks -> length cs = S (length ks) ->
    let KS := insert_at slot nk ks in
    let CS := insert_at (S slot) nc (replace_at slot (i_node r) cs) in
    exists p, innermin <= p /\ p + innermin <= innermax /\
      inner_post ks cs slot r =
      mkI (wide_l KS CS p) (Some (nth p KS dk, wide_r KS CS p))
          (sizes_before slot cs + i_rank r) (i_ok r) (S (i_allocs r)).
  Proof.
    intros Hsp Hu Hslot Hlen KS CS. unfold inner_post. rewrite Hsp. cbv zeta.
    rewrite Hu, Nat.eqb_refl. unfold Model.innermin.
    destruct (half_bounds innermax) as [Hh1 Hh2].
    assert (Hm2 : 2 <= innermax / 2) by (apply Nat.div_le_lower_bound; lia).
    set (m := innermax / 2) in *.
    assert (Hlen1 : length (replace_at slot (i_node r) cs) = S (length ks))
      by (now rewrite replace_at_length).
    destruct (Nat.leb_spec slot m) as [Ea|Ea]; cbn [andb].
    - destruct (Nat.ltb_spec (innermax - (m + 1)) m) as [Eb|Eb].
      + (* even: mid = m - 1 *)
        destruct m as [|m']; [lia|]. replace (S m' - 1) with m' by lia.
        destruct (Nat.eq_dec slot (S m')) as [Es|Es].
        * exists (S m'). split; [lia|]. split; [lia|].
          apply split_post_special; [exact Hlen1|exact Es|lia].
        * exists (S m'). split; [lia|]. split; [lia|].
          apply split_post_left; [exact Hlen1|lia|lia].
      + (* odd: mid = m, insert left *)
        exists (S m). split; [lia|]. split; [lia|].
        apply split_post_left; [exact Hlen1|lia|lia].
    - (* mid = m, insert right *)
      exists m. split; [lia|]. split; [lia|].
      apply split_post_right; [exact Hlen1|lia|lia|lia].
  Qed.
  (** ** separators, node counts, sizes: structural lemmas *)
  Lemma seps_ok_app (kl : list K) (cl : list node) kr cr :
    length kl = length cl -> seps_ok (kl ++ kr) (cl ++ cr) = seps_ok kl cl && seps_ok kr cr.
  Proof.
    revert cl. induction kl as [|k0 kl IH]; intros [|c0 cl] Hlen; try discriminate Hlen.
    - reflexivity.
    - cbn [app Model.seps_ok]. injection Hlen as Hlen. rewrite (IH cl Hlen). now rewrite andb_assoc.
  Qed.

  Lemma seps_ok_firstn (ks : list K) : forall (cs : list node) p q,
    seps_ok ks cs = true -> p <= q -> seps_ok (firstn p ks) (firstn q cs) = true.
  Proof.
    induction ks as [|k0 ks IH]; intros cs p q Hs Hpq.
    - now rewrite firstn_nil.
    - destruct p as [|p]; [reflexivity|]. destruct q as [|q]; [lia|].
      destruct cs as [|c0 cs]; [discriminate Hs|].
      cbn [Model.seps_ok] in Hs. apply andb_true_iff in Hs as [Hk Hs].
      rewrite !firstn_cons. cbn [Model.seps_ok]. rewrite Hk. cbn [andb]. apply IH; [exact Hs|lia].
  Qed.

  Lemma seps_ok_skipn (ks : list K) : forall (cs : list node) n,
    seps_ok ks cs = true -> seps_ok (skipn n ks) (skipn n cs) = true.
  Proof.
    induction ks as [|k0 ks IH]; intros cs n Hs.
    - now rewrite skipn_nil.
    - destruct n as [|n]; [exact Hs|].
      destruct cs as [|c0 cs]; [discriminate Hs|].
      cbn [Model.seps_ok] in Hs. apply andb_true_iff in Hs as [Hk Hs].
      rewrite !skipn_cons. now apply IH.
  Qed.

  Lemma seps_ok_nth (ks : list K) : forall (cs : list node) p,
    seps_ok ks cs = true -> p < length ks -> keq (nth p ks dk) (maxkey (nth p cs dnode)) = true.
  Proof.
    induction ks as [|k0 ks IH]; intros cs p Hs Hp; cbn [length] in Hp; [lia|].
    destruct cs as [|c0 cs]; [discriminate Hs|].
    cbn [Model.seps_ok] in Hs. apply andb_true_iff in Hs as [Hk Hs].
    destruct p as [|p]; cbn [nth]; [exact Hk|]. apply IH; [exact Hs|lia].
  Qed.

  Lemma nodes_inner (ks : list K) (cs : list node) : nodes (Inner ks cs) = S (list_sum (map nodes cs)).
  Proof.
    unfold nodes. cbn [count_leaves count_inner].
    induction cs as [|c cs IH]; [reflexivity|].
    cbn [map]. rewrite !list_sum_cons. fold (nodes c). unfold nodes in *. lia.
  Qed.

  Lemma sum_size_elems (cs : list node) : list_sum (map size cs) = length (flat_map elems cs).
  Proof.
    induction cs as [|c cs IH]; [reflexivity|].
    cbn [map flat_map]. rewrite list_sum_cons, app_length, IH, (size_elems c). reflexivity.
  Qed.

  Lemma Forall_firstn {A} (P : A -> Prop) n (l : list A) : Forall P l -> Forall P (firstn n l).
  Proof. intros H. rewrite <- (firstn_skipn n l) in H. now apply Forall_app in H. Qed.

  Lemma Forall_skipn {A} (P : A -> Prop) n (l : list A) : Forall P l -> Forall P (skipn n l).
  Proof. intros H. rewrite <- (firstn_skipn n l) in H. now apply Forall_app in H. Qed.

  (** everything stored left of separators that are smaller than k is smaller than k *)
  Lemma below_seps k : forall (cl : list node) (kl : list K),
    length kl = length cl -> seps_ok kl cl = true ->
    (forall x, In x kl -> ltb x k = true) ->
    sortedk (map key (flat_map elems cl)) = true ->
    forall x, In x (flat_map elems cl) -> ltb (key x) k = true.
  Proof.
    induction cl as [|c0 cl IH]; intros [|k0 kl] Hlen Hs Hlt Hso x Hx; try discriminate Hlen.
    - destruct Hx.
    - cbn [Model.seps_ok] in Hs. apply andb_true_iff in Hs as [Hk Hs].
      cbn [flat_map] in Hso, Hx. rewrite map_app in Hso.
      destruct (sortedk_app_inv ltb Hswo _ _ Hso) as (S0 & Sr & _).
      apply in_app_or in Hx as [Hx|Hx].
      + apply (kle_ltb_trans ltb Hswo) with (b := maxkey c0).
        * unfold Model.maxkey. apply (sortedk_le_last ltb Hswo); [exact S0|now apply in_map].
        * rewrite <- (keq_ltb_l ltb Hswo _ _ k Hk). apply Hlt. now left.
      + injection Hlen as Hlen. apply (IH kl Hlen Hs); [|exact Sr|exact Hx].
        intros y Hy. apply Hlt. now right.
  Qed.

  (** ** cutting a one-too-wide node (split_inner_node + the insertion into one of the halves) *)
  Lemma wide_split_ok h' (KS : list K) (CS : list node) p :
    length CS = S (length KS) -> seps_ok KS CS = true -> Forall (shape false h') CS ->
    length KS = S innermax -> innermin <= p -> p + innermin <= innermax ->
    shape false (S h') (wide_l KS CS p) /\ shape false (S h') (wide_r KS CS p)
    /\ keq (nth p KS dk) (maxkey (wide_l KS CS p)) = true
    /\ elems (wide_l KS CS p) ++ elems (wide_r KS CS p) = flat_map elems CS
    /\ nodes (wide_l KS CS p) + nodes (wide_r KS CS p) = S (S (list_sum (map nodes CS))).
  Proof.
    intros Hlen Hs Hch HK Hp1 Hp2. unfold wide_l, wide_r.
    assert (Hm2 : 2 <= innermin) by (unfold Model.innermin; apply Nat.div_le_lower_bound; lia).
    split; [|split; [|split; [|split]]].
    - apply shape_inner. exists h'. rewrite !firstn_length.
      repeat split; try lia.
      + apply seps_ok_firstn; [exact Hs|lia].
      + now apply Forall_firstn.
    - apply shape_inner. exists h'. rewrite !skipn_length.
      repeat split; try lia.
      + now apply seps_ok_skipn.
      + now apply Forall_skipn.
    - rewrite (firstn_S_nth p CS dnode) by lia.
      rewrite maxkey_inner.
      + apply seps_ok_nth; [exact Hs|lia].
      + rewrite Forall_forall in Hch.
        apply (shape_nonempty ltb key dk leafmax innermax Hl Hi _ false h').
        apply Hch, nth_In. lia.
    - cbn [elems]. rewrite <- flat_map_app. now rewrite firstn_skipn.
    - rewrite !nodes_inner.
      rewrite <- (firstn_skipn (S p) CS) at 3. rewrite map_app, list_sum_app. lia.
  Qed.

  (** the key of the last element below the (right-most) returned node is the old one, whenever the
      insertion position lies strictly inside the old element sequence *)
  Definition tail_node (res : ires) : node :=
    match i_split res with Some (_, nn) => nn | None => i_node res end.

  Lemma tail_maxkey (c : node) v (rc : ires) :
    elems (i_node rc) ++ split_elems (i_split rc) = fst (fst (spec_insert (elems c) v)) ->
    (forall sk nn, i_split rc = Some (sk, nn) -> elems nn <> []) ->
    spec_lower (elems c) (key v) < length (elems c) ->
    maxkey (tail_node rc) = maxkey c.
  Proof.
    intros Ha Hne Hlt. unfold Model.maxkey at 2.
    rewrite <- (spec_insert_last (elems c) v Hlt), <- Ha.
    unfold tail_node. destruct (i_split rc) as [[sk nn]|] eqn:E; cbn [split_elems].
    - rewrite map_app. unfold Model.maxkey. symmetry. apply last_app_ne.
      intros E0. apply map_eq_nil in E0. exact (Hne sk nn eq_refl E0).
    - now rewrite app_nil_r.
  Qed.
  (** ** 4. the inner case, for an arbitrary child result [rc] that is correct for the child *)
  Lemma inner_ok r h' (kl kr : list K) (cl : list node) c cr v (rc : ires) :
    length kl = length cl ->
    InvN r (S h') (Inner (kl ++ kr) (cl ++ c :: cr)) ->
    fll (kl ++ kr) (key v) = length kl ->
    res_ok false h' c v rc ->
    res_ok r (S h') (Inner (kl ++ kr) (cl ++ c :: cr)) v
           (inner_post (kl ++ kr) (cl ++ c :: cr) (length kl) rc).
  Proof.
    intros Hkl [Hsh Hks] Hfll (Ra & Rb & Rc & Rd & Re).
    apply shape_inner in Hsh as (h'' & Eh & Hlen & Hmax & Hmin & H1 & Hseps & Hch).
    injection Eh as <-.
    pose proof Hlen as Hlen0.
    rewrite !app_length in Hlen. cbn [length] in Hlen.
    apply Forall_app in Hch as [Hcl Hccr]. inversion Hccr as [|? ? Hc Hcr]; subst.
    rewrite (seps_ok_app kl cl kr (c :: cr) Hkl) in Hseps. apply andb_true_iff in Hseps as [Hs1 Hs2].
    destruct (fll_app_eq ltb kl kr (key v) Hfll) as [Hkllt Hkr0].
    assert (HE : elems (Inner (kl ++ kr) (cl ++ c :: cr)) = flat_map elems cl ++ elems c ++ flat_map elems cr)
      by (cbn [elems]; rewrite flat_map_app; reflexivity).
    rewrite HE in Hks.
    set (B := flat_map elems cl) in *. set (C := elems c) in *. set (A := flat_map elems cr) in *.
    assert (HB : forall x, In x B -> ltb (key x) (key v) = true).
    { apply (below_seps (key v) cl kl Hkl Hs1 Hkllt). destruct Hks as [Hso _].
      rewrite map_app in Hso. exact (sortedk_app_l ltb Hswo _ _ Hso). }
    assert (Hcne : C <> []) by exact (shape_nonempty ltb key dk leafmax innermax Hl Hi c false h' Hc).
    assert (Hnn : forall sk nn, i_split rc = Some (sk, nn) -> elems nn <> []).
    { intros sk nn E. rewrite E in Rd. destruct Rd as (_ & Hn & _).
      exact (shape_nonempty ltb key dk leafmax innermax Hl Hi nn false h' Hn). }
    assert (HA' : match kr with
                  | [] => cr = []
                  | k0 :: kr' => keq k0 (maxkey (tail_node rc)) = true /\ seps_ok kr' cr = true
                                 /\ spec_lower C (key v) < length C
                  end).
    { destruct kr as [|k0 kr'].
      - cbn [length] in Hlen. destruct cr as [|c1 cr']; [reflexivity|cbn [length] in Hlen; lia].
      - cbn [Model.seps_ok] in Hs2. apply andb_true_iff in Hs2 as [Hk0 Hs2].
        assert (Hlt : spec_lower C (key v) < length C).
        { unfold Defs.spec_lower. rewrite <- (map_length key C).
          apply (fll_lt ltb _ _ (maxkey c)); [now apply maxkey_In|].
          rewrite <- (keq_ltb_l ltb Hswo _ _ _ Hk0). exact Hkr0. }
        split; [|split; [exact Hs2|exact Hlt]].
        rewrite (tail_maxkey c v rc Ra Hnn Hlt). exact Hk0. }
    assert (HA : A = [] \/ spec_lower C (key v) < length C).
    { destruct kr as [|k0 kr']; [left; unfold A; now rewrite HA'|right; apply HA']. }
    pose proof (spec_insert_local B C A v HB HA) as Hloc.
    pose proof (spec_lower_local B C A (key v) HB HA) as Hlow.
    assert (Hsb : sizes_before (length kl) (cl ++ c :: cr) = length B).
    { unfold sizes_before. rewrite Hkl, firstn_mid. apply sum_size_elems. }
    unfold res_ok. rewrite HE. fold B C A. rewrite Hloc, Hlow. cbn [fst snd].
    destruct (i_split rc) as [[nk nc]|] eqn:Esp.
    - (* the child was split *)
      destruct Rd as (Hc' & Hnc & Hnk). cbn [split_elems split_nodes] in Ra, Re.
      unfold tail_node in HA'. rewrite Esp in HA'.
      assert (HKS : insert_at (length kl) nk (kl ++ kr) = kl ++ nk :: kr) by apply insert_at_mid.
      assert (HCS : insert_at (S (length kl)) nc (replace_at (length kl) (i_node rc) (cl ++ c :: cr))
                    = cl ++ i_node rc :: nc :: cr)
        by (rewrite Hkl, replace_at_mid; apply insert_at_mid_S).
      assert (Wseps : seps_ok (kl ++ nk :: kr) (cl ++ i_node rc :: nc :: cr) = true).
      { rewrite (seps_ok_app kl cl _ _ Hkl), Hs1. cbn [andb Model.seps_ok]. rewrite Hnk. cbn [andb].
        destruct kr as [|k0 kr']; [reflexivity|]. cbn [Model.seps_ok].
        destruct HA' as (Hk0 & Hs2' & _). now rewrite Hk0, Hs2'. }
      assert (Wch : Forall (shape false h') (cl ++ i_node rc :: nc :: cr)).
      { apply Forall_app. split; [exact Hcl|]. constructor; [exact Hc'|]. constructor; assumption. }
      assert (Welems : flat_map elems (cl ++ i_node rc :: nc :: cr) = B ++ fst (fst (spec_insert C v)) ++ A).
      { rewrite flat_map_app. cbn [flat_map]. rewrite <- Ra, <- app_assoc. reflexivity. }
      assert (Wnodes : list_sum (map nodes (cl ++ i_node rc :: nc :: cr))
                       = list_sum (map nodes (cl ++ c :: cr)) + i_allocs rc).
      { rewrite !map_app, !list_sum_app. cbn [map]. rewrite !list_sum_cons. lia. }
      assert (Wlen : length (cl ++ i_node rc :: nc :: cr) = S (length (kl ++ nk :: kr))).
      { rewrite !app_length. cbn [length]. lia. }
      destruct (length (kl ++ kr) =? innermax) eqn:Ef.
      + (* full: split_inner_node *)
        apply Nat.eqb_eq in Ef.
        assert (Hslot : length kl <= length (kl ++ kr)) by (rewrite app_length; lia).
        pose proof (inner_post_split (kl ++ kr) (cl ++ c :: cr) (length kl) rc nk nc Esp Ef Hslot Hlen0)
          as Hsplit.
        cbv zeta in Hsplit. destruct Hsplit as (p & Hp1 & Hp2 & Heq).
        rewrite HKS, HCS in Heq. rewrite Heq.
        cbn [i_node i_split i_rank i_ok i_allocs split_elems split_nodes].
        assert (HK : length (kl ++ nk :: kr) = S innermax).
        { rewrite <- Ef, !app_length. cbn [length]. lia. }
        destruct (wide_split_ok h' _ _ p Wlen Wseps Wch HK Hp1 Hp2) as (S1 & S2 & Sk & Sel & Sno).
        split; [rewrite Sel; exact Welems|].
        split; [rewrite Hsb, Rb; reflexivity|].
        split; [exact Rc|].
        split; [split; [exact S1|split; [exact S2|exact Sk]]|].
        rewrite Sno, nodes_inner, Wnodes. lia.
      + (* room left: the new child goes next to the old one *)
        apply Nat.eqb_neq in Ef.
        unfold inner_post. rewrite Esp. cbv zeta. rewrite (proj2 (Nat.eqb_neq _ _) Ef).
        rewrite HKS, HCS.
        cbn [i_node i_split i_rank i_ok i_allocs split_elems split_nodes].
        split; [rewrite app_nil_r; exact Welems|].
        split; [rewrite Hsb, Rb; reflexivity|].
        split; [exact Rc|].
        split.
        * apply shape_inner. exists h'. rewrite !app_length in *. cbn [length] in *.
          repeat split; try lia; try assumption; try (destruct r; lia).
        * rewrite !nodes_inner, Wnodes. lia.
    - (* the child was not split *)
      cbn [split_elems split_nodes] in Ra, Re. rewrite app_nil_r in Ra.
      unfold tail_node in HA'. rewrite Esp in HA'.
      unfold inner_post. rewrite Esp. cbv zeta.
      cbn [i_node i_split i_rank i_ok i_allocs split_elems split_nodes].
      assert (HCS : replace_at (length kl) (i_node rc) (cl ++ c :: cr) = cl ++ i_node rc :: cr)
        by (rewrite Hkl; apply replace_at_mid).
      rewrite HCS.
      split; [|split; [rewrite Hsb, Rb; reflexivity|split; [exact Rc|split]]].
      + cbn [elems]. rewrite flat_map_app. cbn [flat_map]. rewrite Ra, app_nil_r. reflexivity.
      + apply shape_inner. exists h'. rewrite !app_length in *. cbn [length] in *.
        repeat split; try lia; try assumption.
        * rewrite (seps_ok_app kl cl _ _ Hkl), Hs1. cbn [andb].
          destruct kr as [|k0 kr']; [reflexivity|]. cbn [Model.seps_ok].
          destruct HA' as (Hk0 & Hs2' & _). now rewrite Hk0, Hs2'.
        * apply Forall_app. split; [exact Hcl|]. constructor; assumption.
      + rewrite !nodes_inner, !map_app, !list_sum_app. cbn [map]. rewrite !list_sum_cons. lia.
  Qed.
  Lemma child_inv r h' (ks : list K) (cs : list node) c :
    InvN r (S h') (Inner ks cs) -> In c cs -> InvN false h' c.
  Proof.
    intros [Hsh Hks] Hin.
    apply shape_inner in Hsh as (h'' & Eh & _ & _ & _ & _ & _ & Hch). injection Eh as <-.
    split.
    - rewrite Forall_forall in Hch. now apply Hch.
    - apply in_split in Hin as (l1 & l2 & ->). cbn [elems] in Hks.
      rewrite flat_map_app in Hks. cbn [flat_map] in Hks.
      apply keys_sorted_app_inv in Hks as [_ Hks]. apply keys_sorted_app_inv in Hks as [Hks _]. exact Hks.
  Qed.

  Lemma inner_ok' r h' (ks : list K) (cs : list node) c v (rc : ires) :
    InvN r (S h') (Inner ks cs) ->
    nth_error cs (fll ks (key v)) = Some c ->
    res_ok false h' c v rc ->
    res_ok r (S h') (Inner ks cs) v (inner_post ks cs (fll ks (key v)) rc).
  Proof.
    intros HI Ec Hrc.
    assert (Hlen : length cs = S (length ks)).
    { destruct HI as [Hsh _]. apply shape_inner in Hsh as (h'' & _ & Hlen & _). exact Hlen. }
    pose proof (find_lower_lin_le_length ltb ks (key v)) as Hslot.
    remember (fll ks (key v)) as slot eqn:Eslot.
    pose proof (firstn_skipn_nth cs slot c Ec) as Hcs.
    pose proof (eq_sym (firstn_skipn slot ks)) as Hks.
    remember (firstn slot cs) as cl eqn:Ecl. remember (skipn (S slot) cs) as cr eqn:Ecr.
    remember (firstn slot ks) as kl eqn:Ekl. remember (skipn slot ks) as kr eqn:Ekr.
    assert (Hkl : length kl = length cl) by (rewrite Ekl, Ecl, !firstn_length; lia).
    assert (Hsl : slot = length kl) by (rewrite Ekl, firstn_length; lia).
    clear Ecl Ecr Ekl Ekr Ec Hlen Hslot. subst cs ks. rewrite Hsl in Eslot |- *.
    apply inner_ok; [exact Hkl|exact HI|now symmetry|exact Hrc].
  Qed.

  (** ** 5. insert_descend is correct on every node satisfying the node invariant *)
  Theorem ins_ok : forall (n : node) v r h, InvN r h n -> res_ok r h n v (ins n v).
  Proof.
    induction n as [vs|ks cs IH] using node_ind'; intros v r h HI.
    - apply ins_leaf_ok. exact HI.
    - rewrite ins_inner.
      pose proof HI as [Hsh [Hso _]].
      apply shape_inner in Hsh as (h' & -> & Hlen & _ & _ & _ & Hseps & Hch).
      assert (Hne : Forall (fun c : node => elems c <> []) cs).
      { eapply Forall_impl; [|exact Hch]. intros c Hc.
        exact (shape_nonempty ltb key dk leafmax innermax Hl Hi c false h' Hc). }
      cbn [elems] in Hso.
      pose proof (seps_sorted ltb key dk Hswo cs ks Hseps Hne Hso) as Hkso.
      rewrite (find_lower_eq_lin ltb dk Hswo binsearch ks (key v) Hkso).
      pose proof (find_lower_lin_le_length ltb ks (key v)) as Hslot.
      destruct (nth_error cs (fll ks (key v))) as [c|] eqn:Ec.
      2:{ apply nth_error_None in Ec. lia. }
      rewrite apply_nth_spec, Ec.
      apply inner_ok' with (c := c); [exact HI|exact Ec|].
      pose proof (nth_error_In _ _ Ec) as Hin.
      rewrite Forall_forall in IH. apply (IH c Hin).
      exact (child_inv r h' ks cs c HI Hin).
  Qed.
  (** * 6. tree level: insert_start *)
  Lemma ins_empty v : ins (Leaf []) v = mkI (Leaf [v]) None 0 true 0.
  Proof.
    change (ins (Leaf []) v) with (ins_leaf [] v). unfold Model.ins_leaf. cbv zeta. cbn [map length].
    assert (find_lower ltb dk binsearch [] (key v) = 0) as ->
      by (unfold find_lower; destruct binsearch; reflexivity).
    change (0 <? 0) with false. rewrite andb_false_r. cbn [andb].
    destruct (Nat.eqb_spec 0 leafmax) as [E|E]; [lia|]. reflexivity.
  Qed.

  Lemma spec_insert_eta (l : list V) v :
    spec_insert l v = (fst (fst (spec_insert l v)), spec_lower l (key v), snd (spec_insert l v)).
  Proof.
    rewrite <- spec_insert_rank. destruct (spec_insert l v) as [[a b] c]. reflexivity.
  Qed.

  Theorem insert_refines : forall (t : tree) v,
    Inv t ->
    let '(t', rank, ok, al) := insert t v in
    (t_elems t', rank, ok) = spec_insert (t_elems t) v
    /\ Inv t'
    /\ t_nodes t' = t_nodes t + al.
  Proof.
    intros [n|] v HI; unfold Model.insert; cbv beta iota zeta.
    - apply Inv_Some in HI.
      destruct (ins_ok n v true (height n) HI) as (Ra & Rb & Rc & Rd & Re).
      pose proof (spec_insert_sorted (elems n) v (proj2 HI)) as Hsorted.
      cbn [t_elems t_nodes]. rewrite (spec_insert_eta (elems n) v).
      destruct (i_split (ins n v)) as [[nk nc]|] eqn:Esp; cbv beta iota zeta.
      + cbn [split_elems split_nodes] in Ra, Re. destruct Rd as (S1 & S2 & Sk).
        assert (Hroot : shape true (S (height n)) (Inner [nk] [i_node (ins n v); nc])).
        { apply shape_inner. exists (height n). cbn [length Model.seps_ok].
          rewrite Sk. repeat split; try lia. repeat constructor; assumption. }
        split; [|split].
        * cbn [t_elems elems flat_map]. rewrite app_nil_r, Ra, Rb, Rc. reflexivity.
        * apply Inv_Some.
          rewrite (shape_height ltb key dk leafmax innermax Hl Hi _ _ _ Hroot).
          split; [exact Hroot|]. cbn [elems flat_map]. rewrite app_nil_r, Ra. exact Hsorted.
        * cbn [t_nodes]. rewrite nodes_inner. cbn [map]. rewrite !list_sum_cons.
          change (list_sum []) with 0. lia.
      + cbn [split_elems split_nodes] in Ra, Re. rewrite app_nil_r in Ra.
        split; [|split].
        * cbn [t_elems]. rewrite Ra, Rb, Rc. reflexivity.
        * apply Inv_Some.
          rewrite (shape_height ltb key dk leafmax innermax Hl Hi _ _ _ Rd).
          split; [exact Rd|]. rewrite Ra. exact Hsorted.
        * cbn [t_nodes]. lia.
    - rewrite ins_empty. cbn [i_node i_split i_rank i_ok i_allocs]. cbv beta iota zeta.
      split; [|split].
      + cbn [t_elems elems]. unfold Defs.spec_insert, Defs.spec_has, Defs.spec_lower.
        cbn [map Model.find_lower_lin length]. change (0 <? 0) with false.
        cbn [andb]. rewrite andb_false_r. reflexivity.
      + apply Inv_Some. cbn [height]. split.
        * apply shape_leaf. cbn [length]. repeat split; lia.
        * split; [reflexivity|intros _; reflexivity].
      + reflexivity.
  Qed.

  (** corollaries in the form used by the operation histories *)
  Corollary insert_inv (t : tree) v : Inv t -> Inv (fst (fst (fst (insert t v)))).
  Proof.
    intros HI. pose proof (insert_refines t v HI) as H.
    destruct (insert t v) as [[[t' rank] ok] al]. cbn [fst]. tauto.
  Qed.

  Corollary insert_elems (t : tree) v :
    Inv t -> t_elems (fst (fst (fst (insert t v)))) = fst (fst (spec_insert (t_elems t) v)).
  Proof.
    intros HI. pose proof (insert_refines t v HI) as H.
    destruct (insert t v) as [[[t' rank] ok] al]. cbn [fst]. destruct H as [H _].
    rewrite <- H. reflexivity.
  Qed.

  Corollary insert_size (t : tree) v :
    Inv t ->
    t_size (fst (fst (fst (insert t v)))) = if snd (fst (insert t v)) then S (t_size t) else t_size t.
  Proof.
    intros HI. pose proof (insert_refines t v HI) as H.
    destruct (insert t v) as [[[t' rank] ok] al]. cbn [fst snd]. destruct H as [H _].
    assert (Hsz : forall t0 : tree, t_size t0 = length (t_elems t0))
      by (intros [n0|]; [apply size_elems|reflexivity]).
    rewrite !Hsz. pose proof (spec_insert_length (t_elems t) v) as Hlen.
    rewrite <- H in Hlen. exact Hlen.
  Qed.
End Insert.
