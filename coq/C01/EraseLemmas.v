(** C01 — shared helpers for the erase proofs (EraseElems.v, EraseInv.v):
    list surgery, sortedness under deletion, the weak "uniform height" invariant [uh],
    the parent's post-processing of a child's erase as a non-recursive function [inner_finish],
    decomposed forms of [apply_action], and the fact that [apply_action] never changes [elems]. *)
From Coq Require Import List Bool Arith Lia.
From TLXV Require Import Common.Order C01.Model C01.Defs C01.SearchProofs C01.EraseDecide.
Import ListNotations.

Lemma div2_bounds n : 2 * (n / 2) <= n /\ n < 2 * (n / 2) + 2.
Proof.
  pose proof (Nat.div_mod n 2 ltac:(lia)) as H1. pose proof (Nat.mod_upper_bound n 2 ltac:(lia)) as H2.
  lia.
Qed.

(** ** list surgery *)
Section Lists.
  Context {A : Type}.

  Lemma firstn_len_app (a b : list A) : firstn (length a) (a ++ b) = a.
  Proof. induction a as [|x a IH]; cbn [length app firstn]; [now destruct b|]. now rewrite IH. Qed.

  Lemma skipn_len_app (a b : list A) : skipn (length a) (a ++ b) = b.
  Proof. induction a as [|x a IH]; cbn [length app skipn]; auto. Qed.

  Lemma skipn_S_len_app (a : list A) x b : skipn (S (length a)) (a ++ x :: b) = b.
  Proof. induction a as [|y a IH]; cbn [length app skipn]; auto. Qed.

  Lemma skipn_SS_len_app (a : list A) x y b : skipn (S (S (length a))) (a ++ x :: y :: b) = b.
  Proof. induction a as [|z a IH]; cbn [length app skipn]; auto. Qed.

  Lemma nth_error_len_app (a : list A) x b : nth_error (a ++ x :: b) (length a) = Some x.
  Proof. induction a as [|y a IH]; cbn [length app nth_error]; auto. Qed.

  Lemma nth_error_S_len_app (a : list A) x y b : nth_error (a ++ x :: y :: b) (S (length a)) = Some y.
  Proof. induction a as [|z a IH]; cbn [length app nth_error]; auto. Qed.

  Lemma nth_len_app (a : list A) x b d : nth (length a) (a ++ x :: b) d = x.
  Proof. induction a as [|y a IH]; cbn [length app nth]; auto. Qed.

  Lemma split_nth (l : list A) i x :
    nth_error l i = Some x -> l = firstn i l ++ x :: skipn (S i) l /\ length (firstn i l) = i.
  Proof.
    intros H. split; [now apply firstn_skipn_nth|].
    apply firstn_length_le. assert (i < length l) by (apply nth_error_Some; congruence). lia.
  Qed.

  Lemma split_nth2 (l : list A) i x y :
    nth_error l i = Some x -> nth_error l (S i) = Some y ->
    l = firstn i l ++ x :: y :: skipn (S (S i)) l /\ length (firstn i l) = i.
  Proof.
    revert i. induction l as [|a l IH]; intros [|i] Hx Hy; cbn [nth_error] in *; try discriminate.
    - destruct l as [|b l]; cbn [nth_error] in Hy; [discriminate|].
      inversion Hx; inversion Hy; subst. cbn. auto.
    - destruct (IH i Hx Hy) as [E L]. cbn [firstn skipn length app]. split; [f_equal; exact E|now rewrite L].
  Qed.

  Lemma replace_at_len_app (a : list A) x y b : replace_at (length a) y (a ++ x :: b) = a ++ y :: b.
  Proof.
    unfold replace_at. rewrite app_length. cbn [length].
    replace (length a <? length a + S (length b)) with true by (symmetry; apply Nat.ltb_lt; lia).
    now rewrite firstn_len_app, skipn_S_len_app.
  Qed.

  Lemma replace_at_ge i (y : A) l : length l <= i -> replace_at i y l = l.
  Proof. intros H. unfold replace_at. now replace (i <? length l) with false by (symmetry; apply Nat.ltb_ge; lia). Qed.

  Lemma remove_at_len_app (a : list A) x b : remove_at (length a) (a ++ x :: b) = a ++ b.
  Proof. unfold remove_at. now rewrite firstn_len_app, skipn_S_len_app. Qed.

  Lemma remove_at_ge i (l : list A) : length l <= i -> remove_at i l = l.
  Proof.
    intros H. unfold remove_at. rewrite firstn_all2 by lia. rewrite skipn_all2 by lia. apply app_nil_r.
  Qed.

  Lemma remove_at_app_r (a b : list A) i : remove_at (length a + i) (a ++ b) = a ++ remove_at i b.
  Proof.
    unfold remove_at. rewrite firstn_app, skipn_app.
    rewrite firstn_all2 by lia. rewrite (skipn_all2 (n := S (length a + i))) by lia.
    replace (length a + i - length a) with i by lia.
    replace (S (length a + i) - length a) with (S i) by lia.
    cbn [app]. now rewrite app_assoc.
  Qed.

  Lemma remove_at_app_l (a b : list A) i : i < length a -> remove_at i (a ++ b) = remove_at i a ++ b.
  Proof.
    intros H. unfold remove_at. rewrite firstn_app, skipn_app.
    replace (i - length a) with 0 by lia. replace (S i - length a) with 0 by lia.
    cbn [firstn skipn]. now rewrite app_nil_r, app_assoc.
  Qed.

  Lemma remove_at_mid (a c b : list A) i :
    i < length c -> remove_at (length a + i) (a ++ c ++ b) = a ++ remove_at i c ++ b.
  Proof. intros H. now rewrite remove_at_app_r, remove_at_app_l. Qed.

  Lemma nth_mid (a c b : list A) i d : i < length c -> nth (length a + i) (a ++ c ++ b) d = nth i c d.
  Proof. intros H. rewrite app_nth2_plus. now apply app_nth1. Qed.

  Lemma last_app_ne (a b : list A) d : b <> [] -> last (a ++ b) d = last b d.
  Proof.
    intros Hb. induction a as [|x a IH]; [reflexivity|].
    cbn [app]. destruct (a ++ b) eqn:E.
    - apply app_eq_nil in E as [_ E]. contradiction.
    - cbn [last]. exact IH.
  Qed.

  Lemma last_remove_at (l : list A) i d :
    S i < length l -> last (remove_at i l) d = last l d.
  Proof.
    intros H. rewrite <- (firstn_skipn (S i) l) at 2. unfold remove_at.
    assert (Hne : skipn (S i) l <> []).
    { intros E. apply (f_equal (@length A)) in E. rewrite skipn_length in E. cbn [length] in E. lia. }
    now rewrite !last_app_ne.
  Qed.

  Lemma map_remove_at {B} (f : A -> B) i l : map f (remove_at i l) = remove_at i (map f l).
  Proof. unfold remove_at. now rewrite map_app, firstn_map, skipn_map. Qed.

  Lemma Forall_firstn (P : A -> Prop) n l : Forall P l -> Forall P (firstn n l).
  Proof. intros H. rewrite <- (firstn_skipn n l) in H. now apply Forall_app in H. Qed.

  Lemma Forall_skipn (P : A -> Prop) n l : Forall P l -> Forall P (skipn n l).
  Proof. intros H. rewrite <- (firstn_skipn n l) in H. now apply Forall_app in H. Qed.

  Lemma Forall_nth_error (P : A -> Prop) l i x : Forall P l -> nth_error l i = Some x -> P x.
  Proof. intros H E. apply nth_error_In in E. rewrite Forall_forall in H. auto. Qed.
End Lists.

Lemma list_sum_cons x l : list_sum (x :: l) = x + list_sum l.
Proof. reflexivity. Qed.

Lemma list_sum_map_add {A} (f g : A -> nat) l :
  list_sum (map (fun x => f x + g x) l) = list_sum (map f l) + list_sum (map g l).
Proof. induction l as [|x l IH]; [reflexivity|]. cbn [map]. rewrite !list_sum_cons. lia. Qed.

Lemma length_flat_map {A B} (f : A -> list B) l :
  length (flat_map f l) = list_sum (map (fun x => length (f x)) l).
Proof. induction l as [|x l IH]; [reflexivity|]. cbn [flat_map map]. rewrite list_sum_cons, app_length, IH. reflexivity. Qed.

(** ** sortedness w.r.t. a transitive boolean relation; deletion keeps it *)
Section SortedR.
  Context {A : Type}.
  Variable R : A -> A -> bool.
  Hypothesis Rtrans : forall x y z, R x y = true -> R y z = true -> R x z = true.

  Fixpoint sortedR (l : list A) : bool :=
    match l with
    | [] => true
    | x :: r => match r with [] => true | y :: _ => R x y && sortedR r end
    end.

  Lemma sortedR_cons x r :
    sortedR (x :: r) = true <-> sortedR r = true /\ forall y, In y r -> R x y = true.
  Proof.
    revert x. induction r as [|y r IH]; intros x.
    - split; [intros _; split; [reflexivity|intros y []]|reflexivity].
    - change (sortedR (x :: y :: r)) with (R x y && sortedR (y :: r)).
      rewrite andb_true_iff. split.
      + intros [Hxy Hr]. split; [exact Hr|]. intros z [<-|Hz]; [exact Hxy|].
        apply IH in Hr as [_ Hy]. eapply Rtrans; [exact Hxy|]. now apply Hy.
      + intros [Hr Hx]. split; [apply Hx; now left|exact Hr].
  Qed.

  Lemma sortedR_app a b :
    sortedR (a ++ b) = true <->
    sortedR a = true /\ sortedR b = true /\ forall x y, In x a -> In y b -> R x y = true.
  Proof.
    induction a as [|x a IH]; cbn [app].
    - split; [intros H; repeat split; auto; intros x y []|tauto].
    - rewrite !sortedR_cons, IH. split.
      + intros ((Sa & Sb & Hab) & Hx). repeat split; auto.
        * intros y Hy. apply Hx, in_or_app. now left.
        * intros x' y [<-|Hx'] Hy; [apply Hx, in_or_app; now right|now apply Hab].
      + intros ((Sa & Hx) & Sb & Hab). repeat split; auto.
        * intros x' y Hx' Hy. apply Hab; [now right|exact Hy].
        * intros y Hy. apply in_app_or in Hy as [Hy|Hy]; [now apply Hx|apply Hab; [now left|exact Hy]].
  Qed.

  Lemma sortedR_remove_at i l : sortedR l = true -> sortedR (remove_at i l) = true.
  Proof.
    intros H. destruct (nth_error l i) as [x|] eqn:E.
    - apply firstn_skipn_nth in E. unfold remove_at. rewrite E in H.
      apply sortedR_app in H as (Sa & Sb & Hab). apply sortedR_cons in Sb as [Sb _].
      apply sortedR_app. repeat split; auto. intros a b Ha Hb. apply Hab; [exact Ha|now right].
    - apply nth_error_None in E. now rewrite remove_at_ge.
  Qed.
End SortedR.

(** ** the model-specific part *)
Section EraseLemmas.
  Context {K V : Type}.
  Variable ltb : K -> K -> bool.
  Variable key : V -> K.
  Variable dk : K.
  Variables leafmax innermax : nat.
  Variable dup binsearch : bool.
  Hypothesis Hswo : SWO ltb.
  Hypothesis Hl : 4 <= leafmax.
  Hypothesis Hi : 4 <= innermax.

  Notation node := (@node K V).
  Notation eres := (@eres K V).
  Notation kle := (kle ltb).
  Notation keq := (keq ltb).
  Notation leafmin := (leafmin leafmax).
  Notation innermin := (innermin innermax).
  Notation maxkey := (maxkey key dk).
  Notation lastkey := (lastkey key dk).
  Notation sortedk := (sortedk ltb).
  Notation sortedk_strict := (sortedk_strict ltb).
  Notation seps_ok := (seps_ok ltb key dk).
  Notation shape := (shape ltb key dk leafmax innermax).
  Notation keys_sorted := (keys_sorted ltb key dup).
  Notation InvN := (InvN ltb key dk leafmax innermax dup).
  Notation find_lower := (find_lower ltb dk binsearch).
  Notation find_lower_lin := (find_lower_lin ltb).
  Notation erase_desc := (erase_desc ltb key dk leafmax innermax binsearch).
  Notation apply_action := (apply_action key dk).
  Notation decide := (@decide K V leafmax innermax).
  Notation shift_left := (shift_left key dk).
  Notation shift_right := (shift_right key dk).
  Notation pick_child := (pick_child ltb dk binsearch).
  Notation search_child := (search_child ltb dk).
  Notation leaf_slot := (leaf_slot ltb key dk binsearch).

  Lemma leafmin_ge2 : 2 <= leafmin.
  Proof using Hl. clear Hi. unfold Model.leafmin. pose proof (div2_bounds leafmax). lia. Qed.
  Lemma innermin_ge2 : 2 <= innermin.
  Proof using Hi. clear Hl. unfold Model.innermin. pose proof (div2_bounds innermax). lia. Qed.
  Lemma leafmin_twice : 2 * leafmin <= leafmax.
  Proof using. clear Hl Hi. unfold Model.leafmin. pose proof (div2_bounds leafmax). lia. Qed.
  Lemma innermin_twice : 2 * innermin <= innermax.
  Proof using. clear Hl Hi. unfold Model.innermin. pose proof (div2_bounds innermax). lia. Qed.

  (** *** order facts *)
  Lemma keq_refl x : keq x x = true.
  Proof. unfold Model.keq. now rewrite (swo_irrefl _ Hswo). Qed.

  Lemma keq_kle_l a b : keq a b = true -> kle a b = true.
  Proof. intros H. now apply keq_kle in H. Qed.
  Lemma keq_kle_r a b : keq a b = true -> kle b a = true.
  Proof. intros H. now apply keq_kle in H. Qed.

  Lemma sortedk_R l : sortedk l = sortedR kle l.
  Proof. reflexivity. Qed.
  Lemma sortedk_strict_R l : sortedk_strict l = sortedR ltb l.
  Proof. reflexivity. Qed.

  Lemma sortedk_remove_at i l : sortedk l = true -> sortedk (remove_at i l) = true.
  Proof. rewrite !sortedk_R. apply sortedR_remove_at. intros x y z. apply (kle_trans ltb Hswo). Qed.

  Lemma sortedk_strict_remove_at i l : sortedk_strict l = true -> sortedk_strict (remove_at i l) = true.
  Proof. rewrite !sortedk_strict_R. apply sortedR_remove_at. intros x y z. apply (swo_trans _ Hswo). Qed.

  Lemma sortedk_strict_app a b :
    sortedk_strict (a ++ b) = true -> sortedk_strict a = true /\ sortedk_strict b = true.
  Proof.
    rewrite !sortedk_strict_R. intros H. apply sortedR_app in H; [tauto|].
    intros x y z. apply (swo_trans _ Hswo).
  Qed.

  Lemma keys_sorted_remove_at i l : keys_sorted l -> keys_sorted (remove_at i l).
  Proof.
    intros [A B]. split; rewrite map_remove_at.
    - now apply sortedk_remove_at.
    - intros E. apply sortedk_strict_remove_at. now apply B.
  Qed.

  Lemma keys_sorted_app a b : keys_sorted (a ++ b) -> keys_sorted a /\ keys_sorted b.
  Proof.
    intros [A B]. rewrite map_app in A, B.
    pose proof (sortedk_app_l ltb Hswo _ _ A) as A1. pose proof (sortedk_app_r ltb Hswo _ _ A) as A2.
    split; (split; [assumption|]); intros E; specialize (B E); apply sortedk_strict_app in B; tauto.
  Qed.

  (** *** size, nodes, elems *)
  Lemma size_elems (n : node) : size n = length (elems n).
  Proof.
    induction n as [vs|ks cs IH] using node_ind'; [reflexivity|].
    cbn [size elems]. rewrite length_flat_map.
    induction IH as [|c cs Hc _ IHcs]; [reflexivity|]. cbn [map]. now rewrite !list_sum_cons, Hc, IHcs.
  Qed.

  Lemma sizes_before_len s (cs : list node) : sizes_before s cs = length (flat_map elems (firstn s cs)).
  Proof.
    unfold sizes_before. rewrite length_flat_map. f_equal. apply map_ext. intros c. apply size_elems.
  Qed.

  Lemma nodes_inner ks (cs : list node) : nodes (Inner ks cs) = S (list_sum (map nodes cs)).
  Proof using.
    clear Hl Hi. unfold nodes at 1. cbn [count_leaves count_inner].
    replace (map nodes cs) with (map (fun c : node => count_leaves c + count_inner c) cs) by reflexivity.
    rewrite list_sum_map_add. lia.
  Qed.

  Lemma nodes_leaf (vs : list V) : nodes (Leaf vs : node) = 1.
  Proof. reflexivity. Qed.

  Lemma list_sum_nodes_app (a b : list node) :
    list_sum (map nodes (a ++ b)) = list_sum (map nodes a) + list_sum (map nodes b).
  Proof. now rewrite map_app, list_sum_app. Qed.

  (** *** uniform height *)
  Fixpoint uh (h : nat) (n : node) : Prop :=
    match h with
    | 0 => match n with Leaf _ => True | Inner _ _ => False end
    | S h' => match n with Leaf _ => False | Inner _ cs => Forall (uh h') cs end
    end.

  Lemma shape_uh r h n : shape r h n -> uh h n.
  Proof.
    revert r n. induction h as [|h IH]; intros r [vs|ks cs] H.
    - exact I.
    - apply shape_inner in H as (h' & E & _). discriminate.
    - apply shape_leaf in H as (E & _). discriminate.
    - apply shape_inner in H as (h' & E & _ & _ & _ & _ & _ & F). inversion E; subst h'.
      cbn [uh]. eapply Forall_impl; [|exact F]. intros c. apply IH.
  Qed.

  (** non-root shapes have elements *)
  Lemma shape_elems_ne r h n : shape r h n -> elems n <> [].
  Proof.
    revert r n. induction h as [|h IH]; intros r [vs|ks cs] H.
    - apply shape_leaf in H as (_ & _ & _ & L). cbn [elems]. intros ->. cbn in L. lia.
    - apply shape_inner in H as (h' & E & _). discriminate.
    - apply shape_leaf in H as (E & _). discriminate.
    - apply shape_inner in H as (h' & E & L & _ & _ & _ & _ & F). inversion E; subst h'.
      destruct cs as [|c cs]; [discriminate|]. cbn [elems flat_map]. inversion F as [|? ? Hc _]; subst.
      intros E'. apply app_eq_nil in E' as [E' _]. exact (IH _ _ Hc E').
  Qed.

  Lemma shape_height r h n : shape r h n -> height n = h.
  Proof.
    revert r n. induction h as [|h IH]; intros r [vs|ks cs] H.
    - reflexivity.
    - apply shape_inner in H as (h' & E & _). discriminate.
    - apply shape_leaf in H as (E & _). discriminate.
    - apply shape_inner in H as (h' & E & L & _ & _ & _ & _ & F). inversion E; subst h'.
      destruct cs as [|c cs]; [discriminate|]. cbn [height]. inversion F as [|? ? Hc _]; subst.
      f_equal. exact (IH _ _ Hc).
  Qed.

  (** *** merge / shift keep the elements (given equal heights) *)
  Lemma merge_elems h X Y sep :
    uh h X -> uh h Y ->
    elems (merge_nodes X Y sep) = elems X ++ elems Y /\ uh h (merge_nodes X Y sep).
  Proof.
    destruct h as [|h]; destruct X as [a|ka ca]; destruct Y as [b|kb cb]; cbn [uh]; try tauto; intros HX HY.
    cbn [merge_nodes elems uh]. split; [apply flat_map_app|]. apply Forall_app. auto.
  Qed.

  Lemma shift_left_elems h X Y sep :
    uh h X -> uh h Y ->
    let '(X', Y', _) := shift_left X Y sep in
    elems X' ++ elems Y' = elems X ++ elems Y /\ uh h X' /\ uh h Y'.
  Proof.
    destruct h as [|h]; destruct X as [a|ka ca]; destruct Y as [b|kb cb]; cbn [uh]; try tauto; intros HX HY.
    - cbn [Model.shift_left elems uh]. rewrite <- app_assoc, firstn_skipn. auto.
    - cbn [Model.shift_left elems uh]. rewrite flat_map_app, <- app_assoc, <- flat_map_app, firstn_skipn.
      split; [reflexivity|]. split; [apply Forall_app; split; [exact HX|now apply Forall_firstn]|now apply Forall_skipn].
  Qed.

  Lemma shift_right_elems h X Y sep :
    uh h X -> uh h Y ->
    let '(X', Y', _) := shift_right X Y sep in
    elems X' ++ elems Y' = elems X ++ elems Y /\ uh h X' /\ uh h Y'.
  Proof.
    destruct h as [|h]; destruct X as [a|ka ca]; destruct Y as [b|kb cb]; cbn [uh]; try tauto; intros HX HY.
    - cbn [Model.shift_right elems uh]. rewrite app_assoc, firstn_skipn. auto.
    - cbn [Model.shift_right elems uh]. rewrite flat_map_app, app_assoc, <- flat_map_app.
      replace (length ka - (length ka - length kb) / 2 + 1) with (S (length ka - (length ka - length kb) / 2)) by lia.
      rewrite firstn_skipn.
      split; [reflexivity|]. split; [now apply Forall_firstn|apply Forall_app; split; [now apply Forall_skipn|exact HY]].
  Qed.

  (** *** [apply_action] on a decomposed child array *)
  Definition merged_keys (p : nat) (m : node) (ks : list K) : list K :=
    match m with Leaf vs => replace_at p (lastkey vs) (remove_at p ks) | Inner _ _ => remove_at p ks end.

  Lemma apply_mergeL_dec ks (A : list node) X Y B :
    apply_action ks (A ++ X :: Y :: B) (S (length A)) AMergeL =
    let m := merge_nodes X Y (nth (length A) ks dk) in
    (merged_keys (length A) m ks, A ++ m :: B, 1, false).
  Proof.
    unfold Model.apply_action. rewrite nth_error_len_app, nth_error_S_len_app.
    cbv zeta. rewrite firstn_len_app, skipn_SS_len_app. reflexivity.
  Qed.

  Lemma apply_mergeR_dec ks (A : list node) X Y B :
    apply_action ks (A ++ X :: Y :: B) (length A) AMergeR =
    let m := merge_nodes X Y (nth (length A) ks dk) in
    (merged_keys (length A) m ks, A ++ m :: B, 1, false).
  Proof.
    unfold Model.apply_action. rewrite nth_error_len_app, nth_error_S_len_app.
    cbv zeta. rewrite firstn_len_app, skipn_SS_len_app. reflexivity.
  Qed.

  Lemma apply_shiftL_dec ks (A : list node) X Y B :
    apply_action ks (A ++ X :: Y :: B) (length A) AShiftL =
    let '(X', Y', sep) := shift_left X Y (nth (length A) ks dk) in
    (replace_at (length A) sep ks, A ++ X' :: Y' :: B, 0, negb (length A <? length ks)).
  Proof.
    unfold Model.apply_action. rewrite nth_error_len_app, nth_error_S_len_app.
    rewrite firstn_len_app, skipn_SS_len_app. reflexivity.
  Qed.

  Lemma apply_shiftR_dec ks (A : list node) X Y B :
    apply_action ks (A ++ X :: Y :: B) (S (length A)) AShiftR =
    let '(X', Y', sep) := shift_right X Y (nth (length A) ks dk) in
    (replace_at (length A) sep ks, A ++ X' :: Y' :: B, 0, false).
  Proof.
    unfold Model.apply_action. rewrite nth_error_len_app, nth_error_S_len_app.
    rewrite firstn_len_app, skipn_SS_len_app. reflexivity.
  Qed.

  (** *** [apply_action] never changes the element sequence of the children *)
  Lemma flat_pair (A : list node) X Y B :
    flat_map elems (A ++ X :: Y :: B) = flat_map elems A ++ (elems X ++ elems Y) ++ flat_map elems B.
  Proof. rewrite flat_map_app. cbn [flat_map]. now rewrite <- !app_assoc. Qed.

  Lemma flat_single (A : list node) M B :
    flat_map elems (A ++ M :: B) = flat_map elems A ++ elems M ++ flat_map elems B.
  Proof. rewrite flat_map_app. reflexivity. Qed.

  Lemma Forall_pair (P : node -> Prop) (A : list node) X Y B :
    Forall P (A ++ X :: Y :: B) <-> Forall P A /\ P X /\ P Y /\ Forall P B.
  Proof.
    rewrite Forall_app. split.
    - intros [HA H]. inversion H as [|? ? HX H']; subst. inversion H' as [|? ? HY HB]; subst. auto.
    - intros (HA & HX & HY & HB). auto.
  Qed.

  Lemma Forall_single (P : node -> Prop) (A : list node) M B :
    Forall P (A ++ M :: B) <-> Forall P A /\ P M /\ Forall P B.
  Proof.
    rewrite Forall_app. split.
    - intros [HA H]. inversion H; subst. auto.
    - intros (HA & HX & HB). auto.
  Qed.

  Lemma apply_action_elems h ks (cs : list node) s a :
    Forall (uh h) cs ->
    let '(ks2, cs2, fr, bad) := apply_action ks cs s a in
    flat_map elems cs2 = flat_map elems cs /\ Forall (uh h) cs2.
  Proof.
    intros HF.
    assert (Hpair : forall p X Y, nth_error cs p = Some X -> nth_error cs (S p) = Some Y ->
              exists A B, cs = A ++ X :: Y :: B /\ length A = p).
    { intros p X Y HX HY. destruct (split_nth2 cs p X Y HX HY) as [E L]. eauto. }
    destruct a.
    - cbn. auto.
    - cbn. auto.
    - (* AMergeL *)
      destruct s as [|p]; [cbn; auto|].
      destruct (nth_error cs p) as [X|] eqn:EX; [|unfold Model.apply_action; rewrite EX; auto].
      destruct (nth_error cs (S p)) as [Y|] eqn:EY; [|unfold Model.apply_action; rewrite EX, EY; auto].
      destruct (Hpair p X Y EX EY) as (A & B & -> & <-).
      rewrite apply_mergeL_dec. cbv zeta.
      apply Forall_pair in HF as (HA & HX & HY & HB).
      destruct (merge_elems h X Y (nth (length A) ks dk) HX HY) as [Em Um].
      rewrite flat_single, flat_pair, Em. split; [reflexivity|]. apply Forall_single. auto.
    - (* AMergeR *)
      destruct (nth_error cs s) as [X|] eqn:EX; [|unfold Model.apply_action; rewrite EX; auto].
      destruct (nth_error cs (S s)) as [Y|] eqn:EY; [|unfold Model.apply_action; rewrite EX, EY; auto].
      destruct (Hpair s X Y EX EY) as (A & B & -> & <-).
      rewrite apply_mergeR_dec. cbv zeta.
      apply Forall_pair in HF as (HA & HX & HY & HB).
      destruct (merge_elems h X Y (nth (length A) ks dk) HX HY) as [Em Um].
      rewrite flat_single, flat_pair, Em. split; [reflexivity|]. apply Forall_single. auto.
    - (* AShiftL *)
      destruct (nth_error cs s) as [X|] eqn:EX; [|unfold Model.apply_action; rewrite EX; auto].
      destruct (nth_error cs (S s)) as [Y|] eqn:EY; [|unfold Model.apply_action; rewrite EX, EY; auto].
      destruct (Hpair s X Y EX EY) as (A & B & -> & <-).
      rewrite apply_shiftL_dec.
      apply Forall_pair in HF as (HA & HX & HY & HB).
      pose proof (shift_left_elems h X Y (nth (length A) ks dk) HX HY) as Hs.
      destruct (shift_left X Y (nth (length A) ks dk)) as [[X' Y'] sep].
      destruct Hs as (Es & UX & UY).
      rewrite !flat_pair, Es. split; [reflexivity|]. apply Forall_pair. auto.
    - (* AShiftR *)
      destruct s as [|p]; [cbn; auto|].
      destruct (nth_error cs p) as [X|] eqn:EX; [|unfold Model.apply_action; rewrite EX; auto].
      destruct (nth_error cs (S p)) as [Y|] eqn:EY; [|unfold Model.apply_action; rewrite EX, EY; auto].
      destruct (Hpair p X Y EX EY) as (A & B & -> & <-).
      rewrite apply_shiftR_dec.
      apply Forall_pair in HF as (HA & HX & HY & HB).
      pose proof (shift_right_elems h X Y (nth (length A) ks dk) HX HY) as Hs.
      destruct (shift_right X Y (nth (length A) ks dk)) as [[X' Y'] sep].
      destruct Hs as (Es & UX & UY).
      rewrite !flat_pair, Es. split; [reflexivity|]. apply Forall_pair. auto.
  Qed.

  (** *** the Inner case of [erase_desc] as non-recursive pieces *)
  Definition child_left (cs : list node) (left : option node) (s : nat) : option node :=
    if s =? 0 then (match left with
                    | Some (Inner lks lcs) => nth_error lcs (length lks - 1)
                    | _ => None end)
    else nth_error cs (s - 1).

  Definition child_right (cs : list node) (right : option node) (s u : nat) : option node :=
    if s =? u then (match right with Some r => first_child r | None => None end)
    else nth_error cs (S s).

  (** btree_update_lastkey: fix the separator here, or forward it upwards *)
  Definition fix_sep (ks : list K) (s : nat) (last : option K) : list K * option K :=
    match last with
    | Some lk => if s <? length ks then (replace_at s lk ks, None) else (ks, Some lk)
    | None => (ks, None)
    end.

  Definition own_action (isroot : bool) (minfill use : nat) (left right : option node) (lp rp lr : bool) : action :=
    if (use <? minfill) && negb (isroot && (1 <=? use)) then decide left right lp rp lr else ANone.

  Definition inner_finish (ks : list K) (cs : list node) (isroot : bool) (left right : option node)
             (lp rp lr : bool) (s : nat) (r : eres) : eres :=
    if negb (e_found r) then not_found (Inner ks cs)
    else
      let cs1 := replace_at s (e_node r) cs in
      let '(ks1, fwd) := fix_sep ks s (e_last r) in
      let '(ks2, cs2, fr, bad) := apply_action ks1 cs1 s (e_act r) in
      mkE true (Inner ks2 cs2) fwd (own_action isroot innermin (length ks2) left right lp rp lr)
          (e_frees r + fr) (e_bad r || bad).

  Definition child_call (ks : list K) (cs : list node) (left right : option node) (lr : bool)
             (s : nat) (tg' : target) (c : node) : eres :=
    erase_desc c tg' false (child_left cs left s) (child_right cs right s (length ks))
               (lp_of s) (rp_of s (length ks)) (lr_of s (length ks) lr).

  Lemma erase_desc_inner ks cs tg isroot left right lp rp lr :
    erase_desc (Inner ks cs) tg isroot left right lp rp lr =
    match pick_child ks cs tg with
    | None => not_found (Inner ks cs)
    | Some (s, tg') =>
      inner_finish ks cs isroot left right lp rp lr s
                   (apply_nth (child_call ks cs left right lr s tg') (not_found dnode) cs s)
    end.
  Proof. reflexivity. Qed.

  Lemma erase_desc_leaf vs tg isroot left right lp rp lr :
    erase_desc (Leaf vs) tg isroot left right lp rp lr =
    match leaf_slot vs tg with
    | None => not_found (Leaf vs)
    | Some slot =>
      let vs' := remove_at slot vs in
      mkE true (Leaf vs')
          (if slot =? length vs' then (if 1 <=? length vs' then Some (lastkey vs') else None) else None)
          (own_action isroot leafmin (length vs') left right lp rp lr)
          0 (negb isroot && (length vs' =? 0))
    end.
  Proof. reflexivity. Qed.

  Lemma inner_finish_notfound ks cs isroot left right lp rp lr s r :
    e_found r = false -> inner_finish ks cs isroot left right lp rp lr s r = not_found (Inner ks cs).
  Proof. intros E. unfold inner_finish. now rewrite E. Qed.

  Lemma inner_finish_found ks cs isroot left right lp rp lr s r ks1 fwd ks2 cs2 fr bad :
    e_found r = true ->
    fix_sep ks s (e_last r) = (ks1, fwd) ->
    apply_action ks1 (replace_at s (e_node r) cs) s (e_act r) = (ks2, cs2, fr, bad) ->
    inner_finish ks cs isroot left right lp rp lr s r =
    mkE true (Inner ks2 cs2) fwd (own_action isroot innermin (length ks2) left right lp rp lr)
        (e_frees r + fr) (e_bad r || bad).
  Proof. intros E E1 E2. unfold inner_finish. rewrite E. cbn [negb]. cbv zeta. rewrite E1, E2. reflexivity. Qed.

  (** the child result seen through [apply_nth] *)
  Lemma apply_nth_child (f : node -> eres) (cs : list node) s :
    (exists c, nth_error cs s = Some c /\ apply_nth f (not_found dnode) cs s = f c) \/
    (nth_error cs s = None /\ apply_nth f (not_found dnode) cs s = not_found dnode).
  Proof. rewrite apply_nth_spec. destruct (nth_error cs s) as [c|]; eauto. Qed.

  (** *** [erase_desc] keeps the uniform height *)
  Lemma erase_desc_uh n : forall h tg isroot left right lp rp lr,
    uh h n -> uh h (e_node (erase_desc n tg isroot left right lp rp lr)).
  Proof.
    induction n as [vs|ks cs IH] using node_ind'; intros h tg isroot left right lp rp lr Hu.
    - rewrite erase_desc_leaf. destruct (leaf_slot vs tg); [|exact Hu].
      destruct h; [exact I|exact Hu].
    - rewrite erase_desc_inner. destruct (pick_child ks cs tg) as [[s tg']|]; [|exact Hu].
      destruct h as [|h]; [destruct Hu|]. cbn [uh] in Hu.
      set (f := child_call ks cs left right lr s tg').
      destruct (apply_nth_child f cs s) as [(c & Ec & ->)|[En ->]];
        [|rewrite inner_finish_notfound by reflexivity; exact Hu].
      destruct (e_found (f c)) eqn:Ef; [|rewrite inner_finish_notfound by exact Ef; exact Hu].
      destruct (fix_sep ks s (e_last (f c))) as [ks1 fwd] eqn:E1.
      assert (Hc : uh h (e_node (f c))).
      { unfold f, child_call. apply (Forall_nth_error _ _ _ _ IH Ec). exact (Forall_nth_error _ _ _ _ Hu Ec). }
      assert (H1 : Forall (uh h) (replace_at s (e_node (f c)) cs)).
      { destruct (split_nth cs s c Ec) as [E L]. rewrite E, <- L at 1. rewrite replace_at_len_app.
        rewrite E in Hu. apply Forall_single in Hu as (HA & _ & HB). apply Forall_single. auto. }
      pose proof (apply_action_elems h ks1 _ s (e_act (f c)) H1) as Ha.
      destruct (apply_action ks1 (replace_at s (e_node (f c)) cs) s (e_act (f c))) as [[[ks2 cs2] fr] bad] eqn:E2.
      rewrite (inner_finish_found _ _ _ _ _ _ _ _ _ _ _ _ _ _ _ _ Ef E1 E2). cbn [e_node uh]. tauto.
  Qed.

  (** *** [apply_action] keeps the arity #children = #keys + 1 *)
  Lemma merged_keys_length p m ks : p < length ks -> length (merged_keys p m ks) = length ks - 1.
  Proof.
    intros H. unfold merged_keys. destruct m; [rewrite replace_at_length|]; now apply remove_at_length.
  Qed.

  Lemma apply_action_arity ks (cs : list node) s a :
    length cs = S (length ks) ->
    let '(ks2, cs2, fr, bad) := apply_action ks cs s a in length cs2 = S (length ks2).
  Proof.
    intros HL.
    assert (Hpair : forall p X Y, nth_error cs p = Some X -> nth_error cs (S p) = Some Y ->
              exists A B, cs = A ++ X :: Y :: B /\ length A = p).
    { intros p X Y HX HY. destruct (split_nth2 cs p X Y HX HY) as [E L]. eauto. }
    destruct a.
    - cbn. auto.
    - cbn. auto.
    - destruct s as [|p]; [cbn; auto|].
      destruct (nth_error cs p) as [X|] eqn:EX; [|unfold Model.apply_action; rewrite EX; auto].
      destruct (nth_error cs (S p)) as [Y|] eqn:EY; [|unfold Model.apply_action; rewrite EX, EY; auto].
      destruct (Hpair p X Y EX EY) as (A & B & -> & <-).
      rewrite apply_mergeL_dec. cbv beta iota zeta. rewrite app_length in HL. cbn [length] in HL.
      rewrite merged_keys_length by lia. rewrite app_length. cbn [length]. lia.
    - destruct (nth_error cs s) as [X|] eqn:EX; [|unfold Model.apply_action; rewrite EX; auto].
      destruct (nth_error cs (S s)) as [Y|] eqn:EY; [|unfold Model.apply_action; rewrite EX, EY; auto].
      destruct (Hpair s X Y EX EY) as (A & B & -> & <-).
      rewrite apply_mergeR_dec. cbv beta iota zeta. rewrite app_length in HL. cbn [length] in HL.
      rewrite merged_keys_length by lia. rewrite app_length. cbn [length]. lia.
    - destruct (nth_error cs s) as [X|] eqn:EX; [|unfold Model.apply_action; rewrite EX; auto].
      destruct (nth_error cs (S s)) as [Y|] eqn:EY; [|unfold Model.apply_action; rewrite EX, EY; auto].
      destruct (Hpair s X Y EX EY) as (A & B & -> & <-).
      rewrite apply_shiftL_dec. destruct (shift_left X Y (nth (length A) ks dk)) as [[X' Y'] sep].
      rewrite replace_at_length. rewrite app_length in *. cbn [length] in *. lia.
    - destruct s as [|p]; [cbn; auto|].
      destruct (nth_error cs p) as [X|] eqn:EX; [|unfold Model.apply_action; rewrite EX; auto].
      destruct (nth_error cs (S p)) as [Y|] eqn:EY; [|unfold Model.apply_action; rewrite EX, EY; auto].
      destruct (Hpair p X Y EX EY) as (A & B & -> & <-).
      rewrite apply_shiftR_dec. destruct (shift_right X Y (nth (length A) ks dk)) as [[X' Y'] sep].
      rewrite replace_at_length. rewrite app_length in *. cbn [length] in *. lia.
  Qed.

  Lemma fix_sep_length ks s last : length (fst (fix_sep ks s last)) = length ks.
  Proof.
    unfold fix_sep. destruct last as [lk|]; [|reflexivity].
    destruct (s <? length ks); cbn [fst]; [apply replace_at_length|reflexivity].
  Qed.

  Lemma own_action_root m u lp rp lr :
    own_action true m u None None lp rp lr = ANone \/
    (own_action true m u None None lp rp lr = ARoot /\ u = 0).
  Proof.
    unfold own_action. destruct u as [|u].
    - destruct (0 <? m); cbn; auto.
    - cbn [Nat.leb andb negb]. rewrite andb_false_r. auto.
  Qed.
End EraseLemmas.
