(** C01 — list and order lemmas used by the insertion proofs (InsertProofs.v). *)
From Coq Require Import List Bool Arith Lia.
From TLXV Require Import Common.Order C01.Model C01.Defs C01.SearchProofs.
Import ListNotations.

Lemma skipn_skipn {A} a b (l : list A) : skipn a (skipn b l) = skipn (a + b) l.
Proof.
  revert l. induction b as [|b IH]; intros l.
  - now rewrite Nat.add_0_r.
  - destruct l; [now rewrite !skipn_nil|]. rewrite Nat.add_succ_r. simpl. apply IH.
Qed.

Lemma nth_error_skipn {A} n m (l : list A) : nth_error (skipn n l) m = nth_error l (n + m).
Proof.
  revert l. induction n as [|n IH]; intros l; [reflexivity|].
  destruct l; [now destruct m|]. simpl. apply IH.
Qed.

Lemma last_app_cons {A} (l1 : list A) y r d : last (l1 ++ y :: r) d = last (y :: r) d.
Proof.
  induction l1 as [|a l1 IH]; [reflexivity|].
  simpl app. destruct (l1 ++ y :: r) eqn:E.
  - destruct l1; discriminate.
  - rewrite <- IH. reflexivity.
Qed.

(** ** insert_at / firstn / skipn / nth algebra *)
Section ListAlg.
  Context {A : Type}.
  Implicit Types (l : list A) (x : A).

  Lemma insert_at_app l1 l2 x i :
    i <= length l2 -> insert_at (length l1 + i) x (l1 ++ l2) = l1 ++ insert_at i x l2.
  Proof.
    intros _. unfold insert_at.
    rewrite firstn_app, skipn_app, firstn_all2, skipn_all2 by lia.
    replace (length l1 + i - length l1) with i by lia. simpl. now rewrite <- app_assoc.
  Qed.

  Lemma insert_at_app_l l1 l2 x i :
    i <= length l1 -> insert_at i x (l1 ++ l2) = insert_at i x l1 ++ l2.
  Proof.
    intros H. unfold insert_at.
    rewrite firstn_app, skipn_app.
    replace (i - length l1) with 0 by lia. simpl. rewrite app_nil_r.
    now rewrite <- app_assoc.
  Qed.

  Lemma firstn_insert_at_le p i x l : p <= i -> i <= length l -> firstn p (insert_at i x l) = firstn p l.
  Proof.
    intros H1 H2. unfold insert_at. rewrite firstn_app, firstn_firstn, firstn_length.
    replace (Nat.min p i) with p by lia. replace (p - Nat.min i (length l)) with 0 by lia.
    simpl. now rewrite app_nil_r.
  Qed.

  Lemma firstn_insert_at_gt p i x l :
    i <= p -> i <= length l -> firstn (S p) (insert_at i x l) = insert_at i x (firstn p l).
  Proof.
    intros H1 H2. unfold insert_at. rewrite firstn_app, firstn_firstn, firstn_length.
    replace (Nat.min (S p) i) with i by lia. replace (Nat.min i (length l)) with i by lia.
    replace (S p - i) with (S (p - i)) by lia. cbn [firstn].
    rewrite firstn_firstn. replace (Nat.min i p) with i by lia.
    f_equal. f_equal. rewrite firstn_skipn_comm. replace (i + (p - i)) with p by lia. reflexivity.
  Qed.

  Lemma skipn_insert_at_lt p i x l :
    i <= p -> i <= length l -> skipn (S p) (insert_at i x l) = skipn p l.
  Proof.
    intros H1 H2. unfold insert_at. rewrite skipn_app, firstn_length.
    replace (Nat.min i (length l)) with i by lia.
    rewrite skipn_all2 by (rewrite firstn_length; lia). cbn [app].
    replace (S p - i) with (S (p - i)) by lia. cbn [skipn]. rewrite skipn_skipn. f_equal. lia.
  Qed.

  Lemma skipn_insert_at_ge p i x l :
    p <= i -> i <= length l -> skipn p (insert_at i x l) = insert_at (i - p) x (skipn p l).
  Proof.
    intros H1 H2. unfold insert_at. rewrite skipn_app, firstn_length.
    replace (Nat.min i (length l)) with i by lia. replace (p - i) with 0 by lia. cbn [skipn].
    rewrite skipn_skipn. replace (i - p + p) with i by lia.
    f_equal. rewrite firstn_skipn_comm. replace (p + (i - p)) with i by lia. reflexivity.
  Qed.

  Lemma nth_insert_at_lt p i x l d : p < i -> i <= length l -> nth p (insert_at i x l) d = nth p l d.
  Proof.
    intros H1 H2. unfold insert_at. rewrite app_nth1 by (rewrite firstn_length; lia).
    rewrite <- (firstn_skipn i l) at 2. rewrite app_nth1 by (rewrite firstn_length; lia). reflexivity.
  Qed.

  Lemma nth_insert_at_eq i x l d : i <= length l -> nth i (insert_at i x l) d = x.
  Proof.
    intros H. unfold insert_at. rewrite app_nth2 by (rewrite firstn_length; lia).
    rewrite firstn_length. replace (i - Nat.min i (length l)) with 0 by lia. reflexivity.
  Qed.

  Lemma nth_insert_at_gt p i x l d : i <= p -> i <= length l -> nth (S p) (insert_at i x l) d = nth p l d.
  Proof.
    intros H1 H2. unfold insert_at. rewrite app_nth2 by (rewrite firstn_length; lia).
    rewrite firstn_length. replace (S p - Nat.min i (length l)) with (S (p - i)) by lia. cbn [nth].
    rewrite <- (firstn_skipn i l) at 2. rewrite app_nth2 by (rewrite firstn_length; lia).
    rewrite firstn_length. f_equal. lia.
  Qed.

  Lemma replace_at_nth i x l y : nth_error l i = Some y -> replace_at i x l = firstn i l ++ x :: skipn (S i) l.
  Proof.
    intros H. unfold replace_at.
    assert (i < length l) by (apply nth_error_Some; congruence).
    destruct (i <? length l) eqn:E; [reflexivity|]. apply Nat.ltb_ge in E. lia.
  Qed.

  Lemma firstn_replace_at_le p i x l : p <= i -> firstn p (replace_at i x l) = firstn p l.
  Proof.
    intros H. unfold replace_at. destruct (i <? length l) eqn:E; [|reflexivity].
    apply Nat.ltb_lt in E. rewrite firstn_app, firstn_firstn, firstn_length.
    replace (Nat.min p i) with p by lia. replace (p - Nat.min i (length l)) with 0 by lia.
    simpl. now rewrite app_nil_r.
  Qed.

  Lemma skipn_replace_at_gt p i x l : i < p -> skipn p (replace_at i x l) = skipn p l.
  Proof.
    intros H. unfold replace_at. destruct (i <? length l) eqn:E; [|reflexivity].
    apply Nat.ltb_lt in E. rewrite skipn_app, firstn_length.
    replace (Nat.min i (length l)) with i by lia.
    rewrite skipn_all2 by (rewrite firstn_length; lia). cbn [app].
    replace (p - i) with (S (p - i - 1)) by lia. rewrite skipn_cons, skipn_skipn. f_equal. lia.
  Qed.

  Lemma nth_error_replace_at_eq i x l : i < length l -> nth_error (replace_at i x l) i = Some x.
  Proof.
    intros H. unfold replace_at. destruct (i <? length l) eqn:E; [|apply Nat.ltb_ge in E; lia].
    rewrite nth_error_app2 by (rewrite firstn_length; lia).
    rewrite firstn_length. replace (i - Nat.min i (length l)) with 0 by lia. reflexivity.
  Qed.

  Lemma nth_error_replace_at_ne i j x l : i <> j -> nth_error (replace_at i x l) j = nth_error l j.
  Proof.
    intros H. unfold replace_at. destruct (i <? length l) eqn:E; [|reflexivity].
    apply Nat.ltb_lt in E.
    destruct (Nat.lt_ge_cases j i) as [L|G].
    - rewrite nth_error_app1 by (rewrite firstn_length; lia).
      rewrite <- (firstn_skipn i l) at 2. rewrite nth_error_app1 by (rewrite firstn_length; lia). reflexivity.
    - rewrite nth_error_app2 by (rewrite firstn_length; lia).
      rewrite firstn_length. replace (j - Nat.min i (length l)) with (S (j - i - 1)) by lia.
      change (nth_error (x :: skipn (S i) l) (S (j - i - 1))) with (nth_error (skipn (S i) l) (j - i - 1)).
      rewrite nth_error_skipn. f_equal. lia.
  Qed.

  Lemma last_insert_at_lt i x l d : i < length l -> last (insert_at i x l) d = last l d.
  Proof.
    intros H. unfold insert_at.
    rewrite <- (firstn_skipn i l) at 3.
    assert (skipn i l <> []) as NE.
    { intros E. apply (f_equal (@length A)) in E. rewrite skipn_length in E. simpl in E. lia. }
    destruct (skipn i l) as [|y r] eqn:E; [congruence|].
    rewrite !last_app_cons. reflexivity.
  Qed.

  Lemma last_app_cons_ne l1 l2 d : l2 <> [] -> last (l1 ++ l2) d = last l2 d.
  Proof.
    intros H. destruct l2 as [|y r]; [congruence|]. induction l1 as [|a l1 IH]; [reflexivity|].
    simpl app. destruct (l1 ++ y :: r) eqn:E.
    - destruct l1; discriminate.
    - rewrite <- IH. reflexivity.
  Qed.

  Lemma last_insert_at_end x l d : last (insert_at (length l) x l) d = x.
  Proof.
    unfold insert_at. rewrite firstn_all, skipn_all. apply last_last.
  Qed.
  Lemma firstn_S_nth n l d : n < length l -> firstn (S n) l = firstn n l ++ [nth n l d].
  Proof.
    revert n. induction l as [|a l IH]; intros n H; cbn [length] in H; [lia|].
    destruct n as [|n]; [reflexivity|].
    rewrite !firstn_cons. cbn [nth app]. f_equal. apply IH. lia.
  Qed.

  Lemma hd_skipn n l d : hd d (skipn n l) = nth n l d.
  Proof.
    revert l. induction n as [|n IH]; intros [|a l]; try reflexivity.
    rewrite skipn_cons. cbn [nth]. apply IH.
  Qed.

  Lemma tl_skipn n l : tl (skipn n l) = skipn (S n) l.
  Proof.
    revert l. induction n as [|n IH]; intros [|a l]; try reflexivity.
    rewrite !skipn_cons. apply IH.
  Qed.

  (** decomposed forms: the position is the length of the left part *)
  Lemma insert_at_mid l1 l2 x : insert_at (length l1) x (l1 ++ l2) = l1 ++ x :: l2.
  Proof.
    unfold insert_at. rewrite firstn_app, skipn_app, firstn_all, skipn_all, Nat.sub_diag.
    cbn [firstn skipn app]. now rewrite app_nil_r.
  Qed.

  Lemma insert_at_mid_S l1 y l2 x : insert_at (S (length l1)) x (l1 ++ y :: l2) = l1 ++ y :: x :: l2.
  Proof.
    replace (S (length l1)) with (length (l1 ++ [y])) by (rewrite app_length; cbn [length]; lia).
    replace (l1 ++ y :: l2) with ((l1 ++ [y]) ++ l2) by (now rewrite <- app_assoc).
    rewrite insert_at_mid. now rewrite <- app_assoc.
  Qed.

  Lemma replace_at_mid l1 y l2 x : replace_at (length l1) x (l1 ++ y :: l2) = l1 ++ x :: l2.
  Proof.
    unfold replace_at. rewrite app_length. cbn [length].
    destruct (Nat.ltb_spec (length l1) (length l1 + S (length l2))) as [L|L]; [|lia].
    rewrite firstn_app, firstn_all, Nat.sub_diag. cbn [firstn]. rewrite app_nil_r.
    f_equal. f_equal. rewrite skipn_app, skipn_all2 by lia.
    replace (S (length l1) - length l1) with 1 by lia. reflexivity.
  Qed.

  Lemma nth_error_mid l1 y l2 : nth_error (l1 ++ y :: l2) (length l1) = Some y.
  Proof. rewrite nth_error_app2 by lia. now rewrite Nat.sub_diag. Qed.

  Lemma firstn_mid l1 l2 : firstn (length l1) (l1 ++ l2) = l1.
  Proof. rewrite firstn_app, firstn_all, Nat.sub_diag. cbn [firstn]. apply app_nil_r. Qed.
End ListAlg.

(** ** order lemmas on the model's own comparison functions *)
Section Ord.
  Context {K V : Type}.
  Variable ltb : K -> K -> bool.
  Variable key : V -> K.
  Variable dk : K.
  Hypothesis Hswo : SWO ltb.

  Notation kle := (kle ltb).
  Notation keq := (keq ltb).
  Notation fll := (find_lower_lin ltb).
  Notation sortedk := (sortedk ltb).
  Notation sortedk_strict := (sortedk_strict ltb).

  Lemma keq_eqv a b : keq a b = eqv ltb a b.
  Proof. reflexivity. Qed.

  Lemma keq_refl a : keq a a = true.
  Proof. rewrite keq_eqv. now apply eqv_refl. Qed.

  Lemma keq_ltb_l a b c : keq a b = true -> ltb a c = ltb b c.
  Proof.
    unfold Model.keq. rewrite andb_true_iff, !negb_true_iff. intros [H1 H2].
    destruct (ltb a c) eqn:E1, (ltb b c) eqn:E2; auto.
    - destruct (swo_negtrans _ Hswo _ _ b E1); congruence.
    - destruct (swo_negtrans _ Hswo _ _ a E2); congruence.
  Qed.

  Lemma keq_ltb_r a b c : keq a b = true -> ltb c a = ltb c b.
  Proof.
    unfold Model.keq. rewrite andb_true_iff, !negb_true_iff. intros [H1 H2].
    destruct (ltb c a) eqn:E1, (ltb c b) eqn:E2; auto.
    - destruct (swo_negtrans _ Hswo _ _ b E1); congruence.
    - destruct (swo_negtrans _ Hswo _ _ a E2); congruence.
  Qed.

  (** find_lower_lin *)
  Lemma fll_le ks k : fll ks k <= length ks.
  Proof. induction ks as [|x r IH]; simpl; [lia|]. destruct (ltb x k); simpl; lia. Qed.

  Lemma fll_before ks k j : j < fll ks k -> ltb (nth j ks dk) k = true.
  Proof.
    revert j. induction ks as [|x r IH]; simpl; intros j H; [lia|].
    destruct (ltb x k) eqn:E; [|lia]. destruct j; [exact E|]. apply IH. lia.
  Qed.

  Lemma fll_at ks k : fll ks k < length ks -> ltb (nth (fll ks k) ks dk) k = false.
  Proof.
    induction ks as [|x r IH]; simpl; intros H; [lia|].
    destruct (ltb x k) eqn:E; [|exact E]. apply IH. lia.
  Qed.

  Lemma fll_app a b k :
    fll (a ++ b) k = if fll a k =? length a then length a + fll b k else fll a k.
  Proof.
    induction a as [|x r IH]; simpl; [reflexivity|].
    destruct (ltb x k); [|reflexivity]. rewrite IH.
    destruct (fll r k =? length r) eqn:E; simpl; rewrite E; reflexivity.
  Qed.

  Lemma fll_all ks k : (forall x, In x ks -> ltb x k = true) -> fll ks k = length ks.
  Proof.
    induction ks as [|x r IH]; simpl; intros H; [reflexivity|].
    rewrite (H x) by auto. f_equal. apply IH. auto.
  Qed.

  Lemma fll_lt ks k x : In x ks -> ltb x k = false -> fll ks k < length ks.
  Proof.
    induction ks as [|y r IH]; simpl; intros HI Hx; [tauto|].
    destruct (ltb y k) eqn:E; [|lia]. destruct HI as [->|HI]; [congruence|].
    specialize (IH HI Hx). lia.
  Qed.

  (** the scan stops exactly at the end of [a]: everything in [a] is smaller, the head of [b] is not *)
  Lemma fll_app_eq a b k :
    fll (a ++ b) k = length a ->
    (forall x, In x a -> ltb x k = true) /\ (match b with [] => True | y :: _ => ltb y k = false end).
  Proof.
    induction a as [|x r IH]; cbn [app length Model.find_lower_lin]; intros H.
    - split; [intros x []|]. destruct b as [|y b']; [exact I|].
      cbn [Model.find_lower_lin] in H. destruct (ltb y k); [discriminate|reflexivity].
    - destruct (ltb x k) eqn:E; [|discriminate]. injection H as H. destruct (IH H) as [H1 H2].
      split; [|exact H2]. intros y [<-|Hy]; auto.
  Qed.

  Lemma fll_app_lt c a k : fll c k < length c -> fll (c ++ a) k = fll c k.
  Proof.
    induction c as [|x r IH]; cbn [app length Model.find_lower_lin]; intros H; [lia|].
    destruct (ltb x k); [|reflexivity]. f_equal. apply IH. lia.
  Qed.

  Lemma fll_local b c a k :
    (forall x, In x b -> ltb x k = true) ->
    (a = [] \/ fll c k < length c) ->
    fll (b ++ c ++ a) k = length b + fll c k.
  Proof.
    intros Hb Ha. induction b as [|x r IH]; cbn [app length Model.find_lower_lin Nat.add].
    - destruct Ha as [->|Ha]; [now rewrite app_nil_r|now apply fll_app_lt].
    - rewrite (Hb x (or_introl eq_refl)). f_equal. apply IH. intros y Hy. apply Hb. now right.
  Qed.

  (** sortedness *)
  Lemma sortedk_cons_iff x l : sortedk (x :: l) = true <-> (match l with [] => True | y :: _ => kle x y = true end) /\ sortedk l = true.
  Proof.
    destruct l as [|y r]; cbn [Model.sortedk].
    - tauto.
    - rewrite andb_true_iff. tauto.
  Qed.

  Lemma sortedk_head_le x l y : sortedk (x :: l) = true -> In y l -> kle x y = true.
  Proof.
    intros H HI. destruct (sortedk_cons_inv ltb Hswo _ _ H) as [_ Hx]. now apply Hx.
  Qed.

  Lemma sortedk_strict_tail x l : sortedk_strict (x :: l) = true -> sortedk_strict l = true.
  Proof. destruct l; cbn [Model.sortedk_strict]; [auto|]. rewrite andb_true_iff. tauto. Qed.

  Lemma sortedk_strict_app_l a b : sortedk_strict (a ++ b) = true -> sortedk_strict a = true.
  Proof.
    induction a as [|x r IH]; [reflexivity|]. simpl app. intros H.
    destruct r as [|y r'].
    - reflexivity.
    - simpl app in *. cbn [Model.sortedk_strict] in *. rewrite andb_true_iff in *. destruct H as [H1 H2]. auto.
  Qed.

  Lemma sortedk_strict_app_r a b : sortedk_strict (a ++ b) = true -> sortedk_strict b = true.
  Proof.
    induction a as [|x r IH]; [auto|]. simpl app. intros H. apply IH. eapply sortedk_strict_tail; eauto.
  Qed.

  (** insertion at the lower bound keeps the list sorted *)
  Lemma sortedk_insert (l : list V) v :
    sortedk (map key l) = true ->
    sortedk (map key (insert_at (fll (map key l) (key v)) v l)) = true.
  Proof.
    induction l as [|x r IH]; intros H; [reflexivity|].
    cbn [map Model.find_lower_lin]. destruct (ltb (key x) (key v)) eqn:E.
    - change (insert_at (S (fll (map key r) (key v))) v (x :: r))
        with (x :: insert_at (fll (map key r) (key v)) v r).
      cbn [map]. apply sortedk_cons_iff. split; [|apply IH; eapply (sortedk_tail ltb Hswo); eauto].
      destruct r as [|y r'].
      + cbn. unfold Model.kle. now rewrite (swo_asym _ Hswo _ _ E).
      + cbn [map Model.find_lower_lin]. destruct (ltb (key y) (key v)) eqn:E2.
        * change (insert_at (S ?n) v (y :: r')) with (y :: insert_at n v r'). cbn [map].
          cbn [map] in H. now apply sortedk_cons_iff in H.
        * change (insert_at 0 v (y :: r')) with (v :: y :: r'). cbn [map].
          unfold Model.kle. now rewrite (swo_asym _ Hswo _ _ E).
    - change (insert_at 0 v (x :: r)) with (v :: x :: r). cbn [map].
      apply sortedk_cons_iff. split; [|exact H]. unfold Model.kle. now rewrite E.
  Qed.

  Lemma sortedk_strict_insert (l : list V) v :
    sortedk_strict (map key l) = true ->
    (let r := fll (map key l) (key v) in (r <? length l) && keq (key v) (nth r (map key l) dk) = false) ->
    sortedk_strict (map key (insert_at (fll (map key l) (key v)) v l)) = true.
  Proof.
    induction l as [|x r IH]; intros H Hn; [reflexivity|].
    cbn [map Model.find_lower_lin] in *. destruct (ltb (key x) (key v)) eqn:E.
    - change (insert_at (S (fll (map key r) (key v))) v (x :: r))
        with (x :: insert_at (fll (map key r) (key v)) v r).
      cbn [map].
      assert (IH' : sortedk_strict (map key (insert_at (fll (map key r) (key v)) v r)) = true).
      { apply IH; [eapply sortedk_strict_tail; eauto|]. cbn zeta in *. cbn [length nth] in Hn.
        rewrite <- Hn. f_equal. }
      destruct r as [|y r'].
      + cbn. now rewrite E.
      + cbn [map Model.find_lower_lin] in *. destruct (ltb (key y) (key v)) eqn:E2.
        * change (insert_at (S ?n) v (y :: r')) with (y :: insert_at n v r') in *. cbn [map] in *.
          cbn [Model.sortedk_strict] in *. rewrite andb_true_iff in *. tauto.
        * change (insert_at 0 v (y :: r')) with (v :: y :: r') in *. cbn [map] in *.
          cbn [Model.sortedk_strict] in *. rewrite E. exact IH'.
    - change (insert_at 0 v (x :: r)) with (v :: x :: r). cbn [map].
      cbn zeta in Hn. cbn [length nth] in Hn. change (0 <? S (length r)) with true in Hn.
      cbn [andb] in Hn. unfold Model.keq in Hn. rewrite E in Hn. cbn [negb andb] in Hn.
      rewrite andb_true_r in Hn. apply negb_false_iff in Hn.
      destruct (map key r) eqn:Er; cbn [Model.sortedk_strict] in *; rewrite Hn; [reflexivity|exact H].
  Qed.
End Ord.
