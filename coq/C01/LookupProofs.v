(** C01/C02 — lookups: on every node satisfying the invariant the tree descents of btree.hpp
    (lower_bound / upper_bound / exists / find / count) compute the sorted-list specification on [elems].

    [lower_pos] and [upper_pos] are instances of one descent [pos_gen f] (f = the in-node search);
    the descent is correct for every search [f] that computes [prefix_len p] on sorted arrays, for a
    predicate [p] that is downward closed w.r.t. the key order ([x < k] resp. [x <= k]). *)
From Coq Require Import List Bool Arith Lia.
From TLXV Require Import Common.Order C01.Model C01.Defs C01.SearchProofs.
Import ListNotations.

Section Lookup.
  Context {K V : Type}.
  Variable ltb : K -> K -> bool.
  Variable key : V -> K.
  Variable dk : K.
  Variables leafmax innermax : nat.
  Variable dup binsearch : bool.
  Hypothesis Hswo : SWO ltb.

  Notation node := (@node K V).
  Notation tree := (@tree K V).
  Notation kle := (kle ltb).
  Notation keq := (keq ltb).
  Notation maxkey := (maxkey key dk).
  Notation sortedk := (sortedk ltb).
  Notation seps_ok := (seps_ok ltb key dk).
  Notation shape := (shape ltb key dk leafmax innermax).
  Notation InvN := (InvN ltb key dk leafmax innermax dup).
  Notation Inv := (Inv ltb key dk leafmax innermax dup).

  (** ** 4. size = number of elements *)
  Lemma size_inner (ks : list K) (cs : list node) : size (Inner ks cs) = list_sum (map size cs).
  Proof. reflexivity. Qed.

  Lemma elems_inner (ks : list K) (cs : list node) : elems (Inner ks cs) = flat_map elems cs.
  Proof. reflexivity. Qed.

  Lemma list_sum_cons a l : list_sum (a :: l) = a + list_sum l.
  Proof. reflexivity. Qed.

  Theorem size_elems : forall n : node, size n = length (elems n).
  Proof.
    induction n as [vs|ks cs HF] using node_ind'; [reflexivity|].
    rewrite size_inner, elems_inner.
    induction HF as [|c cs' Hc HF' IH]; [reflexivity|].
    cbn [map flat_map]. rewrite list_sum_cons, app_length, Hc, IH. reflexivity.
  Qed.

  (** ** consequences of the shape *)
  Lemma shape_elems_nonempty : forall (n : node) r h, shape r h n -> elems n <> [].
  Proof.
    induction n as [vs|ks cs HF] using node_ind'; intros r h Hsh.
    - apply shape_leaf in Hsh as (_ & _ & _ & Hpos). cbn [elems]. intros ->. cbn [length] in Hpos. lia.
    - apply shape_inner in Hsh as (h' & _ & Hlen & _ & _ & _ & _ & Hch).
      rewrite elems_inner. destruct cs as [|c cs']; [discriminate Hlen|].
      cbn [flat_map]. inversion HF as [|? ? Pc _]; subst. inversion Hch as [|? ? Sc _]; subst.
      intros E. apply app_eq_nil in E as [E _]. exact (Pc _ _ Sc E).
  Qed.

  Lemma sorted_child (cs : list node) :
    sortedk (map key (flat_map elems cs)) = true ->
    forall c, In c cs -> sortedk (map key (elems c)) = true.
  Proof.
    induction cs as [|c0 cs IH]; intros Hs c Hc; [destruct Hc|].
    cbn [flat_map] in Hs. rewrite map_app in Hs.
    destruct Hc as [<-|Hc].
    - exact (sortedk_app_l ltb Hswo _ _ Hs).
    - apply IH; [|exact Hc]. exact (sortedk_app_r ltb Hswo _ _ Hs).
  Qed.

  Lemma maxkey_In (c : node) : elems c <> [] -> In (maxkey c) (map key (elems c)).
  Proof.
    intros Hne. unfold Model.maxkey. apply last_In.
    intros E. apply map_eq_nil in E. exact (Hne E).
  Qed.

  (** every separator is equivalent to some key stored below it *)
  Lemma seps_in (cs : list node) : forall ks,
    seps_ok ks cs = true -> Forall (fun c => elems c <> []) cs ->
    forall y, In y ks -> exists z, In z (map key (flat_map elems cs)) /\ keq y z = true.
  Proof.
    induction cs as [|c cs IH]; intros ks Hseps Hne y Hy.
    - destruct ks as [|k0 ks]; [destruct Hy|]. cbn [Model.seps_ok] in Hseps. discriminate.
    - destruct ks as [|k0 ks]; [destruct Hy|].
      cbn [Model.seps_ok] in Hseps. apply andb_true_iff in Hseps as [Hk0 Hseps'].
      inversion Hne as [|? ? Nc Hne']; subst.
      cbn [flat_map]. rewrite map_app.
      destruct Hy as [<-|Hy].
      + exists (maxkey c). split; [|exact Hk0]. apply in_or_app. left. now apply maxkey_In.
      + destruct (IH ks Hseps' Hne' y Hy) as (z & Hz & Hyz).
        exists z. split; [|exact Hyz]. apply in_or_app. now right.
  Qed.

  (** the separators of a node with globally sorted elements are sorted *)
  Lemma seps_sorted (cs : list node) : forall ks,
    seps_ok ks cs = true -> Forall (fun c => elems c <> []) cs ->
    sortedk (map key (flat_map elems cs)) = true -> sortedk ks = true.
  Proof.
    induction cs as [|c cs IH]; intros ks Hseps Hne Hs.
    - destruct ks as [|k0 ks]; [reflexivity|]. cbn [Model.seps_ok] in Hseps. discriminate.
    - destruct ks as [|k0 ks]; [reflexivity|].
      cbn [Model.seps_ok] in Hseps. apply andb_true_iff in Hseps as [Hk0 Hseps'].
      inversion Hne as [|? ? Nc Hne']; subst.
      cbn [flat_map] in Hs. rewrite map_app in Hs.
      destruct (sortedk_app_inv ltb Hswo _ _ Hs) as (_ & Sr & Hcr).
      apply (sortedk_cons_intro ltb).
      + now apply IH.
      + intros y Hy. destruct (seps_in cs ks Hseps' Hne' y Hy) as (z & Hz & Hyz).
        apply (keq_kle ltb) in Hk0 as [Hk0 _]. apply (keq_kle ltb) in Hyz as [_ Hzy].
        eapply (kle_trans ltb Hswo); [exact Hk0|].
        eapply (kle_trans ltb Hswo); [|exact Hzy].
        apply Hcr; [now apply maxkey_In|exact Hz].
  Qed.

  (** ** the generic descent *)
  Section Gen.
    Variable p : K -> bool.
    Variable f : list K -> nat.
    Hypothesis p_down : forall a b, kle a b = true -> p b = true -> p a = true.
    Hypothesis f_spec : forall ks, sortedk ks = true -> f ks = prefix_len p ks.

    Fixpoint pos_gen (n : node) : nat * bool :=
      match n with
      | Leaf vs => let s := f (map key vs) in (s, s <? length vs)
      | Inner ks cs =>
        let s := f ks in
        let r := apply_nth (fun c => pos_gen c) (0, false) cs s in
        (sizes_before s cs + fst r, snd r)
      end.

    Lemma pos_gen_inner ks cs :
      pos_gen (Inner ks cs) =
      (sizes_before (f ks) cs + fst (apply_nth (fun c => pos_gen c) (0, false) cs (f ks)),
       snd (apply_nth (fun c => pos_gen c) (0, false) cs (f ks))).
    Proof. reflexivity. Qed.

    Definition pos_ok (c : node) : Prop :=
      fst (pos_gen c) = prefix_len p (map key (elems c)) /\
      snd (pos_gen c) = (prefix_len p (map key (elems c)) <? size c).

    Lemma sizes_before_0 (cs : list node) : sizes_before 0 cs = 0.
    Proof. reflexivity. Qed.

    Lemma sizes_before_S s (c : node) cs : sizes_before (S s) (c :: cs) = size c + sizes_before s cs.
    Proof. reflexivity. Qed.

    Lemma p_all_child (c : node) k0 :
      sortedk (map key (elems c)) = true -> keq k0 (maxkey c) = true -> p k0 = true ->
      forallb p (map key (elems c)) = true.
    Proof.
      intros Sc Hk0 Pk. apply forallb_forall. intros x Hx.
      apply (p_down x (maxkey c)).
      - unfold Model.maxkey. now apply (sortedk_le_last ltb Hswo).
      - apply (p_down _ k0); [|exact Pk]. apply (keq_kle ltb) in Hk0. tauto.
    Qed.

    Lemma p_not_all_child (c : node) k0 :
      elems c <> [] -> keq k0 (maxkey c) = true -> p k0 = false ->
      forallb p (map key (elems c)) = false.
    Proof.
      intros Nc Hk0 Pk. destruct (forallb p (map key (elems c))) eqn:E; [exfalso|reflexivity].
      rewrite forallb_forall in E.
      assert (Pm : p (maxkey c) = true) by (apply E; now apply maxkey_In).
      apply (keq_kle ltb) in Hk0 as [Hk0 _].
      rewrite (p_down _ _ Hk0 Pm) in Pk. discriminate.
    Qed.

    Lemma descend_list (cs : list node) : forall ks,
      length cs = S (length ks) -> seps_ok ks cs = true ->
      Forall (fun c => elems c <> []) cs ->
      sortedk (map key (flat_map elems cs)) = true ->
      Forall pos_ok cs ->
      sizes_before (prefix_len p ks) cs
        + fst (apply_nth (fun c => pos_gen c) (0, false) cs (prefix_len p ks))
        = prefix_len p (map key (flat_map elems cs))
      /\ snd (apply_nth (fun c => pos_gen c) (0, false) cs (prefix_len p ks))
         = (prefix_len p (map key (flat_map elems cs)) <? list_sum (map size cs)).
    Proof.
      induction cs as [|c cs IH]; intros ks Hlen Hseps Hne Hs HQ; [discriminate Hlen|].
      inversion HQ as [|? ? Qc HQ']; subst. inversion Hne as [|? ? Nc Hne']; subst.
      cbn [flat_map map]. rewrite list_sum_cons. cbn [flat_map] in Hs. rewrite map_app in *.
      destruct (sortedk_app_inv ltb Hswo _ _ Hs) as (Sc & Sr & _).
      destruct Qc as [Q1 Q2].
      destruct ks as [|k0 ks].
      - destruct cs as [|c1 cs]; [|discriminate Hlen].
        cbn [prefix_len apply_nth flat_map map]. change (list_sum []) with 0.
        rewrite sizes_before_0, app_nil_r, Nat.add_0_r.
        split; [cbn [Nat.add]; exact Q1|exact Q2].
      - cbn [Model.seps_ok] in Hseps. apply andb_true_iff in Hseps as [Hk0 Hseps'].
        cbn [length] in Hlen. injection Hlen as Hlen'.
        cbn [prefix_len]. rewrite prefix_len_app. destruct (p k0) eqn:Pk.
        + rewrite (p_all_child c k0 Sc Hk0 Pk), map_length.
          cbn [apply_nth]. rewrite sizes_before_S.
          destruct (IH ks Hlen' Hseps' Hne' Sr HQ') as [I1 I2].
          rewrite I2, <- I1, (size_elems c). split; [lia|].
          destruct (Nat.ltb_spec
                      (sizes_before (prefix_len p ks) cs +
                       fst (apply_nth (fun c0 => pos_gen c0) (0, false) cs (prefix_len p ks)))
                      (list_sum (map size cs))) as [L1|L1];
            symmetry; [apply Nat.ltb_lt|apply Nat.ltb_ge]; lia.
        + pose proof (p_not_all_child c k0 Nc Hk0 Pk) as Hnot. rewrite Hnot.
          cbn [apply_nth]. rewrite sizes_before_0. cbn [Nat.add].
          split; [exact Q1|]. rewrite Q2.
          pose proof (prefix_len_lt p _ Hnot) as Hlt. rewrite map_length, <- size_elems in Hlt.
          transitivity true; [apply Nat.ltb_lt; exact Hlt|symmetry; apply Nat.ltb_lt; lia].
    Qed.

    Theorem pos_gen_spec : forall (n : node) r h,
      shape r h n -> sortedk (map key (elems n)) = true -> pos_ok n.
    Proof.
      induction n as [vs|ks cs IH] using node_ind'; intros r h Hsh Hs.
      - unfold pos_ok. cbn [pos_gen elems size fst snd] in *.
        rewrite (f_spec _ Hs). split; reflexivity.
      - apply shape_inner in Hsh as (h' & _ & Hlen & _ & _ & _ & Hseps & Hch).
        rewrite elems_inner in Hs.
        assert (Hne : Forall (fun c : node => elems c <> []) cs).
        { eapply Forall_impl; [|exact Hch]. intros c Hc. eapply shape_elems_nonempty; exact Hc. }
        assert (HQ : Forall pos_ok cs).
        { rewrite Forall_forall in *. intros c Hc.
          apply (IH c Hc false h'); [now apply Hch|]. now apply (sorted_child cs). }
        unfold pos_ok. rewrite pos_gen_inner, elems_inner, size_inner. cbn [fst snd].
        rewrite (f_spec ks) by (eapply seps_sorted; eassumption).
        now apply descend_list.
    Qed.
  End Gen.

  (** ** lower_pos / upper_pos are instances *)
  Lemma lower_pos_gen k : forall n : node,
    lower_pos ltb key dk binsearch n k = pos_gen (fun ks => find_lower ltb dk binsearch ks k) n.
  Proof.
    induction n as [vs|ks cs IH] using node_ind'; [reflexivity|].
    rewrite pos_gen_inner.
    change (lower_pos ltb key dk binsearch (Inner ks cs) k)
      with (sizes_before (find_lower ltb dk binsearch ks k) cs
            + fst (apply_nth (fun c => lower_pos ltb key dk binsearch c k) (0, false) cs
                             (find_lower ltb dk binsearch ks k)),
            snd (apply_nth (fun c => lower_pos ltb key dk binsearch c k) (0, false) cs
                           (find_lower ltb dk binsearch ks k))).
    rewrite !apply_nth_spec.
    destruct (nth_error cs (find_lower ltb dk binsearch ks k)) as [c|] eqn:E; [|reflexivity].
    apply nth_error_In in E. rewrite Forall_forall in IH. rewrite (IH c E). reflexivity.
  Qed.

  Lemma upper_pos_gen k : forall n : node,
    upper_pos ltb key dk binsearch n k = pos_gen (fun ks => find_upper ltb dk binsearch ks k) n.
  Proof.
    induction n as [vs|ks cs IH] using node_ind'; [reflexivity|].
    rewrite pos_gen_inner.
    change (upper_pos ltb key dk binsearch (Inner ks cs) k)
      with (sizes_before (find_upper ltb dk binsearch ks k) cs
            + fst (apply_nth (fun c => upper_pos ltb key dk binsearch c k) (0, false) cs
                             (find_upper ltb dk binsearch ks k)),
            snd (apply_nth (fun c => upper_pos ltb key dk binsearch c k) (0, false) cs
                           (find_upper ltb dk binsearch ks k))).
    rewrite !apply_nth_spec.
    destruct (nth_error cs (find_upper ltb dk binsearch ks k)) as [c|] eqn:E; [|reflexivity].
    apply nth_error_In in E. rewrite Forall_forall in IH. rewrite (IH c E). reflexivity.
  Qed.

  (** ** 5. lower_pos: the rank is the lower bound, the flag says "strictly inside" *)
  Theorem lower_pos_spec : forall r h (n : node) k,
    InvN r h n ->
    fst (lower_pos ltb key dk binsearch n k) = spec_lower ltb key (elems n) k /\
    snd (lower_pos ltb key dk binsearch n k) = (spec_lower ltb key (elems n) k <? size n).
  Proof.
    intros r h n k [Hsh [Hs _]]. rewrite lower_pos_gen. unfold spec_lower.
    rewrite find_lower_lin_prefix.
    apply (pos_gen_spec (fun x => ltb x k) (fun ks => find_lower ltb dk binsearch ks k)) with (r := r) (h := h).
    - intros a b. apply (lt_down ltb Hswo).
    - intros ks Hks. rewrite (find_lower_eq_lin ltb dk Hswo binsearch ks k Hks).
      apply find_lower_lin_prefix.
    - exact Hsh.
    - exact Hs.
  Qed.

  (** ** 6. upper_pos *)
  Theorem upper_pos_spec : forall r h (n : node) k,
    InvN r h n ->
    fst (upper_pos ltb key dk binsearch n k) = spec_upper ltb key (elems n) k /\
    snd (upper_pos ltb key dk binsearch n k) = (spec_upper ltb key (elems n) k <? size n).
  Proof.
    intros r h n k [Hsh [Hs _]]. rewrite upper_pos_gen. unfold spec_upper.
    rewrite find_upper_lin_prefix.
    apply (pos_gen_spec (fun x => kle x k) (fun ks => find_upper ltb dk binsearch ks k)) with (r := r) (h := h).
    - intros a b. apply (le_down ltb Hswo).
    - intros ks Hks. rewrite (find_upper_eq_lin ltb dk Hswo binsearch ks k Hks).
      apply find_upper_lin_prefix.
    - exact Hsh.
    - exact Hs.
  Qed.

  (** the weaker reading of the flag (immediate from 5/6) *)
  Corollary lower_pos_flag : forall r h (n : node) k,
    InvN r h n ->
    (snd (lower_pos ltb key dk binsearch n k) = true -> fst (lower_pos ltb key dk binsearch n k) < size n) /\
    (snd (lower_pos ltb key dk binsearch n k) = false -> fst (lower_pos ltb key dk binsearch n k) = size n).
  Proof.
    intros r h n k HI. destruct (lower_pos_spec r h n k HI) as [E1 E2]. rewrite E1, E2.
    pose proof (find_lower_lin_le_length ltb (map key (elems n)) k) as Hle.
    rewrite map_length, <- size_elems in Hle. fold (spec_lower ltb key (elems n) k) in Hle.
    split; intros E; [apply Nat.ltb_lt in E; exact E|apply Nat.ltb_ge in E; lia].
  Qed.

  Corollary upper_pos_flag : forall r h (n : node) k,
    InvN r h n ->
    (snd (upper_pos ltb key dk binsearch n k) = true -> fst (upper_pos ltb key dk binsearch n k) < size n) /\
    (snd (upper_pos ltb key dk binsearch n k) = false -> fst (upper_pos ltb key dk binsearch n k) = size n).
  Proof.
    intros r h n k HI. destruct (upper_pos_spec r h n k HI) as [E1 E2]. rewrite E1, E2.
    pose proof (find_upper_lin_le_length ltb (map key (elems n)) k) as Hle.
    rewrite map_length, <- size_elems in Hle. fold (spec_upper ltb key (elems n) k) in Hle.
    split; intros E; [apply Nat.ltb_lt in E; exact E|apply Nat.ltb_ge in E; lia].
  Qed.

  (** ** 7. tree level *)
  Lemma spec_lower_le (l : list V) k : spec_lower ltb key l k <= length l.
  Proof.
    unfold spec_lower. pose proof (find_lower_lin_le_length ltb (map key l) k) as Hle.
    rewrite map_length in Hle. exact Hle.
  Qed.

  Lemma spec_upper_le (l : list V) k : spec_upper ltb key l k <= length l.
  Proof.
    unfold spec_upper. pose proof (find_upper_lin_le_length ltb (map key l) k) as Hle.
    rewrite map_length in Hle. exact Hle.
  Qed.

  Lemma canon_spec (n : node) s :
    s <= size n -> canon (Some n) (s, s <? size n) = Some s.
  Proof.
    intros Hle. unfold canon. cbn [fst snd t_size].
    destruct (Nat.ltb_spec s (size n)) as [L|L]; cbn [orb]; [reflexivity|].
    replace (s =? size n) with true; [reflexivity|]. symmetry. apply Nat.eqb_eq. lia.
  Qed.

  Theorem t_lower_bound_spec : forall (t : tree) k,
    Inv t -> t_lower_bound ltb key dk binsearch t k = Some (spec_lower ltb key (t_elems t) k).
  Proof.
    intros [n|] k HI; [|reflexivity].
    apply Inv_Some in HI. destruct (lower_pos_spec _ _ n k HI) as [E1 E2].
    cbn [t_lower_bound t_elems].
    rewrite (surjective_pairing (lower_pos ltb key dk binsearch n k)), E1, E2.
    apply canon_spec. rewrite size_elems. apply spec_lower_le.
  Qed.

  Theorem t_upper_bound_spec : forall (t : tree) k,
    Inv t -> t_upper_bound ltb key dk binsearch t k = Some (spec_upper ltb key (t_elems t) k).
  Proof.
    intros [n|] k HI; [|reflexivity].
    apply Inv_Some in HI. destruct (upper_pos_spec _ _ n k HI) as [E1 E2].
    cbn [t_upper_bound t_elems].
    rewrite (surjective_pairing (upper_pos ltb key dk binsearch n k)), E1, E2.
    apply canon_spec. rewrite size_elems. apply spec_upper_le.
  Qed.

  Lemma found_at_spec : forall (n : node) k r h,
    InvN r h n -> found_at ltb key dk binsearch n k = spec_has ltb key dk (elems n) k.
  Proof.
    intros n k r h HI. destruct (lower_pos_spec r h n k HI) as [E1 E2].
    unfold found_at, spec_has. rewrite E1, E2, size_elems. reflexivity.
  Qed.

  Theorem t_exists_spec : forall (t : tree) k,
    Inv t -> t_exists ltb key dk binsearch t k = spec_has ltb key dk (t_elems t) k.
  Proof.
    intros [n|] k HI; [|reflexivity].
    apply Inv_Some in HI. cbn [t_exists t_elems]. eapply found_at_spec; exact HI.
  Qed.

  Theorem t_find_spec : forall (t : tree) k,
    Inv t -> t_find ltb key dk binsearch t k = spec_find ltb key dk (t_elems t) k.
  Proof.
    intros [n|] k HI; [|reflexivity].
    apply Inv_Some in HI. cbn [t_find t_elems]. unfold spec_find.
    rewrite (found_at_spec n k _ _ HI).
    destruct (lower_pos_spec _ _ n k HI) as [E1 _]. rewrite E1, size_elems. reflexivity.
  Qed.

  Lemma take_eq_nil k : take_eq ltb key k [] = 0.
  Proof. reflexivity. Qed.

  Theorem t_count_spec : forall (t : tree) k,
    Inv t -> t_count ltb key dk binsearch t k = spec_count ltb key (t_elems t) k.
  Proof.
    intros [n|] k HI; [|reflexivity].
    apply Inv_Some in HI. destruct (lower_pos_spec _ _ n k HI) as [E1 E2].
    cbn [t_count t_elems]. unfold spec_count. cbv zeta. rewrite E1, E2.
    destruct (Nat.ltb_spec (spec_lower ltb key (elems n) k) (size n)) as [L|L]; [reflexivity|].
    rewrite size_elems in L. rewrite skipn_all2 by exact L. reflexivity.
  Qed.
End Lookup.
