(** C01/C02 — executable model of tlx/container/btree.hpp (+ the set/multiset/map/multimap facades).

    The model follows the control structure of the C++:
      find_lower / find_upper        btree.hpp:1568-1667 (linear and binary in-node search)
      ins / ins_leaf / insert        insert_start, insert_descend, split_leaf_node, split_inner_node
      erase_desc / decide / apply_action / erase_top
                                     erase_one_descend, erase_iter_descend (six-case underflow table),
                                     merge_leaves/merge_inner/shift_left_*/shift_right_*, fixmerge handling
      bulk_load                      bulk_load (item distribution n/(leaves-i), level-by-level parents)
      lookups                        exists/find/count/lower_bound/upper_bound/equal_range
    Pointers are replaced by structure: a tree is [option node] (root_ == nullptr is [None]); the leaf chain
    is the in-order sequence of leaves; an iterator (leaf, slot) is the rank of the slot in [elems] plus a flag
    telling whether slot < slotuse held in the leaf that was reached (so a non-canonical iterator is visible).
    The rebalancing after an erase is executed by the C++ in the child's frame through the parent pointer; the
    functional model lets the child return the chosen [action] (decided by the literal case table [decide] from
    the same neighbours, cousins included) and the parent applies it. *)
From Coq Require Import List Bool Arith Lia.
Import ListNotations.

Section Model.
  Context {K V : Type}.
  Variable ltb : K -> K -> bool.          (* key_less *)
  Variable key : V -> K.                  (* key_of_value::get *)
  Variable dk : K.                        (* key_type() *)
  Variables leafmax innermax : nat.       (* leaf_slotmax, inner_slotmax *)
  Variable dup : bool.                    (* allow_duplicates *)
  Variable binsearch : bool.              (* sizeof(node) > binsearch_threshold *)

  Inductive node : Type :=
  | Leaf (vs : list V)
  | Inner (ks : list K) (cs : list node).

  Definition tree := option node.

  Definition leafmin := leafmax / 2.
  Definition innermin := innermax / 2.

  Definition kle (a b : K) : bool := negb (ltb b a).                      (* key_lessequal *)
  Definition keq (a b : K) : bool := negb (ltb a b) && negb (ltb b a).    (* key_equal *)

  (** ** list helpers (array operations of the C++) *)
  Definition insert_at {A} (i : nat) (x : A) (l : list A) : list A := firstn i l ++ x :: skipn i l.
  Definition remove_at {A} (i : nat) (l : list A) : list A := firstn i l ++ skipn (S i) l.
  Definition replace_at {A} (i : nat) (x : A) (l : list A) : list A :=
    if i <? length l then firstn i l ++ x :: skipn (S i) l else l.

  (** apply [f] to the [i]-th child; written as a local fixpoint so that recursive calls through it are
      structurally smaller. *)
  Definition apply_nth {A} (f : node -> A) (d : A) : list node -> nat -> A :=
    fix go (cs : list node) (i : nat) : A :=
      match cs with
      | [] => d
      | c :: r => match i with 0 => f c | S i' => go r i' end
      end.

  (** ** in-node search *)
  Fixpoint find_lower_lin (ks : list K) (k : K) : nat :=
    match ks with
    | [] => 0
    | x :: r => if ltb x k then S (find_lower_lin r k) else 0
    end.

  Fixpoint find_upper_lin (ks : list K) (k : K) : nat :=
    match ks with
    | [] => 0
    | x :: r => if kle x k then S (find_upper_lin r k) else 0
    end.

  (** the [while (lo < hi)] loops; fuel = slotuse is enough because hi - lo shrinks every round *)
  Fixpoint bin_lower (fuel lo hi : nat) (ks : list K) (k : K) : nat :=
    match fuel with
    | 0 => lo
    | S f =>
      if lo <? hi then
        let mid := (lo + hi) / 2 in
        if kle k (nth mid ks dk) then bin_lower f lo mid ks k else bin_lower f (S mid) hi ks k
      else lo
    end.

  Fixpoint bin_upper (fuel lo hi : nat) (ks : list K) (k : K) : nat :=
    match fuel with
    | 0 => lo
    | S f =>
      if lo <? hi then
        let mid := (lo + hi) / 2 in
        if ltb k (nth mid ks dk) then bin_upper f lo mid ks k else bin_upper f (S mid) hi ks k
      else lo
    end.

  Definition find_lower_bin (ks : list K) (k : K) : nat :=
    match ks with [] => 0 | _ => bin_lower (length ks) 0 (length ks) ks k end.
  Definition find_upper_bin (ks : list K) (k : K) : nat :=
    match ks with [] => 0 | _ => bin_upper (length ks) 0 (length ks) ks k end.

  Definition find_lower (ks : list K) (k : K) : nat :=
    if binsearch then find_lower_bin ks k else find_lower_lin ks k.
  Definition find_upper (ks : list K) (k : K) : nat :=
    if binsearch then find_upper_bin ks k else find_upper_lin ks k.

  (** ** structure *)
  Fixpoint size (n : node) : nat :=
    match n with Leaf vs => length vs | Inner _ cs => list_sum (map size cs) end.
  Fixpoint elems (n : node) : list V :=
    match n with Leaf vs => vs | Inner _ cs => flat_map elems cs end.
  Fixpoint count_leaves (n : node) : nat :=
    match n with Leaf _ => 1 | Inner _ cs => list_sum (map count_leaves cs) end.
  Fixpoint count_inner (n : node) : nat :=
    match n with Leaf _ => 0 | Inner _ cs => S (list_sum (map count_inner cs)) end.
  Definition nodes (n : node) : nat := count_leaves n + count_inner n.
  Fixpoint height (n : node) : nat :=
    match n with Leaf _ => 0 | Inner _ cs => S (match cs with [] => 0 | c :: _ => height c end) end.

  Definition slotuse (n : node) : nat :=
    match n with Leaf vs => length vs | Inner ks _ => length ks end.
  Definition is_leaf (n : node) : bool := match n with Leaf _ => true | Inner _ _ => false end.
  Definition is_few (n : node) : bool :=
    match n with Leaf vs => length vs <=? leafmin | Inner ks _ => length ks <=? innermin end.
  Definition is_underflow (n : node) : bool :=
    match n with Leaf vs => length vs <? leafmin | Inner ks _ => length ks <? innermin end.

  Definition sizes_before (s : nat) (cs : list node) : nat := list_sum (map size (firstn s cs)).
  Definition lastkey (vs : list V) : K := last (map key vs) dk.      (* leaf->key(leaf->slotuse - 1) *)

  Definition t_elems (t : tree) : list V := match t with None => [] | Some n => elems n end.
  Definition t_size (t : tree) : nat := match t with None => 0 | Some n => size n end.
  Definition t_nodes (t : tree) : nat := match t with None => 0 | Some n => nodes n end.
  Definition t_leaves (t : tree) : nat := match t with None => 0 | Some n => count_leaves n end.
  Definition t_inner (t : tree) : nat := match t with None => 0 | Some n => count_inner n end.

  (** ** lookups: (rank of the slot reached, slot < slotuse in the leaf reached) *)
  Fixpoint lower_pos (n : node) (k : K) : nat * bool :=
    match n with
    | Leaf vs => let s := find_lower (map key vs) k in (s, s <? length vs)
    | Inner ks cs =>
      let s := find_lower ks k in
      let r := apply_nth (fun c => lower_pos c k) (0, false) cs s in
      (sizes_before s cs + fst r, snd r)
    end.

  Fixpoint upper_pos (n : node) (k : K) : nat * bool :=
    match n with
    | Leaf vs => let s := find_upper (map key vs) k in (s, s <? length vs)
    | Inner ks cs =>
      let s := find_upper ks k in
      let r := apply_nth (fun c => upper_pos c k) (0, false) cs s in
      (sizes_before s cs + fst r, snd r)
    end.

  (** iterator as seen from outside: [Some rank] if it is the canonical iterator of that rank
      (a real slot, or end() = (tail leaf, slotuse)), [None] for a dangling (leaf, slotuse) position *)
  Definition canon (t : tree) (p : nat * bool) : option nat :=
    if snd p || (fst p =? t_size t) then Some (fst p) else None.

  Definition t_lower_bound (t : tree) (k : K) : option nat :=
    match t with None => Some 0 | Some n => canon t (lower_pos n k) end.
  Definition t_upper_bound (t : tree) (k : K) : option nat :=
    match t with None => Some 0 | Some n => canon t (upper_pos n k) end.

  (** key at the slot reached by lower_pos (only meaningful when the flag is true) *)
  Definition found_at (n : node) (k : K) : bool :=
    let p := lower_pos n k in
    snd p && keq k (nth (fst p) (map key (elems n)) dk).

  Definition t_exists (t : tree) (k : K) : bool :=
    match t with None => false | Some n => found_at n k end.
  Definition t_find (t : tree) (k : K) : nat :=     (* rank, or size = end() *)
    match t with None => 0 | Some n => if found_at n k then fst (lower_pos n k) else size n end.

  Fixpoint take_eq (k : K) (l : list V) : nat :=
    match l with [] => 0 | x :: r => if keq k (key x) then S (take_eq k r) else 0 end.
  Definition t_count (t : tree) (k : K) : nat :=
    match t with
    | None => 0
    | Some n => let p := lower_pos n k in if snd p then take_eq k (skipn (fst p) (elems n)) else 0
    end.

  (** ** insertion *)
  Record ires := mkI { i_node : node; i_split : option (K * node); i_rank : nat; i_ok : bool; i_allocs : nat }.

  Definition ins_leaf (vs : list V) (v : V) : ires :=
    let k := key v in
    let keys := map key vs in
    let slot := find_lower keys k in
    if negb dup && (slot <? length vs) && keq k (nth slot keys dk) then mkI (Leaf vs) None slot false 0
    else if length vs =? leafmax then
      (* split_leaf_node *)
      let mid := length vs / 2 in
      let l := firstn mid vs in
      let r := skipn mid vs in
      let sk := lastkey l in
      if mid <=? slot then
        mkI (Leaf l) (Some (sk, Leaf (insert_at (slot - mid) v r))) slot true 1
      else
        let l' := insert_at slot v l in
        (* "the insert is at the last slot of the old node": splitkey updated *)
        let sk' := if slot =? length l' - 1 then k else sk in
        mkI (Leaf l') (Some (sk', Leaf r)) slot true 1
    else mkI (Leaf (insert_at slot v vs)) None slot true 0.

  Definition dnode : node := Leaf [].

  Fixpoint ins (n : node) (v : V) : ires :=
    match n with
    | Leaf vs => ins_leaf vs v
    | Inner ks cs =>
      let k := key v in
      let slot := find_lower ks k in
      let r := apply_nth (fun c => ins c v) (mkI dnode None 0 false 0) cs slot in
      let cs1 := replace_at slot (i_node r) cs in
      let rank := sizes_before slot cs + i_rank r in
      match i_split r with
      | None => mkI (Inner ks cs1) None rank (i_ok r) (i_allocs r)
      | Some (newkey, newchild) =>
        let u := length ks in
        if u =? innermax then
          (* split_inner_node(inner, splitkey, splitnode, slot) *)
          let mid0 := u / 2 in
          let mid := if (slot <=? mid0) && (u - (mid0 + 1) <? mid0) then mid0 - 1 else mid0 in
          let lks := firstn mid ks in
          let lcs := firstn (S mid) cs1 in
          let rks := skipn (S mid) ks in
          let rcs := skipn (S mid) cs1 in
          let sk := nth mid ks dk in
          if (slot =? mid + 1) && (mid <? length rks) then
            (* insert slot == split point: the insert key becomes the split key *)
            mkI (Inner (lks ++ [sk]) (lcs ++ [hd dnode rcs]))
                (Some (newkey, Inner rks (newchild :: tl rcs))) rank (i_ok r) (S (i_allocs r))
          else if mid + 1 <=? slot then
            let s' := slot - (mid + 1) in
            mkI (Inner lks lcs)
                (Some (sk, Inner (insert_at s' newkey rks) (insert_at (S s') newchild rcs)))
                rank (i_ok r) (S (i_allocs r))
          else
            mkI (Inner (insert_at slot newkey lks) (insert_at (S slot) newchild lcs))
                (Some (sk, Inner rks rcs)) rank (i_ok r) (S (i_allocs r))
        else
          mkI (Inner (insert_at slot newkey ks) (insert_at (S slot) newchild cs1)) None rank (i_ok r) (i_allocs r)
      end
    end.

  (** insert_start: result = (tree, rank of returned iterator, inserted?, #allocations) *)
  Definition insert (t : tree) (v : V) : tree * nat * bool * nat :=
    let '(root, a0) := match t with None => (Leaf [], 1) | Some n => (n, 0) end in
    let r := ins root v in
    match i_split r with
    | Some (nk, nc) => (Some (Inner [nk] [i_node r; nc]), i_rank r, i_ok r, a0 + i_allocs r + 1)
    | None => (Some (i_node r), i_rank r, i_ok r, a0 + i_allocs r)
    end.

  (** ** erase *)
  Inductive action := ANone | ARoot | AMergeL | AMergeR | AShiftL | AShiftR.

  Inductive target := TKey (k : K) | TPos (k : K) (r : nat).

  Definition opt_few (o : option node) : bool := match o with None => false | Some x => is_few x end.
  Definition opt_notfew (o : option node) : bool := match o with None => false | Some x => negb (is_few x) end.
  Definition opt_null (o : option node) : bool := match o with None => true | Some _ => false end.
  Definition opt_slotuse (o : option node) : nat := match o with None => 0 | Some x => slotuse x end.

  (** The six-case table of erase_one_descend / erase_iter_descend (same text for leaves and inner nodes).
      l, r: left / right neighbour at the same level (sibling or cousin, None = nullptr);
      lp_eq: left_parent == parent, rp_eq: right_parent == parent, lr_eq: left_parent == right_parent. *)
  Definition decide (l r : option node) (lp_eq rp_eq lr_eq : bool) : action :=
    if opt_null l && opt_null r then ARoot
    else if (opt_null l || opt_few l) && (opt_null r || opt_few r) then
      (if lp_eq then AMergeL else AMergeR)
    else if opt_few l && opt_notfew r then
      (if rp_eq then AShiftL else AMergeL)
    else if opt_notfew l && opt_few r then
      (if lp_eq then AShiftR else AMergeR)
    else if lr_eq then
      (if opt_slotuse l <=? opt_slotuse r then AShiftL else AShiftR)
    else
      (if lp_eq then AShiftR else AShiftL).

  (** merge_leaves / merge_inner: everything of [r] is appended to [l]; sep = parent->slotkey[parentslot] *)
  Definition merge_nodes (l r : node) (sep : K) : node :=
    match l, r with
    | Leaf a, Leaf b => Leaf (a ++ b)
    | Inner ka ca, Inner kb cb => Inner (ka ++ sep :: kb) (ca ++ cb)
    | _, _ => l
    end.

  (** shift_left_leaf / shift_left_inner: (left', right', new parent key) *)
  Definition shift_left (l r : node) (sep : K) : node * node * K :=
    match l, r with
    | Leaf a, Leaf b =>
      let sh := (length b - length a) / 2 in
      let a' := a ++ firstn sh b in
      (Leaf a', Leaf (skipn sh b), lastkey a')
    | Inner ka ca, Inner kb cb =>
      let sh := (length kb - length ka) / 2 in
      (Inner (ka ++ sep :: firstn (sh - 1) kb) (ca ++ firstn sh cb),
       Inner (skipn sh kb) (skipn sh cb),
       nth (sh - 1) kb dk)
    | _, _ => (l, r, sep)
    end.

  (** shift_right_leaf / shift_right_inner *)
  Definition shift_right (l r : node) (sep : K) : node * node * K :=
    match l, r with
    | Leaf a, Leaf b =>
      let sh := (length a - length b) / 2 in
      let a' := firstn (length a - sh) a in
      (Leaf a', Leaf (skipn (length a - sh) a ++ b), lastkey a')
    | Inner ka ca, Inner kb cb =>
      let lu := length ka in
      let sh := (lu - length kb) / 2 in
      (Inner (firstn (lu - sh) ka) (firstn (lu - sh + 1) ca),
       Inner (skipn (lu - sh + 1) ka ++ sep :: kb) (skipn (lu - sh + 1) ca ++ cb),
       nth (lu - sh) ka dk)
    | _, _ => (l, r, sep)
    end.

  (** The parent's side of a child's rebalancing: the merge/shift itself, the removal of the emptied child
      (btree_fixmerge handling) and the level-1 separator repair.  Result: keys, children, #frees, bad. *)
  Definition apply_action (ks : list K) (cs : list node) (s : nat) (a : action)
    : list K * list node * nat * bool :=
    let u := length ks in
    match a with
    | ANone => (ks, cs, 0, false)
    | ARoot => (ks, cs, 0, true)
    | AMergeL =>
      match s with
      | 0 => (ks, cs, 0, true)
      | S p =>
        match nth_error cs p, nth_error cs s with
        | Some L, Some C =>
          let m := merge_nodes L C (nth p ks dk) in
          let cs' := firstn p cs ++ m :: skipn (S s) cs in
          let ks' := remove_at p ks in
          let ks'' := match m with Leaf vs => replace_at p (lastkey vs) ks' | _ => ks' end in
          (ks'', cs', 1, false)
        | _, _ => (ks, cs, 0, true)
        end
      end
    | AMergeR =>
      match nth_error cs s, nth_error cs (S s) with
      | Some C, Some R =>
        let m := merge_nodes C R (nth s ks dk) in
        let cs' := firstn s cs ++ m :: skipn (S (S s)) cs in
        let ks' := remove_at s ks in
        let ks'' := match m with Leaf vs => replace_at s (lastkey vs) ks' | _ => ks' end in
        (ks'', cs', 1, false)
      | _, _ => (ks, cs, 0, true)
      end
    | AShiftL =>
      match nth_error cs s, nth_error cs (S s) with
      | Some C, Some R =>
        let '(C', R', sep) := shift_left C R (nth s ks dk) in
        (replace_at s sep ks, firstn s cs ++ C' :: R' :: skipn (S (S s)) cs, 0, negb (s <? u))
      | _, _ => (ks, cs, 0, true)
      end
    | AShiftR =>
      match s with
      | 0 => (ks, cs, 0, true)
      | S p =>
        match nth_error cs p, nth_error cs s with
        | Some L, Some C =>
          let '(L', C', sep) := shift_right L C (nth p ks dk) in
          (replace_at p sep ks, firstn p cs ++ L' :: C' :: skipn (S s) cs, 0, false)
        | _, _ => (ks, cs, 0, true)
        end
      end
    end.

  Record eres := mkE { e_found : bool; e_node : node; e_last : option K; e_act : action;
                       e_frees : nat; e_bad : bool }.

  Definition not_found (n : node) : eres := mkE false n None ANone 0 false.

  (** slot of the element to remove in the leaf that was reached *)
  Definition leaf_slot (vs : list V) (tg : target) : option nat :=
    match tg with
    | TKey k =>
      let keys := map key vs in
      let slot := find_lower keys k in
      if (slot <? length vs) && keq k (nth slot keys dk) then Some slot else None
    | TPos _ r => if r <? length vs then Some r else None
    end.

  (** erase_iter_descend's search loop: try the children from [s] on until one contains the leaf of the
      iterator (here: the rank); stop as soon as slotkey[s] < iter.key() *)
  Fixpoint search_child (fuel : nat) (ks : list K) (cs : list node) (k : K) (r : nat) (s : nat)
    : option (nat * nat) :=
    match fuel with
    | 0 => None
    | S f =>
      if length ks <? s then None
      else
        let off := sizes_before s cs in
        let sz := match nth_error cs s with Some c => size c | None => 0 end in
        if (off <=? r) && (r <? off + sz) then Some (s, r - off)
        else if (s <? length ks) && ltb (nth s ks dk) k then None
        else search_child f ks cs k r (S s)
    end.

  Definition pick_child (ks : list K) (cs : list node) (tg : target) : option (nat * target) :=
    match tg with
    | TKey k => Some (find_lower ks k, tg)
    | TPos k r =>
      match search_child (S (length ks)) ks cs k r (find_lower ks k) with
      | Some (s, r') => Some (s, TPos k r')
      | None => None
      end
    end.

  Definition first_child (n : node) : option node :=
    match n with Leaf _ => None | Inner _ cs => nth_error cs 0 end.

  Fixpoint erase_desc (n : node) (tg : target) (isroot : bool) (left right : option node)
           (lp_eq rp_eq lr_eq : bool) : eres :=
    match n with
    | Leaf vs =>
      match leaf_slot vs tg with
      | None => not_found n
      | Some slot =>
        let vs' := remove_at slot vs in
        (* "if the last key of the leaf was changed, the parent is notified" *)
        let lk := if slot =? length vs' then (if 1 <=? length vs' then Some (lastkey vs') else None) else None in
        let under := (length vs' <? leafmin) && negb (isroot && (1 <=? length vs')) in
        let act := if under then decide left right lp_eq rp_eq lr_eq else ANone in
        mkE true (Leaf vs') lk act 0 (negb isroot && (length vs' =? 0))
      end
    | Inner ks cs =>
      let u := length ks in
      match pick_child ks cs tg with
      | None => not_found n
      | Some (s, tg') =>
        (* left->childid[left->slotuse - 1] as written in the code (not the last child) *)
        let myleft := if s =? 0 then (match left with
                                      | Some (Inner lks lcs) => nth_error lcs (length lks - 1)
                                      | _ => None end)
                      else nth_error cs (s - 1) in
        let myright := if s =? u then (match right with Some r => first_child r | None => None end)
                       else nth_error cs (S s) in
        let lp' := negb (s =? 0) in
        let rp' := negb (s =? u) in
        let lr' := if s =? 0 then (if s =? u then lr_eq else false) else negb (s =? u) in
        let r := apply_nth (fun c => erase_desc c tg' false myleft myright lp' rp' lr') (not_found dnode) cs s in
        if negb (e_found r) then not_found n
        else
          let cs1 := replace_at s (e_node r) cs in
          (* btree_update_lastkey: fix the separator here, or forward it upwards *)
          let '(ks1, fwd) := match e_last r with
                             | Some lk => if s <? u then (replace_at s lk ks, None) else (ks, Some lk)
                             | None => (ks, None)
                             end in
          let '(ks2, cs2, fr, bad) := apply_action ks1 cs1 s (e_act r) in
          let under := (length ks2 <? innermin) && negb (isroot && (1 <=? length ks2)) in
          let act := if under then decide left right lp_eq rp_eq lr_eq else ANone in
          mkE true (Inner ks2 cs2) fwd act (e_frees r + fr) (e_bad r || bad)
      end
    end.

  (** erase_one / erase(iterator): (tree, erased?, #frees, bad) *)
  Definition erase_top (t : tree) (tg : target) : tree * bool * nat * bool :=
    match t with
    | None => (None, false, 0, false)
    | Some n =>
      let r := erase_desc n tg true None None true true true in
      if negb (e_found r) then (t, false, 0, false)
      else
        match e_act r with
        | ANone => (Some (e_node r), true, e_frees r, e_bad r)
        | ARoot =>
          match e_node r with
          | Leaf vs => (None, true, S (e_frees r), e_bad r || negb (length vs =? 0))
          | Inner ks cs => (Some (hd dnode cs), true, S (e_frees r), e_bad r || negb (length ks =? 0))
          end
        | _ => (Some (e_node r), true, e_frees r, true)
        end
    end.

  Definition erase_one (t : tree) (k : K) := erase_top t (TKey k).

  Definition erase_iter (t : tree) (r : nat) : tree * bool * nat * bool :=
    erase_top t (TPos (nth r (map key (t_elems t)) dk) r).

  (** erase(key): while (erase_one(key)) { ++c; if (!allow_duplicates) break; } *)
  Fixpoint erase_all (fuel : nat) (t : tree) (k : K) : tree * nat * nat * bool :=
    match fuel with
    | 0 => (t, 0, 0, true)
    | S f =>
      let '(t1, found, fr, bad) := erase_one t k in
      if found then
        if dup then
          let '(t2, c, fr2, bad2) := erase_all f t1 k in (t2, S c, fr + fr2, bad || bad2)
        else (t1, 1, fr, bad)
      else (t1, 0, fr, bad)
    end.

  Definition erase_key (t : tree) (k : K) := erase_all (S (t_size t)) t k.

  (** ** bulk_load *)
  (** num_items / (num_leaves - i) items per node, front to back *)
  Fixpoint distribute {A} (cnt : nat) (items : list A) : list (list A) :=
    match cnt with
    | 0 => []
    | S c' => let take := length items / cnt in
              firstn take items :: distribute c' (skipn take items)
    end.

  (** one level of parents over (node, max key of subtree) pairs *)
  Definition mk_parent (grp : list (node * K)) : node * K :=
    (Inner (removelast (map snd grp)) (map fst grp), last (map snd grp) dk).

  Definition build_level (nodes_ : list (node * K)) : list (node * K) :=
    let n := length nodes_ in
    let parents := (n + innermax) / (innermax + 1) in
    map mk_parent (distribute parents nodes_).

  Fixpoint build_up (fuel : nat) (nodes_ : list (node * K)) : option node :=
    match fuel with
    | 0 => None
    | S f =>
      match nodes_ with
      | [] => None
      | [x] => Some (fst x)
      | _ => build_up f (build_level nodes_)
      end
    end.

  (** the construction proper; as shipped (tlx 704fd0b .. b06a490) it was applied to the range as given,
      also in containers without duplicates: kept under this name, refuted in BulkDedup.v *)
  Definition bulk_load_shipped (l : list V) : tree :=
    let n := length l in
    let num_leaves := (n + leafmax - 1) / leafmax in
    let leaves := map (fun vs => (Leaf vs, lastkey vs)) (distribute num_leaves l) in
    build_up (S n) leaves.

  (** a tree without duplicates keeps the first entry of every run of equal keys, as insert(first,last)
      does: item i is taken iff i is the first or key(item i-1) < key(item i) (btree.hpp bulk_load, the
      counting loop and the skip loop compare with the immediate predecessor in the range) *)
  Fixpoint dedup_from (prev : K) (l : list V) : list V :=
    match l with
    | [] => []
    | x :: r => if ltb prev (key x) then x :: dedup_from (key x) r else dedup_from (key x) r
    end.
  Definition dedup (l : list V) : list V :=
    match l with [] => [] | x :: r => x :: dedup_from (key x) r end.
  Definition bulk_items (l : list V) : list V := if dup then l else dedup l.

  Definition bulk_load (l : list V) : tree := bulk_load_shipped (bulk_items l).

  (** ** whole-tree operations of the facades *)
  (** copy_recursive preserves the node structure; clear frees every node *)
  Definition copy_tree (t : tree) : tree := t.

  Variable veqb vltb : V -> V -> bool.     (* operator== / operator< of value_type *)

  Fixpoint list_eqb (a b : list V) : bool :=
    match a, b with
    | [], [] => true
    | x :: a', y :: b' => veqb x y && list_eqb a' b'
    | _, _ => false
    end.
  (** std::lexicographical_compare *)
  Fixpoint lex_lt (a b : list V) : bool :=
    match a, b with
    | _, [] => false
    | [], _ :: _ => true
    | x :: a', y :: b' => if vltb x y then true else if vltb y x then false else lex_lt a' b'
    end.

  (** operator== : size() == other.size() && std::equal(begin(), end(), other.begin()) *)
  Definition t_eq (a b : tree) : bool := (t_size a =? t_size b) && list_eqb (t_elems a) (t_elems b).
  Definition t_lt (a b : tree) : bool := lex_lt (t_elems a) (t_elems b).

  (** ** operation histories over a vector of container variables *)
  Inductive op :=
  | OInsert (i : nat) (v : V)
  | OEraseOne (i : nat) (k : K)
  | OEraseKey (i : nat) (k : K)
  | OEraseIter (i : nat) (r : nat)
  | OFind (i : nat) (k : K)
  | OExists (i : nat) (k : K)
  | OCount (i : nat) (k : K)
  | OLower (i : nat) (k : K)
  | OUpper (i : nat) (k : K)
  | ORange (i : nat) (k : K)
  | OIter (i : nat)
  | OClear (i : nat)
  | OAssign (i j : nat)
  | OCopyCtor (i j : nat)
  | OSwap (i j : nat)
  | OCompare (i j : nat)
  | OBulk (i : nat) (l : list V).

  Inductive out :=
  | RIns (rank : nat) (inserted : bool)
  | RBool (b : bool)
  | RNat (n : nat)
  | RPos (p : option nat)
  | RRange (lo hi : option nat)
  | RList (l : list V)
  | RCmp (eq lt gt : bool)
  | RUnit
  | RInvalid.                     (* precondition of the operation violated (history not valid) *)

  (** per step: output, #node allocations, #node frees, model-internal impossibility flag *)
  Record sres := mkS { s_state : list tree; s_out : out; s_allocs : nat; s_frees : nat; s_bad : bool }.

  Definition get (st : list tree) (i : nat) : tree := nth i st None.
  Definition put (st : list tree) (i : nat) (t : tree) : list tree := replace_at i t st.

  Definition step (st : list tree) (o : op) : sres :=
    match o with
    | OInsert i v =>
      let '(t', rank, ok, al) := insert (get st i) v in
      mkS (put st i t') (RIns rank ok) al 0 false
    | OEraseOne i k =>
      let '(t', found, fr, bad) := erase_one (get st i) k in
      mkS (put st i t') (RBool found) 0 fr bad
    | OEraseKey i k =>
      let '(t', c, fr, bad) := erase_key (get st i) k in
      mkS (put st i t') (RNat c) 0 fr bad
    | OEraseIter i r =>
      if r <? t_size (get st i) then
        let '(t', found, fr, bad) := erase_iter (get st i) r in
        mkS (put st i t') (RBool found) 0 fr bad
      else mkS st RInvalid 0 0 false
    | OFind i k => mkS st (RNat (t_find (get st i) k)) 0 0 false
    | OExists i k => mkS st (RBool (t_exists (get st i) k)) 0 0 false
    | OCount i k => mkS st (RNat (t_count (get st i) k)) 0 0 false
    | OLower i k => mkS st (RPos (t_lower_bound (get st i) k)) 0 0 false
    | OUpper i k => mkS st (RPos (t_upper_bound (get st i) k)) 0 0 false
    | ORange i k => mkS st (RRange (t_lower_bound (get st i) k) (t_upper_bound (get st i) k)) 0 0 false
    | OIter i => mkS st (RList (t_elems (get st i))) 0 0 false
    | OClear i => mkS (put st i None) RUnit 0 (t_nodes (get st i)) false
    | OAssign i j =>
      (* operator=: self-assignment is a no-op; else clear() then copy_recursive *)
      if i =? j then mkS st RUnit 0 0 false
      else mkS (put st i (copy_tree (get st j))) RUnit (t_nodes (get st j)) (t_nodes (get st i)) false
    | OCopyCtor i j =>
      (* variable i is destroyed and re-created as a copy of j (i <> j) *)
      if i =? j then mkS st RInvalid 0 0 false
      else mkS (put st i (copy_tree (get st j))) RUnit (t_nodes (get st j)) (t_nodes (get st i)) false
    | OSwap i j =>
      (* facade swap = std::swap(tree_, from.tree_): copy-construct tmp(a); a = b; b = tmp; ~tmp *)
      let a := get st i in let b := get st j in
      if i =? j then mkS st RUnit (t_nodes a + t_nodes a) (t_nodes a + t_nodes a) false
      else mkS (put (put st i b) j a) RUnit (t_nodes a + t_nodes b + t_nodes a) (t_nodes a + t_nodes b + t_nodes a) false
    | OCompare i j =>
      let a := get st i in let b := get st j in
      mkS st (RCmp (t_eq a b) (t_lt a b) (t_lt b a)) 0 0 false
    | OBulk i l =>
      (* precondition: the tree is empty (and, for the result to be a search tree, l is sorted) *)
      match get st i with
      | None => let t' := bulk_load l in mkS (put st i t') RUnit (t_nodes t') 0 false
      | Some _ => mkS st RInvalid 0 0 false
      end
    end.

  Fixpoint run (st : list tree) (ops : list op) : list tree * list sres :=
    match ops with
    | [] => (st, [])
    | o :: r => let s := step st o in
                let '(st', outs) := run (s_state s) r in (st', s :: outs)
    end.

  (** ** the invariant as a boolean (what verify() checks, on the structural model) *)
  Fixpoint sortedk (l : list K) : bool :=
    match l with
    | [] => true
    | x :: r => match r with [] => true | y :: _ => kle x y && sortedk r end
    end.

  (** strictly increasing (unique containers) *)
  Fixpoint sortedk_strict (l : list K) : bool :=
    match l with
    | [] => true
    | x :: r => match r with [] => true | y :: _ => ltb x y && sortedk_strict r end
    end.

  Definition maxkey (n : node) : K := last (map key (elems n)) dk.

  Fixpoint seps_ok (ks : list K) (cs : list node) : bool :=
    match ks, cs with
    | [], _ => true
    | k :: ks', c :: cs' => keq k (maxkey c) && seps_ok ks' cs'
    | _ :: _, [] => false
    end.

  (** shape of a non-root node of height h: uniform depth, arity, fill bounds, separators *)
  Fixpoint shape_b (isroot : bool) (h : nat) (n : node) {struct n} : bool :=
    match n with
    | Leaf vs =>
      (h =? 0) && (length vs <=? leafmax) && (if isroot then 1 <=? length vs else leafmin <=? length vs)
      && (1 <=? length vs)
    | Inner ks cs =>
      match h with
      | 0 => false
      | S h' =>
        (length cs =? S (length ks)) && (length ks <=? innermax)
        && (if isroot then 1 <=? length ks else innermin <=? length ks) && (1 <=? length ks)
        && seps_ok ks cs
        && forallb (shape_b false h') cs
      end
    end.

  Definition inv_node_b (n : node) : bool :=
    shape_b true (height n) n
    && sortedk (map key (elems n))
    && (dup || sortedk_strict (map key (elems n))).

  Definition inv_b (t : tree) : bool := match t with None => true | Some n => inv_node_b n end.
End Model.

Arguments Leaf {K V} vs.
Arguments Inner {K V} ks cs.
