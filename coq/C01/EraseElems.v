(** C01 — a single erase (erase_one / erase(iterator)) refines the sorted-list specification:
    on a tree satisfying the invariant, [erase_desc] removes exactly the element the specification
    removes (the first one with an equivalent key, resp. the one of the given rank). *)
From Coq Require Import List Bool Arith Lia.
From TLXV Require Import Common.Order C01.Model C01.Defs C01.SearchProofs C01.EraseDecide C01.EraseLemmas.
Import ListNotations.

Section EraseElems.
  Context {K V : Type}.
  Variable ltb : K -> K -> bool.
  Variable key : V -> K.
  Variable dk : K.
  Variables leafmax innermax : nat.
  Variable dup binsearch : bool.
  Hypothesis Hswo : SWO ltb.
  Hypothesis Hl : 4 <= leafmax.
  Hypothesis Hi : 4 <= innermax.

  Notation node := (@node K V).
  Notation eres := (@eres K V).
  Notation kle := (kle ltb).
  Notation keq := (keq ltb).
  Notation leafmin := (leafmin leafmax).
  Notation innermin := (innermin innermax).
  Notation maxkey := (maxkey key dk).
  Notation lastkey := (lastkey key dk).
  Notation sortedk := (sortedk ltb).
  Notation sortedk_strict := (sortedk_strict ltb).
  Notation seps_ok := (seps_ok ltb key dk).
  Notation shape := (shape ltb key dk leafmax innermax).
  Notation keys_sorted := (keys_sorted ltb key dup).
  Notation InvN := (InvN ltb key dk leafmax innermax dup).
  Notation Inv := (Inv ltb key dk leafmax innermax dup).
  Notation find_lower := (find_lower ltb dk binsearch).
  Notation find_lower_lin := (find_lower_lin ltb).
  Notation spec_lower := (spec_lower ltb key).
  Notation spec_has := (spec_has ltb key dk).
  Notation spec_erase_one := (spec_erase_one ltb key dk).
  Notation erase_desc := (erase_desc ltb key dk leafmax innermax binsearch).
  Notation erase_top := (erase_top ltb key dk leafmax innermax binsearch).
  Notation erase_one := (erase_one ltb key dk leafmax innermax binsearch).
  Notation erase_iter := (erase_iter ltb key dk leafmax innermax binsearch).
  Notation apply_action := (apply_action key dk).
  Notation pick_child := (pick_child ltb dk binsearch).
  Notation search_child := (search_child ltb dk).
  Notation leaf_slot := (leaf_slot ltb key dk binsearch).
  Notation inner_finish := (inner_finish key dk leafmax innermax).
  Notation child_call := (child_call ltb key dk leafmax innermax binsearch).

  (** ** separators *)
  Lemma seps_ok_nth ks : forall (cs : list node) i,
    seps_ok ks cs = true -> i < length ks ->
    exists c, nth_error cs i = Some c /\ keq (nth i ks dk) (maxkey c) = true.
  Proof using.
    clear Hl Hi. induction ks as [|k ks IH]; intros cs i Hs Hi'; cbn [length] in Hi'; [lia|].
    destruct cs as [|c cs]; cbn [Model.seps_ok] in Hs; [discriminate|].
    apply andb_true_iff in Hs as [Hk Hr].
    destruct i as [|i]; cbn [nth nth_error]; [eauto|]. apply IH; [exact Hr|lia].
  Qed.

  Lemma maxkey_in (c : node) : elems c <> [] -> In (maxkey c) (map key (elems c)).
  Proof.
    intros Hne. unfold Model.maxkey. apply last_In. intros E. apply map_eq_nil in E. contradiction.
  Qed.

  (** all keys of a sorted non-empty subtree are <= its max key *)
  Lemma le_maxkey (c : node) x :
    sortedk (map key (elems c)) = true -> In x (map key (elems c)) -> kle x (maxkey c) = true.
  Proof. intros Hs Hx. unfold Model.maxkey. now apply (sortedk_le_last ltb Hswo). Qed.

  (** the separators of a search tree are sorted *)
  Lemma seps_sorted ks : forall (cs : list node),
    seps_ok ks cs = true -> Forall (fun c => elems c <> []) cs ->
    sortedk (map key (flat_map elems cs)) = true -> sortedk ks = true.
  Proof.
    induction ks as [|k1 ks IH]; intros cs Hs Hne Hsort; [reflexivity|].
    destruct cs as [|c1 cs]; cbn [Model.seps_ok] in Hs; [discriminate|].
    apply andb_true_iff in Hs as [Hk1 Hr].
    inversion Hne as [|? ? Hne1 Hne']; subst.
    cbn [flat_map] in Hsort. rewrite map_app in Hsort.
    destruct (sortedk_app_inv ltb Hswo _ _ Hsort) as (S1 & S2 & Hcross).
    specialize (IH cs Hr Hne' S2).
    destruct ks as [|k2 ks']; [reflexivity|].
    change (kle k1 k2 && sortedk (k2 :: ks') = true). rewrite IH, andb_true_r.
    destruct cs as [|c2 cs']; cbn [Model.seps_ok] in Hr; [discriminate|].
    apply andb_true_iff in Hr as [Hk2 _].
    inversion Hne' as [|? ? Hne2 _]; subst.
    apply (kle_trans ltb Hswo _ (maxkey c1)); [now apply keq_kle_l|].
    apply (kle_trans ltb Hswo _ (maxkey c2)); [|now apply keq_kle_r].
    apply Hcross; [now apply maxkey_in|]. cbn [flat_map]. rewrite map_app. apply in_or_app. left. now apply maxkey_in.
  Qed.

  (** the children before the slot found by the linear scan hold only keys < k *)
  Lemma lower_children_lt ks k : forall (cs : list node),
    seps_ok ks cs = true -> sortedk (map key (flat_map elems cs)) = true ->
    forallb (fun x => ltb x k) (map key (flat_map elems (firstn (find_lower_lin ks k) cs))) = true.
  Proof.
    induction ks as [|k1 ks IH]; intros cs Hs Hsort; [reflexivity|].
    cbn [Model.find_lower_lin]. destruct (ltb k1 k) eqn:E1; [|reflexivity].
    destruct cs as [|c1 cs]; cbn [Model.seps_ok] in Hs; [discriminate|].
    apply andb_true_iff in Hs as [Hk1 Hr].
    cbn [flat_map] in Hsort. rewrite map_app in Hsort.
    destruct (sortedk_app_inv ltb Hswo _ _ Hsort) as (S1 & S2 & _).
    cbn [firstn flat_map]. rewrite map_app, forallb_app, (IH cs Hr S2), andb_true_r.
    apply forallb_forall. intros x Hx.
    apply (kle_ltb_trans ltb Hswo _ k1); [|exact E1].
    apply (kle_trans ltb Hswo _ (maxkey c1)); [now apply le_maxkey|now apply keq_kle_r].
  Qed.

  (** ** the specification on a list cut in three *)
  Lemma spec_mid (FA EC FB : list V) k :
    forallb (fun x => ltb x k) (map key FA) = true ->
    (forallb (fun x => ltb x k) (map key EC) = true -> FB = []) ->
    spec_has (FA ++ EC ++ FB) k = spec_has EC k /\
    (spec_has EC k = true -> spec_lower (FA ++ EC ++ FB) k = length FA + spec_lower EC k).
  Proof.
    intros HA HB. unfold Defs.spec_has, Defs.spec_lower.
    rewrite !map_app, find_lower_lin_app, HA, find_lower_lin_app, map_length.
    destruct (forallb (fun x => ltb x k) (map key EC)) eqn:EC'.
    - rewrite (HB eq_refl). cbn [map Model.find_lower_lin]. rewrite !app_nil_r.
      apply find_lower_lin_full in EC'. rewrite EC', !app_length, !map_length.
      replace (length FA + (length EC + 0) <? length FA + length EC) with false
        by (symmetry; apply Nat.ltb_ge; lia).
      rewrite Nat.ltb_irrefl. cbn [andb]. split; [reflexivity|discriminate].
    - assert (Hlt : find_lower_lin (map key EC) k < length EC).
      { pose proof (find_lower_lin_le_length ltb (map key EC) k) as Hle. rewrite map_length in Hle.
        destruct (Nat.eq_dec (find_lower_lin (map key EC) k) (length EC)) as [E|E]; [|lia].
        rewrite <- (map_length key) in E. apply find_lower_lin_full in E. congruence. }
      rewrite <- (map_length key FA). rewrite nth_mid by (now rewrite map_length).
      rewrite !app_length, !map_length.
      replace (length FA + find_lower_lin (map key EC) k <? length FA + (length EC + length FB)) with true
        by (symmetry; apply Nat.ltb_lt; lia).
      replace (find_lower_lin (map key EC) k <? length EC) with true by (symmetry; apply Nat.ltb_lt; lia).
      split; reflexivity.
  Qed.

  (** ** erase_iter_descend's child search *)
  Lemma sizes_before_S (cs : list node) s c :
    nth_error cs s = Some c -> sizes_before (S s) cs = sizes_before s cs + size c.
  Proof.
    intros E. destruct (split_nth cs s c E) as [Ec L]. unfold sizes_before.
    rewrite Ec at 1. rewrite <- L at 1.
    replace (S (length (firstn s cs))) with (length (firstn s cs ++ [c])) by (rewrite app_length; cbn [length]; lia).
    replace (firstn s cs ++ c :: skipn (S s) cs) with ((firstn s cs ++ [c]) ++ skipn (S s) cs)
      by (now rewrite <- app_assoc).
    rewrite firstn_len_app, map_app, list_sum_app. cbn [map]. rewrite list_sum_cons. cbn [list_sum fold_right]. lia.
  Qed.

  Lemma search_child_ok ks (cs : list node) k r : forall fuel s,
    length cs = S (length ks) -> s <= length ks -> length ks - s < fuel ->
    sizes_before s cs <= r -> r < sizes_before (S (length ks)) cs ->
    (forall j, s <= j -> j < length ks -> ltb (nth j ks dk) k = false) ->
    exists s' c, search_child fuel ks cs k r s = Some (s', r - sizes_before s' cs) /\
                 nth_error cs s' = Some c /\
                 sizes_before s' cs <= r /\ r < sizes_before s' cs + size c.
  Proof.
    induction fuel as [|f IH]; intros s Hlen Hs Hf Hlo Hhi Hmono; [lia|].
    cbn [Model.search_child].
    replace (length ks <? s) with false by (symmetry; apply Nat.ltb_ge; lia).
    destruct (nth_error cs s) as [c|] eqn:Ec.
    2:{ apply nth_error_None in Ec. lia. }
    replace (sizes_before s cs <=? r) with true by (symmetry; apply Nat.leb_le; lia).
    cbn [andb]. destruct (r <? sizes_before s cs + size c) eqn:Er.
    - apply Nat.ltb_lt in Er. exists s, c. auto.
    - apply Nat.ltb_ge in Er. pose proof (sizes_before_S cs s c Ec) as HS.
      assert (Hsu : s < length ks).
      { destruct (Nat.eq_dec s (length ks)) as [E|E]; [|lia]. subst s. lia. }
      replace (s <? length ks) with true by (symmetry; apply Nat.ltb_lt; lia).
      rewrite (Hmono s (le_n _) Hsu). cbn [andb].
      apply IH; try lia. intros j Hj1 Hj2. apply Hmono; lia.
  Qed.

  (** ** targets *)
  Definition tg_ok (tg : target) (l : list V) : Prop :=
    match tg with
    | TKey _ => True
    | TPos k i => i < length l /\ k = nth i (map key l) dk
    end.

  (** rank of the element the specification removes *)
  Definition tg_rank (tg : target) (l : list V) : option nat :=
    match tg with
    | TKey k => if spec_has l k then Some (spec_lower l k) else None
    | TPos _ i => Some i
    end.

  Lemma tg_rank_lt tg l j : tg_ok tg l -> tg_rank tg l = Some j -> j < length l.
  Proof.
    destruct tg as [k|k i]; cbn [tg_ok tg_rank].
    - intros _. destruct (spec_has l k) eqn:E; [|discriminate]. intros H; inversion H; subst.
      unfold Defs.spec_has in E. apply andb_true_iff in E as [E _]. now apply Nat.ltb_lt in E.
    - intros [H _] E. inversion E; subst. exact H.
  Qed.

  (** ** the leaf *)
  Lemma leaf_slot_rank vs tg :
    sortedk (map key vs) = true -> tg_ok tg vs -> leaf_slot vs tg = tg_rank tg vs.
  Proof.
    intros Hs Hok. destruct tg as [k|k i]; cbn [Model.leaf_slot tg_rank].
    - rewrite (find_lower_eq_lin ltb dk Hswo binsearch _ k Hs). unfold Defs.spec_has, Defs.spec_lower.
      reflexivity.
    - destruct Hok as [Hi' _]. now replace (i <? length vs) with true by (symmetry; apply Nat.ltb_lt; lia).
  Qed.

  (** ** which child is entered *)
  Lemma pick_child_spec r h ks cs tg :
    InvN r h (Inner ks cs) -> tg_ok tg (flat_map elems cs) ->
    exists s tg' c,
      pick_child ks cs tg = Some (s, tg') /\ nth_error cs s = Some c /\ tg_ok tg' (elems c) /\
      tg_rank tg (flat_map elems cs) = option_map (fun j => sizes_before s cs + j) (tg_rank tg' (elems c)).
  Proof.
    intros [Hsh [Hsort Hstrict]] Hok.
    apply shape_inner in Hsh as (h' & -> & Hlen & _ & _ & Hu & Hseps & Hch).
    cbn [elems] in Hsort.
    assert (Hne : Forall (fun c : node => elems c <> []) cs).
    { eapply Forall_impl; [|exact Hch]. intros c Hc. exact (shape_elems_ne ltb key dk leafmax innermax Hl Hi _ _ _ Hc). }
    pose proof (seps_sorted ks cs Hseps Hne Hsort) as Hks.
    assert (Hfl : forall k, find_lower ks k = find_lower_lin ks k).
    { intros k. now apply (find_lower_eq_lin ltb dk Hswo). }
    destruct tg as [k|k i].
    - (* erase_one_descend *)
      cbn [Model.pick_child]. rewrite Hfl. set (s := find_lower_lin ks k).
      assert (Hsle : s <= length ks) by apply find_lower_lin_le_length.
      destruct (nth_error cs s) as [c|] eqn:Ec.
      2:{ apply nth_error_None in Ec. lia. }
      exists s, (TKey k), c. repeat split; auto.
      destruct (split_nth cs s c Ec) as [E L].
      pose proof (lower_children_lt ks k cs Hseps Hsort) as HA. fold s in HA.
      rewrite sizes_before_len. cbn [tg_rank].
      set (A := firstn s cs) in *. set (B := skipn (S s) cs) in *.
      rewrite E, flat_single.
      destruct (spec_mid (flat_map elems A) (elems c) (flat_map elems B) k HA) as [Hhas Hlow].
      + intros Hall. destruct (Nat.eq_dec s (length ks)) as [Es|Es].
        * assert (HB : B = []).
          { apply length_zero_iff_nil. unfold B. rewrite skipn_length. lia. }
          now rewrite HB.
        * exfalso. assert (Hslt : s < length ks) by lia.
          pose proof (find_lower_lin_at ltb dk ks k Hslt) as Hat. fold s in Hat.
          destruct (seps_ok_nth ks cs s Hseps Hslt) as (c0 & Ec0 & Hkeq).
          rewrite Ec in Ec0. inversion Ec0; subst c0.
          assert (Hcne : elems c <> []) by exact (Forall_nth_error _ _ _ _ Hne Ec).
          rewrite forallb_forall in Hall. specialize (Hall _ (maxkey_in c Hcne)).
          rewrite (kle_ltb_trans ltb Hswo _ _ _ (keq_kle_l ltb _ _ Hkeq) Hall) in Hat. discriminate.
      + rewrite Hhas. destruct (spec_has (elems c) k) eqn:Eh; cbn [option_map]; [|reflexivity].
        now rewrite Hlow.
    - (* erase_iter_descend *)
      destruct Hok as [Hi' Hk]. cbn [Model.pick_child]. rewrite Hfl. set (s0 := find_lower_lin ks k).
      assert (Hsle : s0 <= length ks) by apply find_lower_lin_le_length.
      pose proof (lower_children_lt ks k cs Hseps Hsort) as HA. fold s0 in HA.
      assert (Hlo : sizes_before s0 cs <= i).
      { rewrite sizes_before_len. destruct (Nat.le_gt_cases (length (flat_map elems (firstn s0 cs))) i) as [H|H]; [exact H|exfalso].
        rewrite <- (firstn_skipn s0 cs), flat_map_app, map_app in Hk.
        rewrite app_nth1 in Hk by (now rewrite map_length).
        rewrite forallb_forall in HA.
        assert (Hin : In k (map key (flat_map elems (firstn s0 cs)))).
        { rewrite Hk. apply nth_In. now rewrite map_length. }
        specialize (HA _ Hin). rewrite (swo_irrefl _ Hswo) in HA. discriminate. }
      assert (Hhi : i < sizes_before (S (length ks)) cs).
      { rewrite sizes_before_len. rewrite firstn_all2 by lia. exact Hi'. }
      assert (Hmono : forall j, s0 <= j -> j < length ks -> ltb (nth j ks dk) k = false).
      { intros j Hj1 Hj2. assert (Hs0 : s0 < length ks) by lia.
        pose proof (find_lower_lin_at ltb dk ks k Hs0) as Hat. fold s0 in Hat.
        pose proof (sortedk_nth_mono ltb Hswo ks dk s0 j Hks Hj1 Hj2) as Hle.
        destruct (ltb (nth j ks dk) k) eqn:E; [|reflexivity].
        rewrite (kle_ltb_trans ltb Hswo _ _ _ Hle E) in Hat. discriminate. }
      destruct (search_child_ok ks cs k i (S (length ks)) s0 Hlen Hsle ltac:(lia) Hlo Hhi Hmono)
        as (s & c & Es & Ec & Hlo' & Hhi').
      rewrite Es. exists s, (TPos k (i - sizes_before s cs)), c. repeat split; auto.
      + rewrite <- size_elems. lia.
      + destruct (split_nth cs s c Ec) as [E L]. rewrite sizes_before_len in *.
        set (A := firstn s cs) in *. set (B := skipn (S s) cs) in *.
        rewrite Hk, E, flat_single, !map_app, <- (map_length key (flat_map elems A)).
        replace i with (length (map key (flat_map elems A)) + (i - length (map key (flat_map elems A)))) at 1
          by (rewrite map_length; lia).
        apply nth_mid. rewrite !map_length. rewrite size_elems in Hhi'. lia.
      + cbn [tg_rank option_map]. f_equal. lia.
  Qed.

  (** ** the node-level refinement theorem *)
  Theorem erase_desc_elems n : forall r h tg left right lp rp lr,
    InvN r h n -> tg_ok tg (elems n) ->
    let res := erase_desc n tg r left right lp rp lr in
    match tg_rank tg (elems n) with
    | Some i => e_found res = true /\ elems (e_node res) = remove_at i (elems n)
    | None => e_found res = false /\ e_node res = n
    end.
  Proof.
    induction n as [vs|ks cs IH] using node_ind'; intros r h tg left right lp rp lr HI Hok res; subst res.
    - rewrite erase_desc_leaf. destruct HI as [_ [Hsort _]]. cbn [elems] in *.
      rewrite (leaf_slot_rank vs tg Hsort Hok). destruct (tg_rank tg vs) as [i|]; cbn [e_found e_node elems]; auto.
    - rewrite erase_desc_inner. cbn [elems] in *.
      destruct (pick_child_spec r h ks cs tg HI Hok) as (s & tg' & c & Ep & Ec & Hok' & Hrank).
      rewrite Ep, Hrank, apply_nth_spec, Ec.
      destruct HI as [Hsh Hks]. pose proof (shape_uh _ _ _ _ _ _ _ _ Hsh) as Huh.
      apply shape_inner in Hsh as (h' & -> & Hlen & _ & _ & Hu & Hseps & Hch).
      cbn [uh] in Huh.
      destruct (split_nth cs s c Ec) as [E L].
      assert (HIc : InvN false h' c).
      { split; [exact (Forall_nth_error _ _ _ _ Hch Ec)|].
        cbn [elems] in Hks. rewrite E, flat_single in Hks.
        apply (keys_sorted_app ltb key dup Hswo) in Hks as [_ Hks].
        now apply (keys_sorted_app ltb key dup Hswo) in Hks as [Hks _]. }
      set (rc := child_call ks cs left right lr s tg' c).
      pose proof (IH0 := Forall_nth_error _ _ _ _ IH Ec).
      assert (IH' : match tg_rank tg' (elems c) with
                    | Some i => e_found rc = true /\ elems (e_node rc) = remove_at i (elems c)
                    | None => e_found rc = false /\ e_node rc = c
                    end).
      { exact (IH0 false h' tg' (child_left cs left s) (child_right cs right s (length ks))
                   (lp_of s) (rp_of s (length ks)) (lr_of s (length ks) lr) HIc Hok'). }
      clear IH0.
      destruct (tg_rank tg' (elems c)) as [j|] eqn:Ej; cbn [option_map].
      + destruct IH' as [Hf He].
        pose proof (tg_rank_lt _ _ _ Hok' Ej) as Hj.
        destruct (fix_sep ks s (e_last rc)) as [ks1 fwd] eqn:E1.
        assert (Hc' : uh h' (e_node rc)).
        { unfold rc, EraseLemmas.child_call. apply (erase_desc_uh ltb key dk leafmax innermax binsearch Hl Hi).
          exact (Forall_nth_error _ _ _ _ Huh Ec). }
        assert (Hcs1 : replace_at s (e_node rc) cs = firstn s cs ++ e_node rc :: skipn (S s) cs).
        { rewrite E at 1. rewrite <- L at 1. apply replace_at_len_app. }
        assert (H1 : Forall (uh h') (replace_at s (e_node rc) cs)).
        { rewrite Hcs1. rewrite E in Huh. apply Forall_single in Huh as (HA & _ & HB). apply Forall_single. auto. }
        pose proof (apply_action_elems key dk leafmax innermax Hl Hi h' ks1 _ s (e_act rc) H1) as Ha.
        destruct (apply_action ks1 (replace_at s (e_node rc) cs) s (e_act rc)) as [[[ks2 cs2] fr] bad] eqn:E2.
        rewrite (inner_finish_found key dk leafmax innermax _ _ _ _ _ _ _ _ _ _ _ _ _ _ _ _ Hf E1 E2).
        cbn [e_found e_node elems]. split; [reflexivity|]. destruct Ha as [-> _].
        rewrite Hcs1, flat_single, He, sizes_before_len.
        replace (flat_map elems cs) with (flat_map elems (firstn s cs ++ c :: skipn (S s) cs)) by (now rewrite <- E).
        rewrite flat_single.
        symmetry. now apply remove_at_mid.
      + destruct IH' as [Hf _]. rewrite inner_finish_notfound by exact Hf. split; reflexivity.
  Qed.

  (** ** the root: erase_top *)
  Lemma erase_root_cases n h tg :
    shape true h n ->
    let res := erase_desc n tg true None None true true true in
    e_found res = true ->
    e_act res = ANone \/
    (e_act res = ARoot /\ (e_node res = Leaf [] \/ exists c, e_node res = Inner [] [c])).
  Proof.
    intros Hsh res Hf. subst res. destruct n as [vs|ks cs].
    - rewrite erase_desc_leaf in *. destruct (leaf_slot vs tg) as [slot|]; [|discriminate].
      cbn [e_act e_node] in *.
      destruct (@own_action_root K V leafmax innermax leafmin (length (remove_at slot vs)) true true true) as [E|[E E0]];
        [left; exact E|right]. split; [exact E|left]. apply length_zero_iff_nil in E0. now rewrite E0.
    - rewrite erase_desc_inner in *. destruct (pick_child ks cs tg) as [[s tg']|]; [|discriminate].
      set (f := child_call ks cs None None true s tg') in *.
      destruct (apply_nth_child f cs s) as [(c & Ec & E)|[En E]]; rewrite E in *; clear E;
        [|rewrite inner_finish_notfound in Hf by reflexivity; discriminate].
      destruct (e_found (f c)) eqn:Ef; [|rewrite inner_finish_notfound in Hf by exact Ef; discriminate].
      destruct (fix_sep ks s (e_last (f c))) as [ks1 fwd] eqn:E1.
      apply shape_inner in Hsh as (h' & _ & Hlen & _).
      assert (Har : length (replace_at s (e_node (f c)) cs) = S (length ks1)).
      { rewrite replace_at_length. pose proof (fix_sep_length ks s (e_last (f c))) as HL. rewrite E1 in HL.
        cbn [fst] in HL. lia. }
      pose proof (apply_action_arity key dk leafmax innermax Hl Hi ks1 _ s (e_act (f c)) Har) as Ha.
      destruct (apply_action ks1 (replace_at s (e_node (f c)) cs) s (e_act (f c))) as [[[ks2 cs2] fr] bad] eqn:E2.
      rewrite (inner_finish_found key dk leafmax innermax _ _ _ _ _ _ _ _ _ _ _ _ _ _ _ _ Ef E1 E2).
      cbn [e_act e_node].
      destruct (@own_action_root K V leafmax innermax innermin (length ks2) true true true) as [E|[E E0]];
        [left; exact E|right]. split; [exact E|right].
      apply length_zero_iff_nil in E0. subst ks2. cbn [length] in Ha.
      destruct cs2 as [|c2 [|c3 cs2]]; cbn [length] in Ha; try lia. eauto.
  Qed.

  Theorem erase_top_elems t tg :
    Inv t -> tg_ok tg (t_elems t) ->
    let '(t', found, fr, bad) := erase_top t tg in
    match tg_rank tg (t_elems t) with
    | Some i => found = true /\ t_elems t' = remove_at i (t_elems t)
    | None => found = false /\ t' = t
    end.
  Proof.
    intros HI Hok. destruct t as [n|].
    - apply Inv_Some in HI. cbn [t_elems] in *.
      pose proof (erase_desc_elems n true (height n) tg None None true true true HI Hok) as He.
      destruct HI as [Hsh _].
      pose proof (erase_root_cases n (height n) tg Hsh) as Hr.
      cbv zeta in He, Hr. unfold Model.erase_top.
      set (res := erase_desc n tg true None None true true true) in *.
      destruct (tg_rank tg (elems n)) as [i|].
      + destruct He as [Hf He]. rewrite Hf. cbn [negb].
        destruct (Hr Hf) as [Ea|[Ea [En|[c En]]]]; rewrite Ea.
        * cbn [t_elems]. auto.
        * rewrite En in *. cbn [t_elems elems] in *. auto.
        * rewrite En in *. cbn [t_elems elems hd flat_map] in *. rewrite app_nil_r in He. auto.
      + destruct He as [Hf He]. rewrite Hf. cbn [negb]. auto.
    - cbn [Model.erase_top t_elems]. destruct tg as [k|k i]; cbn [tg_rank].
      + cbn. auto.
      + destruct Hok as [Hi' _]. cbn in Hi'. lia.
  Qed.

  Lemma t_size_elems (t : @tree K V) : t_size t = length (t_elems t).
  Proof. destruct t as [n|]; [apply size_elems|reflexivity]. Qed.

  Theorem erase_one_elems t k :
    Inv t ->
    let '(t', found, fr, bad) := erase_one t k in
    (t_elems t', found) = spec_erase_one (t_elems t) k.
  Proof.
    intros HI. pose proof (erase_top_elems t (TKey k) HI I) as H. unfold Model.erase_one.
    destruct (erase_top t (TKey k)) as [[[t' found] fr] bad].
    unfold Defs.spec_erase_one. cbn [tg_rank] in H.
    destruct (spec_has (t_elems t) k).
    - destruct H as [-> ->]. reflexivity.
    - destruct H as [-> ->]. reflexivity.
  Qed.

  Theorem erase_iter_elems t r :
    Inv t -> r < t_size t ->
    let '(t', found, fr, bad) := erase_iter t r in
    found = true /\ t_elems t' = remove_at r (t_elems t).
  Proof.
    intros HI Hr. rewrite t_size_elems in Hr. unfold Model.erase_iter.
    assert (Hok : tg_ok (TPos (nth r (map key (t_elems t)) dk) r) (t_elems t)) by (split; auto).
    pose proof (erase_top_elems t _ HI Hok) as H.
    destruct (erase_top t (TPos (nth r (map key (t_elems t)) dk) r)) as [[[t' found] fr] bad].
    exact H.
  Qed.
End EraseElems.
