(** C01/C02 — histories: every operation of the model refines the sorted-list specification, keeps the
    invariant of every container variable, never reaches a state the model declares impossible, and
    allocates/frees exactly the difference of the node counts.  By induction over the operation list. *)
From Coq Require Import List Bool Arith Lia.
From TLXV Require Import Common.Order C01.Model C01.Defs C01.Spec C01.SearchProofs C01.LookupProofs
     C01.BulkProofs C01.BulkDedup C01.InsertProofs C01.EraseElems C01.EraseInv.
Import ListNotations.

Section History.
  Context {K V : Type}.
  Variable ltb : K -> K -> bool.
  Variable key : V -> K.
  Variable dk : K.
  Variables leafmax innermax : nat.
  Variable dup binsearch : bool.
  Variable veqb vltb : V -> V -> bool.
  Hypothesis Hswo : SWO ltb.
  Hypothesis Hl : 4 <= leafmax.
  Hypothesis Hi : 4 <= innermax.

  Notation tree := (@tree K V).
  Notation Inv := (Inv ltb key dk leafmax innermax dup).
  Notation step := (step ltb key dk leafmax innermax dup binsearch veqb vltb).
  Notation run := (run ltb key dk leafmax innermax dup binsearch veqb vltb).
  Notation spec_step := (spec_step ltb key dk dup veqb vltb).
  Notation spec_run := (spec_run ltb key dk dup veqb vltb).
  Notation op_wf := (op_wf ltb key).

  Definition abs (st : list tree) : list (list V) := map t_elems st.
  Definition total_nodes (st : list tree) : nat := list_sum (map t_nodes st).

  (** ** variables *)
  Lemma abs_get st i : t_elems (get st i) = sget (abs st) i.
  Proof.
    unfold get, sget, abs. change (@nil V) with (t_elems (@None (@node K V))). now rewrite map_nth.
  Qed.

  Lemma map_replace_at {A B} (f : A -> B) i x l : map f (replace_at i x l) = replace_at i (f x) (map f l).
  Proof.
    unfold replace_at. rewrite map_length. destruct (i <? length l); [|reflexivity].
    now rewrite map_app, firstn_map, map_cons, skipn_map.
  Qed.

  Lemma abs_put st i t : abs (put st i t) = sput (abs st) i (t_elems t).
  Proof. apply map_replace_at. Qed.

  Lemma put_length st i (t : tree) : length (put st i t) = length st.
  Proof. apply replace_at_length. Qed.

  Lemma Inv_get st i : Forall Inv st -> Inv (get st i).
  Proof.
    intros H. unfold get. destruct (Nat.lt_ge_cases i (length st)) as [L|G].
    - rewrite Forall_forall in H. apply H. now apply nth_In.
    - rewrite nth_overflow by lia. reflexivity.
  Qed.

  Lemma Inv_put st i t : Forall Inv st -> Inv t -> Forall Inv (put st i t).
  Proof.
    intros H Ht. unfold put, replace_at. destruct (i <? length st); [|exact H].
    apply Forall_app. split.
    - rewrite <- (firstn_skipn i st) in H. now apply Forall_app in H.
    - constructor; [exact Ht|]. rewrite <- (firstn_skipn (S i) st) in H. now apply Forall_app in H.
  Qed.

  Lemma total_put st i t :
    i < length st -> total_nodes (put st i t) + t_nodes (get st i) = total_nodes st + t_nodes t.
  Proof.
    intros L. unfold total_nodes, put, get, replace_at.
    apply Nat.ltb_lt in L. rewrite L. apply Nat.ltb_lt in L.
    assert (E : nth_error st i = Some (nth i st None)) by (apply nth_error_nth'; exact L).
    remember (nth i st None) as x eqn:Ex.
    pose proof (firstn_skipn_nth st i x E) as Est.
    replace (list_sum (map t_nodes st)) with (list_sum (map t_nodes (firstn i st ++ x :: skipn (S i) st)))
      by (now rewrite <- Est).
    rewrite !map_app, !list_sum_app. cbn [map list_sum fold_right]. lia.
  Qed.

  Lemma get_put_same st i (t : tree) : i < length st -> get (put st i t) i = t.
  Proof.
    intros L. unfold get, put, replace_at. apply Nat.ltb_lt in L. rewrite L. apply Nat.ltb_lt in L.
    rewrite app_nth2 by (rewrite firstn_length; lia). rewrite firstn_length.
    replace (i - Nat.min i (length st)) with 0 by lia. reflexivity.
  Qed.

  Lemma get_put_other st i j (t : tree) : i <> j -> get (put st i t) j = get st j.
  Proof.
    intros N. unfold get, put, replace_at. destruct (i <? length st) eqn:E; [|reflexivity].
    apply Nat.ltb_lt in E.
    destruct (Nat.lt_ge_cases j i) as [L|G].
    - rewrite app_nth1 by (rewrite firstn_length; lia).
      rewrite <- (firstn_skipn i st) at 2. rewrite app_nth1 by (rewrite firstn_length; lia). reflexivity.
    - rewrite app_nth2 by (rewrite firstn_length; lia). rewrite firstn_length.
      replace (j - Nat.min i (length st)) with (S (j - i - 1)) by lia. cbn [nth].
      rewrite <- (firstn_skipn (S i) st) at 2. rewrite app_nth2 by (rewrite firstn_length; lia).
      rewrite firstn_length. f_equal. lia.
  Qed.

  (** an invariant-satisfying tree is empty exactly when it is the null root *)
  Lemma Inv_elems_nil (t : tree) : Inv t -> t_elems t = [] -> t = None.
  Proof.
    destruct t as [n|]; [|reflexivity]. intros HI E. exfalso.
    apply Inv_Some in HI. destruct HI as [Hs _].
    exact (shape_elems_nonempty ltb key dk leafmax innermax n _ _ Hs E).
  Qed.

  Lemma t_size_elems (t : tree) : t_size t = length (t_elems t).
  Proof. destruct t; [apply LookupProofs.size_elems|reflexivity]. Qed.

  (** ** one step *)
  Definition step_ok (st : list tree) (o : op) : Prop :=
    let s := step st o in
    Forall Inv (s_state s)
    /\ length (s_state s) = length st
    /\ abs (s_state s) = fst (spec_step (abs st) o)
    /\ s_out s = snd (spec_step (abs st) o)
    /\ s_bad s = false
    /\ total_nodes st + s_allocs s = total_nodes (s_state s) + s_frees s.

  Lemma step_refines st o : Forall Inv st -> op_wf (length st) o -> step_ok st o.
  Proof.
    intros HI Hwf. unfold step_ok.
    destruct o as [i v|i k|i k|i r|i k|i k|i k|i k|i k|i k|i|i|i j|i j|i j|i j|i l]; cbn [Model.step Spec.spec_step op_wf] in *.
    - (* insert *)
      pose proof (insert_refines ltb key dk leafmax innermax dup binsearch Hswo Hl Hi (get st i) v (Inv_get st i HI)) as R.
      destruct (insert ltb key dk leafmax innermax dup binsearch (get st i) v) as [[[t' rank] ok] al].
      destruct R as (R1 & R2 & R3). rewrite <- abs_get, <- R1. cbn [s_state s_out s_bad s_allocs s_frees fst snd].
      repeat split; auto using Inv_put, put_length, abs_put.
      pose proof (total_put st i t' Hwf). lia.
    - (* erase_one *)
      pose proof (erase_one_elems ltb key dk leafmax innermax dup binsearch Hswo Hl Hi (get st i) k (Inv_get st i HI)) as R.
      pose proof (erase_one_inv ltb key dk leafmax innermax dup binsearch Hswo Hl Hi (get st i) k (Inv_get st i HI)) as R'.
      unfold erase_one in *.
      destruct (erase_top ltb key dk leafmax innermax binsearch (get st i) (TKey k)) as [[[t' found] fr] bad].
      destruct R' as (R1 & R2 & R3). rewrite <- abs_get, <- R. cbn [s_state s_out s_bad s_allocs s_frees fst snd].
      repeat split; auto using Inv_put, put_length, abs_put.
      pose proof (total_put st i t' Hwf). lia.
    - (* erase(key) *)
      pose proof (erase_key_spec ltb key dk leafmax innermax dup binsearch Hswo Hl Hi (get st i) k (Inv_get st i HI)) as R.
      destruct (erase_key ltb key dk leafmax innermax dup binsearch (get st i) k) as [[[t' c] fr] bad].
      destruct R as (R0 & R1 & R2 & R3). rewrite <- !abs_get, <- t_size_elems, <- R0.
      cbn [s_state s_out s_bad s_allocs s_frees fst snd].
      repeat split; auto using Inv_put, put_length, abs_put.
      pose proof (total_put st i t' Hwf). lia.
    - (* erase(iterator) *)
      rewrite <- !abs_get, <- t_size_elems.
      destruct (r <? t_size (get st i)) eqn:E.
      + apply Nat.ltb_lt in E.
        pose proof (erase_iter_elems ltb key dk leafmax innermax dup binsearch Hswo Hl Hi (get st i) r (Inv_get st i HI) E) as R.
        pose proof (erase_iter_inv ltb key dk leafmax innermax dup binsearch Hswo Hl Hi (get st i) r (Inv_get st i HI) E) as R'.
        destruct (erase_iter ltb key dk leafmax innermax binsearch (get st i) r) as [[[t' found] fr] bad].
        destruct R as (Rf & Re). destruct R' as (R1 & R2 & R3). subst found.
        cbn [s_state s_out s_bad s_allocs s_frees fst snd]. unfold spec_erase_iter. rewrite <- Re.
        repeat split; auto using Inv_put, put_length, abs_put.
        pose proof (total_put st i t' Hwf). lia.
      + cbn [s_state s_out s_bad s_allocs s_frees fst snd]. repeat split; auto; try lia.
    - (* find *)
      cbn [s_state s_out s_bad s_allocs s_frees fst snd]. rewrite <- abs_get.
      rewrite (t_find_spec ltb key dk leafmax innermax dup binsearch Hswo _ _ (Inv_get st i HI)).
      repeat split; auto; try lia.
    - cbn [s_state s_out s_bad s_allocs s_frees fst snd]. rewrite <- abs_get.
      rewrite (t_exists_spec ltb key dk leafmax innermax dup binsearch Hswo _ _ (Inv_get st i HI)).
      repeat split; auto; try lia.
    - cbn [s_state s_out s_bad s_allocs s_frees fst snd]. rewrite <- abs_get.
      rewrite (t_count_spec ltb key dk leafmax innermax dup binsearch Hswo _ _ (Inv_get st i HI)).
      repeat split; auto; try lia.
    - cbn [s_state s_out s_bad s_allocs s_frees fst snd]. rewrite <- abs_get.
      rewrite (t_lower_bound_spec ltb key dk leafmax innermax dup binsearch Hswo _ _ (Inv_get st i HI)).
      repeat split; auto; try lia.
    - cbn [s_state s_out s_bad s_allocs s_frees fst snd]. rewrite <- abs_get.
      rewrite (t_upper_bound_spec ltb key dk leafmax innermax dup binsearch Hswo _ _ (Inv_get st i HI)).
      repeat split; auto; try lia.
    - cbn [s_state s_out s_bad s_allocs s_frees fst snd]. rewrite <- abs_get.
      rewrite (t_lower_bound_spec ltb key dk leafmax innermax dup binsearch Hswo _ _ (Inv_get st i HI)).
      rewrite (t_upper_bound_spec ltb key dk leafmax innermax dup binsearch Hswo _ _ (Inv_get st i HI)).
      repeat split; auto; try lia.
    - (* iterate *)
      cbn [s_state s_out s_bad s_allocs s_frees fst snd]. rewrite <- abs_get. repeat split; auto; try lia.
    - (* clear *)
      cbn [s_state s_out s_bad s_allocs s_frees fst snd].
      repeat split; auto using Inv_put, put_length, Inv_None.
      + apply (abs_put st i None).
      + pose proof (total_put st i None Hwf). cbn [t_nodes] in *. lia.
    - (* operator= *)
      destruct Hwf as [Hwi Hwj]. destruct (i =? j) eqn:E; cbn [s_state s_out s_bad s_allocs s_frees fst snd].
      + repeat split; auto; try lia.
      + unfold copy_tree. rewrite <- abs_get.
        repeat split; auto using Inv_put, put_length, Inv_get, abs_put.
        pose proof (total_put st i (get st j) Hwi). lia.
    - (* copy constructor *)
      destruct Hwf as [Hwi Hwj]. destruct (i =? j) eqn:E; cbn [s_state s_out s_bad s_allocs s_frees fst snd].
      + repeat split; auto; try lia.
      + unfold copy_tree. rewrite <- abs_get.
        repeat split; auto using Inv_put, put_length, Inv_get, abs_put.
        pose proof (total_put st i (get st j) Hwi). lia.
    - (* swap *)
      destruct Hwf as [Hwi Hwj]. destruct (i =? j) eqn:E; cbn [s_state s_out s_bad s_allocs s_frees fst snd].
      + repeat split; auto; try lia.
      + apply Nat.eqb_neq in E. rewrite <- !abs_get.
        repeat split; auto using Inv_put, put_length, Inv_get.
        * now rewrite !put_length.
        * now rewrite !abs_put.
        * pose proof (total_put st i (get st j) Hwi) as T1.
          assert (Hwj' : j < length (put st i (get st j))) by now rewrite put_length.
          pose proof (total_put (put st i (get st j)) j (get st i) Hwj') as T2.
          rewrite (get_put_other st i j _ E) in T2. lia.
    - (* comparison *)
      cbn [s_state s_out s_bad s_allocs s_frees fst snd]. rewrite <- !abs_get.
      unfold t_eq, t_lt, s_eq. rewrite !t_size_elems. repeat split; auto; try lia.
    - (* bulk_load *)
      destruct Hwf as [Hwi Hs]. rewrite <- abs_get.
      destruct (get st i) as [n|] eqn:Eg.
      + assert (Hne : t_elems (Some n) <> []).
        { intros E0. pose proof (Inv_get st i HI) as HIg. rewrite Eg in HIg.
          pose proof (Inv_elems_nil _ HIg E0). discriminate. }
        destruct (t_elems (Some n)) eqn:E1; [congruence|].
        cbn [s_state s_out s_bad s_allocs s_frees fst snd]. repeat split; auto; try lia.
      + cbn [t_elems]. cbn [s_state s_out s_bad s_allocs s_frees fst snd].
        repeat split; auto using put_length.
        * apply Inv_put; [exact HI|]. now apply (bulk_load_inv ltb key dk leafmax innermax dup Hswo Hl Hi).
        * rewrite abs_put. now rewrite (bulk_load_elems ltb key dk leafmax innermax dup Hl Hi).
        * pose proof (total_put st i (bulk_load ltb key dk leafmax innermax dup l) Hwi) as T. rewrite Eg in T.
          cbn [t_nodes] in T. lia.
  Qed.

  (** ** whole histories *)
  Fixpoint hist_wf (n : nat) (ops : list (@op K V)) : Prop :=
    match ops with [] => True | o :: r => op_wf n o /\ hist_wf n r end.

  Definition sum_allocs (rs : list (@sres K V)) : nat := list_sum (map s_allocs rs).
  Definition sum_frees (rs : list (@sres K V)) : nat := list_sum (map s_frees rs).

  Theorem run_refines : forall ops st,
    Forall Inv st -> hist_wf (length st) ops ->
    let '(st', rs) := run st ops in
    Forall Inv st'
    /\ abs st' = fst (spec_run (abs st) ops)
    /\ map s_out rs = snd (spec_run (abs st) ops)
    /\ Forall (fun s => s_bad s = false /\ Forall Inv (s_state s)) rs
    /\ total_nodes st + sum_allocs rs = total_nodes st' + sum_frees rs.
  Proof.
    induction ops as [|o r IH]; intros st HI Hw.
    - cbn. repeat split; auto.
    - destruct Hw as [Hw1 Hw2]. cbn [Model.run Spec.spec_run].
      destruct (step_refines st o HI Hw1) as (S1 & S2 & S3 & S4 & S5 & S6).
      specialize (IH (s_state (step st o)) S1). rewrite S2 in IH. specialize (IH Hw2).
      destruct (run (s_state (step st o)) r) as [st' rs].
      destruct IH as (I1 & I2 & I3 & I4 & I5).
      destruct (spec_step (abs st) o) as [sst1 x] eqn:Es. cbn [fst snd] in S3, S4.
      rewrite S3 in I2, I3.
      destruct (spec_run sst1 r) as [sst2 xs]. cbn [fst snd] in *.
      repeat split; auto.
      + cbn [map]. now rewrite S4, I3.
      + unfold sum_allocs, sum_frees, list_sum in *. cbn [map fold_right]. lia.
  Qed.

  Lemma total_nodes_none (st : list tree) : Forall (fun t => t = None) st -> total_nodes st = 0.
  Proof.
    unfold total_nodes. induction 1 as [|t r Ht _ IH]; [reflexivity|]. subst t. cbn [map list_sum fold_right t_nodes]. exact IH.
  Qed.

  Lemma Inv_all_none (st : list tree) : Forall (fun t => t = None) st -> Forall Inv st.
  Proof. intros H. eapply Forall_impl; [|exact H]. intros t ->. apply Inv_None. Qed.

  (** containers that start empty and end empty (cleared / destroyed) have freed exactly what they allocated *)
  Theorem alloc_balance_empty : forall ops st,
    Forall (fun t => t = None) st -> hist_wf (length st) ops ->
    let '(st', rs) := run st ops in
    sum_allocs rs = total_nodes st' + sum_frees rs
    /\ (Forall (fun t => t = None) st' -> sum_allocs rs = sum_frees rs).
  Proof.
    intros ops st Hn Hw.
    pose proof (run_refines ops st (Inv_all_none st Hn) Hw) as H.
    destruct (run st ops) as [st' rs]. destruct H as (_ & _ & _ & _ & H5).
    rewrite (total_nodes_none st Hn) in H5. split; [lia|].
    intros Hn'. rewrite (total_nodes_none st' Hn') in H5. lia.
  Qed.
End History.
