(** C01/C02 — bulk_load in containers without duplicates: the first entry of every run of equal keys is kept
    (tlx b2f41a5).  [dedup] of a sorted range is strictly sorted, so [bulk_load] keeps the invariant for EVERY
    sorted range (equal keys allowed, in all four containers); the shipped behaviour (every item stored, also in
    set / map) is refuted by a concrete witness. *)
From Coq Require Import List Bool Arith Lia.
From TLXV Require Import Common.Order C01.Model C01.Defs C01.SearchProofs C01.BulkProofs C01.InsertLemmas.
Import ListNotations.

Section BulkDedup.
  Context {K V : Type}.
  Variable ltb : K -> K -> bool.
  Variable key : V -> K.
  Variable dk : K.
  Variables leafmax innermax : nat.
  Variable dup : bool.
  Hypothesis Hswo : SWO ltb.
  Hypothesis Hl : 4 <= leafmax.
  Hypothesis Hi : 4 <= innermax.

  Notation keq := (keq ltb).
  Notation kle := (kle ltb).
  Notation sortedk := (sortedk ltb).
  Notation sortedk_strict := (sortedk_strict ltb).
  Notation dedup := (dedup ltb key).
  Notation dedup_from := (dedup_from ltb key).
  Notation bulk_items := (bulk_items ltb key dup).
  Notation bulk_load := (bulk_load ltb key dk leafmax innermax dup).
  Notation Inv := (Inv ltb key dk leafmax innermax dup).

  Lemma strict_cons p L :
    sortedk_strict (p :: L) = true <->
    (match L with [] => True | y :: _ => ltb p y = true end) /\ sortedk_strict L = true.
  Proof.
    destruct L as [|y r]; cbn [Model.sortedk_strict].
    - tauto.
    - rewrite andb_true_iff. tauto.
  Qed.

  Lemma sorted_cons p L :
    sortedk (p :: L) = true <->
    (match L with [] => True | y :: _ => kle p y = true end) /\ sortedk L = true.
  Proof.
    destruct L as [|y r]; cbn [Model.sortedk].
    - tauto.
    - rewrite andb_true_iff. tauto.
  Qed.

  (** the kept items after a predecessor q, seen from any p equivalent to q, are strictly increasing *)
  Lemma dedup_from_strict : forall (l : list V) p q,
    keq p q = true -> sortedk (q :: map key l) = true ->
    sortedk_strict (p :: map key (dedup_from q l)) = true.
  Proof.
    induction l as [|x r IH]; intros p q Hpq Hs; [reflexivity|].
    cbn [map] in Hs. apply sorted_cons in Hs. destruct Hs as [Hqx Hs].
    cbn [Model.dedup_from]. destruct (ltb q (key x)) eqn:E.
    - cbn [map]. apply strict_cons. split.
      + rewrite (keq_ltb_l ltb Hswo p q (key x) Hpq). exact E.
      + apply IH; [apply (eqv_refl ltb Hswo)|exact Hs].
    - apply IH; [|exact Hs].
      assert (Hqx' : keq q (key x) = true).
      { unfold Model.keq. rewrite E. unfold Model.kle in Hqx. rewrite Hqx. reflexivity. }
      exact (eqv_trans ltb Hswo p q (key x) Hpq Hqx').
  Qed.

  Lemma dedup_strict (l : list V) :
    sortedk (map key l) = true -> sortedk_strict (map key (dedup l)) = true.
  Proof.
    destruct l as [|x r]; [reflexivity|]. intros Hs. cbn [Model.dedup map].
    apply dedup_from_strict; [apply (eqv_refl ltb Hswo)|exact Hs].
  Qed.

  Lemma strict_sorted (L : list K) : sortedk_strict L = true -> sortedk L = true.
  Proof.
    induction L as [|p L IH]; [reflexivity|]. intros H.
    apply strict_cons in H. destruct H as [H1 H2]. apply sorted_cons. split; [|auto].
    destruct L as [|y r]; [exact I|]. unfold Model.kle. now rewrite (swo_asym ltb Hswo _ _ H1).
  Qed.

  (** every sorted range (equal keys allowed) gives an admissible item sequence *)
  Lemma bulk_items_sorted (l : list V) :
    sortedk (map key l) = true -> keys_sorted ltb key dup (bulk_items l).
  Proof.
    intros Hs. unfold Model.bulk_items, keys_sorted. destruct dup.
    - split; [exact Hs|discriminate].
    - pose proof (dedup_strict l Hs) as Hd. split; [now apply strict_sorted|auto].
  Qed.

  Theorem bulk_load_elems (l : list V) : t_elems (bulk_load l) = bulk_items l.
  Proof. unfold Model.bulk_load. apply (bulk_load_shipped_elems key dk leafmax innermax Hl Hi). Qed.

  Theorem bulk_load_inv (l : list V) : sortedk (map key l) = true -> Inv (bulk_load l).
  Proof.
    intros Hs. unfold Model.bulk_load.
    apply (bulk_load_shipped_inv ltb key dk leafmax innermax dup Hswo Hl Hi). now apply bulk_items_sorted.
  Qed.

  (** on a strictly sorted range nothing is dropped *)
  Lemma dedup_from_id : forall (l : list V) q,
    sortedk_strict (q :: map key l) = true -> dedup_from q l = l.
  Proof.
    induction l as [|x r IH]; intros q H; [reflexivity|].
    cbn [map] in H. apply strict_cons in H. destruct H as [H1 H2].
    cbn [Model.dedup_from]. rewrite H1. f_equal. now apply IH.
  Qed.

  Lemma dedup_id (l : list V) : sortedk_strict (map key l) = true -> dedup l = l.
  Proof.
    destruct l as [|x r]; [reflexivity|]. intros H. cbn [Model.dedup]. f_equal. now apply dedup_from_id.
  Qed.
End BulkDedup.

(** The shipped bulk_load (no dedup) in a container WITHOUT duplicates: the sorted range 1 1 2 3 3 3 4 gives a
    tree with 7 entries that violates the invariant (keys of a unique container are strictly increasing),
    whereas the repaired one holds 1 2 3 4 and satisfies it. *)
Lemma bulk_load_shipped_refuted :
  exists l : list nat,
    sortedk Nat.ltb (map (fun x => x) l) = true
    /\ inv_b Nat.ltb (fun x => x) 0 4 4 false (bulk_load_shipped (fun x => x) 0 4 4 l) = false
    /\ length (t_elems (bulk_load_shipped (fun x : nat => x) 0 4 4 l)) = 7
    /\ t_elems (bulk_load Nat.ltb (fun x => x) 0 4 4 false l) = [1; 2; 3; 4]
    /\ inv_b Nat.ltb (fun x => x) 0 4 4 false (bulk_load Nat.ltb (fun x => x) 0 4 4 false l) = true.
Proof. exists [1; 1; 2; 3; 3; 3; 4]. vm_compute. repeat split. Qed.
