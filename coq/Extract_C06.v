From TLXV Require Import C06.PMS.
Require Extraction. Require ExtrOcamlBasic.
Extraction Language OCaml.
Extraction "../ocaml/gen/C06_model.ml" PMS.pms_ref PMS.index_input PMS.stable_sort_ref PMS.temporaries_live_after
  PMS.res_array PMS.res_windows PMS.res_ok.
