(** C05 — the reference tournament of Model.v meets the loser-tree interface of LoserLoopProofs.v
    (so the interface is satisfiable and the model run in the correspondence is covered by the theorems). *)
From Coq Require Import List Bool Arith Lia.
From TLXV Require Import Common.Order C05.AutoDefs C05.StableMerge C05.Model C05.MergeFacts C05.LoserLoopProofs.
Import ListNotations.

Section RefTree.
  Context {A : Type}.
  Variable ltb : A -> A -> bool.
  Hypothesis H : SWO ltb.

  Lemma ref_min_none (hs : list (option A)) : ref_min_opt ltb hs = None -> forall t y, nth_error hs t <> Some (Some y).
  Proof.
    induction hs as [|h hs IH]; simpl; intros E t y; [destruct t; discriminate|].
    destruct h as [x|]; destruct (ref_min_opt ltb hs) as [[j z]|] eqn:E'; try discriminate.
    - destruct (ltb z x); discriminate.
    - destruct t as [|t]; simpl; [discriminate|]. now apply IH.
  Qed.

  Lemma ref_min_spec (hs : list (option A)) s x :
    ref_min_opt ltb hs = Some (s, x) ->
    nth_error hs s = Some (Some x) /\
    (forall t y, nth_error hs t = Some (Some y) -> ltb y x = false) /\
    (forall t y, t < s -> nth_error hs t = Some (Some y) -> ltb x y = true).
  Proof.
    revert s x; induction hs as [|h hs IH]; simpl; intros s x E; [discriminate|].
    destruct h as [x0|]; destruct (ref_min_opt ltb hs) as [[j z]|] eqn:E'.
    - destruct (IH _ _ eq_refl) as (Hn & Hmin & Hst).
      destruct (ltb z x0) eqn:C; inversion E; subst.
      + split; [exact Hn|]. split.
        * intros [|t] y Ht; simpl in Ht; [inversion Ht; subst; apply (swo_asym _ H _ _ C)|eauto].
        * intros [|t] y Hlt Ht; simpl in Ht; [inversion Ht; subst; exact C|]. eapply Hst; eauto. lia.
      + split; [reflexivity|]. split.
        * intros [|t] y Ht; simpl in Ht; [inversion Ht; subst; apply (swo_irrefl _ H)|].
          pose proof (Hmin _ _ Ht) as Hy. destruct (ltb y x) eqn:C2; auto.
          destruct (swo_negtrans _ H _ _ z C2) as [K|K]; congruence.
        * intros t y Hlt; lia.
    - inversion E; subst. split; [reflexivity|]. split.
      + intros [|t] y Ht; simpl in Ht; [inversion Ht; subst; apply (swo_irrefl _ H)|].
        exfalso. exact (ref_min_none _ E' _ _ Ht).
      + intros t y Hlt; lia.
    - inversion E; subst. destruct (IH _ _ eq_refl) as (Hn & Hmin & Hst). split; [exact Hn|]. split.
      + intros [|t] y Ht; simpl in Ht; [discriminate|eauto].
      + intros [|t] y Hlt Ht; simpl in Ht; [discriminate|]. eapply Hst; eauto. lia.
    - discriminate.
  Qed.

  Lemma ref_min_some (hs : list (option A)) : (exists s x, nth_error hs s = Some (Some x)) -> exists s x, ref_min_opt ltb hs = Some (s, x).
  Proof.
    intros (s & x & E). destruct (ref_min_opt ltb hs) as [[s' x']|] eqn:Em; eauto.
    exfalso. exact (ref_min_none _ Em _ _ E).
  Qed.

  Definition ref_grep (b : bool) (t : RGT) (hs : list (option A)) : Prop := t = hs.

  Theorem ref_gtree_ok : gtree_ok ltb (fun _ => True) (@rgt_init A) (rgt_min ltb) (rgt_dmi ltb) ref_grep.
  Proof.
    constructor.
    - intros; reflexivity.
    - intros b t hs -> Hlive. destruct (ref_min_some hs Hlive) as (s & x & E).
      unfold rgt_min. rewrite E. destruct (ref_min_spec _ _ _ E) as (Hn & Hmin & Hst).
      exists x. split; [exact Hn|]. split; [exact Hmin|]. intros _. exact Hst.
    - intros b t hs v -> _. reflexivity.
  Qed.

  Definition ref_urep (b : bool) (t : RUT) (sen : A) (hs : list A) : Prop := t = (b, sen, hs).

  Theorem ref_utree_ok : utree_ok ltb (fun _ => True) (fun _ _ => True) (@rut_init A) (rut_min ltb) (rut_dmi ltb) ref_urep.
  Proof.
    constructor.
    - intros; reflexivity.
    - intros b t sen hs -> (s0 & x0 & E0 & Hb).
      destruct (ref_min_some (map Some hs)) as (s & x & E).
      { exists s0, x0. rewrite nth_error_map, E0. reflexivity. }
      destruct (ref_min_spec _ _ _ E) as (Hn & Hmin & Hst).
      assert (Hx0 : ltb x0 x = false) by (apply (Hmin s0); rewrite nth_error_map, E0; reflexivity).
      exists s. split.
      + unfold rut_min. rewrite E. unfold beats in Hb. destruct b.
        * destruct (ltb sen x) eqn:C; auto. exfalso.
          assert (K : ltb sen x0 = true) by (apply (ltb_leb_trans _ H sen x x0 C); unfold leb; now rewrite Hx0).
          congruence.
        * assert (K : ltb x sen = true) by (apply (leb_ltb_trans _ H x x0 sen); auto; unfold leb; now rewrite Hx0).
          now rewrite K.
      + exists x. split; [exact Hn|]. split; [exact Hmin|]. intros _. exact Hst.
    - intros b t sen hs v s -> Em _. unfold rut_min in Em. unfold rut_dmi, ref_urep.
      destruct (ref_min_opt ltb (map Some hs)) as [[s' x']|]; [|discriminate].
      destruct b; [destruct (ltb sen x')|destruct (ltb x' sen)]; inversion Em; subst; reflexivity.
  Qed.
End RefTree.
