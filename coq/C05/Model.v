(** C05 — executable model of tlx/algorithm/multiway_merge.hpp and merge_advance.hpp.

    A sequence [first, second) is the list of its not yet consumed elements; advancing [first] is taking
    the tail.  Every routine returns [Some (out, st')] (elements written to the target in order, remaining
    sequences) or [None] when the code would dereference an iterator at/after the end of its storage (or a
    fuel bound added for totality is exhausted); the theorems show [None] never happens under the
    documented preconditions (sorted inputs, size <= total size, sentinels greater than all elements).
    The returned target position is [target + length out].

    The loser trees are used through an abstract interface (section variables): the merge loops are proved
    for any tree meeting the interface specification in LoserLoopProofs.v; a reference tournament for the
    correspondence run is at the end of this file. *)
From Coq Require Import List Bool Arith Lia.
From TLXV Require Import Common.Order C05.AutoDefs C05.StableMerge gen.Merge34_gen.
Import ListNotations.

Definition is_none {B} (o : option B) : bool := match o with None => true | Some _ => false end.
Definition is_some {B} (o : option B) : bool := match o with None => false | Some _ => true end.

Fixpoint last_error {B} (l : list B) : option B :=
  match l with [] => None | [x] => Some x | _ :: r => last_error r end.

Definition remove_nth {B} (i : nat) (l : list B) : list B := firstn i l ++ skipn (S i) l.
Definition insert_nth {B} (i : nat) (v : B) (l : list B) : list B := firstn i l ++ v :: skipn i l.

Fixpoint list_eqb (a b : list nat) : bool :=
  match a, b with
  | [], [] => true
  | x :: a', y :: b' => Nat.eqb x y && list_eqb a' b'
  | _, _ => false
  end.

Fixpoint lookup (l : list nat) (t : table) : option dtree :=
  match t with
  | [] => None
  | (l', d) :: r => if list_eqb l l' then Some d else lookup l r
  end.

Inductive imode := Guarded | Unguarded.
Inductive mwma := MWMA_LOSER_TREE | MWMA_LOSER_TREE_COMBINED | MWMA_LOSER_TREE_SENTINEL | MWMA_BUBBLE.

Section Model.
  Context {A : Type}.
  Variable ltb : A -> A -> bool.

  Notation state := (list (list A)).
  Definition res := option (list A * state).

  (** Prefix a result with already written elements. *)
  Definition emit (o : list A) (r : res) : res :=
    match r with Some (o', st) => Some (o ++ o', st) | None => None end.

  (* ------------------------------------------------------------------------------------------------ *)
  (** ** merge_advance.hpp: merge_advance = merge_advance_movc (k = 2) *)

  (** std::copy(begin, begin + n, target); begin += n  — reads past the end when n exceeds the length. *)
  Definition copyn (n : nat) (l : list A) : option (list A * list A) :=
    if n <=? length l then Some (firstn n l, skipn n l) else None.

  Fixpoint merge_advance (n : nat) (l1 l2 : list A) : option (list A * list A * list A) :=
    match n, l1, l2 with
    | S n', x :: r1, y :: r2 =>
        (* while (begin1 != end1 && begin2 != end2 && max_size > 0) *)
        if ltb y x
        then match merge_advance n' l1 r2 with Some (o, a, b) => Some (y :: o, a, b) | None => None end
        else match merge_advance n' r1 l2 with Some (o, a, b) => Some (x :: o, a, b) | None => None end
    | _, _, _ =>
        match l1 with
        | _ :: _ => match copyn n l1 with Some (o, a) => Some (o, a, l2) | None => None end
        | [] => match copyn n l2 with Some (o, b) => Some (o, l1, b) | None => None end
        end
    end.

  Definition merge2 (st : state) (i j : nat) (n : nat) : res :=
    match merge_advance n (nth i st []) (nth j st []) with
    | Some (o, a, b) => Some (o, upd j b (upd i a st))
    | None => None
    end.

  (* ------------------------------------------------------------------------------------------------ *)
  (** ** guarded_iterator / unguarded_iterator comparisons.
      [None] as a head = iterator at its end.  Guarded: the end is a supremum with
      [sup < sup = true] and [sup <= sup = false], exactly as the two friend operators. *)
  Definition cmp_heads (m : imode) (op : cmpop) (hi hj : option A) : option bool :=
    match m with
    | Guarded =>
        Some (match op with
              | OpLt => match hi, hj with
                        | None, _ => is_none hj
                        | Some _, None => true
                        | Some x, Some y => ltb x y
                        end
              | OpLe => match hj, hi with
                        | None, _ => is_some hi
                        | Some _, None => false
                        | Some y, Some x => negb (ltb y x)
                        end
              end)
    | Unguarded =>
        match hi, hj with
        | Some x, Some y => Some (match op with OpLt => ltb x y | OpLe => negb (ltb y x) end)
        | _, _ => None      (* *current read at the end of the storage *)
        end
    end.

  Fixpoint eval_dtree (m : imode) (hs : list (option A)) (d : dtree) : option (list nat) :=
    match d with
    | Goto l => Some l
    | Test i op j y n =>
        match cmp_heads m op (nth i hs None) (nth j hs None) with
        | Some true => eval_dtree m hs y
        | Some false => eval_dtree m hs n
        | None => None
        end
    end.

  (** ** multiway_merge_3_variant / multiway_merge_4_variant: interpreter of the generated automaton.
      One visit of label [lab = a :: _]:  *target = *seq_a; ++target; --size; ++seq_a;
      if (size == 0) goto finish; <decision code of the row> . *)
  Fixpoint auto_run (t : table) (m : imode) (sz : nat) (lab : list nat) (st : state) : res :=
    match sz with
    | 0 => Some ([], st)
    | S sz' =>
        match lab with
        | [] => None
        | a :: _ =>
            match nth_error st a with
            | Some (x :: r) =>
                let st1 := upd a r st in
                match sz' with
                | 0 => Some ([x], st1)
                | _ => match lookup lab t with
                       | None => None
                       | Some d => match eval_dtree m (heads st1) d with
                                   | None => None
                                   | Some lab' => emit [x] (auto_run t m sz' lab' st1)
                                   end
                       end
                end
            | _ => None     (* *seq_a at its end *)
            end
        end
    end.

  Definition auto_merge (t : table) (init : dtree) (m : imode) (sz : nat) (st : state) : res :=
    match sz with
    | 0 => Some ([], st)                  (* if (size == 0) return target; *)
    | _ => match eval_dtree m (heads st) init with
           | None => None
           | Some lab => auto_run t m sz lab st
           end
    end.

  Definition merge3_variant := auto_merge table3 init3.
  Definition merge4_variant := auto_merge table4 init4.

  (* ------------------------------------------------------------------------------------------------ *)
  (** ** prepare_unguarded.  std::upper_bound / std::lower_bound by their specification on a sorted range. *)
  Fixpoint ub (v : A) (l : list A) : nat :=
    match l with x :: r => if ltb v x then 0 else S (ub v r) | [] => 0 end.
  Fixpoint lb (v : A) (l : list A) : nat :=
    match l with x :: r => if ltb x v then S (lb v r) else 0 | [] => 0 end.

  (** The loop over s = 1 .. k-1: minimum of the last elements, first index on ties;
      [(None, i)] = empty sequence found at index [i]. *)
  Fixpoint min_last (i : nat) (cur : A) (curi : nat) (rest : state) : option A * nat :=
    match rest with
    | [] => (Some cur, curi)
    | l :: r => match last_error l with
                | None => (None, i)
                | Some v => if ltb v cur then min_last (S i) v i r else min_last (S i) cur curi r
                end
    end.

  Fixpoint overhang (stable : bool) (mn : A) (ms : nat) (i : nat) (st : state) : nat :=
    match st with
    | [] => 0
    | l :: r => (length l - (if (i <=? ms) && stable then ub mn l else lb mn l)) + overhang stable mn ms (S i) r
    end.

  (** Result: (overhang or None for -1, min_sequence).  \pre k > 0. *)
  Definition prepare_unguarded (stable : bool) (st : state) : option nat * nat :=
    match st with
    | [] => (None, 0)
    | l0 :: r =>
        match last_error l0 with
        | None => (None, 0)
        | Some v0 =>
            match min_last 1 v0 0 r with
            | (None, i) => (None, i)
            | (Some mn, ms) => (Some (overhang stable mn ms 0 st), ms)
            end
        end
    end.

  (** Common first half of the *_combined routines: the unguarded phase.
      Returns (elements written, state, remaining size "overhang"). *)
  Definition unguarded_phase (stable : bool) (run : nat -> state -> res) (st : state) (sz : nat)
    : option (list A * state * nat) * nat :=
    let '(ov, ms) := prepare_unguarded stable st in
    (match ov with
     | Some o =>
         let us := Nat.min sz (total st - o) in
         match run us st with
         | Some (o1, st1) => Some (o1, st1, sz - us)
         | None => None
         end
     | None => Some ([], st, sz)           (* empty sequence found *)
     end, ms).

  Definition merge3_combined (st : state) (sz : nat) : res :=
    match unguarded_phase true (merge3_variant Unguarded) st sz with
    | (None, _) => None
    | (Some (o1, st1, ovh), ms) =>
        match ms with
        | 0 => emit o1 (merge2 st1 1 2 ovh)
        | 1 => emit o1 (merge2 st1 0 2 ovh)
        | 2 => emit o1 (merge2 st1 0 1 ovh)
        | _ => None                          (* assert(false) *)
        end
    end.

  Definition merge4_combined (st : state) (sz : nat) : res :=
    match unguarded_phase true (merge4_variant Unguarded) st sz with
    | (None, _) => None
    | (Some (o1, st1, ovh), ms) =>
        (* one_missing = all sequences but min_seq; 3-way guarded merge; insert back; copy back *)
        match merge3_variant Guarded ovh (remove_nth ms st1) with
        | Some (o2, om) => Some (o1 ++ o2, insert_nth ms (nth ms st1 []) om)
        | None => None
        end
    end.

  (* ------------------------------------------------------------------------------------------------ *)
  (** ** multiway_merge_bubble.  [pl]/[source] are kept as one list of (element, source). *)
  Definition bub_lt (stable : bool) (p q : A * nat) : bool :=
    if stable
    then ltb (fst p) (fst q) || (negb (ltb (fst q) (fst p)) && (snd p <? snd q))
    else ltb (fst p) (fst q).

  Fixpoint collect (i : nat) (st : state) : list (A * nat) :=
    match st with
    | [] => []
    | [] :: r => collect (S i) r
    | (x :: _) :: r => (x, i) :: collect (S i) r
    end.

  (** for (pi = nrp - 1; pi > k; --pi) if (lt(pl[pi], pl[pi-1])) swap — over the part right of k. *)
  Fixpoint bpass (stable : bool) (l : list (A * nat)) : list (A * nat) :=
    match l with
    | [] => []
    | x :: r => match bpass stable r with
                | [] => [x]
                | y :: r' => if bub_lt stable y x then y :: x :: r' else x :: y :: r'
                end
    end.

  (** for (k = 0; k < nrp - 1; ++k) <pass k> : fuel = nrp - 1 *)
  Fixpoint bsort (stable : bool) (fuel : nat) (l : list (A * nat)) : list (A * nat) :=
    match fuel with
    | 0 => l
    | S f => match bpass stable l with
             | [] => []
             | m :: r => m :: bsort stable f r
             end
    end.

  (** j = 1; while (j < nrp && lt(pl[j], pl[j-1])) { swap; ++j; } *)
  Fixpoint sink (stable : bool) (p : A * nat) (l : list (A * nat)) : list (A * nat) :=
    match l with
    | [] => [p]
    | q :: r => if bub_lt stable q p then q :: sink stable p r else p :: q :: r
    end.

  (** The inner while loop.  [le = true]: condition (nrp == 1 || !comp(pl[1], pl[0]));
      [le = false]: condition (nrp == 1 || comp(pl[0], pl[1])).  Returns (out, pl, st, size). *)
  Fixpoint bub_inner (le : bool) (sz : nat) (p : A * nat) (rest : list (A * nat)) (st : state)
    : option (list A * list (A * nat) * state * nat) :=
    match sz with
    | 0 => Some ([], p :: rest, st, 0)
    | S sz' =>
        let cond := match rest with
                    | [] => true
                    | q :: _ => if le then negb (ltb (fst q) (fst p)) else ltb (fst p) (fst q)
                    end in
        if cond then
          match nth_error st (snd p) with
          | Some (_ :: r) =>
              let st1 := upd (snd p) r st in
              match r with
              | [] => Some ([fst p], rest, st1, sz')        (* sequence exhausted: shift left, --nrp, break *)
              | y :: _ =>
                  match bub_inner le sz' (y, snd p) rest st1 with
                  | Some (o, pl', st', s') => Some (fst p :: o, pl', st', s')
                  | None => None
                  end
              end
          | _ => None
          end
        else Some ([], p :: rest, st, sz)
    end.

  (** The outer while (nrp > 0 && size > 0).  [fuel] bounds the number of outer iterations (each emits at
      least one element when [pl] is ordered; exhaustion = the real loop would not terminate). *)
  Fixpoint bub_outer (stable : bool) (fuel : nat) (sz : nat) (pl : list (A * nat)) (st : state) : res :=
    match pl, sz with
    | [], _ => Some ([], st)
    | _, 0 => Some ([], st)
    | p :: rest, _ =>
        match fuel with
        | 0 => None
        | S f =>
            let le := if stable
                      then match rest with
                           | [] => true    (* nrp = 1: source[1] is stale, but both inner loops coincide *)
                           | q :: _ => snd p <? snd q
                           end
                      else true in
            match bub_inner le sz p rest st with
            | None => None
            | Some (o, pl1, st1, sz1) =>
                let pl2 := match pl1 with [] => [] | p' :: r' => sink stable p' r' end in
                emit o (bub_outer stable f sz1 pl2 st1)
            end
        end
    end.

  Definition merge_bubble (stable : bool) (st : state) (sz : nat) : res :=
    let pl0 := collect 0 st in
    bub_outer stable sz sz (bsort stable (length pl0 - 1) pl0) st.

  (* ------------------------------------------------------------------------------------------------ *)
  (** ** Loser-tree merges, over an abstract tree. *)
  Section Trees.
    (** Guarded tree: [gt_init stable heads] = insert_start for every source (None = sup) then init();
        [gt_min] = min_source(); [gt_dmi t v] = delete_min_insert(v or sup). *)
    Variable GT : Type.
    Variable gt_init : bool -> list (option A) -> GT.
    Variable gt_min : GT -> nat.
    Variable gt_dmi : GT -> option A -> GT.
    (** Unguarded tree: [ut_init stable sentinel heads]; [ut_min] = None when the winner is a padding
        player (source invalid_: "Data underrun in unguarded merging"). *)
    Variable UT : Type.
    Variable ut_init : bool -> A -> list A -> UT.
    Variable ut_min : UT -> option nat.
    Variable ut_dmi : UT -> A -> UT.

    Definition take_from (s : nat) (st : state) : option (A * state) :=
      match nth_error st s with
      | Some (x :: r) => Some (x, upd s r st)
      | _ => None
      end.

    (** for (i = 1; i < total_size; ++i) { feed from [source]; source = min_source(); emit } *)
    Fixpoint gt_loop (n : nat) (t : GT) (src : nat) (st : state) : res :=
      match n with
      | 0 => Some ([], st)
      | S n' =>
          let t1 := gt_dmi t (hd_error (nth src st [])) in
          let s := gt_min t1 in
          match take_from s st with
          | Some (x, st1) => emit [x] (gt_loop n' t1 s st1)
          | None => None
          end
      end.

    Definition merge_lt (stable : bool) (st : state) (sz : nat) : res :=
      let t := gt_init stable (heads st) in
      match Nat.min sz (total st) with
      | 0 => Some ([], st)
      | S n =>
          let s := gt_min t in
          match take_from s st with
          | Some (x, st1) => emit [x] (gt_loop n t s st1)
          | None => None
          end
      end.

    (** while (target < target_end) { feed &*first of [source] (unguarded); source = min_source(); emit } *)
    Fixpoint ut_loop (n : nat) (t : UT) (src : nat) (st : state) : res :=
      match n with
      | 0 => Some ([], st)
      | S n' =>
          match hd_error (nth src st []) with
          | None => None                       (* &*first read at the end *)
          | Some h =>
              let t1 := ut_dmi t h in
              match ut_min t1 with
              | None => None
              | Some s => match take_from s st with
                          | Some (x, st1) => emit [x] (ut_loop n' t1 s st1)
                          | None => None
                          end
              end
          end
      end.

    Fixpoint all_heads (st : state) : option (list A) :=
      match st with
      | [] => Some []
      | [] :: _ => None
      | (x :: _) :: r => match all_heads r with Some hs => Some (x :: hs) | None => None end
      end.

    Definition merge_lt_unguarded (stable : bool) (st : state) (sz : nat) : res :=
      match st with
      | [] => None
      | l0 :: _ =>
          match last_error l0, all_heads st with     (* sentinel = *(seqs_begin->second - 1); &*first of every sequence *)
          | Some sentinel, Some hs =>
              let t := ut_init stable sentinel hs in
              match Nat.min (total st) sz with
              | 0 => Some ([], st)
              | S n =>
                  match ut_min t with
                  | None => None
                  | Some s => match take_from s st with
                              | Some (x, st1) => emit [x] (ut_loop n t s st1)
                              | None => None
                              end
                  end
              end
          | _, _ => None
          end
      end.

    Definition merge_lt_combined (stable : bool) (st : state) (sz : nat) : res :=
      match unguarded_phase stable (fun n s => merge_lt_unguarded stable s n) st sz with
      | (None, _) => None
      | (Some (o1, st1, ovh), _) => emit o1 (merge_lt stable st1 ovh)
      end.

    (** Sentinel layout: [ext] = every sequence followed by its sentinel element. *)
    Definition with_sentinels (st : state) (sents : list A) : state :=
      map (fun ls => fst ls ++ [snd ls]) (combine st sents).

    (** ++second for every sequence; unguarded tree merge; --second.  The state handed in and out is the
        extended one (a sequence's remaining elements followed by its sentinel). *)
    Definition merge_lt_sentinel (stable : bool) (ext : state) (sz : nat) : res :=
      merge_lt_unguarded stable ext sz.

    (* ---------------------------------------------------------------------------------------------- *)
    (** ** multiway_merge_base: the switch over k and the algorithm.
        With [sentinels = true] the caller promises one readable element after every sequence: [sents].
        The unguarded sentinel algorithms run on the extended sequences; their result state is
        translated back by dropping the sentinel ([None] if a sentinel itself was consumed). *)
    Definition strip_sentinels (r : res) : res :=
      match r with
      | Some (o, ext') =>
          if forallb (fun l => negb (Nat.eqb (length l) 0)) ext' then Some (o, map (@removelast A) ext') else None
      | None => None
      end.

    Definition mwm_base (stable sentinels : bool) (alg : mwma) (st : state) (sents : list A) (sz : nat) : res :=
      let alg := match alg with
                 | MWMA_LOSER_TREE_SENTINEL => if sentinels then alg else MWMA_LOSER_TREE_COMBINED
                 | _ => alg
                 end in
      match st with
      | [] => Some ([], st)                                             (* case 0 *)
      | [l] => match copyn sz l with                                     (* case 1: std::copy *)
               | Some (o, r) => Some (o, [r])
               | None => None
               end
      | [_; _] => merge2 st 0 1 sz                                       (* case 2 *)
      | [_; _; _] =>
          match alg with
          | MWMA_LOSER_TREE_COMBINED => merge3_combined st sz
          | MWMA_LOSER_TREE_SENTINEL => strip_sentinels (merge3_variant Unguarded sz (with_sentinels st sents))
          | _ => merge3_variant Guarded sz st
          end
      | [_; _; _; _] =>
          match alg with
          | MWMA_LOSER_TREE_COMBINED => merge4_combined st sz
          | MWMA_LOSER_TREE_SENTINEL => strip_sentinels (merge4_variant Unguarded sz (with_sentinels st sents))
          | _ => merge4_variant Guarded sz st
          end
      | _ =>
          match alg with
          | MWMA_BUBBLE => merge_bubble stable st sz
          | MWMA_LOSER_TREE => merge_lt stable st sz
          | MWMA_LOSER_TREE_COMBINED => merge_lt_combined stable st sz
          | MWMA_LOSER_TREE_SENTINEL => strip_sentinels (merge_lt_sentinel stable (with_sentinels st sents) sz)
          end
      end.

    (** The four public entry points. *)
    Definition multiway_merge := mwm_base false false.
    Definition stable_multiway_merge := mwm_base true false.
    Definition multiway_merge_sentinels := mwm_base false true.
    Definition stable_multiway_merge_sentinels := mwm_base true true.

    (** What a caller observes: elements written, returned position (= number written), and how far each
        [seqs_begin[i].first] moved. *)
    Definition observe (st : state) (r : res) : option (list A * nat * list nat) :=
      match r with
      | Some (o, st') => Some (o, length o, map (fun p => length (fst p) - length (snd p)) (combine st st'))
      | None => None
      end.
  End Trees.
End Model.

(* -------------------------------------------------------------------------------------------------- *)
(** * Reference tournament used in the correspondence run (any tree meeting the interface of
      LoserLoopProofs.v would do; C09's extracted model can be substituted). *)
Section RefTree.
  Context {A : Type}.
  Variable ltb : A -> A -> bool.

  (** leftmost minimal live player; 0 when all are sup *)
  Fixpoint ref_min_opt (hs : list (option A)) : option (nat * A) :=
    match hs with
    | [] => None
    | h :: r =>
        match h, ref_min_opt r with
        | None, None => None
        | None, Some (j, y) => Some (S j, y)
        | Some x, None => Some (0, x)
        | Some x, Some (j, y) => if ltb y x then Some (S j, y) else Some (0, x)
        end
    end.

  Definition RGT : Type := list (option A).
  Definition rgt_init (stable : bool) (hs : list (option A)) : RGT := hs.
  Definition rgt_min (t : RGT) : nat := match ref_min_opt t with Some (s, _) => s | None => 0 end.
  Definition rgt_dmi (t : RGT) (v : option A) : RGT := upd (rgt_min t) v t.

  (** unguarded: (stable, sentinel key of the padding players, heads) *)
  Definition RUT : Type := bool * A * list A.
  Definition rut_init (stable : bool) (sentinel : A) (hs : list A) : RUT := (stable, sentinel, hs).
  Definition rut_min (t : RUT) : option nat :=
    let '(stable, sentinel, hs) := t in
    match ref_min_opt (map Some hs) with
    | None => None
    | Some (s, x) =>
        (* a padding player (key = sentinel, source = invalid_) may win unless a real head beats it *)
        if stable then (if ltb sentinel x then None else Some s)
        else (if ltb x sentinel then Some s else None)
    end.
  Definition rut_dmi (t : RUT) (v : A) : RUT :=
    let '(stable, sentinel, hs) := t in
    match ref_min_opt (map Some hs) with
    | None => t
    | Some (s, _) => (stable, sentinel, upd s v hs)
    end.
End RefTree.

(** The model instantiated with the reference tournament, as run by ocaml/C05_driver.ml. *)
Definition ref_mwm {A : Type} (ltb : A -> A -> bool) (stable sentinels : bool) (alg : mwma)
           (st : list (list A)) (sents : list A) (sz : nat) : option (list A * nat * list nat) :=
  match mwm_base ltb RGT rgt_init (rgt_min ltb) (rgt_dmi ltb)
                 RUT rut_init (rut_min ltb) (rut_dmi ltb) stable sentinels alg st sents sz with
  | Some (o, st') => Some (o, length o, map (fun p => length (fst p) - length (snd p)) (combine st st'))
  | None => None
  end.
