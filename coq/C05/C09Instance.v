(** C05 x C09 — the loser-tree model of C09 (coq/C09/LoserTree.v, one model for the eight classes of
    tlx/container/loser_tree.hpp), driven the way multiway_merge_loser_tree / _unguarded drive it, meets the tree
    interface of LoserLoopProofs.v; the merge theorems instantiated with it.

    Guarded classes ([c9g_*], LoserTree<Stable,...>): C09's invariant [TInv] has no condition on the keys, so the
    interface holds for every input with 1 <= k <= 2^30 players ([Source = uint32_t] must not wrap).
    Consequence: MWMA_LOSER_TREE is closed end-to-end over the C09 model ([c9_mwm_stable], [c9_mwm_any]).

    Unguarded classes ([c9u_*], LoserTreeUnguarded<Stable,...>): multiway_merge_loser_tree_combined builds the
    unguarded tree with padding key [*(seqs_begin->second - 1)] (last element of sequence 0) and hands it heads of
    other sequences that may be GREATER than that key, so the documented precondition of these classes ("the sentinel
    is not less than any key handed in", C09's [TInv] for the unguarded variants) does not hold there.  C09's
    general unguarded invariant [UInv] (C09/UnguardedGeneral.v: padding leaves are ordinary players (sentinel,
    invalid_) under the (key, source) order; no bound on the keys) is what fits: [ubuild_UInv], [udmi_UInv] and
    [uwinner_ok] ("while some live key beats the sentinel - strictly, for the stable classes: is not greater -
    min_source is a right real player") are exactly [utree_ok] with no key condition ([c9_utree_ok]).
    Consequence: MWMA_LOSER_TREE, MWMA_LOSER_TREE_COMBINED and MWMA_LOSER_TREE_SENTINEL (and all the rest) are closed
    end-to-end over the C09 model; the only assumption beyond the property's own is k <= 2^30. *)
From Coq Require Import List Bool Arith NArith Lia Sorting.Sorted.
From TLXV Require Import Common.Order C09.LoserTree C09.Spec C09.Winner C09.UnguardedGeneral
     C05.AutoDefs C05.StableMerge C05.Model C05.C09Model C05.MergeFacts C05.LoserLoopProofs C05.BaseProofs C05.RefTreeProofs C05.Final.
Import ListNotations.

(* ---------------------------------------------------------------------------------------------------- *)
(** * N-indexed lists of C09 versus nat-indexed lists of C05 *)
Section Idx.
  Context {B : Type}.

  Lemma nthN_nth_error (l : list B) : forall i, nthN l i = nth_error l (N.to_nat i).
  Proof.
    induction l as [|x r IH]; intros i; simpl.
    - destruct (N.to_nat i); reflexivity.
    - destruct (N.eqb_spec i 0) as [->|Ne]; [reflexivity|].
      rewrite IH. rewrite N2Nat.inj_pred. destruct (N.to_nat i) eqn:E; [lia|reflexivity].
  Qed.

  Lemma nthN_of_nat (l : list B) i : nthN l (N.of_nat i) = nth_error l i.
  Proof. now rewrite nthN_nth_error, Nat2N.id. Qed.

  Lemma setN_upd (l : list B) : forall i x, setN l i x = upd (N.to_nat i) x l.
  Proof.
    induction l as [|y r IH]; intros i x; simpl; [destruct (N.to_nat i); reflexivity|].
    destruct (N.eqb_spec i 0) as [->|Ne]; [reflexivity|].
    rewrite IH. rewrite N2Nat.inj_pred. destruct (N.to_nat i) eqn:E; [lia|reflexivity].
  Qed.
End Idx.

(* ---------------------------------------------------------------------------------------------------- *)
(** * The C09 tree behind the interface of Model.v: definitions in C05/C09Model.v *)
Section Inst.
  Context {A : Type}.
  Variable ltb : A -> A -> bool.
  Variable dkey : A.
  Variable ptr : bool.
  Hypothesis H : SWO ltb.
  Notation c9g_init := (c9g_init ltb dkey ptr).
  Notation c9g_min := (c9g_min dkey).
  Notation c9g_dmi := (c9g_dmi ltb dkey).
  Notation c9u_init := (c9u_init ltb dkey ptr).
  Notation c9u_min := (c9u_min dkey).
  Notation c9u_dmi := (c9u_dmi ltb dkey).

  Definition c9_size (n : nat) : Prop := (1 <= N.of_nat n <= 2 ^ 30)%N.

  (** C09's [winner_ok] is C05's [winner]. *)
  Lemma winner_ok_winner b (hs : list (option A)) s :
    winner_ok ltb b hs s -> (N.of_nat (length hs) <= 2 ^ 30)%N ->
    winner ltb b hs (N.to_nat s) /\ N.eqb s invalid_ = false.
  Proof.
    intros (key & Hlive & Hall) Hlen. unfold live in Hlive.
    pose proof (nthN_Some_lt _ _ _ Hlive) as Ls.
    split.
    - exists key. rewrite nthN_nth_error in Hlive. split; [exact Hlive|]. split.
      + intros t y Ht. apply (Hall (N.of_nat t)). unfold live. now rewrite nthN_of_nat.
      + intros -> t y Lt Ht. destruct (Hall (N.of_nat t) y) as [_ Hst]; [unfold live; now rewrite nthN_of_nat|].
        destruct (ltb key y) eqn:C; [reflexivity|]. specialize (Hst eq_refl eq_refl). lia.
    - apply N.eqb_neq. pose proof invalid_big. lia.
  Qed.

  Lemma some_live_of (hs : list (option A)) : (exists s x, nth_error hs s = Some (Some x)) -> some_live hs.
  Proof. intros (s & x & E). exists (N.of_nat s), x. unfold live. now rewrite nthN_of_nat. Qed.

  (** ** guarded *)
  Definition c9_grep (b : bool) (t : CT) (hs : list (option A)) : Prop :=
    fst t = mkV ptr true b /\ TInv ltb dkey dkey (fst t) (snd t) hs.

  Theorem c9_gtree_ok : gtree_ok ltb c9_size c9g_init c9g_min c9g_dmi c9_grep.
  Proof.
    constructor.
    - intros b hs Hsz. split; [reflexivity|]. apply build_TInv; auto. intros G; discriminate.
    - intros b t hs [Ev Hinv] Hlive.
      pose proof (TInv_winner_ok ltb dkey dkey H _ _ _ Hinv (some_live_of _ Hlive)) as W.
      rewrite Ev in W at 1. cbn [v_stable] in W.
      destruct (winner_ok_winner _ _ _ W) as [W' Ne].
      { rewrite <- (ti_ik _ _ _ _ _ _ Hinv). apply (ti_ik1 _ _ _ _ _ _ Hinv). }
      unfold c9g_min. rewrite Ne. exact W'.
    - intros b t hs op [Ev Hinv] Hlive. split; [exact Ev|]. unfold c9g_dmi. cbn [fst snd].
      pose proof (TInv_winner_ok ltb dkey dkey H _ _ _ Hinv (some_live_of _ Hlive)) as W.
      destruct (winner_ok_winner _ _ _ W) as [_ Ne].
      { rewrite <- (ti_ik _ _ _ _ _ _ Hinv). apply (ti_ik1 _ _ _ _ _ _ Hinv). }
      unfold c9g_min. rewrite Ne. rewrite <- setN_upd.
      apply dmi_TInv; auto; [now apply some_live_of|]. intros G. rewrite Ev in G. discriminate.
  Qed.

  (** ** unguarded: C09's general invariant, no condition on the keys *)
  Definition c9_urep (b : bool) (t : CT) (sen : A) (hs : list A) : Prop :=
    fst t = mkV ptr false b /\ UInv ltb dkey sen (fst t) (snd t) (map Some hs).

  Lemma all_some_map (hs : list A) : all_some (map Some hs).
  Proof.
    intros i x Hi. rewrite nthN_nth_error, nth_error_map in Hi.
    destruct (nth_error hs (N.to_nat i)) as [k|]; [|discriminate]. simpl in Hi. inversion Hi; subst. eauto.
  Qed.

  Theorem c9_utree_ok : utree_ok ltb c9_size (fun _ _ => True) c9u_init c9u_min c9u_dmi c9_urep.
  Proof.
    constructor.
    - intros b sen hs Hsz _. split; [reflexivity|]. apply ubuild_UInv; [reflexivity| |apply all_some_map].
      now rewrite map_length.
    - intros b t sen hs [Ev Hinv] (s0 & x0 & E0 & Hb).
      assert (Gv : v_guarded (fst t) = false) by (rewrite Ev; reflexivity).
      destruct (uwinner_ok ltb dkey sen H (fst t) Gv (snd t) _ Hinv) as [W Ne].
      { exists (N.of_nat s0), x0. split.
        - unfold live. now rewrite nthN_of_nat, nth_error_map, E0.
        - unfold beats_sentinel. rewrite Ev. cbn [v_stable]. exact Hb. }
      rewrite Ev in W at 1. cbn [v_stable] in W.
      destruct (winner_ok_winner _ _ _ W) as [W' Ne'].
      { rewrite <- (ui_ik _ _ _ _ _ _ Hinv). apply (ui_ik1 _ _ _ _ _ _ Hinv). }
      exists (N.to_nat (lt_min_source dkey (fst t) (snd t))). split; [|exact W'].
      unfold C09Model.c9u_min. now rewrite Ne'.
    - intros b t sen hs x s [Ev Hinv] Em _. split; [exact Ev|]. unfold C09Model.c9u_dmi. cbn [fst snd].
      assert (Gv : v_guarded (fst t) = false) by (rewrite Ev; reflexivity).
      unfold C09Model.c9u_min in Em. destruct (N.eqb (lt_min_source dkey (fst t) (snd t)) invalid_) eqn:Ne; [discriminate|].
      inversion Em; subst s. rewrite map_upd, <- setN_upd.
      apply udmi_UInv; auto. now apply N.eqb_neq.
  Qed.
End Inst.

(* ---------------------------------------------------------------------------------------------------- *)
(** * The merge theorems over the C09 model *)
Section Closed.
  Context {A : Type}.
  Variable ltb : A -> A -> bool.
  Hypothesis H : SWO ltb.
  Variable dkey : A.
  Variable ptr : bool.

  Notation c9_mwm := (c9_mwm ltb dkey ptr).

  (** The only side condition: Source = uint32_t arithmetic of the trees must not wrap (trees are used for k >= 5). *)
  Lemma c9_side alg sentinels (st : list (list A)) sents :
    (N.of_nat (length st) <= 2 ^ 30)%N -> side_ok c9_size c9_size (fun _ _ : A => True) alg sentinels st sents.
  Proof.
    intros Hsz L5. assert (Hs : c9_size (length st)) by (unfold c9_size; lia).
    split; [exact Hs|]. split; [exact Hs|]. split; intros; [intros ? ? _ _; exact I|].
    split; [intros ? ? _ _; exact I|intros; exact I].
  Qed.

  (** Every entry point, every algorithm over the C09 trees performs a merge run of [len] steps
      ([c9_mwm ltb dkey ptr] is [C09Model.c9_mwm] = [mwm_base] over C09's [lt_build / lt_min_source /
      lt_delete_min_insert]). *)
  Theorem c9_mwm_run stable sentinels alg (st : list (list A)) sents len :
    inputs_ok ltb st -> len <= total st -> (sentinels = true -> sent_ok ltb st sents) ->
    (N.of_nat (length st) <= 2 ^ 30)%N ->
    exists out st', c9_mwm stable sentinels alg st sents len = Some (out, st') /\
                    mrun ltb stable st out st' /\ length out = len.
  Proof.
    intros Hin Hlen Hsent Hsz. unfold c9_mwm.
    apply (mwm_run ltb H CT _ _ _ (c9_grep ltb dkey ptr) c9_size (c9_gtree_ok ltb dkey ptr H)
                   CT _ _ _ (c9_urep ltb dkey ptr) c9_size (fun _ _ => True) (c9_utree_ok ltb dkey ptr H)); auto.
    now apply c9_side.
  Qed.

  (** Stable entry points over the C09 trees: the first [len] elements of the stable merge. *)
  Theorem c9_mwm_stable sentinels alg (st : list (list A)) sents len :
    inputs_ok ltb st -> len <= total st -> (sentinels = true -> sent_ok ltb st sents) ->
    (N.of_nat (length st) <= 2 ^ 30)%N ->
    c9_mwm true sentinels alg st sents len = Some (firstn len (gmerge ltb st), snd (msteps ltb len st)).
  Proof.
    intros Hin Hlen Hsent Hsz. unfold c9_mwm.
    apply (mwm_stable ltb H CT _ _ _ (c9_grep ltb dkey ptr) c9_size (c9_gtree_ok ltb dkey ptr H)
                      CT _ _ _ (c9_urep ltb dkey ptr) c9_size (fun _ _ => True) (c9_utree_ok ltb dkey ptr H)); auto.
    now apply c9_side.
  Qed.

  (** All entry points over the C09 trees. *)
  Theorem c9_mwm_any stable sentinels alg (st : list (list A)) sents len :
    inputs_ok ltb st -> len <= total st -> (sentinels = true -> sent_ok ltb st sents) ->
    (N.of_nat (length st) <= 2 ^ 30)%N ->
    exists out st', c9_mwm stable sentinels alg st sents len = Some (out, st') /\
      length out = len /\
      StronglySorted (sorted_rel ltb) out /\
      (exists ps, length ps = length st /\ interleave ps out /\ forall s, nth s st [] = nth s ps [] ++ nth s st' []) /\
      (forall x l y, In x out -> In l st' -> In y l -> ltb y x = false).
  Proof.
    intros Hin Hlen Hsent Hsz. unfold c9_mwm.
    apply (mwm_any ltb H CT _ _ _ (c9_grep ltb dkey ptr) c9_size (c9_gtree_ok ltb dkey ptr H)
                   CT _ _ _ (c9_urep ltb dkey ptr) c9_size (fun _ _ => True) (c9_utree_ok ltb dkey ptr H)); auto.
    now apply c9_side.
  Qed.
End Closed.

(** Non-vacuity: the C09-backed model computes, for all three tree algorithms (sentinels different from each other;
    COMBINED on an input whose other sequences exceed the last element of sequence 0). *)
Example c9_example :
  let st := [[1; 3; 3]; []; [2; 3]; [0; 3; 9]; [3]; [4; 4]] in
  c9_mwm Nat.ltb 0 false true true MWMA_LOSER_TREE_SENTINEL st [10; 12; 11; 10; 13; 10] 7 = Some ([0; 1; 2; 3; 3; 3; 3], snd (msteps Nat.ltb 7 st)) /\
  c9_mwm Nat.ltb 0 true true false MWMA_LOSER_TREE st [] 7 = Some ([0; 1; 2; 3; 3; 3; 3], snd (msteps Nat.ltb 7 st)) /\
  c9_mwm Nat.ltb 0 false false false MWMA_LOSER_TREE_COMBINED st [] 9 = Some ([0; 1; 2; 3; 3; 3; 3; 3; 4], snd (msteps Nat.ltb 9 st)).
Proof. vm_compute. repeat split; reflexivity. Qed.
