(** C05 x C09 — the loser-tree model of C09 (coq/C09/LoserTree.v, one model for the eight classes of
    tlx/container/loser_tree.hpp), driven the way multiway_merge_loser_tree / _unguarded drive it, meets the tree
    interface of LoserLoopProofs.v; the merge theorems instantiated with it.

    Guarded classes ([c9g_*], LoserTree<Stable,...>): C09's invariant [TInv] has no condition on the keys, so the
    interface holds for every input with 1 <= k <= 2^30 players ([Source = uint32_t] must not wrap).
    Consequence: MWMA_LOSER_TREE is closed end-to-end over the C09 model ([c9_mwm_stable], [c9_mwm_any]).

    Unguarded classes ([c9u_*], LoserTreeUnguarded<Stable,...>): C09 proves its theorems under the documented
    precondition of these classes, "the sentinel is not less than any key handed in" ([pl_ok] / [op_ok]).  Under
    that condition ([ukey sen x := ltb sen x = false]) the interface holds ([c9_utree_ok]).  This covers
    MWMA_LOSER_TREE_SENTINEL whenever no sequence's sentinel is greater than the first sequence's sentinel (e.g. all
    sentinels equal, as in tlx's own test).  It does NOT cover multiway_merge_loser_tree_combined in general:
    that routine builds the unguarded tree with padding key [*(seqs_begin->second - 1)] (last element of sequence
    0) and hands it heads of other sequences that may be greater.  The code is still right there (the padding
    players are ordinary players with key = padding key and source = invalid_, and they cannot win while a real
    head beats the padding key — which is what [utree_ok] asks and what prepare_unguarded guarantees), but C09's
    invariant ranks padding below every real player ([VOrder.rk]), which is only consistent with the code's
    comparisons when all real keys are <= the padding key.  Missing lemma (for C09): [TInv] / [dmi_TInv] /
    [TInv_winner_ok] for the unguarded variants with the order (key, source) on ALL leaves, padding included, and
    conclusion "if some live key k has [ltb k sentinel = true] (stable: [ltb sentinel k = false]) then
    [lt_min_source] is a [winner_ok] real player".  With that lemma [c9_utree_ok] holds with [ukey := True] and
    COMBINED closes the same way.  Until then COMBINED (k >= 5) is closed over the C09 guarded tree and ANY
    unguarded tree meeting [utree_ok] (e.g. the reference tournament), or over the C09 unguarded tree for inputs
    whose elements are all <= the last element of sequence 0. *)
From Coq Require Import List Bool Arith NArith Lia Sorting.Sorted.
From TLXV Require Import Common.Order C09.LoserTree C09.Spec C09.Winner
     C05.AutoDefs C05.StableMerge C05.Model C05.C09Model C05.MergeFacts C05.LoserLoopProofs C05.BaseProofs C05.RefTreeProofs C05.Final.
Import ListNotations.

(* ---------------------------------------------------------------------------------------------------- *)
(** * N-indexed lists of C09 versus nat-indexed lists of C05 *)
Section Idx.
  Context {B : Type}.

  Lemma nthN_nth_error (l : list B) : forall i, nthN l i = nth_error l (N.to_nat i).
  Proof.
    induction l as [|x r IH]; intros i; simpl.
    - destruct (N.to_nat i); reflexivity.
    - destruct (N.eqb_spec i 0) as [->|Ne]; [reflexivity|].
      rewrite IH. rewrite N2Nat.inj_pred. destruct (N.to_nat i) eqn:E; [lia|reflexivity].
  Qed.

  Lemma nthN_of_nat (l : list B) i : nthN l (N.of_nat i) = nth_error l i.
  Proof. now rewrite nthN_nth_error, Nat2N.id. Qed.

  Lemma setN_upd (l : list B) : forall i x, setN l i x = upd (N.to_nat i) x l.
  Proof.
    induction l as [|y r IH]; intros i x; simpl; [destruct (N.to_nat i); reflexivity|].
    destruct (N.eqb_spec i 0) as [->|Ne]; [reflexivity|].
    rewrite IH. rewrite N2Nat.inj_pred. destruct (N.to_nat i) eqn:E; [lia|reflexivity].
  Qed.
End Idx.

(* ---------------------------------------------------------------------------------------------------- *)
(** * The C09 tree behind the interface of Model.v: definitions in C05/C09Model.v *)
Section Inst.
  Context {A : Type}.
  Variable ltb : A -> A -> bool.
  Variable dkey : A.
  Variable ptr : bool.
  Hypothesis H : SWO ltb.
  Notation c9g_init := (c9g_init ltb dkey ptr).
  Notation c9g_min := (c9g_min dkey).
  Notation c9g_dmi := (c9g_dmi ltb dkey).
  Notation c9u_init := (c9u_init ltb dkey ptr).
  Notation c9u_min := (c9u_min dkey).
  Notation c9u_dmi := (c9u_dmi ltb dkey).

  Definition c9_size (n : nat) : Prop := (1 <= N.of_nat n <= 2 ^ 30)%N.

  (** C09's [winner_ok] is C05's [winner]. *)
  Lemma winner_ok_winner b (hs : list (option A)) s :
    winner_ok ltb b hs s -> (N.of_nat (length hs) <= 2 ^ 30)%N ->
    winner ltb b hs (N.to_nat s) /\ N.eqb s invalid_ = false.
  Proof.
    intros (key & Hlive & Hall) Hlen. unfold live in Hlive.
    pose proof (nthN_Some_lt _ _ _ Hlive) as Ls.
    split.
    - exists key. rewrite nthN_nth_error in Hlive. split; [exact Hlive|]. split.
      + intros t y Ht. apply (Hall (N.of_nat t)). unfold live. now rewrite nthN_of_nat.
      + intros -> t y Lt Ht. destruct (Hall (N.of_nat t) y) as [_ Hst]; [unfold live; now rewrite nthN_of_nat|].
        destruct (ltb key y) eqn:C; [reflexivity|]. specialize (Hst eq_refl eq_refl). lia.
    - apply N.eqb_neq. pose proof invalid_big. lia.
  Qed.

  Lemma some_live_of (hs : list (option A)) : (exists s x, nth_error hs s = Some (Some x)) -> some_live hs.
  Proof. intros (s & x & E). exists (N.of_nat s), x. unfold live. now rewrite nthN_of_nat. Qed.

  (** ** guarded *)
  Definition c9_grep (b : bool) (t : CT) (hs : list (option A)) : Prop :=
    fst t = mkV ptr true b /\ TInv ltb dkey dkey (fst t) (snd t) hs.

  Theorem c9_gtree_ok : gtree_ok ltb c9_size c9g_init c9g_min c9g_dmi c9_grep.
  Proof.
    constructor.
    - intros b hs Hsz. split; [reflexivity|]. apply build_TInv; auto. intros G; discriminate.
    - intros b t hs [Ev Hinv] Hlive.
      pose proof (TInv_winner_ok ltb dkey dkey H _ _ _ Hinv (some_live_of _ Hlive)) as W.
      rewrite Ev in W at 1. cbn [v_stable] in W.
      destruct (winner_ok_winner _ _ _ W) as [W' Ne].
      { rewrite <- (ti_ik _ _ _ _ _ _ Hinv). apply (ti_ik1 _ _ _ _ _ _ Hinv). }
      unfold c9g_min. rewrite Ne. exact W'.
    - intros b t hs op [Ev Hinv] Hlive. split; [exact Ev|]. unfold c9g_dmi. cbn [fst snd].
      pose proof (TInv_winner_ok ltb dkey dkey H _ _ _ Hinv (some_live_of _ Hlive)) as W.
      destruct (winner_ok_winner _ _ _ W) as [_ Ne].
      { rewrite <- (ti_ik _ _ _ _ _ _ Hinv). apply (ti_ik1 _ _ _ _ _ _ Hinv). }
      unfold c9g_min. rewrite Ne. rewrite <- setN_upd.
      apply dmi_TInv; auto; [now apply some_live_of|]. intros G. rewrite Ev in G. discriminate.
  Qed.

  (** ** unguarded, under C09's documented precondition on the keys *)
  Definition c9_ukey (sen x : A) : Prop := ltb sen x = false.

  Definition c9_urep (b : bool) (t : CT) (sen : A) (hs : list A) : Prop :=
    fst t = mkV ptr false b /\ TInv ltb dkey sen (fst t) (snd t) (map Some hs).

  Theorem c9_utree_ok : utree_ok ltb c9_size c9_ukey c9u_init c9u_min c9u_dmi c9_urep.
  Proof.
    constructor.
    - intros b sen hs Hsz Hk. split; [reflexivity|]. apply build_TInv; auto.
      + now rewrite map_length.
      + intros _ i x Hi. rewrite nthN_nth_error, nth_error_map in Hi.
        destruct (nth_error hs (N.to_nat i)) as [k|] eqn:E; [|discriminate]. simpl in Hi. inversion Hi; subst.
        exists k. split; [reflexivity|]. rewrite Forall_forall in Hk. apply Hk. eapply nth_error_In; eauto.
    - intros b t sen hs [Ev Hinv] (s0 & x0 & E0 & _).
      assert (Hlive : exists s x, nth_error (map Some hs) s = Some (Some x)).
      { exists s0, x0. now rewrite nth_error_map, E0. }
      pose proof (TInv_winner_ok ltb dkey sen H _ _ _ Hinv (some_live_of _ Hlive)) as W.
      rewrite Ev in W at 1. cbn [v_stable] in W.
      destruct (winner_ok_winner _ _ _ W) as [W' Ne].
      { rewrite <- (ti_ik _ _ _ _ _ _ Hinv). apply (ti_ik1 _ _ _ _ _ _ Hinv). }
      exists (N.to_nat (lt_min_source dkey (fst t) (snd t))). split; [|exact W'].
      unfold c9u_min. now rewrite Ne.
    - intros b t sen hs x s [Ev Hinv] Em Hk. split; [exact Ev|]. unfold c9u_dmi. cbn [fst snd].
      unfold c9u_min in Em. destruct (N.eqb (lt_min_source dkey (fst t) (snd t)) invalid_) eqn:Ne; [discriminate|].
      inversion Em; subst s. rewrite map_upd, <- setN_upd.
      (* some player is live: the tree has at least one player and unguarded players are never exhausted *)
      assert (Hlive : some_live (map Some hs)).
      { pose proof (ti_ik1 _ _ _ _ _ _ Hinv) as [L1 _]. rewrite (ti_ik _ _ _ _ _ _ Hinv), map_length in L1.
        destruct hs as [|h hs']; [simpl in L1; lia|]. exists 0%N, h. reflexivity. }
      apply dmi_TInv; auto. intros _. exists x. split; [reflexivity|exact Hk].
  Qed.
End Inst.

(* ---------------------------------------------------------------------------------------------------- *)
(** * The merge theorems over the C09 model *)
Section Closed.
  Context {A : Type}.
  Variable ltb : A -> A -> bool.
  Hypothesis H : SWO ltb.
  Variable dkey : A.
  Variable ptr : bool.

  Notation c9_mwm := (c9_mwm ltb dkey ptr).

  (** Which calls are covered by C09's theorems: everything that does not run an unguarded tree outside C09's key
      precondition.  k <= 4 uses no tree; MWMA_LOSER_TREE and MWMA_BUBBLE use no unguarded tree. *)
  Definition c9_covered (alg : mwma) (sentinels : bool) (st : list (list A)) (sents : list A) : Prop :=
    5 <= length st ->
    (N.of_nat (length st) <= 2 ^ 30)%N /\
    (eff_alg alg sentinels = MWMA_LOSER_TREE_COMBINED ->
       forall sen, last_error (hd [] st) = Some sen -> forall l x, In l st -> In x l -> ltb sen x = false) /\
    (eff_alg alg sentinels = MWMA_LOSER_TREE_SENTINEL ->
       forall z0, hd_error sents = Some z0 -> forall z, In z sents -> ltb z0 z = false).

  Lemma c9_covered_side alg sentinels st sents :
    (sentinels = true -> sent_ok ltb st sents) -> c9_covered alg sentinels st sents ->
    side_ok c9_size c9_size (c9_ukey ltb) alg sentinels st sents.
  Proof.
    intros Hsent Hc L5. destruct (Hc L5) as (Hsz & Hkc & Hks).
    assert (Hs : c9_size (length st)) by (unfold c9_size; lia).
    split; [exact Hs|]. split; [exact Hs|]. split.
    - intros Ea sen Esen l x Hl Hx. exact (Hkc Ea sen Esen l x Hl Hx).
    - intros Ea z0 Ez0. split; [|exact (Hks Ea z0 Ez0)].
      intros l x Hl Hx. unfold c9_ukey.
      assert (Es : sentinels = true) by (unfold eff_alg in Ea; destruct alg, sentinels; congruence).
      destruct (Hsent Es) as [_ Hgt].
      apply (swo_asym _ H). apply (Hgt l x z0 Hl Hx). destruct sents; [discriminate|]. inversion Ez0; now left.
  Qed.

  (** Stable entry points over the C09 trees: the first [len] elements of the stable merge. *)
  Theorem c9_mwm_stable sentinels alg (st : list (list A)) sents len :
    inputs_ok ltb st -> len <= total st -> (sentinels = true -> sent_ok ltb st sents) ->
    c9_covered alg sentinels st sents ->
    c9_mwm true sentinels alg st sents len = Some (firstn len (gmerge ltb st), snd (msteps ltb len st)).
  Proof.
    intros Hin Hlen Hsent Hc. unfold c9_mwm.
    apply (mwm_stable ltb H CT _ _ _ (c9_grep ltb dkey ptr) c9_size (c9_gtree_ok ltb dkey ptr H)
                      CT _ _ _ (c9_urep ltb dkey ptr) c9_size (c9_ukey ltb) (c9_utree_ok ltb dkey ptr H)); auto.
    now apply c9_covered_side.
  Qed.

  (** Every variant over the C09 trees performs a merge run of [len] steps ([c9_mwm ltb dkey ptr] is
      [C09Model.c9_mwm] = [mwm_base] over C09's [lt_build / lt_min_source / lt_delete_min_insert]). *)
  Theorem c9_mwm_run stable sentinels alg (st : list (list A)) sents len :
    inputs_ok ltb st -> len <= total st -> (sentinels = true -> sent_ok ltb st sents) ->
    c9_covered alg sentinels st sents ->
    exists out st', c9_mwm stable sentinels alg st sents len = Some (out, st') /\
                    mrun ltb stable st out st' /\ length out = len.
  Proof.
    intros Hin Hlen Hsent Hc. unfold c9_mwm.
    apply (mwm_run ltb H CT _ _ _ (c9_grep ltb dkey ptr) c9_size (c9_gtree_ok ltb dkey ptr H)
                   CT _ _ _ (c9_urep ltb dkey ptr) c9_size (c9_ukey ltb) (c9_utree_ok ltb dkey ptr H)); auto.
    now apply c9_covered_side.
  Qed.

  (** All entry points over the C09 trees. *)
  Theorem c9_mwm_any stable sentinels alg (st : list (list A)) sents len :
    inputs_ok ltb st -> len <= total st -> (sentinels = true -> sent_ok ltb st sents) ->
    c9_covered alg sentinels st sents ->
    exists out st', c9_mwm stable sentinels alg st sents len = Some (out, st') /\
      length out = len /\
      StronglySorted (sorted_rel ltb) out /\
      (exists ps, length ps = length st /\ interleave ps out /\ forall s, nth s st [] = nth s ps [] ++ nth s st' []) /\
      (forall x l y, In x out -> In l st' -> In y l -> ltb y x = false).
  Proof.
    intros Hin Hlen Hsent Hc. unfold c9_mwm.
    apply (mwm_any ltb H CT _ _ _ (c9_grep ltb dkey ptr) c9_size (c9_gtree_ok ltb dkey ptr H)
                   CT _ _ _ (c9_urep ltb dkey ptr) c9_size (c9_ukey ltb) (c9_utree_ok ltb dkey ptr H)); auto.
    now apply c9_covered_side.
  Qed.

  (** MWMA_LOSER_TREE (and MWMA_BUBBLE, and every k <= 4) needs nothing but the size bound. *)
  Corollary c9_loser_tree_stable sentinels (st : list (list A)) sents len :
    inputs_ok ltb st -> len <= total st -> (sentinels = true -> sent_ok ltb st sents) ->
    (N.of_nat (length st) <= 2 ^ 30)%N ->
    c9_mwm true sentinels MWMA_LOSER_TREE st sents len = Some (firstn len (gmerge ltb st), snd (msteps ltb len st)).
  Proof.
    intros Hin Hlen Hsent Hsz. apply c9_mwm_stable; auto.
    intros _. split; [exact Hsz|]. split; discriminate.
  Qed.

  (** MWMA_LOSER_TREE_COMBINED over the C09 GUARDED tree and any unguarded tree meeting the interface
      (see the header for why C09's unguarded theorems do not apply to this routine). *)
  Section AnyUnguarded.
    Variable UT : Type.
    Variable ut_init : bool -> A -> list A -> UT.
    Variable ut_min : UT -> option nat.
    Variable ut_dmi : UT -> A -> UT.
    Variable urep : bool -> UT -> A -> list A -> Prop.
    Hypothesis Uok : utree_ok ltb (fun _ => True) (fun _ _ => True) ut_init ut_min ut_dmi urep.

    Theorem c9_guarded_any_unguarded_stable sentinels alg (st : list (list A)) sents len :
      inputs_ok ltb st -> len <= total st -> (sentinels = true -> sent_ok ltb st sents) ->
      (N.of_nat (length st) <= 2 ^ 30)%N ->
      mwm_base ltb CT (c9g_init ltb dkey ptr) (c9g_min dkey) (c9g_dmi ltb dkey) UT ut_init ut_min ut_dmi
               true sentinels alg st sents len = Some (firstn len (gmerge ltb st), snd (msteps ltb len st)).
    Proof.
      intros Hin Hlen Hsent Hsz.
      apply (mwm_stable ltb H CT _ _ _ (c9_grep ltb dkey ptr) c9_size (c9_gtree_ok ltb dkey ptr H)
                        UT _ _ _ urep (fun _ => True) (fun _ _ => True) Uok); auto.
      intros L5. split; [unfold c9_size; lia|]. split; [exact I|]. split; intros; [intros ? ? _ _; exact I|].
      split; [intros ? ? _ _; exact I|intros; exact I].
    Qed.
  End AnyUnguarded.
End Closed.

(** Non-vacuity: the C09-backed model computes, with equal sentinels, for all three tree algorithms. *)
Example c9_example :
  let st := [[1; 3; 3]; []; [2; 3]; [0; 3; 9]; [3]; [4; 4]] in
  c9_mwm Nat.ltb 0 false true true MWMA_LOSER_TREE_SENTINEL st [10; 10; 10; 10; 10; 10] 7 = Some ([0; 1; 2; 3; 3; 3; 3], snd (msteps Nat.ltb 7 st)) /\
  c9_mwm Nat.ltb 0 true true false MWMA_LOSER_TREE st [] 7 = Some ([0; 1; 2; 3; 3; 3; 3], snd (msteps Nat.ltb 7 st)) /\
  c9_mwm Nat.ltb 0 false false false MWMA_LOSER_TREE_COMBINED st [] 9 = Some ([0; 1; 2; 3; 3; 3; 3; 3; 4], snd (msteps Nat.ltb 9 st)).
Proof. vm_compute. repeat split; reflexivity. Qed.
