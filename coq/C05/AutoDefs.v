(** C05 — data types of the generated 3-way / 4-way merge automata (gen/Merge34_gen.v). *)
From Coq Require Import List.
Import ListNotations.

(** Edge label: which comparison of the two iterators the source performs. *)
Inductive cmpop := OpLt | OpLe.

(** Decision code: [Test i op j yes no] is [if (seq_i op seq_j) yes else no];
    [Goto l] is [goto s<l>], the label naming the order of the heads. *)
Inductive dtree :=
| Goto (l : list nat)
| Test (i : nat) (op : cmpop) (j : nat) (yes no : dtree).

(** One row per label: after emitting from the first sequence of the label and advancing it,
    the row's decision code chooses the next label. *)
Definition table := list (list nat * dtree).
