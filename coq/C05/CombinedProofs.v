(** C05 — the *_combined routines: unguarded phase up to [total - overhang] elements, then a guarded merge of
    the rest (merge_advance / guarded 3-way automaton on the sequences other than [min_seq] / guarded loser tree). *)
From Coq Require Import List Bool Arith Lia Sorting.Sorted.
From TLXV Require Import Common.Order C05.AutoDefs C05.StableMerge C05.Model C05.MergeFacts C05.MergeAdvProofs
     C05.AutoProofs C05.AutoSweep C05.LoserLoopProofs C05.UnguardedProofs.
Import ListNotations.

Section Combined.
  Context {A : Type}.
  Variable ltb : A -> A -> bool.
  Hypothesis H : SWO ltb.

  Notation state := (list (list A)).
  Notation mrun := (mrun ltb).

  Lemma total_remove_nth i (st : state) : i < length st -> total st = length (nth i st []) + total (remove_nth i st).
  Proof.
    revert st; induction i as [|i IH]; intros [|l st] Hi; simpl in Hi; try lia.
    - reflexivity.
    - change (remove_nth (S i) (l :: st)) with (l :: remove_nth i st). rewrite !total_cons. simpl.
      rewrite (IH st) by lia. lia.
  Qed.

  (** The unguarded phase, for any unguarded merge routine [run] that is correct while [ugood_run] holds. *)
  Lemma unguarded_phase_ok (stable : bool) (run : nat -> state -> res) (st : state) sz :
    sorted_state ltb st -> st <> [] -> sz <= total st ->
    (forall n sen l0 rest, st = l0 :: rest -> last_error l0 = Some sen -> Forall (fun l => l <> []) st ->
        n <= total st -> ugood_run ltb stable sen n st ->
        exists o st1, run n st = Some (o, st1) /\ mrun stable st o st1 /\ length o = n) ->
    exists o1 st1 ovh ms,
      unguarded_phase ltb stable run st sz = (Some (o1, st1, ovh), ms) /\
      mrun stable st o1 st1 /\ length o1 + ovh = sz /\ ms < length st /\
      (stable = true -> 0 < ovh -> nth ms st1 [] = []).
  Proof.
    intros Hs Hne Hsz Hrun. unfold unguarded_phase.
    destruct (prepare_unguarded ltb stable st) as [[ov|] ms] eqn:Ep.
    - destruct (prepare_some ltb H _ _ _ _ Ep) as (mn & Hl & Hov).
      destruct st as [|l0 rest]; [congruence|].
      pose proof Hl as (Lms & Ems & Hall).
      destruct (Hall 0 ltac:(simpl; lia)) as (sen & Esen & _). simpl in Esen.
      assert (Hnonempty : Forall (fun l => l <> []) (l0 :: rest)).
      { apply Forall_forall. intros l Hin. apply In_nth_error in Hin. destruct Hin as (s & Es).
        assert (Ls : s < length (l0 :: rest)) by (apply nth_error_Some; congruence).
        destruct (Hall s Ls) as (z & Ez & _). rewrite (nth_error_nth_default _ _ _ [] Es) in Ez.
        intros ->. discriminate. }
      set (st := l0 :: rest) in *.
      set (c := cuts ltb stable mn ms 0 st) in *.
      assert (Etot : total st - ov = list_sum c) by lia.
      rewrite Etot.
      set (us := Nat.min sz (list_sum c)).
      assert (Hg : ugood_run ltb stable sen us st).
      { destruct stable.
        - apply (ugood_stable ltb H st mn ms Hl Hs l0 rest sen eq_refl Esen). unfold us. fold c. lia.
        - apply (ugood_unstable ltb H st mn ms Hl Hs l0 rest sen eq_refl Esen). unfold us. fold c. lia. }
      destruct (Hrun us sen l0 rest eq_refl Esen Hnonempty ltac:(unfold us; lia) Hg) as (o1 & st1 & Er & R & L).
      rewrite Er. exists o1, st1, (sz - us), ms. split; [reflexivity|]. split; [exact R|].
      split; [unfold us in *; lia|]. split; [exact Lms|].
      intros -> Hpos. apply (stable_exhausts ltb H st mn ms Hl Hs o1 st1 R). fold c. unfold us in *. lia.
    - destruct (prepare_none ltb stable st ms Hne Ep) as (Lms & Ems).
      exists [], st, sz, ms. split; [reflexivity|]. split; [constructor|]. split; [reflexivity|]. split; [exact Lms|].
      intros _ _. exact Ems.
  Qed.

  Lemma mrun_nil_inv b (st st' : state) : mrun b st [] st' -> st' = st.
  Proof. intros R. inversion R; reflexivity. Qed.

  (* -------------------------------------------------------------------------------------------------- *)
  (** ** multiway_merge_3_combined *)
  Theorem merge3_combined_correct (st : state) sz :
    length st = 3 -> sorted_state ltb st -> sz <= total st ->
    exists o st', merge3_combined ltb st sz = Some (o, st') /\ mrun true st o st' /\ length o = sz.
  Proof.
    intros L3 Hs Hsz. unfold merge3_combined.
    destruct (unguarded_phase_ok true (merge3_variant ltb Unguarded) st sz Hs) as (o1 & st1 & ovh & ms & Ep & R1 & Lo & Lms & Hex); auto.
    { intros ->; discriminate. }
    { intros n sen l0 rest Est Esen Hne Hn Hg.
      apply (merge3_variant_correct ltb H Unguarded n st L3 Hn). intros _. eapply ugood_safe; eauto. }
    rewrite Ep.
    pose proof (mrun_length ltb _ _ _ _ R1) as L1. pose proof (mrun_total ltb _ _ _ _ R1) as T1.
    destruct st1 as [|a [|b [|c [|? ?]]]]; simpl in L1; try lia.
    assert (Hovh : ovh <= total [a; b; c]) by lia.
    assert (Fin : forall (la lb : list A) (stf : list A -> list A -> state),
               (ovh = 0 \/ total [a; b; c] = length la + length lb) ->
               (forall a' b', mrun true [la; lb] [] [a'; b'] -> stf a' b' = [a; b; c]) ->
               (0 < ovh -> forall o a' b', mrun true [la; lb] o [a'; b'] -> mrun true [a; b; c] o (stf a' b')) ->
               exists o2 st2, (match merge_advance ltb ovh la lb with Some (o, a', b') => Some (o, stf a' b') | None => None end) = Some (o2, st2) /\
                              mrun true [a; b; c] o2 st2 /\ length o2 = ovh).
    { intros la lb stf Hcase Hzero Hpos.
      destruct (merge_advance_mrun ltb H ovh la lb) as (o2 & a' & b' & E & R & L); [destruct Hcase; lia|].
      rewrite E. exists o2, (stf a' b'). split; [reflexivity|]. split; [|exact L].
      destruct ovh as [|ovh'].
      - destruct o2; [|discriminate]. rewrite (Hzero _ _ R). constructor.
      - apply Hpos; [lia|exact R]. }
    rewrite !total_cons in *. unfold StableMerge.total in *. simpl list_sum in *.
    destruct ms as [|[|[|ms]]]; [| | |simpl in Lms; lia].
    - (* min_seq = 0: merge sequences 1 and 2 *)
      unfold merge2. simpl nth. simpl upd.
      destruct (Fin b c (fun b' c' => [a; b'; c'])) as (o2 & st2 & E & R & L).
      + destruct (Nat.eq_dec ovh 0) as [Z|NZ]; [now left|right]. pose proof (Hex eq_refl ltac:(lia)) as Ea. simpl in Ea. rewrite Ea. simpl. lia.
      + intros a' b' R. apply mrun_nil_inv in R. now inversion R.
      + intros Hp o a' b' R. simpl in Hex. rewrite (Hex eq_refl Hp).
        exact (mrun_insert_empty ltb true 0 [b; c] o [a'; b'] ltac:(simpl; lia) R).
      + destruct (merge_advance ltb ovh b c) as [[[o a'] b']|]; [|discriminate]. injection E as <- <-.
        eexists _, _. split; [reflexivity|]. split; [eapply mrun_app; eauto|rewrite app_length; lia].
    - unfold merge2. simpl nth. simpl upd.
      destruct (Fin a c (fun a' c' => [a'; b; c'])) as (o2 & st2 & E & R & L).
      + destruct (Nat.eq_dec ovh 0) as [Z|NZ]; [now left|right]. pose proof (Hex eq_refl ltac:(lia)) as Ea. simpl in Ea. rewrite Ea. simpl. lia.
      + intros a' b' R. apply mrun_nil_inv in R. now inversion R.
      + intros Hp o a' b' R. simpl in Hex. rewrite (Hex eq_refl Hp).
        exact (mrun_insert_empty ltb true 1 [a; c] o [a'; b'] ltac:(simpl; lia) R).
      + destruct (merge_advance ltb ovh a c) as [[[o a'] b']|]; [|discriminate]. injection E as <- <-.
        eexists _, _. split; [reflexivity|]. split; [eapply mrun_app; eauto|rewrite app_length; lia].
    - unfold merge2. simpl nth. simpl upd.
      destruct (Fin a b (fun a' b' => [a'; b'; c])) as (o2 & st2 & E & R & L).
      + destruct (Nat.eq_dec ovh 0) as [Z|NZ]; [now left|right]. pose proof (Hex eq_refl ltac:(lia)) as Ea. simpl in Ea. rewrite Ea. simpl. lia.
      + intros a' b' R. apply mrun_nil_inv in R. now inversion R.
      + intros Hp o a' b' R. simpl in Hex. rewrite (Hex eq_refl Hp).
        exact (mrun_insert_empty ltb true 2 [a; b] o [a'; b'] ltac:(simpl; lia) R).
      + destruct (merge_advance ltb ovh a b) as [[[o a'] b']|]; [|discriminate]. injection E as <- <-.
        eexists _, _. split; [reflexivity|]. split; [eapply mrun_app; eauto|rewrite app_length; lia].
  Qed.

  (* -------------------------------------------------------------------------------------------------- *)
  (** ** multiway_merge_4_combined *)
  Theorem merge4_combined_correct (st : state) sz :
    length st = 4 -> sorted_state ltb st -> sz <= total st ->
    exists o st', merge4_combined ltb st sz = Some (o, st') /\ mrun true st o st' /\ length o = sz.
  Proof.
    intros L4 Hs Hsz. unfold merge4_combined.
    destruct (unguarded_phase_ok true (merge4_variant ltb Unguarded) st sz Hs) as (o1 & st1 & ovh & ms & Ep & R1 & Lo & Lms & Hex); auto.
    { intros ->; discriminate. }
    { intros n sen l0 rest Est Esen Hne Hn Hg.
      apply (merge4_variant_correct ltb H Unguarded n st L4 Hn). intros _. eapply ugood_safe; eauto. }
    rewrite Ep.
    pose proof (mrun_length ltb _ _ _ _ R1) as L1. pose proof (mrun_total ltb _ _ _ _ R1) as T1.
    assert (Lms1 : ms < length st1) by lia.
    pose proof (total_remove_nth ms st1 Lms1) as Trem.
    destruct (merge3_variant_correct ltb H Guarded ovh (remove_nth ms st1)) as (o2 & om & E & R2 & L2).
    - rewrite length_remove_nth by lia. lia.
    - destruct ovh as [|ovh']; [lia|]. rewrite (Hex eq_refl ltac:(lia)) in Trem. simpl in Trem. lia.
    - discriminate.
    - rewrite E. exists (o1 ++ o2), (insert_nth ms (nth ms st1 []) om).
      split; [reflexivity|]. split; [|rewrite app_length; lia].
      eapply mrun_app; [exact R1|].
      destruct ovh as [|ovh'].
      + destruct o2; [|discriminate]. apply mrun_nil_inv in R2. subst om.
        rewrite insert_remove_nth by lia. constructor.
      + rewrite (Hex eq_refl ltac:(lia)). apply mrun_remove_empty; auto. apply Hex; auto; lia.
  Qed.

  (* -------------------------------------------------------------------------------------------------- *)
  (** ** multiway_merge_loser_tree_combined, for any trees meeting the interfaces *)
  Section Trees.
    Variable GT : Type.
    Variable gt_init : bool -> list (option A) -> GT.
    Variable gt_min : GT -> nat.
    Variable gt_dmi : GT -> option A -> GT.
    Variable grep : bool -> GT -> list (option A) -> Prop.
    Variable gsize : nat -> Prop.
    Hypothesis Gok : gtree_ok ltb gsize gt_init gt_min gt_dmi grep.
    Variable UT : Type.
    Variable ut_init : bool -> A -> list A -> UT.
    Variable ut_min : UT -> option nat.
    Variable ut_dmi : UT -> A -> UT.
    Variable urep : bool -> UT -> A -> list A -> Prop.
    Variable usize : nat -> Prop.
    Variable ukey : A -> A -> Prop.
    Hypothesis Uok : utree_ok ltb usize ukey ut_init ut_min ut_dmi urep.

    Theorem merge_lt_combined_correct b (st : state) sz :
      st <> [] -> sorted_state ltb st -> sz <= total st ->
      gsize (length st) -> usize (length st) ->
      (forall sen, last_error (hd [] st) = Some sen -> keys_ok ukey sen st) ->
      exists o st', merge_lt_combined ltb GT gt_init gt_min gt_dmi UT ut_init ut_min ut_dmi b st sz = Some (o, st') /\
                    mrun b st o st' /\ length o = sz.
    Proof.
      intros Hne Hs Hsz Hgs Hus Hk. unfold merge_lt_combined.
      destruct (unguarded_phase_ok b (fun n s => merge_lt_unguarded UT ut_init ut_min ut_dmi b s n) st sz Hs Hne Hsz)
        as (o1 & st1 & ovh & ms & Ep & R1 & Lo & Lms & _).
      { intros n sen l0 rest Est Esen Hnonempty Hn Hg. subst st.
        apply (merge_lt_unguarded_correct ltb UT ut_init ut_min ut_dmi urep usize ukey Uok b l0 rest n sen); auto. }
      rewrite Ep.
      pose proof (mrun_total ltb _ _ _ _ R1) as T1.
      destruct (merge_lt_correct ltb GT gt_init gt_min gt_dmi grep gsize Gok b st1 ovh) as (o2 & st2 & E & R2 & L2).
      { now rewrite (mrun_length ltb _ _ _ _ R1). }
      rewrite E. exists (o1 ++ o2), st2. split; [reflexivity|]. split; [eapply mrun_app; eauto|].
      rewrite app_length, L2. lia.
    Qed.
  End Trees.
End Combined.
