(** C05 x C09 — executable glue: the loser-tree model of C09 (coq/C09/LoserTree.v) behind the tree interface of
    C05/Model.v, driven the way multiway_merge_loser_tree / _unguarded drive the real classes.  No proofs here (they
    are in C05/C09Instance.v), so that this file extracts even when a proof is broken. *)
From Coq Require Import List Bool Arith NArith.
From TLXV Require Import C09.LoserTree C05.AutoDefs C05.StableMerge C05.Model.
Import ListNotations.

Section Inst.
  Context {A : Type}.
  Variable ltb : A -> A -> bool.
  Variable dkey : A.                (* ValueType() *)
  Variable ptr : bool.              (* pointer-based (sizeof(ValueType) > 2 * sizeof(size_t)) or copy-based class *)

  Definition CT : Type := (variant * @tree A)%type.

  (** LoserTree<Stable, ValueType, Comparator> lt(k, comp); insert_start(&*first | nullptr, t, sup) for all t; init() *)
  Definition c9g_init (stable : bool) (hs : list (option A)) : CT :=
    let v := mkV ptr true stable in (v, lt_build ltb dkey v dkey hs).
  (** min_source(); the exhausted-winner answer invalid_ of the pointer class (never reached by the merge loops,
      see [c9_gtree_ok]) is mapped to 0 instead of a 2^32-1 unary numeral *)
  Definition c9g_min (t : CT) : nat :=
    let s := lt_min_source dkey (fst t) (snd t) in if N.eqb s invalid_ then 0 else N.to_nat s.
  Definition c9g_dmi (t : CT) (op : option A) : CT := (fst t, lt_delete_min_insert ltb dkey (fst t) (snd t) op).

  (** LoserTreeUnguarded<Stable, ...> lt(k, sentinel, comp); insert_start(&*first, t, false) for all t; init() *)
  Definition c9u_init (stable : bool) (sen : A) (hs : list A) : CT :=
    let v := mkV ptr false stable in (v, lt_build ltb dkey v sen (map Some hs)).
  Definition c9u_min (t : CT) : option nat :=
    let s := lt_min_source dkey (fst t) (snd t) in if N.eqb s invalid_ then None else Some (N.to_nat s).
  Definition c9u_dmi (t : CT) (x : A) : CT := (fst t, lt_delete_min_insert ltb dkey (fst t) (snd t) (Some x)).

  (** multiway_merge_base with both tree families taken from C09 *)
  Definition c9_mwm :=
    mwm_base ltb CT c9g_init c9g_min c9g_dmi CT c9u_init c9u_min c9u_dmi.

  (** what a caller observes (as [ref_mwm]) *)
  Definition c9_obs (stable sentinels : bool) (alg : mwma) (st : list (list A)) (sents : list A) (sz : nat)
    : option (list A * nat * list nat) :=
    match c9_mwm stable sentinels alg st sents sz with
    | Some (o, st') => Some (o, length o, map (fun p => length (fst p) - length (snd p)) (combine st st'))
    | None => None
    end.
End Inst.
