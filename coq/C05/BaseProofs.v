(** C05 — sentinel variants and the switch multiway_merge_base with its four public entry points. *)
From Coq Require Import List Bool Arith Lia Sorting.Sorted.
From TLXV Require Import Common.Order C05.AutoDefs C05.StableMerge C05.Model C05.MergeFacts C05.MergeAdvProofs
     C05.AutoProofs C05.AutoSweep C05.LoserLoopProofs C05.UnguardedProofs C05.CombinedProofs.
Import ListNotations.

Section Base.
  Context {A : Type}.
  Variable ltb : A -> A -> bool.
  Hypothesis H : SWO ltb.

  Notation state := (list (list A)).
  Notation mstep := (mstep ltb).
  Notation mrun := (mrun ltb).

  (* -------------------------------------------------------------------------------------------------- *)
  (** * Sentinels: every sequence is followed by an element greater than all real elements *)
  Definition sent_ok (st : state) (sents : list A) : Prop :=
    length sents = length st /\
    forall l x z, In l st -> In x l -> In z sents -> ltb x z = true.

  Lemma ws_nth_error (st : state) : forall sents s, length sents = length st ->
    nth_error (with_sentinels st sents) s =
    match nth_error st s, nth_error sents s with Some l, Some z => Some (l ++ [z]) | _, _ => None end.
  Proof.
    unfold with_sentinels. induction st as [|l st IH]; intros [|z sents] [|s] L; simpl in *; try lia; auto.
  Qed.

  Lemma ws_upd (st : state) : forall sents s r z, nth_error sents s = Some z ->
    with_sentinels (upd s r st) sents = upd s (r ++ [z]) (with_sentinels st sents).
  Proof.
    unfold with_sentinels. induction st as [|l st IH]; intros [|z0 sents] [|s] r z E; simpl in *; try discriminate; auto.
    - inversion E; subst. reflexivity.
    - f_equal. eapply IH; eauto.
  Qed.

  Lemma ws_length (st : state) sents : length sents = length st -> length (with_sentinels st sents) = length st.
  Proof. intros L. unfold with_sentinels. rewrite map_length, combine_length. lia. Qed.

  Lemma ws_total (st : state) : forall sents, length sents = length st ->
    total (with_sentinels st sents) = total st + length st.
  Proof.
    unfold with_sentinels, StableMerge.total. induction st as [|l st IH]; intros [|z sents] L; simpl in *; try lia.
    rewrite app_length. rewrite (IH sents) by lia. simpl. lia.
  Qed.

  Lemma ws_strip (st : state) : forall sents, length sents = length st ->
    forallb (fun l => negb (Nat.eqb (length l) 0)) (with_sentinels st sents) = true /\
    map (@removelast A) (with_sentinels st sents) = st.
  Proof.
    unfold with_sentinels. induction st as [|l st IH]; intros [|z sents] L; simpl in *; try lia; auto.
    destruct (IH sents ltac:(lia)) as [E1 E2]. rewrite E1, E2, removelast_last, app_length. simpl.
    replace (length l + 1) with (S (length l)) by lia. auto.
  Qed.

  Lemma ws_nonempty (st : state) sents : Forall (fun l => l <> []) (with_sentinels st sents).
  Proof.
    unfold with_sentinels. apply Forall_forall. intros l Hin. apply in_map_iff in Hin. destruct Hin as ([l' z] & <- & _).
    simpl. intros E. apply app_eq_nil in E. destruct E; discriminate.
  Qed.

  Lemma sent_ok_upd st sents s x r : sent_ok st sents -> nth_error st s = Some (x :: r) -> sent_ok (upd s r st) sents.
  Proof.
    intros [L Hgt] Hn. split; [now rewrite length_upd|].
    intros l y z Hl Hy Hz. apply In_nth_error in Hl. destruct Hl as (t & Ht).
    destruct (Nat.eq_dec s t) as [<-|Ne].
    - rewrite nth_error_upd_eq in Ht by (apply nth_error_Some; congruence). inversion Ht; subst.
      apply (Hgt (x :: l) y z); auto; [eapply nth_error_In; eauto|now right].
    - rewrite nth_error_upd_neq in Ht by exact Ne. apply (Hgt l y z); auto. eapply nth_error_In; eauto.
  Qed.

  (** A step over the extended sequences, while real elements remain, is a step over the real ones. *)
  Lemma mstep_sentinels b st sents x ext1 :
    sent_ok st sents -> 0 < total st -> mstep b (with_sentinels st sents) x ext1 ->
    exists s r, nth_error st s = Some (x :: r) /\ mstep b st x (upd s r st) /\ ext1 = with_sentinels (upd s r st) sents.
  Proof.
    intros [L Hgt] Hpos MS. inversion MS as [ext s x0 r0 Hn Hmin Hst]; subst.
    rewrite ws_nth_error in Hn by exact L.
    destruct (nth_error st s) as [l|] eqn:El; [|discriminate].
    destruct (nth_error sents s) as [z|] eqn:Ez; [|discriminate].
    destruct (total_pos_nonempty st Hpos) as (t & y & ry & Et).
    assert (Etz : exists zt, nth_error sents t = Some zt).
    { destruct (nth_error sents t) eqn:E; eauto. apply nth_error_None in E.
      assert (t < length st) by (apply nth_error_Some; congruence). lia. }
    destruct Etz as (zt & Ezt).
    assert (Hext_t : nth_error (with_sentinels st sents) t = Some (y :: ry ++ [zt])).
    { rewrite ws_nth_error by exact L. now rewrite Et, Ezt. }
    destruct l as [|x' r].
    - (* the step would take a sentinel although a real element is smaller *)
      exfalso. simpl in Hn. inversion Hn; subst.
      pose proof (Hmin _ _ _ Hext_t) as C.
      rewrite (Hgt (y :: ry) y x) in C; [discriminate|eapply nth_error_In; eauto|now left|eapply nth_error_In; eauto].
    - simpl in Hn. inversion Hn; subst. exists s, r. split; [exact El|]. split.
      + econstructor; eauto.
        * intros t' y' r' Ht'.
          assert (Etz' : exists zt', nth_error sents t' = Some zt').
          { destruct (nth_error sents t') eqn:E; eauto. apply nth_error_None in E.
            assert (t' < length st) by (apply nth_error_Some; congruence). lia. }
          destruct Etz' as (zt' & Ezt').
          apply (Hmin t' y' (r' ++ [zt'])). rewrite ws_nth_error by exact L. now rewrite Ht', Ezt'.
        * intros Hb t' y' r' Hlt Ht'.
          assert (Etz' : exists zt', nth_error sents t' = Some zt').
          { destruct (nth_error sents t') eqn:E; eauto. apply nth_error_None in E.
            assert (t' < length st) by (apply nth_error_Some; congruence). lia. }
          destruct Etz' as (zt' & Ezt').
          apply (Hst Hb t' y' (r' ++ [zt'])); auto. rewrite ws_nth_error by exact L. now rewrite Ht', Ezt'.
      + symmetry. apply ws_upd. exact Ez.
  Qed.

  Lemma mrun_sentinels b st sents o ext' :
    sent_ok st sents -> mrun b (with_sentinels st sents) o ext' -> length o <= total st ->
    exists st', ext' = with_sentinels st' sents /\ mrun b st o st' /\ sent_ok st' sents.
  Proof.
    intros Hok R. remember (with_sentinels st sents) as ext eqn:Eext. revert st Hok Eext.
    induction R as [ext|ext x ext1 o ext2 MS R IH]; intros st Hok Eext Hlen.
    - exists st. split; [exact Eext|]. split; [constructor|exact Hok].
    - subst ext. simpl in Hlen.
      destruct (mstep_sentinels b st sents x ext1 Hok ltac:(lia) MS) as (s & r & Hn & MS' & E1).
      pose proof (total_upd _ _ _ _ Hn) as Tot.
      destruct (IH (upd s r st)) as (st' & E' & R' & Hok'); auto.
      + eapply sent_ok_upd; eauto.
      + lia.
      + exists st'. split; [exact E'|]. split; [econstructor; eauto|exact Hok'].
  Qed.

  (** The unguarded automata on the extended sequences never read past a sentinel. *)
  Lemma sentinels_safe st sents sz : sent_ok st sents -> sz <= total st -> safe ltb sz (with_sentinels st sents).
  Proof.
    intros Hok Hsz m Hm.
    assert (Tws : total st <= total (with_sentinels st sents)) by (rewrite ws_total by apply Hok; lia).
    destruct (msteps_mrun ltb H m (with_sentinels st sents) ltac:(lia)) as [R L].
    destruct (mrun_sentinels true st sents _ _ Hok R ltac:(lia)) as (st' & E' & _ & _).
    rewrite E'. apply ws_nonempty.
  Qed.

  (** ... and some real head beats the padding key (the sentinel of sequence 0) of the unguarded tree. *)
  Lemma sentinels_ugood b st sents sz z0 :
    sent_ok st sents -> sz <= total st -> nth_error sents 0 = Some z0 ->
    ugood_run ltb b z0 sz (with_sentinels st sents).
  Proof.
    intros Hok Hsz Ez0 o ext' R L.
    destruct (mrun_sentinels b st sents _ _ Hok R ltac:(lia)) as (st' & E' & R' & [L' Hgt']).
    subst ext'. split; [apply ws_nonempty|].
    pose proof (mrun_total ltb _ _ _ _ R') as Tot.
    destruct (total_pos_nonempty st' ltac:(lia)) as (t & y & ry & Et).
    assert (Etz : exists zt, nth_error sents t = Some zt).
    { destruct (nth_error sents t) eqn:E; eauto. apply nth_error_None in E.
      assert (t < length st') by (apply nth_error_Some; congruence). lia. }
    destruct Etz as (zt & Ezt).
    exists t, y, (ry ++ [zt]). split.
    - rewrite ws_nth_error by exact L'. now rewrite Et, Ezt.
    - assert (C : ltb y z0 = true).
      { apply (Hgt' (y :: ry) y z0); [eapply nth_error_In; eauto|now left|eapply nth_error_In; eauto]. }
      unfold beats. destruct b; [apply (swo_asym _ H _ _ C)|exact C].
  Qed.

  Lemma strip_ok (o : list A) (st' : state) sents : length sents = length st' ->
    strip_sentinels (Some (o, with_sentinels st' sents)) = Some (o, st').
  Proof. intros L. unfold strip_sentinels. destruct (ws_strip st' sents L) as [E1 E2]. now rewrite E1, E2. Qed.

  (* -------------------------------------------------------------------------------------------------- *)
  (** * multiway_merge_base *)
  Section Trees.
    Variable GT : Type.
    Variable gt_init : bool -> list (option A) -> GT.
    Variable gt_min : GT -> nat.
    Variable gt_dmi : GT -> option A -> GT.
    Variable grep : bool -> GT -> list (option A) -> Prop.
    Variable gsize : nat -> Prop.
    Hypothesis Gok : gtree_ok ltb gsize gt_init gt_min gt_dmi grep.
    Variable UT : Type.
    Variable ut_init : bool -> A -> list A -> UT.
    Variable ut_min : UT -> option nat.
    Variable ut_dmi : UT -> A -> UT.
    Variable urep : bool -> UT -> A -> list A -> Prop.
    Variable usize : nat -> Prop.
    Variable ukey : A -> A -> Prop.
    Hypothesis Uok : utree_ok ltb usize ukey ut_init ut_min ut_dmi urep.

    Notation base := (mwm_base ltb GT gt_init gt_min gt_dmi UT ut_init ut_min ut_dmi).

    (** The bubble merge enters as a hypothesis here and is discharged in BubbleProofs.v. *)
    Definition bubble_spec : Prop :=
      forall b (st : state) sz, sz <= total st ->
        exists o st', merge_bubble ltb b st sz = Some (o, st') /\ mrun b st o st' /\ length o = sz.
    Hypothesis Hbubble : bubble_spec.

    (** The algorithm actually run, and the side conditions of the trees (only k >= 5 uses a tree): sizes, and
        the keys handed to the unguarded tree may be handed to it. *)
    Definition eff_alg (alg : mwma) (sentinels : bool) : mwma :=
      match alg with MWMA_LOSER_TREE_SENTINEL => if sentinels then alg else MWMA_LOSER_TREE_COMBINED | _ => alg end.

    Definition side_ok (alg : mwma) (sentinels : bool) (st : state) (sents : list A) : Prop :=
      5 <= length st ->
      gsize (length st) /\ usize (length st) /\
      (eff_alg alg sentinels = MWMA_LOSER_TREE_COMBINED ->
         forall sen, last_error (hd [] st) = Some sen -> keys_ok ukey sen st) /\
      (eff_alg alg sentinels = MWMA_LOSER_TREE_SENTINEL ->
         forall z0, hd_error sents = Some z0 -> keys_ok ukey z0 st /\ (forall z, In z sents -> ukey z0 z)).

    Lemma side_ok_trivial alg sentinels st sents :
      (forall n, gsize n) -> (forall n, usize n) -> (forall s x, ukey s x) -> side_ok alg sentinels st sents.
    Proof. intros Hg Hu Hk _. split; [apply Hg|]. split; [apply Hu|]. split; intros; [intros l x _ _; apply Hk|]. split; [intros l x _ _; apply Hk|intros; apply Hk]. Qed.

    Lemma weaken_to b (st : state) o st' : mrun true st o st' -> mrun b st o st'.
    Proof. destruct b; auto. apply mrun_weaken. Qed.

    Lemma sentinel_auto (run : imode -> nat -> state -> res) k (st : state) sents sz :
      (forall md n (s : state), length s = k -> n <= total s -> (md = Unguarded -> safe ltb n s) ->
          exists o s', run md n s = Some (o, s') /\ mrun true s o s' /\ length o = n) ->
      length st = k -> sent_ok st sents -> sz <= total st ->
      exists o st', strip_sentinels (run Unguarded sz (with_sentinels st sents)) = Some (o, st') /\
                    mrun true st o st' /\ length o = sz.
    Proof.
      intros Hrun Lk Hok Hsz.
      assert (Tws : total st <= total (with_sentinels st sents)) by (rewrite ws_total by apply Hok; lia).
      destruct (Hrun Unguarded sz (with_sentinels st sents)) as (o & ext' & E & R & L).
      - rewrite ws_length; [exact Lk|apply Hok].
      - lia.
      - intros _. now apply sentinels_safe.
      - destruct (mrun_sentinels true st sents _ _ Hok R ltac:(lia)) as (st' & E' & R' & [L' _]).
        rewrite E, E', strip_ok by exact L'. eauto.
    Qed.

    Theorem mwm_base_correct stable sentinels alg (st : state) sents sz :
      sorted_state ltb st -> sz <= total st -> (sentinels = true -> sent_ok st sents) ->
      side_ok alg sentinels st sents ->
      exists o st', base stable sentinels alg st sents sz = Some (o, st') /\ mrun stable st o st' /\ length o = sz.
    Proof.
      intros Hs Hsz Hsent Hside. unfold mwm_base.
      set (alg' := match alg with MWMA_LOSER_TREE_SENTINEL => if sentinels then alg else MWMA_LOSER_TREE_COMBINED | _ => alg end).
      destruct st as [|l0 [|l1 [|l2 [|l3 [|l4 rest]]]]].
      - (* k = 0 *)
        unfold StableMerge.total in Hsz. simpl in Hsz. exists [], []. split; [reflexivity|]. split; [apply mrun_nil|simpl; lia].
      - (* k = 1: std::copy *)
        rewrite total_cons in Hsz. unfold StableMerge.total in Hsz. simpl in Hsz.
        rewrite (copyn_spec sz l0) by lia. exists (firstn sz l0), [skipn sz l0]. split; [reflexivity|].
        split; [apply copy1_mrun; auto; lia|rewrite firstn_length; lia].
      - (* k = 2: merge_advance *)
        unfold merge2. simpl nth. rewrite !total_cons in Hsz. unfold StableMerge.total in Hsz. simpl in Hsz.
        destruct (merge_advance_mrun ltb H sz l0 l1 ltac:(lia)) as (o & a & b & E & R & L).
        rewrite E. simpl upd. exists o, [a; b]. split; [reflexivity|]. split; [now apply weaken_to|exact L].
      - (* k = 3 *)
        assert (Hres : exists o st', (match alg' with
                   | MWMA_LOSER_TREE_COMBINED => merge3_combined ltb [l0; l1; l2] sz
                   | MWMA_LOSER_TREE_SENTINEL => strip_sentinels (merge3_variant ltb Unguarded sz (with_sentinels [l0; l1; l2] sents))
                   | _ => merge3_variant ltb Guarded sz [l0; l1; l2] end) = Some (o, st') /\ mrun true [l0; l1; l2] o st' /\ length o = sz).
        { assert (Hg : exists o st', merge3_variant ltb Guarded sz [l0; l1; l2] = Some (o, st') /\ mrun true [l0; l1; l2] o st' /\ length o = sz)
            by (apply (merge3_variant_correct ltb H); auto; discriminate).
          unfold alg'. destruct alg; auto.
          - apply merge3_combined_correct; auto.
          - destruct sentinels.
            + apply (sentinel_auto (merge3_variant ltb) 3); auto. intros md n s. apply (merge3_variant_correct ltb H).
            + apply merge3_combined_correct; auto. }
        destruct Hres as (o & st' & E & R & L). exists o, st'. split; [exact E|]. split; [now apply weaken_to|exact L].
      - (* k = 4 *)
        assert (Hres : exists o st', (match alg' with
                   | MWMA_LOSER_TREE_COMBINED => merge4_combined ltb [l0; l1; l2; l3] sz
                   | MWMA_LOSER_TREE_SENTINEL => strip_sentinels (merge4_variant ltb Unguarded sz (with_sentinels [l0; l1; l2; l3] sents))
                   | _ => merge4_variant ltb Guarded sz [l0; l1; l2; l3] end) = Some (o, st') /\ mrun true [l0; l1; l2; l3] o st' /\ length o = sz).
        { assert (Hg : exists o st', merge4_variant ltb Guarded sz [l0; l1; l2; l3] = Some (o, st') /\ mrun true [l0; l1; l2; l3] o st' /\ length o = sz)
            by (apply (merge4_variant_correct ltb H); auto; discriminate).
          unfold alg'. destruct alg; auto.
          - apply merge4_combined_correct; auto.
          - destruct sentinels.
            + apply (sentinel_auto (merge4_variant ltb) 4); auto. intros md n s. apply (merge4_variant_correct ltb H).
            + apply merge4_combined_correct; auto. }
        destruct Hres as (o & st' & E & R & L). exists o, st'. split; [exact E|]. split; [now apply weaken_to|exact L].
      - (* k >= 5 *)
        set (st := l0 :: l1 :: l2 :: l3 :: l4 :: rest) in *.
        assert (Hne : st <> []) by discriminate.
        destruct (Hside ltac:(simpl; lia)) as (Hgs & Hus & Hkc & Hks).
        assert (Hc : eff_alg alg sentinels = MWMA_LOSER_TREE_COMBINED ->
                     exists o st', merge_lt_combined ltb GT gt_init gt_min gt_dmi UT ut_init ut_min ut_dmi stable st sz = Some (o, st') /\
                                   mrun stable st o st' /\ length o = sz).
        { intros Ea. apply (merge_lt_combined_correct ltb H GT gt_init gt_min gt_dmi grep gsize Gok UT ut_init ut_min ut_dmi urep usize ukey Uok); auto. }
        unfold alg'. unfold eff_alg in Hc, Hks. destruct alg.
        + destruct (merge_lt_correct ltb GT gt_init gt_min gt_dmi grep gsize Gok stable st sz Hgs) as (o & st' & E & R & L).
          exists o, st'. split; [exact E|]. split; [exact R|lia].
        + exact (Hc eq_refl).
        + destruct sentinels; [|exact (Hc eq_refl)].
          specialize (Hsent eq_refl). pose proof Hsent as [Ls Hgt].
          destruct sents as [|z0 sents']; [simpl in Ls; discriminate|].
          unfold merge_lt_sentinel.
          assert (Ews : with_sentinels st (z0 :: sents') = (l0 ++ [z0]) :: with_sentinels (l1 :: l2 :: l3 :: l4 :: rest) sents') by reflexivity.
          assert (Tws : total st <= total (with_sentinels st (z0 :: sents'))) by (rewrite ws_total by exact Ls; lia).
          destruct (Hks eq_refl z0 eq_refl) as [Hkr Hkz].
          destruct (merge_lt_unguarded_correct ltb UT ut_init ut_min ut_dmi urep usize ukey Uok stable (l0 ++ [z0])
                      (with_sentinels (l1 :: l2 :: l3 :: l4 :: rest) sents') sz z0) as (o & ext' & E & R & L).
          * clear. induction l0 as [|x r IH]; [reflexivity|]. simpl. destruct (r ++ [z0]) eqn:Er; [destruct r; discriminate|exact IH].
          * rewrite <- Ews. apply ws_nonempty.
          * rewrite <- Ews. lia.
          * rewrite <- Ews. apply sentinels_ugood; auto.
          * rewrite <- Ews. rewrite ws_length by exact Ls. exact Hus.
          * rewrite <- Ews. intros l x Hl Hx. unfold with_sentinels in Hl. apply in_map_iff in Hl.
            destruct Hl as ([l' z] & <- & Hin). simpl in Hx. apply in_app_or in Hx.
            destruct Hx as [Hx|[<-|[]]]; [apply (Hkr l' x); auto; eapply in_combine_l; eauto|apply Hkz; eapply in_combine_r; eauto].
          * rewrite <- Ews in E, R.
            destruct (mrun_sentinels stable st (z0 :: sents') _ _ Hsent R ltac:(lia)) as (st' & E' & R' & [L' _]).
            rewrite E, E', strip_ok by exact L'. eauto.
        + apply Hbubble. exact Hsz.
    Qed.
  End Trees.
End Base.
