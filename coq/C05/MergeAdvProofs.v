(** C05 — merge_advance (k = 2), std::copy of a single sequence (k = 1), and lifting a run over a state
    with one (empty) sequence removed — used by the *_combined routines. *)
From Coq Require Import List Bool Arith Lia Sorting.Sorted.
From TLXV Require Import Common.Order C05.AutoDefs C05.StableMerge C05.Model C05.MergeFacts.
Import ListNotations.

Section InsertFacts.
  Context {B : Type}.

  Lemma insert_nth_0 (v : B) l : insert_nth 0 v l = v :: l.
  Proof. reflexivity. Qed.

  Lemma insert_nth_S i (v x : B) l : insert_nth (S i) v (x :: l) = x :: insert_nth i v l.
  Proof. reflexivity. Qed.

  Lemma length_insert_nth i (v : B) l : i <= length l -> length (insert_nth i v l) = S (length l).
  Proof.
    unfold insert_nth. intros Hi. rewrite app_length. simpl. rewrite firstn_length, skipn_length. lia.
  Qed.

  Lemma nth_error_insert_lt i t (v : B) l : t < i -> i <= length l -> nth_error (insert_nth i v l) t = nth_error l t.
  Proof.
    revert t l; induction i as [|i IH]; intros t l Ht Hi; [lia|].
    destruct l as [|x l]; simpl in Hi; [lia|]. rewrite insert_nth_S. destruct t as [|t]; simpl; auto. apply IH; lia.
  Qed.

  Lemma nth_error_insert_eq i (v : B) l : i <= length l -> nth_error (insert_nth i v l) i = Some v.
  Proof.
    revert l; induction i as [|i IH]; intros l Hi; [reflexivity|].
    destruct l as [|x l]; simpl in Hi; [lia|]. rewrite insert_nth_S. simpl. apply IH; lia.
  Qed.

  Lemma nth_error_insert_gt i t (v : B) l : i <= t -> i <= length l -> nth_error (insert_nth i v l) (S t) = nth_error l t.
  Proof.
    revert t l; induction i as [|i IH]; intros t l Ht Hi; [reflexivity|].
    destruct l as [|x l]; simpl in Hi; [lia|]. rewrite insert_nth_S. destruct t as [|t]; [lia|]. simpl. apply IH; lia.
  Qed.

  Lemma upd_insert_lt i s (v r : B) l : s < i -> i <= length l -> upd s r (insert_nth i v l) = insert_nth i v (upd s r l).
  Proof.
    revert s l; induction i as [|i IH]; intros s l Hs Hi; [lia|].
    destruct l as [|x l]; simpl in Hi; [lia|]. destruct s as [|s]; simpl; rewrite ?insert_nth_S; auto.
    simpl. f_equal. apply IH; lia.
  Qed.

  Lemma upd_insert_ge i s (v r : B) l : i <= s -> i <= length l -> upd (S s) r (insert_nth i v l) = insert_nth i v (upd s r l).
  Proof.
    revert s l; induction i as [|i IH]; intros s l Hs Hi; [reflexivity|].
    destruct l as [|x l]; simpl in Hi; [lia|]. destruct s as [|s]; [lia|]. simpl. rewrite !insert_nth_S. simpl. f_equal. apply IH; lia.
  Qed.

  Lemma insert_remove_nth i (d : B) l : i < length l -> insert_nth i (nth i l d) (remove_nth i l) = l.
  Proof.
    revert l; induction i as [|i IH]; intros l Hi; destruct l as [|x l]; simpl in Hi; try lia.
    - reflexivity.
    - change (remove_nth (S i) (x :: l)) with (x :: remove_nth i l). rewrite insert_nth_S. simpl. f_equal. apply IH; lia.
  Qed.

  Lemma length_remove_nth i (l : list B) : i < length l -> length (remove_nth i l) = length l - 1.
  Proof.
    unfold remove_nth. intros Hi. rewrite app_length, firstn_length, skipn_length. lia.
  Qed.
End InsertFacts.

Section MergeAdv.
  Context {A : Type}.
  Variable ltb : A -> A -> bool.
  Hypothesis H : SWO ltb.

  Notation state := (list (list A)).
  Notation srel := (sorted_rel ltb).
  Notation mstep := (mstep ltb).
  Notation mrun := (mrun ltb).

  (** A state in which only sequence [s] has elements: the run just copies. *)
  Lemma mrun_single b n : forall (l : list A) (st : state) s,
    nth_error st s = Some l ->
    (forall t l', t <> s -> nth_error st t = Some l' -> l' = []) ->
    n <= length l ->
    mrun b st (firstn n l) (upd s (skipn n l) st).
  Proof.
    induction n as [|n IH]; intros l st s Hs Hoth Hn.
    - simpl. rewrite upd_same by exact Hs. constructor.
    - destruct l as [|x r]; simpl in Hn; [lia|]. simpl.
      assert (MS : mstep b st x (upd s r st)).
      { econstructor; eauto.
        - intros t y r' Ht. destruct (Nat.eq_dec t s) as [->|Ne].
          + rewrite Hs in Ht. inversion Ht; subst. apply (swo_irrefl _ H).
          + pose proof (Hoth _ _ Ne Ht). discriminate.
        - intros _ t y r' Hlt Ht. assert (Ne : t <> s) by lia. pose proof (Hoth _ _ Ne Ht). discriminate. }
      econstructor; [exact MS|].
      assert (Ls : s < length st) by (apply nth_error_Some; congruence).
      specialize (IH r (upd s r st) s). rewrite upd_upd in IH. apply IH.
      + now apply nth_error_upd_eq.
      + intros t l' Ne Ht. rewrite nth_error_upd_neq in Ht by auto. eauto.
      + lia.
  Qed.

  Lemma copyn_spec n (l : list A) : n <= length l -> copyn n l = Some (firstn n l, skipn n l).
  Proof. intros Hn. unfold copyn. apply Nat.leb_le in Hn. now rewrite Hn. Qed.

  (** merge_advance performs the stable merge of its two sequences. *)
  Lemma merge_advance_mrun n : forall l1 l2 : list A,
    n <= length l1 + length l2 ->
    exists o a b, merge_advance ltb n l1 l2 = Some (o, a, b) /\ mrun true [l1; l2] o [a; b] /\ length o = n.
  Proof.
    induction n as [|n IH]; intros l1 l2 Hn.
    - exists [], l1, l2. split; [|split; [constructor|reflexivity]].
      destruct l1, l2; reflexivity.
    - destruct l1 as [|x r1].
      + (* copy from the second *)
        simpl in Hn. exists (firstn (S n) l2), [], (skipn (S n) l2).
        split; [|split].
        * destruct l2 as [|y r2]; simpl in Hn; [lia|].
          change (merge_advance ltb (S n) [] (y :: r2)) with
            (match copyn (S n) (y :: r2) with Some (o, b) => Some (o, @nil A, b) | None => None end).
          rewrite copyn_spec by (simpl; lia). reflexivity.
        * apply (mrun_single true (S n) l2 [[]; l2] 1); auto.
          intros [|[|t]] l' Ne Ht; simpl in Ht; try congruence. destruct t; discriminate.
        * rewrite firstn_length. lia.
      + destruct l2 as [|y r2].
        * exists (firstn (S n) (x :: r1)), (skipn (S n) (x :: r1)), [].
          simpl in Hn. split; [|split].
          -- change (merge_advance ltb (S n) (x :: r1) []) with
               (match copyn (S n) (x :: r1) with Some (o, a) => Some (o, a, @nil A) | None => None end).
             rewrite copyn_spec by (simpl; lia). reflexivity.
          -- apply (mrun_single true (S n) (x :: r1) [x :: r1; []] 0); auto; [|simpl; lia].
             intros [|[|t]] l' Ne Ht; simpl in Ht; try congruence. destruct t; discriminate.
          -- rewrite firstn_length. simpl in *. lia.
        * change (merge_advance ltb (S n) (x :: r1) (y :: r2)) with
            (if ltb y x
             then match merge_advance ltb n (x :: r1) r2 with Some (o, a, b) => Some (y :: o, a, b) | None => None end
             else match merge_advance ltb n r1 (y :: r2) with Some (o, a, b) => Some (x :: o, a, b) | None => None end).
          simpl in Hn. destruct (ltb y x) eqn:C.
          -- destruct (IH (x :: r1) r2) as (o & a & b & E & R & L); [simpl; lia|].
             rewrite E. exists (y :: o), a, b. split; [reflexivity|]. split; [|simpl; lia].
             econstructor; [|exact R].
             apply (mstep_intro ltb true [x :: r1; y :: r2] 1 y r2); [reflexivity| |].
             ++ intros [|[|t]] z r' Ht; simpl in Ht.
                ** inversion Ht; subst. apply (swo_asym _ H _ _ C).
                ** inversion Ht; subst. apply (swo_irrefl _ H).
                ** destruct t; discriminate.
             ++ intros _ [|t] z r' Hlt Ht; [|lia]. simpl in Ht. inversion Ht; subst. exact C.
          -- destruct (IH r1 (y :: r2)) as (o & a & b & E & R & L); [simpl; lia|].
             rewrite E. exists (x :: o), a, b. split; [reflexivity|]. split; [|simpl; lia].
             econstructor; [|exact R].
             apply (mstep_intro ltb true [x :: r1; y :: r2] 0 x r1); [reflexivity| |].
             ++ intros [|[|t]] z r' Ht; simpl in Ht.
                ** inversion Ht; subst. apply (swo_irrefl _ H).
                ** inversion Ht; subst. exact C.
                ** destruct t; discriminate.
             ++ intros _ t z r' Hlt; lia.
  Qed.

  (** std::copy of the only sequence (k = 1). *)
  Lemma copy1_mrun b n (l : list A) : n <= length l -> mrun b [l] (firstn n l) [skipn n l].
  Proof.
    intros Hn. apply (mrun_single b n l [l] 0); auto.
    intros [|t] l' Ne Ht; [congruence|]. destruct t; discriminate.
  Qed.

  (* -------------------------------------------------------------------------------------------------- *)
  (** * A run over the state without its (empty) sequence [i] is a run over the whole state. *)
  Lemma mstep_insert_empty b i (st : state) x st' :
    i <= length st -> mstep b st x st' -> mstep b (insert_nth i [] st) x (insert_nth i [] st').
  Proof.
    intros Hi MS. destruct MS as [st s x r Hn Hmin Hst].
    assert (Big : forall t y r', nth_error (insert_nth i [] st) t = Some (y :: r') ->
                                  exists t0, nth_error st t0 = Some (y :: r') /\ (t = if t0 <? i then t0 else S t0)).
    { intros t y r' Ht. destruct (Nat.lt_trichotomy t i) as [L|[E|L]].
      - rewrite nth_error_insert_lt in Ht by lia. exists t. split; auto. apply Nat.ltb_lt in L. now rewrite L.
      - subst. rewrite nth_error_insert_eq in Ht by lia. discriminate.
      - destruct t as [|t]; [lia|]. rewrite nth_error_insert_gt in Ht by lia. exists t. split; auto.
        assert (E : t <? i = false) by (apply Nat.ltb_ge; lia). now rewrite E. }
    destruct (Nat.ltb s i) eqn:Cs.
    - apply Nat.ltb_lt in Cs. rewrite <- upd_insert_lt by lia.
      econstructor.
      + rewrite nth_error_insert_lt by lia. exact Hn.
      + intros t y r' Ht. destruct (Big _ _ _ Ht) as (t0 & Ht0 & _). eauto.
      + intros Hb t y r' Hlt Ht. destruct (Big _ _ _ Ht) as (t0 & Ht0 & Et). eapply (Hst Hb t0); eauto.
        destruct (t0 <? i) eqn:C; subst; lia.
    - apply Nat.ltb_ge in Cs. rewrite <- upd_insert_ge by lia.
      econstructor.
      + rewrite nth_error_insert_gt by lia. exact Hn.
      + intros t y r' Ht. destruct (Big _ _ _ Ht) as (t0 & Ht0 & _). eauto.
      + intros Hb t y r' Hlt Ht. destruct (Big _ _ _ Ht) as (t0 & Ht0 & Et). eapply (Hst Hb t0); eauto.
        destruct (t0 <? i) eqn:C; subst; [apply Nat.ltb_lt in C|apply Nat.ltb_ge in C]; lia.
  Qed.

  Lemma mrun_insert_empty b i (st : state) o st' :
    i <= length st -> mrun b st o st' -> mrun b (insert_nth i [] st) o (insert_nth i [] st').
  Proof.
    intros Hi R. induction R as [|st x st1 o st2 MS R IH]; [constructor|].
    econstructor; [eapply mstep_insert_empty; eauto|]. apply IH.
    destruct MS. now rewrite length_upd.
  Qed.

  (** Run on all sequences but the empty [i]-th. *)
  Lemma mrun_remove_empty b i (st : state) o om :
    i < length st -> nth i st [] = [] ->
    mrun b (remove_nth i st) o om ->
    mrun b st o (insert_nth i [] om).
  Proof.
    intros Hi He R.
    assert (Li : i <= length (remove_nth i st)) by (rewrite length_remove_nth by lia; lia).
    pose proof (mrun_insert_empty b i _ _ _ Li R) as R'.
    rewrite <- He in R' at 1. rewrite insert_remove_nth in R' by lia. exact R'.
  Qed.
End MergeAdv.
