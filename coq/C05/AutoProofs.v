(** C05 — generic simulation lemma for the generated 3-way / 4-way merge automata.

    A label [l] (a permutation of the sequence indices) means: the heads are in STABLE order along [l]
    ([prec hs l_0 l_1], [prec hs l_1 l_2], ...), where [prec] orders heads by key, then by sequence index,
    exhausted sequences last.  [check_table] is a finite boolean condition on the table:
      - every comparison [seq_i op seq_j] has the stable form ([<=] iff i < j), so that its value is [prec hs i j];
      - for every order [sigma] of the heads the initial decision tree arrives at label [sigma];
      - for every row (a :: rest) and every place where the advanced sequence [a] may belong among [rest], the
        row's decision code arrives at exactly that label, and the label has a row.
    [auto_merge_correct]: a table passing the check performs the stable merge, guarded for every input, unguarded
    as long as no sequence runs empty before the last step.  The check is discharged for the generated tables by
    [vm_compute] in AutoSweep.v. *)
From Coq Require Import List Bool Arith Lia Sorting.Sorted.
From TLXV Require Import Common.Order C05.AutoDefs C05.StableMerge C05.Model C05.MergeFacts C05.MergeAdvProofs.
Import ListNotations.

(* ---------------------------------------------------------------------------------------------------- *)
(** * The check (pure data, no element type) *)
Definition mem (i : nat) (l : list nat) : bool := existsb (Nat.eqb i) l.

(** [i] occurs before [j] in [sigma]. *)
Fixpoint before (sigma : list nat) (i j : nat) : bool :=
  match sigma with
  | [] => false
  | x :: r => if Nat.eqb x i then mem j r else if Nat.eqb x j then false else before r i j
  end.

Definition stable_test (i : nat) (op : cmpop) (j : nat) : bool :=
  match op with OpLe => i <? j | OpLt => j <? i end.

(** Decision code evaluated on an abstract order of the heads. *)
Fixpoint eval_ord (sigma : list nat) (d : dtree) : option (list nat) :=
  match d with
  | Goto l => Some l
  | Test i op j y n =>
      if stable_test i op j && mem i sigma && mem j sigma
      then if before sigma i j then eval_ord sigma y else eval_ord sigma n
      else None
  end.

Fixpoint all_vectors (k n : nat) : list (list nat) :=
  match n with
  | 0 => [[]]
  | S n' => flat_map (fun v => map (fun x => x :: v) (seq 0 k)) (all_vectors k n')
  end.

Fixpoint nodupb (l : list nat) : bool :=
  match l with [] => true | x :: r => negb (mem x r) && nodupb r end.

Definition arrives (t : table) (sigma : list nat) (d : dtree) : bool :=
  match eval_ord sigma d with Some l => list_eqb l sigma | None => false end && is_some (lookup sigma t).

Definition check_init (k : nat) (t : table) (init : dtree) : bool :=
  forallb (fun sigma => if nodupb sigma then arrives t sigma init else true) (all_vectors k k).

Definition check_row (t : table) (row : list nat * dtree) : bool :=
  match fst row with
  | [] => false
  | a :: rest => forallb (fun p => arrives t (insert_nth p a rest) (snd row)) (seq 0 (S (length rest)))
  end.

Definition bad_rows (t : table) : list (list nat) := map fst (filter (fun row => negb (check_row t row)) t).

Definition check_table (k : nat) (t : table) (init : dtree) : bool :=
  check_init k t init && forallb (check_row t) t.

Lemma check_table_intro k t init : check_init k t init = true -> bad_rows t = [] -> check_table k t init = true.
Proof.
  intros Hi Hb. unfold check_table. rewrite Hi. simpl. unfold bad_rows in Hb. apply map_eq_nil in Hb.
  apply forallb_forall. intros row Hr. destruct (check_row t row) eqn:C; auto.
  assert (In row (filter (fun row => negb (check_row t row)) t)) by (apply filter_In; rewrite C; auto).
  rewrite Hb in *. contradiction.
Qed.

(* ---------------------------------------------------------------------------------------------------- *)
(** * Facts about the data-level functions *)
Lemma mem_In i l : mem i l = true <-> In i l.
Proof.
  unfold mem. rewrite existsb_exists. split.
  - intros (x & Hx & E). apply Nat.eqb_eq in E. now subst.
  - intros Hi. exists i. split; auto. apply Nat.eqb_refl.
Qed.

Lemma list_eqb_eq a b : list_eqb a b = true -> a = b.
Proof.
  revert b; induction a as [|x a IH]; intros [|y b]; simpl; try discriminate; auto.
  rewrite andb_true_iff, Nat.eqb_eq. intros [-> E]. f_equal; auto.
Qed.

Lemma list_eqb_refl a : list_eqb a a = true.
Proof. induction a; simpl; auto. now rewrite Nat.eqb_refl. Qed.

Lemma lookup_In l t d : lookup l t = Some d -> In (l, d) t.
Proof.
  induction t as [|[l' d'] t IH]; simpl; [discriminate|].
  destruct (list_eqb l l') eqn:E.
  - intros Hd. inversion Hd; subst. apply list_eqb_eq in E. subst. now left.
  - intros Hd. right. auto.
Qed.

Lemma in_all_vectors k n v : length v = n -> Forall (fun x => x < k) v -> In v (all_vectors k n).
Proof.
  revert v; induction n as [|n IH]; intros [|x v] L F; simpl in *; try lia; auto.
  inversion F; subst. apply in_flat_map. exists v. split; [apply IH; auto; lia|].
  apply (in_map (fun x0 => x0 :: v)). apply in_seq. lia.
Qed.

Lemma nodupb_NoDup l : NoDup l -> nodupb l = true.
Proof.
  induction 1 as [|x l Hx Hn IH]; simpl; auto. rewrite IH, andb_true_r.
  destruct (mem x l) eqn:E; auto. apply mem_In in E. contradiction.
Qed.

Section BeforeSorted.
  Variable R : nat -> nat -> Prop.

  Lemma before_sorted sigma i j : StronglySorted R sigma -> before sigma i j = true -> R i j.
  Proof.
    induction 1 as [|x r Hs IH Hf]; simpl; [discriminate|].
    destruct (Nat.eqb x i) eqn:E1.
    - apply Nat.eqb_eq in E1. subst. intros Hm. apply mem_In in Hm. rewrite Forall_forall in Hf. auto.
    - destruct (Nat.eqb x j); [discriminate|]. auto.
  Qed.

  Lemma before_false_sorted sigma i j :
    StronglySorted R sigma -> In i sigma -> In j sigma -> i <> j -> before sigma i j = false -> R j i.
  Proof.
    induction 1 as [|x r Hs IH Hf]; simpl; [contradiction|].
    intros Hi Hj Ne. destruct (Nat.eqb x i) eqn:E1.
    - apply Nat.eqb_eq in E1. subst. intros Hm. destruct Hj as [Hj|Hj]; [congruence|].
      apply mem_In in Hj. congruence.
    - apply Nat.eqb_neq in E1. destruct (Nat.eqb x j) eqn:E2.
      + apply Nat.eqb_eq in E2. subst. intros _. destruct Hi as [Hi|Hi]; [congruence|].
        rewrite Forall_forall in Hf. auto.
      + apply Nat.eqb_neq in E2. intros Hb. apply IH; auto.
        * destruct Hi; [congruence|auto].
        * destruct Hj; [congruence|auto].
  Qed.

  Lemma StronglySorted_NoDup sigma : (forall x, ~ R x x) -> StronglySorted R sigma -> NoDup sigma.
  Proof.
    intros Hirr. induction 1 as [|x r Hs IH Hf]; constructor; auto.
    intros Hx. rewrite Forall_forall in Hf. exact (Hirr _ (Hf _ Hx)).
  Qed.
End BeforeSorted.

Lemma StronglySorted_ext_in (R R' : nat -> nat -> Prop) l :
  (forall i j, In i l -> In j l -> R i j -> R' i j) -> StronglySorted R l -> StronglySorted R' l.
Proof.
  intros Hext Hs. induction Hs as [|x r Hs IH Hf]; constructor.
  - apply IH. intros i j Hi Hj. apply Hext; now right.
  - rewrite Forall_forall in *. intros y Hy. apply Hext; [now left|now right|auto].
Qed.

(** Sorted insertion w.r.t. a boolean relation. *)
Section SInsert.
  Variable rb : nat -> nat -> bool.
  Notation R := (fun i j => rb i j = true).

  Fixpoint sinsert (a : nat) (l : list nat) : list nat :=
    match l with
    | [] => [a]
    | x :: r => if rb a x then a :: x :: r else x :: sinsert a r
    end.

  Lemma sinsert_pos a l : exists p, p <= length l /\ sinsert a l = insert_nth p a l.
  Proof.
    induction l as [|x r IH]; simpl.
    - exists 0. split; auto.
    - destruct (rb a x).
      + exists 0. split; [lia|reflexivity].
      + destruct IH as (p & Hp & E). exists (S p). split; [lia|]. rewrite insert_nth_S. now rewrite E.
  Qed.

  Lemma sinsert_In a l y : In y (sinsert a l) <-> y = a \/ In y l.
  Proof.
    induction l as [|x r IH]; simpl; [intuition|].
    destruct (rb a x); simpl; rewrite ?IH; intuition.
  Qed.

  Lemma sinsert_sorted a l :
    (forall x, In x l -> rb a x = false -> rb x a = true) ->
    (forall x y, In x l -> In y l -> rb a x = true -> rb x y = true -> rb a y = true) ->
    StronglySorted R l -> StronglySorted R (sinsert a l).
  Proof.
    intros Htot Htr Hs. induction Hs as [|x r Hs IH Hf]; simpl.
    - repeat constructor.
    - destruct (rb a x) eqn:C.
      + constructor; [constructor; auto|]. constructor; auto.
        rewrite Forall_forall in *. intros y Hy. apply (Htr x y); simpl; auto.
      + constructor.
        * apply IH.
          -- intros y Hy. apply Htot. now right.
          -- intros y z Hy Hz. apply Htr; now right.
        * rewrite Forall_forall in *. intros y Hy. apply sinsert_In in Hy. destruct Hy as [->|Hy]; auto.
          apply Htot; simpl; auto.
  Qed.

  Lemma sinsert_length a l : length (sinsert a l) = S (length l).
  Proof. induction l as [|x r IH]; simpl; auto. destruct (rb a x); simpl; auto. Qed.

  Definition isort (l : list nat) : list nat := fold_right sinsert [] l.

  Lemma isort_In l y : In y (isort l) <-> In y l.
  Proof. induction l as [|a l IH]; simpl; [tauto|]. rewrite sinsert_In, IH. intuition. Qed.

  Lemma isort_length l : length (isort l) = length l.
  Proof. induction l as [|a l IH]; simpl; auto. now rewrite sinsert_length, IH. Qed.

  Lemma isort_sorted l :
    (forall x y, x <> y -> rb x y = false -> rb y x = true) ->
    (forall x y z, rb x y = true -> rb y z = true -> rb x z = true) ->
    NoDup l -> StronglySorted R (isort l).
  Proof.
    intros Htot Htr Nd. induction Nd as [|a l Ha Nd IH]; simpl; [constructor|].
    apply sinsert_sorted; auto.
    - intros x Hx. apply Htot. intros ->. apply (proj1 (isort_In _ _)) in Hx. contradiction.
    - intros x y _ _. apply Htr.
  Qed.
End SInsert.

(* ---------------------------------------------------------------------------------------------------- *)
(** * Soundness of the check *)
Section Auto.
  Context {A : Type}.
  Variable ltb : A -> A -> bool.
  Hypothesis H : SWO ltb.

  Notation state := (list (list A)).
  Notation mstep := (mstep ltb).
  Notation mrun := (mrun ltb).

  (** The stable order of two heads; exhausted sequences last (among them: larger index first, which is what
      [sup < sup = true] and [sup <= sup = false] amount to for stable-form tests). *)
  Definition prec (hs : list (option A)) (i j : nat) : bool :=
    match nth i hs None, nth j hs None with
    | Some x, Some y => ltb x y || (negb (ltb y x) && (i <? j))
    | Some _, None => true
    | None, Some _ => false
    | None, None => j <? i
    end.

  Lemma prec_irrefl hs i : prec hs i i = false.
  Proof.
    unfold prec. destruct (nth i hs None); [|apply Nat.ltb_irrefl].
    rewrite (swo_irrefl _ H), Nat.ltb_irrefl. reflexivity.
  Qed.

  Lemma prec_asym hs i j : prec hs i j = true -> prec hs j i = false.
  Proof.
    unfold prec. destruct (nth i hs None) as [x|], (nth j hs None) as [y|]; try congruence; auto.
    - rewrite orb_true_iff, andb_true_iff, negb_true_iff, Nat.ltb_lt. intros [C|[C L]].
      + rewrite (swo_asym _ H _ _ C), C. reflexivity.
      + rewrite C. simpl. assert (E : j <? i = false) by (apply Nat.ltb_ge; lia). rewrite E. apply andb_false_r.
    - rewrite Nat.ltb_lt. intros L. apply Nat.ltb_ge. lia.
  Qed.

  Lemma prec_total hs i j : i <> j -> prec hs i j = false -> prec hs j i = true.
  Proof.
    unfold prec. intros Ne. destruct (nth i hs None) as [x|], (nth j hs None) as [y|]; try congruence; auto.
    - rewrite orb_false_iff, andb_false_iff, negb_false_iff, Nat.ltb_ge. intros [C [D|D]].
      + now rewrite D.
      + rewrite C. simpl. assert (E : j <? i = true) by (apply Nat.ltb_lt; lia). rewrite E.
        destruct (ltb y x); reflexivity.
    - rewrite Nat.ltb_ge. intros L. apply Nat.ltb_lt. lia.
  Qed.

  Lemma prec_trans hs i j k : prec hs i j = true -> prec hs j k = true -> prec hs i k = true.
  Proof.
    unfold prec. destruct (nth i hs None) as [x|], (nth j hs None) as [y|], (nth k hs None) as [z|]; try congruence; auto.
    - rewrite !orb_true_iff, !andb_true_iff, !negb_true_iff, !Nat.ltb_lt.
      intros [C1|[C1 L1]] [C2|[C2 L2]].
      + left. eapply (swo_trans _ H); eauto.
      + left. apply (ltb_leb_trans _ H x y z C1). unfold leb. now rewrite C2.
      + left. apply (leb_ltb_trans _ H x y z); auto. unfold leb. now rewrite C1.
      + destruct (ltb x z) eqn:C3; auto. right. split; [|lia].
        assert (L : leb ltb x z = true).
        { apply (leb_trans _ H x y z); unfold leb; [now rewrite C1|now rewrite C2]. }
        unfold leb in L. now apply negb_true_iff in L.
    - rewrite !Nat.ltb_lt. lia.
  Qed.

  Lemma prec_upd_other hs a v i j : i <> a -> j <> a -> prec (upd a v hs) i j = prec hs i j.
  Proof. intros Hi Hj. unfold prec. now rewrite !nth_upd_neq by auto. Qed.

  Lemma nth_heads (st : state) i : nth i (heads st) None = hd_error (nth i st []).
  Proof. unfold heads. change (@None A) with (hd_error (@nil A)). apply map_nth. Qed.

  (** A comparison in stable form evaluates to [prec]. *)
  Lemma cmp_guarded_prec hs i op j :
    stable_test i op j = true ->
    cmp_heads ltb Guarded op (nth i hs None) (nth j hs None) = Some (prec hs i j).
  Proof.
    unfold prec, stable_test. destruct op; rewrite Nat.ltb_lt; intros L; simpl.
    - (* OpLt, j < i *)
      assert (E : i <? j = false) by (apply Nat.ltb_ge; lia).
      destruct (nth i hs None) as [x|], (nth j hs None) as [y|]; simpl; auto.
      + rewrite E, andb_false_r, orb_false_r. reflexivity.
      + assert (E' : j <? i = true) by (apply Nat.ltb_lt; lia). now rewrite E'.
    - (* OpLe, i < j *)
      assert (E : i <? j = true) by (apply Nat.ltb_lt; lia).
      destruct (nth i hs None) as [x|], (nth j hs None) as [y|]; simpl; auto.
      + rewrite E, andb_true_r. destruct (ltb x y) eqn:C; simpl; auto. now rewrite (swo_asym _ H _ _ C).
      + assert (E' : j <? i = false) by (apply Nat.ltb_ge; lia). now rewrite E'.
  Qed.

  Lemma cmp_unguarded_guarded op (x y : A) :
    cmp_heads ltb Unguarded op (Some x) (Some y) = cmp_heads ltb Guarded op (Some x) (Some y).
  Proof. destruct op; reflexivity. Qed.

  Definition P (hs : list (option A)) : nat -> nat -> Prop := fun i j => prec hs i j = true.

  Lemma eval_ord_sound md hs sigma d l :
    StronglySorted (P hs) sigma ->
    (md = Unguarded -> forall i, In i sigma -> nth i hs None <> None) ->
    eval_ord sigma d = Some l -> eval_dtree ltb md hs d = Some l.
  Proof.
    intros Hs Hu. induction d as [l0|i op j y IHy n IHn]; simpl; auto.
    destruct (stable_test i op j) eqn:St; simpl; [|discriminate].
    destruct (mem i sigma) eqn:Mi; simpl; [|discriminate].
    destruct (mem j sigma) eqn:Mj; simpl; [|discriminate].
    apply mem_In in Mi, Mj.
    assert (Ne : i <> j).
    { unfold stable_test in St. destruct op; apply Nat.ltb_lt in St; lia. }
    assert (Ev : cmp_heads ltb md op (nth i hs None) (nth j hs None) = Some (before sigma i j)).
    { assert (Eg : cmp_heads ltb Guarded op (nth i hs None) (nth j hs None) = Some (before sigma i j)).
      { rewrite cmp_guarded_prec by exact St. f_equal.
        destruct (before sigma i j) eqn:B.
        - exact (before_sorted _ _ _ _ Hs B).
        - apply prec_asym. exact (before_false_sorted _ _ _ _ Hs Mi Mj Ne B). }
      destruct md; auto.
      pose proof (Hu eq_refl _ Mi) as Ni. pose proof (Hu eq_refl _ Mj) as Nj.
      destruct (nth i hs None) as [x|]; [|congruence]. destruct (nth j hs None) as [z|]; [|congruence].
      now rewrite cmp_unguarded_guarded. }
    rewrite Ev. destruct (before sigma i j); auto.
  Qed.

  (** No sequence runs empty during the first [n - 1] steps of the stable merge. *)
  Definition safe (n : nat) (st : state) : Prop :=
    forall m, m < n -> Forall (fun l => l <> []) (snd (msteps ltb m st)).

  Lemma safe_step n st x st1 : mstep true st x st1 -> safe (S n) st -> safe n st1.
  Proof.
    intros MS Hs m Hm. specialize (Hs (S m) ltac:(lia)). rewrite (msteps_S ltb H m st x st1 MS) in Hs. exact Hs.
  Qed.

  Section Table.
    Variable k : nat.
    Variable t : table.
    Variable init : dtree.
    Hypothesis Hcheck : check_table k t init = true.

    Definition Inv (lab : list nat) (st : state) : Prop :=
      StronglySorted (P (heads st)) lab /\ (forall i, In i lab <-> i < k).

    Lemma heads_nonempty (st : state) : length st = k -> Forall (fun l => l <> []) st ->
      forall i, i < k -> nth i (heads st) None <> None.
    Proof.
      intros Lk Hf i Hi. rewrite nth_heads. rewrite Forall_forall in Hf.
      assert (Hin : In (nth i st []) st) by (apply nth_In; lia).
      specialize (Hf _ Hin). destruct (nth i st []); [congruence|discriminate].
    Qed.

    Lemma auto_run_correct md sz : forall lab (st : state),
      length st = k -> Inv lab st -> is_some (lookup lab t) = true -> sz <= total st ->
      (md = Unguarded -> safe sz st) ->
      exists o st', auto_run ltb t md sz lab st = Some (o, st') /\ mrun true st o st' /\ length o = sz.
    Proof.
      induction sz as [|sz IH]; intros lab st Lk [Hs Hperm] Hlab Hsz Hsafe.
      - exists [], st. split; [reflexivity|]. split; [constructor|reflexivity].
      - destruct lab as [|a rest].
        { exfalso. destruct (total_pos_nonempty st ltac:(lia)) as (s & x & r & Hn).
          assert (s < k) by (rewrite <- Lk; apply nth_error_Some; congruence).
          apply (proj2 (Hperm s)) in H0. destruct H0. }
        inversion Hs as [|? ? Hs_rest Hf_a]; subst.
        rewrite Forall_forall in Hf_a.
        assert (Ha : a < k) by (apply Hperm; now left).
        (* the first sequence of the label is live *)
        assert (Hlive : exists x r, nth_error st a = Some (x :: r)).
        { destruct (total_pos_nonempty st ltac:(lia)) as (s & y & r' & Hn).
          assert (Hsk : s < k) by (rewrite <- Lk; apply nth_error_Some; congruence).
          destruct (nth_error st a) as [[|x r]|] eqn:Ea.
          - exfalso. apply Hperm in Hsk. destruct Hsk as [->|Hin]; [congruence|].
            pose proof (Hf_a _ Hin) as Pr. unfold P, prec in Pr.
            rewrite !nth_heads, (nth_error_nth_default _ _ _ [] Ea), (nth_error_nth_default _ _ _ [] Hn) in Pr.
            simpl in Pr. discriminate.
          - eauto.
          - apply nth_error_None in Ea. lia. }
        destruct Hlive as (x & r & Ea).
        assert (Hx : nth a (heads st) None = Some x) by (rewrite nth_heads, (nth_error_nth_default _ _ _ [] Ea); reflexivity).
        assert (MS : mstep true st x (upd a r st)).
        { econstructor; eauto.
          - intros s y r' Hn.
            assert (Hsk : s < k) by (rewrite <- Lk; apply nth_error_Some; congruence).
            apply Hperm in Hsk. destruct Hsk as [<-|Hin].
            + rewrite Ea in Hn. inversion Hn; subst. apply (swo_irrefl _ H).
            + pose proof (Hf_a _ Hin) as Pr. unfold P, prec in Pr. rewrite Hx in Pr.
              rewrite nth_heads, (nth_error_nth_default _ _ _ [] Hn) in Pr. simpl in Pr.
              destruct (ltb x y) eqn:C; [apply (swo_asym _ H _ _ C)|].
              simpl in Pr. apply andb_true_iff in Pr. destruct Pr as [Pr _]. now apply negb_true_iff in Pr.
          - intros _ s y r' Hlt Hn.
            assert (Hsk : s < k) by (rewrite <- Lk; apply nth_error_Some; congruence).
            apply Hperm in Hsk. destruct Hsk as [<-|Hin]; [lia|].
            pose proof (Hf_a _ Hin) as Pr. unfold P, prec in Pr. rewrite Hx in Pr.
            rewrite nth_heads, (nth_error_nth_default _ _ _ [] Hn) in Pr. simpl in Pr.
            assert (E : a <? s = false) by (apply Nat.ltb_ge; lia). rewrite E, andb_false_r, orb_false_r in Pr. exact Pr. }
        pose proof (total_upd _ _ _ _ Ea) as Tot.
        cbn [auto_run]. rewrite Ea.
        destruct sz as [|sz'].
        { exists [x], (upd a r st). split; [reflexivity|]. split; [|reflexivity].
          econstructor; [exact MS|constructor]. }
        set (st1 := upd a r st) in *.
        set (hs1 := heads st1).
        assert (Ehs1 : hs1 = upd a (hd_error r) (heads st)).
        { unfold hs1, st1, heads. now rewrite map_upd. }
        assert (Nd : NoDup (a :: rest)).
        { apply (StronglySorted_NoDup (P (heads st))); auto. intros z Hz. unfold P in Hz. now rewrite prec_irrefl in Hz. }
        inversion Nd as [|? ? Hna Nd_rest]; subst.
        (* rest is still in order w.r.t. the new heads *)
        assert (Hs_rest1 : StronglySorted (P hs1) rest).
        { eapply StronglySorted_ext_in; [|exact Hs_rest]. intros i j Hi Hj. unfold P. rewrite Ehs1.
          rewrite prec_upd_other; auto; intros ->; contradiction. }
        destruct (sinsert_pos (prec hs1) a rest) as (p & Hp & Epos).
        set (sigma := insert_nth p a rest) in *.
        assert (Hs_sigma : StronglySorted (P hs1) sigma).
        { rewrite <- Epos. apply (sinsert_sorted (prec hs1)); auto.
          - intros z Hz. apply prec_total. intros ->. contradiction.
          - intros y z _ _. apply prec_trans. }
        assert (Hperm_sigma : forall i, In i sigma <-> i < k).
        { intros i. rewrite <- Epos, sinsert_In. rewrite <- Hperm. simpl. intuition. }
        (* the row of the label *)
        pose proof Hcheck as Hc. unfold check_table in Hc. apply andb_true_iff in Hc. destruct Hc as [_ Hrows].
        pose proof (proj1 (forallb_forall _ _) Hrows) as Hrows'. clear Hrows. rename Hrows' into Hrows.
        assert (Hrow : forall d, lookup (a :: rest) t = Some d -> arrives t sigma d = true).
        { intros d Hd. apply lookup_In in Hd. specialize (Hrows _ Hd). unfold check_row in Hrows. cbn [fst snd] in Hrows.
          rewrite forallb_forall in Hrows. apply Hrows. apply in_seq. lia. }
        destruct (lookup (a :: rest) t) as [d|] eqn:Hd; [|simpl in Hlab; discriminate].
        specialize (Hrow d eq_refl). unfold arrives in Hrow. apply andb_true_iff in Hrow. destruct Hrow as [Hev Hlk].
        destruct (eval_ord sigma d) as [l|] eqn:Eo; [|discriminate]. apply list_eqb_eq in Hev. subst l.
        assert (Hsafe1 : md = Unguarded -> safe (S sz') st1) by (intros E; eapply safe_step; eauto).
        assert (Hev : eval_dtree ltb md hs1 d = Some sigma).
        { eapply eval_ord_sound; eauto. intros E i Hi. apply Hperm_sigma in Hi.
          apply heads_nonempty; auto; [unfold st1; now rewrite length_upd|].
          specialize (Hsafe E 1 ltac:(lia)). rewrite (msteps_S ltb H 0 st x st1 MS) in Hsafe. exact Hsafe. }
        fold st1. fold hs1. rewrite Hev.
        destruct (IH sigma st1) as (o & st' & E & R & L).
        + unfold st1. now rewrite length_upd.
        + split; auto.
        + exact Hlk.
        + lia.
        + exact Hsafe1.
        + rewrite E. exists (x :: o), st'. split; [reflexivity|]. split; [econstructor; eauto|simpl; lia].
    Qed.

    (** multiway_merge_{3,4}_variant: guarded for every input, unguarded while no sequence runs empty. *)
    Theorem auto_merge_correct md sz (st : state) :
      length st = k -> sz <= total st ->
      (md = Unguarded -> safe sz st) ->
      exists o st', auto_merge ltb t init md sz st = Some (o, st') /\ mrun true st o st' /\ length o = sz.
    Proof.
      intros Lk Hsz Hsafe. destruct sz as [|sz'].
      { exists [], st. split; [reflexivity|]. split; [constructor|reflexivity]. }
      set (hs := heads st).
      set (sigma := isort (prec hs) (seq 0 k)).
      assert (Hs : StronglySorted (P hs) sigma).
      { apply (isort_sorted (prec hs)).
        - intros x y. apply prec_total.
        - intros x y z. apply prec_trans.
        - apply seq_NoDup. }
      assert (Hperm : forall i, In i sigma <-> i < k).
      { intros i. unfold sigma. rewrite isort_In, in_seq. lia. }
      assert (Nd : NoDup sigma).
      { apply (StronglySorted_NoDup (P hs)); auto. intros z Hz. unfold P in Hz. now rewrite prec_irrefl in Hz. }
      assert (Hin : In sigma (all_vectors k k)).
      { apply in_all_vectors.
        - unfold sigma. now rewrite isort_length, seq_length.
        - apply Forall_forall. intros x Hx. now apply Hperm. }
      pose proof Hcheck as Hc. unfold check_table in Hc. apply andb_true_iff in Hc. destruct Hc as [Hinit _].
      unfold check_init in Hinit. pose proof (proj1 (forallb_forall _ _) Hinit _ Hin) as Harr. cbv beta in Harr.
      rewrite (nodupb_NoDup _ Nd) in Harr. unfold arrives in Harr. apply andb_true_iff in Harr. destruct Harr as [Hev Hlk].
      destruct (eval_ord sigma init) as [l|] eqn:Eo; [|discriminate]. apply list_eqb_eq in Hev. subst l.
      assert (Hev : eval_dtree ltb md hs init = Some sigma).
      { eapply eval_ord_sound; eauto. intros E i Hi. apply Hperm in Hi. apply heads_nonempty; auto.
        exact (Hsafe E 0 ltac:(lia)). }
      unfold auto_merge. fold hs. rewrite Hev.
      apply auto_run_correct; auto. split; auto.
    Qed.
  End Table.
End Auto.
