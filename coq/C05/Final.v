(** C05 — final statements: every entry point x algorithm x stable/unstable x sentinels/none. *)
From Coq Require Import List Bool Arith Lia Sorting.Sorted Sorting.Permutation.
From TLXV Require Import Common.Order C05.AutoDefs C05.StableMerge C05.Model C05.MergeFacts C05.MergeAdvProofs
     C05.AutoProofs C05.AutoSweep C05.LoserLoopProofs C05.UnguardedProofs C05.CombinedProofs C05.BaseProofs
     C05.BubbleProofs C05.RefTreeProofs.
Import ListNotations.

Section Final.
  Context {A : Type}.
  Variable ltb : A -> A -> bool.
  Hypothesis H : SWO ltb.

  Notation state := (list (list A)).

  (** every input sequence is sorted by the comparator *)
  Definition inputs_ok (st : state) : Prop := Forall (fun l => sortedb ltb l = true) st.

  Lemma inputs_ok_sorted st : inputs_ok st -> sorted_state ltb st.
  Proof.
    unfold inputs_ok, sorted_state. apply Forall_impl. intros l Hl.
    apply (Sorted_StronglySorted ltb H). now apply sortedb_Sorted.
  Qed.

  (** [msteps n] is a prefix of the complete stable merge. *)
  Lemma msteps_firstn n : forall st : state, n <= total st ->
    fst (msteps ltb n st) = firstn n (gmerge ltb st).
  Proof.
    unfold gmerge. induction n as [|n IH]; intros st Hn; [reflexivity|].
    destruct (msteps_mrun ltb H 1 st ltac:(lia)) as [R1 _].
    simpl in R1. destruct (spick ltb st) as [[s x]|] eqn:E; [|pose proof (spick_none ltb _ E); lia].
    pose proof (spick_mstep ltb H _ _ _ E) as MS.
    destruct (spick_spec ltb H _ _ _ E) as (r & Hr & _).
    assert (T : total st = S (total (adv s st))).
    { unfold adv. rewrite (nth_error_nth_default _ _ _ [] Hr). simpl. eapply total_upd; eauto. }
    rewrite (msteps_S ltb H n st x _ MS). rewrite T. rewrite (msteps_S ltb H (total (adv s st)) st x _ MS).
    simpl. f_equal. apply IH. lia.
  Qed.

  Section Trees.
    Variable GT : Type.
    Variable gt_init : bool -> list (option A) -> GT.
    Variable gt_min : GT -> nat.
    Variable gt_dmi : GT -> option A -> GT.
    Variable grep : bool -> GT -> list (option A) -> Prop.
    Variable gsize : nat -> Prop.
    Hypothesis Gok : gtree_ok ltb gsize gt_init gt_min gt_dmi grep.
    Variable UT : Type.
    Variable ut_init : bool -> A -> list A -> UT.
    Variable ut_min : UT -> option nat.
    Variable ut_dmi : UT -> A -> UT.
    Variable urep : bool -> UT -> A -> list A -> Prop.
    Variable usize : nat -> Prop.
    Variable ukey : A -> A -> Prop.
    Hypothesis Uok : utree_ok ltb usize ukey ut_init ut_min ut_dmi urep.

    Notation base := (mwm_base ltb GT gt_init gt_min gt_dmi UT ut_init ut_min ut_dmi).

    (** Every variant performs a merge run of exactly [len] steps (stable run for the stable entry points). *)
    Theorem mwm_run stable sentinels alg (st : state) sents len :
      inputs_ok st -> len <= total st -> (sentinels = true -> sent_ok ltb st sents) ->
      side_ok gsize usize ukey alg sentinels st sents ->
      exists out st', base stable sentinels alg st sents len = Some (out, st') /\
                      mrun ltb stable st out st' /\ length out = len.
    Proof.
      intros Hin Hlen Hsent Hside.
      apply (mwm_base_correct ltb H GT gt_init gt_min gt_dmi grep gsize Gok UT ut_init ut_min ut_dmi urep usize ukey Uok); auto.
      - intros b s n. apply (merge_bubble_correct ltb H).
      - now apply inputs_ok_sorted.
    Qed.

    (** Stable entry points: the output is the first [len] elements of THE stable merge, and the inputs are
        left exactly where that merge leaves them; independent of algorithm, sentinels and tree. *)
    Theorem mwm_stable sentinels alg (st : state) sents len :
      inputs_ok st -> len <= total st -> (sentinels = true -> sent_ok ltb st sents) ->
      side_ok gsize usize ukey alg sentinels st sents ->
      base true sentinels alg st sents len = Some (firstn len (gmerge ltb st), snd (msteps ltb len st)).
    Proof.
      intros Hin Hlen Hsent Hside.
      destruct (mwm_run true sentinels alg st sents len Hin Hlen Hsent Hside) as (out & st' & E & R & L).
      destruct (mrun_true_msteps ltb H _ _ _ R) as [E1 E2]. rewrite L in E1, E2.
      rewrite E, E1, E2. now rewrite msteps_firstn.
    Qed.

    (** All entry points (in particular the unstable ones): [len] elements are written, in non-decreasing order;
        they are an interleaving of prefixes of the inputs, the inputs are left just past these prefixes, and
        every element written is <= every element left (so they are the [len] smallest). *)
    Theorem mwm_any stable sentinels alg (st : state) sents len :
      inputs_ok st -> len <= total st -> (sentinels = true -> sent_ok ltb st sents) ->
      side_ok gsize usize ukey alg sentinels st sents ->
      exists out st', base stable sentinels alg st sents len = Some (out, st') /\
        length out = len /\
        StronglySorted (sorted_rel ltb) out /\
        (exists ps, length ps = length st /\ interleave ps out /\ forall s, nth s st [] = nth s ps [] ++ nth s st' []) /\
        (forall x l y, In x out -> In l st' -> In y l -> ltb y x = false).
    Proof.
      intros Hin Hlen Hsent Hside.
      destruct (mwm_run stable sentinels alg st sents len Hin Hlen Hsent Hside) as (out & st' & E & R & L).
      exists out, st'. split; [exact E|]. split; [exact L|].
      destruct (mrun_sorted ltb H _ _ _ _ (inputs_ok_sorted _ Hin) R) as [So Lo].
      split; [exact So|]. split; [exact (mrun_interleave ltb _ _ _ _ R)|].
      intros x l y Hx Hl Hy. exact (Lo x Hx l y Hl Hy).
    Qed.
  End Trees.

  (** Tree-free statement over the reference tournament (stable for other properties to rely on). *)
  Theorem ref_mwm_run stable sentinels alg (st : state) sents len :
    inputs_ok st -> len <= total st -> (sentinels = true -> sent_ok ltb st sents) ->
    exists out st', mwm_base ltb RGT (@rgt_init A) (rgt_min ltb) (rgt_dmi ltb) RUT (@rut_init A) (rut_min ltb) (rut_dmi ltb)
                             stable sentinels alg st sents len = Some (out, st') /\
                    mrun ltb stable st out st' /\ length out = len.
  Proof.
    intros Hin Hlen Hsent.
    apply (mwm_run RGT (@rgt_init A) (rgt_min ltb) (rgt_dmi ltb) (ref_grep) (fun _ => True) (ref_gtree_ok ltb H)
                   RUT (@rut_init A) (rut_min ltb) (rut_dmi ltb) (ref_urep) (fun _ => True) (fun _ _ => True) (ref_utree_ok ltb H)); auto.
    apply side_ok_trivial; intros; exact I.
  Qed.

  (** The model as run in the correspondence (reference tournament) is an instance. *)
  Theorem ref_mwm_stable sentinels alg (st : state) sents len :
    inputs_ok st -> len <= total st -> (sentinels = true -> sent_ok ltb st sents) ->
    ref_mwm ltb true sentinels alg st sents len =
    Some (firstn len (gmerge ltb st), len,
          map (fun p => length (fst p) - length (snd p)) (combine st (snd (msteps ltb len st)))).
  Proof.
    intros Hin Hlen Hsent. unfold ref_mwm.
    rewrite (mwm_stable RGT (@rgt_init A) (rgt_min ltb) (rgt_dmi ltb) (ref_grep) (fun _ => True) (ref_gtree_ok ltb H)
                        RUT (@rut_init A) (rut_min ltb) (rut_dmi ltb) (ref_urep) (fun _ => True) (fun _ _ => True) (ref_utree_ok ltb H)
                        sentinels alg st sents len Hin Hlen Hsent (side_ok_trivial _ _ _ alg sentinels st sents (fun _ => I) (fun _ => I) (fun _ _ => I))).
    rewrite firstn_length. replace (Nat.min len (length (gmerge ltb st))) with len; [reflexivity|].
    unfold gmerge. destruct (msteps_mrun ltb H (total st) st (le_n _)) as [_ L]. rewrite L. lia.
  Qed.
End Final.

(* ---------------------------------------------------------------------------------------------------- *)
(** * Stability with positions: run over inputs tagged with (source index, position) *)
Section Tagged.
  Context {A : Type}.
  Variable ltb : A -> A -> bool.
  Hypothesis H : SWO ltb.

  Lemma SWO_ltb3 : SWO (ltb3 ltb).
  Proof. apply (SWO_on ltb key3 H). Qed.

  Lemma tag_seq_sorted s (l : list A) :
    StronglySorted (sorted_rel ltb) l -> StronglySorted (sorted_rel (ltb3 ltb)) (tag_seq s l).
  Proof.
    unfold tag_seq. generalize 0 as i. induction l as [|x l IH]; intros i Hs; simpl; [constructor|].
    inversion Hs as [|? ? Hs' Hf]; subst. constructor; [apply IH; exact Hs'|].
    rewrite Forall_forall in *. intros t Ht. apply in_map_iff in Ht. destruct Ht as ([p a] & <- & Hin).
    apply in_combine_r in Hin. unfold sorted_rel, ltb3, key3. simpl. apply Hf. exact Hin.
  Qed.

  Lemma tag_seq_length s (l : list A) : length (tag_seq s l) = length l.
  Proof. unfold tag_seq. rewrite map_length, combine_length, seq_length. lia. Qed.

  Lemma tag_all_total (ls : list (list A)) : total (tag_all ls) = total ls.
  Proof.
    unfold tag_all. generalize 0 as i. induction ls as [|l ls IH]; intros i; simpl; [reflexivity|].
    rewrite !total_cons. simpl. rewrite tag_seq_length. f_equal. apply IH.
  Qed.

  Lemma tag_all_sorted (ls : list (list A)) : sorted_state ltb ls -> sorted_state (ltb3 ltb) (tag_all ls).
  Proof.
    unfold tag_all, sorted_state. generalize 0 as i. induction ls as [|l ls IH]; intros i Hs; simpl; [constructor|].
    inversion Hs; subst. constructor; [now apply tag_seq_sorted|now apply IH].
  Qed.

  Section Trees.
    Notation B := (A * nat * nat)%type.
    Variable GT : Type.
    Variable gt_init : bool -> list (option B) -> GT.
    Variable gt_min : GT -> nat.
    Variable gt_dmi : GT -> option B -> GT.
    Variable grep : bool -> GT -> list (option B) -> Prop.
    Variable gsize : nat -> Prop.
    Hypothesis Gok : gtree_ok (ltb3 ltb) gsize gt_init gt_min gt_dmi grep.
    Variable UT : Type.
    Variable ut_init : bool -> B -> list B -> UT.
    Variable ut_min : UT -> option nat.
    Variable ut_dmi : UT -> B -> UT.
    Variable urep : bool -> UT -> B -> list B -> Prop.
    Variable usize : nat -> Prop.
    Variable ukey : B -> B -> Prop.
    Hypothesis Uok : utree_ok (ltb3 ltb) usize ukey ut_init ut_min ut_dmi urep.

    (** Elements that remember where they came from: the stable entry points write exactly
        [firstn len (smerge inputs)] — equivalent elements ordered by sequence index, then position. *)
    Theorem mwm_stable_positions sentinels alg (ls : list (list A)) tsents len :
      Forall (fun l => sortedb ltb l = true) ls -> len <= total ls ->
      (sentinels = true -> sent_ok (ltb3 ltb) (tag_all ls) tsents) ->
      side_ok gsize usize ukey alg sentinels (tag_all ls) tsents ->
      mwm_base (ltb3 ltb) GT gt_init gt_min gt_dmi UT ut_init ut_min ut_dmi true sentinels alg (tag_all ls) tsents len =
      Some (firstn len (smerge ltb ls), snd (msteps (ltb3 ltb) len (tag_all ls))).
    Proof.
      intros Hin Hlen Hsent Hside.
      pose proof (inputs_ok_sorted ltb H ls Hin) as Hs. pose proof (tag_all_sorted ls Hs) as Hst.
      destruct (mwm_base_correct (ltb3 ltb) SWO_ltb3 GT gt_init gt_min gt_dmi grep gsize Gok UT ut_init ut_min ut_dmi urep usize ukey Uok
                  (fun b s n => merge_bubble_correct (ltb3 ltb) SWO_ltb3 b s n)
                  true sentinels alg (tag_all ls) tsents len Hst) as (out & st' & E & R & L); auto.
      { now rewrite tag_all_total. }
      destruct (mrun_true_msteps (ltb3 ltb) SWO_ltb3 _ _ _ R) as [E1 E2]. rewrite L in E1, E2.
      rewrite E, E1, E2. unfold smerge. rewrite (msteps_firstn (ltb3 ltb) SWO_ltb3); [reflexivity|].
      now rewrite tag_all_total.
    Qed.
  End Trees.
End Tagged.

(** unguarded_safe, in terms of prepare_unguarded's result. *)
Theorem unguarded_safe {A : Type} (ltb : A -> A -> bool) (H : SWO ltb) stable (l0 : list A) rest ov ms sen :
  sorted_state ltb (l0 :: rest) -> prepare_unguarded ltb stable (l0 :: rest) = (Some ov, ms) ->
  last_error l0 = Some sen ->
  forall n, n <= total (l0 :: rest) - ov -> ugood_run ltb stable sen n (l0 :: rest).
Proof.
  intros Hs Ep Esen n Hn.
  destruct (prepare_some ltb H _ _ _ _ Ep) as (mn & Hl & Hov).
  destruct stable.
  - apply (ugood_stable ltb H _ mn ms Hl Hs l0 rest sen eq_refl Esen). lia.
  - apply (ugood_unstable ltb H _ mn ms Hl Hs l0 rest sen eq_refl Esen). lia.
Qed.

(** Non-vacuity: the hypotheses are satisfiable and the statements compute on a non-trivial state. *)
Example mwm_example :
  let st := [[1; 3; 3]; []; [2; 3]; [0; 3; 9]; [3]] in
  inputs_ok Nat.ltb st /\ sent_ok Nat.ltb st [10; 11; 10; 12; 10] /\
  ref_mwm Nat.ltb true true MWMA_LOSER_TREE_SENTINEL st [10; 11; 10; 12; 10] 7 = Some ([0; 1; 2; 3; 3; 3; 3], 7, [3; 0; 2; 2; 0]) /\
  ref_mwm Nat.ltb true false MWMA_LOSER_TREE_COMBINED st [] 7 = Some ([0; 1; 2; 3; 3; 3; 3], 7, [3; 0; 2; 2; 0]) /\
  ref_mwm Nat.ltb false false MWMA_BUBBLE st [] 7 = Some ([0; 1; 2; 3; 3; 3; 3], 7, [3; 0; 2; 2; 0]) /\
  smerge Nat.ltb [[1; 3]; [3]; [0; 3]] = [(0, 2, 0); (1, 0, 0); (3, 0, 1); (3, 1, 0); (3, 2, 1)].
Proof.
  simpl. split; [repeat constructor|]. split.
  - split; [reflexivity|]. intros l x z Hl Hx Hz. apply Nat.ltb_lt.
    assert (x <= 9) by (simpl in Hl; repeat (destruct Hl as [<-|Hl]; [simpl in Hx; intuition lia|]); destruct Hl).
    assert (10 <= z) by (simpl in Hz; intuition lia). lia.
  - repeat split; vm_compute; reflexivity.
Qed.
