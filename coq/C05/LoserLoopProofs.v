(** C05 — the loser-tree merge loops, for ANY tree meeting the interface below.

    Guarded tree ([LoserTree<Stable,...>]): a representation relation [grep stable t hs] ("tree [t] holds the
    players [hs]", None = sup) such that
      - init:  [grep b (gt_init b hs) hs];
      - winner: if some player is live, [gt_min t] is a live player with minimal key, and for [b = true] the
        one of smallest index among the equivalent ones;
      - replay: [grep b (gt_dmi t v) (upd (gt_min t) v hs)] when some player is live.
    Unguarded tree ([LoserTreeUnguarded<Stable,...>]): players are never sup; the padding players carry the key
    [sentinel]; the winner specification is only promised while some real player beats the padding
    (strictly smaller key; for the stable tree: not greater).
    The reference tournament of Model.v meets the interface ([ref_gtree_ok], [ref_utree_ok]). *)
From Coq Require Import List Bool Arith Lia Sorting.Sorted.
From TLXV Require Import Common.Order C05.AutoDefs C05.StableMerge C05.Model C05.MergeFacts C05.MergeAdvProofs.
Import ListNotations.

Section Winner.
  Context {A : Type}.
  Variable ltb : A -> A -> bool.

  (** [s] is a winner among the players [hs]. *)
  Definition winner (b : bool) (hs : list (option A)) (s : nat) : Prop :=
    exists x, nth_error hs s = Some (Some x) /\
              (forall t y, nth_error hs t = Some (Some y) -> ltb y x = false) /\
              (b = true -> forall t y, t < s -> nth_error hs t = Some (Some y) -> ltb x y = true).

  Definition beats (b : bool) (x sentinel : A) : Prop :=
    if b then ltb sentinel x = false else ltb x sentinel = true.

  (** [gsize n]: side condition on the number of players under which the tree is specified (the real trees:
      1 <= n <= 2^30, Source = uint32_t arithmetic must not wrap; the reference tournament: none). *)
  Record gtree_ok {GT : Type} (gsize : nat -> Prop) (gt_init : bool -> list (option A) -> GT) (gt_min : GT -> nat)
         (gt_dmi : GT -> option A -> GT) (grep : bool -> GT -> list (option A) -> Prop) : Prop := {
    g_init : forall b hs, gsize (length hs) -> grep b (gt_init b hs) hs;
    g_min : forall b t hs, grep b t hs -> (exists s x, nth_error hs s = Some (Some x)) -> winner b hs (gt_min t);
    g_dmi : forall b t hs v, grep b t hs -> (exists s x, nth_error hs s = Some (Some x)) ->
                             grep b (gt_dmi t v) (upd (gt_min t) v hs)
  }.

  (** [usize]: as [gsize]; [ukey sen x]: side condition on every key [x] handed to an unguarded tree built with
      padding key [sen] (C09's theorems about the real unguarded trees: [ltb sen x = false], the documented
      "sentinel not less than any key"; the reference tournament: none). *)
  Record utree_ok {UT : Type} (usize : nat -> Prop) (ukey : A -> A -> Prop)
         (ut_init : bool -> A -> list A -> UT) (ut_min : UT -> option nat)
         (ut_dmi : UT -> A -> UT) (urep : bool -> UT -> A -> list A -> Prop) : Prop := {
    u_init : forall b sen hs, usize (length hs) -> Forall (ukey sen) hs -> urep b (ut_init b sen hs) sen hs;
    u_min : forall b t sen hs, urep b t sen hs -> (exists s x, nth_error hs s = Some x /\ beats b x sen) ->
                               exists s, ut_min t = Some s /\ winner b (map Some hs) s;
    u_dmi : forall b t sen hs v s, urep b t sen hs -> ut_min t = Some s -> ukey sen v -> urep b (ut_dmi t v) sen (upd s v hs)
  }.
End Winner.

Section Loops.
  Context {A : Type}.
  Variable ltb : A -> A -> bool.
  Hypothesis H : SWO ltb.

  Notation state := (list (list A)).
  Notation mstep := (mstep ltb).
  Notation mrun := (mrun ltb).

  Lemma nth_error_heads (st : state) s : nth_error (heads st) s = option_map (@hd_error A) (nth_error st s).
  Proof. unfold heads. apply nth_error_map. Qed.

  Lemma heads_live (st : state) s x : nth_error (heads st) s = Some (Some x) <-> exists r, nth_error st s = Some (x :: r).
  Proof.
    rewrite nth_error_heads. destruct (nth_error st s) as [[|y r]|]; simpl; split.
    - discriminate. - intros (? & E); discriminate.
    - intros E; inversion E; subst; eauto. - intros (r' & E); inversion E; subst; reflexivity.
    - discriminate. - intros (? & E); discriminate.
  Qed.

  Lemma winner_mstep b (st : state) s :
    winner ltb b (heads st) s -> exists x r, nth_error st s = Some (x :: r) /\ mstep b st x (upd s r st).
  Proof.
    intros (x & Hx & Hmin & Hst). apply heads_live in Hx. destruct Hx as (r & Hx).
    exists x, r. split; auto. econstructor; eauto.
    - intros t y r' Ht. apply (Hmin t). apply heads_live. eauto.
    - intros Hb t y r' Hlt Ht. apply (Hst Hb t); auto. apply heads_live. eauto.
  Qed.

  Lemma heads_upd (st : state) s r : heads (upd s r st) = upd s (hd_error r) (heads st).
  Proof. unfold heads. apply map_upd. Qed.

  Lemma live_of_total (st : state) : 0 < total st -> exists s x, nth_error (heads st) s = Some (Some x).
  Proof.
    intros Hp. destruct (total_pos_nonempty st Hp) as (s & x & r & E). exists s, x. apply heads_live. eauto.
  Qed.

  (* -------------------------------------------------------------------------------------------------- *)
  Section Guarded.
    Variable GT : Type.
    Variable gt_init : bool -> list (option A) -> GT.
    Variable gt_min : GT -> nat.
    Variable gt_dmi : GT -> option A -> GT.
    Variable grep : bool -> GT -> list (option A) -> Prop.
    Variable gsize : nat -> Prop.
    Hypothesis Hok : gtree_ok ltb gsize gt_init gt_min gt_dmi grep.

    Lemma gt_loop_correct b n : forall t src (st : state) hs,
      grep b t hs -> gt_min t = src -> (exists s x, nth_error hs s = Some (Some x)) ->
      heads st = upd src (hd_error (nth src st [])) hs ->
      n <= total st ->
      exists o st', gt_loop GT gt_min gt_dmi n t src st = Some (o, st') /\ mrun b st o st' /\ length o = n.
    Proof.
      induction n as [|n IH]; intros t src st hs Hrep Hsrc Hlive Hh Hn.
      - exists [], st. split; [reflexivity|]. split; [constructor|reflexivity].
      - cbn [gt_loop]. subst src.
        set (t1 := gt_dmi t (hd_error (nth (gt_min t) st []))).
        assert (Hrep1 : grep b t1 (heads st)).
        { rewrite Hh. apply (g_dmi _ _ _ _ _ _ Hok); auto. }
        assert (Hlive1 : exists s x, nth_error (heads st) s = Some (Some x)) by (apply live_of_total; lia).
        pose proof (g_min _ _ _ _ _ _ Hok _ _ _ Hrep1 Hlive1) as W.
        destruct (winner_mstep _ _ _ W) as (x & r & Hx & MS).
        unfold take_from. rewrite Hx.
        pose proof (total_upd _ _ _ _ Hx) as Tot.
        destruct (IH t1 (gt_min t1) (upd (gt_min t1) r st) (heads st)) as (o & st' & E & R & L); auto.
        + rewrite heads_upd. f_equal.
          assert (Ls : gt_min t1 < length st) by (apply nth_error_Some; congruence).
          now rewrite nth_upd_eq.
        + lia.
        + rewrite E. exists (x :: o), st'. split; [reflexivity|]. split; [econstructor; eauto|simpl; lia].
    Qed.

    (** multiway_merge_loser_tree: min(size, total) steps of a (stable, for a stable tree) merge. *)
    Theorem merge_lt_correct b (st : state) sz :
      gsize (length st) ->
      exists o st', merge_lt GT gt_init gt_min gt_dmi b st sz = Some (o, st') /\ mrun b st o st' /\
                    length o = Nat.min sz (total st).
    Proof.
      intros Hgs. unfold merge_lt. destruct (Nat.min sz (total st)) as [|n] eqn:En.
      - exists [], st. split; [reflexivity|]. split; [constructor|reflexivity].
      - assert (Hrep : grep b (gt_init b (heads st)) (heads st)).
        { apply (g_init _ _ _ _ _ _ Hok). unfold heads. now rewrite map_length. }
        assert (Hlive : exists s x, nth_error (heads st) s = Some (Some x)) by (apply live_of_total; lia).
        pose proof (g_min _ _ _ _ _ _ Hok _ _ _ Hrep Hlive) as W.
        destruct (winner_mstep _ _ _ W) as (x & r & Hx & MS).
        unfold take_from. rewrite Hx. pose proof (total_upd _ _ _ _ Hx) as Tot.
        set (t := gt_init b (heads st)) in *.
        destruct (gt_loop_correct b n t (gt_min t) (upd (gt_min t) r st) (heads st)) as (o & st' & E & R & L); auto.
        + rewrite heads_upd. f_equal.
          assert (Ls : gt_min t < length st) by (apply nth_error_Some; congruence).
          now rewrite nth_upd_eq.
        + lia.
        + rewrite E. exists (x :: o), st'. split; [reflexivity|]. split; [econstructor; eauto|simpl; lia].
    Qed.
  End Guarded.

  (* -------------------------------------------------------------------------------------------------- *)
  Section Unguarded.
    Variable UT : Type.
    Variable ut_init : bool -> A -> list A -> UT.
    Variable ut_min : UT -> option nat.
    Variable ut_dmi : UT -> A -> UT.
    Variable urep : bool -> UT -> A -> list A -> Prop.
    Variable usize : nat -> Prop.
    Variable ukey : A -> A -> Prop.
    Hypothesis Hok : utree_ok ltb usize ukey ut_init ut_min ut_dmi urep.

    (** every element of every sequence may be handed to the tree *)
    Definition keys_ok (sen : A) (st : state) : Prop := forall l x, In l st -> In x l -> ukey sen x.

    Lemma keys_ok_upd sen (st : state) s x r : keys_ok sen st -> nth_error st s = Some (x :: r) -> keys_ok sen (upd s r st).
    Proof.
      intros Hk Hn l y Hl Hy. apply In_nth_error in Hl. destruct Hl as (t & Ht).
      destruct (Nat.eq_dec s t) as [<-|Ne].
      - rewrite nth_error_upd_eq in Ht by (apply nth_error_Some; congruence). inversion Ht; subst.
        apply (Hk (x :: l) y); [eapply nth_error_In; eauto|now right].
      - rewrite nth_error_upd_neq in Ht by exact Ne. apply (Hk l y); auto. eapply nth_error_In; eauto.
    Qed.

    (** The heads as a list of elements (all sequences non-empty). *)
    Lemma all_heads_spec (st : state) hs : all_heads st = Some hs -> heads st = map Some hs.
    Proof.
      revert hs; induction st as [|l st IH]; simpl; intros hs E.
      - inversion E; reflexivity.
      - destruct l as [|x r]; [discriminate|]. destruct (all_heads st) as [hs'|]; [|discriminate].
        inversion E; subst. simpl. f_equal. auto.
    Qed.

    Lemma all_heads_nonempty (st : state) : Forall (fun l => l <> []) st -> exists hs, all_heads st = Some hs.
    Proof.
      induction 1 as [|l st Hl Hf IH]; simpl; [eauto|].
      destruct l as [|x r]; [exfalso; now apply Hl|]. destruct IH as (hs & ->). eauto.
    Qed.

    (** During the run some real head must beat the padding key, and the sequence just advanced must still
        have a head: both are consequences of the caller's precondition, packaged as [ugood]. *)
    Definition ugood (b : bool) (sen : A) (st : state) : Prop :=
      Forall (fun l => l <> []) st /\ exists s x r, nth_error st s = Some (x :: r) /\ beats ltb b x sen.

    (** [ugood_run b sen n st]: every state reached by fewer than [n] steps of any [b]-run from [st] is good. *)
    Definition ugood_run (b : bool) (sen : A) (n : nat) (st : state) : Prop :=
      forall o st', mrun b st o st' -> length o < n -> ugood b sen st'.

    Lemma ugood_run_step b sen n st x st1 : mstep b st x st1 -> ugood_run b sen (S n) st -> ugood_run b sen n st1.
    Proof. intros MS Hg o st' R L. apply (Hg (x :: o) st'); [econstructor; eauto|simpl; lia]. Qed.

    Lemma last_error_some (l : list A) : l <> [] -> exists x, last_error l = Some x.
    Proof.
      induction l as [|x r IH]; [intros Hn; exfalso; now apply Hn|]. intros _. destruct r as [|y r']; [simpl; eauto|].
      destruct IH as (z & E); [discriminate|]. exists z. exact E.
    Qed.

    Lemma ut_loop_ok b sen n : forall t src (st : state) hs,
      urep b t sen hs -> ut_min t = Some src -> src < length st ->
      (forall h, hd_error (nth src st []) = Some h -> heads st = map Some (upd src h hs)) ->
      ugood_run b sen n st -> keys_ok sen st ->
      exists o st', ut_loop UT ut_min ut_dmi n t src st = Some (o, st') /\ mrun b st o st' /\ length o = n.
    Proof.
      induction n as [|n IH]; intros t src st hs Hrep Hsrc Lsrc Hh Hg Hk.
      - exists [], st. split; [reflexivity|]. split; [constructor|reflexivity].
      - cbn [ut_loop].
        destruct (Hg [] st (mrun_nil _ _ _) ltac:(simpl; lia)) as [Hne (s0 & x0 & r0 & Hs0 & Hb0)].
        assert (Hhd : exists h, hd_error (nth src st []) = Some h).
        { rewrite Forall_forall in Hne. specialize (Hne (nth src st []) (nth_In _ _ Lsrc)).
          destruct (nth src st []) as [|h ?]; [exfalso; now apply Hne|]. simpl; eauto. }
        destruct Hhd as (h & Eh). rewrite Eh. specialize (Hh h Eh).
        set (hs1 := upd src h hs) in *. set (t1 := ut_dmi t h).
        assert (Hrep1 : urep b t1 sen hs1).
        { apply (u_dmi _ _ _ _ _ _ _ Hok); auto. apply (Hk (nth src st []) h); [now apply nth_In|].
          destruct (nth src st []); simpl in Eh; [discriminate|]. inversion Eh; now left. }
        destruct (u_min _ _ _ _ _ _ _ Hok _ _ _ _ Hrep1) as (s & Es & W).
        { exists s0, x0. split; auto.
          assert (E : nth_error (heads st) s0 = Some (Some x0)) by (apply heads_live; eauto).
          rewrite Hh, nth_error_map in E. destruct (nth_error hs1 s0); simpl in E; congruence. }
        rewrite Es. rewrite <- Hh in W.
        destruct (winner_mstep _ _ _ W) as (x & r & Hx & MS).
        unfold take_from. rewrite Hx.
        assert (Ls : s < length st) by (apply nth_error_Some; congruence).
        destruct (IH t1 s (upd s r st) hs1) as (o & st' & E & R & L); auto.
        + now rewrite length_upd.
        + intros h' Eh'. rewrite nth_upd_eq in Eh' by exact Ls. rewrite heads_upd, Eh', Hh. now rewrite map_upd.
        + eapply ugood_run_step; eauto.
        + eapply keys_ok_upd; eauto.
        + rewrite E. exists (x :: o), st'. split; [reflexivity|]. split; [econstructor; eauto|simpl; lia].
    Qed.

    (** multiway_merge_loser_tree_unguarded *)
    Theorem merge_lt_unguarded_correct b (l0 : list A) (st : state) sz sen :
      last_error l0 = Some sen -> Forall (fun l => l <> []) (l0 :: st) ->
      sz <= total (l0 :: st) -> ugood_run b sen sz (l0 :: st) ->
      usize (length (l0 :: st)) -> keys_ok sen (l0 :: st) ->
      exists o st', merge_lt_unguarded UT ut_init ut_min ut_dmi b (l0 :: st) sz = Some (o, st') /\
                    mrun b (l0 :: st) o st' /\ length o = sz.
    Proof.
      intros Hsen Hne Hsz Hg Hus Hk. unfold merge_lt_unguarded. rewrite Hsen.
      destruct (all_heads_nonempty _ Hne) as (hs & Ehs). rewrite Ehs.
      pose proof (all_heads_spec _ _ Ehs) as Hh.
      rewrite Nat.min_r by exact Hsz.
      destruct sz as [|n].
      - exists [], (l0 :: st). split; [reflexivity|]. split; [constructor|reflexivity].
      - destruct (Hg [] _ (mrun_nil _ _ _) ltac:(simpl; lia)) as [_ (s0 & x0 & r0 & Hs0 & Hb0)].
        set (t := ut_init b sen hs).
        assert (Hrep : urep b t sen hs).
        { apply (u_init _ _ _ _ _ _ _ Hok).
          - assert (E : length (heads (l0 :: st)) = length (map Some hs)) by now rewrite Hh.
            unfold heads in E. rewrite !map_length in E. now rewrite <- E.
          - apply Forall_forall. intros h Hin. apply In_nth_error in Hin. destruct Hin as (i & Ei).
            assert (E : nth_error (heads (l0 :: st)) i = Some (Some h)) by (rewrite Hh, nth_error_map, Ei; reflexivity).
            apply heads_live in E. destruct E as (r & E). apply (Hk (h :: r) h); [eapply nth_error_In; eauto|now left]. }
        destruct (u_min _ _ _ _ _ _ _ Hok _ _ _ _ Hrep) as (s & Es & W).
        { exists s0, x0. split; auto.
          assert (E : nth_error (heads (l0 :: st)) s0 = Some (Some x0)) by (apply heads_live; eauto).
          rewrite Hh, nth_error_map in E. destruct (nth_error hs s0); simpl in E; congruence. }
        rewrite Es. rewrite <- Hh in W.
        destruct (winner_mstep _ _ _ W) as (x & r & Hx & MS).
        unfold take_from. rewrite Hx.
        assert (Ls : s < length (l0 :: st)) by (apply nth_error_Some; congruence).
        destruct (ut_loop_ok b sen n t s (upd s r (l0 :: st)) hs) as (o & st' & E & R & L); auto.
        + now rewrite length_upd.
        + intros h' Eh'. rewrite nth_upd_eq in Eh' by exact Ls. rewrite heads_upd, Eh', Hh. now rewrite map_upd.
        + eapply ugood_run_step; eauto.
        + eapply keys_ok_upd; eauto.
        + rewrite E. exists (x :: o), st'. split; [reflexivity|]. split; [econstructor; eauto|simpl; lia].
    Qed.
  End Unguarded.
End Loops.
