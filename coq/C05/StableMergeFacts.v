(** C05 — basic facts about the stable merge specification [gmerge] / [smerge] (for C06 / C07).
      [gmerge_length], [gmerge_perm]   : a permutation of all input elements;
      [gmerge_sorted]                  : sorted by the comparator (sorted inputs);
      [mrun_true_gmerge]               : ANY stable run of [n] steps writes [firstn n (gmerge st)] (uniqueness of
                                         the stable merge: the step relation [mstep true] is deterministic);
      [smerge_length], [smerge_perm], [smerge_sorted_keys] : the same for the tagged merge.
    Not proved here (left as a remark): [smerge ls] is strictly increasing for the lexicographic order on
    (key, source index, position); it follows from [mstep true] choosing the smallest index among equivalent heads
    and positions increasing inside a sequence. *)
From Coq Require Import List Bool Arith Lia Sorting.Sorted Sorting.Permutation.
From TLXV Require Import Common.Order C05.StableMerge C05.MergeFacts.
Import ListNotations.

Section Facts.
  Context {A : Type}.
  Variable ltb : A -> A -> bool.
  Hypothesis H : SWO ltb.

  Notation state := (list (list A)).

  Lemma concat_upd_perm (st : state) s x r :
    nth_error st s = Some (x :: r) -> Permutation (x :: concat (upd s r st)) (concat st).
  Proof.
    revert s; induction st as [|l st IH]; intros [|s] E; simpl in *; try discriminate.
    - inversion E; subst. apply Permutation_refl.
    - eapply Permutation_trans; [apply Permutation_middle|]. apply Permutation_app_head. apply (IH _ E).
  Qed.

  Lemma mrun_perm b (st : state) o st' : mrun ltb b st o st' -> Permutation (o ++ concat st') (concat st).
  Proof.
    induction 1 as [st|st x st1 o st2 MS R IH]; [apply Permutation_refl|].
    destruct MS as [st s x r Hn _ _]. simpl.
    eapply Permutation_trans; [apply perm_skip; exact IH|]. now apply concat_upd_perm.
  Qed.

  Lemma total_zero_concat (st : state) : total st = 0 -> concat st = [].
  Proof.
    induction st as [|l st IH]; [reflexivity|]. rewrite total_cons. intros E. destruct l; [|simpl in E; lia].
    simpl. apply IH. simpl in E. exact E.
  Qed.

  Lemma gmerge_run (st : state) : exists st', mrun ltb true st (gmerge ltb st) st' /\ total st' = 0 /\ length (gmerge ltb st) = total st.
  Proof.
    unfold gmerge. destruct (msteps_mrun ltb H (total st) st (le_n _)) as [R L].
    exists (snd (msteps ltb (total st) st)). split; [exact R|]. split; [|exact L].
    pose proof (mrun_total ltb _ _ _ _ R). lia.
  Qed.

  Theorem gmerge_length (st : state) : length (gmerge ltb st) = total st.
  Proof. destruct (gmerge_run st) as (? & _ & _ & L). exact L. Qed.

  Theorem gmerge_perm (st : state) : Permutation (gmerge ltb st) (concat st).
  Proof.
    destruct (gmerge_run st) as (st' & R & Z & _). pose proof (mrun_perm _ _ _ _ R) as P.
    rewrite (total_zero_concat _ Z), app_nil_r in P. exact P.
  Qed.

  Theorem gmerge_sorted (st : state) : sorted_state ltb st -> StronglySorted (sorted_rel ltb) (gmerge ltb st).
  Proof.
    intros Hs. destruct (gmerge_run st) as (st' & R & _ & _). exact (proj1 (mrun_sorted ltb H _ _ _ _ Hs R)).
  Qed.

  (** Uniqueness: any stable run is a prefix of [gmerge]. *)
  Theorem mrun_true_gmerge (st : state) o st' :
    mrun ltb true st o st' -> o = firstn (length o) (gmerge ltb st) /\ st' = snd (msteps ltb (length o) st).
  Proof.
    intros R. destruct (mrun_true_msteps ltb H _ _ _ R) as [E1 E2]. split; [|exact E2].
    pose proof (mrun_total ltb _ _ _ _ R) as T.
    (* msteps n is a prefix of gmerge *)
    assert (P : forall n (s : state), n <= total s -> fst (msteps ltb n s) = firstn n (gmerge ltb s)).
    { unfold gmerge. induction n as [|n IH]; intros s Hn; [reflexivity|].
      destruct (spick ltb s) as [[i x]|] eqn:E; [|pose proof (spick_none ltb _ E); lia].
      pose proof (spick_mstep ltb H _ _ _ E) as MS. destruct (spick_spec ltb H _ _ _ E) as (r & Hr & _).
      assert (T' : total s = S (total (adv i s))).
      { unfold adv. rewrite (nth_error_nth_default _ _ _ [] Hr). simpl. eapply total_upd; eauto. }
      rewrite (msteps_S ltb H n s x _ MS). rewrite T'. rewrite (msteps_S ltb H (total (adv i s)) s x _ MS).
      simpl. f_equal. apply IH. lia. }
    rewrite E1 at 1. apply P. lia.
  Qed.
End Facts.

Section Tagged.
  Context {A : Type}.
  Variable ltb : A -> A -> bool.
  Hypothesis H : SWO ltb.

  Lemma SWO_ltb3' : SWO (ltb3 ltb).
  Proof. apply (SWO_on ltb key3 H). Qed.

  Lemma tag_seq_len s (l : list A) : length (tag_seq s l) = length l.
  Proof. unfold tag_seq. rewrite map_length, combine_length, seq_length. lia. Qed.

  Lemma tag_all_tot (ls : list (list A)) : total (tag_all ls) = total ls.
  Proof.
    unfold tag_all. generalize 0 as i. induction ls as [|l ls IH]; intros i; simpl; [reflexivity|].
    rewrite !total_cons. simpl. rewrite tag_seq_len. f_equal. apply IH.
  Qed.

  Theorem smerge_length (ls : list (list A)) : length (smerge ltb ls) = total ls.
  Proof. unfold smerge. rewrite (gmerge_length (ltb3 ltb) SWO_ltb3'). apply tag_all_tot. Qed.

  (** [smerge ls] arranges exactly the tagged elements of the inputs. *)
  Theorem smerge_perm (ls : list (list A)) : Permutation (smerge ltb ls) (concat (tag_all ls)).
  Proof. unfold smerge. apply (gmerge_perm (ltb3 ltb) SWO_ltb3'). Qed.

  Lemma tag_seq_srt s (l : list A) :
    StronglySorted (sorted_rel ltb) l -> StronglySorted (sorted_rel (ltb3 ltb)) (tag_seq s l).
  Proof.
    unfold tag_seq. generalize 0 as i. induction l as [|x l IH]; intros i Hs; simpl; [constructor|].
    inversion Hs as [|? ? Hs' Hf]; subst. constructor; [apply IH; exact Hs'|].
    rewrite Forall_forall in *. intros t Ht. apply in_map_iff in Ht. destruct Ht as ([p a] & <- & Hin).
    apply in_combine_r in Hin. unfold sorted_rel, ltb3, key3. simpl. apply Hf. exact Hin.
  Qed.

  Theorem smerge_sorted_keys (ls : list (list A)) :
    sorted_state ltb ls -> StronglySorted (sorted_rel (ltb3 ltb)) (smerge ltb ls).
  Proof.
    intros Hs. unfold smerge. apply (gmerge_sorted (ltb3 ltb) SWO_ltb3').
    unfold tag_all, sorted_state in *. generalize 0 as i. induction ls as [|l ls IH]; intros i; simpl; [constructor|].
    inversion Hs; subst. constructor; [now apply tag_seq_srt|now apply IH].
  Qed.
End Tagged.
