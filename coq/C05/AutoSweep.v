(** C05 — the finite sweep over the GENERATED tables (gen/Merge34_gen.v), closed by [vm_compute].
    If an edge of the source carries the wrong comparison ([<] for [<=] or vice versa) or the wrong target label,
    the corresponding row appears in [bad_rows] (or [check_init] is false) and this file no longer compiles;
    the error message shows the labels of the offending rows. *)
From Coq Require Import List Bool Arith.
From TLXV Require Import Common.Order C05.AutoDefs gen.Merge34_gen C05.StableMerge C05.Model C05.MergeFacts C05.AutoProofs.
Import ListNotations.

Lemma table3_rows_ok : bad_rows table3 = [].
Proof. vm_compute. reflexivity. Qed.
Lemma table3_init_ok : check_init 3 table3 init3 = true.
Proof. vm_compute. reflexivity. Qed.
Lemma table4_rows_ok : bad_rows table4 = [].
Proof. vm_compute. reflexivity. Qed.
Lemma table4_init_ok : check_init 4 table4 init4 = true.
Proof. vm_compute. reflexivity. Qed.

Lemma table3_ok : check_table 3 table3 init3 = true.
Proof. apply check_table_intro; [exact table3_init_ok|exact table3_rows_ok]. Qed.
Lemma table4_ok : check_table 4 table4 init4 = true.
Proof. apply check_table_intro; [exact table4_init_ok|exact table4_rows_ok]. Qed.

Section Variants.
  Context {A : Type}.
  Variable ltb : A -> A -> bool.
  Hypothesis H : SWO ltb.

  Theorem merge3_variant_correct md sz (st : list (list A)) :
    length st = 3 -> sz <= total st -> (md = Unguarded -> safe ltb sz st) ->
    exists o st', merge3_variant ltb md sz st = Some (o, st') /\ mrun ltb true st o st' /\ length o = sz.
  Proof. apply (auto_merge_correct ltb H 3 table3 init3 table3_ok). Qed.

  Theorem merge4_variant_correct md sz (st : list (list A)) :
    length st = 4 -> sz <= total st -> (md = Unguarded -> safe ltb sz st) ->
    exists o st', merge4_variant ltb md sz st = Some (o, st') /\ mrun ltb true st o st' /\ length o = sz.
  Proof. apply (auto_merge_correct ltb H 4 table4 init4 table4_ok). Qed.
End Variants.
