(** C05 — prepare_unguarded and the overhang-count argument ([unguarded_safe]).

    A cut [c] gives for every sequence a number of leading elements ("inside the cut").  If every element
    inside the cut precedes (stably, resp. strictly for the unstable merge) every element outside the cut of every
    other sequence ([Sep]), a merge run of at most [sum c] steps never takes an element outside the cut
    ([run_above_cut]).  prepare_unguarded computes such a cut from the minimum [mn] of the last elements:
    upper_bound(mn) for the sequences up to [min_seq], lower_bound(mn) after it (lower_bound everywhere when
    unstable); its size is [total - overhang].  Consequently, while fewer than [total - overhang] elements have
    been merged, every sequence still has a head (no iterator is dereferenced at its end), some head beats the
    padding key of the unguarded loser tree, and after exactly [total - overhang] steps of the stable merge sequence
    [min_seq] is empty. *)
From Coq Require Import List Bool Arith Lia Sorting.Sorted.
From TLXV Require Import Common.Order C05.AutoDefs C05.StableMerge C05.Model C05.MergeFacts C05.MergeAdvProofs
     C05.AutoProofs C05.LoserLoopProofs.
Import ListNotations.

(** Sums of nat lists. *)
Lemma list_sum_upd_dec (c : list nat) s n : nth_error c s = Some (S n) -> list_sum c = S (list_sum (upd s n c)).
Proof.
  revert s; induction c as [|a c IH]; intros [|s] E; simpl in *; try discriminate.
  - inversion E; subst. reflexivity.
  - rewrite (IH _ E). lia.
Qed.

Lemma list_sum_pos (c : list nat) : 0 < list_sum c -> exists s n, nth_error c s = Some (S n).
Proof.
  induction c as [|a c IH]; simpl; [lia|]. destruct a as [|a].
  - intros Hp. destruct (IH Hp) as (s & n & E). exists (S s), n. exact E.
  - intros _. exists 0, a. reflexivity.
Qed.

Lemma list_sum_zero (c : list nat) : list_sum c = 0 -> forall s, nth s c 0 = 0.
Proof.
  induction c as [|a c IH]; simpl; intros Hz [|s]; auto; try lia. apply IH. lia.
Qed.

Lemma sum_pointwise_le (a b : list nat) :
  length a = length b -> (forall s, nth s b 0 <= nth s a 0) -> list_sum b <= list_sum a.
Proof.
  revert b; induction a as [|x a IH]; intros [|y b] L Hge; simpl in *; try lia.
  pose proof (Hge 0) as H0. simpl in H0.
  assert (list_sum b <= list_sum a) by (apply IH; [lia|]; intros s; exact (Hge (S s))).
  lia.
Qed.

Lemma sum_pointwise_ge (a b : list nat) :
  length a = length b -> (forall s, nth s b 0 <= nth s a 0) -> list_sum a = list_sum b ->
  forall s, nth s a 0 = nth s b 0.
Proof.
  revert b; induction a as [|x a IH]; intros [|y b] L Hge Hs s; simpl in L; try lia; try reflexivity.
  pose proof (Hge 0) as H0. simpl in H0.
  assert (Hsum : list_sum b <= list_sum a) by (apply sum_pointwise_le; [lia|]; intros s'; exact (Hge (S s'))).
  simpl in Hs. destruct s as [|s]; simpl; [lia|]. apply IH; [lia| |lia]. intros s'. exact (Hge (S s')).
Qed.

Section Unguarded.
  Context {A : Type}.
  Variable ltb : A -> A -> bool.
  Hypothesis H : SWO ltb.

  Notation state := (list (list A)).
  Notation mstep := (mstep ltb).
  Notation mrun := (mrun ltb).
  Notation srel := (sorted_rel ltb).

  (* -------------------------------------------------------------------------------------------------- *)
  (** * Runs stay inside a separating cut *)
  Definition Sep (b : bool) (c : list nat) (st : state) : Prop :=
    forall s t x y, s <> t ->
      In x (firstn (nth s c 0) (nth s st [])) -> In y (skipn (nth t c 0) (nth t st [])) ->
      if b then ltb x y = true \/ (ltb y x = false /\ s < t) else ltb x y = true.

  Definition cut_ok (c : list nat) (st : state) : Prop :=
    length c = length st /\ forall s, nth s c 0 <= length (nth s st []).

  Lemma run_above_cut b st o st' :
    mrun b st o st' -> forall c, Sep b c st -> cut_ok c st -> length o <= list_sum c ->
    forall s, exists p, nth s st' [] = p ++ skipn (nth s c 0) (nth s st []) /\ (length o = list_sum c -> p = []).
  Proof.
    induction 1 as [st|st x st1 o st2 MS R IH]; intros c HS [Lc Hc] Hlen s.
    - exists (firstn (nth s c 0) (nth s st [])). split; [now rewrite firstn_skipn|].
      simpl. intros Hz. rewrite (list_sum_zero c (eq_sym Hz) s). reflexivity.
    - destruct MS as [st s0 x r Hn Hmin Hst]. simpl in Hlen.
      assert (Ls0 : s0 < length st) by (apply nth_error_Some; congruence).
      pose proof (nth_error_nth_default _ _ _ [] Hn) as Es0.
      (* the source of the step is inside the cut *)
      assert (Hc0 : exists n, nth_error c s0 = Some (S n)).
      { destruct (nth_error c s0) as [[|n]|] eqn:E0; [|eauto|apply nth_error_None in E0; lia].
        exfalso. destruct (list_sum_pos c ltac:(lia)) as (t & n & Et).
        assert (Ne : t <> s0) by (intros ->; congruence).
        pose proof (nth_error_nth_default _ _ _ 0 Et) as Ect. pose proof (nth_error_nth_default _ _ _ 0 E0) as Ec0.
        pose proof (Hc t) as Hct. rewrite Ect in Hct.
        destruct (nth t st []) as [|y r'] eqn:Et'; simpl in Hct; [lia|].
        assert (Hnt : nth_error st t = Some (y :: r')).
        { rewrite <- Et'. apply nth_error_nth'. rewrite <- Lc. apply nth_error_Some. congruence. }
        specialize (HS t s0 y x Ne). rewrite Ect, Ec0, Et', Es0 in HS. simpl in HS.
        specialize (HS (or_introl eq_refl) (or_introl eq_refl)).
        pose proof (Hmin _ _ _ Hnt) as C1.
        destruct b.
        - destruct HS as [C|[C L]]; [congruence|]. pose proof (Hst eq_refl _ _ _ L Hnt). congruence.
        - congruence. }
      destruct Hc0 as (n0 & Ec0). pose proof (nth_error_nth_default _ _ _ 0 Ec0) as Ec0'.
      set (c' := upd s0 n0 c).
      assert (Hc's0 : nth s0 c' 0 = n0) by (unfold c'; apply nth_upd_eq; lia).
      assert (Hst1s0 : nth s0 (upd s0 r st) [] = r) by (apply nth_upd_eq; lia).
      assert (Hskip : forall t, skipn (nth t c' 0) (nth t (upd s0 r st) []) = skipn (nth t c 0) (nth t st [])).
      { intros t. destruct (Nat.eq_dec s0 t) as [<-|Ne].
        - rewrite Hc's0, Hst1s0, Ec0', Es0. reflexivity.
        - unfold c'. now rewrite !nth_upd_neq by exact Ne. }
      assert (Hfirst : forall t z, In z (firstn (nth t c' 0) (nth t (upd s0 r st) [])) -> In z (firstn (nth t c 0) (nth t st []))).
      { intros t z. destruct (Nat.eq_dec s0 t) as [<-|Ne].
        - rewrite Hc's0, Hst1s0, Ec0', Es0. simpl. auto.
        - unfold c'. now rewrite !nth_upd_neq by exact Ne. }
      assert (HS' : Sep b c' (upd s0 r st)).
      { intros s1 t1 x1 y1 Ne1 Hx1 Hy1. apply (HS s1 t1 x1 y1 Ne1); [now apply Hfirst|now rewrite <- Hskip]. }
      assert (Hok' : cut_ok c' (upd s0 r st)).
      { split; [unfold c'; now rewrite !length_upd|].
        intros t. destruct (Nat.eq_dec s0 t) as [<-|Ne].
        - rewrite Hc's0, Hst1s0. pose proof (Hc s0) as Q. rewrite Ec0', Es0 in Q. simpl in Q. lia.
        - unfold c'. rewrite !nth_upd_neq by exact Ne. apply Hc. }
      assert (Hlen' : length o <= list_sum c').
      { unfold c'. rewrite (list_sum_upd_dec _ _ _ Ec0) in Hlen. lia. }
      destruct (IH c' HS' Hok' Hlen' s) as (p & Ep & Hp).
      exists p. rewrite <- Hskip. split; [exact Ep|]. intros Hl. apply Hp.
      unfold c'. rewrite (list_sum_upd_dec _ _ _ Ec0) in Hl. simpl in Hl. lia.
  Qed.

  (* -------------------------------------------------------------------------------------------------- *)
  (** * upper_bound / lower_bound and last elements *)
  Lemma ub_le v (l : list A) : ub ltb v l <= length l.
  Proof. induction l as [|x r IH]; simpl; auto. destruct (ltb v x); simpl; lia. Qed.
  Lemma lb_le v (l : list A) : lb ltb v l <= length l.
  Proof. induction l as [|x r IH]; simpl; auto. destruct (ltb x v); simpl; lia. Qed.

  Lemma ub_inside v (l : list A) x : In x (firstn (ub ltb v l) l) -> ltb v x = false.
  Proof.
    induction l as [|y r IH]; simpl; [tauto|]. destruct (ltb v y) eqn:C; simpl; [tauto|].
    intros [<-|Hx]; auto.
  Qed.
  Lemma lb_inside v (l : list A) x : In x (firstn (lb ltb v l) l) -> ltb x v = true.
  Proof.
    induction l as [|y r IH]; simpl; [tauto|]. destruct (ltb y v) eqn:C; simpl; [|tauto].
    intros [<-|Hx]; auto.
  Qed.

  Lemma ub_outside v (l : list A) y : StronglySorted srel l -> In y (skipn (ub ltb v l) l) -> ltb v y = true.
  Proof.
    induction 1 as [|x r Hs IH Hf]; simpl; [tauto|]. destruct (ltb v x) eqn:C; simpl; auto.
    intros [<-|Hy]; auto. rewrite Forall_forall in Hf. specialize (Hf _ Hy). unfold sorted_rel in Hf.
    (* v < x <= y *)
    apply (ltb_leb_trans _ H v x y C). unfold leb. now rewrite Hf.
  Qed.
  Lemma lb_outside v (l : list A) y : StronglySorted srel l -> In y (skipn (lb ltb v l) l) -> ltb y v = false.
  Proof.
    induction 1 as [|x r Hs IH Hf]; simpl; [tauto|]. destruct (ltb x v) eqn:C; simpl; auto.
    intros [<-|Hy]; auto. rewrite Forall_forall in Hf. specialize (Hf _ Hy). unfold sorted_rel in Hf.
    (* v <= x <= y *)
    destruct (ltb y v) eqn:C2; auto. destruct (swo_negtrans _ H _ _ x C2) as [K|K]; congruence.
  Qed.

  Lemma last_error_In (l : list A) z : last_error l = Some z -> In z l.
  Proof.
    induction l as [|x r IH]; [discriminate|]. destruct r as [|y r']; simpl in *.
    - intros E; inversion E; auto.
    - intros E. right. apply IH. exact E.
  Qed.

  Lemma last_error_max (l : list A) z x : StronglySorted srel l -> last_error l = Some z -> In x l -> ltb z x = false.
  Proof.
    induction 1 as [|y r Hs IH Hf]; [discriminate|]. destruct r as [|y' r'].
    - simpl. intros E [<-|[]]. inversion E; subst. apply (swo_irrefl _ H).
    - intros E [<-|Hx].
      + rewrite Forall_forall in Hf. apply Hf. apply last_error_In. exact E.
      + apply IH; auto.
  Qed.

  Lemma skipn_last (l : list A) z : last_error l = Some z -> skipn (length l - 1) l = [z].
  Proof.
    induction l as [|x r IH]; [discriminate|]. destruct r as [|y r'].
    - simpl. intros E; inversion E; reflexivity.
    - intros E. specialize (IH E). simpl length in *. replace (S (S (length r')) - 1) with (S (length r' - 0)) by lia.
      rewrite Nat.sub_0_r. simpl. simpl in IH. rewrite Nat.sub_0_r in IH. exact IH.
  Qed.

  Lemma ub_lt_length v (l : list A) z : last_error l = Some z -> ltb v z = true -> ub ltb v l < length l.
  Proof.
    intros E C. pose proof (ub_le v l) as L. destruct (Nat.eq_dec (ub ltb v l) (length l)) as [Eq|]; [|lia].
    exfalso. pose proof (ub_inside v l z) as Q. rewrite Eq, firstn_all in Q. rewrite Q in C; [discriminate|].
    apply last_error_In; auto.
  Qed.
  Lemma lb_lt_length v (l : list A) z : last_error l = Some z -> ltb z v = false -> lb ltb v l < length l.
  Proof.
    intros E C. pose proof (lb_le v l) as L. destruct (Nat.eq_dec (lb ltb v l) (length l)) as [Eq|]; [|lia].
    exfalso. pose proof (lb_inside v l z) as Q. rewrite Eq, firstn_all in Q. rewrite Q in C; [discriminate|].
    apply last_error_In; auto.
  Qed.
  Lemma ub_last_all (l : list A) z : StronglySorted srel l -> last_error l = Some z -> ub ltb z l = length l.
  Proof.
    intros Hs E. assert (Hall : forall x, In x l -> ltb z x = false) by (intros; eapply last_error_max; eauto).
    clear E Hs. induction l as [|x r IH]; simpl; auto. rewrite (Hall x (or_introl eq_refl)). f_equal. apply IH.
    intros y Hy. apply Hall. now right.
  Qed.

  (* -------------------------------------------------------------------------------------------------- *)
  (** * prepare_unguarded *)
  Fixpoint cuts (stable : bool) (mn : A) (ms : nat) (i : nat) (st : state) : list nat :=
    match st with
    | [] => []
    | l :: r => (if (i <=? ms) && stable then ub ltb mn l else lb ltb mn l) :: cuts stable mn ms (S i) r
    end.

  Lemma cuts_length stable mn ms i st : length (cuts stable mn ms i st) = length st.
  Proof. revert i; induction st as [|l r IH]; intros i; simpl; auto. Qed.

  Lemma cuts_nth stable mn ms i st s : s < length st ->
    nth s (cuts stable mn ms i st) 0 =
    if (i + s <=? ms) && stable then ub ltb mn (nth s st []) else lb ltb mn (nth s st []).
  Proof.
    revert i s; induction st as [|l r IH]; intros i s Hs; simpl in Hs; [lia|].
    destruct s as [|s]; simpl.
    - now rewrite Nat.add_0_r.
    - rewrite IH by lia. now replace (S i + s) with (i + S s) by lia.
  Qed.

  Lemma cuts_le stable mn ms i st s : nth s (cuts stable mn ms i st) 0 <= length (nth s st []).
  Proof.
    destruct (Nat.lt_ge_cases s (length st)) as [L|L].
    - rewrite cuts_nth by exact L. destruct ((i + s <=? ms) && stable); [apply ub_le|apply lb_le].
    - rewrite nth_overflow by (rewrite cuts_length; lia). lia.
  Qed.

  Lemma overhang_cuts stable mn ms i st :
    overhang ltb stable mn ms i st + list_sum (cuts stable mn ms i st) = total st.
  Proof.
    revert i; induction st as [|l r IH]; intros i; simpl; [reflexivity|].
    rewrite total_cons. specialize (IH (S i)).
    assert (Q : (if (i <=? ms) && stable then ub ltb mn l else lb ltb mn l) <= length l)
      by (destruct ((i <=? ms) && stable); [apply ub_le|apply lb_le]).
    lia.
  Qed.

  (** What the scan for the minimum of the last elements establishes. *)
  Definition lasts_ok (st : state) (mn : A) (ms : nat) : Prop :=
    ms < length st /\ last_error (nth ms st []) = Some mn /\
    (forall s, s < length st -> exists z, last_error (nth s st []) = Some z /\ ltb z mn = false /\ (s < ms -> ltb mn z = true)).

  Lemma min_last_spec rest : forall i cur curi mn ms,
    curi < i ->
    min_last ltb i cur curi rest = (Some mn, ms) ->
    (ms = curi /\ mn = cur \/ i <= ms /\ ms < i + length rest /\ last_error (nth (ms - i) rest []) = Some mn) /\
    ltb cur mn = false /\ (ms <> curi -> ltb mn cur = true) /\
    (forall s, s < length rest -> exists z, last_error (nth s rest []) = Some z /\ ltb z mn = false /\ (i + s < ms -> ltb mn z = true)).
  Proof.
    induction rest as [|l r IH]; intros i cur curi mn ms Hci E; simpl in E.
    - inversion E; subst. split; [left; auto|]. split; [apply (swo_irrefl _ H)|]. split; [congruence|]. intros s Hs; simpl in Hs; lia.
    - destruct (last_error l) as [v|] eqn:El; [|discriminate].
      destruct (ltb v cur) eqn:C.
      + destruct (IH _ _ _ _ _ (Nat.lt_succ_diag_r i) E) as (Hpos & Hle & Hne & Hall).
        assert (Hcur : ltb cur mn = false).
        { (* mn <= v < cur *) destruct (ltb cur mn) eqn:C2; auto.
          pose proof (swo_trans _ H _ _ _ C C2). congruence. }
        split.
        { right. destruct Hpos as [[-> ->]|(L1 & L2 & E1)].
          - simpl. replace (i - i) with 0 by lia. simpl. split; [lia|]. split; [lia|exact El].
          - simpl length. split; [lia|]. split; [lia|]. replace (ms - i) with (S (ms - S i)) by lia. exact E1. }
        split; [exact Hcur|]. split.
        { intros _. (* mn <= v < cur *) apply (leb_ltb_trans _ H mn v cur); auto. unfold leb. now rewrite Hle. }
        intros [|s] Hs; simpl in Hs.
        * exists v. split; [exact El|]. split; [exact Hle|]. intros L. apply Hne. lia.
        * destruct (Hall s ltac:(lia)) as (z & Ez & Hz1 & Hz2). exists z. split; [exact Ez|]. split; auto. intros L. apply Hz2. lia.
      + destruct (IH _ _ _ _ _ (Nat.lt_lt_succ_r _ _ Hci) E) as (Hpos & Hle & Hne & Hall).
        split.
        { destruct Hpos as [[-> ->]|(L1 & L2 & E1)]; [left; auto|right].
          simpl length. split; [lia|]. split; [lia|]. replace (ms - i) with (S (ms - S i)) by lia. exact E1. }
        split; [exact Hle|]. split; [exact Hne|].
        intros [|s] Hs; simpl in Hs.
        * exists v. split; [exact El|]. split.
          -- (* mn <= cur <= v *) destruct (ltb v mn) eqn:C2; auto.
             destruct (swo_negtrans _ H _ _ cur C2) as [K|K]; congruence.
          -- intros L. assert (Ne : ms <> curi) by lia.
             apply (ltb_leb_trans _ H mn cur v (Hne Ne)). unfold leb. now rewrite C.
        * destruct (Hall s ltac:(lia)) as (z & Ez & Hz1 & Hz2). exists z. split; [exact Ez|]. split; auto. intros L. apply Hz2. lia.
  Qed.

  Lemma last_error_none (l : list A) : last_error l = None -> l = [].
  Proof.
    induction l as [|x r IH]; auto. destruct r as [|y r']; [discriminate|]. intros E. specialize (IH E). discriminate.
  Qed.

  Lemma min_last_none rest : forall i cur curi j,
    min_last ltb i cur curi rest = (None, j) -> i <= j /\ j < i + length rest /\ nth (j - i) rest [] = [].
  Proof.
    induction rest as [|l r IH]; intros i cur curi j E; simpl in E; [discriminate|].
    destruct (last_error l) as [v|] eqn:El.
    - assert (Q : S i <= j /\ j < S i + length r /\ nth (j - S i) r [] = []).
      { destruct (ltb v cur); eapply IH; eauto. }
      destruct Q as (Q1 & Q2 & Q3). simpl length. split; [lia|]. split; [lia|].
      replace (j - i) with (S (j - S i)) by lia. exact Q3.
    - inversion E; subst. simpl. split; [lia|]. split; [lia|]. rewrite Nat.sub_diag. simpl. now apply last_error_none.
  Qed.

  (** prepare_unguarded: either an empty sequence is reported, or the cut data. *)
  Lemma prepare_none stable (st : state) ms :
    st <> [] -> prepare_unguarded ltb stable st = (None, ms) -> ms < length st /\ nth ms st [] = [].
  Proof.
    intros Hne. unfold prepare_unguarded. destruct st as [|l0 r]; [congruence|].
    destruct (last_error l0) as [v0|] eqn:E0.
    - destruct (min_last ltb 1 v0 0 r) as [[mn|] j] eqn:Em; [discriminate|].
      intros E; inversion E; subst. destruct (min_last_none _ _ _ _ _ Em) as (Q1 & Q2 & Q3).
      simpl. split; [lia|]. destruct ms as [|ms]; [lia|]. simpl in *. now rewrite Nat.sub_0_r in Q3.
    - intros E; inversion E; subst. simpl. split; [lia|]. now apply last_error_none.
  Qed.

  Lemma prepare_some stable (st : state) ov ms :
    prepare_unguarded ltb stable st = (Some ov, ms) ->
    exists mn, lasts_ok st mn ms /\ ov + list_sum (cuts stable mn ms 0 st) = total st.
  Proof.
    unfold prepare_unguarded. destruct st as [|l0 r]; [discriminate|].
    destruct (last_error l0) as [v0|] eqn:E0; [|discriminate].
    destruct (min_last ltb 1 v0 0 r) as [[mn|] j] eqn:Em; [|discriminate].
    intros E; inversion E; subst. exists mn. split; [|exact (overhang_cuts stable mn ms 0 (l0 :: r))].
    destruct (min_last_spec _ _ _ _ _ _ Nat.lt_0_1 Em) as (Hpos & Hle & Hne & Hall).
    unfold lasts_ok. split; [|split].
    - destruct Hpos as [[-> _]|(L1 & L2 & _)]; simpl; lia.
    - destruct Hpos as [[-> ->]|(L1 & L2 & E1)]; [exact E0|].
      destruct ms as [|ms]; [lia|]. simpl in *. now rewrite Nat.sub_0_r in E1.
    - intros [|s] Hs; simpl in Hs.
      + exists v0. split; [exact E0|]. split; [exact Hle|]. intros L. apply Hne. lia.
      + destruct (Hall s ltac:(lia)) as (z & Ez & Hz1 & Hz2). exists z. split; [exact Ez|]. split; [exact Hz1|].
        intros L. apply Hz2. lia.
  Qed.

  (* -------------------------------------------------------------------------------------------------- *)
  (** * The cuts separate *)
  Section Cuts.
    Variable st : state.
    Variable mn : A.
    Variable ms : nat.
    Hypothesis Hl : lasts_ok st mn ms.
    Hypothesis Hsorted : sorted_state ltb st.

    Definition Lo (s : nat) (x : A) : Prop := if s <=? ms then ltb mn x = false else ltb x mn = true.
    Definition Hi (t : nat) (y : A) : Prop := if t <? ms then ltb mn y = true else ltb y mn = false.

    Lemma lo_hi_order s t x y : s <> t -> Lo s x -> Hi t y -> ltb x y = true \/ (ltb y x = false /\ s < t).
    Proof.
      unfold Lo, Hi. intros Ne. destruct (t <? ms) eqn:Ct; destruct (s <=? ms) eqn:Cs; intros HL HH.
      - left. apply (leb_ltb_trans _ H x mn y); auto. unfold leb. now rewrite HL.
      - left. eapply (swo_trans _ H); eauto.
      - right. apply Nat.ltb_ge in Ct. apply Nat.leb_le in Cs. split; [|lia].
        assert (L : leb ltb x y = true) by (apply (leb_trans _ H x mn y); unfold leb; [now rewrite HL|now rewrite HH]).
        unfold leb in L. now apply negb_true_iff in L.
      - left. apply (ltb_leb_trans _ H x mn y); auto. unfold leb. now rewrite HH.
    Qed.

    Lemma sep_of_bounds c :
      (forall s x, In x (firstn (nth s c 0) (nth s st [])) -> Lo s x) ->
      (forall t y, In y (skipn (nth t c 0) (nth t st [])) -> Hi t y) -> Sep true c st.
    Proof. intros HL HH s t x y Ne Hx Hy. apply (lo_hi_order s t); auto. Qed.

    Lemma nth_sorted s : StronglySorted srel (nth s st []).
    Proof.
      destruct (Nat.lt_ge_cases s (length st)) as [L|L].
      - unfold sorted_state in Hsorted. rewrite Forall_forall in Hsorted. apply Hsorted. now apply nth_In.
      - rewrite nth_overflow by lia. constructor.
    Qed.

    Let c1 := cuts true mn ms 0 st.

    Lemma c1_inside s x : In x (firstn (nth s c1 0) (nth s st [])) -> Lo s x.
    Proof.
      destruct (Nat.lt_ge_cases s (length st)) as [L|L].
      - unfold c1. rewrite cuts_nth by exact L. simpl. rewrite andb_true_r. unfold Lo.
        destruct (s <=? ms); [apply ub_inside|apply lb_inside].
      - rewrite (nth_overflow st) by lia. rewrite firstn_nil. intros [].
    Qed.

    Lemma c1_outside t y : In y (skipn (nth t c1 0) (nth t st [])) -> Hi t y.
    Proof.
      destruct (Nat.lt_ge_cases t (length st)) as [L|L].
      - unfold c1. rewrite cuts_nth by exact L. simpl. rewrite andb_true_r. unfold Hi.
        destruct (t <=? ms) eqn:C1; destruct (t <? ms) eqn:C2.
        + apply ub_outside. apply nth_sorted.
        + intros Hy. apply (swo_asym _ H). revert Hy. apply ub_outside. apply nth_sorted.
        + apply Nat.leb_gt in C1. apply Nat.ltb_lt in C2. lia.
        + apply lb_outside. apply nth_sorted.
      - rewrite (nth_overflow st) by lia. rewrite skipn_nil. intros [].
    Qed.

    Lemma sep_stable_full : Sep true c1 st.
    Proof. apply sep_of_bounds; [apply c1_inside|apply c1_outside]. Qed.

    Lemma c1_ms : nth ms c1 0 = length (nth ms st []).
    Proof.
      destruct Hl as (Lms & Ems & _). unfold c1. rewrite cuts_nth by exact Lms. simpl.
      rewrite Nat.leb_refl. simpl. apply ub_last_all; auto. apply nth_sorted.
    Qed.

    Lemma nth_ms_nonempty : 1 <= length (nth ms st []).
    Proof. destruct Hl as (_ & Ems & _). destruct (nth ms st []); [discriminate|simpl; lia]. Qed.

    Let c2 := upd ms (length (nth ms st []) - 1) c1.

    Lemma sep_stable_minus : Sep true c2 st.
    Proof.
      destruct Hl as (Lms & Ems & _).
      assert (Lc : ms < length c1) by (unfold c1; now rewrite cuts_length).
      apply sep_of_bounds.
      - intros s x. unfold c2. destruct (Nat.eq_dec ms s) as [<-|Ne].
        + rewrite nth_upd_eq by exact Lc. intros Hx. apply c1_inside. rewrite c1_ms, firstn_all.
          rewrite <- (firstn_skipn (length (nth ms st []) - 1) (nth ms st [])). apply in_or_app. now left.
        + rewrite nth_upd_neq by exact Ne. apply c1_inside.
      - intros t y. unfold c2. destruct (Nat.eq_dec ms t) as [<-|Ne].
        + rewrite nth_upd_eq by exact Lc. rewrite (skipn_last _ _ Ems). intros [<-|[]].
          unfold Hi. rewrite Nat.ltb_irrefl. apply (swo_irrefl _ H).
        + rewrite nth_upd_neq by exact Ne. apply c1_outside.
    Qed.

    Lemma cut_ok_c1 : cut_ok c1 st.
    Proof. split; [apply cuts_length|apply cuts_le]. Qed.

    Lemma cut_ok_c2 : cut_ok c2 st.
    Proof.
      destruct cut_ok_c1 as [L1 L2]. split; [unfold c2; now rewrite length_upd|].
      intros s. unfold c2. destruct (Nat.eq_dec ms s) as [<-|Ne].
      - rewrite nth_upd_eq by (rewrite L1; apply Hl). lia.
      - rewrite nth_upd_neq by exact Ne. apply L2.
    Qed.

    Lemma sum_c2 : list_sum c1 = S (list_sum c2).
    Proof.
      unfold c2. apply list_sum_upd_dec.
      assert (Lc : ms < length c1) by (unfold c1; rewrite cuts_length; apply Hl).
      rewrite (nth_error_nth' c1 0 Lc). rewrite c1_ms. f_equal. pose proof nth_ms_nonempty. lia.
    Qed.

    Lemma c2_lt s : s < length st -> nth s c2 0 < length (nth s st []).
    Proof.
      intros Ls. destruct Hl as (Lms & Ems & Hall). unfold c2.
      destruct (Nat.eq_dec ms s) as [<-|Ne].
      - rewrite nth_upd_eq by (unfold c1; now rewrite cuts_length). pose proof nth_ms_nonempty. lia.
      - rewrite nth_upd_neq by exact Ne. unfold c1. rewrite cuts_nth by exact Ls. simpl. rewrite andb_true_r.
        destruct (Hall s Ls) as (z & Ez & Hz1 & Hz2).
        destruct (s <=? ms) eqn:C.
        + apply Nat.leb_le in C. apply (ub_lt_length _ _ z Ez). apply Hz2. lia.
        + apply (lb_lt_length _ _ z Ez Hz1).
    Qed.

    Let c0 := cuts false mn ms 0 st.

    Lemma c0_nth s : s < length st -> nth s c0 0 = lb ltb mn (nth s st []).
    Proof. intros Ls. unfold c0. rewrite cuts_nth by exact Ls. now rewrite andb_false_r. Qed.

    Lemma sep_unstable : Sep false c0 st.
    Proof.
      intros s t x y Ne Hx Hy.
      assert (Cx : ltb x mn = true).
      { destruct (Nat.lt_ge_cases s (length st)) as [L|L].
        - rewrite c0_nth in Hx by exact L. eapply lb_inside; eauto.
        - rewrite (nth_overflow st) in Hx by lia. rewrite firstn_nil in Hx. destruct Hx. }
      assert (Cy : ltb y mn = false).
      { destruct (Nat.lt_ge_cases t (length st)) as [L|L].
        - rewrite c0_nth in Hy by exact L. eapply lb_outside; eauto. apply nth_sorted.
        - rewrite (nth_overflow st) in Hy by lia. rewrite skipn_nil in Hy. destruct Hy. }
      apply (ltb_leb_trans _ H x mn y Cx). unfold leb. now rewrite Cy.
    Qed.

    Lemma cut_ok_c0 : cut_ok c0 st.
    Proof. split; [apply cuts_length|apply cuts_le]. Qed.

    Lemma c0_lt s : s < length st -> nth s c0 0 < length (nth s st []).
    Proof.
      intros Ls. rewrite c0_nth by exact Ls. destruct Hl as (_ & _ & Hall).
      destruct (Hall s Ls) as (z & Ez & Hz1 & _). apply (lb_lt_length _ _ z Ez Hz1).
    Qed.

    Lemma skipn_nonempty (l : list A) n : n < length l -> skipn n l <> [].
    Proof. intros Hn E. pose proof (skipn_length n l) as Q. rewrite E in Q. simpl in Q. lia. Qed.

    Lemma above_nonempty c (st' : state) :
      length st' = length st -> (forall s, s < length st -> nth s c 0 < length (nth s st [])) ->
      (forall s, exists p, nth s st' [] = p ++ skipn (nth s c 0) (nth s st [])) ->
      Forall (fun l => l <> []) st'.
    Proof.
      intros Ll Hlt Hab. apply Forall_forall. intros l Hin. apply In_nth_error in Hin. destruct Hin as (s & Es).
      assert (Ls : s < length st) by (rewrite <- Ll; apply nth_error_Some; congruence).
      destruct (Hab s) as (p & Ep). rewrite (nth_error_nth_default _ _ _ [] Es) in Ep. subst l.
      intros E. apply app_eq_nil in E. destruct E as [_ E]. revert E. apply skipn_nonempty. now apply Hlt.
    Qed.

    Variable l0 : list A.
    Variable rest : state.
    Variable sen : A.
    Hypothesis Est : st = l0 :: rest.
    Hypothesis Esen : last_error l0 = Some sen.

    (** Stable: while fewer than [total - overhang] elements are merged, all is well. *)
    Lemma ugood_stable n : n <= list_sum c1 -> ugood_run ltb true sen n st.
    Proof.
      intros Hn o st' R L.
      assert (Hab : forall s, exists p, nth s st' [] = p ++ skipn (nth s c2 0) (nth s st [])).
      { intros s. destruct (run_above_cut true st o st' R c2 sep_stable_minus cut_ok_c2) with (s := s) as (p & Ep & _).
        - pose proof sum_c2. lia.
        - eauto. }
      pose proof (mrun_length ltb _ _ _ _ R) as Ll.
      assert (Hne : Forall (fun l => l <> []) st') by (eapply above_nonempty; eauto using c2_lt).
      split; [exact Hne|].
      (* the head of sequence 0 is an element of l0, hence not greater than its last element *)
      destruct (mrun_interleave ltb _ _ _ _ R) as (ps & _ & _ & Hsuf). specialize (Hsuf 0).
      rewrite Est in Hsuf. simpl in Hsuf.
      destruct st' as [|l0' st'']; [rewrite Est in Ll; simpl in Ll; lia|].
      pose proof (Forall_inv Hne) as Hl0'. destruct l0' as [|x r]; [exfalso; now apply Hl0'|].
      exists 0, x, r. split; [reflexivity|]. unfold beats.
      apply (last_error_max l0 sen x); auto.
      - pose proof (nth_sorted 0) as Q. rewrite Est in Q. exact Q.
      - simpl in Hsuf. rewrite Hsuf. apply in_or_app. right. now left.
    Qed.

    (** After exactly [total - overhang] steps of the stable merge, sequence [min_seq] is exhausted. *)
    Lemma stable_exhausts o st' : mrun true st o st' -> length o = list_sum c1 -> nth ms st' [] = [].
    Proof.
      intros R L.
      destruct (run_above_cut true st o st' R c1 sep_stable_full cut_ok_c1 ltac:(lia) ms) as (p & Ep & Hp).
      rewrite Ep, (Hp L), c1_ms, skipn_all. reflexivity.
    Qed.

    (** Unstable. *)
    Lemma ugood_unstable n : n <= list_sum c0 -> ugood_run ltb false sen n st.
    Proof.
      intros Hn o st' R L.
      pose proof (mrun_length ltb _ _ _ _ R) as Ll.
      assert (Hne : Forall (fun l => l <> []) st').
      { eapply above_nonempty; eauto using c0_lt. intros s.
        destruct (run_above_cut false st o st' R c0 sep_unstable cut_ok_c0 ltac:(lia) s) as (p & Ep & _). eauto. }
      split; [exact Hne|].
      (* the next element a merge takes lies inside the cut, hence is smaller than mn <= sen *)
      pose proof (mrun_total ltb _ _ _ _ R) as Tot.
      assert (Hsum : list_sum c0 <= total st).
      { pose proof (overhang_cuts false mn ms 0 st). unfold c0. lia. }
      destruct (spick ltb st') as [[s y]|] eqn:Esp; [|pose proof (spick_none ltb _ Esp); lia].
      destruct (spick_spec ltb H _ _ _ Esp) as (r & Hs & _).
      pose proof (mstep_weaken ltb _ _ _ _ (spick_mstep ltb H _ _ _ Esp)) as MS.
      assert (R' : mrun false st (o ++ [y]) (adv s st')).
      { eapply mrun_app; eauto. econstructor; [exact MS|constructor]. }
      destruct (run_above_cut false st _ _ R' c0 sep_unstable cut_ok_c0) with (s := s) as (p & Ep & _).
      { rewrite app_length. simpl. lia. }
      assert (Ls : s < length st') by (apply nth_error_Some; congruence).
      unfold adv in Ep. rewrite nth_upd_eq in Ep by exact Ls. rewrite (nth_error_nth_default _ _ _ [] Hs) in Ep. simpl in Ep.
      destruct (mrun_interleave ltb _ _ _ _ R) as (ps & _ & _ & Hsuf). specialize (Hsuf s).
      rewrite (nth_error_nth_default _ _ _ [] Hs), Ep in Hsuf.
      assert (Hin : In y (firstn (nth s c0 0) (nth s st []))).
      { assert (E : (nth s ps [] ++ y :: p) ++ skipn (nth s c0 0) (nth s st []) =
                    firstn (nth s c0 0) (nth s st []) ++ skipn (nth s c0 0) (nth s st [])).
        { rewrite firstn_skipn. rewrite <- app_assoc. simpl. now rewrite <- Hsuf. }
        apply app_inv_tail in E. rewrite <- E. apply in_or_app. right. now left. }
      rewrite c0_nth in Hin by lia. apply lb_inside in Hin.
      exists s, y, r. split; [exact Hs|]. unfold beats.
      destruct Hl as (_ & _ & Hall). destruct (Hall 0) as (z & Ez & Hz1 & _); [rewrite Est; simpl; lia|].
      rewrite Est in Ez. simpl in Ez. rewrite Esen in Ez. inversion Ez; subst z.
      apply (ltb_leb_trans _ H y mn sen Hin). unfold leb. now rewrite Hz1.
    Qed.
  End Cuts.

  (** For the unguarded automata: the heads exist while fewer than [total - overhang] elements are merged. *)
  Lemma ugood_safe sen n (st : state) : n <= total st -> ugood_run ltb true sen n st -> safe ltb n st.
  Proof.
    intros Hn Hg m Hm. destruct (msteps_mrun ltb H m st ltac:(lia)) as [R L].
    destruct (Hg _ _ R ltac:(lia)) as [Hne _]. exact Hne.
  Qed.
End Unguarded.
