(** C05 — multiway_merge_bubble (stable and unstable).
    Invariant of the outer loop: the array [pl] of (head, source) pairs is sorted (by (key, source) when stable, by
    key otherwise) and holds exactly the heads of the non-empty sequences.  The inner loop emits from the first entry
    while it stays in front of the second; every emission is a step of the (stable) merge. *)
From Coq Require Import List Bool Arith Lia Sorting.Sorted Sorting.Permutation.
From TLXV Require Import Common.Order C05.AutoDefs C05.StableMerge C05.Model C05.MergeFacts.
Import ListNotations.

Section Bubble.
  Context {A : Type}.
  Variable ltb : A -> A -> bool.
  Hypothesis H : SWO ltb.

  Notation state := (list (list A)).
  Notation mstep := (mstep ltb).
  Notation mrun := (mrun ltb).

  (** (key, source) lexicographically is a strict weak order. *)
  Lemma SWO_bub stable : SWO (bub_lt ltb stable).
  Proof.
    destruct stable; [|apply (SWO_on ltb fst H)].
    constructor.
    - intros [x s]. unfold bub_lt. simpl. rewrite (swo_irrefl _ H), Nat.ltb_irrefl. reflexivity.
    - intros [x s] [y t] [z u]. unfold bub_lt. simpl.
      rewrite !orb_true_iff, !andb_true_iff, !negb_true_iff, !Nat.ltb_lt.
      intros [C1|[C1 L1]] [C2|[C2 L2]].
      + left. eapply (swo_trans _ H); eauto.
      + left. apply (ltb_leb_trans _ H x y z C1). unfold leb. now rewrite C2.
      + left. apply (leb_ltb_trans _ H x y z); auto. unfold leb. now rewrite C1.
      + destruct (ltb x z) eqn:C3; auto. right. split; [|lia].
        assert (L : leb ltb x z = true) by (apply (leb_trans _ H x y z); unfold leb; [now rewrite C1|now rewrite C2]).
        unfold leb in L. now apply negb_true_iff in L.
    - intros [x s] [y t] [z u]. unfold bub_lt. simpl.
      rewrite !orb_true_iff, !andb_true_iff, !negb_true_iff, !Nat.ltb_lt.
      intros [C|[C L]].
      + destruct (swo_negtrans _ H _ _ z C) as [K|K]; auto.
      + destruct (ltb x z) eqn:C1; auto. destruct (ltb z y) eqn:C2; auto.
        (* x, y, z pairwise equivalent *)
        assert (C3 : ltb z x = false).
        { destruct (ltb z x) eqn:K; auto. destruct (swo_negtrans _ H _ _ y K) as [K'|K']; congruence. }
        assert (C4 : ltb y z = false).
        { destruct (ltb y z) eqn:K; auto. destruct (swo_negtrans _ H _ _ x K) as [K'|K']; congruence. }
        destruct (Nat.lt_ge_cases s u); [left; right; auto|right; right; split; auto; lia].
  Qed.

  Notation ble stable := (fun p q : A * nat => bub_lt ltb stable q p = false).

  Lemma ble_trans stable p q r : bub_lt ltb stable q p = false -> bub_lt ltb stable r q = false -> bub_lt ltb stable r p = false.
  Proof.
    intros C1 C2. pose proof (leb_trans _ (SWO_bub stable) p q r) as T. unfold leb in T.
    rewrite C1, C2 in T. specialize (T eq_refl eq_refl). now apply negb_true_iff in T.
  Qed.

  Lemma bub_key stable p q : bub_lt ltb stable q p = false -> ltb (fst q) (fst p) = false.
  Proof. destruct stable; unfold bub_lt; [|auto]. rewrite orb_false_iff. tauto. Qed.

  (* -------------------------------------------------------------------------------------------------- *)
  (** * sink, bpass, bsort *)
  Lemma sink_perm stable p l : Permutation (sink ltb stable p l) (p :: l).
  Proof.
    induction l as [|q r IH]; simpl; [apply Permutation_refl|].
    destruct (bub_lt ltb stable q p); [|apply Permutation_refl].
    eapply Permutation_trans; [apply perm_skip; exact IH|apply perm_swap].
  Qed.

  Lemma sink_sorted stable p l : StronglySorted (ble stable) l -> StronglySorted (ble stable) (sink ltb stable p l).
  Proof.
    induction 1 as [|q r Hs IH Hf]; simpl; [repeat constructor|].
    destruct (bub_lt ltb stable q p) eqn:C.
    - constructor; [exact IH|]. apply Forall_forall. intros z Hz.
      apply (Permutation_in _ (sink_perm stable p r)) in Hz. destruct Hz as [<-|Hz].
      + apply (swo_asym _ (SWO_bub stable) _ _ C).
      + rewrite Forall_forall in Hf. auto.
    - constructor; [constructor; auto|]. constructor; [exact C|].
      rewrite Forall_forall in *. intros z Hz. apply (ble_trans stable p q z); auto.
  Qed.

  Lemma bpass_perm stable l : Permutation (bpass ltb stable l) l.
  Proof.
    induction l as [|x r IH]; simpl; [constructor|].
    destruct (bpass ltb stable r) as [|y r'] eqn:E.
    - apply Permutation_nil in IH. subst. apply Permutation_refl.
    - destruct (bub_lt ltb stable y x).
      + eapply Permutation_trans; [apply perm_swap|]. now apply perm_skip.
      + now apply perm_skip.
  Qed.

  Lemma bpass_min stable l m r : bpass ltb stable l = m :: r -> Forall (fun z => bub_lt ltb stable z m = false) r.
  Proof.
    revert m r; induction l as [|x l IH]; simpl; intros m r E; [discriminate|].
    destruct (bpass ltb stable l) as [|y r'] eqn:E'.
    - inversion E; subst. constructor.
    - specialize (IH _ _ eq_refl). destruct (bub_lt ltb stable y x) eqn:C; inversion E; subst.
      + constructor; [apply (swo_asym _ (SWO_bub stable) _ _ C)|exact IH].
      + constructor; [exact C|]. rewrite Forall_forall in *. intros z Hz. apply (ble_trans stable m y z); auto.
  Qed.

  Lemma bsort_perm stable fuel : forall l, Permutation (bsort ltb stable fuel l) l.
  Proof.
    induction fuel as [|f IH]; intros l; simpl; [apply Permutation_refl|].
    pose proof (bpass_perm stable l) as P. destruct (bpass ltb stable l) as [|m r]; [exact P|].
    eapply Permutation_trans; [apply perm_skip; apply IH|exact P].
  Qed.

  Lemma bsort_sorted stable fuel : forall l, length l <= S fuel -> StronglySorted (ble stable) (bsort ltb stable fuel l).
  Proof.
    induction fuel as [|f IH]; intros l Hl; simpl.
    - destruct l as [|x [|y l]]; simpl in Hl; try lia; repeat constructor.
    - pose proof (bpass_perm stable l) as P. destruct (bpass ltb stable l) as [|m r] eqn:E; [constructor|].
      pose proof (Permutation_length P) as PL. simpl in PL.
      constructor; [apply IH; lia|].
      pose proof (bpass_min stable l m r E) as Hm. rewrite Forall_forall in *.
      intros z Hz. apply Hm. exact (Permutation_in _ (bsort_perm stable f r) Hz).
  Qed.

  (* -------------------------------------------------------------------------------------------------- *)
  (** * [pl] versus the state *)
  (** entries other than source [s] are exactly the heads of the other non-empty sequences *)
  Definition consistent_but (s : option nat) (pl : list (A * nat)) (st : state) : Prop :=
    forall y t, Some t <> s -> (In (y, t) pl <-> exists r, nth_error st t = Some (y :: r)).

  Definition PLok (stable : bool) (pl : list (A * nat)) (st : state) : Prop :=
    StronglySorted (ble stable) pl /\ consistent_but None pl st /\ NoDup (map snd pl).

  Lemma collect_spec (st : state) : forall i y t,
    In (y, t) (collect i st) <-> i <= t /\ exists r, nth_error st (t - i) = Some (y :: r).
  Proof.
    induction st as [|l st IH]; intros i y t; simpl.
    - split; [tauto|]. intros (_ & r & E). destruct (t - i); discriminate.
    - destruct l as [|x l'].
      + rewrite IH. split.
        * intros (L & r & E). split; [lia|]. exists r. replace (t - i) with (S (t - S i)) by lia. exact E.
        * intros (L & r & E). destruct (t - i) as [|d] eqn:Ed; simpl in E; [discriminate|].
          split; [lia|]. exists r. replace (t - S i) with d by lia. exact E.
      + simpl. rewrite IH. split.
        * intros [E|(L & r & E)].
          -- inversion E; subst. split; [lia|]. exists l'. now rewrite Nat.sub_diag.
          -- split; [lia|]. exists r. replace (t - i) with (S (t - S i)) by lia. exact E.
        * intros (L & r & E). destruct (t - i) as [|d] eqn:Ed; simpl in E.
          -- inversion E; subst. left. f_equal. lia.
          -- right. split; [lia|]. exists r. replace (t - S i) with d by lia. exact E.
  Qed.

  Lemma collect_sources (st : state) : forall i, Forall (fun t => i <= t) (map snd (collect i st)) /\ NoDup (map snd (collect i st)).
  Proof.
    induction st as [|l st IH]; intros i; simpl; [split; constructor|].
    destruct (IH (S i)) as [F N]. destruct l as [|x l'].
    - split; auto. eapply Forall_impl; [|exact F]. simpl. intros; lia.
    - simpl. split.
      + constructor; [lia|]. eapply Forall_impl; [|exact F]. simpl. intros; lia.
      + constructor; auto. intros Hin. rewrite Forall_forall in F. specialize (F _ Hin). lia.
  Qed.

  Lemma PLok_init stable (st : state) : PLok stable (bsort ltb stable (length (collect 0 st) - 1) (collect 0 st)) st.
  Proof.
    set (pl0 := collect 0 st). pose proof (bsort_perm stable (length pl0 - 1) pl0) as P.
    split; [apply bsort_sorted; lia|]. split.
    - intros y t _. split.
      + intros Hin. apply (Permutation_in _ P) in Hin. apply collect_spec in Hin. destruct Hin as (_ & r & E).
        rewrite Nat.sub_0_r in E. eauto.
      + intros (r & E). apply (Permutation_in _ (Permutation_sym P)). apply collect_spec. split; [lia|]. rewrite Nat.sub_0_r. eauto.
    - apply (Permutation_NoDup (Permutation_map snd (Permutation_sym P))). apply collect_sources.
  Qed.

  (* -------------------------------------------------------------------------------------------------- *)
  (** * The inner loop *)
  Definition mode_ok (stable le : bool) (s : nat) (rest : list (A * nat)) : Prop :=
    match rest with
    | [] => True
    | q :: _ => if stable then (if le then s < snd q else snd q < s) else le = true
    end.

  (** what the inner loop hands to the sink step *)
  Definition PLpre (stable : bool) (pl : list (A * nat)) (st : state) : Prop :=
    match pl with [] => True | _ :: r => StronglySorted (ble stable) r end /\
    consistent_but None pl st /\ NoDup (map snd pl).

  Lemma consistent_upd_other s pl (st : state) r : consistent_but (Some s) pl st -> consistent_but (Some s) pl (upd s r st).
  Proof.
    intros Hc y t Ne. rewrite (Hc y t Ne). assert (s <> t) by congruence. now rewrite nth_error_upd_neq.
  Qed.

  Lemma bub_inner_ok stable le sz : forall x s rest (st : state) r0,
    nth_error st s = Some (x :: r0) ->
    StronglySorted (ble stable) rest -> consistent_but (Some s) rest st -> NoDup (map snd rest) -> ~ In s (map snd rest) ->
    mode_ok stable le s rest -> sz <= total st ->
    exists o pl' st' sz', bub_inner ltb le sz (x, s) rest st = Some (o, pl', st', sz') /\
      mrun stable st o st' /\ length o + sz' = sz /\ PLpre stable pl' st' /\
      (0 < sz -> match rest with [] => True | q :: _ => bub_lt ltb stable q (x, s) = false end -> 0 < length o).
  Proof.
    induction sz as [|sz IH]; intros x s rest st r0 Hn Hs Hc Nd Hns Hmode Hsz.
    - exists [], ((x, s) :: rest), st, 0. split; [reflexivity|]. split; [constructor|]. split; [reflexivity|]. split; [|lia].
      split; [exact Hs|]. split.
      + intros y t _. destruct (Nat.eq_dec t s) as [->|Ne].
        * split.
          -- intros [E|Hin]; [inversion E; subst; eauto|]. exfalso. apply Hns. apply (in_map snd) in Hin. exact Hin.
          -- intros (r & E). rewrite Hn in E. inversion E; subst. now left.
        * assert (Ne' : Some t <> Some s) by congruence. rewrite <- (Hc y t Ne'). split; [intros [E|Hin]; [inversion E; congruence|auto]|now right].
      + simpl. constructor; auto.
    - cbn [bub_inner].
      set (cond := match rest with [] => true | q :: _ => if le then negb (ltb (fst q) (fst (x, s))) else ltb (fst (x, s)) (fst q) end).
      destruct cond eqn:Ec.
      + (* emit *)
        cbn [snd fst]. rewrite Hn.
        assert (Ls : s < length st) by (apply nth_error_Some; congruence).
        (* this emission is a merge step *)
        assert (Hrest : forall y t, In (y, t) rest -> ltb y x = false /\ (stable = true -> t < s -> ltb x y = true)).
        { destruct rest as [|q rest']; [intros ? ? []|]. intros y t Hin.
          assert (Hq : bub_lt ltb stable (y, t) q = false).
          { destruct Hin as [<-|Hin]; [apply (swo_irrefl _ (SWO_bub stable))|].
            inversion Hs as [|? ? _ Hf]; subst. rewrite Forall_forall in Hf. auto. }
          unfold cond in Ec. simpl in Ec. destruct q as [qk sq]. simpl in *.
          destruct stable; unfold bub_lt in Hq; simpl in Hq.
          - apply orb_false_iff in Hq. destruct Hq as [Hq1 Hq2].
            destruct le.
            + (* x <= qk, s < sq *) apply negb_true_iff in Ec. split.
              * assert (L : leb ltb x y = true) by (apply (leb_trans _ H x qk y); unfold leb; [now rewrite Ec|now rewrite Hq1]).
                unfold leb in L. now apply negb_true_iff in L.
              * intros _ Lt. assert (Lq : t <? sq = true) by (apply Nat.ltb_lt; lia). rewrite Lq, andb_true_r in Hq2.
                apply negb_false_iff in Hq2. apply (leb_ltb_trans _ H x qk y); auto. unfold leb. now rewrite Ec.
            + (* x < qk *) assert (Lxy : ltb x y = true) by (apply (ltb_leb_trans _ H x qk y Ec); unfold leb; now rewrite Hq1).
              split; [apply (swo_asym _ H _ _ Lxy)|auto].
          - subst le. apply negb_true_iff in Ec. split; [|discriminate].
            assert (L : leb ltb x y = true) by (apply (leb_trans _ H x qk y); unfold leb; [now rewrite Ec|now rewrite Hq]).
            unfold leb in L. now apply negb_true_iff in L. }
        assert (MS : mstep stable st x (upd s r0 st)).
        { econstructor; eauto.
          - intros t y r' Ht. destruct (Nat.eq_dec t s) as [->|Ne].
            + rewrite Hn in Ht. inversion Ht; subst. apply (swo_irrefl _ H).
            + assert (Ne' : Some t <> Some s) by congruence. apply (Hrest y t). apply (Hc y t Ne'). eauto.
          - intros Hb t y r' Lt Ht. assert (Ne' : Some t <> Some s) by (intros E; inversion E; lia).
            apply (Hrest y t); auto. apply (Hc y t Ne'). eauto. }
        pose proof (total_upd _ _ _ _ Hn) as Tot.
        pose proof (consistent_upd_other s rest st r0 Hc) as Hc1.
        destruct r0 as [|y r1].
        * (* sequence exhausted: break *)
          exists [x], rest, (upd s [] st), sz. split; [reflexivity|]. split; [econstructor; [exact MS|constructor]|].
          split; [simpl; lia|]. split; [|simpl; lia].
          split; [destruct rest; [exact I|now inversion Hs]|]. split; [|exact Nd].
          intros z t _. destruct (Nat.eq_dec t s) as [->|Ne].
          -- split.
             ++ intros Hin. exfalso. apply Hns. apply (in_map snd) in Hin. exact Hin.
             ++ intros (r & E). rewrite nth_error_upd_eq in E by exact Ls. discriminate.
          -- assert (Ne' : Some t <> Some s) by congruence. apply (Hc1 z t Ne').
        * destruct (IH y s rest (upd s (y :: r1) st) r1) as (o & pl' & st' & sz' & E & R & L & Hpre & _); auto.
          -- now apply nth_error_upd_eq.
          -- lia.
          -- rewrite E. exists (x :: o), pl', st', sz'. split; [reflexivity|]. split; [econstructor; eauto|].
             split; [simpl; lia|]. split; [exact Hpre|simpl; lia].
      + (* condition false: leave the loop *)
        exists [], ((x, s) :: rest), st, (S sz). split; [reflexivity|]. split; [constructor|]. split; [reflexivity|]. split.
        * split; [exact Hs|]. split.
          -- intros y t _. destruct (Nat.eq_dec t s) as [->|Ne].
             ++ split.
                ** intros [E|Hin]; [inversion E; subst; eauto|]. exfalso. apply Hns. apply (in_map snd) in Hin. exact Hin.
                ** intros (r & E). rewrite Hn in E. inversion E; subst. now left.
             ++ assert (Ne' : Some t <> Some s) by congruence. rewrite <- (Hc y t Ne').
                split; [intros [E|Hin]; [inversion E; congruence|auto]|now right].
          -- simpl. constructor; auto.
        * (* at the first test of an outer iteration the condition holds *)
          intros _ Hfirst. exfalso. unfold cond in Ec. destruct rest as [|[qk sq] rest']; [discriminate|].
          unfold mode_ok in Hmode. simpl in *. destruct stable; unfold bub_lt in Hfirst; simpl in Hfirst.
          -- apply orb_false_iff in Hfirst. destruct Hfirst as [F1 F2]. destruct le.
             ++ rewrite F1 in Ec. discriminate.
             ++ assert (Lq : sq <? s = true) by (apply Nat.ltb_lt; lia). rewrite Lq, andb_true_r in F2.
                apply negb_false_iff in F2. congruence.
          -- subst le. rewrite Hfirst in Ec. discriminate.
  Qed.

  (* -------------------------------------------------------------------------------------------------- *)
  (** * The outer loop *)
  Lemma PLok_of_pre stable pl (st : state) :
    PLpre stable pl st -> PLok stable (match pl with [] => [] | p' :: r' => sink ltb stable p' r' end) st.
  Proof.
    intros (Hs & Hc & Nd). destruct pl as [|p' r']; [split; [constructor|split; auto]|].
    pose proof (sink_perm stable p' r') as P.
    split; [now apply sink_sorted|]. split.
    - intros y t Ne. rewrite <- (Hc y t Ne). split; intros Hin; [exact (Permutation_in _ P Hin)|exact (Permutation_in _ (Permutation_sym P) Hin)].
    - exact (Permutation_NoDup (Permutation_map snd (Permutation_sym P)) Nd).
  Qed.

  Lemma bub_outer_ok stable fuel : forall sz pl (st : state),
    sz <= fuel -> sz <= total st -> PLok stable pl st ->
    exists o st', bub_outer ltb stable fuel sz pl st = Some (o, st') /\ mrun stable st o st' /\ length o = sz.
  Proof.
    induction fuel as [|f IH]; intros sz pl st Hf Hsz (Hs & Hc & Nd).
    - assert (sz = 0) by lia. subst. exists [], st. split; [destruct pl; reflexivity|]. split; [constructor|reflexivity].
    - destruct pl as [|[x s] rest].
      + (* no non-empty sequence *)
        assert (total st = 0).
        { destruct (Nat.eq_dec (total st) 0) as [|Ne]; auto. destruct (total_pos_nonempty st ltac:(lia)) as (t & y & r & E).
          exfalso. assert (Ne' : Some t <> None) by discriminate. apply (proj2 (Hc y t Ne')). eauto. }
        exists [], st. split; [reflexivity|]. split; [constructor|simpl; lia].
      + destruct sz as [|sz']; [exists [], st; split; [reflexivity|]; split; [constructor|reflexivity]|].
        cbn [bub_outer].
        set (le := if stable then match rest with [] => true | q :: _ => snd (x, s) <? snd q end else true).
        assert (Hx : exists r0, nth_error st s = Some (x :: r0)).
        { assert (Ne' : Some s <> None) by discriminate. apply (proj1 (Hc x s Ne')). now left. }
        destruct Hx as (r0 & Hn).
        inversion Hs as [|? ? Hs_rest Hf_rest]; subst. simpl in Nd. inversion Nd as [|? ? Hns Nd_rest]; subst.
        destruct (bub_inner_ok stable le (S sz') x s rest st r0 Hn Hs_rest) as (o & pl1 & st1 & sz1 & E & R & L & Hpre & Hprog); auto.
        * intros y t Ne. assert (Ne' : Some t <> None) by discriminate. rewrite <- (Hc y t Ne').
          split; [now right|]. intros [Eq|Hin]; [inversion Eq; congruence|exact Hin].
        * unfold mode_ok, le. destruct rest as [|[qk sq] rest']; [exact I|]. simpl. destruct stable; [|reflexivity].
          destruct (s <? sq) eqn:C; [now apply Nat.ltb_lt in C|]. apply Nat.ltb_ge in C.
          assert (s <> sq) by (intros ->; apply Hns; now left). lia.
        * rewrite E.
          assert (Lo : 0 < length o).
          { apply Hprog; [lia|]. destruct rest as [|q rest']; [exact I|]. rewrite Forall_forall in Hf_rest. apply Hf_rest. now left. }
          pose proof (mrun_total ltb _ _ _ _ R) as Tot.
          destruct (IH sz1 (match pl1 with [] => [] | p' :: r' => sink ltb stable p' r' end) st1) as (o2 & st2 & E2 & R2 & L2).
          -- lia.
          -- lia.
          -- now apply PLok_of_pre.
          -- rewrite E2. exists (o ++ o2), st2. split; [reflexivity|]. split; [eapply mrun_app; eauto|rewrite app_length; lia].
  Qed.

  Theorem merge_bubble_correct stable (st : state) sz :
    sz <= total st ->
    exists o st', merge_bubble ltb stable st sz = Some (o, st') /\ mrun stable st o st' /\ length o = sz.
  Proof.
    intros Hsz. unfold merge_bubble. apply bub_outer_ok; auto. apply PLok_init.
  Qed.
End Bubble.
