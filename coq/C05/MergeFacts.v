(** C05 — facts about merge states, [mstep] / [mrun] and the stable merge function [msteps]. *)
From Coq Require Import List Bool Arith Lia Sorting.Sorted Sorting.Permutation.
From TLXV Require Import Common.Order C05.StableMerge.
Import ListNotations.

(* ---------------------------------------------------------------------------------------------------- *)
(** * Lists *)
Section ListFacts.
  Context {B : Type}.

  Lemma length_upd (s : nat) (v : B) l : length (upd s v l) = length l.
  Proof. revert s; induction l as [|x r IH]; intros [|s]; simpl; auto. Qed.

  Lemma nth_error_upd_eq (s : nat) (v : B) l : s < length l -> nth_error (upd s v l) s = Some v.
  Proof. revert s; induction l as [|x r IH]; intros [|s] Hs; simpl in *; try lia; auto. apply IH; lia. Qed.

  Lemma nth_error_upd_neq (s t : nat) (v : B) l : s <> t -> nth_error (upd s v l) t = nth_error l t.
  Proof. revert s t; induction l as [|x r IH]; intros [|s] [|t] Hst; simpl; auto; try congruence. Qed.

  Lemma upd_same (s : nat) (v : B) l : nth_error l s = Some v -> upd s v l = l.
  Proof. revert s; induction l as [|x r IH]; intros [|s] Hs; simpl in *; auto; try congruence. f_equal; auto. Qed.

  Lemma upd_upd (s : nat) (v w : B) l : upd s w (upd s v l) = upd s w l.
  Proof. revert s; induction l as [|x r IH]; intros [|s]; simpl; auto. f_equal; auto. Qed.

  Lemma nth_error_nth_default (l : list B) s v d : nth_error l s = Some v -> nth s l d = v.
  Proof. revert s; induction l as [|x r IH]; intros [|s] Hs; simpl in *; try congruence; auto. Qed.

  Lemma nth_upd_neq (s t : nat) (v d : B) l : s <> t -> nth t (upd s v l) d = nth t l d.
  Proof. revert s t; induction l as [|x r IH]; intros [|s] [|t] Hst; simpl; auto; try congruence. Qed.

  Lemma nth_upd_eq (s : nat) (v d : B) l : s < length l -> nth s (upd s v l) d = v.
  Proof. revert s; induction l as [|x r IH]; intros [|s] Hs; simpl in *; try lia; auto. apply IH; lia. Qed.

  Lemma map_upd {C} (f : B -> C) s v l : map f (upd s v l) = upd s (f v) (map f l).
  Proof. revert s; induction l as [|x r IH]; intros [|s]; simpl; auto. f_equal; auto. Qed.
End ListFacts.

Section MergeFacts.
  Context {A : Type}.
  Variable ltb : A -> A -> bool.
  Hypothesis H : SWO ltb.

  Notation state := (list (list A)).
  Notation total := (@total A).
  Notation mstep := (mstep ltb).
  Notation mrun := (mrun ltb).
  Notation srel := (sorted_rel ltb).

  Definition sorted_state (st : state) : Prop := Forall (StronglySorted srel) st.

  (* -------------------------------------------------------------------------------------------------- *)
  (** * total *)
  Lemma total_cons l (st : state) : total (l :: st) = length l + total st.
  Proof. reflexivity. Qed.

  Lemma total_upd (st : state) s x r :
    nth_error st s = Some (x :: r) -> total st = S (total (upd s r st)).
  Proof.
    revert s; induction st as [|l st IH]; intros [|s] Hs; simpl in *; try congruence.
    - inversion Hs; subst. rewrite !total_cons. simpl. lia.
    - rewrite !total_cons. rewrite (IH _ Hs). lia.
  Qed.

  Lemma total_pos_nonempty (st : state) : 0 < total st -> exists s x r, nth_error st s = Some (x :: r).
  Proof.
    induction st as [|l st IH].
    - unfold StableMerge.total; simpl; lia.
    - rewrite total_cons. destruct l as [|x r]; simpl; intros Hp.
      + destruct (IH Hp) as (s & x & r & E). exists (S s), x, r. exact E.
      + exists 0, x, r. reflexivity.
  Qed.

  Lemma sorted_state_upd (st : state) s x r :
    sorted_state st -> nth_error st s = Some (x :: r) -> sorted_state (upd s r st).
  Proof.
    unfold sorted_state. revert s; induction st as [|l st IH]; intros [|s] Hf Hs; simpl in *; try congruence.
    - inversion Hs; subst. inversion Hf as [|? ? Hl Hr]; subst. constructor; [now inversion Hl|exact Hr].
    - inversion Hf as [|? ? Hl Hr]; subst. constructor; [exact Hl|]. eapply IH; eauto.
  Qed.

  Lemma sorted_state_head_le (st : state) s x r y :
    sorted_state st -> nth_error st s = Some (x :: r) -> In y r -> ltb y x = false.
  Proof.
    intros Hf Hs Hy. unfold sorted_state in Hf. rewrite Forall_forall in Hf.
    assert (Hl : StronglySorted srel (x :: r)) by (apply Hf; eapply nth_error_In; eauto).
    inversion Hl as [|? ? _ Hall]; subst. rewrite Forall_forall in Hall. apply Hall; auto.
  Qed.

  (* -------------------------------------------------------------------------------------------------- *)
  (** * The stable step is deterministic and computed by [spick] *)
  Lemma mstep_weaken b st x st' : mstep b st x st' -> mstep false st x st'.
  Proof. intros [st0 s y r Hn Hmin _]. econstructor; eauto. discriminate. Qed.

  Lemma mrun_weaken b st o st' : mrun b st o st' -> mrun false st o st'.
  Proof. induction 1; econstructor; eauto using mstep_weaken. Qed.

  Lemma mstep_true_det st x1 st1 x2 st2 :
    mstep true st x1 st1 -> mstep true st x2 st2 -> x1 = x2 /\ st1 = st2.
  Proof.
    intros [st0 s x r Hn Hmin Hst] Hb. inversion Hb as [st0' s' x' r' Hn' Hmin' Hst']; subst.
    destruct (Nat.lt_trichotomy s s') as [L|[E|L]].
    - pose proof (Hst' eq_refl _ _ _ L Hn) as C1. pose proof (Hmin _ _ _ Hn') as C2. congruence.
    - subst. rewrite Hn in Hn'. inversion Hn'; subst. auto.
    - pose proof (Hst eq_refl _ _ _ L Hn') as C1. pose proof (Hmin' _ _ _ Hn) as C2. congruence.
  Qed.

  Lemma mrun_true_det st o1 st1 o2 st2 :
    mrun true st o1 st1 -> mrun true st o2 st2 -> length o1 = length o2 -> o1 = o2 /\ st1 = st2.
  Proof.
    intros R1; revert o2 st2. induction R1 as [st|st x sta o stb MS1 R1 IH]; intros o2 st2 R2 L.
    - destruct o2; simpl in L; try lia. inversion R2; subst. auto.
    - destruct o2 as [|y o2]; simpl in L; try lia. inversion R2 as [|? ? sta' ? ? MS2 R2']; subst.
      destruct (mstep_true_det _ _ _ _ _ MS1 MS2) as [-> ->].
      destruct (IH _ _ R2') as [-> ->]; auto.
  Qed.

  Lemma mrun_app b st o1 st1 o2 st2 : mrun b st o1 st1 -> mrun b st1 o2 st2 -> mrun b st (o1 ++ o2) st2.
  Proof. induction 1; simpl; auto. intros. econstructor; eauto. Qed.

  Lemma mrun_total b st o st' : mrun b st o st' -> total st = length o + total st'.
  Proof.
    induction 1 as [|st x st1 o st2 MS R IH]; simpl; auto.
    destruct MS as [st s x r Hn _ _]. rewrite (total_upd _ _ _ _ Hn). lia.
  Qed.

  Lemma mrun_length b st o st' : mrun b st o st' -> length st' = length st.
  Proof.
    induction 1 as [|st x st1 o st2 MS R IH]; auto. destruct MS. rewrite IH. apply length_upd.
  Qed.

  Lemma mrun_sorted_state b st o st' : sorted_state st -> mrun b st o st' -> sorted_state st'.
  Proof.
    intros Hs R; induction R as [|st x st1 o st2 MS R IH]; auto. apply IH. destruct MS. eapply sorted_state_upd; eauto.
  Qed.

  Lemma spick_none (st : state) : spick ltb st = None -> total st = 0.
  Proof.
    induction st as [|l st IH]; simpl; auto.
    destruct l as [|x r]; destruct (spick ltb st) as [[j y]|] eqn:E; try discriminate.
    - intros _. rewrite total_cons, IH; auto.
    - destruct (ltb y x); discriminate.
  Qed.

  Lemma spick_spec (st : state) s x :
    spick ltb st = Some (s, x) ->
    exists r, nth_error st s = Some (x :: r) /\
              (forall t y r', nth_error st t = Some (y :: r') -> ltb y x = false) /\
              (forall t y r', t < s -> nth_error st t = Some (y :: r') -> ltb x y = true).
  Proof.
    revert s x; induction st as [|l st IH]; simpl; intros s x E; [discriminate|].
    destruct l as [|x0 r0]; destruct (spick ltb st) as [[j y]|] eqn:E'.
    - inversion E; subst. destruct (IH _ _ eq_refl) as (r & Hn & Hmin & Hst).
      exists r. split; [exact Hn|]. split.
      + intros [|t] y' r' Ht; simpl in Ht; [discriminate|]. eauto.
      + intros [|t] y' r' Hlt Ht; simpl in Ht; [discriminate|]. eapply Hst; eauto. lia.
    - discriminate.
    - destruct (IH _ _ eq_refl) as (r & Hn & Hmin & Hst).
      destruct (ltb y x0) eqn:C; inversion E; subst.
      + exists r. split; [exact Hn|]. split.
        * intros [|t] y' r' Ht; simpl in Ht.
          -- inversion Ht; subst. apply (swo_asym _ H _ _ C).
          -- eauto.
        * intros [|t] y' r' Hlt Ht; simpl in Ht.
          -- inversion Ht; subst. exact C.
          -- eapply Hst; eauto. lia.
      + exists r0. split; [reflexivity|]. split.
        * intros [|t] y' r' Ht; simpl in Ht.
          -- inversion Ht; subst. apply (swo_irrefl _ H).
          -- pose proof (Hmin _ _ _ Ht) as Hy.
             (* y <= y' and not (y < x)  ->  not (y' < x) *)
             destruct (ltb y' x) eqn:C2; auto.
             destruct (swo_negtrans _ H _ _ y C2) as [K|K]; congruence.
        * intros t y' r' Hlt; lia.
    - inversion E; subst. exists r0. split; [reflexivity|]. split.
      + intros [|t] y' r' Ht; simpl in Ht.
        * inversion Ht; subst. apply (swo_irrefl _ H).
        * exfalso. pose proof (spick_none _ E') as Z. pose proof (total_upd _ _ _ _ Ht). lia.
      + intros t y' r' Hlt; lia.
  Qed.

  Lemma spick_mstep (st : state) s x :
    spick ltb st = Some (s, x) -> mstep true st x (adv s st).
  Proof.
    intros E. destruct (spick_spec _ _ _ E) as (r & Hn & Hmin & Hst).
    unfold adv. rewrite (nth_error_nth_default _ _ _ [] Hn). simpl.
    econstructor; eauto.
  Qed.

  Lemma msteps_mrun n (st : state) :
    n <= total st -> mrun true st (fst (msteps ltb n st)) (snd (msteps ltb n st)) /\ length (fst (msteps ltb n st)) = n.
  Proof.
    revert st; induction n as [|n IH]; intros st Hn; simpl.
    - split; [constructor|reflexivity].
    - destruct (spick ltb st) as [[s x]|] eqn:E.
      + pose proof (spick_mstep _ _ _ E) as MS.
        assert (T : total st = S (total (adv s st))).
        { destruct (spick_spec _ _ _ E) as (r & Hr & _). unfold adv. rewrite (nth_error_nth_default _ _ _ [] Hr). simpl.
          eapply total_upd; eauto. }
        destruct (IH (adv s st)) as [R L]; [lia|].
        destruct (msteps ltb n (adv s st)) as [o st'] eqn:M. simpl in *. split; [econstructor; eauto|lia].
      + pose proof (spick_none _ E). lia.
  Qed.

  (** Any stable run is the run of [msteps]. *)
  Lemma mrun_true_msteps st o st' :
    mrun true st o st' -> o = fst (msteps ltb (length o) st) /\ st' = snd (msteps ltb (length o) st).
  Proof.
    intros R. pose proof (mrun_total _ _ _ _ R) as T.
    destruct (msteps_mrun (length o) st) as [R' L]; [lia|].
    destruct (mrun_true_det _ _ _ _ _ R R') as [E1 E2]; auto.
  Qed.

  Lemma msteps_S n (st : state) x st1 :
    mstep true st x st1 -> msteps ltb (S n) st = (x :: fst (msteps ltb n st1), snd (msteps ltb n st1)).
  Proof.
    intros MS. simpl. destruct (spick ltb st) as [[s y]|] eqn:E.
    - pose proof (spick_mstep _ _ _ E) as MS'. destruct (mstep_true_det _ _ _ _ _ MS MS') as [-> ->].
      destruct (msteps ltb n (adv s st)); reflexivity.
    - exfalso. pose proof (spick_none _ E) as Z. destruct MS as [st s y r Hn _ _]. pose proof (total_upd _ _ _ _ Hn). lia.
  Qed.

  (* -------------------------------------------------------------------------------------------------- *)
  (** * What a run guarantees about its output (sorted inputs) *)

  (** Every element still in the state is not smaller than [x]. *)
  Definition lower_bound_of (x : A) (st : state) : Prop :=
    forall l y, In l st -> In y l -> ltb y x = false.

  Lemma mstep_lower b st x st' : sorted_state st -> mstep b st x st' -> lower_bound_of x st'.
  Proof.
    intros Hs MS. destruct MS as [st s x r Hn Hmin _].
    intros l y Hl Hy. apply In_nth_error in Hl. destruct Hl as [t Ht].
    destruct (Nat.eq_dec s t) as [->|Ne].
    - rewrite nth_error_upd_eq in Ht by (apply nth_error_Some; congruence). inversion Ht; subst.
      eapply sorted_state_head_le; eauto.
    - rewrite nth_error_upd_neq in Ht by exact Ne.
      destruct l as [|z l']; [destruct Hy|].
      pose proof (Hmin _ _ _ Ht) as Hz.
      destruct Hy as [->|Hy]; auto.
      pose proof (sorted_state_head_le _ _ _ _ _ Hs Ht Hy) as Hzy.
      (* x <= z <= y *)
      destruct (ltb y x) eqn:C; auto. destruct (swo_negtrans _ H _ _ z C) as [K|K]; congruence.
  Qed.

  Lemma mstep_In b st x st' : mstep b st x st' -> forall l y, In l st' -> In y l -> exists l0, In l0 st /\ In y l0.
  Proof.
    intros MS. destruct MS as [st s x r Hn _ _]. intros l y Hl Hy.
    apply In_nth_error in Hl. destruct Hl as [t Ht].
    destruct (Nat.eq_dec s t) as [->|Ne].
    - rewrite nth_error_upd_eq in Ht by (apply nth_error_Some; congruence). inversion Ht; subst.
      exists (x :: l). split; [eapply nth_error_In; eauto|now right].
    - rewrite nth_error_upd_neq in Ht by exact Ne. exists l. split; [eapply nth_error_In; eauto|auto].
  Qed.

  Lemma mrun_In b st o st' : mrun b st o st' -> forall l y, In l st' -> In y l -> exists l0, In l0 st /\ In y l0.
  Proof.
    induction 1 as [|st x st1 o st2 MS R IH]; intros l y Hl Hy; eauto.
    destruct (IH _ _ Hl Hy) as (l1 & Hl1 & Hy1). eapply mstep_In; eauto.
  Qed.

  Lemma mrun_out_In b st o st' : mrun b st o st' -> forall y, In y o -> exists l0, In l0 st /\ In y l0.
  Proof.
    induction 1 as [|st x st1 o st2 MS R IH]; intros y Hy; [destruct Hy|].
    destruct Hy as [->|Hy].
    - destruct MS as [st s x r Hn _ _]. exists (x :: r). split; [eapply nth_error_In; eauto|now left].
    - destruct (IH _ Hy) as (l1 & Hl1 & Hy1). eapply mstep_In; eauto.
  Qed.

  (** Output sorted; every written element is <= every element left in the inputs. *)
  Theorem mrun_sorted b st o st' :
    sorted_state st -> mrun b st o st' ->
    StronglySorted srel o /\ (forall x, In x o -> lower_bound_of x st').
  Proof.
    intros Hs R. induction R as [st|st x st1 o st2 MS R IH].
    - split; [constructor|intros x []].
    - assert (Hs1 : sorted_state st1) by (destruct MS; eapply sorted_state_upd; eauto).
      destruct (IH Hs1) as [So Lo]. pose proof (mstep_lower _ _ _ _ Hs MS) as LB.
      split.
      + constructor; auto. rewrite Forall_forall. intros y Hy.
        destruct (mrun_out_In _ _ _ _ R _ Hy) as (l0 & Hl0 & Hy0). exact (LB _ _ Hl0 Hy0).
      + intros z [->|Hz]; auto.
        intros l y Hl Hy. destruct (mrun_In _ _ _ _ R _ _ Hl Hy) as (l0 & Hl0 & Hy0). exact (LB _ _ Hl0 Hy0).
  Qed.

  (** The remaining sequences are suffixes of the inputs; the output is an interleaving of the
      consumed prefixes. *)
  Inductive interleave : list (list A) -> list A -> Prop :=
  | il_nil : forall ps, Forall (fun p => p = []) ps -> interleave ps []
  | il_cons : forall ps s x p o, nth_error ps s = Some (x :: p) -> interleave (upd s p ps) o -> interleave ps (x :: o).

  Lemma mrun_interleave b st o st' :
    mrun b st o st' ->
    exists ps, length ps = length st /\ interleave ps o /\
               (forall s, nth s st [] = nth s ps [] ++ nth s st' []).
  Proof.
    induction 1 as [st|st x st1 o st2 MS R IH].
    - exists (map (fun _ => []) st). split; [now rewrite map_length|]. split.
      + constructor. rewrite Forall_forall. intros p Hp. apply in_map_iff in Hp. now destruct Hp as (? & <- & _).
      + intros s. assert (E : forall (l : state) n, nth n (map (fun _ => @nil A) l) [] = []).
        { induction l as [|? ? IHl]; intros [|n]; simpl; auto. }
        now rewrite E.
    - destruct IH as (ps & Lp & Il & Hsuf). destruct MS as [st s x r Hn _ _].
      rewrite length_upd in Lp.
      assert (Ls : s < length st) by (apply nth_error_Some; congruence).
      exists (upd s (x :: nth s ps []) ps). split; [now rewrite length_upd|]. split.
      + econstructor; [apply nth_error_upd_eq; lia|]. rewrite upd_upd.
        rewrite upd_same; auto. apply nth_error_nth'. lia.
      + intros t. destruct (Nat.eq_dec s t) as [<-|Ne].
        * rewrite (nth_error_nth_default _ _ _ [] Hn).
          rewrite nth_upd_eq by lia.
          specialize (Hsuf s). rewrite nth_upd_eq in Hsuf by lia.
          simpl. now rewrite Hsuf.
        * specialize (Hsuf t). rewrite nth_upd_neq in Hsuf by exact Ne.
          now rewrite nth_upd_neq by exact Ne.
  Qed.
End MergeFacts.
