(** C05 — the stable multiway merge as a specification (shared with C06 / C07).

    A merge state is the list of the not yet consumed suffixes of the input sequences.  One step of the
    STABLE merge takes the head that is minimal for the comparator and, among equivalent heads, the one of
    the smallest sequence index ([spick]).  [msteps n st] performs [n] such steps and returns the emitted
    elements and the remaining state; [gmerge] merges everything.
    [smerge ls] is the same merge run over the inputs tagged with (source index, position): the unique
    arrangement of all elements ordered by (key, source index, position) — see [smerge_perm],
    [smerge_sorted_keys], [mrun_true_gmerge] (uniqueness of the stable run) in StableMergeFacts.v.

    The relational form [mstep b] / [mrun b] describes what ANY correct merge does step by step:
    [b = false]: some minimal head is taken (unstable merge); [b = true]: the stable choice.  Every model of
    a tlx merge routine is proved to perform an [mrun]. *)
From Coq Require Import List Bool Arith Lia.
From TLXV Require Import Common.Order.
Import ListNotations.

(** Replace position [s] of a list (no-op when out of range). *)
Fixpoint upd {B : Type} (s : nat) (v : B) (l : list B) : list B :=
  match l, s with
  | [], _ => []
  | _ :: r, 0 => v :: r
  | x :: r, S s' => x :: upd s' v r
  end.

Section StableMerge.
  Context {A : Type}.
  Variable ltb : A -> A -> bool.

  Definition state := list (list A).
  Definition total (st : state) : nat := list_sum (map (@length A) st).
  Definition heads (st : state) : list (option A) := map (@hd_error A) st.

  (** Leftmost minimal head: (source, element). *)
  Fixpoint spick (st : state) : option (nat * A) :=
    match st with
    | [] => None
    | l :: r =>
        match l, spick r with
        | [], None => None
        | [], Some (j, y) => Some (S j, y)
        | x :: _, None => Some (0, x)
        | x :: _, Some (j, y) => if ltb y x then Some (S j, y) else Some (0, x)
        end
    end.

  (** Advance sequence [s] by one element. *)
  Definition adv (s : nat) (st : state) : state := upd s (tl (nth s st [])) st.

  Fixpoint msteps (n : nat) (st : state) : list A * state :=
    match n with
    | 0 => ([], st)
    | S n' =>
        match spick st with
        | None => ([], st)
        | Some (s, x) => let (o, st') := msteps n' (adv s st) in (x :: o, st')
        end
    end.

  (** The stable merge of all the sequences (elements only). *)
  Definition gmerge (st : state) : list A := fst (msteps (total st) st).

  (** Relational steps.  [mstep b st x st']: some sequence [s] is non-empty with head [x], no head is smaller
      than [x], (if [b]) every head of a sequence before [s] is strictly greater; [st'] is [st] advanced at [s]. *)
  Inductive mstep (b : bool) : state -> A -> state -> Prop :=
  | mstep_intro : forall st s x r,
      nth_error st s = Some (x :: r) ->
      (forall t y r', nth_error st t = Some (y :: r') -> ltb y x = false) ->
      (b = true -> forall t y r', t < s -> nth_error st t = Some (y :: r') -> ltb x y = true) ->
      mstep b st x (upd s r st).

  Inductive mrun (b : bool) : state -> list A -> state -> Prop :=
  | mrun_nil : forall st, mrun b st [] st
  | mrun_cons : forall st x st1 o st2,
      mstep b st x st1 -> mrun b st1 o st2 -> mrun b st (x :: o) st2.
End StableMerge.

(** Tagging with (source index, position), and the stable merge with positions. *)
Definition tag_seq {A : Type} (s : nat) (l : list A) : list (A * nat * nat) :=
  map (fun pa => (snd pa, s, fst pa)) (combine (seq 0 (length l)) l).
Definition tag_all {A : Type} (ls : list (list A)) : list (list (A * nat * nat)) :=
  map (fun sl => tag_seq (fst sl) (snd sl)) (combine (seq 0 (length ls)) ls).
Definition key3 {A : Type} (t : A * nat * nat) : A := fst (fst t).
Definition ltb3 {A : Type} (ltb : A -> A -> bool) (x y : A * nat * nat) : bool := ltb (key3 x) (key3 y).

Definition smerge {A : Type} (ltb : A -> A -> bool) (ls : list (list A)) : list (A * nat * nat) :=
  gmerge (ltb3 ltb) (tag_all ls).
