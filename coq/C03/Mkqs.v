(** C03 — multikey quicksort (multikey_quicksort.hpp): Bentley-Sedgewick partition, block swaps, recursion and
    LCP writes. *)
From Coq Require Import List Bool Arith NArith Lia Sorting.Sorted Sorting.Permutation.
From TLXV Require Import gen.Sizes_C03_gen C03.Model C03.Spec C03.SpecProofs C03.Lemmas C03.Sorters C03.LcpInsertion C03.Radix8.
Import ListNotations.

Lemma item_eq_dec : forall x y : item, {x = y} + {x <> y}.
Proof. decide equality; [apply (list_eq_dec N.eq_dec)|apply N.eq_dec]. Qed.

(** permutation goals by counting occurrences *)
Ltac cnt_norm := repeat rewrite ?count_occ_app, ?count_occ_rev; simpl; repeat rewrite ?count_occ_app, ?count_occ_rev; simpl;
                 repeat match goal with |- context [item_eq_dec ?a ?b] => destruct (item_eq_dec a b) end;
                 intros; try lia; try congruence.
Ltac permc0 := apply (Permutation_count_occ item_eq_dec); intro; cnt_norm.
Ltac permc1 H := apply (Permutation_count_occ item_eq_dec);
  let x := fresh "x" in intro x;
  generalize (proj1 (Permutation_count_occ item_eq_dec _ _) H x); cnt_norm.
Ltac permc2 H1 H2 := apply (Permutation_count_occ item_eq_dec);
  let x := fresh "x" in intro x;
  generalize (proj1 (Permutation_count_occ item_eq_dec _ _) H1 x);
  generalize (proj1 (Permutation_count_occ item_eq_dec _ _) H2 x); cnt_norm.
Ltac permc3 H1 H2 H3 := apply (Permutation_count_occ item_eq_dec);
  let x := fresh "x" in intro x;
  generalize (proj1 (Permutation_count_occ item_eq_dec _ _) H1 x);
  generalize (proj1 (Permutation_count_occ item_eq_dec _ _) H2 x);
  generalize (proj1 (Permutation_count_occ item_eq_dec _ _) H3 x); cnt_norm.

(** * the partition loops *)
Section Part.
  Variable pv : N.
  Variable d : nat.
  Definition isEQ (l : list item) := Forall (fun x => ch d x = pv) l.
  Definition isLT (l : list item) := Forall (fun x => (ch d x < pv)%N) l.
  Definition isGT (l : list item) := Forall (fun x => (pv < ch d x)%N) l.

  Lemma part_left_ok : forall U EQL LT EQL1 LT1 U1,
    part_left pv d EQL LT U = (EQL1, LT1, U1) -> isEQ EQL -> isLT LT ->
    Permutation (EQL ++ LT ++ U) (EQL1 ++ LT1 ++ U1) /\ isEQ EQL1 /\ isLT LT1 /\
    match U1 with [] => True | u :: _ => (pv < ch d u)%N end.
  Proof.
    induction U as [|u U' IH]; intros EQL LT EQL1 LT1 U1 H HE HL; simpl in H.
    - injection H as <- <- <-. auto.
    - destruct (N.leb (ch d u) pv) eqn:E1.
      + destruct (N.eqb (ch d u) pv) eqn:E2.
        * apply N.eqb_eq in E2.
          assert (HE' : isEQ (EQL ++ [u])) by (apply Forall_app; split; [exact HE|repeat constructor; exact E2]).
          destruct LT as [|h t].
          -- destruct (IH _ _ _ _ _ H HE' HL) as (P & A & B). split; [|auto]. permc1 P.
          -- assert (HL' : isLT (t ++ [h])).
             { inversion HL; subst. apply Forall_app. split; [assumption|repeat constructor; assumption]. }
             destruct (IH _ _ _ _ _ H HE' HL') as (P & A & B). split; [|auto]. permc1 P.
        * apply N.leb_le in E1. apply N.eqb_neq in E2.
          assert (HL' : isLT (LT ++ [u])) by (apply Forall_app; split; [exact HL|repeat constructor; lia]).
          destruct (IH _ _ _ _ _ H HE HL') as (P & A & B). split; [|auto]. permc1 P.
      + injection H as <- <- <-. apply N.leb_gt in E1. auto.
  Qed.

  Lemma part_right_ok : forall Ur GT EQR GT1 EQR1 Ur1,
    part_right pv d GT EQR Ur = (GT1, EQR1, Ur1) -> isGT GT -> isEQ EQR ->
    Permutation (Ur ++ GT ++ EQR) (Ur1 ++ GT1 ++ EQR1) /\ isGT GT1 /\ isEQ EQR1 /\
    (exists pre, Ur = pre ++ Ur1) /\ match Ur1 with [] => True | u :: _ => (ch d u < pv)%N end.
  Proof.
    induction Ur as [|u Ur' IH]; intros GT EQR GT1 EQR1 Ur1 H HG HE; simpl in H.
    - injection H as <- <- <-. split; [reflexivity|]. split; [exact HG|]. split; [exact HE|]. split; [exists []; reflexivity|exact I].
    - destruct (N.leb pv (ch d u)) eqn:E1.
      + destruct (N.eqb (ch d u) pv) eqn:E2.
        * apply N.eqb_eq in E2.
          assert (HE' : isEQ (u :: EQR)) by (constructor; assumption).
          destruct (rev GT) as [|z t] eqn:ER; rewrite ?ER in H; cbv iota in H.
          -- assert (GT = []) by (rewrite <- (rev_involutive GT), ER; reflexivity). subst GT.
             destruct (IH _ _ _ _ _ H HG HE') as (P & A & B & [pre C] & D). split; [permc1 P|].
             split; [exact A|]. split; [exact B|]. split; [exists (u :: pre); now rewrite C|exact D].
          -- assert (EG : GT = rev t ++ [z]) by (rewrite <- (rev_involutive GT), ER; reflexivity). subst GT.
             assert (HG' : isGT (z :: rev t)).
             { apply Forall_app in HG. destruct HG as [A B]. inversion B; subst. constructor; assumption. }
             destruct (IH _ _ _ _ _ H HG' HE') as (P & A & B & [pre C] & D). split; [permc1 P|].
             split; [exact A|]. split; [exact B|]. split; [exists (u :: pre); now rewrite C|exact D].
        * apply N.leb_le in E1. apply N.eqb_neq in E2.
          assert (HG' : isGT (u :: GT)) by (constructor; [lia|assumption]).
          destruct (IH _ _ _ _ _ H HG' HE) as (P & A & B & [pre C] & D). split; [permc1 P|].
          split; [exact A|]. split; [exact B|]. split; [exists (u :: pre); now rewrite C|exact D].
      + injection H as <- <- <-. apply N.leb_gt in E1. split; [reflexivity|]. split; [exact HG|]. split; [exact HE|]. split; [exists []; reflexivity|exact E1].
  Qed.

  Lemma part_loop_ok : forall fuel EQL LT U GT EQR EQL' LT' GT' EQR',
    part_loop fuel pv d EQL LT U GT EQR = Some (EQL', LT', GT', EQR') ->
    isEQ EQL -> isLT LT -> isGT GT -> isEQ EQR ->
    Permutation (EQL ++ LT ++ U ++ GT ++ EQR) (EQL' ++ LT' ++ GT' ++ EQR') /\
    isEQ EQL' /\ isLT LT' /\ isGT GT' /\ isEQ EQR'.
  Proof.
    induction fuel as [|f IH]; intros EQL LT U GT EQR EQL' LT' GT' EQR' H HEL HL HG HER; [discriminate|].
    simpl in H.
    destruct (part_left pv d EQL LT U) as [[EQL1 LT1] U1] eqn:EL.
    destruct (part_right pv d GT EQR (rev U1)) as [[GT1 EQR1] Ur1] eqn:ER.
    destruct (part_left_ok _ _ _ _ _ _ EL HEL HL) as (P1 & A1 & B1 & S1).
    destruct (part_right_ok _ _ _ _ _ _ ER HG HER) as (P2 & A2 & B2 & [pre C2] & S2).
    destruct Ur1 as [|z Ur'].
    - injection H as <- <- <- <-. split; [|auto]. permc2 P1 P2.
    - destruct (rev Ur') as [|h mid] eqn:EM; [discriminate|].
      assert (EU : Ur' = rev mid ++ [h]) by (rewrite <- (rev_involutive Ur'), EM; reflexivity). subst Ur'.
      assert (EU1 : U1 = (h :: mid ++ [z]) ++ rev pre).
      { rewrite <- (rev_involutive U1), C2. rewrite rev_app_distr. simpl. rewrite rev_app_distr, rev_involutive. reflexivity. }
      rewrite EU1 in S1. simpl in S1.
      assert (HL' : isLT (LT1 ++ [z])) by (apply Forall_app; split; [exact B1|repeat constructor; exact S2]).
      assert (HG' : isGT (h :: GT1)) by (constructor; assumption).
      destruct (IH _ _ _ _ _ _ _ _ _ H A1 HL' HG' B2) as (P3 & R).
      split; [|exact R]. permc3 P1 P2 P3.
  Qed.
End Part.

Lemma firstn_app_exact {A} (X Y : list A) n : length X = n -> firstn n (X ++ Y) = X /\ skipn n (X ++ Y) = Y.
Proof.
  intros <-. split.
  - rewrite firstn_app, Nat.sub_diag, firstn_all. simpl. apply app_nil_r.
  - rewrite skipn_app, Nat.sub_diag, skipn_all. reflexivity.
Qed.

(** * vec_swap of the two ends: [swap_ends (min |A| |B|) (A ++ B)] is a rearranged B followed by a rearranged A *)
Lemma swap_ends_split (Av Bv : list item) :
  exists B' A', swap_ends (Nat.min (length Av) (length Bv)) (Av ++ Bv) = B' ++ A' /\
                Permutation B' Bv /\ Permutation A' Av /\ length B' = length Bv.
Proof.
  unfold swap_ends. rewrite app_length.
  remember (length Av) as e eqn:He. remember (length Bv) as l eqn:Hl.
  destruct (firstn_app_exact Av Bv e (eq_sym He)) as [F1 F2].
  destruct (Nat.le_gt_cases e l) as [H|H].
  - rewrite Nat.min_l by lia.
    exists (skipn (l - e) Bv ++ firstn (l - e) Bv), Av.
    replace (e + l - e) with (e + (l - e)) by lia. replace (e + l - 2 * e) with (l - e) by lia.
    rewrite <- (skipn_skipn' e (l - e) (Av ++ Bv)). rewrite F1, F2.
    split; [now rewrite <- app_assoc|]. split; [|split; [reflexivity|]].
    + rewrite <- (firstn_skipn (l - e) Bv) at 3. apply Permutation_app_comm.
    + rewrite app_length, skipn_length, firstn_length. lia.
  - rewrite Nat.min_r by lia.
    exists Bv, (skipn l Av ++ firstn l Av).
    replace (e + l - l) with e by lia. replace (e + l - 2 * l) with (e - l) by lia.
    rewrite F2.
    assert (Q2 : firstn (e - l) (skipn l (Av ++ Bv)) = skipn l Av).
    { rewrite skipn_app. replace (l - length Av) with 0 by lia. simpl.
      apply firstn_app_exact. rewrite skipn_length. lia. }
    assert (Q3 : firstn l (Av ++ Bv) = firstn l Av).
    { rewrite firstn_app. replace (l - length Av) with 0 by lia. simpl. apply app_nil_r. }
    rewrite Q2, Q3.
    split; [reflexivity|]. split; [reflexivity|]. split; [|symmetry; exact Hl].
    rewrite <- (firstn_skipn l Av) at 3. apply Permutation_app_comm.
Qed.

(** * swap(a[0], a[pm]) *)
Lemma swap0_perm (x : item) : forall t j, j < length t -> Permutation (x :: t) (nth j t dflt :: upd t j x).
Proof.
  induction t as [|y t IH]; intros [|j] H; simpl in *; try lia.
  - apply perm_swap.
  - eapply Permutation_trans; [apply perm_swap|]. eapply Permutation_trans; [apply perm_skip, (IH j); lia|]. apply perm_swap.
Qed.

Lemma swap_idx0_perm (l : list item) j : j < length l -> Permutation l (swap_idx l 0 j).
Proof.
  unfold swap_idx. destruct l as [|x t]; simpl; [lia|]. destruct j as [|j]; simpl; intros H; [reflexivity|].
  apply swap0_perm. lia.
Qed.

Lemma med3_cases d l a b c : med3 d l a b c = a \/ med3 d l a b c = b \/ med3 d l a b c = c.
Proof.
  unfold med3. destruct (N.eqb _ _); auto. destruct (_ || _)%bool; auto.
  destruct (N.ltb _ _); destruct (N.ltb _ _); auto; destruct (N.ltb _ _); auto.
Qed.

Lemma med3_lt d l a b c n : a < n -> b < n -> c < n -> med3 d l a b c < n.
Proof. intros. destruct (med3_cases d l a b c) as [E|[E|E]]; rewrite E; assumption. Qed.

(** * two adjacent blocks *)
Lemma glue2 wl d (b1 b2 o1 o2 : list item) (lc1 lc2 lc1' lc2' : list nat) :
  OutOK wl b1 lc1 o1 lc1' -> OutOK wl b2 lc2 o2 lc2' ->
  length lc1 = length b1 -> length lc2 = length b2 ->
  cross2 d b1 b2 ->
  (wl = true -> b1 <> [] -> b2 <> [] -> nth 0 lc2 0 = d) ->
  OutOK wl (b1 ++ b2) (lc1 ++ lc2) (o1 ++ o2) (lc1' ++ lc2').
Proof.
  intros (P1 & S1 & E1) (P2 & S2 & E2) HL1 HL2 HC HJ.
  split; [now apply Permutation_app|]. split.
  - apply sorted_app; auto. intros x y Hx Hy. apply HC.
    + apply (Permutation_in _ (Permutation_sym P1)), Hx.
    + apply (Permutation_in _ (Permutation_sym P2)), Hy.
  - subst lc1' lc2'. unfold lcpR. destruct wl; [|reflexivity].
    destruct o1 as [|x o1'].
    { apply Permutation_sym, Permutation_nil in P1. subst b1. destruct lc1; [|discriminate]. reflexivity. }
    destruct o2 as [|y o2'].
    { apply Permutation_sym, Permutation_nil in P2. subst b2. destruct lc2; [|discriminate]. simpl. now rewrite !app_nil_r. }
    assert (N1 : b1 <> []) by (intros Z; subst; apply Permutation_nil in P1; discriminate).
    assert (N2 : b2 <> []) by (intros Z; subst; apply Permutation_nil in P2; discriminate).
    destruct lc1 as [|h1 t1]; [destruct b1; [congruence|discriminate]|].
    destruct lc2 as [|h2 t2]; [destruct b2; [congruence|discriminate]|].
    specialize (HJ eq_refl N1 N2). simpl in HJ. subst h2.
    rewrite (adj_lcps_app (x :: o1') (y :: o2')) by discriminate.
    assert (Hj : lcp_len (snd (last (x :: o1') dflt)) (snd (hd dflt (y :: o2'))) = d).
    { apply HC.
      - apply (Permutation_in _ (Permutation_sym P1)). apply In_last. discriminate.
      - apply (Permutation_in _ (Permutation_sym P2)). now left. }
    rewrite Hj. simpl. rewrite <- ?app_assoc. reflexivity.
Qed.

(** * the sorter *)
Section MK.
  Variable sz : sizes.
  Variable wl : bool.
  Let ins_ok := insertion_ok wl.

  Definition pivot_idx (d : nat) (l : list item) : nat :=
    let n := length l in
    let '(pl, pm, pn) :=
      if N.ltb mkqs_med9_threshold (N.of_nat n) then
        let d8 := n / 8 in
        (med3 d l 0 (0 + d8) (0 + 2 * d8), med3 d l (n / 2 - d8) (n / 2) (n / 2 + d8), med3 d l (n - 1 - 2 * d8) (n - 1 - d8) (n - 1))
      else (0, n / 2, n - 1) in
    med3 d l pl pm pn.

  Lemma pivot_idx_lt d l : 1 <= length l -> pivot_idx d l < length l.
  Proof.
    intros H. unfold pivot_idx. set (n := length l) in *.
    pose proof (Nat.mul_div_le n 8 ltac:(lia)) as H8. pose proof (Nat.mul_div_le n 2 ltac:(lia)) as H2.
    destruct (N.ltb mkqs_med9_threshold (N.of_nat n)).
    - apply med3_lt; apply med3_lt; lia.
    - apply med3_lt; lia.
  Qed.

  Lemma mkqs_S f d mem l lcp :
    mkqs sz wl (S f) d mem l lcp =
    let n := length l in
    if (N.ltb (N.of_nat n) mkqs_threshold || mem_short mem (w64 (mkqs_use sz + 1)))%bool then Some (insertion wl d l lcp)
    else
      let a := swap_idx l 0 (pivot_idx d l) in
      let piv := hd dflt a in
      let pv := ch d piv in
      match part_loop (S n) pv d [] [] (tl a) [] [] with
      | None => None
      | Some (EQL, LT, GT, EQR) =>
          let e := S (length EQL) in let lt := length LT in let g := length GT in let q := length EQR in
          let X := swap_ends (Nat.min e lt) ((piv :: EQL) ++ LT) in
          let Y := swap_ends (Nat.min g q) (GT ++ EQR) in
          let less := firstn lt X in
          let eq := skipn lt X ++ firstn q Y in
          let gt := skipn q Y in
          let m := e + q in
          let mem' := w64sub mem (mkqs_use sz) in
          let lcp1 := if wl && N.eqb pv 0 then fill_range (S (Nat.min e lt)) (n - Nat.min g q) d lcp else lcp in
          let lcp2 := if wl && (0 <? lt) then upd lcp1 lt d else lcp1 in
          let A := firstn lt lcp2 in let B := firstn m (skipn lt lcp2) in let C := skipn (lt + m) lcp2 in
          match (if 1 <? lt then mkqs sz wl f d mem' less A else Some (less, A)) with
          | None => None
          | Some (o1, A') =>
              match (if negb (N.eqb (ch d (hd dflt eq)) 0) then mkqs sz wl f (S d) mem' eq B else Some (eq, B)) with
              | None => None
              | Some (o2, B') =>
                  let C1 := if wl && (0 <? g) then upd C 0 d else C in
                  match (if 1 <? g then mkqs sz wl f d mem' gt C1 else Some (gt, C1)) with
                  | None => None
                  | Some (o3, C') => Some (o1 ++ o2 ++ o3, A' ++ B' ++ C')
                  end
              end
          end
      end.
  Proof.
    cbn [mkqs]. unfold pivot_idx. destruct (N.ltb mkqs_med9_threshold (N.of_nat (length l))); reflexivity.
  Qed.

  Lemma small_ok' (b : list item) lc : length lc = length b -> length b <= 1 -> OutOK wl b lc b lc.
  Proof.
    intros HL H1. split; [reflexivity|]. split.
    - destruct b as [|x [|y b']]; simpl in H1; try lia; repeat constructor.
    - unfold lcpR. destruct wl; auto. now apply small_lcp.
  Qed.

  Lemma cross_by_ch p (b1 b2 : list item) : Pre p b1 -> Pre p b2 ->
    (forall x y, In x b1 -> In y b2 -> (ch (length p) x < ch (length p) y)%N) -> cross2 (length p) b1 b2.
  Proof.
    intros P1 P2 H x y Hx Hy. unfold Pre in *. rewrite Forall_forall in *. unfold item_le.
    apply ch_lt_order; auto.
  Qed.

  Theorem mkqs_ok : forall fuel mem, SorterOK wl (fun d => mkqs sz wl fuel d mem).
  Proof.
    induction fuel as [|f IH]; intros mem p l lcp out lcp' HP HN HL H; [discriminate|].
    rewrite mkqs_S in H. cbv zeta in H.
    destruct (N.ltb (N.of_nat (length l)) mkqs_threshold || mem_short mem (w64 (mkqs_use sz + 1)))%bool eqn:Et.
    { apply (ins_ok p l lcp out lcp' HP HN HL). exact H. }
    apply orb_false_iff in Et. destruct Et as [Et _]. apply N.ltb_ge in Et.
    assert (Hn : 1 <= length l).
    { assert (1 <= mkqs_threshold)%N by (vm_compute; discriminate). lia. }
    clear Et.
    set (d := length p) in *.
    pose proof (swap_idx0_perm l _ (pivot_idx_lt d l Hn)) as Pa.
    destruct (swap_idx l 0 (pivot_idx d l)) as [|piv ta] eqn:Ea.
    { apply Permutation_length in Pa. simpl in Pa. lia. }
    change (hd dflt (piv :: ta)) with piv in H. change (tl (piv :: ta)) with ta in H.
    set (pv := ch d piv) in *.
    destruct (part_loop (S (length l)) pv d [] [] ta [] []) as [[[[EQL LT] GT] EQR]|] eqn:EP; [|discriminate].
    destruct (part_loop_ok pv d _ _ _ _ _ _ _ _ _ _ EP ltac:(constructor) ltac:(constructor) ltac:(constructor) ltac:(constructor))
      as (Pp & CE & CL & CG & CR).
    simpl in Pp. rewrite app_nil_r in Pp.
    destruct (swap_ends_split (piv :: EQL) LT) as (L' & E' & EX & PL & PE & LL).
    destruct (swap_ends_split GT EQR) as (Q' & G' & EY & PQ & PG & LQ).
    simpl length in EX. rewrite EX, EY in H.
    destruct (firstn_app_exact L' E' (length LT) LL) as [F1 F2]. rewrite F1, F2 in H.
    destruct (firstn_app_exact Q' G' (length EQR) LQ) as [F3 F4]. rewrite F3, F4 in H.
    clear EX EY F1 F2 F3 F4.
    set (lt := length LT) in *. set (q := length EQR) in *. set (g := length GT) in *.
    set (e := S (length EQL)) in *. set (n := length l) in *.
    (* the three blocks *)
    assert (Pl : Permutation l (L' ++ (E' ++ Q') ++ G')).
    { apply (Permutation_count_occ item_eq_dec). intro x.
      generalize (proj1 (Permutation_count_occ item_eq_dec _ _) Pa x).
      generalize (proj1 (Permutation_count_occ item_eq_dec _ _) Pp x).
      generalize (proj1 (Permutation_count_occ item_eq_dec _ _) PL x).
      generalize (proj1 (Permutation_count_occ item_eq_dec _ _) PE x).
      generalize (proj1 (Permutation_count_occ item_eq_dec _ _) PQ x).
      generalize (proj1 (Permutation_count_occ item_eq_dec _ _) PG x). cnt_norm. }
    assert (LE : length E' = e) by (apply Permutation_length in PE; simpl in PE; exact PE).
    assert (LG : length G' = g) by (apply Permutation_length in PG; exact PG).
    assert (Hsum : n = lt + (e + q) + g).
    { apply Permutation_length in Pl. rewrite !app_length in Pl. unfold n. lia. }
    assert (KL : isLT pv d L') by (eapply Permutation_Forall; [apply Permutation_sym; exact PL|exact CL]).
    assert (KE : isEQ pv d (E' ++ Q')).
    { apply Forall_app. split.
      - eapply Permutation_Forall; [apply Permutation_sym; exact PE|]. constructor; [reflexivity|exact CE].
      - eapply Permutation_Forall; [apply Permutation_sym; exact PQ|exact CR]. }
    assert (KG : isGT pv d G') by (eapply Permutation_Forall; [apply Permutation_sym; exact PG|exact CG]).
    pose proof (Pre_perm _ _ _ Pl HP) as HPb. pose proof (nulfree_perm _ _ Pl HN) as HNb.
    unfold Pre, all_nulfree in HPb, HNb. apply Forall_app in HPb, HNb.
    destruct HPb as [PrL HPb], HNb as [NuL HNb]. apply Forall_app in HPb, HNb.
    destruct HPb as [PrE PrG], HNb as [NuE NuG].
    (* the lcp views *)
    set (lcp1 := if wl && N.eqb pv 0 then fill_range (S (Nat.min e lt)) (n - Nat.min g q) d lcp else lcp) in *.
    set (lcp2 := if wl && (0 <? lt) then upd lcp1 lt d else lcp1) in *.
    assert (H1 : length lcp1 = n) by (unfold lcp1; destruct (wl && N.eqb pv 0); [rewrite fill_range_length|]; exact HL).
    assert (H2 : length lcp2 = n) by (unfold lcp2; destruct (wl && (0 <? lt)); [rewrite upd_length|]; exact H1).
    set (A := firstn lt lcp2) in *. set (B := firstn (e + q) (skipn lt lcp2)) in *. set (C := skipn (lt + (e + q)) lcp2) in *.
    assert (HA : length A = length L') by (unfold A; rewrite firstn_length, LL; lia).
    assert (HB : length B = length (E' ++ Q')) by (unfold B; rewrite firstn_length, skipn_length, app_length, LE, LQ; lia).
    assert (HC : length C = length G') by (unfold C; rewrite skipn_length, LG; lia).
    (* first block *)
    match type of H with match ?X with _ => _ end = _ => destruct X as [[o1 A']|] eqn:R1; [|discriminate] end.
    assert (O1 : OutOK wl L' A o1 A').
    { destruct (1 <? lt) eqn:T1.
      - apply (IH _ p L' A o1 A' PrL NuL HA R1).
      - injection R1 as <- <-. apply small_ok'; auto. apply Nat.ltb_ge in T1. rewrite LL. exact T1. }
    match type of H with match ?X with _ => _ end = _ => destruct X as [[o2 B']|] eqn:R2; [|discriminate] end.
    assert (Hhd : ch d (hd dflt (E' ++ Q')) = pv).
    { destruct E' as [|x E'']; [simpl in LE; unfold e in LE; lia|]. simpl. inversion KE; subst. assumption. }
    rewrite Hhd in R2.
    assert (O2 : OutOK wl (E' ++ Q') B o2 B').
    { destruct (N.eqb_spec pv 0) as [Z|NZ]; simpl negb in R2; cbv iota in R2.
      - injection R2 as <- <-.
        assert (Hsame : Forall (fun x => snd x = p) (E' ++ Q')).
        { unfold isEQ in KE. rewrite Forall_forall in *. intros x Hx. apply ch_zero_end; auto. fold d. rewrite (KE x Hx). exact Z. }
        destruct (all_same_sorted p _ Hsame) as [Sso L]. split; [reflexivity|]. split; [exact Sso|].
        unfold lcpR. destruct wl eqn:W; auto. rewrite L.
        eapply eq_trans; [apply (lcp_const (length p) B)|f_equal; f_equal; f_equal; exact HB].
        intros i Hi. rewrite HB, app_length, LE, LQ in Hi. unfold B. rewrite nth_firstn_lt by lia. rewrite nth_skipn'.
        assert (E2 : nth (lt + i) lcp2 0 = nth (lt + i) lcp1 0).
        { unfold lcp2. destruct (true && (0 <? lt)); auto. apply upd_nth_other. lia. }
        rewrite E2. unfold lcp1. simpl andb. cbv iota. rewrite fill_range_nth.
        assert (T1 : (S (Nat.min e lt) <=? lt + i) = true) by (apply Nat.leb_le; lia).
        assert (T2 : (lt + i <? n - Nat.min g q) = true) by (apply Nat.ltb_lt; lia).
        assert (T3 : (lt + i <? length lcp) = true) by (apply Nat.ltb_lt; lia).
        rewrite T1, T2, T3. reflexivity.
      - assert (HPre : Pre (p ++ [pv]) (E' ++ Q')).
        { unfold Pre, isEQ in *. rewrite Forall_forall in *. intros x Hx. apply (ch_nonzero_pre p x pv); [apply PrE, Hx|apply KE, Hx|exact NZ]. }
        assert (Hlen : length (p ++ [pv]) = S d) by (rewrite app_length; simpl; unfold d; lia).
        rewrite <- Hlen in R2. apply (IH _ (p ++ [pv]) (E' ++ Q') B o2 B' HPre NuE HB R2). }
    set (C1 := if wl && (0 <? g) then upd C 0 d else C) in *.
    assert (HC1 : length C1 = length G') by (unfold C1; destruct (wl && (0 <? g)); [rewrite upd_length|]; exact HC).
    match type of H with match ?X with _ => _ end = _ => destruct X as [[o3 C']|] eqn:R3; [|discriminate] end.
    assert (O3 : OutOK wl G' C1 o3 C').
    { destruct (1 <? g) eqn:T1.
      - apply (IH _ p G' C1 o3 C' PrG NuG HC1 R3).
      - injection R3 as <- <-. apply small_ok'; auto. apply Nat.ltb_ge in T1. rewrite LG. exact T1. }
    injection H as <- <-.
    (* put the blocks together *)
    assert (G23 : OutOK wl ((E' ++ Q') ++ G') (B ++ C1) (o2 ++ o3) (B' ++ C')).
    { apply (glue2 wl d); auto.
      - apply cross_by_ch; auto. intros x y Hx Hy. unfold isEQ, isGT in *. rewrite Forall_forall in *.
        fold d. rewrite (KE x Hx). apply KG, Hy.
      - intros W _ HG'. unfold C1. rewrite W.
        assert (Tg : (0 <? g) = true) by (apply Nat.ltb_lt; destruct G'; [congruence|simpl in LG; lia]).
        rewrite Tg. simpl andb. cbv iota. apply upd_nth_same. rewrite HC, LG. apply Nat.ltb_lt in Tg. exact Tg. }
    assert (G123 : OutOK wl (L' ++ (E' ++ Q') ++ G') (A ++ B ++ C1) (o1 ++ o2 ++ o3) (A' ++ B' ++ C')).
    { apply (glue2 wl d); auto.
      - rewrite !app_length. rewrite app_length in HB. lia.
      - apply cross_by_ch; auto; [apply Forall_app; split; auto|].
        intros x y Hx Hy. unfold isLT, isEQ, isGT in *. rewrite Forall_forall in *. fold d.
        apply in_app_or in Hy. destruct Hy as [Hy|Hy]; [rewrite (KE y Hy); apply KL, Hx|].
        specialize (KL x Hx). specialize (KG y Hy). lia.
      - intros W HL' _. assert (Tl : 0 < lt) by (destruct L'; [congruence|simpl in LL; lia]).
        rewrite app_nth1 by (rewrite HB, app_length, LE; unfold e; lia).
        unfold B. rewrite nth_firstn_lt by (unfold e; lia). rewrite nth_skipn', Nat.add_0_r.
        unfold lcp2. rewrite W. assert (T : (0 <? lt) = true) by (now apply Nat.ltb_lt). rewrite T. simpl andb. cbv iota.
        apply upd_nth_same. lia. }
    destruct G123 as (Q1 & Q2 & Q3).
    split; [eapply Permutation_trans; eauto|]. split; [exact Q2|].
    rewrite Q3. unfold lcpR. destruct wl eqn:W.
    - f_equal.
      assert (EAB : A ++ B = firstn (lt + (e + q)) lcp2).
      { unfold A, B. rewrite <- (firstn_skipn lt (firstn (lt + (e + q)) lcp2)).
        rewrite firstn_firstn, Nat.min_l by lia. f_equal.
        rewrite <- firstn_skipn_comm. reflexivity. }
      rewrite app_assoc, EAB.
      assert (E0 : firstn 1 lcp2 = firstn 1 lcp).
      { unfold lcp2, lcp1. destruct lcp as [|h0 t0]; [simpl in HL; lia|].
        destruct (true && N.eqb pv 0); destruct (true && (0 <? lt)) eqn:T; try reflexivity.
        - apply andb_true_iff in T. destruct T as [_ T]. apply Nat.ltb_lt in T. destruct lt; [lia|]. reflexivity.
        - apply andb_true_iff in T. destruct T as [_ T]. apply Nat.ltb_lt in T. destruct lt; [lia|]. reflexivity. }
      rewrite <- E0. destruct lcp2 as [|h2 t2]; [simpl in H2; lia|].
      assert (Tn : lt + (e + q) = S (lt + (length EQL + q))) by (unfold e; lia). rewrite Tn. reflexivity.
    - unfold C1, A, B, C. simpl andb. cbv iota. unfold lcp2, lcp1. simpl andb. cbv iota.
      rewrite <- (skipn_skipn' lt (e + q) lcp). rewrite firstn_skipn. apply firstn_skipn.
  Qed.
End MK.
