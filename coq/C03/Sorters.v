(** C03 — the contract every sorter of the dispatch chain has to meet, insertion sort, and the generic
    "process consecutive buckets" argument used by the radix sorts and multikey quicksort. *)
From Coq Require Import List Bool Arith NArith Lia Sorting.Sorted Sorting.Permutation.
From TLXV Require Import gen.Sizes_C03_gen C03.Model C03.Spec C03.SpecProofs C03.Lemmas.
Import ListNotations.

(** what the lcp array has to be afterwards: lcp[0] untouched, lcp[i] = LCP(out[i-1], out[i]); unchanged without LCP *)
Definition lcpR (wl : bool) (lcp : list nat) (out : list item) : list nat :=
  if wl then firstn 1 lcp ++ adj_lcps out else lcp.

Definition OutOK (wl : bool) (l : list item) (lcp : list nat) (out : list item) (lcp' : list nat) : Prop :=
  Permutation l out /\ StronglySorted item_le out /\ lcp' = lcpR wl lcp out.

(** a sorter called at depth [length p] on strings that all start with [p] *)
Definition SorterOK (wl : bool) (f : nat -> list item -> list nat -> res) : Prop :=
  forall p l lcp out lcp', Pre p l -> all_nulfree l -> length lcp = length l ->
    f (length p) l lcp = Some (out, lcp') -> OutOK wl l lcp out lcp'.

Lemma lcpR_length wl lcp out : length lcp = length out -> length (lcpR wl lcp out) = length out.
Proof.
  unfold lcpR. destruct wl; auto. intros H. rewrite app_length, adj_lcps_length.
  destruct lcp as [|h t]; destruct out as [|x o]; simpl in *; lia.
Qed.

Lemma OutOK_SortedPermLcp l lcp out lcp' : length lcp = length l -> OutOK true l lcp out lcp' -> SortedPermLcp l out lcp'.
Proof.
  intros HL (P & S & E). split; [split; assumption|]. apply LcpExact_iff.
  assert (HL' : length lcp = length out) by (rewrite HL; now apply Permutation_length).
  subst lcp'. split; [now apply (lcpR_length true)|].
  unfold lcpR. destruct lcp as [|h t]; simpl.
  - destruct out; [reflexivity|discriminate].
  - reflexivity.
Qed.

(** * insertion sort without LCP *)
Definition desc (l : list item) : Prop := StronglySorted (fun a b => item_le b a) l.

Lemma desc_rev l : desc l -> StronglySorted item_le (rev l).
Proof.
  induction 1 as [|x l S IH F]; simpl; [constructor|].
  apply sorted_app; auto; [repeat constructor|].
  intros a b Ha Hb. destruct Hb as [<-|[]]. rewrite Forall_forall in F. apply F. now apply in_rev.
Qed.

Lemma ins_inner_ok p tmp : forall rp, Pre p (tmp :: rp) -> desc rp ->
  Permutation (tmp :: rp) (ins_inner (length p) tmp rp) /\ desc (ins_inner (length p) tmp rp).
Proof.
  induction rp as [|x r IH]; intros HP HD; simpl.
  - split; [reflexivity|repeat constructor].
  - inversion HP as [|? ? Ht HP']; subst. inversion HP' as [|? ? Hx Hr]; subst.
    inversion HD as [|? ? HD' F]; subst.
    rewrite (leq_from_spec p x tmp Hx Ht).
    destruct (lex_leb (snd x) (snd tmp)) eqn:E.
    + split; [reflexivity|]. constructor; [exact HD|]. constructor; [exact E|].
      rewrite Forall_forall in *. intros b Hb. eapply item_le_trans; [apply F; exact Hb|exact E].
    + destruct (IH (Forall_cons _ Ht Hr) HD') as [P D]. split.
      * eapply Permutation_trans; [apply perm_swap|]. now constructor.
      * constructor; [exact D|]. eapply Permutation_Forall; [exact P|]. constructor; [|exact F].
        unfold item_le. destruct (lex_leb_total (snd tmp) (snd x)) as [H|H]; [exact H|congruence].
Qed.

Lemma ins_fold_ok p : forall r acc, Pre p (r ++ acc) -> desc acc ->
  Permutation (rev r ++ acc) (fold_left (fun a t => ins_inner (length p) t a) r acc) /\
  desc (fold_left (fun a t => ins_inner (length p) t a) r acc).
Proof.
  induction r as [|t r IH]; intros acc HP HD; simpl; [split; [reflexivity|exact HD]|].
  assert (HP1 : Pre p (t :: acc)).
  { unfold Pre in *. simpl in HP. inversion HP; subst. constructor; auto. apply Forall_app in H2. tauto. }
  destruct (ins_inner_ok p t acc HP1 HD) as [P D].
  assert (HP2 : Pre p (r ++ ins_inner (length p) t acc)).
  { unfold Pre in *. simpl in HP. inversion HP; subst. apply Forall_app in H2. destruct H2 as [A B].
    apply Forall_app. split; auto. eapply Permutation_Forall; [exact P|]. constructor; auto. }
  destruct (IH _ HP2 D) as [P' D']. split; [|exact D'].
  eapply Permutation_trans; [|exact P']. rewrite <- app_assoc. simpl. apply Permutation_app_head. exact P.
Qed.

Theorem insertion_sort_ok p l : Pre p l ->
  Permutation l (insertion_sort (length p) l) /\ StronglySorted item_le (insertion_sort (length p) l).
Proof.
  intros HP. destruct l as [|x r]; simpl; [split; constructor|].
  assert (HP' : Pre p (r ++ [x])).
  { unfold Pre in *. inversion HP; subst. apply Forall_app. split; auto. }
  destruct (ins_fold_ok p r [x] HP') as [P D]; [repeat constructor|]. split.
  - eapply Permutation_trans; [|apply Permutation_rev].
    eapply Permutation_trans; [|exact P].
    eapply Permutation_trans; [|apply Permutation_app_comm]. simpl. constructor. apply Permutation_rev.
  - now apply desc_rev.
Qed.

Lemma In_last {A} (l : list A) d : l <> [] -> In (last l d) l.
Proof.
  induction l as [|x l IH]; [congruence|]. intros _. destruct l as [|y l']; [left; reflexivity|].
  right. apply IH. discriminate.
Qed.

(** * processing consecutive buckets *)
Section Glue.
  Variable wl : bool.
  Context {B : Type} (items : B -> list item).
  Let len (b : B) := length (items b).

  (** elements of different buckets are ordered and share exactly [d] characters *)
  Definition cross2 (d : nat) (b1 b2 : list item) : Prop :=
    forall x y, In x b1 -> In y b2 -> item_le x y /\ lcp_len (snd x) (snd y) = d.
  Fixpoint cross (d : nat) (bl : list B) : Prop :=
    match bl with
    | [] => True
    | b :: r => Forall (fun b2 => cross2 d (items b) (items b2)) r /\ cross d r
    end.
  (** after the boundary pass: the lcp cell at the start of every non-empty bucket that has a non-empty
      predecessor holds [d] *)
  Fixpoint heads (d : nat) (seen : bool) (bl : list B) (lcp : list nat) : Prop :=
    match bl with
    | [] => True
    | b :: r => (seen = true -> items b <> [] -> nth 0 lcp 0 = d) /\
                heads d (seen || negb (Nat.eqb (len b) 0)) r (skipn (len b) lcp)
    end.
  Definition allitems (bl : list B) : list item := concat (map items bl).

  Lemma heads_first d : forall bl lcp, heads d true bl lcp -> length lcp = length (allitems bl) -> allitems bl <> [] ->
    firstn 1 lcp = [d].
  Proof.
    induction bl as [|b r IH]; intros lcp H HL HN; [now elim HN|].
    simpl in H. destruct H as [H1 H2]. unfold allitems in *. simpl in *. rewrite app_length in HL.
    destruct (items b) as [|x ib] eqn:E.
    - unfold len in H2. rewrite E in H2. simpl in *. apply IH; auto.
    - destruct lcp as [|h t]; [simpl in HL; lia|]. simpl. f_equal. apply (H1 eq_refl). discriminate.
  Qed.

  Variable f : N -> B -> list nat -> res.
  (** what is known about the lcp view handed to a bucket *)
  Variable P : N -> B -> list nat -> Prop.
  Fixpoint chunksP (ks : list N) (bl : list B) (lcp : list nat) : Prop :=
    match ks, bl with
    | k :: ks', b :: bl' => P k b (firstn (len b) lcp) /\ chunksP ks' bl' (skipn (len b) lcp)
    | _, _ => True
    end.

  Lemma map_buckets_glue d : forall ks bl lcp out lcp' seen,
    map_buckets len f ks bl lcp = Some (out, lcp') ->
    length bl <= length ks ->
    length lcp = length (allitems bl) ->
    (forall k b lc o lc', In (k, b) (combine ks bl) -> length lc = len b -> P k b lc -> f k b lc = Some (o, lc') ->
        OutOK wl (items b) lc o lc') ->
    chunksP ks bl lcp ->
    cross d bl ->
    (wl = true -> heads d seen bl lcp) ->
    OutOK wl (allitems bl) lcp out lcp'.
  Proof.
    induction ks as [|k ks IH]; intros bl lcp out lcp' seen H HK HL HF HP HC HH.
    - destruct bl; [|simpl in HK; lia]. simpl in H. injection H as E1 E2. subst out lcp'. unfold allitems in *. simpl in *.
      destruct lcp; [|discriminate]. split; [constructor|split; [constructor|]]. unfold lcpR. now destruct wl.
    - destruct bl as [|b bl].
      + simpl in H. injection H as E1 E2. subst out lcp'. unfold allitems in *. simpl in *.
        destruct lcp; [|discriminate]. split; [constructor|split; [constructor|]]. unfold lcpR. now destruct wl.
      + simpl in H. unfold allitems in *. simpl in HL. rewrite app_length in HL. fold (len b) in HL.
        destruct (f k b (firstn (len b) lcp)) as [[o lc]|] eqn:Ef; [|discriminate].
        destruct (map_buckets len f ks bl (skipn (len b) lcp)) as [[o2 lc2]|] eqn:Em; [|discriminate].
        injection H as E1 E2. subst out lcp'.
        assert (HL1 : length (firstn (len b) lcp) = len b) by (rewrite firstn_length; lia).
        assert (HL2 : length (skipn (len b) lcp) = length (concat (map items bl))) by (rewrite skipn_length; lia).
        simpl in HP. destruct HP as [HP1 HP2].
        destruct (HF k b _ _ _ (or_introl eq_refl) HL1 HP1 Ef) as (P1 & S1 & E1).
        simpl in HC. destruct HC as [HC1 HC2].
        assert (HH2 : wl = true -> heads d (seen || negb (len b =? 0)) bl (skipn (len b) lcp)) by (intros W; apply (HH W)).
        destruct (IH bl _ _ _ _ Em ltac:(simpl in HK; lia) HL2 ltac:(intros; eapply HF; eauto; right; eauto) HP2 HC2 HH2) as (P2 & S2 & E2).
        simpl. split; [now apply Permutation_app|]. split.
        * apply sorted_app; auto. intros x y Hx Hy.
          apply (Permutation_in _ (Permutation_sym P1)) in Hx. apply (Permutation_in _ (Permutation_sym P2)) in Hy.
          apply in_concat in Hy. destruct Hy as (l2 & Hl2 & Hy). apply in_map_iff in Hl2. destruct Hl2 as (b2 & <- & Hb2).
          rewrite Forall_forall in HC1. apply (HC1 b2 Hb2 x y Hx Hy).
        * subst lc lc2. unfold lcpR. destruct wl eqn:W; [|apply firstn_skipn].
          specialize (HH eq_refl). simpl in HH. destruct HH as [_ HH'].
          destruct o as [|x o'].
          { apply Permutation_sym, Permutation_nil in P1. unfold len in *. rewrite P1 in *. simpl in *. reflexivity. }
          assert (Hb : len b <> 0) by (unfold len; apply Permutation_length in P1; rewrite P1; simpl; lia).
          destruct o2 as [|y o2'].
          { apply Permutation_sym, Permutation_nil in P2. rewrite P2 in HL2. simpl in HL2.
            apply length_zero_iff_nil in HL2. rewrite HL2. rewrite !app_nil_r.
            assert (E : firstn (len b) lcp = lcp).
            { rewrite <- (firstn_skipn (len b) lcp) at 2. rewrite HL2. now rewrite app_nil_r. }
            rewrite E. reflexivity. }
          assert (Hseen : (seen || negb (len b =? 0)) = true).
          { apply orb_true_iff. right. apply negb_true_iff, Nat.eqb_neq. exact Hb. }
          rewrite Hseen in HH'.
          assert (Hne : concat (map items bl) <> []).
          { intros Z. rewrite Z in P2. apply Permutation_nil in P2. discriminate. }
          rewrite (heads_first d bl _ HH' HL2 Hne).
          rewrite (adj_lcps_app (x :: o') (y :: o2')) by discriminate.
          assert (Hj : lcp_len (snd (last (x :: o') dflt)) (snd (hd dflt (y :: o2'))) = d).
          { assert (Hx : In (last (x :: o') dflt) (items b)).
            { apply (Permutation_in _ (Permutation_sym P1)). apply In_last. discriminate. }
            assert (Hy : In y (concat (map items bl))).
            { apply (Permutation_in _ (Permutation_sym P2)). left. reflexivity. }
            apply in_concat in Hy. destruct Hy as (l2 & Hl2 & Hy). apply in_map_iff in Hl2. destruct Hl2 as (b2 & <- & Hb2).
            rewrite Forall_forall in HC1. apply (HC1 b2 Hb2 _ y Hx Hy). }
          rewrite Hj. rewrite firstn_firstn, Nat.min_l by lia. rewrite <- app_assoc. reflexivity.
  Qed.
End Glue.
