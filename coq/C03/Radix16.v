(** C03 — the 16-bit radix steps (RadixStep_CE3 out of place, RadixStep_CI3 in place) and their loops. *)
From Coq Require Import List Bool Arith NArith Lia Sorting.Sorted Sorting.Permutation.
From TLXV Require Import gen.Sizes_C03_gen C03.Model C03.Spec C03.SpecProofs C03.Lemmas C03.Sorters C03.LcpInsertion C03.Radix8.
Import ListNotations.

(** * the LCP pass: first/second loop over the non-empty buckets *)
(** [bnd16] with an optional predecessor: [None] = no non-empty bucket seen yet (its first cell is not written) *)
Fixpoint bndg (dep : nat) (fh : option N) (ne : list (N * nat)) (lcp : list nat) : list nat :=
  match ne with
  | [] => lcp
  | (hi, sz) :: r =>
      (match fh with
       | None => firstn sz lcp
       | Some h => upd (firstn sz lcp) 0 (dep + (if N.eqb h hi then 1 else 0))
       end) ++ bndg dep (Some hi) r (skipn sz lcp)
  end.

Lemma bndg_Some dep : forall ne h lcp, bndg dep (Some h) ne lcp = bnd16 dep h ne lcp.
Proof. induction ne as [|[hi sz] r IH]; intros h lcp; simpl; auto. now rewrite IH. Qed.

Lemma lcp_step16_bndg dep bss lcp :
  lcp_step16 dep bss lcp = bndg dep None (ne_list bss) (fill_range 1 (hd 0 (hd [] bss)) dep lcp).
Proof. unfold lcp_step16. destruct (ne_list bss) as [|[h0 s0] r]; simpl; auto. now rewrite bndg_Some. Qed.

Definition lasthi (fh : option N) (ne : list (N * nat)) : option N := fold_left (fun _ p => Some (fst p)) ne fh.

Lemma bndg_app dep : forall ne1 ne2 fh L,
  bndg dep fh (ne1 ++ ne2) L =
  bndg dep fh ne1 (firstn (list_sum (map snd ne1)) L) ++ bndg dep (lasthi fh ne1) ne2 (skipn (list_sum (map snd ne1)) L).
Proof.
  induction ne1 as [|[hi sz] r IH]; intros ne2 fh L; simpl; [reflexivity|].
  rewrite IH. rewrite <- app_assoc. f_equal.
  - destruct fh; rewrite firstn_firstn, Nat.min_l by lia; reflexivity.
  - unfold lasthi. simpl. f_equal.
    + f_equal. apply firstn_skipn_comm.
    + f_equal. apply skipn_skipn'.
Qed.

Definition nz (b : nat) : bool := negb (b =? 0).
Definition group_ne (k : N) (bl : list (list item)) : list (N * nat) :=
  map (fun b => (k, b)) (filter nz (map (@length _) bl)).

Lemma group_ne_sum k bl : list_sum (map snd (group_ne k bl)) = length (concat bl).
Proof.
  unfold group_ne. induction bl as [|b r IH]; simpl; auto. rewrite app_length.
  unfold nz at 1. destruct (Nat.eqb_spec (length b) 0) as [E|E]; simpl; rewrite IH; lia.
Qed.

Lemma group_ne_nil k bl : length (concat bl) = 0 -> group_ne k bl = [].
Proof.
  unfold group_ne. induction bl as [|b r IH]; simpl; auto. rewrite app_length. intros H.
  unfold nz at 1. destruct (Nat.eqb_spec (length b) 0) as [E|E]; simpl; [apply IH; lia|lia].
Qed.

Lemma group_ne_lasthi k bl fh : lasthi fh (group_ne k bl) = if length (concat bl) =? 0 then fh else Some k.
Proof.
  unfold group_ne, lasthi. revert fh. induction bl as [|b r IH]; intros fh; simpl; auto. rewrite app_length.
  unfold nz at 1. destruct (Nat.eqb_spec (length b) 0) as [E|E]; simpl.
  - rewrite E. simpl. apply IH.
  - rewrite IH. destruct (Nat.eqb_spec (length (concat r)) 0) as [E2|E2];
      destruct (Nat.eqb_spec (length b + length (concat r)) 0); try lia; reflexivity.
Qed.

Definition idl (b : list item) : list item := b.

Lemma group_ne_cons_z k (b : list item) r : length b = 0 -> group_ne k (b :: r) = group_ne k r.
Proof. intros E. unfold group_ne. simpl. unfold nz at 1. now rewrite E. Qed.
Lemma group_ne_cons_nz k (b : list item) r : length b <> 0 -> group_ne k (b :: r) = (k, length b) :: group_ne k r.
Proof. intros E. unfold group_ne. simpl. unfold nz at 1. destruct (Nat.eqb_spec (length b) 0); [lia|reflexivity]. Qed.
Lemma bndg_cons dep fh hi sz r lcp :
  bndg dep fh ((hi, sz) :: r) lcp =
  (match fh with None => firstn sz lcp | Some h => upd (firstn sz lcp) 0 (dep + (if N.eqb h hi then 1 else 0)) end)
  ++ bndg dep (Some hi) r (skipn sz lcp).
Proof. reflexivity. Qed.
Lemma heads_cons {B} (items : B -> list item) d seen b r lcp :
  heads items d seen (b :: r) lcp =
  ((seen = true -> items b <> [] -> nth 0 lcp 0 = d) /\
   heads items d (seen || negb (length (items b) =? 0)) r (skipn (length (items b)) lcp)).
Proof. reflexivity. Qed.

(** one group (fixed high byte [k]): its inner bucket starts hold [dep + 1] *)
Lemma group_ok dep k : forall (bl : list (list item)) fh C seen,
  length C = length (concat bl) -> (seen = true -> fh = Some k) ->
  let G := bndg dep fh (group_ne k bl) C in
  length G = length C /\
  (fh = None -> firstn 1 G = firstn 1 C) /\
  (forall h, fh = Some h -> concat bl <> [] -> nth 0 G 0 = dep + (if N.eqb h k then 1 else 0)) /\
  (forall i, 1 <= i < length (hd [] bl) -> nth i G 0 = nth i C 0) /\
  heads idl (S dep) seen bl G.
Proof.
  induction bl as [|b r IH]; intros fh C seen HL Hs; cbv zeta.
  - simpl. split; [reflexivity|]. split; [auto|]. split; [intros h _ Z; now elim Z|]. split; [intros i Hi; simpl in Hi; lia|exact I].
  - simpl in HL. rewrite app_length in HL. cbn [hd]. rewrite heads_cons. change (idl b) with b.
    destruct (Nat.eq_dec (length b) 0) as [E|E].
    + rewrite (group_ne_cons_z k b r E). rewrite E.
      assert (Eb : b = []) by (now apply length_zero_iff_nil). 
      destruct (IH fh C seen ltac:(lia) Hs) as (A1 & A2 & A3 & _ & A5). cbv zeta in *.
      split; [exact A1|]. split; [exact A2|]. split; [intros h Eh Hne; apply (A3 h Eh); now rewrite Eb in Hne|].
      split; [intros i Hi; lia|].
      split; [intros _ Z; now elim Z|]. simpl. rewrite orb_false_r. exact A5.
    + rewrite (group_ne_cons_nz k b r E). rewrite bndg_cons.
      set (W := match fh with None => firstn (length b) C | Some h => upd (firstn (length b) C) 0 (dep + (if N.eqb h k then 1 else 0)) end).
      assert (HW : length W = length b).
      { unfold W. destruct fh; [rewrite upd_length|]; rewrite firstn_length; lia. }
      assert (HLr : length (skipn (length b) C) = length (concat r)) by (rewrite skipn_length; lia).
      destruct (IH (Some k) (skipn (length b) C) true HLr (fun _ => eq_refl)) as (A1 & _ & _ & _ & A5). cbv zeta in *.
      set (Rr := bndg dep (Some k) (group_ne k r) (skipn (length b) C)) in *.
      split; [rewrite app_length, A1, HW, skipn_length; lia|].
      split.
      { intros ->. unfold W. destruct C as [|c C']; [simpl in HL; lia|]. destruct (length b) as [|n]; [lia|]. reflexivity. }
      split.
      { intros h Eh _. rewrite app_nth1 by lia. unfold W. rewrite Eh. apply upd_nth_same. rewrite firstn_length. lia. }
      split.
      { intros i Hi. rewrite app_nth1 by lia. unfold W.
        destruct fh; [rewrite upd_nth_other by lia|]; apply nth_firstn_lt; lia. }
      split.
      { intros Hseen _. rewrite app_nth1 by lia. unfold W. rewrite (Hs Hseen).
        rewrite upd_nth_same by (rewrite firstn_length; lia). rewrite N.eqb_refl. lia. }
      replace (seen || negb (length b =? 0)) with true.
      2:{ destruct (Nat.eqb_spec (length b) 0); [lia|]. now rewrite orb_true_r. }
      replace (skipn (length b) (W ++ Rr)) with Rr; [exact A5|].
      rewrite <- HW at 1. rewrite skipn_app, skipn_all, Nat.sub_diag. reflexivity.
Qed.

Definition issome (o : option N) : bool := match o with Some _ => true | None => false end.
Definition groups_ne (ks : list N) (gs : list (list (list item))) : list (N * nat) :=
  flat_map (fun p => map (fun b => (fst p, b)) (filter nz (snd p))) (combine ks (map (map (@length _)) gs)).

Lemma groups_ne_cons k ks g gs : groups_ne (k :: ks) (g :: gs) = group_ne k g ++ groups_ne ks gs.
Proof. reflexivity. Qed.

(** all groups: group starts hold [dep], inner bucket starts [dep + 1] *)
Lemma groups_ok dep : forall ks (gs : list (list (list item))) fh L,
  length L = length (concat (map (@concat _) gs)) ->
  (forall h, fh = Some h -> ~ In h ks) -> NoDup ks -> length gs <= length ks ->
  let R := bndg dep fh (groups_ne ks gs) L in
  length R = length L /\
  (fh = None -> firstn 1 R = firstn 1 L) /\
  heads (@concat item) dep (issome fh) gs R /\
  chunksP (@concat item) (fun _ bl lc => heads idl (S dep) false bl lc) ks gs R /\
  (forall i, 1 <= i < length (hd [] (hd [] gs)) -> nth i R 0 = nth i L 0).
Proof.
  induction ks as [|k ks IH]; intros gs fh L HL Hfh ND HK.
  - destruct gs; [|simpl in HK; lia]. simpl. repeat split; auto.
  - destruct gs as [|g gs]; [simpl; repeat split; auto|].
    rewrite groups_ne_cons. cbv zeta. rewrite bndg_app. rewrite group_ne_sum, group_ne_lasthi.
    simpl in HL. rewrite app_length in HL.
    set (n := length (concat g)) in *.
    assert (HC : length (firstn n L) = length (concat g)) by (rewrite firstn_length; lia).
    destruct (group_ok dep k g fh (firstn n L) false HC ltac:(discriminate)) as (G1 & G2 & G3 & G4 & G5).
    set (Gk := bndg dep fh (group_ne k g) (firstn n L)) in *.
    set (fh' := if n =? 0 then fh else Some k).
    inversion ND as [|? ? Hk ND']; subst.
    assert (Hfh' : forall h, fh' = Some h -> ~ In h ks).
    { intros h Eh. unfold fh' in Eh. destruct (n =? 0).
      - intros Z. apply (Hfh h Eh). now right.
      - injection Eh as <-. exact Hk. }
    assert (HLr : length (skipn n L) = length (concat (map (@concat _) gs))) by (rewrite skipn_length; lia).
    destruct (IH gs fh' (skipn n L) HLr Hfh' ND' ltac:(simpl in HK; lia)) as (R1 & R2 & R3 & R4 & _).
    set (Rr := bndg dep fh' (groups_ne ks gs) (skipn n L)) in *.
    assert (HGk : length Gk = n) by (rewrite G1; exact HC).
    assert (Hskip : skipn n (Gk ++ Rr) = Rr).
    { rewrite <- HGk at 1. rewrite skipn_app, skipn_all, Nat.sub_diag. reflexivity. }
    assert (Hfirst : firstn n (Gk ++ Rr) = Gk).
    { rewrite <- HGk at 1. rewrite firstn_app, firstn_all, Nat.sub_diag. simpl. now rewrite app_nil_r. }
    split; [rewrite app_length, R1, G1, firstn_length, skipn_length; lia|].
    split.
    { intros E. destruct (Nat.eqb_spec n 0) as [Z|Z].
      - rewrite Z in HGk. apply length_zero_iff_nil in HGk. rewrite HGk. simpl.
        unfold fh' in R2. rewrite Z in *. simpl in R2. rewrite (R2 E). reflexivity.
      - destruct Gk as [|x Gk']; [simpl in HGk; lia|]. simpl.
        specialize (G2 E). simpl in G2. rewrite G2. destruct L as [|y L']; [simpl in HL; lia|].
        destruct n; [lia|]. reflexivity. }
    split.
    { simpl. fold n. split.
      - intros Hs Hne. destruct fh as [h|]; [|discriminate].
        assert (Hn : n <> 0) by (unfold n; destruct (concat g); [congruence|simpl; lia]).
        rewrite app_nth1 by lia. rewrite (G3 h eq_refl Hne).
        assert (E : N.eqb h k = false).
        { apply N.eqb_neq. intros ->. apply (Hfh k eq_refl). now left. }
        rewrite E. lia.
      - rewrite Hskip. replace (issome fh || negb (n =? 0)) with (issome fh'); [exact R3|].
        unfold fh'. destruct (n =? 0); simpl; [now rewrite orb_false_r|now rewrite orb_true_r]. }
    split; [simpl; fold n; rewrite Hfirst, Hskip; split; [exact G5|exact R4]|].
    cbn [hd]. intros i Hi.
    assert (Hle : length (hd [] g) <= n).
    { unfold n. destruct g as [|b0 g']; simpl; [lia|]. rewrite app_length. lia. }
    rewrite app_nth1 by lia. rewrite (G4 i Hi). apply nth_firstn_lt. lia.
Qed.

Lemma fill_range_first lo hi v l : 1 <= lo -> firstn 1 (fill_range lo hi v l) = firstn 1 l.
Proof. intros H. unfold fill_range. destruct lo; [lia|]. destruct l as [|h t]; [destruct (hi - S lo); reflexivity|reflexivity]. Qed.

Lemma lcp_step16_ok dep (bll : list (list (list item))) lcp :
  length lcp = length (concat (map (@concat _) bll)) -> length bll <= length keys256 ->
  let R := lcp_step16 dep (map (map (@length _)) bll) lcp in
  length R = length lcp /\ firstn 1 R = firstn 1 lcp /\
  heads (@concat item) dep false bll R /\
  chunksP (@concat item) (fun _ bl lc => heads idl (S dep) false bl lc) keys256 bll R /\
  (forall i, 1 <= i < length (hd [] (hd [] bll)) -> nth i R 0 = dep).
Proof.
  intros HL HK. cbv zeta. rewrite lcp_step16_bndg.
  change (ne_list (map (map (@length _)) bll)) with (groups_ne keys256 bll).
  assert (Hb00 : hd 0 (hd [] (map (map (@length _)) bll)) = length (hd [] (hd [] bll))).
  { destruct bll as [|[|b g] r]; reflexivity. }
  rewrite Hb00. set (b00 := length (hd [] (hd [] bll))).
  set (L := fill_range 1 b00 dep lcp).
  assert (HLL : length L = length lcp) by apply fill_range_length.
  destruct (groups_ok dep keys256 bll None L ltac:(lia) ltac:(discriminate) (sorted_lt_NoDup _ keys256_sorted) HK)
    as (A1 & A2 & A3 & A4 & A5).
  split; [lia|]. split; [rewrite (A2 eq_refl); apply fill_range_first; lia|]. split; [exact A3|]. split; [exact A4|].
  intros i Hi. rewrite (A5 i Hi). unfold L. rewrite fill_range_nth.
  assert (Hlen : b00 <= length lcp).
  { rewrite HL. unfold b00. destruct bll as [|[|b g] r]; simpl; try lia. rewrite !app_length. lia. }
  fold b00 in Hi.
  assert (E1 : (1 <=? i) = true) by (apply Nat.leb_le; lia).
  assert (E2 : (i <? b00) = true) by (apply Nat.ltb_lt; lia).
  assert (E3 : (i <? length lcp) = true) by (apply Nat.ltb_lt; lia).
  now rewrite E1, E2, E3.
Qed.

(** * buckets *)
Definition Buckets16OK (dep : nat) (l : list item) (bll : list (list (list item))) : Prop :=
  Forall2 (fun hi bl => BucketsOK (S dep) (filter (fun x => N.eqb (ch dep x) hi) l) bl) keys256 bll.

Lemma ce_buckets16_ok dep l bll : buckets16 false dep l = Some bll -> Buckets16OK dep l bll.
Proof.
  intros H.
  assert (E : Some bll = Some (map (fun hi => map (fun lo => filter (fun x => N.eqb (ch (S dep) x) lo) (filter (fun x => N.eqb (ch dep x) hi) l)) keys256) keys256))
    by (rewrite <- H; reflexivity).
  apply (f_equal (fun o => match o with Some x => x | None => bll end)) in E. cbv beta iota in E. rewrite E.
  apply Forall2_map_self. intros hi _. apply ce_buckets_ok.
Qed.

Lemma Forall2_map2 {A C A' C'} (R : A' -> C' -> Prop) (f : A -> A') (g : C -> C') : forall ks bl,
  Forall2 (fun k b => R (f k) (g b)) ks bl -> Forall2 R (map f ks) (map g bl).
Proof. induction 1; simpl; constructor; auto. Qed.

Lemma Buckets16OK_perm dep l bll : all_nulfree l -> Buckets16OK dep l bll ->
  Permutation l (concat (map (@concat _) bll)) /\
  Forall2 (fun hi bl => Permutation (filter (fun x => N.eqb (ch dep x) hi) l) (concat bl)) keys256 bll.
Proof.
  intros HN HB.
  assert (HG : Forall2 (fun hi bl => Permutation (filter (fun x => N.eqb (ch dep x) hi) l) (concat bl)) keys256 bll).
  { unfold Buckets16OK in HB. revert HB. generalize keys256. intros ks HB.
    induction HB as [|k b ks bll Hk HB IHB]; constructor; auto.
    eapply BucketsOK_perm; [|exact Hk]. now apply nulfree_filter. }
  split; [|exact HG].
  eapply Permutation_trans; [apply (buckets_perm (ch dep) keys256)|].
  - apply sorted_lt_NoDup, keys256_sorted.
  - intros x Hx. apply keys256_in. apply char_at_byte. unfold all_nulfree in HN. rewrite Forall_forall in HN. now apply HN.
  - apply Forall2_perm_concat. apply Forall2_map2. exact HG.
Qed.

Lemma chunksP_nonzero {B} (items : B -> list item) (P : N -> B -> list nat -> Prop) : forall ks bl R,
  (forall k b lc, In k ks -> P k b lc) -> chunksP items P ks bl R.
Proof.
  induction ks as [|k ks IH]; intros bl R H; destruct bl; simpl; auto.
  split; [apply H; now left|apply IH; intros; apply H; now right].
Qed.

Lemma chunksP_and {B} (items : B -> list item) (P1 P2 : N -> B -> list nat -> Prop) : forall ks bl R,
  chunksP items P1 ks bl R -> chunksP items P2 ks bl R -> chunksP items (fun k b lc => P1 k b lc /\ P2 k b lc) ks bl R.
Proof.
  induction ks as [|k ks IH]; intros bl R H1 H2; destruct bl; simpl in *; auto.
  destruct H1, H2. split; [split; auto|apply IH; auto].
Qed.

Lemma cross_empties {B} (items : B -> list item) d : forall r, Forall (fun b => items b = []) r -> cross items d r.
Proof.
  induction 1 as [|b r Hb Hr IH]; simpl; auto. split; [|exact IH].
  rewrite Forall_forall. intros b2 _ x y Hx. rewrite Hb in Hx. contradiction.
Qed.

Lemma cross_keys_gen {B} (items : B -> list item) p : forall ks bl, StronglySorted N.lt ks ->
  Forall2 (fun k b => Forall (fun x => ch (length p) x = k /\ pre p x) (items b)) ks bl ->
  cross items (length p) bl.
Proof.
  intros ks bl S H. revert S. induction H as [|k b ks bl Hb H IH]; intros S; simpl; [exact I|].
  inversion S as [|? ? S' F]; subst. split; [|now apply IH].
  rewrite Forall_forall. intros b2 Hb2 x y Hx Hy.
  assert (exists k2, In k2 ks /\ Forall (fun x => ch (length p) x = k2 /\ pre p x) (items b2)) as (k2 & Hk2 & Fb2).
  { clear -H Hb2. induction H as [|k' b' ks bl Hk' H IH]; [contradiction|]. destruct Hb2 as [-> | Hb2].
    - exists k'. split; [now left|assumption].
    - destruct (IH Hb2) as (k2 & A & C). exists k2. split; [now right|assumption]. }
  rewrite Forall_forall in Hb, Fb2, F. destruct (Hb x Hx) as [Ex Px]. destruct (Fb2 y Hy) as [Ey Py].
  specialize (F k2 Hk2). unfold item_le. apply ch_lt_order; auto. lia.
Qed.

Lemma fill_const (b : list item) v lc : length lc = length b ->
  fill_range 1 (length b) v lc = firstn 1 lc ++ repeat v (length b - 1).
Proof.
  intros HL. eapply eq_trans; [apply (lcp_const v)|].
  - intros i Hi. rewrite fill_range_length in Hi. rewrite fill_range_nth.
    assert (E1 : (1 <=? i) = true) by (apply Nat.leb_le; lia).
    assert (E2 : (i <? length b) = true) by (apply Nat.ltb_lt; lia).
    assert (E3 : (i <? length lc) = true) by (apply Nat.ltb_lt; lia).
    now rewrite E1, E2, E3.
  - rewrite fill_range_length, fill_range_first by lia. f_equal. f_equal. f_equal. exact HL.
Qed.

Lemma ch_past_end (x : item) p : snd x = p -> ch (S (length p)) x = 0%N.
Proof. intros E. subst p. unfold ch, char_at. apply nth_overflow. lia. Qed.

Lemma zgroup_buckets p g : Forall (fun x : item => snd x = p) g -> forall ks bl,
  Forall2 (fun k b => Permutation (filter (fun x => N.eqb (ch (S (length p)) x) k) g) b) ks bl ->
  Forall2 (fun lo (b : list item) => Forall (fun x => snd x = p) b /\ (lo <> 0%N -> b = [])) ks bl.
Proof.
  intros Hg ks bl HB. induction HB as [|k b ks bl Hk HB IHB]; constructor; [|exact IHB]. split.
  - rewrite Forall_forall in *. intros x Hx. apply (Permutation_in _ (Permutation_sym Hk)) in Hx.
    apply filter_In in Hx. apply Hg, Hx.
  - intros Hk0. destruct b as [|x b']; auto. exfalso.
    assert (Hx : In x (filter (fun x => N.eqb (ch (S (length p)) x) k) g)) by (apply (Permutation_in _ (Permutation_sym Hk)); now left).
    apply filter_In in Hx. destruct Hx as [Hx E]. apply N.eqb_eq in E. rewrite Forall_forall in Hg.
    apply Hk0. rewrite <- E. apply ch_past_end. apply (Hg x Hx).
Qed.

Lemma cross_zgroup p d : forall ks (bl : list (list item)),
  Forall2 (fun lo (b : list item) => Forall (fun x => snd x = p) b /\ (lo <> 0%N -> b = [])) (0%N :: ks) bl ->
  (forall k, In k ks -> k <> 0%N) -> cross idl d bl.
Proof.
  intros ks bl H Hk. inversion H as [|? b0 ? r _ Hr]; subst.
  assert (He : Forall (fun b : list item => idl b = []) r).
  { clear -Hr Hk. induction Hr as [|k b ks r [_ Hb] Hr IHr]; constructor.
    - apply Hb. apply Hk. now left.
    - apply IHr. intros; apply Hk. now right. }
  simpl. split; [|now apply cross_empties].
  rewrite Forall_forall in *. intros b2 Hb2 x y _ Hy. rewrite (He b2 Hb2) in Hy. contradiction.
Qed.

Lemma Forall2_In_combine {A C} (R : A -> C -> Prop) : forall ks bl k b,
  Forall2 R ks bl -> In (k, b) (combine ks bl) -> R k b.
Proof.
  intros ks bl k b H. induction H as [|k' b' ks bl Hk H IH]; simpl; [contradiction|].
  intros [E|E]; [injection E as <- <-; assumption|now apply IH].
Qed.

Lemma chunksP_impl {B} (items : B -> list item) (P1 P2 : N -> B -> list nat -> Prop) :
  (forall k b lc, P1 k b lc -> P2 k b lc) -> forall ks bl R, chunksP items P1 ks bl R -> chunksP items P2 ks bl R.
Proof.
  intros H. induction ks as [|k ks IH]; intros bl R H1; destruct bl; simpl in *; auto.
  destruct H1. split; auto.
Qed.

(** * the step *)
Section R16.
  Variable sz : sizes.
  Variable wl : bool.
  Hypothesis mkqs_ok : forall fuel mem, SorterOK wl (fun d => mkqs sz wl fuel d mem).
  Variable ip : bool.       (* in place (RadixStep_CI3/CI2) or out of place; constant along the recursion *)
  Hypothesis ip_buckets_ok : ip = true -> forall dep l bl, all_nulfree l -> buckets8 true dep l = Some bl -> BucketsOK dep l bl.
  Hypothesis ip16_buckets_ok : ip = true -> forall dep l bll, all_nulfree l -> buckets16 true dep l = Some bll -> Buckets16OK dep l bll.

  Let ins_ok := insertion_ok wl.
  Let r8_ok := r8_step_ok sz wl ins_ok mkqs_ok ip ip_buckets_ok.

  Definition inner_f (f : nat) (ip' : bool) (mem : N) (s : nat) (sz16 sz8 : N) (dep : nat) (hi : N)
    : N -> list item -> list nat -> res :=
    fun lo b lc =>
      let m := nN b in
      if N.eqb hi 0 && N.eqb lo 0 then Some (b, lc)
      else if (if ip' then N.leb m 1 else N.eqb m 0) then Some (b, lc)
      else if N.eqb lo 0 then Some (b, if wl then fill_range 1 (length b) (S dep) lc else lc)
      else if N.ltb m inssort_threshold then Some (insertion wl (S (S dep)) b lc)
      else if N.ltb m radix16 then r8_step sz wl f ip' sz8 (w64sub mem (w64 (sz16 * N.of_nat s))) 1 (S (S dep)) b lc
      else if mem_short mem (w64 (sz16 * N.of_nat (S s))) then mkqs sz wl f (S (S dep)) (w64sub mem (w64 (sz16 * N.of_nat s))) b lc
      else r16_step sz wl f ip' mem (S s) (S (S dep)) b lc.

  Lemma r16_step_S f ip' mem s dep l lcp :
    r16_step sz wl (S f) ip' mem s dep l lcp =
    match buckets16 ip' dep l with
    | None => None
    | Some bll =>
        let sz16 := if ip' then sz_ci3 sz else sz_ce3 sz in
        let sz8 := if ip' then sz_ci2 sz else sz_ce2 sz in
        let lcp1 := if wl then lcp_step16 dep (map (map (@length _)) bll) lcp else lcp in
        map_buckets (fun bl => length (concat bl))
          (fun hi bl lc0 => map_buckets (@length _) (inner_f f ip' mem s sz16 sz8 dep hi) keys256 bl lc0)
          keys256 bll lcp1
    end.
  Proof. reflexivity. Qed.

  Lemma buckets16_ok dep l bll : all_nulfree l -> buckets16 ip dep l = Some bll -> Buckets16OK dep l bll.
  Proof.
    intros HN H. destruct (Bool.bool_dec ip true) as [E|E].
    - rewrite E in H. now apply (ip16_buckets_ok E).
    - apply Bool.not_true_is_false in E. rewrite E in H. now apply ce_buckets16_ok.
  Qed.

  Section Group.
    Variable f : nat.
    Hypothesis IH : forall mem s, SorterOK wl (fun d => r16_step sz wl f ip mem s d).

    Lemma small_ok (b : list item) lc : length lc = length b -> length b <= 1 -> OutOK wl b lc b lc.
    Proof.
      intros HL H1. split; [reflexivity|]. split.
      - destruct b as [|x [|y b']]; simpl in H1; try lia; repeat constructor.
      - unfold lcpR. destruct wl; auto. now apply small_lcp.
    Qed.

    Lemma same_ok q (b : list item) lc : Forall (fun x => snd x = q) b ->
      lc = firstn 1 lc ++ repeat (length q) (length b - 1) -> OutOK true b lc b lc.
    Proof.
      intros Hs E. destruct (all_same_sorted q b Hs) as [S L]. split; [reflexivity|]. split; [exact S|].
      unfold lcpR. rewrite L. exact E.
    Qed.

    (** high byte non-zero: the strings of the group share [p ++ [hi]] *)
    Lemma group_contract_nz mem s sz16 sz8 p hi (bl : list (list item)) lc0 o lc' g :
      hi <> 0%N -> Pre (p ++ [hi]) g -> all_nulfree g ->
      BucketsOK (S (length p)) g bl ->
      length lc0 = length (concat bl) ->
      (wl = true -> heads idl (S (length p)) false bl lc0) ->
      map_buckets (@length _) (inner_f f ip mem s sz16 sz8 (length p) hi) keys256 bl lc0 = Some (o, lc') ->
      OutOK wl (concat bl) lc0 o lc'.
    Proof.
      intros Hhi HP HN HB HL HH H.
      set (p' := p ++ [hi]) in *.
      assert (Hlen : length p' = S (length p)) by (unfold p'; rewrite app_length; simpl; lia).
      rewrite <- Hlen in HB, HH.
      pose proof (BucketsOK_in p' g HP HN keys256 bl HB) as Hin.
      pose (P := fun (_ : N) (_ : list item) (_ : list nat) => True).
      assert (HG : OutOK wl (allitems idl bl) lc0 o lc').
      { eapply (map_buckets_glue wl idl _ P (length p') keys256 bl lc0 o lc' false).
        - exact H.
        - rewrite (Forall2_len _ _ _ Hin). lia.
        - unfold allitems, idl. rewrite map_id. exact HL.
        - intros lo b lc o1 lc1 Hkb HLb _ Hf. unfold idl in HLb.
          assert (Hb : Forall (fun x => ch (length p') x = lo /\ pre p' x /\ nulfree (snd x)) b).
          { clear -Hin Hkb. revert Hkb. induction Hin as [|k' b' ks bl Hk' Hin IHin]; simpl; [contradiction|].
            intros [E|E]; [injection E as <- <-; assumption|now apply IHin]. }
          unfold inner_f in Hf. cbv zeta in Hf.
          assert (E0 : N.eqb hi 0 = false) by (now apply N.eqb_neq). rewrite E0 in Hf. simpl andb in Hf.
          revert Hf. destruct (if ip then N.leb (nN b) 1 else N.eqb (nN b) 0) eqn:Esmall; intros Hf.
          + injection Hf as <- <-. apply small_ok; auto.
            unfold nN in Esmall. destruct ip; [apply N.leb_le in Esmall|apply N.eqb_eq in Esmall]; lia.
          + destruct (N.eqb_spec lo 0) as [-> | Hlo].
            * (* zero-termination: all strings are p' *)
              injection Hf as <- <-.
              assert (Hsame : Forall (fun x => snd x = p') b).
              { rewrite Forall_forall in *. intros x Hx. destruct (Hb x Hx) as (E & Px & Nx). now apply ch_zero_end. }
              destruct (all_same_sorted p' b Hsame) as [S L]. split; [reflexivity|]. split; [exact S|].
              unfold lcpR. destruct wl; auto. rewrite L, Hlen. apply fill_const. exact HLb.
            * assert (HPre : Pre (p' ++ [lo]) b).
              { unfold Pre. rewrite Forall_forall in *. intros x Hx. destruct (Hb x Hx) as (E & Px & Nx). now apply (ch_nonzero_pre p' x lo). }
              assert (HNb : all_nulfree b).
              { unfold all_nulfree. rewrite Forall_forall in *. intros x Hx. now destruct (Hb x Hx) as (E & Px & Nx). }
              assert (Hlen2 : length (p' ++ [lo]) = S (S (length p))) by (rewrite app_length, Hlen; simpl; lia).
              rewrite <- Hlen2 in Hf.
              revert Hf. destruct (N.ltb (nN b) inssort_threshold); intros Hf;
                [apply (ins_ok (p' ++ [lo]) b lc o1 lc1 HPre HNb HLb); exact Hf|].
              revert Hf. destruct (N.ltb (nN b) radix16); intros Hf;
                [apply (r8_ok f sz8 (w64sub mem (w64 (sz16 * N.of_nat s))) 1 (p' ++ [lo]) b lc o1 lc1 HPre HNb HLb); exact Hf|].
              revert Hf. destruct (mem_short mem (w64 (sz16 * N.of_nat (S s)))); intros Hf;
                [apply (mkqs_ok f (w64sub mem (w64 (sz16 * N.of_nat s))) (p' ++ [lo]) b lc o1 lc1 HPre HNb HLb); exact Hf|].
              apply (IH mem (S s) (p' ++ [lo]) b lc o1 lc1 HPre HNb HLb). exact Hf.
        - apply chunksP_nonzero. intros; exact I.
        - apply (cross_keys_gen idl p' keys256 bl keys256_sorted).
          clear -Hin. induction Hin as [|k b ks bl' Hb Hin' IHin]; constructor; auto.
          unfold idl. eapply Forall_impl; [|exact Hb]. simpl. tauto.
        - exact HH. }
      unfold allitems, idl in HG. rewrite map_id in HG. exact HG.
    Qed.

    (** high byte zero: every string of the group is [p]; only bucket (0,0) is non-empty *)
    Lemma group_contract_z mem s sz16 sz8 p (bl : list (list item)) lc0 o lc' g :
      Forall (fun x => snd x = p) g ->
      BucketsOK (S (length p)) g bl ->
      length lc0 = length (concat bl) ->
      (wl = true -> heads idl (S (length p)) false bl lc0) ->
      (wl = true -> forall i, 1 <= i < length (hd [] bl) -> nth i lc0 0 = length p) ->
      map_buckets (@length _) (inner_f f ip mem s sz16 sz8 (length p) 0) keys256 bl lc0 = Some (o, lc') ->
      OutOK wl (concat bl) lc0 o lc'.
    Proof.
      intros Hg HB HL HH HI H.
      (* contents of the buckets *)
      pose proof (zgroup_buckets p g Hg keys256 bl HB) as Hin.
      pose (P := fun (lo : N) (b : list item) (lc : list nat) =>
                   lo = 0%N -> wl = true -> forall i, 1 <= i < length b -> nth i lc 0 = length p).
      assert (HG : OutOK wl (allitems idl bl) lc0 o lc').
      { eapply (map_buckets_glue wl idl _ P (S (length p)) keys256 bl lc0 o lc' false).
        - exact H.
        - rewrite (Forall2_len _ _ _ Hin). lia.
        - unfold allitems, idl. rewrite map_id. exact HL.
        - intros lo b lc o1 lc1 Hkb HLb HPb Hf. unfold idl in HLb.
          assert (Hb : Forall (fun x => snd x = p) b /\ (lo <> 0%N -> b = [])).
          { clear -Hin Hkb. revert Hkb. induction Hin as [|k' b' ks bl Hk' Hin IHin]; simpl; [contradiction|].
            intros [E|E]; [injection E as <- <-; assumption|now apply IHin]. }
          destruct Hb as [Hsame Hemp]. unfold inner_f in Hf. cbv zeta in Hf.
          destruct (N.eqb_spec lo 0) as [-> | Hlo].
          + simpl in Hf. injection Hf as <- <-.
            destruct wl eqn:W.
            * apply (same_ok p); auto.
              eapply eq_trans; [apply (lcp_const (length p) lc)|f_equal; f_equal; f_equal; exact HLb].
              intros i Hi. apply (HPb eq_refl eq_refl). rewrite <- HLb. exact Hi.
            * destruct (all_same_sorted p b Hsame) as [S _]. split; [reflexivity|split; [exact S|reflexivity]].
          + rewrite (Hemp Hlo) in *. simpl andb in Hf.
            assert (Es : (if ip then N.leb (nN (@nil item)) 1 else N.eqb (nN (@nil item)) 0) = true) by (destruct ip; reflexivity).
            rewrite Es in Hf. injection Hf as <- <-. apply small_ok; auto.
        - rewrite keys256_cons in *. destruct bl as [|b0 r]; [exact I|].
          change (P 0%N b0 (firstn (length (idl b0)) lc0) /\ chunksP idl P (map N.of_nat (seq 1 255)) r (skipn (length (idl b0)) lc0)).
          split.
          + intros _ W i Hi. unfold idl. rewrite nth_firstn_lt by lia. apply (HI W). simpl. exact Hi.
          + apply chunksP_nonzero. intros k b lc Hk Hk0. exfalso. subst k.
            apply in_map_iff in Hk. destruct Hk as (i & Ei & Hi). apply in_seq in Hi. lia.
        - rewrite keys256_cons in Hin. apply (cross_zgroup p (S (length p)) _ bl Hin).
          intros k Hk. apply in_map_iff in Hk. destruct Hk as (i & <- & Hi). apply in_seq in Hi. lia.
        - exact HH. }
      unfold allitems, idl in HG. rewrite map_id in HG. exact HG.
    Qed.
  End Group.

  Theorem r16_step_ok : forall fuel mem s, SorterOK wl (fun d => r16_step sz wl fuel ip mem s d).
  Proof.
    induction fuel as [|f IH]; intros mem s p l lcp out lcp' HP HN HL H; [discriminate|].
    rewrite r16_step_S in H. destruct (buckets16 ip (length p) l) as [bll|] eqn:EB; [|discriminate].
    pose proof (buckets16_ok _ _ _ HN EB) as HB.
    destruct (Buckets16OK_perm _ _ _ HN HB) as [Pl HG].
    cbv zeta in H.
    set (sz16 := if ip then sz_ci3 sz else sz_ce3 sz) in H.
    set (sz8 := if ip then sz_ci2 sz else sz_ce2 sz) in H.
    set (lcp1 := if wl then lcp_step16 (length p) (map (map (@length _)) bll) lcp else lcp) in H.
    assert (HLc : length lcp = length (concat (map (@concat _) bll))) by (rewrite HL; now apply Permutation_length).
    assert (HK : length bll <= length keys256) by (rewrite (Forall2_len _ _ _ HB); lia).
    destruct (lcp_step16_ok (length p) bll lcp HLc HK) as (A1 & A2 & A3 & A4 & A5).
    assert (HL1 : length lcp1 = length (concat (map (@concat _) bll))) by (unfold lcp1; destruct wl; [rewrite A1|]; auto).
    assert (HF1 : firstn 1 lcp1 = firstn 1 lcp) by (unfold lcp1; destruct wl; auto).
    pose (P := fun (hi : N) (bl : list (list item)) (lc0 : list nat) =>
                 (wl = true -> heads idl (S (length p)) false bl lc0) /\
                 (hi = 0%N -> wl = true -> forall i, 1 <= i < length (hd [] bl) -> nth i lc0 0 = length p)).
    assert (HGl : OutOK wl (allitems (@concat item) bll) lcp1 out lcp').
    { eapply (map_buckets_glue wl (@concat item) _ P (length p) keys256 bll lcp1 out lcp' false).
      - exact H.
      - exact HK.
      - exact HL1.
      - intros hi bl lc0 o lc1 Hkb HLb [HP1 HP2] Hf.
        pose proof (Forall2_In_combine _ _ _ _ _ HB Hkb) as HBk. cbv beta in HBk.
        set (g := filter (fun x => N.eqb (ch (length p) x) hi) l) in *.
        assert (HPg : Pre p g) by (now apply Pre_filter).
        assert (HNg : all_nulfree g) by (now apply nulfree_filter).
        assert (Hch : forall x, In x g -> ch (length p) x = hi).
        { intros x Hx. apply filter_In in Hx. destruct Hx as [_ E]. now apply N.eqb_eq in E. }
        destruct (N.eqb_spec hi 0) as [-> | Hhi].
        + apply (group_contract_z f IH mem s sz16 sz8 p bl lc0 o lc1 g); auto.
          unfold Pre, all_nulfree in *. rewrite Forall_forall in *. intros x Hx. apply ch_zero_end; auto.
        + apply (group_contract_nz f IH mem s sz16 sz8 p hi bl lc0 o lc1 g); auto.
          unfold Pre, all_nulfree in *. rewrite Forall_forall in *. intros x Hx. apply (ch_nonzero_pre p x hi); auto.
      - destruct wl eqn:W.
        + apply chunksP_and.
          * eapply chunksP_impl; [|exact A4]. intros k b lc Hh _. exact Hh.
          * rewrite keys256_cons. destruct bll as [|g0 r]; [exact I|].
            change ((fun (hi : N) (bl : list (list item)) (lc0 : list nat) =>
                       hi = 0%N -> true = true -> forall i, 1 <= i < length (hd [] bl) -> nth i lc0 0 = length p)
                      0%N g0 (firstn (length (concat g0)) lcp1) /\
                    chunksP (@concat item) (fun (hi : N) (bl : list (list item)) (lc0 : list nat) =>
                       hi = 0%N -> true = true -> forall i, 1 <= i < length (hd [] bl) -> nth i lc0 0 = length p)
                      (map N.of_nat (seq 1 255)) r (skipn (length (concat g0)) lcp1)).
            split.
            -- intros _ _ i Hi.
               assert (Hle : length (hd [] g0) <= length (concat g0)).
               { destruct g0 as [|b0 g']; simpl; [lia|]. rewrite app_length. lia. }
               rewrite nth_firstn_lt by lia. apply A5. simpl. exact Hi.
            -- apply chunksP_nonzero. intros k b lc Hk Hk0. exfalso. subst k.
               apply in_map_iff in Hk. destruct Hk as (i & Ei & Hi). apply in_seq in Hi. lia.
        + apply chunksP_nonzero. intros k b lc _. split; intros; discriminate.
      - apply (cross_keys_gen (@concat item) p keys256 bll keys256_sorted).
        clear -HG HP. revert HG. generalize keys256. intros ks HG.
        induction HG as [|k b ks bll' Hk HG' IHG]; constructor; auto.
        rewrite Forall_forall. intros x Hx. apply (Permutation_in _ (Permutation_sym Hk)) in Hx.
        apply filter_In in Hx. destruct Hx as [Hx E]. apply N.eqb_eq in E. split; [exact E|].
        unfold Pre in HP. rewrite Forall_forall in HP. now apply HP.
      - intros W. unfold lcp1. rewrite W. exact A3. }
    destruct HGl as (G1 & G2 & G3). unfold allitems in G1.
    split; [eapply Permutation_trans; eauto|]. split; [exact G2|].
    rewrite G3. unfold lcpR. destruct wl eqn:W; [now rewrite HF1|reflexivity].
  Qed.
End R16.
