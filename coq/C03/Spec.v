(** C03 — specification: unsigned-byte lexicographic order, longest common prefix, SortedPermLcp, and the
    boolean checker that is extracted and run on the implementation's output. *)
From Coq Require Import List Bool Arith NArith Lia Sorting.Sorted Sorting.Permutation Sorting.Mergesort Orders.
From TLXV Require Import C03.Model.
Import ListNotations.

Fixpoint lex_leb (a b : str) : bool :=
  match a, b with
  | [], _ => true
  | _ :: _, [] => false
  | x :: a', y :: b' => if N.ltb x y then true else if N.eqb x y then lex_leb a' b' else false
  end.

Fixpoint lcp_len (a b : str) : nat :=
  match a, b with
  | x :: a', y :: b' => if N.eqb x y then S (lcp_len a' b') else 0
  | _, _ => 0
  end.

Definition item_le (x y : item) : Prop := lex_leb (snd x) (snd y) = true.

(** LCPs of adjacent strings: [adj_lcps [s0; s1; s2; ...] = [lcp s0 s1; lcp s1 s2; ...]] *)
Fixpoint adj_lcps (l : list item) : list nat :=
  match l with
  | x :: r => match r with y :: _ => lcp_len (snd x) (snd y) :: adj_lcps r | [] => [] end
  | [] => []
  end.

(** The property. [inp]: the caller's collection of (object, contents); [out]: the array afterwards. *)
Definition SortedPerm (inp out : list item) : Prop :=
  Permutation inp out /\ StronglySorted item_le out.
Definition LcpExact (out : list item) (lcp : list nat) : Prop :=
  length lcp = length out /\
  forall i, 1 <= i < length out -> nth i lcp 0 = lcp_len (snd (nth (i - 1) out dflt)) (snd (nth i out dflt)).
Definition SortedPermLcp (inp out : list item) (lcp : list nat) : Prop :=
  SortedPerm inp out /\ LcpExact out lcp.

(** NUL-free byte strings *)
Definition nulfree (s : str) : Prop := Forall (fun c => c <> 0%N /\ (c < 256)%N) s.
Definition all_nulfree (l : list item) : Prop := Forall (fun x => nulfree (snd x)) l.

(** * Boolean checker *)
Fixpoint list_eqb {A} (e : A -> A -> bool) (a b : list A) : bool :=
  match a, b with
  | [], [] => true
  | x :: a', y :: b' => e x y && list_eqb e a' b'
  | _, _ => false
  end.

Definition item_leb (a b : item) : bool :=
  if N.ltb (fst a) (fst b) then true else if N.eqb (fst a) (fst b) then lex_leb (snd a) (snd b) else false.
Definition item_eqb (a b : item) : bool := N.eqb (fst a) (fst b) && list_eqb N.eqb (snd a) (snd b).

Lemma lex_leb_total a : forall b, lex_leb a b = true \/ lex_leb b a = true.
Proof.
  induction a as [|x a IH]; intros [|y b]; simpl; auto.
  destruct (N.ltb x y) eqn:E1; auto. destruct (N.ltb y x) eqn:E2; auto.
  apply N.ltb_ge in E1, E2. assert (x = y) by lia. subst. rewrite N.eqb_refl. apply IH.
Qed.

Module ItemOrder <: TotalLeBool.
  Definition t := item.
  Definition leb := item_leb.
  Theorem leb_total : forall a b, leb a b = true \/ leb b a = true.
  Proof.
    intros [i s] [j t']. unfold leb, item_leb. simpl.
    destruct (N.ltb i j) eqn:E1; auto. destruct (N.ltb j i) eqn:E2; auto.
    apply N.ltb_ge in E1, E2. assert (i = j) by lia. subst. rewrite N.eqb_refl. apply lex_leb_total.
  Qed.
End ItemOrder.
Module ItemSort := Sort ItemOrder.

Fixpoint sortedb_lex (l : list item) : bool :=
  match l with
  | x :: r => match r with y :: _ => lex_leb (snd x) (snd y) && sortedb_lex r | [] => true end
  | [] => true
  end.

Definition perm_check (inp out : list item) : bool := list_eqb item_eqb (ItemSort.sort inp) (ItemSort.sort out).
Definition lcp_check (out : list item) (lcp : list nat) : bool :=
  (length lcp =? length out) && list_eqb Nat.eqb (tl lcp) (adj_lcps out).
Definition check_sp (inp out : list item) : bool := perm_check inp out && sortedb_lex out.
Definition check_spl (inp out : list item) (lcp : list nat) : bool := check_sp inp out && lcp_check out lcp.
