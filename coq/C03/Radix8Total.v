(** C03 — the out-of-place 8-bit radix step (RadixStep_CE0 / RadixStep_CE2 and the loop processing its buckets)
    always returns: totality of the fuelled model [r8_step] for [ip = false], and hence of [radixsort_CE0].

    A bucket other than bucket 0 holds strings with a non-zero character at the current depth, i.e. strings longer
    than the depth; it is sorted one character deeper.  So  length l + (longest - depth)  bounds the nesting, for
    the radix recursion and for the multikey-quicksort fallback alike (MkqsTotal.v).  The in-place steps
    ([ip = true]: RadixStep_CI2 / CI3) additionally depend on [ci_permute] finding a free slot for every element;
    their totality is not proved here (the correspondence run reports a model error on any case as a violation). *)
From Coq Require Import List Bool Arith NArith Lia.
From TLXV Require Import gen.Sizes_C03_gen C03.Model C03.Lemmas C03.Mkqs C03.PartTotal C03.MkqsTotal.
Import ListNotations.

Lemma map_buckets_total {B} (len : B -> nat) (f : N -> B -> list nat -> res) :
  forall ks bl lcp,
    (forall k b lc, In (k, b) (combine ks bl) -> f k b lc <> None) ->
    map_buckets len f ks bl lcp <> None.
Proof.
  induction ks as [|k ks IH]; intros bl lcp H; [discriminate|].
  destruct bl as [|b bl]; [discriminate|]. cbn [map_buckets].
  destruct (f k b (firstn (len b) lcp)) as [[o lc]|] eqn:E1.
  - destruct (map_buckets len f ks bl (skipn (len b) lcp)) as [[o2 lc2]|] eqn:E2; [discriminate|].
    exfalso. revert E2. apply IH. intros k' b' lc' Hin. apply H. right. exact Hin.
  - exfalso. revert E1. apply H. left. reflexivity.
Qed.

Lemma in_combine_map {A B} (g : A -> B) : forall (ks : list A) k b, In (k, b) (combine ks (map g ks)) -> b = g k.
Proof.
  induction ks as [|x ks IH]; intros k b H; [destruct H|]. simpl in H. destruct H as [H|H].
  - injection H as <- <-. reflexivity.
  - apply IH. exact H.
Qed.

Lemma filter_len_le {A} (p : A -> bool) (l : list A) : length (filter p l) <= length l.
Proof. induction l as [|x t IH]; simpl; [lia|]. destruct (p x); simpl; lia. Qed.

Section R8T.
  Variable sz : sizes.
  Variable wl : bool.

  Theorem r8_step_total : forall fuel szstep mem s dep l lcp,
    length l + (mlen l - dep) < fuel -> r8_step sz wl fuel false szstep mem s dep l lcp <> None.
  Proof.
    induction fuel as [|f IH]; intros szstep mem s dep l lcp Hf; [lia|].
    cbn [r8_step]. unfold buckets8. cbv iota.
    apply map_buckets_total. intros k b lc Hin.
    apply in_combine_map in Hin. cbv beta in Hin.
    destruct (N.eqb k 0) eqn:Ek; [discriminate|].
    destruct (N.eqb (nN b) 0) eqn:Em; [discriminate|].
    destruct (N.ltb (nN b) inssort_threshold); [discriminate|].
    (* the bucket is non-empty and all its strings have character k <> 0 at depth dep *)
    apply N.eqb_neq in Ek. apply N.eqb_neq in Em.
    assert (Hx : exists x, In x b) by (destruct b as [|x b']; [exfalso; apply Em; reflexivity|exists x; now left]).
    destruct Hx as [x Hx].
    assert (Hxl : In x l /\ ch dep x = k).
    { rewrite Hin in Hx. apply filter_In in Hx. destruct Hx as [H1 H2]. apply N.eqb_eq in H2. auto. }
    destruct Hxl as [Hxl Hch].
    assert (Hd : dep < mlen l).
    { eapply Nat.lt_le_trans; [apply (ch_nonzero_len dep x); congruence|apply mlen_in; exact Hxl]. }
    assert (Hlen : length b <= length l) by (rewrite Hin; apply filter_len_le).
    assert (Hm : mlen b <= mlen l).
    { apply mlen_incl. intros y Hy. rewrite Hin in Hy. apply filter_In in Hy. tauto. }
    assert (Hb : length b + (mlen b - S dep) < f) by (clear - Hf Hd Hlen Hm; lia).
    destruct (mem_short mem (w64 (szstep * N.of_nat (S s)))).
    - apply mkqs_total. exact Hb.
    - apply IH. exact Hb.
  Qed.

  (** radixsort_CE0 (the generic out-of-place radix sort with its mkqs fallback) returns for every input *)
  Corollary radixsort_CE0_total : forall fuel mem d l lcp,
    length l + (mlen l - d) < fuel -> radixsort_CE0 sz wl fuel mem d l lcp <> None.
  Proof.
    intros fuel mem d l lcp Hf. unfold radixsort_CE0.
    destruct (N.ltb (nN l) inssort_threshold); [discriminate|]. cbv zeta.
    match goal with |- (if ?c then _ else _) <> None => destruct c end.
    - apply mkqs_total. exact Hf.
    - apply r8_step_total. exact Hf.
  Qed.
End R8T.
