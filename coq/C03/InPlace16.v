(** C03 — the in-place 16-bit step: the 65536 flat regions of the permutation are the model's 256 x 256 buckets. *)
From Coq Require Import List Bool Arith NArith Lia Sorting.Sorted Sorting.Permutation FMapPositive.
From TLXV Require Import gen.Sizes_C03_gen C03.Model C03.Spec C03.SpecProofs C03.Lemmas C03.Sorters C03.Radix8 C03.Mkqs C03.Radix16 C03.InPlace.
Import ListNotations.

(** * the 65536 keys *)
Fixpoint ascb (l : list N) : bool :=
  match l with
  | x :: r => match r with y :: _ => N.ltb x y && ascb r | [] => true end
  | [] => true
  end.
Lemma ascb_sorted l : ascb l = true -> StronglySorted N.lt l.
Proof.
  intros H. apply Sorted_StronglySorted; [intros x y z; lia|].
  induction l as [|x r IH]; [constructor|]. destruct r as [|y r'].
  - repeat constructor.
  - change (ascb (x :: y :: r')) with (N.ltb x y && ascb (y :: r')) in H. apply andb_true_iff in H. destruct H as [A B].
    constructor; [now apply IH|constructor; now apply N.ltb_lt].
Qed.
Lemma keys65536_nodup : NoDup keys65536.
Proof. apply sorted_lt_NoDup, ascb_sorted. vm_compute. reflexivity. Qed.

Lemma keys65536_in hi lo : In hi keys256 -> In lo keys256 -> In (hi * 256 + lo)%N keys65536.
Proof. intros Hh Hl. unfold keys65536. apply in_flat_map. exists hi. split; auto. apply in_map_iff. exists lo. auto. Qed.

Lemma keys256_lt k : In k keys256 -> (k < 256)%N.
Proof. unfold keys256. intros H. apply in_map_iff in H. destruct H as (i & <- & Hi). apply in_seq in Hi. lia. Qed.

Lemma keys65536_concat : keys65536 = concat (map (fun hi => map (fun lo => (hi * 256 + lo)%N) keys256) keys256).
Proof. unfold keys65536. apply flat_map_concat_map. Qed.

(** * slices *)
Lemma slices_length {A} (ns : list nat) : forall (X : list A), length (slices ns X) = length ns.
Proof. induction ns as [|n r IH]; intros X; simpl; auto. Qed.

Lemma slices_app {A} (ns ms : list nat) : forall (X : list A),
  slices (ns ++ ms) X = slices ns X ++ slices ms (skipn (list_sum ns) X).
Proof.
  induction ns as [|n r IH]; intros X; simpl; auto. rewrite IH. f_equal. f_equal. now rewrite skipn_skipn'.
Qed.

Lemma slices_firstn {A} (ns : list nat) : forall (X : list A), slices ns (firstn (list_sum ns) X) = slices ns X.
Proof.
  induction ns as [|n r IH]; intros X; simpl; auto. f_equal.
  - rewrite firstn_firstn. f_equal. lia.
  - rewrite <- (IH (skipn n X)). f_equal. rewrite <- firstn_skipn_comm. reflexivity.
Qed.

Lemma Forall2_app_split {A B} (R : A -> B -> Prop) k1 k2 b1 b2 :
  length k1 = length b1 -> Forall2 R (k1 ++ k2) (b1 ++ b2) -> Forall2 R k1 b1 /\ Forall2 R k2 b2.
Proof.
  revert b1. induction k1 as [|x k1 IH]; intros [|y b1] HL H; simpl in *; try discriminate.
  - split; [constructor|exact H].
  - inversion H; subst. destruct (IH b1 ltac:(lia) H5). split; [constructor|]; auto.
Qed.

Lemma nested_slices {B} (R : N -> list B -> Prop) (c : N -> nat) : forall (KK : list (list N)) (X : list B),
  Forall2 R (concat KK) (slices (concat (map (map c) KK)) X) ->
  Forall2 (fun kk bl => Forall2 R kk bl) KK
          (map (fun gn => slices (snd gn) (fst gn)) (combine (slices (map (@list_sum) (map (map c) KK)) X) (map (map c) KK))).
Proof.
  induction KK as [|kk KK IH]; intros X H; simpl; [constructor|].
  simpl in H. rewrite slices_app in H.
  apply Forall2_app_split in H; [|now rewrite slices_length, map_length]. destruct H as [H1 H2].
  constructor.
  - rewrite slices_firstn. exact H1.
  - apply IH. exact H2.
Qed.

Lemma filter_filter_and {A} (f g : A -> bool) : forall l, filter g (filter f l) = filter (fun x => f x && g x) l.
Proof. induction l as [|x l IH]; simpl; auto. destruct (f x); simpl; [destruct (g x); simpl; congruence|exact IH]. Qed.

Lemma filter_ext_in' {A} (f g : A -> bool) : forall l, (forall x, In x l -> f x = g x) -> filter f l = filter g l.
Proof.
  induction l as [|x l IH]; intros H; simpl; auto. rewrite (H x (or_introl eq_refl)).
  destruct (g x); [f_equal|]; apply IH; intros; apply H; now right.
Qed.

Lemma key16_eqb dep x hi lo : (ch dep x < 256)%N -> (ch (S dep) x < 256)%N -> (hi < 256)%N -> (lo < 256)%N ->
  N.eqb (key16 dep x) (hi * 256 + lo) = N.eqb (ch dep x) hi && N.eqb (ch (S dep) x) lo.
Proof.
  intros. unfold key16.
  destruct (N.eqb_spec (ch dep x * 256 + ch (S dep) x) (hi * 256 + lo)), (N.eqb_spec (ch dep x) hi), (N.eqb_spec (ch (S dep) x) lo);
    simpl; auto; exfalso; nia.
Qed.

Lemma filter16 dep l hi lo : all_nulfree l -> In hi keys256 -> In lo keys256 ->
  filter (fun x => N.eqb (key16 dep x) (hi * 256 + lo)) l =
  filter (fun x => N.eqb (ch (S dep) x) lo) (filter (fun x => N.eqb (ch dep x) hi) l).
Proof.
  intros HN Hh Hl. rewrite filter_filter_and. apply filter_ext_in'. intros x Hx.
  unfold all_nulfree in HN. rewrite Forall_forall in HN. specialize (HN x Hx).
  apply key16_eqb; try (apply char_at_byte; exact HN); now apply keys256_lt.
Qed.

Lemma combine_map_snd {A B C D} (f : B -> C) (h : A -> C -> D) : forall (xs : list A) (ys : list B),
  map (fun p => h (fst p) (f (snd p))) (combine xs ys) = map (fun p => h (fst p) (snd p)) (combine xs (map f ys)).
Proof. induction xs as [|x xs IH]; intros [|y ys]; simpl; auto. f_equal. apply IH. Qed.

Lemma Forall2_map_l {A A' B} (R : A' -> B -> Prop) (f : A -> A') : forall ks bl,
  Forall2 R (map f ks) bl -> Forall2 (fun k b => R (f k) b) ks bl.
Proof. induction ks as [|k ks IH]; intros bl H; inversion H; subst; constructor; auto. Qed.

Lemma Forall2_impl_in {A B} (R R' : A -> B -> Prop) : forall ks bl,
  (forall k b, In k ks -> R k b -> R' k b) -> Forall2 R ks bl -> Forall2 R' ks bl.
Proof.
  intros ks bl H F. induction F as [|k b ks bl Hk F IH]; constructor.
  - apply H; [now left|exact Hk].
  - apply IH. intros; apply H; [now right|assumption].
Qed.

Local Opaque keys65536.

Theorem in_place16_ok : forall dep l bll, all_nulfree l -> buckets16 true dep l = Some bll -> Buckets16OK dep l bll.
Proof.
  intros dep l bll HN H. unfold buckets16 in H. cbv zeta in H.
  destruct (ci_permute (key16 dep) keys65536 l) as [p|] eqn:EC; [|discriminate].
  set (bll0 := map (fun hi => map (fun lo => filter (fun x => N.eqb (ch (S dep) x) lo) (filter (fun x => N.eqb (ch dep x) hi) l)) keys256) keys256) in *.
  assert (E : Some bll = Some (map (fun gb => slices (map (@length _) (snd gb)) (fst gb))
                                   (combine (slices (map (fun bl => length (concat bl)) bll0) p) bll0)))
    by (rewrite <- H; reflexivity).
  apply (f_equal (fun o => match o with Some x => x | None => bll end)) in E. cbv beta iota in E. rewrite E. clear E H.
  assert (Hkeys : forall x, In x l -> In (key16 dep x) keys65536).
  { intros x Hx. unfold all_nulfree in HN. rewrite Forall_forall in HN. specialize (HN x Hx).
    unfold key16. apply keys65536_in; apply keys256_in; apply char_at_byte; exact HN. }
  destruct (ci_permute_ok (key16 dep) keys65536 l p keys65536_nodup Hkeys EC) as [P F].
  pose proof (slices_buckets (key16 dep) l p keys65536 keys65536_nodup P F keys65536 [] eq_refl) as FL.
  change (skipn (N.to_nat (total (key16 dep) l [])) p) with p in FL.
  set (c := fun k => length (filter (fun x => N.eqb (key16 dep x) k) l)) in *.
  set (KK := map (fun hi => map (fun lo => (hi * 256 + lo)%N) keys256) keys256).
  assert (EK : keys65536 = concat KK) by (unfold KK; apply keys65536_concat).
  rewrite EK in FL. rewrite concat_map in FL.
  apply nested_slices in FL.
  (* the model's sizes are these sizes *)
  assert (ENS : map (map (@length _)) bll0 = map (map c) KK).
  { unfold bll0, KK. rewrite !map_map. apply map_ext_in. intros hi Hh. rewrite !map_map. apply map_ext_in. intros lo Hl.
    unfold c. now rewrite filter16. }
  assert (ESUM : map (fun bl : list (list item) => length (concat bl)) bll0 = map (@list_sum) (map (map c) KK)).
  { rewrite <- ENS. rewrite map_map. apply map_ext. intros bl. symmetry. apply list_sum_lengths. }
  rewrite ESUM.
  rewrite (combine_map_snd (map (@length item)) (fun g ns => slices ns g)). rewrite ENS.
  (* re-index by (hi, lo) *)
  unfold Buckets16OK, BucketsOK. unfold KK in FL. apply Forall2_map_l in FL.
  revert FL. apply Forall2_impl_in. intros hi bl Hh FLh. apply Forall2_map_l in FLh.
  revert FLh. apply Forall2_impl_in. intros lo b Hl Hb. rewrite <- filter16; auto.
Qed.
