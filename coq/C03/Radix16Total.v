(** C03 — the out-of-place 16-bit radix step (RadixStep_CE3 and the loop over its 65536 buckets) always returns:
    totality of the fuelled model [r16_step] for [ip = false].  A bucket (hi, lo) with lo <> 0 holds strings with
    a non-zero character at depth + 1, i.e. strings longer than depth + 1, and is sorted two characters deeper --
    by the 8-bit step (Radix8Total.v), by multikey quicksort (MkqsTotal.v) or by another 16-bit step. *)
From Coq Require Import List Bool Arith NArith Lia.
From TLXV Require Import gen.Sizes_C03_gen C03.Model C03.Lemmas C03.MkqsTotal C03.Radix8Total.
Import ListNotations.

Section R16T.
  Variable sz : sizes.
  Variable wl : bool.

  Theorem r16_step_total : forall fuel mem s dep l lcp,
    length l + (mlen l - dep) < fuel -> r16_step sz wl fuel false mem s dep l lcp <> None.
  Proof.
    induction fuel as [|f IH]; intros mem s dep l lcp Hf; [lia|].
    cbn [r16_step]. unfold buckets16. cbv iota.
    apply map_buckets_total. intros hi bl lc0 Hin.
    apply in_combine_map in Hin. cbv beta zeta in Hin.
    apply map_buckets_total. intros lo b lc Hin2.
    rewrite Hin in Hin2. apply in_combine_map in Hin2. cbv beta in Hin2.
    destruct (N.eqb hi 0 && N.eqb lo 0); [discriminate|].
    destruct (N.eqb (nN b) 0) eqn:Em; [discriminate|].
    destruct (N.eqb lo 0) eqn:El; [discriminate|].
    destruct (N.ltb (nN b) inssort_threshold); [discriminate|].
    apply N.eqb_neq in El. apply N.eqb_neq in Em.
    assert (Hx : exists x, In x b) by (destruct b as [|x b']; [exfalso; apply Em; reflexivity|exists x; now left]).
    destruct Hx as [x Hx].
    assert (Hxl : In x l /\ ch (S dep) x = lo).
    { rewrite Hin2 in Hx. apply filter_In in Hx. destruct Hx as [H1 H2]. apply N.eqb_eq in H2.
      apply filter_In in H1. tauto. }
    destruct Hxl as [Hxl Hch].
    assert (Hd : S dep < mlen l).
    { eapply Nat.lt_le_trans; [apply (ch_nonzero_len (S dep) x); congruence|apply mlen_in; exact Hxl]. }
    assert (Hsub : forall y, In y b -> In y l).
    { intros y Hy. rewrite Hin2 in Hy. apply filter_In in Hy. destruct Hy as [Hy _]. apply filter_In in Hy. tauto. }
    assert (Hlen : length b <= length l).
    { rewrite Hin2. eapply Nat.le_trans; [apply filter_len_le|apply filter_len_le]. }
    pose proof (mlen_incl _ _ Hsub) as Hm.
    assert (Hb : length b + (mlen b - S (S dep)) < f) by (clear - Hf Hd Hlen Hm; lia).
    destruct (N.ltb (nN b) radix16).
    - apply r8_step_total. exact Hb.
    - destruct (mem_short mem _).
      + apply mkqs_total. exact Hb.
      + apply IH. exact Hb.
  Qed.
End R16T.
