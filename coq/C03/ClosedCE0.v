(** C03 — radixsort_CE0 (generic out-of-place radix sort + multikey-quicksort fallback + insertion sort) in closed
    form: it returns, and what it returns is the sorted permutation with exact LCPs -- no "returned a result"
    hypothesis (Dispatch.radixsort_CE0_ok + Radix8Total.radixsort_CE0_total). *)
From Coq Require Import List Bool Arith NArith Lia.
From TLXV Require Import gen.Sizes_C03_gen C03.Model C03.Spec C03.SpecProofs C03.Lemmas C03.Sorters C03.MkqsTotal C03.Radix8Total C03.Dispatch.
Import ListNotations.

Theorem radixsort_CE0_closed : forall sz wl mem p l lcp,
  Pre p l -> all_nulfree l -> length lcp = length l ->
  exists out lcp', radixsort_CE0 sz wl (length l + mlen l + 8) mem (length p) l lcp = Some (out, lcp') /\
                   OutOK wl l lcp out lcp'.
Proof.
  intros sz wl mem p l lcp HP HN HL.
  destruct (radixsort_CE0 sz wl (length l + mlen l + 8) mem (length p) l lcp) as [[out lcp']|] eqn:E.
  - exists out, lcp'. split; [reflexivity|]. exact (radixsort_CE0_ok sz wl _ mem p l lcp out lcp' HP HN HL E).
  - exfalso. revert E. apply radixsort_CE0_total. lia.
Qed.
