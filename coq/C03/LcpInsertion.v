(** C03 — the LCP insertion sort (insertion_sort.hpp, with_lcp variant). *)
From Coq Require Import List Bool Arith NArith Lia Sorting.Sorted Sorting.Permutation.
From TLXV Require Import gen.Sizes_C03_gen C03.Model C03.Spec C03.SpecProofs C03.Lemmas C03.Sorters.
Import ListNotations.

(** * lcp / order facts *)
Lemma lcp_len_sym a : forall b, lcp_len a b = lcp_len b a.
Proof.
  induction a as [|x a IH]; intros [|y b]; simpl; auto. rewrite (N.eqb_sym y x).
  destruct (N.eqb x y); auto.
Qed.

(** a differs from R earlier than b does, and a <= R: then a <= b and they differ at the same place *)
Lemma lcp_lt_order a : forall b R, lcp_len a R < lcp_len b R -> lex_leb a R = true ->
  lex_leb a b = true /\ lcp_len a b = lcp_len a R.
Proof.
  induction a as [|x a IH]; intros b R H HR.
  - simpl. auto.
  - destruct R as [|y R]; [simpl in HR; discriminate|]. destruct b as [|z b]; [simpl in H; lia|].
    simpl in *. destruct (N.eqb z y) eqn:Ezy; [|lia]. apply N.eqb_eq in Ezy. subst z.
    destruct (N.eqb x y) eqn:Exy.
    + apply N.eqb_eq in Exy. subst y. rewrite N.ltb_irrefl in *.
      destruct (IH b R ltac:(lia) HR) as [A B]. rewrite A, B. auto.
    + destruct (N.ltb x y); [auto|discriminate].
Qed.

Lemma lcp_firstn a : forall R, firstn (lcp_len a R) a = firstn (lcp_len a R) R.
Proof.
  induction a as [|x a IH]; intros [|y R]; simpl; auto.
  destruct (N.eqb x y) eqn:E; simpl; auto. apply N.eqb_eq in E. subst. f_equal. apply IH.
Qed.

Lemma lcp_len_le_length a : forall R, lcp_len a R <= length a.
Proof. induction a as [|x a IH]; intros [|y R]; simpl; try lia. destruct (N.eqb x y); simpl; [specialize (IH R)|]; lia. Qed.

Lemma split_at n (a : str) : n <= length a -> a = firstn n a ++ skipn n a /\ length (firstn n a) = n.
Proof. intros H. split; [symmetry; apply firstn_skipn|]. rewrite firstn_length. lia. Qed.

(** both share exactly their first n characters with R: compare the rests *)
Lemma same_lcp_rest a b R n : lcp_len a R = n -> lcp_len b R = n ->
  lcp_len a b = n + lcp_len (skipn n a) (skipn n b) /\ lex_leb a b = lex_leb (skipn n a) (skipn n b).
Proof.
  intros Ha Hb.
  pose proof (lcp_firstn a R) as Fa. pose proof (lcp_firstn b R) as Fb. rewrite Ha in Fa. rewrite Hb in Fb.
  pose proof (lcp_len_le_length a R) as La. pose proof (lcp_len_le_length b R) as Lb. rewrite Ha in La. rewrite Hb in Lb.
  destruct (split_at n a La) as [Ea Na]. destruct (split_at n b Lb) as [Eb Nb].
  rewrite Ea at 1 3. rewrite Eb at 1 3. rewrite Fa, Fb.
  rewrite lcp_len_app, lex_leb_app. rewrite <- Fa at 1. rewrite Na. auto.
Qed.

(** * the invariant: the cells to the left of [right], from right to left *)
Fixpoint chain (right : str) (rp : list (item * nat)) : Prop :=
  match rp with
  | [] => True
  | (c, n) :: r => lex_leb (snd c) right = true /\ n = lcp_len (snd c) right /\ chain (snd c) r
  end.

Lemma lins_ok new : forall rp nl R,
  chain R rp -> lex_leb (snd new) R = true -> nl = lcp_len (snd new) R ->
  chain R (lins new nl rp) /\ Permutation (new :: map fst rp) (map fst (lins new nl rp)).
Proof.
  induction rp as [|[cur cl] r IH]; intros nl R HC HN Hnl; simpl.
  - repeat split; auto.
  - simpl in HC. destruct HC as (HcR & Hcl & Hch).
    destruct (Nat.ltb_spec cl nl) as [Hlt|Hge].
    + (* CASE 1 *)
      destruct (lcp_lt_order (snd cur) (snd new) R ltac:(lia) HcR) as [A B].
      simpl. repeat split; auto. lia.
    + destruct (Nat.eqb_spec cl nl) as [Heq|Hne].
      * (* CASE 2 *)
        destruct (skip_equal (skipn nl (snd new)) (skipn nl (snd cur))) as [k [c1 c2]] eqn:ES.
        destruct (skip_equal_spec _ _ _ _ _ ES) as (Hk & _ & Hless).
        destruct (same_lcp_rest (snd new) (snd cur) R nl ltac:(lia) ltac:(lia)) as [Hl Ho].
        rewrite <- Ho in Hless. rewrite <- Hk in Hl.
        destruct (is_less c1 c2) eqn:EL; simpl.
        -- (* new <= cur: shift *)
           destruct (IH (nl + k) (snd cur) Hch ltac:(congruence) ltac:(lia)) as [C P].
           repeat split; auto. eapply Permutation_trans; [apply perm_swap|]. now constructor.
        -- (* cur < new: insert here *)
           repeat split; auto.
           ++ destruct (lex_leb_total (snd cur) (snd new)) as [T|T]; [exact T|congruence].
           ++ rewrite lcp_len_sym. lia.
      * (* CASE 3 *)
        destruct (lcp_lt_order (snd new) (snd cur) R ltac:(lia) HN) as [A B].
        destruct (IH nl (snd cur) Hch A ltac:(lia)) as [C P].
        simpl. repeat split; auto. eapply Permutation_trans; [apply perm_swap|]. now constructor.
Qed.

(** a virtual right neighbour: greater than every byte string with prefix p, sharing exactly p *)
Definition vright (p : str) : str := p ++ [256%N].

Lemma vright_ok p x : pre p x -> nulfree (snd x) -> lex_leb (snd x) (vright p) = true /\ lcp_len (snd x) (vright p) = length p.
Proof.
  intros HP HN. destruct (pre_inv p x HP) as [r E]. rewrite E in *. unfold vright.
  rewrite lex_leb_app, lcp_len_app. destruct r as [|c r]; simpl; [split; [reflexivity|lia]|].
  unfold nulfree in HN. apply Forall_app in HN. destruct HN as [_ HN]. inversion HN as [|? ? [_ Hc] _]; subst.
  assert (L : N.ltb c 256 = true) by (apply N.ltb_lt; exact Hc). rewrite L.
  assert (E' : N.eqb c 256 = false) by (apply N.eqb_neq; lia). rewrite E'. split; [reflexivity|lia].
Qed.

Lemma chain_head_sentinel p rp : chain (vright p) rp -> Forall (fun c => pre p (fst c) /\ nulfree (snd (fst c))) rp ->
  match rp with [] => True | (c, n) :: _ => n = length p end.
Proof.
  destruct rp as [|[c n] r]; auto. simpl. intros (_ & Hn & _) HF. inversion HF as [|? ? [Hp Hnf] _]; subst.
  apply (vright_ok p c Hp Hnf).
Qed.

Lemma lins_fold_ok p : forall l acc,
  Pre p l -> all_nulfree l -> chain (vright p) acc ->
  let res := fold_left (fun a t => lins t (length p) a) l acc in
  chain (vright p) res /\ Permutation (rev l ++ map fst acc) (map fst res).
Proof.
  induction l as [|t l IH]; intros acc HP HN HC; simpl; [split; [exact HC|reflexivity]|].
  inversion HP as [|? ? Ht HP']; subst. inversion HN as [|? ? Hnt HN']; subst.
  destruct (vright_ok p t Ht Hnt) as [A B].
  destruct (lins_ok t acc (length p) (vright p) HC A (eq_sym B)) as [C P].
  destruct (IH _ HP' HN' C) as [C' P']. split; [exact C'|].
  eapply Permutation_trans; [|exact P']. rewrite <- app_assoc. simpl. apply Permutation_app_head. exact P.
Qed.

(** reading the result off the chain *)
Lemma Sorted_snoc (l : list item) c R : Sorted item_le (l ++ [c]) -> item_le c R -> Sorted item_le ((l ++ [c]) ++ [R]).
Proof.
  induction l as [|x l IH]; simpl; intros S H.
  - repeat constructor. exact H.
  - inversion S as [|? ? S' Hd]; subst. constructor; [now apply IH|].
    destruct l as [|y l']; simpl in *; inversion Hd; subst; constructor; auto.
Qed.

Lemma adj_lcps_snoc (l : list item) c R : adj_lcps ((l ++ [c]) ++ [R]) = adj_lcps (l ++ [c]) ++ [lcp_len (snd c) (snd R)].
Proof.
  rewrite adj_lcps_app by (try discriminate; destruct l; discriminate).
  rewrite last_last. reflexivity.
Qed.

Lemma chain_read : forall rp (R : item), chain (snd R) rp ->
  Sorted item_le (rev (map fst rp) ++ [R]) /\ map snd (rev rp) = adj_lcps (rev (map fst rp) ++ [R]).
Proof.
  induction rp as [|[c n] r IH]; intros R H; simpl.
  - split; [repeat constructor|reflexivity].
  - simpl in H. destruct H as (HcR & Hn & Hch). destruct (IH c Hch) as [S E]. split.
    + apply Sorted_snoc; auto.
    + rewrite map_app, E. simpl. rewrite adj_lcps_snoc. subst n. reflexivity.
Qed.

Lemma Sorted_drop_last (l : list item) R : Sorted item_le (l ++ [R]) -> Sorted item_le l.
Proof.
  induction l as [|x l IH]; simpl; intros S; [constructor|].
  inversion S as [|? ? S' Hd]; subst. constructor; [now apply IH|].
  destruct l as [|y l']; [constructor|]. simpl in Hd. inversion Hd; subst. now constructor.
Qed.

(** * the LCP insertion sort meets the contract at every depth *)
Theorem lcp_insertion_ok : SorterOK true (fun d l lcp => Some (insertion true d l lcp)).
Proof.
  intros p l lcp out lcp' HP HN HL H. unfold insertion in H. injection H as H.
  unfold lcp_insertion_sort in H.
  destruct l as [|x [|y l']].
  - injection H as <- <-. destruct lcp; [|discriminate]. repeat split; constructor.
  - injection H as <- <-. destruct lcp as [|h [|h2 t]]; try discriminate. repeat split; auto; repeat constructor.
  - set (l := x :: y :: l') in *.
    destruct (lins_fold_ok p l [] HP HN I) as [C P]. cbv zeta in C, P.
    set (res := fold_left (fun a t => lins t (length p) a) l []) in *.
    injection H as <- <-.
    destruct (chain_read res (0%N, vright p) C) as [S E].
    rewrite map_rev. rewrite app_nil_r in P.
    assert (Pout : Permutation l (rev (map fst res))).
    { eapply Permutation_trans; [apply Permutation_rev|]. eapply Permutation_trans; [exact P|apply Permutation_rev]. }
    split; [exact Pout|]. split.
    + apply Sorted_StronglySorted; [intros a b c; apply item_le_trans|]. eapply Sorted_drop_last; exact S.
    + unfold lcpR. f_equal. rewrite E.
      assert (Hne : rev (map fst res) <> []).
      { intros Z. rewrite Z in Pout. apply Permutation_sym, Permutation_nil in Pout. discriminate. }
      rewrite adj_lcps_app by (auto; discriminate). simpl.
      change (adj_lcps (rev (map fst res)) ++ [lcp_len (snd (last (rev (map fst res)) dflt)) (vright p)])
        with (adj_lcps (rev (map fst res)) ++ [lcp_len (snd (last (rev (map fst res)) dflt)) (vright p)]).
      apply removelast_last.
Qed.

Definition InsertionOK (wl : bool) : Prop := SorterOK wl (fun d l lcp => Some (insertion wl d l lcp)).

(** insertion sort without LCP output is proved *)
Theorem insertion_nolcp_ok : InsertionOK false.
Proof.
  intros p l lcp out lcp' HP HN HL H. unfold insertion in H. injection H as <- <-.
  destruct (insertion_sort_ok p l HP) as [P S]. split; [exact P|split; [exact S|reflexivity]].
Qed.

(** ... and so is the LCP variant: both insertion sorts meet the contract at every depth *)
Theorem insertion_ok wl : InsertionOK wl.
Proof. destruct wl; [exact lcp_insertion_ok|exact insertion_nolcp_ok]. Qed.

