(** C03 — facts about the specification: the order, uniqueness of the specified output, and soundness and
    completeness of the extracted boolean checker. *)
From Coq Require Import List Bool Arith NArith Lia Sorting.Sorted Sorting.Permutation Sorting.Mergesort Orders.
From Coq Require Import Classes.RelationClasses.
From TLXV Require Import C03.Model C03.Spec.
Import ListNotations.

(** * lex_leb is a total order on byte strings *)
Lemma lex_leb_refl a : lex_leb a a = true.
Proof. induction a as [|x a IH]; simpl; auto. rewrite N.ltb_irrefl, N.eqb_refl. exact IH. Qed.

Lemma lex_leb_trans a : forall b c, lex_leb a b = true -> lex_leb b c = true -> lex_leb a c = true.
Proof.
  induction a as [|x a IH]; intros [|y b] [|z c]; simpl; auto; try discriminate.
  destruct (N.ltb x y) eqn:Exy.
  - intros _. destruct (N.ltb y z) eqn:Eyz.
    + intros _. apply N.ltb_lt in Exy, Eyz. assert (Hxz : (x < z)%N) by lia. apply N.ltb_lt in Hxz. now rewrite Hxz.
    + destruct (N.eqb y z) eqn:Eyz'; [|discriminate]. apply N.eqb_eq in Eyz'. subst. now rewrite Exy.
  - destruct (N.eqb x y) eqn:Exy'; [|discriminate]. apply N.eqb_eq in Exy'. subst y. intros Hab.
    destruct (N.ltb x z) eqn:Exz; auto. destruct (N.eqb x z) eqn:Exz'; [|discriminate]. eauto.
Qed.

Lemma lex_leb_antisym a : forall b, lex_leb a b = true -> lex_leb b a = true -> a = b.
Proof.
  induction a as [|x a IH]; intros [|y b]; simpl; auto; try discriminate.
  destruct (N.ltb x y) eqn:Exy.
  - apply N.ltb_lt in Exy. intros _. destruct (N.ltb y x) eqn:Eyx; [apply N.ltb_lt in Eyx; lia|].
    destruct (N.eqb y x) eqn:E; [apply N.eqb_eq in E; lia|discriminate].
  - destruct (N.eqb x y) eqn:E; [|discriminate]. apply N.eqb_eq in E. subst y. rewrite N.ltb_irrefl, N.eqb_refl.
    intros H1 H2. f_equal. now apply IH.
Qed.

Lemma item_le_trans x y z : item_le x y -> item_le y z -> item_le x z.
Proof. unfold item_le. apply lex_leb_trans. Qed.

(** * A sorted list is determined by its multiset (total antisymmetric order) *)
Lemma sorted_perm_eq {A} (le : A -> A -> Prop) (antisym : forall x y, le x y -> le y x -> x = y) :
  forall l1 l2, StronglySorted le l1 -> StronglySorted le l2 -> Permutation l1 l2 -> l1 = l2.
Proof.
  induction l1 as [|x l1 IH]; intros l2 S1 S2 P.
  - apply Permutation_nil in P. now subst.
  - destruct l2 as [|y l2]; [apply Permutation_sym, Permutation_nil in P; discriminate|].
    inversion S1 as [|? ? S1' F1]; subst. inversion S2 as [|? ? S2' F2]; subst.
    assert (x = y) as ->.
    { assert (Hx : In x (y :: l2)) by (eapply Permutation_in; [exact P|left; reflexivity]).
      assert (Hy : In y (x :: l1)) by (eapply Permutation_in; [apply Permutation_sym; exact P|left; reflexivity]).
      destruct Hx as [->|Hx]; [reflexivity|]. destruct Hy as [->|Hy]; [reflexivity|].
      rewrite Forall_forall in F1, F2. apply antisym; auto. }
    f_equal. apply IH; auto. eapply Permutation_cons_inv; exact P.
Qed.

Definition str_le (a b : str) : Prop := lex_leb a b = true.

Lemma StronglySorted_map_snd l : StronglySorted item_le l -> StronglySorted str_le (map snd l).
Proof.
  induction 1 as [|x l S IH F]; simpl; constructor; auto.
  rewrite Forall_forall in *. intros s Hs. apply in_map_iff in Hs. destruct Hs as (y & <- & Hy). now apply F.
Qed.

(** * Adjacent LCPs by index *)
Lemma adj_lcps_length l : length (adj_lcps l) = length l - 1.
Proof.
  induction l as [|x r IH]; [reflexivity|]. destruct r as [|y r']; [reflexivity|].
  change (adj_lcps (x :: y :: r')) with (lcp_len (snd x) (snd y) :: adj_lcps (y :: r')).
  simpl length in *. rewrite IH. lia.
Qed.

Lemma adj_lcps_nth l : forall i, S i < length l ->
  nth i (adj_lcps l) 0 = lcp_len (snd (nth i l dflt)) (snd (nth (S i) l dflt)).
Proof.
  induction l as [|x r IH]; intros i Hi; [simpl in Hi; lia|].
  destruct r as [|y r']; [simpl in Hi; lia|].
  change (adj_lcps (x :: y :: r')) with (lcp_len (snd x) (snd y) :: adj_lcps (y :: r')).
  destruct i as [|i]; [reflexivity|].
  change (nth (S i) (lcp_len (snd x) (snd y) :: adj_lcps (y :: r')) 0) with (nth i (adj_lcps (y :: r')) 0).
  rewrite IH by (simpl in *; lia). reflexivity.
Qed.

(** LcpExact says exactly: the tail of the lcp array is [adj_lcps out] *)
Lemma LcpExact_iff out lcp : LcpExact out lcp <-> (length lcp = length out /\ tl lcp = adj_lcps out).
Proof.
  unfold LcpExact. split; intros [HL H]; split; auto.
  - apply nth_ext with (d := 0) (d' := 0).
    + rewrite adj_lcps_length. destruct lcp; simpl in *; lia.
    + intros i Hi. assert (Hi' : S i < length out) by (destruct lcp; simpl in *; lia).
      rewrite adj_lcps_nth by exact Hi'. specialize (H (S i)). replace (S i - 1) with i in H by lia.
      rewrite <- H by lia. destruct lcp; [simpl in Hi; lia|reflexivity].
  - intros i Hi. destruct i as [|i]; [lia|]. replace (S i - 1) with i by lia.
    rewrite <- adj_lcps_nth by lia. rewrite <- H. destruct lcp; [simpl in HL; lia|reflexivity].
Qed.

(** * spec_unique: the specification determines the contents at every position and every lcp[i], i >= 1 *)
Theorem spec_unique inp out1 lcp1 out2 lcp2 :
  SortedPermLcp inp out1 lcp1 -> SortedPermLcp inp out2 lcp2 ->
  map snd out1 = map snd out2 /\ length lcp1 = length lcp2 /\ forall i, 1 <= i -> nth i lcp1 0 = nth i lcp2 0.
Proof.
  intros [[P1 S1] L1] [[P2 S2] L2].
  assert (E : map snd out1 = map snd out2).
  { apply (sorted_perm_eq str_le lex_leb_antisym); try now apply StronglySorted_map_snd.
    apply Permutation_map. eapply Permutation_trans; [apply Permutation_sym; exact P1|exact P2]. }
  assert (Hlen : length out1 = length out2).
  { pose proof (f_equal (@length _) E) as HE. rewrite !map_length in HE. exact HE. }
  split; [exact E|].
  destruct L1 as [HL1 H1], L2 as [HL2 H2]. split; [lia|].
  intros i Hi. destruct (Nat.lt_ge_cases i (length out1)) as [Hlt|Hge].
  - rewrite H1, H2 by lia.
    assert (Hn : forall k, snd (nth k out1 dflt) = snd (nth k out2 dflt)).
    { intros k. pose proof (map_nth snd out1 dflt k) as A1. pose proof (map_nth snd out2 dflt k) as A2.
      rewrite E in A1. exact (eq_trans (eq_sym A1) A2). }
    now rewrite !Hn.
  - rewrite !nth_overflow by lia. reflexivity.
Qed.

(** * The checker *)
Lemma list_eqb_eq {A} (e : A -> A -> bool) (He : forall x y, e x y = true <-> x = y) :
  forall a b, list_eqb e a b = true <-> a = b.
Proof.
  induction a as [|x a IH]; intros [|y b]; simpl; split; intros H; try discriminate; auto.
  - apply andb_true_iff in H. destruct H as [H1 H2]. apply He in H1. apply IH in H2. now subst.
  - inversion H; subst. apply andb_true_iff. split; [now apply He|now apply IH].
Qed.

Lemma item_eqb_eq x y : item_eqb x y = true <-> x = y.
Proof.
  destruct x as [i s], y as [j t]. unfold item_eqb. simpl. rewrite andb_true_iff, N.eqb_eq.
  rewrite (list_eqb_eq N.eqb N.eqb_eq). split; [intros [-> ->]; reflexivity|intros H; inversion H; auto].
Qed.

Definition item_leP (a b : item) : Prop := item_leb a b = true.

Lemma item_leb_trans a b c : item_leb a b = true -> item_leb b c = true -> item_leb a c = true.
Proof.
  destruct a as [i s], b as [j t], c as [k u]. unfold item_leb. simpl.
  destruct (N.ltb i j) eqn:Eij.
  - apply N.ltb_lt in Eij. intros _. destruct (N.ltb j k) eqn:Ejk.
    + apply N.ltb_lt in Ejk. intros _. assert (H : (i < k)%N) by lia. apply N.ltb_lt in H. now rewrite H.
    + destruct (N.eqb j k) eqn:E; [|discriminate]. apply N.eqb_eq in E. subst. apply N.ltb_lt in Eij. now rewrite Eij.
  - destruct (N.eqb i j) eqn:E; [|discriminate]. apply N.eqb_eq in E. subst j. intros H1.
    destruct (N.ltb i k); auto. destruct (N.eqb i k); [|discriminate]. eauto using lex_leb_trans.
Qed.

Lemma item_leb_antisym a b : item_leb a b = true -> item_leb b a = true -> a = b.
Proof.
  destruct a as [i s], b as [j t]. unfold item_leb. simpl.
  destruct (N.ltb i j) eqn:Eij.
  - apply N.ltb_lt in Eij. intros _. destruct (N.ltb j i) eqn:Eji; [apply N.ltb_lt in Eji; lia|].
    destruct (N.eqb j i) eqn:E; [apply N.eqb_eq in E; lia|discriminate].
  - destruct (N.eqb i j) eqn:E; [|discriminate]. apply N.eqb_eq in E. subst j.
    rewrite N.ltb_irrefl, N.eqb_refl. intros H1 H2. f_equal. now apply lex_leb_antisym.
Qed.

Lemma sort_StronglySorted l : StronglySorted item_leP (ItemSort.sort l).
Proof.
  apply Sorted_StronglySorted.
  - intros x y z. apply item_leb_trans.
  - pose proof (ItemSort.Sorted_sort l) as H. exact H.
Qed.

Lemma perm_check_iff inp out : perm_check inp out = true <-> Permutation inp out.
Proof.
  unfold perm_check. rewrite (list_eqb_eq item_eqb item_eqb_eq). split; intros H.
  - eapply Permutation_trans; [apply ItemSort.Permuted_sort|]. rewrite H. apply Permutation_sym, ItemSort.Permuted_sort.
  - apply (sorted_perm_eq item_leP item_leb_antisym); try apply sort_StronglySorted.
    eapply Permutation_trans; [apply Permutation_sym, ItemSort.Permuted_sort|].
    eapply Permutation_trans; [exact H|apply ItemSort.Permuted_sort].
Qed.

Lemma sortedb_lex_iff l : sortedb_lex l = true <-> StronglySorted item_le l.
Proof.
  split.
  - intros H. apply Sorted_StronglySorted; [intros x y z; apply item_le_trans|].
    induction l as [|x r IH]; [constructor|]. destruct r as [|y r'].
    + repeat constructor.
    + change (sortedb_lex (x :: y :: r')) with (lex_leb (snd x) (snd y) && sortedb_lex (y :: r')) in H.
      apply andb_true_iff in H. destruct H as [H1 H2]. constructor; [now apply IH|constructor; exact H1].
  - intros H. apply StronglySorted_Sorted in H.
    induction l as [|x r IH]; [reflexivity|]. destruct r as [|y r']; [reflexivity|].
    change (sortedb_lex (x :: y :: r')) with (lex_leb (snd x) (snd y) && sortedb_lex (y :: r')).
    inversion H as [|? ? S Hd]; subst. inversion Hd; subst. apply andb_true_iff. split; [assumption|now apply IH].
Qed.

Lemma lcp_check_iff out lcp : lcp_check out lcp = true <-> LcpExact out lcp.
Proof.
  rewrite LcpExact_iff. unfold lcp_check. rewrite andb_true_iff, Nat.eqb_eq.
  rewrite (list_eqb_eq Nat.eqb Nat.eqb_eq). reflexivity.
Qed.

Theorem check_sp_iff inp out : check_sp inp out = true <-> SortedPerm inp out.
Proof. unfold check_sp, SortedPerm. now rewrite andb_true_iff, perm_check_iff, sortedb_lex_iff. Qed.

(** soundness and completeness of the extracted checker *)
Theorem check_spl_iff inp out lcp : check_spl inp out lcp = true <-> SortedPermLcp inp out lcp.
Proof. unfold check_spl, SortedPermLcp. now rewrite andb_true_iff, check_sp_iff, lcp_check_iff. Qed.
