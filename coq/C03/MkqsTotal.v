(** C03 — multikey quicksort always returns: totality of the fuelled model [mkqs].

    [mkqs] recurses on fuel (standing for the C++ recursion / its explicit stack).  This file proves that it returns a
    result for EVERY input as soon as the fuel exceeds  length l + (longest string length - depth):
    the less / greater blocks lose at least the pivot, and the equal block is only sorted further (one character
    deeper) when its strings have a character at the current depth, i.e. when some string is longer than the depth.
    Together with [part_loop_total] this removes the hypothesis "the model returned a result" from multikey
    quicksort (the fallback of every radix sorter below its threshold or memory limit). *)
From Coq Require Import List Bool Arith NArith Lia Sorting.Permutation.
From TLXV Require Import gen.Sizes_C03_gen C03.Model C03.Spec C03.SpecProofs C03.Lemmas C03.Sorters C03.Mkqs C03.PartTotal.
Import ListNotations.

Definition mlen (l : list item) : nat := list_max (map (fun x => length (snd x)) l).

Lemma mlen_in x l : In x l -> length (snd x) <= mlen l.
Proof.
  intros H. unfold mlen.
  assert (F : Forall (fun k => k <= list_max (map (fun x => length (snd x)) l)) (map (fun x => length (snd x)) l))
    by (apply list_max_le; lia).
  rewrite Forall_forall in F. apply F. apply in_map_iff. eauto.
Qed.

Lemma mlen_incl a l : (forall x, In x a -> In x l) -> mlen a <= mlen l.
Proof.
  intros H. unfold mlen at 1. apply list_max_le. apply Forall_forall. intros k Hk.
  apply in_map_iff in Hk. destruct Hk as (x & <- & Hx). apply mlen_in. auto.
Qed.

Lemma ch_nonzero_len d x : ch d x <> 0%N -> d < length (snd x).
Proof.
  unfold ch, char_at. intros H. destruct (Nat.lt_ge_cases d (length (snd x))) as [L|G]; [exact L|].
  exfalso. apply H. apply nth_overflow. exact G.
Qed.

Section MKT.
  Variable sz : sizes.
  Variable wl : bool.

  Theorem mkqs_total : forall fuel d mem l lcp,
    length l + (mlen l - d) < fuel -> mkqs sz wl fuel d mem l lcp <> None.
  Proof.
    induction fuel as [|f IH]; intros d mem l lcp Hf; [lia|].
    rewrite mkqs_S. cbv zeta.
    destruct (N.ltb (N.of_nat (length l)) mkqs_threshold || mem_short mem (w64 (mkqs_use sz + 1)))%bool eqn:Et; [discriminate|].
    apply orb_false_iff in Et. destruct Et as [Et _]. apply N.ltb_ge in Et.
    assert (Hn : 1 <= length l).
    { assert (1 <= mkqs_threshold)%N by (vm_compute; discriminate). lia. }
    clear Et.
    pose proof (swap_idx0_perm l _ (pivot_idx_lt d l Hn)) as Pa.
    pose proof (mkqs_partition_total (ch d (hd dflt (swap_idx l 0 (pivot_idx d l)))) d l (pivot_idx d l)) as PT.
    destruct (swap_idx l 0 (pivot_idx d l)) as [|piv ta] eqn:Ea.
    { apply Permutation_length in Pa. simpl in Pa. lia. }
    change (hd dflt (piv :: ta)) with piv in *. change (tl (piv :: ta)) with ta in *.
    set (pv := ch d piv) in *.
    destruct (part_loop (S (length l)) pv d [] [] ta [] []) as [[[[EQL LT] GT] EQR]|] eqn:EP; [|contradiction].
    destruct (part_loop_ok pv d _ _ _ _ _ _ _ _ _ _ EP ltac:(constructor) ltac:(constructor) ltac:(constructor) ltac:(constructor))
      as (Pp & _).
    simpl in Pp. rewrite app_nil_r in Pp.
    destruct (swap_ends_split (piv :: EQL) LT) as (L' & E' & EX & PL & PE & LL).
    destruct (swap_ends_split GT EQR) as (Q' & G' & EY & PQ & PG & LQ).
    simpl length in EX. rewrite EX, EY.
    destruct (firstn_app_exact L' E' (length LT) LL) as [F1 F2]. rewrite F1, F2.
    destruct (firstn_app_exact Q' G' (length EQR) LQ) as [F3 F4]. rewrite F3, F4.
    clear EX EY F1 F2 F3 F4.
    assert (Pl : Permutation l (L' ++ (E' ++ Q') ++ G')).
    { apply (Permutation_count_occ item_eq_dec). intro x.
      generalize (proj1 (Permutation_count_occ item_eq_dec _ _) Pa x).
      generalize (proj1 (Permutation_count_occ item_eq_dec _ _) Pp x).
      generalize (proj1 (Permutation_count_occ item_eq_dec _ _) PL x).
      generalize (proj1 (Permutation_count_occ item_eq_dec _ _) PE x).
      generalize (proj1 (Permutation_count_occ item_eq_dec _ _) PQ x).
      generalize (proj1 (Permutation_count_occ item_eq_dec _ _) PG x). cnt_norm. }
    assert (LE : length E' = S (length EQL)) by (apply Permutation_length in PE; simpl in PE; exact PE).
    assert (Hsum : length l = length L' + (length E' + length Q') + length G').
    { apply Permutation_length in Pl. rewrite !app_length in Pl. lia. }
    assert (InL : forall x, In x L' -> In x l).
    { intros x Hx. apply (Permutation_in _ (Permutation_sym Pl)). apply in_or_app. now left. }
    assert (InE : forall x, In x (E' ++ Q') -> In x l).
    { intros x Hx. apply (Permutation_in _ (Permutation_sym Pl)). apply in_or_app. right. apply in_or_app. now left. }
    assert (InG : forall x, In x G' -> In x l).
    { intros x Hx. apply (Permutation_in _ (Permutation_sym Pl)). apply in_or_app. right. apply in_or_app. now right. }
    pose proof (mlen_incl _ _ InL) as ML. pose proof (mlen_incl _ _ InE) as ME. pose proof (mlen_incl _ _ InG) as MG.
    (* first block *)
    match goal with |- match ?X with _ => _ end <> None => destruct X as [[o1 A']|] eqn:R1 end.
    2:{ exfalso. destruct (1 <? length LT); [|discriminate]. revert R1. apply IH. lia. }
    (* equal block, one character deeper *)
    match goal with |- match ?X with _ => _ end <> None => destruct X as [[o2 B']|] eqn:R2 end.
    2:{ exfalso. destruct (N.eqb (ch d (hd dflt (E' ++ Q'))) 0) eqn:Z; simpl negb in R2; cbv iota in R2; [discriminate|].
        apply N.eqb_neq in Z. apply ch_nonzero_len in Z.
        assert (Hin : In (hd dflt (E' ++ Q')) l).
        { apply InE. destruct E' as [|x E'']; [simpl in LE; lia|]. now left. }
        pose proof (mlen_in _ _ Hin) as Hm.
        assert (Hd : d < mlen l) by (eapply Nat.lt_le_trans; [exact Z|exact Hm]).
        revert R2. apply IH. rewrite app_length. clear - Hd ME Hf Hsum. lia. }
    (* greater block *)
    match goal with |- match ?X with _ => _ end <> None => destruct X as [[o3 C']|] eqn:R3 end; [discriminate|].
    exfalso. destruct (1 <? length GT); [|discriminate]. revert R3. apply IH.
    assert (LG : length G' = length GT) by (apply Permutation_length in PG; exact PG). lia.
  Qed.

  (** the fuel the correspondence driver passes (n + longest string + 8) is always enough, at every depth *)
  Corollary mkqs_total_driver_fuel : forall d mem l lcp,
    mkqs sz wl (length l + mlen l + 8) d mem l lcp <> None.
  Proof. intros. apply mkqs_total. lia. Qed.

  (** multikey quicksort returns the sorted permutation with exact LCPs -- no "returned a result" hypothesis *)
  Theorem mkqs_closed : forall mem p l lcp,
    Pre p l -> all_nulfree l -> length lcp = length l ->
    exists out lcp', mkqs sz wl (length l + mlen l + 8) (length p) mem l lcp = Some (out, lcp') /\
                     OutOK wl l lcp out lcp'.
  Proof.
    intros mem p l lcp HP HN HL.
    destruct (mkqs sz wl (length l + mlen l + 8) (length p) mem l lcp) as [[out lcp']|] eqn:E.
    - exists out, lcp'. split; [reflexivity|]. exact (mkqs_ok sz wl _ mem p l lcp out lcp' HP HN HL E).
    - exfalso. exact (mkqs_total_driver_fuel (length p) mem l lcp E).
  Qed.
End MKT.
