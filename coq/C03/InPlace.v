(** C03 — the in-place permutation of RadixStep_CI2 / RadixStep_CI3 (cycle-leader walk, [ci_permute]):
    arrays as finite maps, bucket layout, the counting argument, inner / outer loop invariants, initialisation,
    and the result: cutting the permuted array at the bucket sizes yields, for every key, a permutation of the
    elements with that key. *)
From Coq Require Import List Bool Arith NArith Lia Sorting.Sorted Sorting.Permutation FMapPositive.
From TLXV Require Import gen.Sizes_C03_gen C03.Model C03.Spec C03.SpecProofs C03.Lemmas C03.Sorters C03.Radix8 C03.Mkqs.
Import ListNotations.


(** * arrays as finite maps *)
Lemma succ_pos_inj i j : N.succ_pos i = N.succ_pos j -> i = j.
Proof.
  intros H. assert (E : N.pos (N.succ_pos i) = N.pos (N.succ_pos j)) by now rewrite H.
  rewrite !N.succ_pos_spec in E. lia.
Qed.

Lemma aget_aset_same {A} (d : A) a i v : aget d (aset a i v) i = v.
Proof. unfold aget, aset. now rewrite PM.gss. Qed.

Lemma aget_aset_other {A} (d : A) a i j v : i <> j -> aget d (aset a i v) j = aget d a j.
Proof. intros H. unfold aget, aset. rewrite PM.gso; auto. intros E. apply H. symmetry. now apply succ_pos_inj. Qed.

Lemma aget_aset {A} (d : A) a i j v : aget d (aset a i v) j = if N.eqb i j then v else aget d a j.
Proof. destruct (N.eqb_spec i j) as [-> | H]; [apply aget_aset_same|now apply aget_aset_other]. Qed.

Lemma aget_empty {A} (d : A) i : aget d (PM.empty A) i = d.
Proof. unfold aget. now rewrite PM.gempty. Qed.

Lemma to_list_from_length {A} (d : A) a : forall cnt i, length (to_list_from d a cnt i) = cnt.
Proof. induction cnt as [|c IH]; intros i; simpl; auto. Qed.

Lemma to_list_from_nth {A} (d : A) a : forall cnt i p, p < cnt -> nth p (to_list_from d a cnt i) d = aget d a (i + N.of_nat p).
Proof.
  induction cnt as [|c IH]; intros i p H; [lia|]. simpl. destruct p as [|p].
  - f_equal. lia.
  - rewrite IH by lia. f_equal. lia.
Qed.

Lemma to_list_length {A} (d : A) a n : length (to_list d a n) = n.
Proof. apply to_list_from_length. Qed.

Lemma to_list_nth {A} (d : A) a n p : p < n -> nth p (to_list d a n) d = aget d a (N.of_nat p).
Proof. intros H. unfold to_list. now rewrite to_list_from_nth. Qed.

Lemma to_list_ext {A} (d : A) a1 a2 n : (forall p, (p < N.of_nat n)%N -> aget d a1 p = aget d a2 p) -> to_list d a1 n = to_list d a2 n.
Proof.
  intros H. apply nth_ext with (d := d) (d' := d); rewrite !to_list_length; auto.
  intros p Hp. rewrite !to_list_nth by lia. apply H. lia.
Qed.

Lemma to_list_aset {A} (d : A) a n j v : (j < N.of_nat n)%N -> to_list d (aset a j v) n = upd (to_list d a n) (N.to_nat j) v.
Proof.
  intros H. apply nth_ext with (d := d) (d' := d); rewrite ?upd_length, !to_list_length; auto.
  intros p Hp. rewrite to_list_nth by lia. rewrite aget_aset.
  destruct (N.eqb_spec j (N.of_nat p)) as [E|E].
  - subst j. rewrite Nat2N.id. rewrite upd_nth_same by (rewrite to_list_length; lia). reflexivity.
  - rewrite upd_nth_other by lia. now rewrite to_list_nth by lia.
Qed.

Lemma of_list_from_get {A} (d : A) : forall (l : list A) i a p,
  aget d (of_list_from i l a) p = if (N.leb i p && N.ltb p (i + N.of_nat (length l)))%bool then nth (N.to_nat (p - i)) l d else aget d a p.
Proof.
  induction l as [|x l IH]; intros i a p; simpl.
  - destruct (N.leb_spec i p), (N.ltb_spec p (i + 0)); simpl; auto; lia.
  - rewrite IH. rewrite aget_aset.
    destruct (N.leb_spec (N.succ i) p), (N.ltb_spec p (N.succ i + N.of_nat (length l))); simpl.
    + destruct (N.leb_spec i p); [|lia]. destruct (N.ltb_spec p (i + N.pos (Pos.of_succ_nat (length l)))); [|lia]. simpl.
      replace (N.to_nat (p - i)) with (S (N.to_nat (p - N.succ i))) by lia. reflexivity.
    + destruct (N.eqb_spec i p); [lia|]. destruct (N.leb_spec i p); simpl; auto. destruct (N.ltb_spec p (i + N.pos (Pos.of_succ_nat (length l)))); auto. lia.
    + destruct (N.eqb_spec i p) as [E|E].
      * subst p. destruct (N.leb_spec i i); [|lia]. destruct (N.ltb_spec i (i + N.pos (Pos.of_succ_nat (length l)))); [|lia]. simpl.
        replace (N.to_nat (i - i)) with 0 by lia. reflexivity.
      * destruct (N.leb_spec i p); simpl; auto. lia.
    + destruct (N.eqb_spec i p); [lia|]. destruct (N.leb_spec i p); simpl; auto. destruct (N.ltb_spec p (i + N.pos (Pos.of_succ_nat (length l)))); auto. lia.
Qed.

Lemma to_list_of_list (l : list item) : to_list dflt (of_list_from 0%N l (PM.empty item)) (length l) = l.
Proof.
  apply nth_ext with (d := dflt) (d' := dflt); rewrite to_list_length; auto.
  intros p Hp. rewrite to_list_nth by lia. rewrite of_list_from_get.
  destruct (N.leb_spec 0 (N.of_nat p)); [|lia]. destruct (N.ltb_spec (N.of_nat p) (0 + N.of_nat (length l))); [|lia]. simpl.
  f_equal. lia.
Qed.

(** swapping two cells *)
Lemma upd_swap2 (x y : item) : forall t j, j < length t -> Permutation (x :: upd t j y) (y :: upd t j x).
Proof.
  induction t as [|h t IH]; intros [|j] H; simpl in *; try lia.
  - apply perm_swap.
  - eapply Permutation_trans; [apply perm_swap|]. eapply Permutation_trans; [apply perm_skip, (IH j); lia|]. apply perm_swap.
Qed.

Lemma upd_swap_perm (x y : item) : forall a i j, i < j -> j < length a ->
  Permutation (upd (upd a i x) j y) (upd (upd a i y) j x).
Proof.
  induction a as [|h t IH]; intros i j Hij Hj; simpl in *; [lia|].
  destruct j as [|j]; [lia|]. destruct i as [|i]; simpl.
  - apply upd_swap2. lia.
  - apply perm_skip. apply IH; lia.
Qed.

Lemma upd_upd_comm {A} (a : list A) : forall i j x y, i <> j -> upd (upd a i x) j y = upd (upd a j y) i x.
Proof. induction a as [|h t IH]; intros [|i] [|j] x y H; simpl; auto; try lia. f_equal. apply IH. lia. Qed.

Lemma upd_upd_same {A} (a : list A) : forall i x y, upd (upd a i x) i y = upd a i y.
Proof. induction a as [|h t IH]; intros [|i] x y; simpl; auto. f_equal. apply IH. Qed.

Lemma upd_nth_id {A} (a : list A) d : forall i, upd a i (nth i a d) = a.
Proof. induction a as [|h t IH]; intros [|i]; simpl; auto. f_equal. apply IH. Qed.


Section Layout.
  Variable key : item -> N.
  Definition cnt (k : N) (a : list item) : nat := length (filter (fun x => N.eqb (key x) k) a).

  Lemma cnt_app k a b : cnt k (a ++ b) = cnt k a + cnt k b.
  Proof. unfold cnt. now rewrite filter_app, app_length. Qed.

  Lemma cnt_perm k a b : Permutation a b -> cnt k a = cnt k b.
  Proof.
    unfold cnt. induction 1; simpl; auto; try congruence.
    - destruct (N.eqb (key x) k); simpl; congruence.
    - destruct (N.eqb (key x) k), (N.eqb (key y) k); simpl; congruence.
  Qed.

  Lemma filter_perm (f : item -> bool) a b : Permutation a b -> Permutation (filter f a) (filter f b).
  Proof.
    induction 1; simpl; auto.
    - destruct (f x); auto.
    - destruct (f x), (f y); auto. apply perm_swap.
    - eapply Permutation_trans; eauto.
  Qed.

  Lemma cnt_zero k a : cnt k a = 0 -> forall x, In x a -> key x <> k.
  Proof.
    unfold cnt. intros H x Hx E. assert (Hin : In x (filter (fun x => N.eqb (key x) k) a)).
    { apply filter_In. split; auto. now apply N.eqb_eq. }
    destruct (filter _ a); [contradiction|discriminate].
  Qed.

  Lemma cnt_all k a : (forall x, In x a -> key x = k) -> cnt k a = length a.
  Proof.
    unfold cnt. induction a as [|x a IH]; intros H; simpl; auto.
    rewrite (proj2 (N.eqb_eq _ _) (H x (or_introl eq_refl))). simpl. f_equal. apply IH. intros; apply H; now right.
  Qed.

  Lemma filter_all (f : item -> bool) a : (forall x, In x a -> f x = true) -> filter f a = a.
  Proof. induction a as [|x a IH]; intros H; simpl; auto. rewrite (H x (or_introl eq_refl)). f_equal. apply IH. intros; apply H; now right. Qed.

  Lemma filter_none (f : item -> bool) a : (forall x, In x a -> f x = false) -> filter f a = [].
  Proof. induction a as [|x a IH]; intros H; simpl; auto. rewrite (H x (or_introl eq_refl)). apply IH. intros; apply H; now right. Qed.

  (** a region [a, b) of the array that holds exactly the elements of key k *)
  Lemma full_region (A : list item) k a b :
    a <= b -> b <= length A -> cnt k A = b - a ->
    (forall p, a <= p < b -> key (nth p A dflt) = k) ->
    (forall q, q < length A -> ~ (a <= q < b) -> key (nth q A dflt) <> k) /\
    filter (fun x => N.eqb (key x) k) A = firstn (b - a) (skipn a A).
  Proof.
    intros Hab Hb Hc Hin.
    set (A1 := firstn a A). set (R := firstn (b - a) (skipn a A)). set (A2 := skipn b A).
    assert (EA : A = A1 ++ R ++ A2).
    { unfold A1, R, A2. rewrite <- (firstn_skipn a A) at 1. f_equal.
      rewrite <- (firstn_skipn (b - a) (skipn a A)) at 1. f_equal. rewrite skipn_skipn'. f_equal. lia. }
    assert (L1 : length A1 = a) by (unfold A1; rewrite firstn_length; lia).
    assert (LR : length R = b - a) by (unfold R; rewrite firstn_length, skipn_length; lia).
    assert (HR : forall x, In x R -> key x = k).
    { intros x Hx. apply (In_nth _ _ dflt) in Hx. destruct Hx as (p & Hp & <-).
      unfold R. rewrite nth_firstn_lt by lia. rewrite nth_skipn'. apply Hin. lia. }
    pose proof (cnt_all k R HR) as CR.
    rewrite EA in Hc. rewrite !cnt_app in Hc.
    assert (C1 : cnt k A1 = 0) by lia. assert (C2 : cnt k A2 = 0) by lia.
    split.
    - intros q Hq Hn E. destruct (Nat.lt_ge_cases q a) as [Hlt|Hge].
      + apply (cnt_zero k A1 C1 (nth q A dflt)); auto. rewrite EA at 1. rewrite app_nth1 by lia. apply nth_In. lia.
      + assert (Hqb : b <= q) by lia.
        apply (cnt_zero k A2 C2 (nth q A dflt)); auto. rewrite EA at 1.
        rewrite app_nth2 by lia. rewrite app_nth2 by lia. apply nth_In.
        rewrite EA in Hq. rewrite !app_length in Hq. lia.
    - rewrite EA at 1. rewrite !filter_app.
      rewrite (filter_none _ A1), (filter_none _ A2), (filter_all _ R); [now rewrite app_nil_r| | |].
      + intros x Hx. apply N.eqb_eq. now apply HR.
      + intros x Hx. apply N.eqb_neq. now apply (cnt_zero k A2 C2).
      + intros x Hx. apply N.eqb_neq. now apply (cnt_zero k A1 C1).
  Qed.

  Variable l : list item.
  Definition size (k : N) : N := N.of_nat (cnt k l).

  Fixpoint start_in (ks : list N) (k : N) : N :=
    match ks with [] => 0%N | k' :: r => if N.eqb k' k then 0%N else (size k' + start_in r k)%N end.
  Fixpoint total (ks : list N) : N := match ks with [] => 0%N | k :: r => (size k + total r)%N end.

  Lemma end_le_total : forall ks k, In k ks -> (start_in ks k + size k <= total ks)%N.
  Proof.
    induction ks as [|a r IH]; intros k H; [contradiction|]. simpl.
    destruct (N.eqb_spec a k) as [-> | E]; [lia|]. destruct H as [H|H]; [congruence|]. specialize (IH k H). lia.
  Qed.

  Lemma layout_disjoint : forall ks k k', NoDup ks -> In k ks -> In k' ks -> k <> k' ->
    (start_in ks k + size k <= start_in ks k')%N \/ (start_in ks k' + size k' <= start_in ks k)%N.
  Proof.
    induction ks as [|a r IH]; intros k k' ND H H' Hne; [contradiction|]. inversion ND; subst. simpl.
    destruct (N.eqb_spec a k) as [E | E]; destruct (N.eqb_spec a k') as [E' | E'].
    - congruence.
    - subst a. left. lia.
    - subst a. right. lia.
    - destruct H as [H|H]; [congruence|]. destruct H' as [H'|H']; [congruence|].
      destruct (IH k k' H3 H H' Hne); [left|right]; lia.
  Qed.

  Lemma layout_cover : forall ks q, NoDup ks -> (q < total ks)%N -> exists k, In k ks /\ (start_in ks k <= q < start_in ks k + size k)%N.
  Proof.
    induction ks as [|a r IH]; intros q ND H; simpl in H; [lia|]. inversion ND; subst.
    destruct (N.ltb_spec q (size a)) as [Hlt|Hge].
    - exists a. split; [now left|]. simpl. rewrite N.eqb_refl. lia.
    - destruct (IH (q - size a)%N H3 ltac:(lia)) as (k & Hk & Hr).
      exists k. split; [now right|]. simpl. destruct (N.eqb_spec a k) as [E|E]; [subst; contradiction|]. lia.
  Qed.

  Lemma total_length ks : NoDup ks -> (forall x, In x l -> In (key x) ks) -> total ks = N.of_nat (length l).
  Proof.
    intros ND Hin. pose proof (buckets_perm key ks l ND Hin) as P. apply Permutation_length in P.
    rewrite P. clear. induction ks as [|a r IH]; simpl; auto.
    rewrite app_length, Nat2N.inj_add. unfold size, cnt at 1. f_equal. apply IH.
  Qed.
End Layout.

Local Open Scope N_scope.

Section Walk.
  Variable key : item -> N.
  Variable l : list item.
  Variable ks : list N.
  Hypothesis ND : NoDup ks.
  Hypothesis Hkeys : forall x, In x l -> In (key x) ks.
  Definition n := length l.
  Definition arrN := N.of_nat n.
  Definition st k := start_in key l ks k.
  Definition sz k := size key l k.
  Definition en k := st k + sz k.
  Variable bs : PM.t N.
  Hypothesis bs_ok : forall k, aget 0 bs k = sz k.

  Definition g (S : PM.t item) (p : N) : item := aget dflt S p.

  Record Inv (i : N) (S : PM.t item) (bkt : PM.t N) : Prop := {
    I_perm : Permutation (to_list dflt S n) l;
    I_zone : forall k p, In k ks -> st k <= p -> aget 0 bkt k <= p -> p < en k -> key (g S p) = k;
    I_done : forall k p, In k ks -> en k <= i -> st k <= p < en k -> key (g S p) = k;
    I_bnd : forall k, In k ks -> en k <= i \/ i <= st k;
    I_le : forall k, In k ks -> aget 0 bkt k <= en k }.

  Lemma en_le_n k : In k ks -> en k <= arrN.
  Proof. intros H. unfold en, st, sz, arrN, n. rewrite <- (total_length key l ks ND Hkeys). now apply end_le_total. Qed.

  Lemma disjoint k k' : In k ks -> In k' ks -> k <> k' -> en k <= st k' \/ en k' <= st k.
  Proof. intros. unfold en, st, sz. now apply layout_disjoint. Qed.

  Lemma g_nth S p : p < arrN -> nth (N.to_nat p) (to_list dflt S n) dflt = g S p.
  Proof. intros H. unfold arrN in H. rewrite to_list_nth by lia. unfold g. f_equal. lia. Qed.

  Lemma g_in S p : Permutation (to_list dflt S n) l -> p < arrN -> In (g S p) l.
  Proof.
    intros P H. apply (Permutation_in _ P). rewrite <- g_nth by exact H. apply nth_In. rewrite to_list_length. unfold arrN in H. lia.
  Qed.

  Lemma key_in S p : Permutation (to_list dflt S n) l -> p < arrN -> In (key (g S p)) ks.
  Proof. intros. apply Hkeys. now apply g_in. Qed.

  Lemma sz_pos S p : Permutation (to_list dflt S n) l -> p < arrN -> 1 <= sz (key (g S p)).
  Proof.
    intros P H. pose proof (g_in S p P H) as Hin. unfold sz, size, cnt.
    assert (Hf : In (g S p) (filter (fun x => N.eqb (key x) (key (g S p))) l)) by (apply filter_In; split; [exact Hin|apply N.eqb_refl]).
    destruct (filter _ l); [contradiction|simpl; lia].
  Qed.

  (** a bucket whose whole region holds its key has all its elements: no other cell holds that key *)
  Lemma region_full S k : Permutation (to_list dflt S n) l -> In k ks ->
    (forall p, st k <= p < en k -> key (g S p) = k) ->
    forall q, q < arrN -> ~ (st k <= q < en k) -> key (g S q) <> k.
  Proof.
    intros P Hk Hreg q Hq Hn.
    pose proof (en_le_n k Hk) as Hle.
    destruct (full_region key (to_list dflt S n) k (N.to_nat (st k)) (N.to_nat (en k))) as [F _].
    - unfold en. lia.
    - rewrite to_list_length. unfold arrN in Hle. lia.
    - rewrite (cnt_perm key k _ _ P). unfold en, sz, size. lia.
    - intros p Hp. replace p with (N.to_nat (N.of_nat p)) by lia. rewrite g_nth by lia. apply Hreg. lia.
    - rewrite <- g_nth by exact Hq. apply F.
      + rewrite to_list_length. unfold arrN in Hq. lia.
      + lia.
  Qed.

  Lemma Inv_ext i S1 S2 bkt : (forall p, aget dflt S1 p = aget dflt S2 p) -> Inv i S1 bkt -> Inv i S2 bkt.
  Proof.
    intros E [A B C D F]. constructor; auto.
    - rewrite <- (to_list_ext dflt S1 S2 n); auto.
    - intros. unfold g. rewrite <- E. now apply B.
    - intros. unfold g. rewrite <- E. now apply C.
  Qed.

  (** * the inner loop *)
  Lemma inner_ok : forall fuel i perm permch ss cc bkt perm' permch' ss' cc' bkt',
    i < arrN -> Inv i (aset ss i perm) bkt -> permch = key perm ->
    (forall j, i < j < arrN -> aget 0 cc j = key (aget dflt ss j)) ->
    perm_inner fuel i perm permch ss cc bkt = Some (perm', permch', ss', cc', bkt') ->
    exists bktX,
      Inv i (aset ss' i perm') bktX /\ permch' = key perm' /\
      (forall j, i < j < arrN -> aget 0 cc' j = key (aget dflt ss' j)) /\
      aget 0 bktX permch' <> 0 /\ N.pred (aget 0 bktX permch') <= i /\
      bkt' = aset bktX permch' (N.pred (aget 0 bktX permch')).
  Proof.
    induction fuel as [|f IH]; intros i perm permch ss cc bkt perm' permch' ss' cc' bkt' Hi HI Hch Hcc H; [discriminate|].
    simpl in H. subst permch. set (m := key perm) in *. set (b := aget 0 bkt m) in *.
    destruct (N.eqb_spec b 0) as [Hb0|Hb0]; [discriminate|].
    destruct (N.ltb_spec i (N.pred b)) as [Hlt|Hge].
    - (* swap and continue *)
      set (j := N.pred b) in *.
      assert (Hgi : g (aset ss i perm) i = perm) by (unfold g; apply aget_aset_same).
      assert (Hkm : key (g (aset ss i perm) i) = m) by (rewrite Hgi; reflexivity).
      assert (Hm : In m ks).
      { rewrite <- Hkm. apply key_in; [apply (I_perm _ _ _ HI)|exact Hi]. }
      pose proof (I_le _ _ _ HI m Hm) as Hle. fold b in Hle. pose proof (en_le_n m Hm) as Hen.
      assert (Hjn : j < arrN) by (unfold j; lia).
      assert (Hst : st m <= j).
      { destruct (N.le_gt_cases (st m) j) as [|Hc]; auto. exfalso.
        apply (region_full (aset ss i perm) m (I_perm _ _ _ HI) Hm) with (q := i); auto.
        - intros p Hp. apply (I_zone _ _ _ HI); auto; fold b; unfold j in Hc; lia.
        - unfold j in *. lia. }
      apply (IH i (aget dflt ss j) (aget 0 cc j) (aset ss j perm) (aset cc j m) (aset bkt m j)) in H; auto.
      + (* invariant after the swap *)
        set (S := aset ss i perm) in *. set (S2 := aset (aset ss j perm) i (aget dflt ss j)).
        assert (G2 : forall p, g S2 p = if N.eqb p i then aget dflt ss j else if N.eqb p j then perm else g S p).
        { intros p. unfold g, S2, S. rewrite !aget_aset. rewrite (N.eqb_sym i p), (N.eqb_sym j p).
          destruct (N.eqb_spec p i); destruct (N.eqb_spec p j); auto. }
        constructor.
        * eapply Permutation_trans; [|apply (I_perm _ _ _ HI)].
          unfold S2, S. rewrite !to_list_aset by (unfold arrN in *; lia).
          set (a := to_list dflt ss n). set (i' := N.to_nat i). set (j' := N.to_nat j).
          assert (Ey : aget dflt ss j = nth j' a dflt).
          { unfold a, j'. symmetry. change (aget dflt ss j) with (g ss j). apply g_nth. exact Hjn. }
          rewrite Ey.
          rewrite (upd_upd_comm a j' i') by (unfold i', j'; lia).
          assert (ER : upd a i' perm = upd (upd a i' perm) j' (nth j' a dflt)).
          { rewrite <- (upd_nth_other a i' j' perm dflt) by (unfold i', j'; lia). symmetry. apply upd_nth_id. }
          rewrite ER.
          apply Permutation_sym. apply upd_swap_perm; [unfold i', j'; lia|].
          unfold a, j'. rewrite to_list_length. unfold arrN in Hjn. lia.
        * intros k p Hk Hs Hz He. rewrite aget_aset in Hz.
          destruct (N.eqb_spec m k) as [Ek|Ek].
          -- subst k. rewrite G2. destruct (N.eqb_spec p i); [lia|]. destruct (N.eqb_spec p j); [auto|].
             apply (I_zone _ _ _ HI); auto. fold b. unfold j in *. lia.
          -- assert (Hpj : p <> j).
             { intros ->. destruct (disjoint m k Hm Hk Ek) as [D|D]; unfold en in *; lia. }
             assert (Hpi : p <> i).
             { intros ->. apply Ek. rewrite <- Hkm. apply (I_zone _ _ _ HI); auto. }
             rewrite G2. destruct (N.eqb_spec p i); [congruence|]. destruct (N.eqb_spec p j); [congruence|].
             apply (I_zone _ _ _ HI); auto.
        * intros k p Hk He Hp. rewrite G2. destruct (N.eqb_spec p i); [lia|]. destruct (N.eqb_spec p j); [lia|].
          apply (I_done _ _ _ HI); auto.
        * apply (I_bnd _ _ _ HI).
        * intros k Hk. rewrite aget_aset. destruct (N.eqb_spec m k) as [Ek|Ek].
          -- subst k. unfold j. lia.
          -- apply (I_le _ _ _ HI); auto.
      + intros j0 Hj0. rewrite !aget_aset. destruct (N.eqb_spec j j0); auto.
    - injection H as <- <- <- <- <-. exists bkt. fold b.
      split; [exact HI|]. split; [reflexivity|]. split; [exact Hcc|]. split; [exact Hb0|]. split; [exact Hge|reflexivity].
  Qed.

  (** * the outer loop *)
  Lemma outer_ok : forall fuel fi i limit ss cc bkt res,
    limit <= arrN -> Inv i ss bkt ->
    (forall j, i <= j < arrN -> aget 0 cc j = key (aget dflt ss j)) ->
    perm_outer fuel fi i limit bs ss cc bkt = Some res ->
    exists i' bkt', limit <= i' /\ Inv i' res bkt'.
  Proof.
    induction fuel as [|f IH]; intros fi i limit ss cc bkt res Hlim HI Hcc H.
    - simpl in H. destruct (N.ltb_spec i limit); [discriminate|]. injection H as <-. exists i, bkt. auto.
    - simpl in H. destruct (N.ltb_spec i limit) as [Hlt|Hge]; [|injection H as <-; exists i, bkt; auto].
      destruct (perm_inner fi i (aget dflt ss i) (aget 0 cc i) ss cc bkt) as [[[[[perm' permch'] ss'] cc'] bkt']|] eqn:EI; [|discriminate].
      assert (Hi : i < arrN) by lia.
      assert (HI0 : Inv i (aset ss i (aget dflt ss i)) bkt).
      { apply (Inv_ext i ss); auto. intros p. rewrite aget_aset. destruct (N.eqb_spec i p); [subst; reflexivity|reflexivity]. }
      destruct (inner_ok fi i _ _ ss cc bkt _ _ _ _ _ Hi HI0 (Hcc i ltac:(lia)) ltac:(intros; apply Hcc; lia) EI)
        as (bktX & HX & Ech & Hcc' & Hb0 & Hj & Ebkt).
      subst permch'. set (m := key perm') in *. set (S := aset ss' i perm') in *. set (b := aget 0 bktX m) in *.
      assert (Hgi : g S i = perm') by (unfold g, S; apply aget_aset_same).
      assert (Hkm : key (g S i) = m) by (rewrite Hgi; reflexivity).
      pose proof (I_perm _ _ _ HX) as PX.
      assert (Hm : In m ks) by (rewrite <- Hkm; apply key_in; auto).
      assert (Hszm : 1 <= sz m) by (rewrite <- Hkm; apply sz_pos; auto).
      pose proof (I_le _ _ _ HX m Hm) as Hle. fold b in Hle.
      (* the bucket of the element in hand starts at i and is now complete *)
      assert (Hfull_if : b <= st m -> forall p, st m <= p < en m -> key (g S p) = m).
      { intros Hb p Hp. apply (I_zone _ _ _ HX); auto; fold b; lia. }
      assert (Hist : i = st m).
      { destruct (I_bnd _ _ _ HX m Hm) as [He|Hs].
        - exfalso. apply (region_full S m PX Hm) with (q := i); auto.
          + intros p Hp. apply (I_done _ _ _ HX); auto.
          + unfold en in *. lia.
        - destruct (N.le_gt_cases b (st m)) as [Hb|Hb].
          + destruct (N.eq_dec i (st m)) as [|Hne]; auto. exfalso.
            apply (region_full S m PX Hm) with (q := i); auto. lia.
          + lia. }
      assert (Hreg : forall p, st m <= p < en m -> key (g S p) = m).
      { intros p Hp. destruct (N.le_gt_cases b (st m)) as [Hb|Hb]; [now apply Hfull_if|].
        destruct (N.eq_dec p i) as [-> | Hne]; [exact Hkm|].
        apply (I_zone _ _ _ HX); auto; fold b; lia. }
      rewrite bs_ok in H. fold m in H.
      apply (IH fi (i + sz m) limit S cc' bkt' res Hlim) in H; auto.
      + (* invariant at the next bucket boundary *)
        assert (Hen : en m = i + sz m) by (unfold en; lia).
        constructor.
        * exact PX.
        * intros k p Hk Hs Hz He. rewrite Ebkt, aget_aset in Hz. destruct (N.eqb_spec m k) as [Ek|Ek].
          -- subst k. apply Hreg. lia.
          -- apply (I_zone _ _ _ HX); auto.
        * intros k p Hk He Hp. destruct (N.eq_dec k m) as [-> | Ek]; [now apply Hreg|].
          destruct (disjoint k m Hk Hm Ek) as [D|D].
          -- apply (I_done _ _ _ HX); auto. lia.
          -- unfold en in *. lia.
        * intros k Hk. destruct (N.eq_dec k m) as [-> | Ek]; [left; lia|].
          destruct (disjoint k m Hk Hm Ek) as [D|D]; [left|right]; unfold en in *; lia.
        * intros k Hk. rewrite Ebkt, aget_aset. destruct (N.eqb_spec m k) as [Ek|Ek]; [subst k; fold b; lia|].
          apply (I_le _ _ _ HX); auto.
      + intros j0 Hj0. unfold S. rewrite aget_aset. destruct (N.eqb_spec i j0); [lia|]. apply Hcc'. lia.
  Qed.

  (** * the result: every bucket's region holds exactly its elements *)
  Definition lastnz (ks' : list N) (d : N) : N := fold_left (fun d k => if N.eqb (sz k) 0 then d else sz k) ks' d.

  Lemma final_regions i S bkt last :
    Inv i S bkt -> arrN - last <= i ->
    (arrN = 0 \/ exists L, In L ks /\ sz L = last /\ sz L <> 0 /\ en L = arrN /\
                         forall k, In k ks -> k <> L -> sz k <> 0 -> en k <= st L) ->
    forall k, In k ks -> forall p, st k <= p < en k -> key (g S p) = k.
  Proof.
    intros HI Hlim HL k Hk p Hp. pose proof (I_perm _ _ _ HI) as P.
    pose proof (en_le_n k Hk) as Hkn.
    destruct HL as [Z|(L & HLk & HLs & HLn & HLe & HLo)]; [lia|].
    assert (Hbefore : forall k', In k' ks -> k' <> L -> sz k' <> 0 -> forall q, st k' <= q < en k' -> key (g S q) = k').
    { intros k' Hk' Hne Hs q Hq. apply (I_done _ _ _ HI); auto. specialize (HLo k' Hk' Hne Hs). unfold en in *. lia. }
    destruct (N.eq_dec k L) as [-> | Hne].
    - (* the last non-empty bucket: whatever is there cannot belong to an earlier (complete) bucket *)
      set (k' := key (g S p)). assert (Hp' : p < arrN) by lia.
      assert (Hk' : In k' ks) by (apply key_in; auto).
      destruct (N.eq_dec k' L) as [|Hne']; auto. exfalso.
      assert (Hs' : sz k' <> 0) by (pose proof (sz_pos S p P Hp'); fold k' in H; lia).
      apply (region_full S k' P Hk' (Hbefore k' Hk' Hne' Hs')) with (q := p); auto.
      specialize (HLo k' Hk' Hne' Hs'). unfold en in *. lia.
    - apply Hbefore; auto. unfold en in Hp. lia.
  Qed.
End Walk.

Section Init.
  Variable key : item -> N.
  Variable l : list item.

  (** counting pass *)
  Lemma count_pass : forall (l' : list item) a k,
    aget 0 (fold_left (fun a x => aset a (key x) (N.succ (aget 0 a (key x)))) l' a) k = aget 0 a k + N.of_nat (cnt key k l').
  Proof.
    induction l' as [|x l' IH]; intros a k; simpl; [lia|].
    rewrite IH. rewrite aget_aset. unfold cnt. simpl.
    destruct (N.eqb_spec (key x) k) as [E|E]; simpl; [rewrite E|]; lia.
  Qed.

  Variable bs : PM.t N.
  Hypothesis bs_ok : forall k, aget 0 bs k = size key l k.

  (** inclusive prefix sums *)
  Lemma prefix_sum_fst : forall ks acc last bkt, NoDup ks ->
    forall k, aget 0 (fst (prefix_sum ks acc last bs bkt)) k =
              if in_dec N.eq_dec k ks then acc + start_in key l ks k + size key l k else aget 0 bkt k.
  Proof.
    induction ks as [|a r IH]; intros acc last bkt ND k; simpl; auto.
    inversion ND; subst. rewrite IH by assumption. rewrite bs_ok.
    destruct (in_dec N.eq_dec k r) as [Hr|Hr].
    - destruct (N.eq_dec a k) as [E|E]; [subst; contradiction|].
      destruct (N.eqb_spec a k); [contradiction|]. lia.
    - rewrite aget_aset. destruct (N.eqb_spec a k) as [E|E].
      + subst a. destruct (N.eq_dec k k); [|contradiction]. lia.
      + destruct (N.eq_dec a k); [contradiction|]. reflexivity.
  Qed.

  Lemma prefix_sum_snd : forall ks acc last bkt,
    snd (prefix_sum ks acc last bs bkt) = fold_left (fun d k => if N.eqb (size key l k) 0 then d else size key l k) ks last.
  Proof. induction ks as [|a r IH]; intros acc last bkt; simpl; auto. rewrite IH, bs_ok. reflexivity. Qed.

  (** the last non-empty bucket *)
  Lemma lastnz_spec : forall ks d, NoDup ks ->
    let r := fold_left (fun d k => if N.eqb (size key l k) 0 then d else size key l k) ks d in
    (total key l ks = 0 /\ r = d) \/
    (exists L, In L ks /\ size key l L = r /\ size key l L <> 0 /\ start_in key l ks L + size key l L = total key l ks /\
               forall k, In k ks -> k <> L -> size key l k <> 0 -> start_in key l ks k + size key l k <= start_in key l ks L).
  Proof.
    induction ks as [|a r IH]; intros d ND; simpl; [left; auto|]. inversion ND; subst.
    destruct (IH (if N.eqb (size key l a) 0 then d else size key l a) H2) as [[Z E]|(L & HL & Hs & Hn & He & Ho)].
    - destruct (N.eqb_spec (size key l a) 0) as [Za|Za].
      + left. split; [lia|exact E].
      + right. exists a. split; [now left|]. rewrite N.eqb_refl. split; [now rewrite E|]. split; [exact Za|]. split; [lia|].
        intros k [Hk|Hk] Hne Hsz; [congruence|]. exfalso.
        assert (size key l k <= total key l r) by (pose proof (end_le_total key l r k Hk); lia). lia.
    - right. exists L. split; [now right|]. assert (a <> L) by (intros ->; contradiction).
      destruct (N.eqb_spec a L); [contradiction|]. split; [exact Hs|]. split; [exact Hn|]. split; [lia|].
      intros k [Hk|Hk] Hne Hsz.
      + subst k. rewrite N.eqb_refl. lia.
      + destruct (N.eqb_spec a k); [subst; contradiction|]. specialize (Ho k Hk Hne Hsz). lia.
  Qed.
End Init.

Theorem ci_permute_ok key ks l p :
  NoDup ks -> (forall x, In x l -> In (key x) ks) -> ci_permute key ks l = Some p ->
  Permutation p l /\
  forall k, In k ks ->
    filter (fun x => N.eqb (key x) k) p = firstn (N.to_nat (size key l k)) (skipn (N.to_nat (start_in key l ks k)) p).
Proof.
  intros ND Hkeys H. unfold ci_permute in H.
  set (bs := fold_left (fun a x => aset a (key x) (N.succ (aget 0 a (key x)))) l (PM.empty N)) in H.
  set (cc := of_list_from 0 (map key l) (PM.empty N)) in H.
  set (ss0 := of_list_from 0 l (PM.empty item)) in H.
  assert (bs_ok : forall k, aget 0 bs k = size key l k).
  { intros k. unfold bs. rewrite count_pass, aget_empty. unfold size. lia. }
  destruct (prefix_sum ks 0 0 bs (PM.empty N)) as [bkt last] eqn:EP.
  assert (Ebkt : forall k, In k ks -> aget 0 bkt k = start_in key l ks k + size key l k).
  { intros k Hk. pose proof (prefix_sum_fst key l bs bs_ok ks 0 0 (PM.empty N) ND k) as E. rewrite EP in E. simpl in E.
    destruct (in_dec N.eq_dec k ks); [|contradiction]. lia. }
  assert (Elast : last = fold_left (fun d k => if N.eqb (size key l k) 0 then d else size key l k) ks 0).
  { pose proof (prefix_sum_snd key l bs bs_ok ks 0 0 (PM.empty N)) as E. rewrite EP in E. exact E. }
  destruct (perm_outer (S (length l)) (S (length l)) 0 (N.of_nat (length l) - last) bs ss0 cc bkt) as [res|] eqn:EO; [|discriminate].
  injection H as <-.
  pose proof (total_length key l ks ND Hkeys) as Htot.
  assert (HI0 : Inv key l ks 0 ss0 bkt).
  { constructor.
    - unfold ss0, n. rewrite to_list_of_list. reflexivity.
    - intros k q Hk Hs Hz He. rewrite (Ebkt k Hk) in Hz. unfold en, st, sz in He. lia.
    - intros k q Hk He Hq. unfold en, st, sz in *. lia.
    - intros k Hk. right. unfold st. lia.
    - intros k Hk. rewrite (Ebkt k Hk). unfold en, st, sz. lia. }
  assert (Hcc : forall j, 0 <= j < arrN l -> aget 0 cc j = key (aget dflt ss0 j)).
  { intros j Hj. unfold arrN, n in Hj. unfold cc, ss0. rewrite !of_list_from_get, map_length.
    destruct (N.leb_spec 0 j); [|lia]. destruct (N.ltb_spec j (0 + N.of_nat (length l))); [|lia]. simpl.
    rewrite (nth_indep _ 0 (key dflt)) by (rewrite map_length; lia). apply map_nth. }
  destruct (outer_ok key l ks ND Hkeys bs bs_ok (S (length l)) (S (length l)) 0 (N.of_nat (length l) - last) ss0 cc bkt res
              ltac:(unfold arrN, n; lia) HI0 Hcc EO) as (i' & bkt' & Hlim & HI).
  pose proof (I_perm _ _ _ _ _ _ HI) as P. unfold n in P.
  split; [exact P|].
  (* every region is full *)
  assert (HL : arrN l = 0 \/ exists L, In L ks /\ sz key l L = last /\ sz key l L <> 0 /\ en key l ks L = arrN l /\
                                      forall k, In k ks -> k <> L -> sz key l k <> 0 -> en key l ks k <= st key l ks L).
  { destruct (lastnz_spec key l ks 0 ND) as [[Z _]|(L & HLk & HLs & HLn & HLe & HLo)].
    - left. unfold arrN, n. lia.
    - right. exists L. unfold en, st, sz, arrN, n. rewrite Elast.
      split; [exact HLk|]. split; [exact HLs|]. split; [exact HLn|]. split; [rewrite HLe; exact Htot|]. exact HLo. }
  pose proof (final_regions key l ks ND Hkeys i' res bkt' last HI Hlim HL) as Hreg.
  intros k Hk.
  destruct (full_region key (to_list dflt res (length l)) k (N.to_nat (start_in key l ks k))
                        (N.to_nat (start_in key l ks k + size key l k))) as [_ F].
  - lia.
  - rewrite to_list_length. pose proof (end_le_total key l ks k Hk). lia.
  - rewrite (cnt_perm key k _ _ P). unfold size. lia.
  - intros q Hq. replace q with (N.to_nat (N.of_nat q)) by lia.
    change (length l) with (n l). rewrite (g_nth l res (N.of_nat q)).
    + apply Hreg; auto. unfold en, st, sz. lia.
    + pose proof (end_le_total key l ks k Hk). unfold arrN, n. lia.
  - rewrite F. f_equal. lia.
Qed.


Local Close Scope N_scope.

Section Slices.
  Variable key : item -> N.
  Variable l p : list item.

  Lemma total_app : forall a b, total key l (a ++ b) = (total key l a + total key l b)%N.
  Proof. induction a as [|x a IH]; intros b; simpl; [lia|]. rewrite IH. lia. Qed.

  Lemma start_in_app : forall a b k, ~ In k a -> start_in key l (a ++ b) k = (total key l a + start_in key l b k)%N.
  Proof.
    induction a as [|x a IH]; intros b k H; simpl; [lia|].
    destruct (N.eqb_spec x k) as [E|E]; [subst; elim H; now left|]. rewrite IH; [lia|]. intros Z. apply H. now right.
  Qed.

  (** cutting the permuted array at the bucket sizes yields the buckets *)
  Lemma slices_buckets ks :
    NoDup ks -> Permutation p l ->
    (forall k, In k ks -> filter (fun x => N.eqb (key x) k) p =
                          firstn (N.to_nat (size key l k)) (skipn (N.to_nat (start_in key l ks k)) p)) ->
    forall suf pre, ks = pre ++ suf ->
      Forall2 (fun k b => Permutation (filter (fun x => N.eqb (key x) k) l) b) suf
              (slices (map (fun k => length (filter (fun x => N.eqb (key x) k) l)) suf) (skipn (N.to_nat (total key l pre)) p)).
  Proof.
    intros ND P F. induction suf as [|a r IH]; intros pre E; simpl; constructor.
    - assert (Ha : In a ks) by (rewrite E; apply in_or_app; right; now left).
      assert (Hna : ~ In a pre).
      { rewrite E in ND. apply NoDup_remove_2 in ND. intros Z. apply ND. apply in_or_app. now left. }
      specialize (F a Ha). rewrite E in F. rewrite (start_in_app pre (a :: r) a Hna) in F. simpl in F. rewrite N.eqb_refl in F.
      replace (N.to_nat (total key l pre + 0)) with (N.to_nat (total key l pre)) in F by lia.
      assert (Es : N.to_nat (size key l a) = length (filter (fun x => N.eqb (key x) a) l)) by (unfold size, cnt; lia).
      rewrite Es in F. rewrite <- F. apply filter_perm. now apply Permutation_sym.
    - rewrite skipn_skipn'.
      specialize (IH (pre ++ [a])). rewrite <- app_assoc in IH. specialize (IH E).
      rewrite total_app in IH. simpl in IH.
      replace (N.to_nat (total key l pre) + length (filter (fun x => N.eqb (key x) a) l))
        with (N.to_nat (total key l pre + (size key l a + 0))) by (unfold size, cnt; lia).
      exact IH.
  Qed.
End Slices.

Lemma keys256_nodup : NoDup keys256.
Proof. apply sorted_lt_NoDup, keys256_sorted. Qed.

Theorem in_place_ok : forall dep l bl, all_nulfree l -> buckets8 true dep l = Some bl -> BucketsOK dep l bl.
Proof.
  intros dep l bl HN H. unfold buckets8 in H. cbv zeta in H.
  destruct (ci_permute (ch dep) keys256 l) as [p|] eqn:EC; [|discriminate].
  assert (E : Some bl = Some (slices (map (@length _) (map (fun k => filter (fun x => N.eqb (ch dep x) k) l) keys256)) p))
    by (rewrite <- H; reflexivity).
  apply (f_equal (fun o => match o with Some x => x | None => bl end)) in E. cbv beta iota in E. rewrite E. clear E H.
  assert (Hkeys : forall x, In x l -> In (ch dep x) keys256).
  { intros x Hx. apply keys256_in. apply char_at_byte. unfold all_nulfree in HN. rewrite Forall_forall in HN. now apply HN. }
  destruct (ci_permute_ok (ch dep) keys256 l p keys256_nodup Hkeys EC) as [P F].
  unfold BucketsOK. rewrite map_map.
  apply (slices_buckets (ch dep) l p keys256 keys256_nodup P F keys256 [] eq_refl).
Qed.
