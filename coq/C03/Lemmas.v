(** C03 — shared lemmas: common prefixes, the character-iterator comparisons, concatenation of sorted groups. *)
From Coq Require Import List Bool Arith NArith Lia Sorting.Sorted Sorting.Permutation.
From TLXV Require Import C03.Model C03.Spec C03.SpecProofs.
Import ListNotations.

(** [p] is a prefix of the contents of [x]; a collection at depth [length p] *)
Definition pre (p : str) (x : item) : Prop := firstn (length p) (snd x) = p.
Definition Pre (p : str) (l : list item) : Prop := Forall (pre p) l.

Lemma pre_split p x : pre p x -> snd x = p ++ skipn (length p) (snd x).
Proof. intros H. rewrite <- H at 1. symmetry. apply firstn_skipn. Qed.

Lemma Pre_perm p l l' : Permutation l l' -> Pre p l -> Pre p l'.
Proof. intros P H. eapply Permutation_Forall; eauto. Qed.

Lemma Pre_filter p f l : Pre p l -> Pre p (filter f l).
Proof. unfold Pre. rewrite !Forall_forall. intros H x Hx. apply filter_In in Hx. apply H, Hx. Qed.

Lemma nulfree_perm l l' : Permutation l l' -> all_nulfree l -> all_nulfree l'.
Proof. intros P H. eapply Permutation_Forall; eauto. Qed.

Lemma nulfree_filter f l : all_nulfree l -> all_nulfree (filter f l).
Proof. unfold all_nulfree. rewrite !Forall_forall. intros H x Hx. apply filter_In in Hx. apply H, Hx. Qed.

(** * lex order / lcp under a common prefix *)
Lemma lex_leb_app p : forall a b, lex_leb (p ++ a) (p ++ b) = lex_leb a b.
Proof. induction p as [|c p IH]; intros a b; simpl; auto. rewrite N.ltb_irrefl, N.eqb_refl. apply IH. Qed.

Lemma lcp_len_app p : forall a b, lcp_len (p ++ a) (p ++ b) = length p + lcp_len a b.
Proof. induction p as [|c p IH]; intros a b; simpl; auto. rewrite N.eqb_refl. f_equal. apply IH. Qed.

Lemma char_at_app p s : char_at (p ++ s) (length p) = nth 0 s 0%N.
Proof. unfold char_at. rewrite app_nth2 by lia. now rewrite Nat.sub_diag. Qed.

Lemma ch_pre p x : pre p x -> ch (length p) x = nth 0 (skipn (length p) (snd x)) 0%N.
Proof. intros H. unfold ch. rewrite (pre_split p x H) at 1. apply char_at_app. Qed.

(** a string with prefix [p] is [p ++ rest] *)
Lemma pre_inv p x : pre p x -> exists r, snd x = p ++ r.
Proof. intros H. exists (skipn (length p) (snd x)). now apply pre_split. Qed.

Lemma ch_app p i r : ch (length p) (i, p ++ r) = nth 0 r 0%N.
Proof. unfold ch. simpl. apply char_at_app. Qed.

(** strings whose next character differs are ordered by it and share exactly the prefix *)
Lemma ch_lt_order p x y : pre p x -> pre p y -> (ch (length p) x < ch (length p) y)%N ->
  lex_leb (snd x) (snd y) = true /\ lcp_len (snd x) (snd y) = length p.
Proof.
  intros Hx Hy. destruct (pre_inv p x Hx) as [sx Ex]. destruct (pre_inv p y Hy) as [sy Ey].
  destruct x as [ix x0], y as [iy y0]. simpl in Ex, Ey. subst x0 y0. rewrite !ch_app. simpl snd.
  rewrite lex_leb_app, lcp_len_app.
  destruct sx as [|a sx], sy as [|b sy]; simpl; intros H; try lia.
  apply N.ltb_lt in H as H'. rewrite H'. assert (E : N.eqb a b = false) by (apply N.eqb_neq; lia). rewrite E. split; [reflexivity|lia].
Qed.

(** NUL-free string whose next character is 0 ends there *)
Lemma ch_zero_end p x : pre p x -> nulfree (snd x) -> ch (length p) x = 0%N -> snd x = p.
Proof.
  intros Hp Hn. destruct (pre_inv p x Hp) as [sx Ex]. destruct x as [ix x0]. simpl in Ex, Hn. subst x0.
  rewrite ch_app. simpl snd. destruct sx as [|a s]; simpl; intros H.
  - now rewrite app_nil_r.
  - subst a. unfold nulfree in Hn. apply Forall_app in Hn. destruct Hn as [_ Hn]. inversion Hn; subst. tauto.
Qed.

Lemma ch_nonzero_pre p x c : pre p x -> ch (length p) x = c -> c <> 0%N -> pre (p ++ [c]) x.
Proof.
  intros Hp. destruct (pre_inv p x Hp) as [sx Ex]. destruct x as [ix x0]. simpl in Ex. subst x0.
  rewrite ch_app. unfold pre. simpl snd. rewrite app_length. simpl length.
  destruct sx as [|a s]; simpl; intros H Hc; [congruence|]. subst a.
  rewrite firstn_app. rewrite firstn_all2 by lia. f_equal.
  replace (length p + 1 - length p) with 1 by lia. reflexivity.
Qed.

Lemma lex_leb_same s : lex_leb s s = true. Proof. apply lex_leb_refl. Qed.
Lemma lcp_len_same s : lcp_len s s = length s.
Proof. induction s as [|c s IH]; simpl; auto. now rewrite N.eqb_refl, IH. Qed.

(** * the is_equal loop followed by is_leq / is_less decides lex_leb; its step count is the lcp *)
Lemma skip_equal_spec a : forall b k s t, skip_equal a b = (k, (s, t)) ->
  k = lcp_len a b /\ is_leq s t = lex_leb a b /\ is_less s t = lex_leb a b.
Proof.
  induction a as [|x a IH]; intros b k s t H.
  - simpl in H. inversion H; subst. simpl. destruct t; auto.
  - destruct b as [|y b]; simpl in H.
    + inversion H; subst. simpl. auto.
    + destruct (N.eqb x y) eqn:E.
      * destruct (skip_equal a b) as [k' [s' t']] eqn:E'. inversion H; subst.
        destruct (IH b k' s t E') as (A & B & C). simpl. rewrite E. apply N.eqb_eq in E. subst y.
        rewrite N.ltb_irrefl. auto.
      * inversion H; subst. simpl. rewrite E. apply N.eqb_neq in E.
        destruct (N.ltb x y) eqn:L.
        -- apply N.ltb_lt in L. assert (L' : N.leb x y = true) by (apply N.leb_le; lia). now rewrite L'.
        -- apply N.ltb_ge in L. assert (L' : N.leb x y = false) by (apply N.leb_gt; lia). now rewrite L'.
Qed.

Lemma leq_from_spec p x y : pre p x -> pre p y -> leq_from (length p) (snd x) (snd y) = lex_leb (snd x) (snd y).
Proof.
  intros Hx Hy. destruct (pre_inv p x Hx) as [sx Ex]. destruct (pre_inv p y Hy) as [sy Ey]. rewrite Ex, Ey.
  unfold leq_from. rewrite !skipn_app, !Nat.sub_diag, !skipn_all. simpl.
  destruct (skip_equal sx sy) as [k [s t']] eqn:E.
  destruct (skip_equal_spec _ _ _ _ _ E) as (_ & B & _). rewrite B. now rewrite lex_leb_app.
Qed.

(** * concatenation of sorted groups *)
Lemma sorted_app A : forall B, StronglySorted item_le A -> StronglySorted item_le B ->
  (forall a b, In a A -> In b B -> item_le a b) -> StronglySorted item_le (A ++ B).
Proof.
  induction A as [|x A IH]; intros B SA SB H; simpl; auto.
  inversion SA as [|? ? SA' FA]; subst. constructor.
  - apply IH; auto. intros a b Ha Hb. apply H; [right|]; auto.
  - apply Forall_app. split; auto. rewrite Forall_forall. intros b Hb. apply H; [left|]; auto.
Qed.

Lemma adj_lcps_app A : forall B, A <> [] -> B <> [] ->
  adj_lcps (A ++ B) = adj_lcps A ++ lcp_len (snd (last A dflt)) (snd (hd dflt B)) :: adj_lcps B.
Proof.
  induction A as [|x A IH]; intros B HA HB; [congruence|].
  destruct A as [|y A'].
  - destruct B as [|b B']; [congruence|]. reflexivity.
  - change ((x :: y :: A') ++ B) with (x :: (y :: A') ++ B).
    change (adj_lcps (x :: (y :: A') ++ B)) with (lcp_len (snd x) (snd y) :: adj_lcps ((y :: A') ++ B)).
    rewrite IH by (auto; discriminate).
    change (adj_lcps (x :: y :: A')) with (lcp_len (snd x) (snd y) :: adj_lcps (y :: A')).
    reflexivity.
Qed.

(** a group of identical strings *)
Lemma all_same_sorted p l : Forall (fun x => snd x = p) l -> StronglySorted item_le l /\ adj_lcps l = repeat (length p) (length l - 1).
Proof.
  induction l as [|x l IH]; intros H; [split; [constructor|reflexivity]|].
  inversion H as [|? ? Hx Hl]; subst. destruct (IH Hl) as [S L]. split.
  - constructor; auto. rewrite Forall_forall in *. intros y Hy. unfold item_le. rewrite (Hl y Hy). apply lex_leb_refl.
  - destruct l as [|y l']; [reflexivity|].
    change (adj_lcps (x :: y :: l')) with (lcp_len (snd x) (snd y) :: adj_lcps (y :: l')).
    rewrite L. inversion Hl; subst. rewrite H2. rewrite lcp_len_same. simpl. now rewrite Nat.sub_0_r.
Qed.

(** * small list facts *)
Lemma upd_length {A} (l : list A) : forall i v, length (upd l i v) = length l.
Proof. induction l as [|x l IH]; intros [|i] v; simpl; auto. Qed.

Lemma upd_nth_same {A} (l : list A) : forall i v d, i < length l -> nth i (upd l i v) d = v.
Proof. induction l as [|x l IH]; intros [|i] v d H; simpl in *; try lia; auto. apply IH. lia. Qed.

Lemma upd_nth_other {A} (l : list A) : forall i j v d, i <> j -> nth j (upd l i v) d = nth j l d.
Proof. induction l as [|x l IH]; intros [|i] [|j] v d H; simpl; auto; try lia. Qed.

Lemma fill_from_length c v : forall l, length (fill_from c v l) = length l.
Proof. induction c as [|c IH]; intros [|x l]; simpl; auto. Qed.

Lemma fill_range_length lo hi v l : length (fill_range lo hi v l) = length l.
Proof. unfold fill_range. rewrite app_length, fill_from_length, <- app_length, firstn_skipn. reflexivity. Qed.

Lemma fill_from_nth c v : forall l i, nth i (fill_from c v l) 0 = if (i <? c) && (i <? length l) then v else nth i l 0.
Proof.
  induction c as [|c IH]; intros l i; simpl.
  - reflexivity.
  - destruct l as [|x l]; simpl.
    + destruct i; simpl; now rewrite ?andb_false_r.
    + destruct i as [|i]; [reflexivity|]. rewrite IH. reflexivity.
Qed.

Lemma nth_skipn' {A} (l : list A) : forall n i d, nth i (skipn n l) d = nth (n + i) l d.
Proof. induction l as [|x l IH]; intros [|n] i d; simpl; auto. destruct i; reflexivity. Qed.

Lemma fill_range_nth lo hi v l i :
  nth i (fill_range lo hi v l) 0 = if (lo <=? i) && (i <? hi) && (i <? length l) then v else nth i l 0.
Proof.
  unfold fill_range. destruct (Nat.lt_ge_cases i lo) as [H|H].
  - assert (E : (lo <=? i) = false) by (apply Nat.leb_gt; lia). rewrite E. simpl.
    destruct (Nat.lt_ge_cases i (length l)) as [H2|H2].
    + rewrite app_nth1 by (rewrite firstn_length; lia). clear -H. revert i lo H. induction l as [|x l IH]; intros i lo H; destruct lo; simpl; try lia; destruct i; auto. apply IH. lia.
    + rewrite !nth_overflow; auto. rewrite app_length, fill_from_length, <- app_length, firstn_skipn. lia.
  - assert (E : (lo <=? i) = true) by (apply Nat.leb_le; lia). rewrite E. simpl.
    destruct (Nat.lt_ge_cases lo (length l)) as [H2|H2].
    + rewrite app_nth2 by (rewrite firstn_length; lia). rewrite firstn_length, Nat.min_l by lia.
      rewrite fill_from_nth. rewrite skipn_length.
      replace (i - lo <? hi - lo) with (i <? hi) by (destruct (Nat.ltb_spec i hi), (Nat.ltb_spec (i - lo) (hi - lo)); lia).
      replace (i - lo <? length l - lo) with (i <? length l) by (destruct (Nat.ltb_spec i (length l)), (Nat.ltb_spec (i - lo) (length l - lo)); lia).
      destruct ((i <? hi) && (i <? length l)); auto.
      rewrite nth_skipn'. f_equal. lia.
    + assert (E2 : (i <? length l) = false) by (apply Nat.ltb_ge; lia). rewrite E2, andb_false_r.
      rewrite !nth_overflow; auto; try lia. rewrite app_length, fill_from_length, <- app_length, firstn_skipn. lia.
Qed.
