(** C03 — executable model of tlx's sequential string sorters
    (tlx/sort/strings.hpp, strings/{insertion_sort,multikey_quicksort,radix_sort}.hpp).

    Strings are NUL-free byte lists, a collection is a list of (object id, contents);
    [char_at s d] is get_uint8 (0 past the end).  Arrays are lists; [strptr.sub(off,n)] (a pointer-offset
    view of the string array and of lcp_ + off) is the slice [firstn n (skipn off _)], results of disjoint
    views are concatenated.  The explicit radix stacks are recursion on [fuel]; [s] is radixstack.size().
    size_t arithmetic on the memory limit is done modulo 2^64 exactly as in the code. *)
From Coq Require Import List Bool Arith NArith Lia FMapPositive.
From TLXV Require Import gen.Sizes_C03_gen.
Import ListNotations.

Definition str := list N.
Definition item := (N * str)%type.
Definition dflt : item := (0%N, []).
Definition char_at (s : str) (d : nat) : N := nth d s 0%N.
Definition ch (d : nat) (x : item) : N := char_at (snd x) d.

(** sizeof constants of one instantiation (string set x with/without LCP), see gen/Sizes_C03_gen.v *)
Record sizes := mkSizes { sz_sizet : N; sz_set : N; sz_str : N; sz_iter : N; sz_ce0 : N; sz_ce2 : N; sz_ce3 : N;
                          sz_ci2 : N; sz_ci3 : N; sz_u8 : N; sz_u16 : N }.
Definition sizes_of_list (l : list N) : option sizes :=
  match l with
  | [a; b; c; d; e; f; g; h; i; j; k] => Some (mkSizes a b c d e f g h i j k)
  | _ => None
  end.
Fixpoint lookup_sizes (t : list (N * bool * list N)) (rep : N) (lcp : bool) : option sizes :=
  match t with
  | [] => None
  | ((r, b), l) :: t' => if (N.eqb r rep && Bool.eqb b lcp)%bool then sizes_of_list l else lookup_sizes t' rep lcp
  end.

Definition two64 : N := 18446744073709551616%N.
Definition w64 (x : N) : N := (x mod two64)%N.
Definition w64sub (a b : N) : N := ((a mod two64 + two64 - b mod two64) mod two64)%N.
Definition mem_short (mem need : N) : bool := negb (N.eqb mem 0) && N.ltb mem need.

Definition res := option (list item * list nat).
Definition nN {A} (l : list A) : N := N.of_nat (length l).

Fixpoint upd {A} (l : list A) (i : nat) (v : A) : list A :=
  match l with
  | [] => []
  | x :: t => match i with 0 => v :: t | S i' => x :: upd t i' v end
  end.
Fixpoint fill_from (cnt v : nat) (l : list nat) : list nat :=
  match cnt with
  | 0 => l
  | S c => match l with [] => [] | _ :: t => v :: fill_from c v t end
  end.
(** for (i = lo; i < hi; ++i) set_lcp(i, v) *)
Definition fill_range (lo hi v : nat) (l : list nat) : list nat := firstn lo l ++ fill_from (hi - lo) v (skipn lo l).

(** * Character-iterator comparisons (string_set.hpp is_equal / is_leq / is_less) *)
(** the [while (is_equal(a, ai, b, bi)) ++ai, ++bi] loop: number of steps and the two remaining suffixes *)
Fixpoint skip_equal (a b : str) : nat * (str * str) :=
  match a, b with
  | x :: a', y :: b' => if N.eqb x y then let '(k, r) := skip_equal a' b' in (S k, r) else (0, (a, b))
  | _, _ => (0, (a, b))
  end.
Definition is_leq (a b : str) : bool :=
  match a with [] => true | x :: _ => match b with [] => false | y :: _ => N.leb x y end end.
Definition is_less (a b : str) : bool :=
  match a with [] => true | x :: _ => match b with [] => false | y :: _ => N.ltb x y end end.

(** * insertion_sort.hpp, variant without LCP *)
Definition leq_from (d : nat) (a b : str) : bool :=
  let '(_, (s, t)) := skip_equal (skipn d a) (skipn d b) in is_leq s t.
(** inner while loop; [rp] = ss[j-1], ss[j-2], ..., ss[0] *)
Fixpoint ins_inner (d : nat) (tmp : item) (rp : list item) : list item :=
  match rp with
  | [] => [tmp]
  | x :: r => if leq_from d (snd x) (snd tmp) then tmp :: rp else x :: ins_inner d tmp r
  end.
Definition insertion_sort (d : nat) (l : list item) : list item :=
  match l with
  | [] => []
  | x :: r => rev (fold_left (fun acc t => ins_inner d t acc) r [x])
  end.

(** * insertion_sort.hpp, LCP variant.  The code keeps ss[k] and lcp[k+1] (= LCP of ss[k] with its right
    neighbour; [depth] while there is none) in two arrays; the model keeps the pair in one cell.
    [rp] = cells j-1, ..., 0.  The specialised last round only suppresses the write of lcp[n]. *)
Fixpoint lins (new : item) (new_lcp : nat) (rp : list (item * nat)) : list (item * nat) :=
  match rp with
  | [] => [(new, new_lcp)]
  | (cur, cur_lcp) :: r =>
      if cur_lcp <? new_lcp then (new, new_lcp) :: rp                        (* CASE 1 *)
      else if cur_lcp =? new_lcp then                                        (* CASE 2 *)
        let '(k, (c1, c2)) := skip_equal (skipn new_lcp (snd new)) (skipn new_lcp (snd cur)) in
        if negb (is_less c1 c2) then (new, new_lcp) :: (cur, new_lcp + k) :: r
        else (cur, cur_lcp) :: lins new (new_lcp + k) r
      else (cur, cur_lcp) :: lins new new_lcp r                              (* CASE 3 *)
  end.
Definition lcp_insertion_sort (d : nat) (l : list item) (lcp : list nat) : list item * list nat :=
  match l with
  | [] | [_] => (l, lcp)
  | _ => let ps := rev (fold_left (fun acc t => lins t d acc) l []) in
         (map fst ps, firstn 1 lcp ++ removelast (map snd ps))
  end.

(** * In-place permutation of RadixStep_CI2 / RadixStep_CI3 (literal, arrays = finite maps) *)
Module PM := PositiveMap.
Definition aget {A} (d : A) (a : PM.t A) (i : N) : A := match PM.find (N.succ_pos i) a with Some v => v | None => d end.
Definition aset {A} (a : PM.t A) (i : N) (v : A) : PM.t A := PM.add (N.succ_pos i) v a.
Fixpoint of_list_from {A} (i : N) (l : list A) (a : PM.t A) : PM.t A :=
  match l with [] => a | x :: r => of_list_from (N.succ i) r (aset a i x) end.
Fixpoint to_list_from {A} (d : A) (a : PM.t A) (cnt : nat) (i : N) : list A :=
  match cnt with 0 => [] | S c => aget d a i :: to_list_from d a c (N.succ i) end.
Definition to_list {A} (d : A) (a : PM.t A) (n : nat) : list A := to_list_from d a n 0%N.

Section Permute.
  Variable key : item -> N.
  (** inclusive prefix sum and last non-empty bucket size *)
  Fixpoint prefix_sum (ks : list N) (acc last : N) (bs bkt : PM.t N) : PM.t N * N :=
    match ks with
    | [] => (bkt, last)
    | k :: r => let b := aget 0%N bs k in let acc' := (acc + b)%N in
                prefix_sum r acc' (if N.eqb b 0 then last else b) bs (aset bkt k acc')
    end.
  (** while ((j = --bkt[permch]) > i) { swap(perm, ss[j]); swap(permch, cc[j]); } *)
  Fixpoint perm_inner (fuel : nat) (i : N) (perm : item) (permch : N) (ss : PM.t item) (cc bkt : PM.t N)
    : option (item * N * PM.t item * PM.t N * PM.t N) :=
    match fuel with
    | 0 => None
    | S f =>
        let b := aget 0%N bkt permch in
        if N.eqb b 0 then None else
        let j := N.pred b in
        let bkt' := aset bkt permch j in
        if N.ltb i j then perm_inner f i (aget dflt ss j) (aget 0%N cc j) (aset ss j perm) (aset cc j permch) bkt'
        else Some (perm, permch, ss, cc, bkt')
    end.
  Fixpoint perm_outer (fuel fuel_in : nat) (i limit : N) (bs : PM.t N) (ss : PM.t item) (cc bkt : PM.t N) : option (PM.t item) :=
    if N.ltb i limit then
      match fuel with
      | 0 => None
      | S f =>
          match perm_inner fuel_in i (aget dflt ss i) (aget 0%N cc i) ss cc bkt with
          | None => None
          | Some (perm, permch, ss', cc', bkt') =>
              perm_outer f fuel_in (i + aget 0%N bs permch)%N limit bs (aset ss' i perm) cc' bkt'
          end
      end
    else Some ss.
  Definition ci_permute (ks : list N) (l : list item) : option (list item) :=
    let n := length l in
    let cc := of_list_from 0%N (map key l) (PM.empty N) in
    let bs := fold_left (fun a x => aset a (key x) (N.succ (aget 0%N a (key x)))) l (PM.empty N) in
    let '(bkt, last) := prefix_sum ks 0%N 0%N bs (PM.empty N) in
    match perm_outer (S n) (S n) 0%N (N.of_nat n - last)%N bs (of_list_from 0%N l (PM.empty item)) cc bkt with
    | None => None
    | Some ss => Some (to_list dflt ss n)
    end.
End Permute.

Definition keys256 : list N := map N.of_nat (seq 0 256).
Definition keys255 : list N := map N.of_nat (seq 1 255).
Definition keys65536 : list N := flat_map (fun hi => map (fun lo => (hi * 256 + lo)%N) keys256) keys256.

(** cut [l] into consecutive pieces of the given lengths *)
Fixpoint slices {A} (ns : list nat) (l : list A) : list (list A) :=
  match ns with [] => [] | n :: r => firstn n l :: slices r (skipn n l) end.

(** * LCPs at bucket boundaries *)
(** RadixStep_CE0/CE2/CI2: [bkt] runs over the ends of the non-empty buckets; [bs] = bkt_size[i..255].
    (with fixes/C03/01: the loop is left when no non-empty bucket remains) *)
Fixpoint bnd_loop (dep size bkt : nat) (bs : list nat) (lcp : list nat) : list nat :=
  match bs with
  | [] => lcp
  | b :: r => if b =? 0 then bnd_loop dep size bkt r lcp
              else let bkt' := bkt + b in
                   if size <=? bkt' then lcp else bnd_loop dep size bkt' r (upd lcp bkt' dep)
  end.
(** as shipped (704fd0b): after skipping the trailing empty buckets the loop reads bkt_size[256], one past the
    array; [g] is whatever that word contains.  First component: an out-of-bounds read happened. *)
Fixpoint bnd_loop_shipped (dep size bkt : nat) (bs : list nat) (g : nat) (lcp : list nat) : bool * list nat :=
  match bs with
  | [] => (true, let bkt' := bkt + g in if size <=? bkt' then lcp else upd lcp bkt' dep)
  | b :: r => if b =? 0 then bnd_loop_shipped dep size bkt r g lcp
              else let bkt' := bkt + b in
                   if size <=? bkt' then (false, lcp) else bnd_loop_shipped dep size bkt' r g (upd lcp bkt' dep)
  end.
Definition lcp_step8 (dep : nat) (bs : list nat) (lcp : list nat) : list nat :=
  let size := list_sum bs in
  let b0 := hd 0 bs in
  let lcp1 := fill_range 1 b0 dep lcp in
  let lcp2 := if (0 <? b0) && (b0 <? size) then upd lcp1 b0 dep else lcp1 in
  bnd_loop dep size b0 (tl bs) lcp2.
Definition lcp_step8_shipped (dep : nat) (bs : list nat) (g : nat) (lcp : list nat) : bool * list nat :=
  let size := list_sum bs in
  let b0 := hd 0 bs in
  let lcp1 := fill_range 1 b0 dep lcp in
  let lcp2 := if (0 <? b0) && (b0 <? size) then upd lcp1 b0 dep else lcp1 in
  bnd_loop_shipped dep size b0 (tl bs) g lcp2.

(** RadixStep_CE3/CI3: (high byte, size) of the non-empty buckets in index order; the first/second loop with
    partial_equal = (first >> 8 == second >> 8); the list handed to [bnd16] starts at position [bkt] *)
Definition ne_list (bss : list (list nat)) : list (N * nat) :=
  flat_map (fun p => map (fun b => (fst p, b)) (filter (fun b => negb (b =? 0)) (snd p))) (combine keys256 bss).
Fixpoint bnd16 (dep : nat) (first_hi : N) (ne : list (N * nat)) (lcp : list nat) : list nat :=
  match ne with
  | [] => lcp
  | (hi, sz) :: r => upd (firstn sz lcp) 0 (dep + (if N.eqb first_hi hi then 1 else 0)) ++ bnd16 dep hi r (skipn sz lcp)
  end.
Definition lcp_step16 (dep : nat) (bss : list (list nat)) (lcp : list nat) : list nat :=
  let b00 := hd 0 (hd [] bss) in
  let lcp1 := fill_range 1 b00 dep lcp in
  match ne_list bss with
  | [] => lcp1
  | (h0, s0) :: r => firstn s0 lcp1 ++ bnd16 dep h0 r (skipn s0 lcp1)
  end.

(** apply [f] to consecutive buckets, each with its own view of the lcp array *)
Section MapBuckets.
  Context {B : Type} (len : B -> nat) (f : N -> B -> list nat -> res).
  Fixpoint map_buckets (ks : list N) (bl : list B) (lcp : list nat) : res :=
    match ks, bl with
    | k :: ks', b :: bl' =>
        let n := len b in
        match f k b (firstn n lcp) with
        | None => None
        | Some (o, lc) =>
            match map_buckets ks' bl' (skipn n lcp) with
            | None => None
            | Some (o2, lc2) => Some (o ++ o2, lc ++ lc2)
            end
        end
    | _, _ => Some ([], lcp)
    end.
End MapBuckets.

Definition swap_ends {A} (r : nat) (X : list A) : list A :=
  skipn (length X - r) X ++ firstn (length X - 2 * r) (skipn r X) ++ firstn r X.

Section Model.
  Variable sz : sizes.
  Variable wl : bool.         (* StringPtr::with_lcp *)

  Definition insertion (d : nat) (l : list item) (lcp : list nat) : list item * list nat :=
    if wl then lcp_insertion_sort d l lcp else (insertion_sort d l, lcp).

  (** * multikey_quicksort.hpp *)
  Definition med3 (d : nat) (a : list item) (ia ib ic : nat) : nat :=
    let va := ch d (nth ia a dflt) in
    let vb := ch d (nth ib a dflt) in
    if N.eqb va vb then ia else
    let vc := ch d (nth ic a dflt) in
    if N.eqb vc va || N.eqb vc vb then ic else
    if N.ltb va vb then (if N.ltb vb vc then ib else if N.ltb va vc then ic else ia)
    else (if N.ltb vc vb then ib else if N.ltb va vc then ia else ic).

  (** The array during partitioning is  pivot :: EQL ++ LT ++ U ++ GT ++ EQR  with
      pa = 1+|EQL|, pb = pa+|LT|, pc = pb+|U|-1, pd = pc+|GT|. *)
  (** while (pb <= pc && (r = ch[pb] - pivot) <= 0) { if (r == 0) swap(a[pa++], a[pb]); pb++; } *)
  Fixpoint part_left (pv : N) (d : nat) (EQL LT U : list item) : list item * list item * list item :=
    match U with
    | [] => (EQL, LT, U)
    | u :: U' =>
        if N.leb (ch d u) pv then
          if N.eqb (ch d u) pv then
            match LT with
            | [] => part_left pv d (EQL ++ [u]) [] U'
            | h :: t => part_left pv d (EQL ++ [u]) (t ++ [h]) U'
            end
          else part_left pv d EQL (LT ++ [u]) U'
        else (EQL, LT, U)
    end.
  (** while (pb <= pc && (r = ch[pc] - pivot) >= 0) { if (r == 0) swap(a[pc], a[pd--]); pc--; }   ([Ur] = rev U) *)
  Fixpoint part_right (pv : N) (d : nat) (GT EQR Ur : list item) : list item * list item * list item :=
    match Ur with
    | [] => (GT, EQR, Ur)
    | u :: Ur' =>
        if N.leb pv (ch d u) then
          if N.eqb (ch d u) pv then
            match rev GT with
            | [] => part_right pv d [] (u :: EQR) Ur'
            | z :: t => part_right pv d (z :: rev t) (u :: EQR) Ur'
            end
          else part_right pv d (u :: GT) EQR Ur'
        else (GT, EQR, Ur)
    end.
  (** for (;;) { left loop; right loop; if (pb > pc) break; swap(a[pb++], a[pc--]); } *)
  Fixpoint part_loop (fuel : nat) (pv : N) (d : nat) (EQL LT U GT EQR : list item)
    : option (list item * list item * list item * list item) :=
    match fuel with
    | 0 => None
    | S f =>
        let '(EQL1, LT1, U1) := part_left pv d EQL LT U in
        let '(GT1, EQR1, Ur1) := part_right pv d GT EQR (rev U1) in
        match Ur1 with
        | [] => Some (EQL1, LT1, GT1, EQR1)
        | z :: Ur' =>
            match rev Ur' with
            | [] => None          (* a single element that is both > and < pivot: unreachable *)
            | h :: mid => part_loop f pv d EQL1 (LT1 ++ [z]) mid (h :: GT1) EQR1
            end
        end
    end.

  Definition mkqs_use : N := (mkqs_use_sizet * sz_sizet sz + sz_set sz + mkqs_use_iter * sz_iter sz)%N.

  Definition swap_idx (a : list item) (i j : nat) : list item :=
    upd (upd a i (nth j a dflt)) j (nth i a dflt).

  Fixpoint mkqs (fuel : nat) (d : nat) (mem : N) (l : list item) (lcp : list nat) {struct fuel} : res :=
    match fuel with
    | 0 => None
    | S f =>
      let n := length l in
      if (N.ltb (N.of_nat n) mkqs_threshold || mem_short mem (w64 (mkqs_use + 1)))%bool then Some (insertion d l lcp)
      else
        let pl0 := 0 in let pm0 := n / 2 in let pn0 := n - 1 in
        let '(pl, pm, pn) :=
          if N.ltb mkqs_med9_threshold (N.of_nat n) then
            let d8 := n / 8 in
            (med3 d l pl0 (pl0 + d8) (pl0 + 2 * d8), med3 d l (pm0 - d8) pm0 (pm0 + d8), med3 d l (pn0 - 2 * d8) (pn0 - d8) pn0)
          else (pl0, pm0, pn0) in
        let pm' := med3 d l pl pm pn in
        let a := swap_idx l 0 pm' in
        let piv := hd dflt a in
        let pv := ch d piv in
        match part_loop (S n) pv d [] [] (tl a) [] [] with
        | None => None
        | Some (EQL, LT, GT, EQR) =>
            let e := S (length EQL) in let lt := length LT in let g := length GT in let q := length EQR in
            let X := swap_ends (Nat.min e lt) ((piv :: EQL) ++ LT) in
            let Y := swap_ends (Nat.min g q) (GT ++ EQR) in
            let less := firstn lt X in
            let eq := skipn lt X ++ firstn q Y in
            let gt := skipn q Y in
            let m := e + q in
            let mem' := w64sub mem mkqs_use in
            let lcp1 := if wl && N.eqb pv 0 then fill_range (S (Nat.min e lt)) (n - Nat.min g q) d lcp else lcp in
            let lcp2 := if wl && (0 <? lt) then upd lcp1 lt d else lcp1 in
            let A := firstn lt lcp2 in let B := firstn m (skipn lt lcp2) in let C := skipn (lt + m) lcp2 in
            match (if 1 <? lt then mkqs f d mem' less A else Some (less, A)) with
            | None => None
            | Some (o1, A') =>
                match (if negb (N.eqb (ch d (hd dflt eq)) 0) then mkqs f (S d) mem' eq B else Some (eq, B)) with
                | None => None
                | Some (o2, B') =>
                    let C1 := if wl && (0 <? g) then upd C 0 d else C in
                    match (if 1 <? g then mkqs f d mem' gt C1 else Some (gt, C1)) with
                    | None => None
                    | Some (o3, C') => Some (o1 ++ o2 ++ o3, A' ++ B' ++ C')
                    end
                end
            end
        end
    end.

  (** * radix_sort.hpp *)
  Definition buckets8 (ip : bool) (dep : nat) (l : list item) : option (list (list item)) :=
    let bl := map (fun k => filter (fun x => N.eqb (ch dep x) k) l) keys256 in
    if ip then
      match ci_permute (ch dep) keys256 l with
      | None => None
      | Some p => Some (slices (map (@length _) bl) p)
      end
    else Some bl.

  Definition key16 (dep : nat) (x : item) : N := (ch dep x * 256 + ch (S dep) x)%N.
  Definition buckets16 (ip : bool) (dep : nat) (l : list item) : option (list (list (list item))) :=
    let bll := map (fun hi => let g := filter (fun x => N.eqb (ch dep x) hi) l in
                              map (fun lo => filter (fun x => N.eqb (ch (S dep) x) lo) g) keys256) keys256 in
    if ip then
      match ci_permute (key16 dep) keys65536 l with
      | None => None
      | Some p =>
          let gs := slices (map (fun bl => length (concat bl)) bll) p in
          Some (map (fun gb => slices (map (@length _) (snd gb)) (fst gb)) (combine gs bll))
      end
    else Some bll.

  (** one RadixStep_CE0/CE2 ([ip = false]) or RadixStep_CI2 ([ip = true]) and the processing of its buckets by
      the enclosing loop; [s] = radixstack.size() while this step is on top, [dep] = its depth *)
  Fixpoint r8_step (fuel : nat) (ip : bool) (szstep mem : N) (s dep : nat) (l : list item) (lcp : list nat) {struct fuel} : res :=
    match fuel with
    | 0 => None
    | S f =>
        match buckets8 ip dep l with
        | None => None
        | Some bl =>
            let lcp1 := if wl then lcp_step8 dep (map (@length _) bl) lcp else lcp in
            map_buckets (@length _)
              (fun k b lc =>
                 let m := nN b in
                 if N.eqb k 0 then Some (b, lc)                                   (* bucket 0: finished strings *)
                 else if (if ip then N.leb m 1 else N.eqb m 0) then Some (b, lc)
                 else if N.ltb m inssort_threshold then Some (insertion (S dep) b lc)
                 else if mem_short mem (w64 (szstep * N.of_nat (S s)))
                      then mkqs f (S dep) (w64sub mem (w64 (szstep * N.of_nat s))) b lc
                 else r8_step f ip szstep mem (S s) (S dep) b lc)
              keys256 bl lcp1
        end
    end.

  (** one RadixStep_CE3 / RadixStep_CI3 and the processing of its 65536 buckets (index = hi * 256 + lo) *)
  Fixpoint r16_step (fuel : nat) (ip : bool) (mem : N) (s dep : nat) (l : list item) (lcp : list nat) {struct fuel} : res :=
    match fuel with
    | 0 => None
    | S f =>
        match buckets16 ip dep l with
        | None => None
        | Some bll =>
            let sz16 := if ip then sz_ci3 sz else sz_ce3 sz in
            let sz8 := if ip then sz_ci2 sz else sz_ce2 sz in
            let lcp1 := if wl then lcp_step16 dep (map (map (@length _)) bll) lcp else lcp in
            map_buckets (fun bl => length (concat bl))
              (fun hi bl lc0 =>
                 map_buckets (@length _)
                   (fun lo b lc =>
                      let m := nN b in
                      if N.eqb hi 0 && N.eqb lo 0 then Some (b, lc)               (* bucket 0: finished strings *)
                      else if (if ip then N.leb m 1 else N.eqb m 0) then Some (b, lc)
                      else if N.eqb lo 0                                             (* (idx & 0xFF) == 0: zero-termination *)
                           then Some (b, if wl then fill_range 1 (length b) (S dep) lc else lc)
                      else if N.ltb m inssort_threshold then Some (insertion (S (S dep)) b lc)
                      else if N.ltb m radix16
                           then r8_step f ip sz8 (w64sub mem (w64 (sz16 * N.of_nat s))) 1 (S (S dep)) b lc
                      else if mem_short mem (w64 (sz16 * N.of_nat (S s)))
                           then mkqs f (S (S dep)) (w64sub mem (w64 (sz16 * N.of_nat s))) b lc
                      else r16_step f ip mem (S s) (S (S dep)) b lc)
                   keys256 bl lc0)
              keys256 bll lcp1
        end
    end.

  Definition use_base (l : list item) : N := (2 * sz_sizet sz + sz_set sz)%N.

  Definition radixsort_CE0 (fuel : nat) (mem : N) (d : nat) (l : list item) (lcp : list nat) : res :=
    if N.ltb (nN l) inssort_threshold then Some (insertion d l lcp) else
    let use := w64 (use_base l + nN l * sz_str sz) in
    if mem_short mem (w64 (use + slack_ce0 * sz_ce0 sz + 1)) then mkqs fuel d mem l lcp
    else r8_step fuel false (sz_ce0 sz) (w64sub mem use) 1 d l lcp.

  Definition radixsort_CI2 (fuel : nat) (mem : N) (d : nat) (l : list item) (lcp : list nat) : res :=
    if N.ltb (nN l) inssort_threshold then Some (insertion d l lcp) else
    let use := w64 (use_base l + nN l * sz_u8 sz) in
    if mem_short mem (w64 (use + slack_ci2 * sz_ci2 sz + 1)) then mkqs fuel d mem l lcp
    else r8_step fuel true (sz_ci2 sz) (w64sub mem use) 1 d l lcp.

  Definition radixsort_CI3 (fuel : nat) (mem : N) (d : nat) (l : list item) (lcp : list nat) : res :=
    if N.ltb (nN l) inssort_threshold then Some (insertion d l lcp) else
    if N.ltb (nN l) radix16 then radixsort_CI2 fuel mem d l lcp else
    let use := w64 (use_base l + nN l * sz_u16 sz) in
    if mem_short mem (w64 (use + slack_ci3 * sz_ci3 sz + 1)) then radixsort_CI2 fuel mem d l lcp
    else r16_step fuel true (w64sub mem use) 1 d l lcp.

  Definition radixsort_CE2 (fuel : nat) (mem : N) (d : nat) (l : list item) (lcp : list nat) : res :=
    if N.ltb (nN l) inssort_threshold then Some (insertion d l lcp) else
    let use := w64 (use_base l + nN l * sz_u8 sz + nN l * sz_str sz) in
    if mem_short mem (w64 (use + slack_ce2 * sz_ce2 sz + 1)) then radixsort_CI3 fuel mem d l lcp
    else r8_step fuel false (sz_ce2 sz) (w64sub mem use) 1 d l lcp.

  Definition radixsort_CE3 (fuel : nat) (mem : N) (d : nat) (l : list item) (lcp : list nat) : res :=
    if N.ltb (nN l) inssort_threshold then Some (insertion d l lcp) else
    if N.ltb (nN l) radix16 then radixsort_CE2 fuel mem d l lcp else
    let use := w64 (use_base l + nN l * sz_u16 sz + nN l * sz_str sz) in
    if mem_short mem (w64 (use + slack_ce3 * sz_ce3 sz + 1)) then radixsort_CE2 fuel mem d l lcp
    else r16_step fuel false (w64sub mem use) 1 d l lcp.

  (** tlx::sort_strings / tlx::sort_strings_lcp (strings.hpp): radixsort_CE3 at depth 0 *)
  Definition sort_strings (fuel : nat) (mem : N) (l : list item) (lcp : list nat) : res :=
    radixsort_CE3 fuel mem 0 l lcp.
End Model.

(** entry point for the extracted driver: algorithm 0 = sort_strings, 1 = CE0, 2 = CE2, 3 = CE3, 4 = CI2, 5 = CI3,
    6 = multikey_quicksort, 7 = insertion_sort; [depth] > 0 only for the detail sorters *)
Definition run_algo (algo rep : N) (wl : bool) (fuel : nat) (mem : N) (d : nat) (l : list item) (lcp : list nat) : res :=
  match lookup_sizes sizes_table rep wl with
  | None => None
  | Some sz =>
      match algo with
      | 0%N => sort_strings sz wl fuel mem l lcp
      | 1%N => radixsort_CE0 sz wl fuel mem d l lcp
      | 2%N => radixsort_CE2 sz wl fuel mem d l lcp
      | 3%N => radixsort_CE3 sz wl fuel mem d l lcp
      | 4%N => radixsort_CI2 sz wl fuel mem d l lcp
      | 5%N => radixsort_CI3 sz wl fuel mem d l lcp
      | 6%N => mkqs sz wl fuel d mem l lcp
      | 7%N => Some (insertion wl d l lcp)
      | _ => None
      end
  end.
