(** C03 — the dispatch chain radixsort_CE3 -> CE2 -> CI3 -> CI2 -> multikey_quicksort -> insertion_sort:
    whatever the memory limit selects, the selected sorter meets the contract. *)
From Coq Require Import List Bool Arith NArith Lia Sorting.Sorted Sorting.Permutation.
From TLXV Require Import gen.Sizes_C03_gen C03.Model C03.Spec C03.SpecProofs C03.Lemmas C03.Sorters C03.LcpInsertion C03.Radix8 C03.Mkqs C03.Radix16 C03.InPlace C03.InPlace16.
Import ListNotations.

(** out-of-place steps need no assumption at all *)
Lemma no_ip {T : Prop} : false = true -> T. Proof. discriminate. Qed.

Section OutOfPlace.
  Variable sz : sizes.
  Variable wl : bool.
  Definition r8_ce_ok := r8_step_ok sz wl (insertion_ok wl) (mkqs_ok sz wl) false no_ip.
  Definition r16_ce_ok := r16_step_ok sz wl (mkqs_ok sz wl) false no_ip no_ip.

  Theorem radixsort_CE0_ok fuel mem : SorterOK wl (fun d => radixsort_CE0 sz wl fuel mem d).
  Proof.
    intros p l lcp out lcp' HP HN HL H. unfold radixsort_CE0 in H.
    destruct (N.ltb (nN l) inssort_threshold); [eapply (insertion_ok wl); eauto|].
    destruct (mem_short mem _); [eapply (mkqs_ok sz wl fuel mem); eauto|eapply r8_ce_ok; eauto].
  Qed.

  (** memory limit 0 = "no limit" (the default argument): only out-of-place radix steps, multikey quicksort and
      insertion sort can be reached -- no assumption left *)
  Theorem radixsort_CE3_unlimited_ok fuel : SorterOK wl (fun d => radixsort_CE3 sz wl fuel 0 d).
  Proof.
    intros p l lcp out lcp' HP HN HL H. unfold radixsort_CE3, radixsort_CE2 in H.
    destruct (N.ltb (nN l) inssort_threshold); [eapply (insertion_ok wl); eauto|].
    change (mem_short 0 ?x) with false in H. cbv iota in H.
    destruct (N.ltb (nN l) radix16).
    - change (mem_short 0 ?x) with false in H. cbv iota in H. eapply r8_ce_ok; eauto.
    - eapply r16_ce_ok; eauto.
  Qed.
End OutOfPlace.

Section Dispatch.
  Variable sz : sizes.
  Variable wl : bool.
  Let ip_ok := in_place_ok.
  Let ip16_ok := in_place16_ok.

  Let ins_ok := insertion_ok wl.
  Let mkqs_ok := mkqs_ok sz wl.
  Let r8_ci_ok := r8_step_ok sz wl ins_ok mkqs_ok true (fun _ => ip_ok).
  Let r16_ci_ok := r16_step_ok sz wl mkqs_ok true (fun _ => ip_ok) (fun _ => ip16_ok).

  Theorem radixsort_CI2_ok fuel mem : SorterOK wl (fun d => radixsort_CI2 sz wl fuel mem d).
  Proof.
    intros p l lcp out lcp' HP HN HL H. unfold radixsort_CI2 in H.
    destruct (N.ltb (nN l) inssort_threshold); [eapply ins_ok; eauto|].
    destruct (mem_short mem _); [eapply (mkqs_ok fuel mem); eauto|eapply r8_ci_ok; eauto].
  Qed.

  Theorem radixsort_CI3_ok fuel mem : SorterOK wl (fun d => radixsort_CI3 sz wl fuel mem d).
  Proof.
    intros p l lcp out lcp' HP HN HL H. unfold radixsort_CI3 in H.
    destruct (N.ltb (nN l) inssort_threshold); [eapply ins_ok; eauto|].
    destruct (N.ltb (nN l) radix16); [eapply radixsort_CI2_ok; eauto|].
    destruct (mem_short mem _); [eapply radixsort_CI2_ok; eauto|eapply r16_ci_ok; eauto].
  Qed.

  Theorem radixsort_CE2_ok fuel mem : SorterOK wl (fun d => radixsort_CE2 sz wl fuel mem d).
  Proof.
    intros p l lcp out lcp' HP HN HL H. unfold radixsort_CE2 in H.
    destruct (N.ltb (nN l) inssort_threshold); [eapply ins_ok; eauto|].
    destruct (mem_short mem _); [eapply radixsort_CI3_ok; eauto|eapply (r8_ce_ok sz wl); eauto].
  Qed.

  Theorem radixsort_CE3_ok fuel mem : SorterOK wl (fun d => radixsort_CE3 sz wl fuel mem d).
  Proof.
    intros p l lcp out lcp' HP HN HL H. unfold radixsort_CE3 in H.
    destruct (N.ltb (nN l) inssort_threshold); [eapply ins_ok; eauto|].
    destruct (N.ltb (nN l) radix16); [eapply radixsort_CE2_ok; eauto|].
    destruct (mem_short mem _); [eapply radixsort_CE2_ok; eauto|eapply (r16_ce_ok sz wl); eauto].
  Qed.

  (** tlx::sort_strings / sort_strings_lcp, every memory limit *)
  Theorem sort_strings_ok fuel mem l lcp out lcp' :
    all_nulfree l -> length lcp = length l ->
    sort_strings sz wl fuel mem l lcp = Some (out, lcp') ->
    SortedPerm l out /\ (wl = true -> LcpExact out lcp') /\ (wl = false -> lcp' = lcp).
  Proof.
    intros HN HL H. unfold sort_strings in H.
    assert (HP : Pre [] l) by (unfold Pre; rewrite Forall_forall; intros x _; reflexivity).
    pose proof (radixsort_CE3_ok fuel mem [] l lcp out lcp' HP HN HL H) as HO.
    split; [destruct HO as (P & S & _); split; assumption|]. split.
    - intros W. subst wl. apply (OutOK_SortedPermLcp l lcp out lcp' HL HO).
    - intros W. subst wl. destruct HO as (_ & _ & E). exact E.
  Qed.
End Dispatch.

(** tlx::sort_strings / sort_strings_lcp with the default memory argument: unconditional *)
Theorem sort_strings_unlimited_ok sz wl fuel l lcp out lcp' :
  all_nulfree l -> length lcp = length l ->
  sort_strings sz wl fuel 0 l lcp = Some (out, lcp') ->
  SortedPerm l out /\ (wl = true -> LcpExact out lcp') /\ (wl = false -> lcp' = lcp).
Proof.
  intros HN HL H. unfold sort_strings in H.
  assert (HP : Pre [] l) by (unfold Pre; rewrite Forall_forall; intros x _; reflexivity).
  pose proof (radixsort_CE3_unlimited_ok sz wl fuel [] l lcp out lcp' HP HN HL H) as HO.
  split; [destruct HO as (P & S & _); split; assumption|]. split.
  - intros W. subst wl. apply (OutOK_SortedPermLcp l lcp out lcp' HL HO).
  - intros W. subst wl. destruct HO as (_ & _ & E). exact E.
Qed.

(** fewer than RADIX = 65536 strings: the 16-bit steps are never selected -- every memory limit, no assumption *)
Section Small.
  Variable sz : sizes.
  Variable wl : bool.
  Let r8_ci := r8_step_ok sz wl (insertion_ok wl) (mkqs_ok sz wl) true (fun _ => in_place_ok).

  Theorem radixsort_CE3_small_ok fuel mem : forall p l lcp out lcp',
    N.ltb (nN l) radix16 = true -> Pre p l -> all_nulfree l -> length lcp = length l ->
    radixsort_CE3 sz wl fuel mem (length p) l lcp = Some (out, lcp') -> OutOK wl l lcp out lcp'.
  Proof.
    intros p l lcp out lcp' Hsmall HP HN HL H.
    unfold radixsort_CE3, radixsort_CE2, radixsort_CI3, radixsort_CI2 in H. rewrite Hsmall in H.
    destruct (N.ltb (nN l) inssort_threshold); [eapply (insertion_ok wl); eauto|].
    destruct (mem_short mem _); [|eapply (r8_ce_ok sz wl); eauto].
    destruct (mem_short mem _); [eapply (mkqs_ok sz wl fuel mem); eauto|eapply r8_ci; eauto].
  Qed.
End Small.

Theorem sort_strings_small_ok sz wl fuel mem l lcp out lcp' :
  N.ltb (nN l) radix16 = true -> all_nulfree l -> length lcp = length l ->
  sort_strings sz wl fuel mem l lcp = Some (out, lcp') ->
  SortedPerm l out /\ (wl = true -> LcpExact out lcp') /\ (wl = false -> lcp' = lcp).
Proof.
  intros Hs HN HL H. unfold sort_strings in H.
  assert (HP : Pre [] l) by (unfold Pre; rewrite Forall_forall; intros x _; reflexivity).
  pose proof (radixsort_CE3_small_ok sz wl fuel mem [] l lcp out lcp' Hs HP HN HL H) as HO.
  split; [destruct HO as (P & S & _); split; assumption|]. split.
  - intros W. subst wl. apply (OutOK_SortedPermLcp l lcp out lcp' HL HO).
  - intros W. subst wl. destruct HO as (_ & _ & E). exact E.
Qed.

(** * the shipped boundary loop (704fd0b) reads bkt_size[256] *)
Lemma bnd_loop_shipped_refuted :
  exists (bs : list nat) (lcp : list nat),
    length bs = 256 /\ length lcp = list_sum bs /\
    (forall g, fst (lcp_step8_shipped 0 bs g lcp) = true) /\       (* shipped: out-of-bounds read, whatever that word holds *)
    lcp_step8 0 bs lcp = 777 :: repeat 0 39.                        (* repaired loop: exactly the LCPs of 40 empty strings *)
Proof.
  exists (40 :: repeat 0 255), (repeat 777 40).
  split; [reflexivity|]. split; [reflexivity|]. split.
  - intros g. reflexivity.
  - vm_compute. reflexivity.
Qed.


(** * the hypotheses of the theorems are satisfiable by a non-trivial run: 34 NUL-free strings (duplicates, a proper
    prefix, a high byte) go through the CE2 radix step, insertion sort on its buckets and the LCP boundary pass *)
Definition example_input : list item :=
  map (fun i => (N.of_nat i, [N.of_nat (1 + i mod 3); N.of_nat (200 + i mod 2)] ++ (if i mod 5 =? 0 then [] else [7%N]))) (seq 0 34).
Example sort_strings_example :
  all_nulfree example_input /\
  match lookup_sizes sizes_table 0 true with
  | Some sz =>
      match sort_strings sz true 50 0 example_input (repeat 777 34) with
      | Some (out, lcp') => check_spl example_input out lcp' = true /\ hd 0 lcp' = 777 /\ nth 1 lcp' 0 = 2 /\ nth 33 lcp' 0 = 3
      | None => False
      end
  | None => False
  end.
Proof.
  split.
  - unfold all_nulfree, nulfree. vm_compute example_input.
    repeat (apply Forall_cons; [repeat (apply Forall_cons; [split; [discriminate|reflexivity]|]); apply Forall_nil|]).
    apply Forall_nil.
  - vm_compute. repeat split; reflexivity.
Qed.

(** the same input through multikey quicksort (34 >= 32 strings: pivot selection, partition, block swaps, three
    recursive calls, LCP writes) and directly through one out-of-place and one in-place 16-bit step *)
Example mkqs_and_radix16_example :
  match lookup_sizes sizes_table 0 true with
  | Some sz =>
      match mkqs sz true 60 0 0 example_input (repeat 777 34), r16_step sz true 60 false 0 1 0 example_input (repeat 777 34),
            r16_step sz true 60 true 0 1 0 example_input (repeat 777 34) with
      | Some (o1, l1), Some (o2, l2), Some (o3, l3) =>
          check_spl example_input o1 l1 = true /\ check_spl example_input o2 l2 = true /\ check_spl example_input o3 l3 = true
      | _, _, _ => False
      end
  | None => False
  end.
Proof. vm_compute. repeat split; reflexivity. Qed.
