(** C03 — the dispatch chain radixsort_CE3 -> CE2 -> CI3 -> CI2 -> multikey_quicksort -> insertion_sort:
    whatever the memory limit selects, the selected sorter meets the contract. *)
From Coq Require Import List Bool Arith NArith Lia Sorting.Sorted Sorting.Permutation.
From TLXV Require Import gen.Sizes_C03_gen C03.Model C03.Spec C03.SpecProofs C03.Lemmas C03.Sorters C03.LcpInsertion C03.Radix8.
Import ListNotations.

(** the pieces of the development that are assumed rather than proved (each is a statement about one loop of the
    model; see the comments in Properties_C03.v) *)
Definition InsertionOK (wl : bool) : Prop := SorterOK wl (fun d l lcp => Some (insertion wl d l lcp)).
Definition MkqsOK (sz : sizes) (wl : bool) : Prop := forall fuel mem, SorterOK wl (fun d => mkqs sz wl fuel d mem).
Definition InPlaceOK : Prop :=
  forall dep l bl, all_nulfree l -> buckets8 true dep l = Some bl -> BucketsOK dep l bl.
Definition Radix16OK (sz : sizes) (wl : bool) : Prop :=
  forall fuel ip mem s, SorterOK wl (fun d => r16_step sz wl fuel ip mem s d).

(** insertion sort without LCP output is proved *)
Theorem insertion_nolcp_ok : InsertionOK false.
Proof.
  intros p l lcp out lcp' HP HN HL H. unfold insertion in H. injection H as <- <-.
  destruct (insertion_sort_ok p l HP) as [P S]. split; [exact P|split; [exact S|reflexivity]].
Qed.

(** ... and so is the LCP variant: both insertion sorts meet the contract at every depth *)
Theorem insertion_ok wl : InsertionOK wl.
Proof. destruct wl; [exact lcp_insertion_ok|exact insertion_nolcp_ok]. Qed.

Section Dispatch.
  Variable sz : sizes.
  Variable wl : bool.
  Let ins_ok := insertion_ok wl.
  Hypothesis mkqs_ok : MkqsOK sz wl.
  Hypothesis ip_ok : InPlaceOK.
  Hypothesis r16_ok : Radix16OK sz wl.

  Let r8_ok := r8_step_ok sz wl ins_ok mkqs_ok ip_ok.

  Theorem radixsort_CE0_ok fuel mem : SorterOK wl (fun d => radixsort_CE0 sz wl fuel mem d).
  Proof.
    intros p l lcp out lcp' HP HN HL H. unfold radixsort_CE0 in H.
    destruct (N.ltb (nN l) inssort_threshold); [eapply ins_ok; eauto|].
    destruct (mem_short mem _); [eapply (mkqs_ok fuel mem); eauto|eapply r8_ok; eauto].
  Qed.

  Theorem radixsort_CI2_ok fuel mem : SorterOK wl (fun d => radixsort_CI2 sz wl fuel mem d).
  Proof.
    intros p l lcp out lcp' HP HN HL H. unfold radixsort_CI2 in H.
    destruct (N.ltb (nN l) inssort_threshold); [eapply ins_ok; eauto|].
    destruct (mem_short mem _); [eapply (mkqs_ok fuel mem); eauto|eapply r8_ok; eauto].
  Qed.

  Theorem radixsort_CI3_ok fuel mem : SorterOK wl (fun d => radixsort_CI3 sz wl fuel mem d).
  Proof.
    intros p l lcp out lcp' HP HN HL H. unfold radixsort_CI3 in H.
    destruct (N.ltb (nN l) inssort_threshold); [eapply ins_ok; eauto|].
    destruct (N.ltb (nN l) radix16); [eapply radixsort_CI2_ok; eauto|].
    destruct (mem_short mem _); [eapply radixsort_CI2_ok; eauto|eapply r16_ok; eauto].
  Qed.

  Theorem radixsort_CE2_ok fuel mem : SorterOK wl (fun d => radixsort_CE2 sz wl fuel mem d).
  Proof.
    intros p l lcp out lcp' HP HN HL H. unfold radixsort_CE2 in H.
    destruct (N.ltb (nN l) inssort_threshold); [eapply ins_ok; eauto|].
    destruct (mem_short mem _); [eapply radixsort_CI3_ok; eauto|eapply r8_ok; eauto].
  Qed.

  Theorem radixsort_CE3_ok fuel mem : SorterOK wl (fun d => radixsort_CE3 sz wl fuel mem d).
  Proof.
    intros p l lcp out lcp' HP HN HL H. unfold radixsort_CE3 in H.
    destruct (N.ltb (nN l) inssort_threshold); [eapply ins_ok; eauto|].
    destruct (N.ltb (nN l) radix16); [eapply radixsort_CE2_ok; eauto|].
    destruct (mem_short mem _); [eapply radixsort_CE2_ok; eauto|eapply r16_ok; eauto].
  Qed.

  (** tlx::sort_strings / sort_strings_lcp, every memory limit *)
  Theorem sort_strings_ok fuel mem l lcp out lcp' :
    all_nulfree l -> length lcp = length l ->
    sort_strings sz wl fuel mem l lcp = Some (out, lcp') ->
    SortedPerm l out /\ (wl = true -> LcpExact out lcp') /\ (wl = false -> lcp' = lcp).
  Proof.
    intros HN HL H. unfold sort_strings in H.
    assert (HP : Pre [] l) by (unfold Pre; rewrite Forall_forall; intros x _; reflexivity).
    pose proof (radixsort_CE3_ok fuel mem [] l lcp out lcp' HP HN HL H) as HO.
    split; [destruct HO as (P & S & _); split; assumption|]. split.
    - intros W. subst wl. apply (OutOK_SortedPermLcp l lcp out lcp' HL HO).
    - intros W. subst wl. destruct HO as (_ & _ & E). exact E.
  Qed.
End Dispatch.

(** * the shipped boundary loop (704fd0b) reads bkt_size[256] *)
Lemma bnd_loop_shipped_refuted :
  exists (bs : list nat) (lcp : list nat),
    length bs = 256 /\ length lcp = list_sum bs /\
    (forall g, fst (lcp_step8_shipped 0 bs g lcp) = true) /\       (* shipped: out-of-bounds read, whatever that word holds *)
    lcp_step8 0 bs lcp = 777 :: repeat 0 39.                        (* repaired loop: exactly the LCPs of 40 empty strings *)
Proof.
  exists (40 :: repeat 0 255), (repeat 777 40).
  split; [reflexivity|]. split; [reflexivity|]. split.
  - intros g. reflexivity.
  - vm_compute. reflexivity.
Qed.


(** * the hypotheses of the theorems are satisfiable by a non-trivial run: 34 NUL-free strings (duplicates, a proper
    prefix, a high byte) go through the CE2 radix step, insertion sort on its buckets and the LCP boundary pass *)
Definition example_input : list item :=
  map (fun i => (N.of_nat i, [N.of_nat (1 + i mod 3); N.of_nat (200 + i mod 2)] ++ (if i mod 5 =? 0 then [] else [7%N]))) (seq 0 34).
Example sort_strings_example :
  all_nulfree example_input /\
  match lookup_sizes sizes_table 0 true with
  | Some sz =>
      match sort_strings sz true 50 0 example_input (repeat 777 34) with
      | Some (out, lcp') => check_spl example_input out lcp' = true /\ hd 0 lcp' = 777 /\ nth 1 lcp' 0 = 2 /\ nth 33 lcp' 0 = 3
      | None => False
      end
  | None => False
  end.
Proof.
  split.
  - unfold all_nulfree, nulfree. vm_compute example_input.
    repeat (apply Forall_cons; [repeat (apply Forall_cons; [split; [discriminate|reflexivity]|]); apply Forall_nil|]).
    apply Forall_nil.
  - vm_compute. repeat split; reflexivity.
Qed.
