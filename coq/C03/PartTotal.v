(** C03 — the Bentley-Sedgewick partition loop of multikey_quicksort.hpp always terminates normally.

    The model's [part_loop] returns [None] in two situations: its fuel runs out, or it meets "a single
    unexamined element that stopped BOTH inner loops" (an element both greater and less than the pivot), a branch
    the C++ cannot reach.  This file proves that neither happens for any input whenever the fuel exceeds the
    number of unexamined elements -- which is what [mkqs] passes ([S n] for the [n - 1] elements behind the
    pivot).  So one of the four sources of a [None] result of the fuelled sorter model (docs/audit/C03.md) is
    excluded by theorem for every input rather than by the per-case "model = err" check of the driver. *)
From Coq Require Import List Bool Arith NArith Lia.
From TLXV Require Import C03.Model C03.Lemmas.
Import ListNotations.

Section PartTotal.
  Variable pv : N.
  Variable d : nat.

  (** the left scan returns a suffix no longer than its input, stopped at an element greater than the pivot *)
  Lemma part_left_stop : forall U EQL LT EQL1 LT1 U1,
    part_left pv d EQL LT U = (EQL1, LT1, U1) ->
    length U1 <= length U /\ match U1 with [] => True | u :: _ => (pv < ch d u)%N end.
  Proof.
    induction U as [|u U' IH]; intros EQL LT EQL1 LT1 U1 H; simpl in H.
    - injection H as <- <- <-. simpl. auto.
    - destruct (N.leb (ch d u) pv) eqn:E1.
      + destruct (N.eqb (ch d u) pv) eqn:E2.
        * destruct LT as [|h t]; apply IH in H; simpl; destruct H as [H1 H2]; split; [lia|exact H2|lia|exact H2].
        * apply IH in H. simpl. destruct H as [H1 H2]. split; [lia|exact H2].
      + injection H as <- <- <-. apply N.leb_gt in E1. simpl. split; [lia|exact E1].
  Qed.

  (** the right scan (over the reversed remainder) returns a suffix, stopped at an element less than the pivot *)
  Lemma part_right_stop : forall Ur GT EQR GT1 EQR1 Ur1,
    part_right pv d GT EQR Ur = (GT1, EQR1, Ur1) ->
    (exists pre, Ur = pre ++ Ur1) /\ match Ur1 with [] => True | u :: _ => (ch d u < pv)%N end.
  Proof.
    induction Ur as [|u Ur' IH]; intros GT EQR GT1 EQR1 Ur1 H; simpl in H.
    - injection H as <- <- <-. split; [exists []; reflexivity|exact I].
    - destruct (N.leb pv (ch d u)) eqn:E1.
      + destruct (N.eqb (ch d u) pv) eqn:E2.
        * destruct (rev GT) as [|z t]; apply IH in H; destruct H as [[pre C] D];
            (split; [exists (u :: pre); now rewrite C|exact D]).
        * apply IH in H. destruct H as [[pre C] D]. split; [exists (u :: pre); now rewrite C|exact D].
      + injection H as <- <- <-. apply N.leb_gt in E1. split; [exists []; reflexivity|exact E1].
  Qed.

  Theorem part_loop_total : forall fuel EQL LT U GT EQR,
    length U < fuel -> part_loop fuel pv d EQL LT U GT EQR <> None.
  Proof.
    induction fuel as [|f IH]; intros EQL LT U GT EQR Hlen; [lia|].
    simpl.
    destruct (part_left pv d EQL LT U) as [[EQL1 LT1] U1] eqn:EL.
    destruct (part_right pv d GT EQR (rev U1)) as [[GT1 EQR1] Ur1] eqn:ER.
    destruct (part_left_stop _ _ _ _ _ _ EL) as [L1 L2].
    destruct (part_right_stop _ _ _ _ _ _ ER) as [[pre R1] R2].
    destruct Ur1 as [|z Ur']; [discriminate|].
    assert (EU1 : U1 = rev Ur' ++ z :: rev pre).
    { rewrite <- (rev_involutive U1), R1. rewrite rev_app_distr. simpl. rewrite <- app_assoc. reflexivity. }
    destruct (rev Ur') as [|h mid] eqn:EM.
    - (* the element that stopped the right scan is the one that stopped the left scan *)
      exfalso. rewrite EU1 in L2. simpl in L2. lia.
    - apply IH. rewrite EU1 in L1. simpl in L1. rewrite app_length in L1. simpl in L1. lia.
  Qed.

  (** as called by mkqs: fuel [S n] for the [n - 1] elements behind the pivot (after the pivot swap) *)
  Corollary mkqs_partition_total : forall (l : list item) (j : nat),
    part_loop (S (length l)) pv d [] [] (tl (swap_idx l 0 j)) [] [] <> None.
  Proof.
    intros l j. apply part_loop_total.
    assert (H : length (swap_idx l 0 j) = length l) by (unfold swap_idx; now rewrite !upd_length).
    destruct (swap_idx l 0 j); simpl in *; lia.
  Qed.
End PartTotal.
