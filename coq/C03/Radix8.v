(** C03 — the 8-bit radix steps (RadixStep_CE0 / CE2 out of place, RadixStep_CI2 in place) and their loops. *)
From Coq Require Import List Bool Arith NArith Lia Sorting.Sorted Sorting.Permutation.
From TLXV Require Import gen.Sizes_C03_gen C03.Model C03.Spec C03.SpecProofs C03.Lemmas C03.Sorters.
Import ListNotations.

(** * distributing into buckets is a permutation *)
Lemma filter_partition {A} (f : A -> bool) l : Permutation l (filter f l ++ filter (fun x => negb (f x)) l).
Proof.
  induction l as [|a l IH]; simpl; [constructor|]. destruct (f a); simpl; [now constructor|].
  now apply Permutation_cons_app.
Qed.

Lemma filter_filter_eq {A} (f g : A -> bool) : forall l, (forall x, In x l -> f x = true -> g x = true) ->
  filter f (filter g l) = filter f l.
Proof.
  induction l as [|a l IH]; intros H; simpl; auto.
  destruct (g a) eqn:G; simpl.
  - destruct (f a); [f_equal|]; apply IH; intros; apply H; auto; now right.
  - destruct (f a) eqn:F; [rewrite (H a (or_introl eq_refl) F) in G; discriminate|].
    apply IH. intros; apply H; auto; now right.
Qed.

Lemma buckets_perm (key : item -> N) : forall ks l, NoDup ks -> (forall x, In x l -> In (key x) ks) ->
  Permutation l (concat (map (fun k => filter (fun x => N.eqb (key x) k) l) ks)).
Proof.
  induction ks as [|a ks IH]; intros l ND H.
  - destruct l as [|i l]; [constructor|]. exfalso. apply (H i). now left.
  - simpl. inversion ND as [|? ? Hna ND']; subst.
    eapply Permutation_trans; [apply (filter_partition (fun x => N.eqb (key x) a))|].
    apply Permutation_app_head.
    eapply Permutation_trans; [apply (IH (filter (fun x => negb (N.eqb (key x) a)) l) ND')|].
    + intros x Hx. apply filter_In in Hx. destruct Hx as [Hx Hk]. destruct (H x Hx) as [E|E]; auto.
      subst. rewrite N.eqb_refl in Hk. discriminate.
    + apply Permutation_refl'. f_equal. apply map_ext_in. intros k Hk.
      apply filter_filter_eq. intros x _ E. apply N.eqb_eq in E. subst k.
      apply negb_true_iff, N.eqb_neq. intros Z. rewrite Z in Hk. contradiction.
Qed.

Lemma Forall2_perm_concat : forall (F G : list (list item)), Forall2 (@Permutation item) F G -> Permutation (concat F) (concat G).
Proof. induction 1; simpl; [constructor|]. now apply Permutation_app. Qed.

(** * the key list *)
Lemma keys_sorted : forall n a, StronglySorted N.lt (map N.of_nat (seq a n)).
Proof.
  induction n as [|n IH]; intros a; simpl; constructor; [apply IH|].
  rewrite Forall_forall. intros k Hk. apply in_map_iff in Hk. destruct Hk as (i & <- & Hi). apply in_seq in Hi. lia.
Qed.
Lemma keys256_sorted : StronglySorted N.lt keys256. Proof. apply keys_sorted. Qed.
Lemma keys256_in k : (k < 256)%N -> In k keys256.
Proof.
  intros H. unfold keys256. apply in_map_iff. exists (N.to_nat k). split; [apply N2Nat.id|]. apply in_seq. lia.
Qed.
Lemma sorted_lt_NoDup ks : StronglySorted N.lt ks -> NoDup ks.
Proof.
  induction 1 as [|k ks S IH F]; constructor; auto. intros Hk. rewrite Forall_forall in F. specialize (F k Hk). lia.
Qed.

Lemma char_at_byte s d : nulfree s -> (char_at s d < 256)%N.
Proof.
  intros H. unfold char_at. destruct (nth_in_or_default d s 0%N) as [Hi | E]; [|rewrite E; lia].
  unfold nulfree in H. rewrite Forall_forall in H. apply (H _ Hi).
Qed.

(** what [buckets8] has to deliver: bucket [k] is a permutation of the elements whose character is [k] *)
Definition BucketsOK (dep : nat) (l : list item) (bl : list (list item)) : Prop :=
  Forall2 (fun k b => Permutation (filter (fun x => N.eqb (ch dep x) k) l) b) keys256 bl.

Lemma Forall2_map_self {A C} (R : A -> C -> Prop) (g : A -> C) : forall ks, (forall k, In k ks -> R k (g k)) -> Forall2 R ks (map g ks).
Proof. induction ks as [|k ks IH]; intros H; simpl; constructor; [apply H; now left|apply IH; intros; apply H; now right]. Qed.

Lemma ce_buckets_ok dep l : BucketsOK dep l (map (fun k => filter (fun x => N.eqb (ch dep x) k) l) keys256).
Proof. apply Forall2_map_self. intros; reflexivity. Qed.

Lemma BucketsOK_perm dep l bl : all_nulfree l -> BucketsOK dep l bl -> Permutation l (concat bl).
Proof.
  intros HN HB. eapply Permutation_trans; [apply (buckets_perm (ch dep) keys256)|].
  - apply sorted_lt_NoDup, keys256_sorted.
  - intros x Hx. apply keys256_in. apply char_at_byte. unfold all_nulfree in HN. rewrite Forall_forall in HN. now apply HN.
  - apply Forall2_perm_concat. unfold BucketsOK in HB. clear HN. revert HB. generalize keys256.
    intros ks HB. induction HB; simpl; constructor; auto.
Qed.

(** * order between buckets *)
Lemma cross_keys p : forall ks bl, StronglySorted N.lt ks ->
  Forall2 (fun k b => Forall (fun x => ch (length p) x = k /\ pre p x) b) ks bl ->
  cross (fun b : list item => b) (length p) bl.
Proof.
  intros ks bl S H. revert S. induction H as [|k b ks bl Hb H IH]; intros S; simpl; [exact I|].
  inversion S as [|? ? S' F]; subst. split; [|now apply IH].
  rewrite Forall_forall. intros b2 Hb2 x y Hx Hy.
  assert (exists k2, In k2 ks /\ Forall (fun x => ch (length p) x = k2 /\ pre p x) b2) as (k2 & Hk2 & Fb2).
  { clear -H Hb2. induction H as [|k' b' ks bl Hk' H IH]; [contradiction|]. destruct Hb2 as [-> | Hb2].
    - exists k'. split; [now left|assumption].
    - destruct (IH Hb2) as (k2 & A & C). exists k2. split; [now right|assumption]. }
  rewrite Forall_forall in Hb, Fb2, F. destruct (Hb x Hx) as [Ex Px]. destruct (Fb2 y Hy) as [Ey Py].
  specialize (F k2 Hk2). unfold item_le. apply ch_lt_order; auto. lia.
Qed.

(** * the boundary loop *)
(** [hp d seen bs pos R]: the cells at the starts of the non-empty buckets [bs] (laid out from [pos]) that have a
    non-empty predecessor hold [d] *)
Fixpoint hp (d : nat) (seen : bool) (bs : list nat) (pos : nat) (R : list nat) : Prop :=
  match bs with
  | [] => True
  | b :: r => (seen = true -> b <> 0 -> nth pos R 0 = d) /\ hp d (seen || negb (b =? 0)) r (pos + b) R
  end.

Lemma hp_zeros d : forall bs seen pos R, list_sum bs = 0 -> hp d seen bs pos R.
Proof.
  induction bs as [|b r IH]; intros seen pos R H; simpl; auto. simpl in H.
  split; [intros _ Hb; lia|]. apply IH. lia.
Qed.

Lemma skipn_skipn' {A} : forall b a (l : list A), skipn a (skipn b l) = skipn (b + a) l.
Proof. induction b as [|b IH]; intros a l; simpl; auto. destruct l; [now destruct a|]. apply IH. Qed.

Lemma heads_hp d : forall (bl : list (list item)) seen pos R,
  hp d seen (map (@length _) bl) pos R -> heads (fun b : list item => b) d seen bl (skipn pos R).
Proof.
  induction bl as [|b r IH]; intros seen pos R H; simpl; auto. simpl in H. destruct H as [H1 H2]. split.
  - intros Hs Hb. rewrite nth_skipn'. rewrite Nat.add_0_r. apply H1; auto. destruct b; [congruence|discriminate].
  - rewrite skipn_skipn'. now apply IH.
Qed.

Lemma bnd_loop_ok dep : forall bs bkt seen R0,
  length R0 = bkt + list_sum bs ->
  (0 < list_sum bs -> seen = true -> nth bkt R0 0 = dep) ->
  let R := bnd_loop dep (bkt + list_sum bs) bkt bs R0 in
  length R = length R0 /\ (forall j, j <= bkt -> nth j R 0 = nth j R0 0) /\ hp dep seen bs bkt R.
Proof.
  induction bs as [|b r IH]; intros bkt seen R0 HL HP; simpl.
  - repeat split; auto.
  - destruct (Nat.eqb_spec b 0) as [-> | Hb].
    + simpl in *. destruct (IH bkt seen R0 HL HP) as (A & C & D). repeat split; auto.
      * intros _ Z; lia.
      * rewrite Nat.add_0_r, orb_false_r. exact D.
    + simpl in HL, HP. destruct (Nat.leb_spec (bkt + (b + list_sum r)) (bkt + b)) as [Hle|Hgt].
      * assert (Hz : list_sum r = 0) by lia. repeat split; auto.
        -- intros Hs _. apply HP; auto; lia.
        -- apply hp_zeros. exact Hz.
      * assert (HL1 : length (upd R0 (bkt + b) dep) = (bkt + b) + list_sum r) by (rewrite upd_length; lia).
        assert (HP1 : 0 < list_sum r -> true = true -> nth (bkt + b) (upd R0 (bkt + b) dep) 0 = dep)
          by (intros _ _; apply upd_nth_same; lia).
        destruct (IH (bkt + b) true (upd R0 (bkt + b) dep) HL1 HP1) as (A & C & D).
        replace (bkt + b + list_sum r) with (bkt + (b + list_sum r)) in * by lia.
        repeat split.
        -- rewrite A. apply upd_length.
        -- intros j Hj. rewrite C by lia. apply upd_nth_other. lia.
        -- intros Hs _. rewrite C by lia. rewrite upd_nth_other by lia. apply HP; auto; lia.
        -- simpl. rewrite ?orb_true_r. exact D.
Qed.

Lemma list_sum_lengths (bl : list (list item)) : list_sum (map (@length _) bl) = length (concat bl).
Proof. induction bl as [|b r IH]; simpl; auto. rewrite app_length. lia. Qed.

(** result of the LCP pass of an 8-bit step *)
Lemma lcp_step8_ok dep (bl : list (list item)) lcp :
  length lcp = length (concat bl) ->
  let R := lcp_step8 dep (map (@length _) bl) lcp in
  length R = length lcp /\ firstn 1 R = firstn 1 lcp /\
  (forall i, 1 <= i < length (hd [] bl) -> nth i R 0 = dep) /\
  heads (fun b : list item => b) dep false bl R.
Proof.
  intros HL. unfold lcp_step8.
  destruct bl as [|b0 r].
  - simpl in *. destruct lcp; [|discriminate]. simpl. repeat split; auto. intros i Hi. simpl in Hi. lia.
  - simpl map. simpl hd. simpl tl. simpl list_sum.
    set (n0 := length b0) in *. set (bs := map (@length _) r) in *.
    assert (HS : length lcp = n0 + list_sum bs).
    { rewrite HL. simpl. rewrite app_length. unfold bs. now rewrite list_sum_lengths. }
    set (lcp1 := fill_range 1 n0 dep lcp).
    set (lcp2 := if (0 <? n0) && (n0 <? n0 + list_sum bs) then upd lcp1 n0 dep else lcp1).
    assert (HL1 : length lcp1 = length lcp) by apply fill_range_length.
    assert (HL2 : length lcp2 = length lcp) by (unfold lcp2; destruct ((0 <? n0) && (n0 <? n0 + list_sum bs)); [rewrite upd_length|]; auto).
    assert (HP : 0 < list_sum bs -> negb (n0 =? 0) = true -> nth n0 lcp2 0 = dep).
    { intros Hs Hn. apply negb_true_iff, Nat.eqb_neq in Hn. unfold lcp2.
      assert (E1 : (0 <? n0) = true) by (apply Nat.ltb_lt; lia).
      assert (E2 : (n0 <? n0 + list_sum bs) = true) by (apply Nat.ltb_lt; lia).
      rewrite E1, E2. simpl. apply upd_nth_same. lia. }
    destruct (bnd_loop_ok dep bs n0 (negb (n0 =? 0)) lcp2 ltac:(lia) HP) as (A & C & D).
    assert (H2 : forall j, j < n0 -> nth j lcp2 0 = nth j lcp1 0).
    { intros j Hj. unfold lcp2. destruct ((0 <? n0) && (n0 <? n0 + list_sum bs)); auto. apply upd_nth_other. lia. }
    split; [|split; [|split]].
    + rewrite A. exact HL2.
    + destruct (bnd_loop dep (n0 + list_sum bs) n0 bs lcp2) as [|h t] eqn:ER.
      * simpl in A. destruct lcp; [reflexivity|simpl in *; lia].
      * destruct lcp as [|h0 t0]; [simpl in *; lia|]. simpl. f_equal.
        specialize (C 0 ltac:(lia)). simpl in C. rewrite C.
        destruct n0 as [|n0'].
        -- unfold lcp2. simpl. unfold lcp1, fill_range. reflexivity.
        -- rewrite (H2 0 ltac:(lia)). unfold lcp1. rewrite fill_range_nth. simpl. reflexivity.
    + intros i Hi. rewrite C by lia. rewrite H2 by lia. unfold lcp1. rewrite fill_range_nth.
      assert (E1 : (1 <=? i) = true) by (apply Nat.leb_le; lia).
      assert (E2 : (i <? n0) = true) by (apply Nat.ltb_lt; lia).
      assert (E3 : (i <? length lcp) = true) by (apply Nat.ltb_lt; lia).
      now rewrite E1, E2, E3.
    + simpl. split; [intros Z; discriminate|].
      apply heads_hp. exact D.
Qed.

(** * the step and its loop *)
Lemma all_nth_repeat v : forall t, (forall i, i < length t -> nth i t 0 = v) -> t = repeat v (length t).
Proof.
  induction t as [|h t IH]; intros H; simpl; auto. f_equal; [apply (H 0); simpl; lia|].
  apply IH. intros i Hi. apply (H (S i)). simpl. lia.
Qed.

Lemma lcp_const v lc : (forall i, 1 <= i < length lc -> nth i lc 0 = v) -> lc = firstn 1 lc ++ repeat v (length lc - 1).
Proof.
  destruct lc as [|h t]; intros H; simpl; auto. f_equal. rewrite Nat.sub_0_r.
  apply all_nth_repeat. intros i Hi. apply (H (S i)). simpl. lia.
Qed.

Lemma small_lcp (b : list item) lc : length lc = length b -> length b <= 1 -> lc = firstn 1 lc ++ adj_lcps b.
Proof.
  destruct b as [|x [|y b]]; destruct lc as [|h [|h2 t]]; simpl; intros; try lia; auto.
Qed.

Lemma Forall2_len {A C} (R : A -> C -> Prop) l1 l2 : Forall2 R l1 l2 -> length l1 = length l2.
Proof. induction 1; simpl; auto. Qed.

Lemma BucketsOK_in p l : Pre p l -> all_nulfree l -> forall ks bl,
  Forall2 (fun k b => Permutation (filter (fun x => N.eqb (ch (length p) x) k) l) b) ks bl ->
  Forall2 (fun k b => Forall (fun x => ch (length p) x = k /\ pre p x /\ nulfree (snd x)) b) ks bl.
Proof.
  intros HP HN ks bl HB. induction HB as [|k b ks bl Hk HB IHB]; constructor; [|exact IHB].
  rewrite Forall_forall. intros x Hx. apply (Permutation_in _ (Permutation_sym Hk)) in Hx.
  apply filter_In in Hx. destruct Hx as [Hx Ek]. apply N.eqb_eq in Ek.
  unfold Pre, all_nulfree in *. rewrite Forall_forall in HP, HN. split; [exact Ek|split; [apply HP|apply HN]; exact Hx].
Qed.

Lemma nth_firstn_lt {A} (d : A) : forall n i l, i < n -> nth i (firstn n l) d = nth i l d.
Proof. induction n as [|n IH]; intros i l H; [lia|]. destruct l; [now destruct i|]. destruct i; simpl; auto. apply IH. lia. Qed.

Lemma keys256_cons : keys256 = 0%N :: map N.of_nat (seq 1 255).
Proof. reflexivity. Qed.

Section R8.
  Variable sz : sizes.
  Variable wl : bool.
  Hypothesis ins_ok : SorterOK wl (fun d l lcp => Some (insertion wl d l lcp)).
  Hypothesis mkqs_ok : forall fuel mem, SorterOK wl (fun d => mkqs sz wl fuel d mem).
  (** the in-place permutation groups the array by character (see PermuteProofs / report: proved for the
      out-of-place distribution, assumed here for the cycle-leader loop) *)
  Variable ip : bool.       (* in place (RadixStep_CI2) or out of place; constant along the recursion *)
  Hypothesis ip_buckets_ok : ip = true -> forall dep l bl, all_nulfree l -> buckets8 true dep l = Some bl -> BucketsOK dep l bl.

  Lemma buckets8_ok dep l bl : all_nulfree l -> buckets8 ip dep l = Some bl -> BucketsOK dep l bl.
  Proof.
    intros HN H. destruct (Bool.bool_dec ip true) as [E|E].
    - rewrite E in H. now apply (ip_buckets_ok E).
    - apply Bool.not_true_is_false in E. rewrite E in H. unfold buckets8 in H. injection H as <-. apply ce_buckets_ok.
  Qed.

  Lemma r8_step_S f ip' szstep mem s dep l lcp :
    r8_step sz wl (S f) ip' szstep mem s dep l lcp =
    match buckets8 ip' dep l with
    | None => None
    | Some bl =>
        let lcp1 := if wl then lcp_step8 dep (map (@length _) bl) lcp else lcp in
        map_buckets (@length _)
          (fun k b lc =>
             let m := nN b in
             if N.eqb k 0 then Some (b, lc)
             else if (if ip' then N.leb m 1 else N.eqb m 0) then Some (b, lc)
             else if N.ltb m inssort_threshold then Some (insertion wl (S dep) b lc)
             else if mem_short mem (w64 (szstep * N.of_nat (S s)))
                  then mkqs sz wl f (S dep) (w64sub mem (w64 (szstep * N.of_nat s))) b lc
             else r8_step sz wl f ip' szstep mem (S s) (S dep) b lc)
          keys256 bl lcp1
    end.
  Proof. reflexivity. Qed.

  Theorem r8_step_ok : forall fuel szstep mem s,
    SorterOK wl (fun d => r8_step sz wl fuel ip szstep mem s d).
  Proof.
    induction fuel as [|f IH]; intros szstep mem s p l lcp out lcp' HP HN HL H; [discriminate|].
    rewrite r8_step_S in H. destruct (buckets8 ip (length p) l) as [bl|] eqn:EB; [|discriminate].
    pose proof (buckets8_ok _ _ _ HN EB) as HB.
    pose proof (BucketsOK_perm _ _ _ HN HB) as Pl.
    assert (HLc : length lcp = length (concat bl)) by (rewrite HL; now apply Permutation_length).
    pose proof (BucketsOK_in p l HP HN keys256 bl HB) as Hin.
    cbv zeta in H. set (lcp1 := if wl then lcp_step8 (length p) (map (@length _) bl) lcp else lcp) in H.
    destruct (lcp_step8_ok (length p) bl lcp HLc) as (A1 & A2 & A3 & A4).
    assert (HL1 : length lcp1 = length (concat bl)) by (unfold lcp1; destruct wl; [rewrite A1|]; auto).
    assert (HF1 : firstn 1 lcp1 = firstn 1 lcp) by (unfold lcp1; destruct wl; auto).
    pose (P := fun (k : N) (b : list item) (lc : list nat) =>
                 k = 0%N -> wl = true -> forall i, 1 <= i < length b -> nth i lc 0 = length p).
    assert (HG : OutOK wl (allitems (fun b : list item => b) bl) lcp1 out lcp').
    { eapply (map_buckets_glue wl (fun b : list item => b) _ P (length p) keys256 bl lcp1 out lcp' false).
      - exact H.
      - rewrite (Forall2_len _ _ _ Hin). lia.
      - unfold allitems. rewrite map_id. exact HL1.
      - (* every bucket *)
        intros k b lc o lc' Hkb HLb HPb Hf. cbv beta in HLb.
        assert (Hb : Forall (fun x => ch (length p) x = k /\ pre p x /\ nulfree (snd x)) b).
        { clear -Hin Hkb. revert Hkb. induction Hin as [|k' b' ks bl Hk' Hin IHin]; simpl; [contradiction|].
          intros [E|E]; [injection E as <- <-; assumption|now apply IHin]. }
        revert Hf. cbv zeta. destruct (N.eqb_spec k 0) as [-> | Hk0]; intros Hf.
        + (* bucket 0 *)
          injection Hf as <- <-. split; [reflexivity|].
          assert (Hsame : Forall (fun x => snd x = p) b).
          { rewrite Forall_forall in *. intros x Hx. destruct (Hb x Hx) as (E & Px & Nx). now apply ch_zero_end. }
          destruct (all_same_sorted p b Hsame) as [S L]. split; [exact S|].
          unfold lcpR. destruct wl eqn:W; auto. rewrite L.
          eapply eq_trans; [apply (lcp_const (length p) lc)|f_equal; f_equal; f_equal; exact HLb].
          intros i Hi. apply (HPb eq_refl eq_refl). rewrite <- HLb. exact Hi.
        + assert (Ek0 : N.eqb k 0 = false) by (apply N.eqb_neq; exact Hk0). rewrite Ek0 in Hf.
          assert (HPre : Pre (p ++ [k]) b).
          { unfold Pre. rewrite Forall_forall in *. intros x Hx. destruct (Hb x Hx) as (E & Px & Nx). now apply (ch_nonzero_pre p x k). }
          assert (HNb : all_nulfree b).
          { unfold all_nulfree. rewrite Forall_forall in *. intros x Hx. now destruct (Hb x Hx) as (E & Px & Nx). }
          assert (Hlen : length (p ++ [k]) = S (length p)) by (rewrite app_length; simpl; lia).
          revert Hf. destruct (if ip then N.leb (nN b) 1 else N.eqb (nN b) 0) eqn:Esmall; intros Hf.
          * injection Hf as <- <-.
            assert (Hb1 : length b <= 1).
            { unfold nN in Esmall. destruct ip; [apply N.leb_le in Esmall|apply N.eqb_eq in Esmall]; lia. }
            split; [reflexivity|]. split.
            -- destruct b as [|x [|y b']]; simpl in Hb1; try lia; repeat constructor.
            -- unfold lcpR. destruct wl; auto. now apply small_lcp.
          * revert Hf. destruct (N.ltb (nN b) inssort_threshold); intros Hf.
            -- rewrite <- Hlen in Hf. apply (ins_ok (p ++ [k]) b lc o lc' HPre HNb HLb). exact Hf.
            -- revert Hf. destruct (mem_short mem (w64 (szstep * N.of_nat (S s)))); intros Hf.
               ++ rewrite <- Hlen in Hf. apply (mkqs_ok f (w64sub mem (w64 (szstep * N.of_nat s))) (p ++ [k]) b lc o lc' HPre HNb HLb). exact Hf.
               ++ rewrite <- Hlen in Hf. apply (IH szstep mem (S s) (p ++ [k]) b lc o lc' HPre HNb HLb). exact Hf.
      - (* chunksP: bucket 0 is the first bucket *)
        destruct bl as [|b0 r]; [unfold keys256; simpl; exact I|].
        rewrite keys256_cons.
        change (P 0%N b0 (firstn (length b0) lcp1) /\
                chunksP (fun b : list item => b) P (map N.of_nat (seq 1 255)) r (skipn (length b0) lcp1)).
        split.
        + intros _ W i Hi. unfold lcp1. rewrite W. rewrite nth_firstn_lt by lia. apply A3. simpl. exact Hi.
        + assert (Hgen : forall ks (r' : list (list item)) R, (forall k, In k ks -> k <> 0%N) ->
                             chunksP (fun b : list item => b) P ks r' R).
          { induction ks as [|k ks IHk]; intros r' R Hk; destruct r'; simpl; auto.
            split; [intros Z; exfalso; apply (Hk k); [now left|exact Z]|apply IHk; intros; apply Hk; now right]. }
          apply Hgen. intros k Hk. apply in_map_iff in Hk. destruct Hk as (i & <- & Hi). apply in_seq in Hi. lia.
      - apply (cross_keys p keys256 bl keys256_sorted).
        clear -Hin. induction Hin as [|k b ks bl' Hb Hin' IHin]; constructor; auto.
        eapply Forall_impl; [|exact Hb]. simpl. tauto.
      - intros W. unfold lcp1. rewrite W. exact A4. }
    destruct HG as (G1 & G2 & G3). unfold allitems in G1. rewrite map_id in G1.
    split; [eapply Permutation_trans; eauto|]. split; [exact G2|].
    rewrite G3. unfold lcpR. destruct wl eqn:W; [now rewrite HF1|reflexivity].
  Qed.
End R8.
