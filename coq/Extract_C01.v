From TLXV Require Import C01.Model.
From Coq Require Import Arith.
Require Extraction. Require ExtrOcamlBasic.
Extraction Language OCaml.
Extraction "../ocaml/gen/C01_model.ml" Model.step Model.inv_b Model.t_elems Model.t_size Model.t_nodes
  Model.t_leaves Model.t_inner Model.get Nat.ltb Nat.eqb.
