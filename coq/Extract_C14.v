From TLXV Require Import C14.Words C14.MD C14.Hashes C14.Sip gen.Tables_C14_gen.
Require Extraction. Require ExtrOcamlBasic.
Extraction Language OCaml.
Extraction "../ocaml/gen/C14_model.ml" Hashes.digest Hashes.digest_hex Hashes.digest_hex_uc Hashes.helper_hex
  Hashes.helper_hex_uc Hashes.spec Hashes.hexdump Hashes.algo_B Hashes.compress_raw
  Tables_C14_gen.hex_lc Tables_C14_gen.hex_uc Sip.siphash_plain Sip.siphash_sse2 Sip.sip_spec.
