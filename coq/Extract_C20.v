From TLXV Require Import C20.Math C20.Agg C20.Run.
Require Extraction. Require ExtrOcamlBasic.
Extraction Language OCaml.
Extraction "../ocaml/gen/C20_model.ml" Run.eval1 Run.eval2 Run.eval2m Run.eval_range Math.mkTy
  Agg.run Agg.ghost Agg.feed Agg.empty Agg.observe Agg.dbl_max Agg.flt_max.
