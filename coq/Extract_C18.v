From TLXV Require Import C18.Defs C18.SV C18.SVDims.
Require Extraction. Require ExtrOcamlBasic.
Extraction Language OCaml.
Extraction "../ocaml/gen/C18_model.ml" Defs.npos Defs.size Defs.nthN
  SV.index SV.at_ SV.front SV.back SV.remove_prefix SV.remove_suffix SV.to_string SV.copy SV.substr
  SV.compare SV.compare3 SV.compare5 SV.op_eq SV.op_ne SV.op_lt SV.op_gt SV.op_le SV.op_ge
  SV.starts_with_char SV.ends_with_char SV.starts_with SV.ends_with
  SV.find SV.rfind SV.find_first_of SV.find_last_of SV.find_first_not_of SV.find_last_not_of
  SV.of_char SV.of_ptr_n SV.of_cstr
  SVDims.window SVDims.at_throws SVDims.substr_dims SVDims.remove_prefix_dims SVDims.remove_suffix_dims SVDims.copy_dims.
