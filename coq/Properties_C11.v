(** C11 — placeholder while the proofs are being written. *)
From TLXV Require Import C11.Ev C11.Sem.
