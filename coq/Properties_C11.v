(** C11 — Semaphore conserves tokens and strands no waiter; barriers release together.
    Statements only; models: C11/Sem.v, C11/BarMutex.v, C11/BarSpin.v (labelled transition systems whose events
    are the tokens of the deterministic scheduler shim); proofs: C11/SemProofs.v, C11/BarMutexProofs.v,
    C11/BarSpinProofs.v.  [reachable] = exists an event list accepted from the initial state, i.e. the theorems
    quantify over ALL interleavings, any number of threads, any call lists / numbers of generations. *)
From Coq Require Import List Arith Bool NArith.
From TLXV Require Import C11.Ev C11.Sem C11.SemProofs C11.SemCheckProofs C11.SemOverflow C11.BarMutex C11.BarMutexProofs C11.BarSpin C11.BarSpinProofs.
Import ListNotations.

(** ---------------------------------------------------------------- Semaphore *)

(** Token conservation, in every reachable state, with or without spurious wake-ups, for the shipped and the
    repaired signal(): tokens handed out + current value = initial value + tokens signalled. *)
Theorem C11_sem_conservation : forall shipped spur initial progs s,
  Sem.reachable shipped spur initial progs s ->
  granted s + value s = initial + signalled s /\ granted s <= initial + signalled s.
Proof. exact conservation. Qed.
Print Assumptions C11_sem_conservation.

(** wait(d, sl) returns only from a state with value >= d + sl, takes exactly d tokens, returns the new value. *)
Theorem C11_sem_wait_threshold : forall shipped spur s t s' d sl rest,
  lstep shipped spur s (t, OUnlock) = Some s' ->
  pc (thr s t) = Locked -> prog (thr s t) = CWait d sl :: rest ->
  d + sl <= value s /\ value s' = value s - d /\ granted s' = granted s + d /\
  pc (thr s' t) = Ret (value s - d) /\ prog (thr s' t) = rest.
Proof. exact wait_threshold. Qed.
Print Assumptions C11_sem_wait_threshold.

(** ... and a waiter blocks only when the value does not cover its request. *)
Theorem C11_sem_blocks_only_below_threshold : forall shipped spur s t s',
  lstep shipped spur s (t, OWaitB) = Some s' ->
  exists d sl rest, prog (thr s t) = CWait d sl :: rest /\ value s < d + sl.
Proof. exact blocks_only_below_threshold. Qed.
Print Assumptions C11_sem_blocks_only_below_threshold.

(** try_acquire(d, sl) succeeds, taking d tokens, exactly when value >= d + sl. *)
Theorem C11_sem_try_acquire_exact : forall shipped spur s t s' d sl rest,
  lstep shipped spur s (t, OUnlock) = Some s' ->
  pc (thr s t) = Locked -> prog (thr s t) = CTry d sl :: rest ->
  (d + sl <= value s /\ value s' = value s - d /\ pc (thr s' t) = Ret 1) \/
  (value s < d + sl /\ value s' = value s /\ granted s' = granted s /\ pc (thr s' t) = Ret 0).
Proof. exact try_acquire_exact. Qed.
Print Assumptions C11_sem_try_acquire_exact.

(** value_ is only touched under the mutex: at most one thread is inside a critical section. *)
Theorem C11_sem_mutual_exclusion : forall shipped spur initial progs s t u,
  Sem.reachable shipped spur initial progs s ->
  (pc (thr s t) = Locked \/ pc (thr s t) = Posted) ->
  (pc (thr s u) = Locked \/ pc (thr s u) = Posted) -> t = u.
Proof. exact mutual_exclusion. Qed.
Print Assumptions C11_sem_mutual_exclusion.

(** No stranded waiter (signal() repaired to notify_all, fixes/C11/01): in every reachable rest state no thread
    is blocked in a wait(d, sl) although value >= d + sl.  [spur = false] is the meaningful instance. *)
Theorem C11_sem_no_stranded_waiter : forall spur initial progs s t,
  Sem.reachable false spur initial progs s -> quiescent false spur s -> ~ stranded s t.
Proof. exact no_stranded_waiter. Qed.
Print Assumptions C11_sem_no_stranded_waiter.

(** The shipped signal() (notify_one) violates exactly this: initial 0; wait(1,1) | wait(1,0) | signal(); signal(). *)
Theorem C11_sem_signal_shipped_refuted :
  exists initial progs s t,
    Sem.reachable true false initial progs s /\ quiescent true false s /\ stranded s t.
Proof. exact signal_shipped_refuted. Qed.
Print Assumptions C11_sem_signal_shipped_refuted.

(** The model decides "blocked" by value < delta + slack on nat.  On 64-bit words the repaired C++ test
    (value_ < delta || value_ - delta < slack, /repo ca9b7a2) is exactly that, for all size_t arguments ... *)
Theorem C11_sem_threshold_test_correct : forall value delta slack,
  (value < SemOverflow.W -> delta < SemOverflow.W -> slack < SemOverflow.W ->
   blocked value delta slack = blocked_spec value delta slack)%N.
Proof. exact blocked_correct. Qed.
Print Assumptions C11_sem_threshold_test_correct.

(** ... while the shipped test (value_ < delta + slack, sum formed in size_t) lets a caller through with
    value 0, delta = 2^64 - 1, slack = 1, and value_ -= delta then leaves 1 token that was never signalled. *)
Theorem C11_sem_threshold_test_shipped_refuted :
  (exists value delta slack,
    value < SemOverflow.W /\ delta < SemOverflow.W /\ slack < SemOverflow.W /\
    blocked_spec value delta slack = true /\ blocked_shipped value delta slack = false /\
    wrap (value + SemOverflow.W - delta) = 1)%N.
Proof. exact blocked_shipped_refuted. Qed.
Print Assumptions C11_sem_threshold_test_shipped_refuted.

(** The direct trace checker run on every REAL trace (sem_check: recomputes the token count from the calls in
    the order of the unlock events and compares every returned value, wait threshold and try_acquire outcome)
    accepts every trace of the transition system: a negative verdict on a real trace means the real code
    left the model. *)
Theorem C11_sem_check_accepts_model : forall shipped spur initial progs tr s,
  srun shipped spur (init initial progs) tr = Some s -> sem_check0 initial progs tr = true.
Proof. exact sem_check_accepts_model. Qed.
Print Assumptions C11_sem_check_accepts_model.

(** ---------------------------------------------------------------- ThreadBarrierMutex (n = length gens >= 1)
    [sil g] = generation g is crossed with the default NoOperation lambda (wait() / wait_yield() without argument):
    the action then runs silently; the ghost log [acts] records it all the same.  For the spin barrier
    [y t g] = thread t crosses generation g with wait_yield (callers may be mixed within a generation). *)

(** No thread leaves generation g before all participants have entered it (with or without spurious wake-ups). *)
Theorem C11_bm_no_early_exit : forall spur sil gens s t u g,
  1 <= length gens -> breachable spur (length gens) sil gens s ->
  t < length gens -> u < length gens ->
  g < gen (bthr s t) -> bentered s u g.
Proof. exact bm_no_early_exit. Qed.
Print Assumptions C11_bm_no_early_exit.

(** The action runs exactly once per completed generation, in order, never for an incomplete one, and before
    anyone is released from that generation. *)
Theorem C11_bm_action_once_before_release : forall spur sil gens s,
  1 <= length gens -> breachable spur (length gens) sil gens s ->
  map snd (acts s) = rev (seq 0 (bG s)) /\
  (forall g, count_occ Nat.eq_dec (map snd (acts s)) g = if g <? bG s then 1 else 0) /\
  (forall t g, t < length gens -> g < gen (bthr s t) -> In g (map snd (acts s))).
Proof. exact bm_action_once_before_release. Qed.
Print Assumptions C11_bm_action_once_before_release.

(** ... by the last arriver, when all others have arrived and are still inside. *)
Theorem C11_bm_action_by_last : forall spur sil gens s t g s',
  1 <= length gens -> breachable spur (length gens) sil gens s ->
  bstep spur s (t, OAct g) = Some s' ->
  g = gen (bthr s t) /\ g = bG s /\ ~ In t (arrived s) /\
  (forall u, u < length gens -> u <> t -> In u (arrived s) /\ binside s u /\ gen (bthr s u) = g) /\
  (forall u, u < length gens -> gen (bthr s u) <= g) /\
  ~ In g (map snd (acts s)) /\ acts s' = (t, g) :: acts s.
Proof. exact bm_action_by_last. Qed.
Print Assumptions C11_bm_action_by_last.

(** Reusable for any number K of generations: the only rest state is "everybody crossed K times". *)
Theorem C11_bm_reusable : forall spur n sil K s t,
  1 <= n -> breachable spur n sil (repeat K n) s -> bquiescent spur s -> t < n ->
  bpc (bthr s t) = BDone /\ gen (bthr s t) = K.
Proof. exact bm_reusable. Qed.
Print Assumptions C11_bm_reusable.

(** No hypothesis on the numbers of crossings: a thread rests inside the barrier only in a generation that some
    participant, having finished all of its own crossings, never enters (no lost wake-up, ever). *)
Theorem C11_bm_rest_state : forall spur sil gens s t,
  1 <= length gens -> breachable spur (length gens) sil gens s -> bquiescent spur s -> t < length gens ->
  (bpc (bthr s t) = BDone /\ gen (bthr s t) = nth t gens 0) \/
  (bpc (bthr s t) = BSleep /\ gen (bthr s t) < nth t gens 0 /\
   exists u, u < length gens /\ bpc (bthr s u) = BDone /\ nth u gens 0 = gen (bthr s t)).
Proof. exact bm_rest_state. Qed.
Print Assumptions C11_bm_rest_state.

(** ---------------------------------------------------------------- ThreadBarrierSpin (wait and wait_yield) *)

Theorem C11_bs_no_early_exit : forall y sil gens s t u g,
  1 <= length gens -> sreachable (length gens) y sil gens s ->
  t < length gens -> u < length gens ->
  g < sgen (sthr s t) -> sentered s u g.
Proof. exact bs_no_early_exit. Qed.
Print Assumptions C11_bs_no_early_exit.

Theorem C11_bs_action_once_before_release : forall y sil gens s,
  1 <= length gens -> sreachable (length gens) y sil gens s ->
  map snd (sacts s) = rev (seq 0 (length (sacts s))) /\
  sstp s <= length (sacts s) <= sstp s + 1 /\
  (forall g, count_occ Nat.eq_dec (map snd (sacts s)) g = if g <? length (sacts s) then 1 else 0) /\
  (forall t g, t < length gens -> g < sgen (sthr s t) ->
               In g (map snd (sacts s)) /\ count_occ Nat.eq_dec (map snd (sacts s)) g = 1).
Proof. exact bs_action_once_before_release. Qed.
Print Assumptions C11_bs_action_once_before_release.

Theorem C11_bs_action_by_last : forall y sil gens s t g s',
  1 <= length gens -> sreachable (length gens) y sil gens s ->
  sstep s (t, OAct g) = Some s' ->
  g = sgen (sthr s t) /\ g = sstp s /\ (exists l, sarrived s = t :: l) /\
  (forall u, u < length gens -> u <> t ->
             In u (sarrived s) /\ spinb (spc (sthr s u)) = true /\ tstep (sthr s u) = sstp s /\ sgen (sthr s u) = g) /\
  (forall u, u < length gens -> sgen (sthr s u) <= g) /\
  ~ In g (map snd (sacts s)) /\ sacts s' = (t, g) :: sacts s /\ sstp s' = sstp s.
Proof. exact bs_action_by_last. Qed.
Print Assumptions C11_bs_action_by_last.

(** Reusable for any K: the barrier cannot be stuck in its busy loops short of the end. *)
Theorem C11_bs_no_livelock : forall n y sil K s t,
  1 <= n -> sreachable n y sil (repeat K n) s ->
  (forall e s', sstep s e = Some s' -> is_spin s e) ->
  t < n -> spc (sthr s t) = SDone /\ sgen (sthr s t) = K.
Proof. exact bs_no_livelock. Qed.
Print Assumptions C11_bs_no_livelock.
