From TLXV Require Import C17.Lru C17.LruSet C17.Splay.
Require Extraction. Require ExtrOcamlBasic.
Extraction Language OCaml.
Extraction "../ocaml/gen/C17_model.ml" Lru.lrun Lru.lru_init Lru.lref_run Lru.lvalid LruSet.krun LruSet.kset_init
  Splay.srun Splay.st_init Splay.destroy Splay.ledger_ok Splay.rrun Splay.abs_out.
