(** C18 — StringView answers every query exactly like std::string_view.
    Statements only; proofs live in C18/SVProofs.v, C18/FindProofs.v, C18/Lemmas.v, C18/Refute.v.
    SV.f = the model of tlx::StringView::f (coq/C18/SV.v, tied to /repo by the three-way run of checks/C18.py);
    StdSV.f = the definition of std::string_view::f in [string.view] (coq/C18/StdSV.v).
    [size h < npos] / [size h <= npos]: the view fits size_type. Position/count arguments range over all of N. *)
From Coq Require Import List NArith ZArith Bool.
From TLXV Require Import C18.Defs C18.StdSV C18.Lemmas C18.SV C18.SVDims C18.AlgoLemmas C18.SVProofs C18.FindProofs C18.Refute C18.Window.
Import ListNotations.
Open Scope N_scope.

(* ---- meaning of the specification vocabulary *)
Theorem C18_lowest_is_least : forall P bound, (forall x, P x = true -> x < bound) ->
  let r := lowest P bound in
  (r = npos /\ forall y, P y = false) \/ (P r = true /\ forall y, P y = true -> r <= y).
Proof. exact lowest_spec. Qed.
Print Assumptions C18_lowest_is_least.

Theorem C18_highest_is_greatest : forall P bound, (forall x, P x = true -> x < bound) ->
  let r := highest P bound in
  (r = npos /\ forall y, P y = false) \/ (P r = true /\ forall y, P y = true -> y <= r).
Proof. exact highest_spec. Qed.
Print Assumptions C18_highest_is_greatest.

Theorem C18_size_type_arithmetic : forall a b, a < two64 -> b < two64 ->
  wsub a b = (a + two64 - b) mod two64 /\ wadd a b = (a + b) mod two64.
Proof. exact size_type_arithmetic. Qed.
Print Assumptions C18_size_type_arithmetic.

(* ---- element access with bounds checking, prefix / suffix removal, conversion, substr, copy *)
Theorem C18_sv_eq_std_at : forall h pos, SV.at_ h pos = StdSV.at_ h pos.
Proof. exact sv_eq_std_at. Qed.
Print Assumptions C18_sv_eq_std_at.

Theorem C18_sv_eq_std_index_front_back : forall h,
  (forall pos, pos < size h -> SV.index h pos = StdSV.index h pos) /\
  (0 < size h -> SV.front h = StdSV.front h /\ SV.back h = StdSV.back h).
Proof. exact sv_eq_std_index_front_back. Qed.
Print Assumptions C18_sv_eq_std_index_front_back.

Theorem C18_sv_eq_std_remove_prefix : forall h n, n <= size h -> SV.remove_prefix h n = StdSV.remove_prefix h n.
Proof. exact sv_eq_std_remove_prefix. Qed.
Print Assumptions C18_sv_eq_std_remove_prefix.

Theorem C18_sv_eq_std_remove_suffix : forall h n, n <= size h -> SV.remove_suffix h n = StdSV.remove_suffix h n.
Proof. exact sv_eq_std_remove_suffix. Qed.
Print Assumptions C18_sv_eq_std_remove_suffix.

Theorem C18_sv_eq_std_to_string : forall h, SV.to_string h = StdSV.to_string h.
Proof. exact sv_eq_std_to_string. Qed.
Print Assumptions C18_sv_eq_std_to_string.

Theorem C18_sv_eq_std_substr : forall h pos n, SV.substr h pos n = StdSV.substr h pos n.
Proof. exact sv_eq_std_substr. Qed.
Print Assumptions C18_sv_eq_std_substr.

Theorem C18_sv_eq_std_copy : forall h buf n pos,
  (pos <= size h -> N.min n (size h - pos) <= size buf) ->
  SV.copy h buf n pos = StdSV.copy h buf n pos.
Proof. exact sv_eq_std_copy. Qed.
Print Assumptions C18_sv_eq_std_copy.

(* ---- compare (all overloads) and the comparison / relational operators *)
Theorem C18_sv_eq_std_compare : forall a b, size a <= npos -> SV.compare a b = StdSV.compare a b.
Proof. exact sv_eq_std_compare. Qed.
Print Assumptions C18_sv_eq_std_compare.

Theorem C18_sv_eq_std_compare3 : forall h pos1 n1 x, size h <= npos ->
  SV.compare3 h pos1 n1 x = StdSV.compare3 h pos1 n1 x.
Proof. exact sv_eq_std_compare3. Qed.
Print Assumptions C18_sv_eq_std_compare3.

Theorem C18_sv_eq_std_compare5 : forall h pos1 n1 x pos2 n2, size h <= npos ->
  SV.compare5 h pos1 n1 x pos2 n2 = StdSV.compare5 h pos1 n1 x pos2 n2.
Proof. exact sv_eq_std_compare5. Qed.
Print Assumptions C18_sv_eq_std_compare5.

Theorem C18_sv_eq_std_operators : forall a b, size a <= npos ->
  SV.op_eq a b = StdSV.op_eq a b /\ SV.op_ne a b = StdSV.op_ne a b /\
  SV.op_lt a b = StdSV.op_lt a b /\ SV.op_gt a b = StdSV.op_gt a b /\
  SV.op_le a b = StdSV.op_le a b /\ SV.op_ge a b = StdSV.op_ge a b.
Proof. exact sv_eq_std_operators. Qed.
Print Assumptions C18_sv_eq_std_operators.

(* ---- starts_with / ends_with *)
Theorem C18_sv_eq_std_starts_ends_with : forall h x c, size h <= npos ->
  SV.starts_with h x = StdSV.starts_with h x /\ SV.ends_with h x = StdSV.ends_with h x /\
  SV.starts_with_char h c = StdSV.starts_with_char h c /\ SV.ends_with_char h c = StdSV.ends_with_char h c.
Proof. exact sv_eq_std_starts_ends_with. Qed.
Print Assumptions C18_sv_eq_std_starts_ends_with.

(* ---- the find family *)
Theorem C18_sv_eq_std_find : forall h s pos, size h < npos -> SV.find h s pos = StdSV.find h s pos.
Proof. exact sv_eq_std_find. Qed.
Print Assumptions C18_sv_eq_std_find.

Theorem C18_sv_eq_std_rfind : forall h s pos, size h < npos -> SV.rfind h s pos = StdSV.rfind h s pos.
Proof. exact sv_eq_std_rfind. Qed.
Print Assumptions C18_sv_eq_std_rfind.

Theorem C18_sv_eq_std_find_first_of : forall h s pos, size h <= npos ->
  SV.find_first_of h s pos = StdSV.find_first_of h s pos.
Proof. exact sv_eq_std_find_first_of. Qed.
Print Assumptions C18_sv_eq_std_find_first_of.

Theorem C18_sv_eq_std_find_last_of : forall h s pos, size h <= npos ->
  SV.find_last_of h s pos = StdSV.find_last_of h s pos.
Proof. exact sv_eq_std_find_last_of. Qed.
Print Assumptions C18_sv_eq_std_find_last_of.

Theorem C18_sv_eq_std_find_first_not_of : forall h s pos, size h <= npos ->
  SV.find_first_not_of h s pos = StdSV.find_first_not_of h s pos.
Proof. exact sv_eq_std_find_first_not_of. Qed.
Print Assumptions C18_sv_eq_std_find_first_not_of.

Theorem C18_sv_eq_std_find_last_not_of : forall h s pos, size h <= npos ->
  SV.find_last_not_of h s pos = StdSV.find_last_not_of h s pos.
Proof. exact sv_eq_std_find_last_not_of. Qed.
Print Assumptions C18_sv_eq_std_find_last_not_of.

(* ---- overloads: f(const char* s, ..) sees the bytes before the first NUL (traits::length), f(s, pos, n) the first n *)
Theorem C18_sv_eq_std_overload_adaptors : forall s n, size s < npos ->
  SV.of_cstr s = StdSV.of_cstr s /\ (n <= size s -> SV.of_ptr_n s n = tabulate (nthN s) n).
Proof. exact sv_eq_std_overload_adaptors. Qed.
Print Assumptions C18_sv_eq_std_overload_adaptors.

(* ---- the code as shipped (704fd0b) violates the same statements: concrete witnesses *)
Theorem C18_copy_shipped_refuted :
  exists h buf n pos, (pos <= size h -> N.min n (size h - pos) <= size buf) /\
    SV.copy_shipped h buf n pos = Ok (2, [97; 98; 46]) /\ StdSV.copy h buf n pos = Ok (2, [100; 101; 46]).
Proof. exact copy_shipped_refuted. Qed.
Print Assumptions C18_copy_shipped_refuted.

Theorem C18_compare_shipped_refuted :
  exists a b, size a <= npos /\ SV.compare_shipped a b = 0%Z /\ StdSV.compare a b = (-1)%Z.
Proof. exact compare_shipped_refuted. Qed.
Print Assumptions C18_compare_shipped_refuted.

Theorem C18_rfind_shipped_refuted :
  exists h s pos, size h < npos /\ SV.rfind_shipped h s pos = 2 /\ StdSV.rfind h s pos = 0.
Proof. exact rfind_shipped_refuted. Qed.
Print Assumptions C18_rfind_shipped_refuted.

Theorem C18_relational_shipped_refuted :
  exists a b, size a <= npos /\
    SV.op_lt_shipped a b = true /\ StdSV.op_lt a b = false /\
    SV.op_ge_shipped a b = false /\ StdSV.op_ge a b = true /\
    SV.op_gt_shipped a b = false /\ StdSV.op_gt a b = true /\
    SV.op_le_shipped a b = true /\ StdSV.op_le a b = false.
Proof. exact op_lt_shipped_refuted. Qed.
Print Assumptions C18_relational_shipped_refuted.

Theorem C18_compare3_shipped_refuted :
  exists h pos1 n1 x, size h <= npos /\
    SV.compare3_shipped h pos1 n1 x = Terminate /\ StdSV.compare3 h pos1 n1 x = OutOfRange.
Proof. exact compare3_shipped_refuted. Qed.
Print Assumptions C18_compare3_shipped_refuted.

(* ---- locality: a query depends on the view's size and on a short window of its bytes. This is what lets the
        correspondence run evaluate the model on views of 2^31 .. 2^32+2^31 bytes (size as a number, window as a list). *)
Theorem C18_compare_window : forall a b,
  SV.compare a b = SV.compare (takeN (size b + 1) a) b /\ SV.compare b a = SV.compare b (takeN (size b + 1) a).
Proof. exact (fun a b => conj (compare_window a b) (compare_window_r a b)). Qed.
Print Assumptions C18_compare_window.

Theorem C18_operators_window : forall a b,
  let a' := takeN (size b + 1) a in
  (SV.op_eq a b = SV.op_eq a' b /\ SV.op_ne a b = SV.op_ne a' b /\ SV.op_lt a b = SV.op_lt a' b /\
   SV.op_gt a b = SV.op_gt a' b /\ SV.op_le a b = SV.op_le a' b /\ SV.op_ge a b = SV.op_ge a' b) /\
  (SV.op_eq b a = SV.op_eq b a' /\ SV.op_ne b a = SV.op_ne b a' /\ SV.op_lt b a = SV.op_lt b a' /\
   SV.op_gt b a = SV.op_gt b a' /\ SV.op_le b a = SV.op_le b a' /\ SV.op_ge b a = SV.op_ge b a').
Proof. exact operators_window. Qed.
Print Assumptions C18_operators_window.

Theorem C18_substr_compare_factor : forall h pos n x,
  SV.substr h pos n = match substr_dims (size h) pos n with
                      | Ok (o, l) => Ok (window h o l) | OutOfRange => OutOfRange | Terminate => Terminate end /\
  SV.compare3 h pos n x = match substr_dims (size h) pos n with
                          | Ok (o, l) => Ok (SV.compare (window h o l) x) | _ => OutOfRange end.
Proof. exact (fun h pos n x => conj (substr_factor h pos n) (compare3_factor h pos n x)). Qed.
Print Assumptions C18_substr_compare_factor.

Theorem C18_starts_ends_with_window : forall h x, size x <= size h ->
  SV.starts_with h x = SV.starts_with (window h 0 (size x)) x /\
  SV.ends_with h x = SV.ends_with (window h (size h - size x) (size x)) x.
Proof. exact (fun h x H => conj (starts_with_window h x H) (ends_with_window h x H)). Qed.
Print Assumptions C18_starts_ends_with_window.

Theorem C18_find_shift : forall h s pos o, size h < npos -> o <= pos -> o <= size h ->
  SV.find h s pos = (let r := SV.find (dropN o h) s (pos - o) in if r =? npos then npos else o + r).
Proof. exact find_shift. Qed.
Print Assumptions C18_find_shift.

Theorem C18_rfind_shift : forall h s pos o r, size h < npos -> o <= pos -> o <= size h ->
  SV.rfind (dropN o h) s (pos - o) = r -> r <> npos -> SV.rfind h s pos = o + r.
Proof. exact rfind_shift. Qed.
Print Assumptions C18_rfind_shift.

Theorem C18_backward_search_prefix : forall h s pos, size h < npos ->
  (pos + size s <= size h -> SV.rfind h s pos = SV.rfind (window h 0 (pos + size s)) s pos) /\
  (pos < size h -> SV.find_last_of h s pos = SV.find_last_of (window h 0 (pos + 1)) s pos /\
                   SV.find_last_not_of h s pos = SV.find_last_not_of (window h 0 (pos + 1)) s pos).
Proof.
  exact (fun h s pos H => conj (rfind_prefix h s pos H)
           (fun Hp => conj (find_last_of_prefix h s pos (N.lt_le_incl _ _ H) Hp)
                           (find_last_not_of_prefix h s pos (N.lt_le_incl _ _ H) Hp))).
Qed.
Print Assumptions C18_backward_search_prefix.

(* ---- outside std::string_view's domain (its precondition is n <= size()): tlx clamps; run against the real code as well *)
Theorem C18_remove_prefix_suffix_clamp : forall h n, size h <= n ->
  SV.remove_prefix h n = SV.remove_prefix h (size h) /\ SV.remove_suffix h n = SV.remove_suffix h (size h).
Proof. exact remove_prefix_suffix_clamp. Qed.
Print Assumptions C18_remove_prefix_suffix_clamp.
