From TLXV Require Import C18.Defs C18.SV.
Theorem C18_placeholder : True. Proof. exact I. Qed.
Print Assumptions C18_placeholder.
