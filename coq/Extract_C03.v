From TLXV Require Import C03.Model C03.Spec.
Require Extraction. Require ExtrOcamlBasic.
Extraction Language OCaml.
Extraction "../ocaml/gen/C03_model.ml" Model.run_algo Spec.check_sp Spec.check_spl Spec.lcp_check.
