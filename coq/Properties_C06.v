(** C06 — parallel_mergesort sorts (stably when asked) for every size and thread count.
    Statements only; the model is C06/PMS.v, the proofs are in C06/{MergeLemmas,Layout,Cuts,PMSProofs,
    SplitSpec,Top,Ledger,Sched,Schedule}.v.

    Reading guide.  [pms ltb lsort ssort partition mmerge d sampling os p input] is the model of
    (stable_)parallel_mergesort(begin, end, comp, p, sampling ? MWMSA_SAMPLING : MWMSA_EXACT) with
    parallel_multiway_merge_oversampling = os; its parameters are the building blocks the code calls:
    the local sort, the sort of the samples, multisequence_partition (C08) and multiway_merge_base
    (C05).  [sorts], [partitions] ([is_split]: sum = rank, every left element before every right one in
    (value, sequence) order) and [merges] are their specifications. *)
From Coq Require Import List Bool Arith Lia PeanoNat NArith Sorting.Sorted Sorting.Permutation.
From TLXV Require Import Common.Order C06.PMS C06.MergeLemmas C06.Layout C06.Cuts C06.PMSProofs C06.SplitSpec
     C06.Top C06.Ledger C06.Sched C06.Schedule C06.Instances.
Import ListNotations.

(** parallel_mergesort: for every strict weak order, every input (n >= 0), every thread count >= 1
    (clamped to n inside), both splittings, every oversampling factor (>= 1 when the splitting is by sampling; unused by exact splitting): the range ends as a permutation
    of the input in non-decreasing comparator order; no piece has negative length or leaves its run
    and no output window leaves the range ([res_ok]). *)
Theorem C06_parallel_mergesort_sorted_permutation :
  forall (A : Type) (ltb : A -> A -> bool), SWO ltb ->
  forall lsort ssort partition mmerge (d : A),
    sorts ltb lsort -> sorts ltb ssort -> partitions ltb partition -> merges ltb mmerge ->
  forall (sampling : bool) (os p : nat) (input : list A), (sampling = true -> 1 <= os) -> 1 <= p ->
    let r := pms ltb lsort ssort partition mmerge d sampling os p input in
    Permutation (res_array r) input /\ SS ltb (res_array r) /\ res_ok r = true.
Proof. exact @pms_sorted_permutation. Qed.
Print Assumptions C06_parallel_mergesort_sorted_permutation.

(** stable_parallel_mergesort (local sort = std::stable_sort, merge = stable multiway merge): the range
    ends in exactly the arrangement std::stable_sort produces. *)
Theorem C06_stable_parallel_mergesort_is_stable_sort :
  forall (A : Type) (ltb : A -> A -> bool), SWO ltb ->
  forall lsort ssort partition mmerge (d : A),
    sorts ltb lsort -> sorts ltb ssort -> partitions ltb partition -> merges ltb mmerge ->
    (forall l, lsort l = stable_sort ltb l) ->
    (forall seqs, Forall (SS ltb) seqs -> mmerge seqs = smerge ltb seqs) ->
  forall (sampling : bool) (os p : nat) (input : list A), (sampling = true -> 1 <= os) -> 1 <= p ->
    res_array (pms ltb lsort ssort partition mmerge d sampling os p input) = stable_sort ltb input.
Proof. exact @pms_stable. Qed.
Print Assumptions C06_stable_parallel_mergesort_is_stable_sort.

(** [stable_sort] is the std::stable_sort specification: sorted, a permutation, and the elements
    equivalent to any k keep their input order (these three properties determine the arrangement). *)
Theorem C06_stable_sort_is_the_stable_arrangement :
  forall (A : Type) (ltb : A -> A -> bool), SWO ltb -> forall l : list A,
    SS ltb (stable_sort ltb l) /\ Permutation (stable_sort ltb l) l /\
    forall k, filter (eqv ltb k) (stable_sort ltb l) = filter (eqv ltb k) l.
Proof.
  intros A ltb H l. split; [now apply ssort_sorted|]. split; [apply ssort_perm|]. intros k. now apply ssort_stable.
Qed.
Print Assumptions C06_stable_sort_is_the_stable_arrangement.

(** pieces_partition: for both splittings and every run s, the pieces of the threads are ordered,
    disjoint and cover the run (thread 0 begins at 0, thread t+1 begins where thread t ends, the last
    thread ends at the end of the run, 0 <= begin <= end <= length). *)
Theorem C06_pieces_partition :
  forall (A : Type) (ltb : A -> A -> bool), SWO ltb ->
  forall lsort ssort partition (d : A),
    sorts ltb lsort -> sorts ltb ssort -> partitions ltb partition ->
  forall (sampling : bool) (os : nat), (sampling = true -> 1 <= os) ->
  forall (input : list A) (p : nat), 1 <= p -> p <= length input ->
  forall s, s < p ->
    let pc t := nth t (pcs ltb lsort ssort partition d sampling os input p) {| pbegin := []; pend := [] |} in
    let run := nth s (temporaries lsort input (starts (length input) p) p) [] in
    nth s (pbegin (pc 0)) 0 = 0 /\
    forall t, t < p ->
      nth s (pbegin (pc t)) 0 <= nth s (pend (pc t)) 0 <= length run /\
      (S t < p -> nth s (pbegin (pc (S t))) 0 = nth s (pend (pc t)) 0) /\
      (S t = p -> nth s (pend (pc t)) 0 = length run).
Proof. exact @pieces_partition_run. Qed.
Print Assumptions C06_pieces_partition.

(** windows_partition: the output windows [offset_t, offset_t + length_t) start at 0, are consecutive
    and end at n: disjoint and covering [0, n). *)
Theorem C06_windows_partition :
  forall (A : Type) (ltb : A -> A -> bool), SWO ltb ->
  forall lsort ssort partition mmerge (d : A),
    sorts ltb lsort -> sorts ltb ssort -> partitions ltb partition -> merges ltb mmerge ->
  forall (sampling : bool) (os p0 : nat) (input : list A), (sampling = true -> 1 <= os) -> 1 <= p0 -> 2 <= length input ->
    let w := res_windows (pms ltb lsort ssort partition mmerge d sampling os p0 input) in
    let p := clamp_threads (length input) p0 in
    length w = p /\ fst (nth 0 w (0, 0)) = 0 /\
    forall t, t < p -> fst (nth t w (0, 0)) + snd (nth t w (0, 0)) =
                       if S t <? p then fst (nth (S t) w (0, 0)) else length input.
Proof. exact @pms_windows_partition. Qed.
Print Assumptions C06_windows_partition.

(** race_free_model: in every phase between two barriers (local copy+sort [+ samples]; exact split;
    pieces + merge into the range; release), no location written by one thread is read or written by
    another thread. *)
Theorem C06_race_free_model :
  forall (A : Type) (ltb : A -> A -> bool), SWO ltb ->
  forall lsort ssort partition mmerge (d : A),
    sorts ltb lsort -> sorts ltb ssort -> partitions ltb partition -> merges ltb mmerge ->
  forall (sampling : bool) (os p0 : nat), (sampling = true -> 1 <= os) -> 1 <= p0 ->
  forall input : list A, 2 <= length input ->
    let p := clamp_threads (length input) p0 in
    let w := res_windows (pms ltb lsort ssort partition mmerge d sampling os p0 input) in
  forall ph t u l, t < p -> u < p -> t <> u ->
    writes sampling (num_samples os p) w ph t l ->
    ~ reads sampling (starts (length input) p) ph u l /\ ~ writes sampling (num_samples os p) w ph u l.
Proof. exact @pms_race_free. Qed.
Print Assumptions C06_race_free_model.

(** Schedule independence, generic: in a phase whose thread actions are race free, every execution
    (any interleaving of the writes; every thread may have read any mixture of old and new values of
    locations written by others) ends in the memory of the sequential execution. *)
Theorem C06_phase_deterministic :
  forall (L V : Type) (leqb : L -> L -> bool), (forall a b, leqb a b = true <-> a = b) ->
  forall (p : nat) (a : nat -> action L V) (m0 : L -> V),
    race_free L V p a ->
  forall evs,
    (forall l, (exists t, t < p /\ wr L V (a t) l) \/ (forall t, t < p -> ~ wr L V (a t) l)) ->
    execution L V p a m0 evs ->
    forall l, apply_writes L V leqb m0 (map snd evs) l = apply_writes L V leqb m0 (map snd (sequential L V p a m0)) l.
Proof. exact phase_deterministic. Qed.
Print Assumptions C06_phase_deterministic.

(** ... and for the merge phase of the model: whatever the interleaving of the threads' element-wise
    writes into the caller's range, the range ends as under the sequential schedule [pms] uses. *)
Theorem C06_result_independent_of_schedule :
  forall (A : Type) (ltb : A -> A -> bool), SWO ltb ->
  forall lsort ssort partition mmerge (d : A),
    sorts ltb lsort -> sorts ltb ssort -> partitions ltb partition -> merges ltb mmerge ->
  forall (sampling : bool) (os p0 : nat), (sampling = true -> 1 <= os) -> 1 <= p0 ->
  forall input : list A, 2 <= length input ->
  forall (outs : nat -> list A) (m0 : nat -> A) evs,
    let p := clamp_threads (length input) p0 in
    let act := merge_action ltb lsort ssort partition mmerge d sampling os p0 input outs in
    execution nat A p act m0 evs ->
    forall i, apply_writes nat A Nat.eqb m0 (map snd evs) i =
              apply_writes nat A Nat.eqb m0 (map snd (sequential nat A p act m0)) i.
Proof. exact @merge_phase_schedule_independent. Qed.
Print Assumptions C06_result_independent_of_schedule.

(** temporaries_destroyed (repaired code): under every interleaving of the threads' storage events,
    when the sort returns no temporary copy is alive, no block is allocated and no lifetime error
    (construct outside storage / over a live object, destroy of a dead object) occurred. *)
Theorem C06_temporaries_destroyed :
  forall n p0 evs, 2 <= n -> 1 <= p0 ->
    let p := clamp_threads n p0 in
    ledger_schedule true (starts n p) p evs ->
    ledger_run evs = {| blocks := []; live := []; lerr := false |}.
Proof. exact temporaries_destroyed. Qed.
Print Assumptions C06_temporaries_destroyed.

(** the code as shipped (operator delete without destroying the copies) leaves every copy alive *)
Theorem C06_temporaries_shipped_refuted :
  temporaries_live_after false 2 1 = 2 /\ temporaries_live_after false 1000 8 = 1000.
Proof. exact temporaries_shipped_refuted. Qed.
Print Assumptions C06_temporaries_shipped_refuted.

(** The reference partition (counts among the first r elements of the stable merge, ties to the earlier
    sequence) meets [is_split], and [is_split] has at most one solution: the tie rule pins the result
    of multisequence_partition, which is what exact splitting relies on. *)
Theorem C06_split_spec_is_the_split :
  forall (A : Type) (ltb : A -> A -> bool), SWO ltb ->
  forall (seqs : list (list A)) r, Forall (SS ltb) seqs -> r <= length (concat seqs) ->
    is_split ltb seqs r (split_spec ltb seqs r) /\
    forall c, is_split ltb seqs r c -> c = split_spec ltb seqs r.
Proof.
  intros A ltb H seqs r Hs Hr. split; [now apply split_spec_is_split|].
  intros c Hc. eapply split_unique; [exact Hc|now apply split_spec_is_split].
Qed.
Print Assumptions C06_split_spec_is_the_split.

(** The extracted model that the correspondence run executes next to the C++ code (reference
    implementations of the four building blocks, elements (key, original index), comparator less or
    greater on the key): closed theorem, no hypotheses left. *)
Theorem C06_extracted_model_correct :
  forall rev sampling os p input, (sampling = true -> 1 <= os) -> 1 <= p ->
    res_array (pms_ref rev sampling os p input) = stable_sort_ref rev input /\
    res_ok (pms_ref rev sampling os p input) = true.
Proof. exact pms_ref_correct. Qed.
Print Assumptions C06_extracted_model_correct.

(** * Closed versions over the proved models of the other properties

    [partition_c08] = the C08 model of multisequence_partition ([MSP.partition], padding / sample sort / halving
    loop / both priority-queue corrections, repaired tie rule; theorem C08_partition_correct), offsets read back as
    nat; [mmerge_c05 stable] = the C05 model of multiway_merge_base<stable, false> ([Model.mwm_base]: k switch,
    merge_advance, generated 3/4-way automata, loser-tree merges over the reference tournament) with the default
    algorithm MWMA_LOSER_TREE_COMBINED, run to full length (theorem C05 Final.ref_mwm_run).  No hypothesis about
    the partition or the merge is left; the local sort and the sample sort remain std::sort / std::stable_sort by
    specification.  Both splitting strategies. *)

(** the two adapters: C05's step-wise stable merge is the fold of binary stable merges used in C06, on every
    input; the C05 model run to full length returns it; the C08 model meets [partitions]. *)
Theorem C06_c05_c08_adapters :
  forall (A : Type) (ltb : A -> A -> bool), SWO ltb ->
    (forall st : list (list A), StableMerge.gmerge ltb st = smerge ltb st) /\
    (forall seqs, Forall (SS ltb) seqs -> mmerge_c05 ltb true seqs = smerge ltb seqs) /\
    (forall stable, merges ltb (mmerge_c05 ltb stable)) /\
    partitions ltb (partition_c08 ltb).
Proof.
  intros A ltb H. split; [exact (gmerge_is_smerge ltb H)|]. split; [exact (mmerge_c05_stable ltb H)|].
  split; [exact (mmerge_c05_merges ltb H)|exact (partition_c08_spec ltb H)].
Qed.
Print Assumptions C06_c05_c08_adapters.

Theorem C06_parallel_mergesort_sorted_permutation_closed :
  forall (A : Type) (ltb : A -> A -> bool), SWO ltb ->
  forall lsort ssort (d : A), sorts ltb lsort -> sorts ltb ssort ->
  forall (stable sampling : bool) (os p : nat) (input : list A), (sampling = true -> 1 <= os) -> 1 <= p ->
    let r := pms ltb lsort ssort (partition_c08 ltb) (mmerge_c05 ltb stable) d sampling os p input in
    Permutation (res_array r) input /\ SS ltb (res_array r) /\ res_ok r = true.
Proof. exact @pms_c08_c05_sorted_permutation. Qed.
Print Assumptions C06_parallel_mergesort_sorted_permutation_closed.

Theorem C06_stable_parallel_mergesort_is_stable_sort_closed :
  forall (A : Type) (ltb : A -> A -> bool), SWO ltb ->
  forall lsort ssort (d : A), sorts ltb lsort -> sorts ltb ssort ->
  forall (sampling : bool) (os p : nat) (input : list A), (sampling = true -> 1 <= os) -> 1 <= p ->
    (forall l, lsort l = stable_sort ltb l) ->
    res_array (pms ltb lsort ssort (partition_c08 ltb) (mmerge_c05 ltb true) d sampling os p input) = stable_sort ltb input.
Proof. exact @pms_c08_c05_stable. Qed.
Print Assumptions C06_stable_parallel_mergesort_is_stable_sort_closed.

(** ... and the same two theorems with the loser trees of the merge taken from the C09 model (C05/C09Model.v,
    C05/C09Instance.v: guarded and unguarded tree classes, pointer- or copy-based [ptr], default key [dk]) instead of
    the reference tournament.  [mmerge_c09] runs C05's [mwm_base] over C09's trees whenever there are at most 2^30
    sequences (the domain of C09's model, Source = uint32_t), i.e. always for a sort with one sequence per thread. *)
Theorem C06_parallel_mergesort_sorted_permutation_closed_c09 :
  forall (A : Type) (ltb : A -> A -> bool), SWO ltb ->
  forall (dk : A) lsort ssort (d : A), sorts ltb lsort -> sorts ltb ssort ->
  forall (ptr stable sampling : bool) (os p : nat) (input : list A), (sampling = true -> 1 <= os) -> 1 <= p ->
    let r := pms ltb lsort ssort (partition_c08 ltb) (mmerge_c09 ltb dk ptr stable) d sampling os p input in
    Permutation (res_array r) input /\ SS ltb (res_array r) /\ res_ok r = true.
Proof. exact @pms_c08_c09_sorted_permutation. Qed.
Print Assumptions C06_parallel_mergesort_sorted_permutation_closed_c09.

Theorem C06_stable_parallel_mergesort_is_stable_sort_closed_c09 :
  forall (A : Type) (ltb : A -> A -> bool), SWO ltb ->
  forall (dk : A) lsort ssort (d : A), sorts ltb lsort -> sorts ltb ssort ->
  forall (ptr sampling : bool) (os p : nat) (input : list A), (sampling = true -> 1 <= os) -> 1 <= p ->
    (forall l, lsort l = stable_sort ltb l) ->
    res_array (pms ltb lsort ssort (partition_c08 ltb) (mmerge_c09 ltb dk ptr true) d sampling os p input) = stable_sort ltb input.
Proof. exact @pms_c08_c09_stable. Qed.
Print Assumptions C06_stable_parallel_mergesort_is_stable_sort_closed_c09.
