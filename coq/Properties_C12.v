(** C12 — CountingPtr destroys its object exactly once, when the last owner lets go.
    Statements only; proofs live in C12/CPtrProofs.v (sequential histories) and C12/ConcProofs.v (interleavings). *)
From Coq Require Import List Arith Bool.
From TLXV Require Import C12.CPtr C12.CPtrProofs C12.UnifyProofs C12.Conc C12.ConcProofs C12.Nested C12.NestedProofs C12.Examples.
Import ListNotations.

(** Sequential part.  [nodel v] says that handle variable [v] carries the no-operation Deleter
    (tlx::CountingPtrNoDelete<T>); every theorem holds for every such assignment, i.e. for any mixture of default and
    no-delete handles, also on the same object.  [dcount] = calls of [delete ptr]; [orph] = calls of the no-operation
    Deleter (object left alive without owner).  For every number [n] of handle variables and every history [ops] of constructing (default,
    nullptr, from a raw pointer - of a handle or of any object still alive, so also adopted twice or re-adopted after a
    no-delete handle let go last -, fresh object), copying, moving, converting, assigning (including self- and
    alias-assignment, [= nullptr], and assignment of the counted objects themselves), swapping, resetting, unifying and destroying handles, for every object [o] ever created:
    the reference count equals the number of handle variables pointing to the object ... *)
Theorem C12_count_is_handles : forall nodel n ops o c,
  let s := run nodel (init n) ops in
  nth_error (cells s) o = Some c -> rc c = handles s o.
Proof. exact count_is_handles. Qed.
Print Assumptions C12_count_is_handles.

(** ... the Deleter has run exactly once if no handle points to it and not at all otherwise ... *)
Theorem C12_destroyed_iff_no_handle : forall nodel n ops o c,
  let s := run nodel (init n) ops in
  nth_error (cells s) o = Some c -> dcount c + orph c = (if handles s o =? 0 then 1 else 0).
Proof. exact destroyed_iff_no_handle. Qed.
Print Assumptions C12_destroyed_iff_no_handle.

(** With default-deleter handles only (the property as stated): the object is destroyed ([delete]) exactly once iff no
    handle points to it. *)
Theorem C12_default_destroyed_iff_no_handle : forall nodel, (forall v, nodel v = false) -> forall n ops o c,
  let s := run nodel (init n) ops in
  nth_error (cells s) o = Some c -> dcount c = (if handles s o =? 0 then 1 else 0) /\ orph c = 0.
Proof. exact default_destroyed_iff_no_handle. Qed.
Print Assumptions C12_default_destroyed_iff_no_handle.

(** ... it runs in exactly the step in which that number drops to zero (objects stay in the heap list, payloads
    never change; the only way back from zero handles is the adoption of the raw pointer of an object that a
    no-delete handle left alive; a destroyed object never gets a handle again) ... *)
Theorem C12_destroy_at_the_drop : forall nodel n ops op o c,
  let s := run nodel (init n) ops in
  let s' := fst (step nodel s op) in
  nth_error (cells s) o = Some c ->
  exists c', nth_error (cells s') o = Some c' /\
    dcount c' + orph c' + (if (handles s o =? 0) && (0 <? handles s' o) then 1 else 0)
      = dcount c + orph c + (if (0 <? handles s o) && (handles s' o =? 0) then 1 else 0) /\
    dcount c <= dcount c' /\
    (dcount c = 1 -> handles s' o = 0) /\ val c' = val c.
Proof. exact destroy_at_the_drop. Qed.
Print Assumptions C12_destroy_at_the_drop.

(** ... and no operation, at any point inside its body, touches the counter of a destroyed object, decrements a
    zero counter or follows a pointer to no object (the ledger flag of the model). *)
Theorem C12_ledger_clean : forall nodel n ops, bad (run nodel (init n) ops) = false.
Proof. exact ledger_clean. Qed.
Print Assumptions C12_ledger_clean.

Theorem C12_handles_point_to_live_objects : forall nodel n ops v o,
  let s := run nodel (init n) ops in
  getv s v = Live (Some o) -> exists c, nth_error (cells s) o = Some c /\ dcount c = 0 /\ orph c = 0 /\ 0 < rc c.
Proof. exact handles_point_to_objects. Qed.
Print Assumptions C12_handles_point_to_live_objects.

(** When finally every variable is destroyed, every object ever created has been destroyed exactly once. *)
Theorem C12_all_destroyed_at_end : forall nodel n ops o c,
  let s := finish nodel (run nodel (init n) ops) in
  nth_error (cells s) o = Some c -> dcount c + orph c = 1 /\ rc c = 0.
Proof. exact all_destroyed_at_end. Qed.
Print Assumptions C12_all_destroyed_at_end.

(** The aliasing cases are no-ops (early return on [ptr_ == other.ptr_]); in particular a move from an alias does
    not empty the source. *)
Theorem C12_alias_assignments : forall nodel s v w,
  ptr_of s v = ptr_of s w ->
  copy_assign nodel s v w = s /\ move_assign nodel s v w = s /\ conv_copy_assign nodel s v w = s /\ conv_move_assign nodel s v w = s.
Proof. intros nodel s v w H. repeat split; try apply copy_assign_alias; try apply move_assign_alias; exact H. Qed.
Print Assumptions C12_alias_assignments.

(** unify(): a unique handle is left alone; a shared one is re-pointed to a fresh clone with the same payload of
    which it is the only owner (use_count 1, alive); no other variable changes. *)
Theorem C12_unify_spec : forall nodel n ops v o c,
  let s := run nodel (init n) ops in
  getv s v = Live (Some o) -> nth_error (cells s) o = Some c ->
  (rc c = 1 -> vars (unify nodel s v) = vars s /\ cells (unify nodel s v) = cells s) /\
  (rc c <> 1 ->
     vars (unify nodel s v) = upd (vars s) v (Live (Some (length (cells s)))) /\
     exists c', nth_error (cells (unify nodel s v)) (length (cells s)) = Some c' /\
                rc c' = 1 /\ dcount c' = 0 /\ val c' = val c).
Proof. exact unify_spec. Qed.
Print Assumptions C12_unify_spec.

Theorem C12_unify_empty : forall nodel s v, ptr_of s v = None -> unify nodel s v = s.
Proof. intros nodel s v H. unfold unify. now rewrite H. Qed.
Print Assumptions C12_unify_empty.

(** A release through a no-delete handle never destroys: [dcount] is unchanged by it. *)
Theorem C12_nodelete_release_never_destroys : forall s p o c c',
  nth_error (cells s) o = Some c -> nth_error (cells (dec_reference true s p)) o = Some c' -> dcount c' = dcount c.
Proof. exact nodelete_release_never_destroys. Qed.
Print Assumptions C12_nodelete_release_never_destroys.

(** The ledger is not vacuous: the variant with the decrement first and no alias test is caught by it. *)
Theorem C12_decfirst_variant_refuted :
  let s := run alldef (init 1) [ONew 0 5] in
  Inv s /\ bad (copy_assign alldef s 0 0) = false /\ bad (copy_assign_decfirst alldef s 0 0) = true.
Proof. exact copy_assign_decfirst_refuted. Qed.
Print Assumptions C12_decfirst_variant_refuted.

(** Handles INSIDE managed objects (Nested.v: nodes with a member handle [next], [k] outer handles, operations
    [v = new Node], [v = w], [v.reset()], [v->next = w], [v = w->next], [v = std::move(w->next)] - the last two with
    [v = w] consume a list from its head, i.e. the source of the assignment is a member of the object being released).
    For every history, with the committed statement order (retarget, release last): the count of every node is the
    number of handles pointing to it - outer handles plus members of LIVE nodes -, the node has been destroyed exactly
    once iff that number is zero, and no step, including the cascades of destructors through the members, touched a
    destroyed node. No acyclicity hypothesis is needed for these statements (a cycle simply never reaches zero). *)
Theorem C12_nested_count_is_handles : forall k ops o c,
  let s := nrun (ninit k) ops in
  nth_error (ncells s) o = Some c ->
  nrc c = nhandles s o /\ ndc c = (if nhandles s o =? 0 then 1 else 0) /\ nbad s = false.
Proof. exact nested_count_is_handles. Qed.
Print Assumptions C12_nested_count_is_handles.

Theorem C12_nested_member_points_to_live : forall k ops o c t,
  let s := nrun (ninit k) ops in
  nth_error (ncells s) o = Some c -> ndc c = 0 -> nnext c = Some t ->
  exists ct, nth_error (ncells s) t = Some ct /\ ndc ct = 0 /\ 0 < nrc ct.
Proof. exact nested_member_points_to_live. Qed.
Print Assumptions C12_nested_member_points_to_live.

(** The statement order shipped before ccc5d47 (release first, read [other.ptr_] afterwards), on the list
    v1 -> node1 -> node0: [head = head->next] reads the member of the destroyed head; [head = std::move(head->next)]
    moreover destroys the successor and leaves the head pointing to it.  On objects that hold plain data the two orders
    compute the same state. *)
Theorem C12_assign_from_member_shipped_refuted :
  NInv chain2 /\
  nbad (n_from_next chain2 1 1) = false /\ nbad (n_from_next_shipped chain2 1 1) = true.
Proof. exact n_from_next_shipped_refuted. Qed.
Print Assumptions C12_assign_from_member_shipped_refuted.

Theorem C12_move_from_member_shipped_refuted :
  let good := n_move_next chain2 1 1 in
  let shipped := n_move_next_shipped chain2 1 1 in
  nbad good = false /\ map ndc (ncells good) = [0; 1] /\ nvars good = [None; Some 0] /\
  nbad shipped = true /\ map ndc (ncells shipped) = [1; 1] /\ nvars shipped = [None; Some 0].
Proof. exact n_move_next_shipped_refuted. Qed.
Print Assumptions C12_move_from_member_shipped_refuted.

Theorem C12_assign_orders_agree_on_plain_objects : forall nodel s v w,
  (live s v = true -> copy_assign_shipped nodel s v w = copy_assign nodel s v w) /\
  move_assign_shipped nodel s v w = move_assign nodel s v w.
Proof. intros. split; [apply copy_assign_shipped_eq|apply move_assign_shipped_eq]. Qed.
Print Assumptions C12_assign_orders_agree_on_plain_objects.

(** Concurrent part.  For every number of threads (length of [hs]), every initial distribution [hs] of at least one
    handle, and every interleaving [tr] of copy (begin, atomic increment), release (atomic decrement-and-test,
    Deleter), hand-over, use and clone-read (unify) events: the counter equals the number of complete handles, the object is destroyed
    at most once, never while any thread holds a handle or is in the middle of a copy, and it has been destroyed
    when all threads have let go; no event misbehaves (resurrection, underflow, use after destruction). *)
Theorem C12_concurrent_invariant : forall hs tr st,
  1 <= list_sum hs -> lrun (cinit hs) tr = Some st ->
  cbad st = false /\
  refcount st = sum_held (threads st) /\
  destroyed st <= 1 /\
  (destroyed st = 1 -> forall t th, nth_error (threads st) t = Some th -> held th = 0 /\ tpc th = Idle) /\
  (quiescent st = true -> destroyed st = 1).
Proof. exact conc_invariant. Qed.
Print Assumptions C12_concurrent_invariant.

(** The Deleter runs exactly at the moment the count has dropped to zero: it is the first call, and no complete
    handle exists. *)
Theorem C12_concurrent_delete_only_at_zero : forall hs tr st t st',
  1 <= list_sum hs -> lrun (cinit hs) tr = Some st -> lstep st (EvDelete t) = Some st' ->
  destroyed st = 0 /\ destroyed st' = 1 /\ refcount st = 0 /\ sum_held (threads st) = 0.
Proof. exact conc_delete_only_at_zero. Qed.
Print Assumptions C12_concurrent_delete_only_at_zero.

(** An increment never finds the counter at zero. *)
Theorem C12_concurrent_no_resurrection : forall hs tr st t old st',
  1 <= list_sum hs -> lrun (cinit hs) tr = Some st -> lstep st (EvFetchAdd t old) = Some st' -> 1 <= old.
Proof. exact conc_no_resurrection. Qed.
Print Assumptions C12_concurrent_no_resurrection.
