(** C12 — placeholder while the package is being built. *)
From Coq Require Import List.
From TLXV Require Import C12.CPtr.
Import ListNotations.
Theorem C12_stub : bad (run (init 2) [ONew 0 5; OCopyCtor 1 0; ODestroy 0; ODestroy 1]) = false.
Proof. reflexivity. Qed.
Print Assumptions C12_stub.
