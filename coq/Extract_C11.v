From TLXV Require Import C11.Ev C11.Sem C11.BarMutex C11.BarSpin C11.BarCheck.
Require Extraction. Require ExtrOcamlBasic.
Extraction Language OCaml.
Extraction "../ocaml/gen/C11_model.ml"
  Sem.init Sem.lstep Sem.quiescentb Sem.stranded_list Sem.asleepb Sem.doneb Sem.remaining Sem.value Sem.sem_check0
  BarMutex.binit BarMutex.bstep BarMutex.bquiescentb BarMutex.bdoneb BarMutex.bsleepb BarMutex.bgen BarMutex.stp
  BarSpin.sinit BarSpin.sstep BarSpin.sdoneb BarSpin.sspinb BarSpin.sgenof BarSpin.sstp
  BarCheck.bar_check0.
