(** C18 — the specification: std::basic_string_view<char> as defined in [string.view] (C++17/20) and
    [char.traits], written with the standard's own vocabulary:

      "Let xpos be the lowest (highest) position, if possible, such that ... Returns xpos if the function can
       determine such a value, otherwise npos"                     -> [lowest] / [highest] of a predicate
      "traits::eq(at(xpos+I), str.at(I)) for all elements I of str" -> [forallN]
      "for some / for no element I"                                 -> [existsN]
      "[data()+pos, data()+pos+rlen)"                                -> [tabulate (fun i => h[pos+i]) rlen]

    Nothing here follows the structure of the tlx code. The characterisations of [lowest]/[highest]
    (Lemmas.lowest_char, highest_char) say that they are exactly "the least / greatest x with P x, npos if none". *)
From Coq Require Import List NArith ZArith Bool.
From TLXV Require Import C18.Defs.
Import ListNotations.
Open Scope N_scope.

(** least x < bound with P x, npos if there is none *)
Fixpoint lowest_aux (P : N -> bool) (fuel : nat) (x : N) : N :=
  match fuel with
  | O => npos
  | S f => if P x then x else lowest_aux P f (N.succ x)
  end.
Definition lowest (P : N -> bool) (bound : N) : N := lowest_aux P (N.to_nat bound) 0.

(** greatest x < bound with P x, npos if there is none *)
Fixpoint highest_aux (P : N -> bool) (fuel : nat) : N :=
  match fuel with
  | O => npos
  | S f => if P (N.of_nat f) then N.of_nat f else highest_aux P f
  end.
Definition highest (P : N -> bool) (bound : N) : N := highest_aux P (N.to_nat bound).

Fixpoint iota_from (k : nat) (x : N) : list N :=
  match k with O => [] | S k' => x :: iota_from k' (N.succ x) end.
Definition iotaN (n : N) : list N := iota_from (N.to_nat n) 0.            (* 0, 1, ..., n-1 *)
Definition forallN (P : N -> bool) (n : N) : bool := forallb P (iotaN n).
Definition existsN (P : N -> bool) (n : N) : bool := existsb P (iotaN n).
Definition tabulate (f : N -> byte) (n : N) : view := map f (iotaN n).    (* [f 0; ...; f (n-1)] *)

(** char_traits<char>: eq is ==, lt compares as unsigned char; compare(p,q,n): 0 if all n equal, else negative
    if at the first difference j lt(p[j],q[j]), else positive ([char.traits.require]); length(p): smallest i
    with p[i] == 0 *)
Definition traits_compare (p q : view) (n : N) : Z :=
  let j := lowest (fun i => (i <? n) && negb (nthN p i =? nthN q i)) n in
  if j =? npos then 0%Z else if nthN p j <? nthN q j then (-1)%Z else 1%Z.

(** the memory of a C string argument is the bytes [s] followed by a NUL ([nthN s (size s)] reads 0) *)
Definition traits_length (s : view) : N := lowest (fun i => (i <=? size s) && (nthN s i =? 0)) (size s + 1).
Definition of_cstr (s : view) : view := tabulate (nthN s) (traits_length s).

(* ---- [string.view.access] *)
Definition at_ (h : view) (pos : N) : res byte :=
  if size h <=? pos then OutOfRange else Ok (nthN h pos).
Definition index (h : view) (pos : N) : byte := nthN h pos.            (* requires pos < size() *)
Definition front (h : view) : byte := nthN h 0.                          (* requires !empty() *)
Definition back (h : view) : byte := nthN h (size h - 1).                (* requires !empty() *)

(* ---- [string.view.modifiers]: requires n <= size() *)
Definition remove_prefix (h : view) (n : N) : view := tabulate (fun i => nthN h (n + i)) (size h - n).
Definition remove_suffix (h : view) (n : N) : view := tabulate (nthN h) (size h - n).

(* ---- [string.view.ops] *)
Definition to_string (h : view) : view := tabulate (nthN h) (size h).

Definition copy (h buf : view) (n pos : N) : res (N * view) :=
  if size h <? pos then OutOfRange
  else let rlen := N.min n (size h - pos) in
       Ok (rlen, tabulate (fun i => if i <? rlen then nthN h (pos + i) else nthN buf i) (size buf)).

Definition substr (h : view) (pos n : N) : res view :=
  if size h <? pos then OutOfRange
  else let rlen := N.min n (size h - pos) in Ok (tabulate (fun i => nthN h (pos + i)) rlen).

Definition compare (a b : view) : Z :=
  let rlen := N.min (size a) (size b) in
  let r := traits_compare a b rlen in
  if negb (r =? 0)%Z then r
  else if size a <? size b then (-1)%Z else if size a =? size b then 0%Z else 1%Z.

Definition compare3 (h : view) (pos1 n1 : N) (x : view) : res Z :=
  match substr h pos1 n1 with Ok v => Ok (compare v x) | _ => OutOfRange end.

Definition compare5 (h : view) (pos1 n1 : N) (x : view) (pos2 n2 : N) : res Z :=
  match substr h pos1 n1, substr x pos2 n2 with
  | Ok v, Ok w => Ok (compare v w)
  | _, _ => OutOfRange
  end.

(* ---- [string.view.comparison] *)
Definition op_eq (a b : view) : bool := (compare a b =? 0)%Z.
Definition op_ne (a b : view) : bool := negb (compare a b =? 0)%Z.
Definition op_lt (a b : view) : bool := (compare a b <? 0)%Z.
Definition op_gt (a b : view) : bool := (0 <? compare a b)%Z.
Definition op_le (a b : view) : bool := (compare a b <=? 0)%Z.
Definition op_ge (a b : view) : bool := (0 <=? compare a b)%Z.

(* ---- starts_with / ends_with (C++20) *)
Definition starts_with_char (h : view) (c : byte) : bool := negb (is_empty h) && (front h =? c).
Definition ends_with_char (h : view) (c : byte) : bool := negb (is_empty h) && (back h =? c).
(** "Let rlen be the smaller of size() and x.size(). Equivalent to: return basic_string_view(data(), rlen) == x" *)
Definition starts_with (h x : view) : bool :=
  op_eq (tabulate (nthN h) (N.min (size h) (size x))) x.
(** "Equivalent to: return size() >= x.size() && compare(size() - x.size(), npos, x) == 0" *)
Definition ends_with (h x : view) : bool :=
  (size x <=? size h) &&
  match compare3 h (size h - size x) npos x with Ok z => (z =? 0)%Z | _ => false end.

(* ---- [string.view.find] *)
Definition match_at (h s : view) (x : N) : bool :=
  (x + size s <=? size h) && forallN (fun I => nthN h (x + I) =? nthN s I) (size s).
Definition one_of (h s : view) (x : N) : bool :=
  (x <? size h) && existsN (fun I => nthN h x =? nthN s I) (size s).
Definition none_of (h s : view) (x : N) : bool :=
  (x <? size h) && negb (existsN (fun I => nthN h x =? nthN s I) (size s)).

Definition find (h s : view) (pos : N) : N := lowest (fun x => (pos <=? x) && match_at h s x) (size h + 1).
Definition rfind (h s : view) (pos : N) : N := highest (fun x => (x <=? pos) && match_at h s x) (size h + 1).
Definition find_first_of (h s : view) (pos : N) : N := lowest (fun x => (pos <=? x) && one_of h s x) (size h).
Definition find_last_of (h s : view) (pos : N) : N := highest (fun x => (x <=? pos) && one_of h s x) (size h).
Definition find_first_not_of (h s : view) (pos : N) : N := lowest (fun x => (pos <=? x) && none_of h s x) (size h).
Definition find_last_not_of (h s : view) (pos : N) : N := highest (fun x => (x <=? pos) && none_of h s x) (size h).
