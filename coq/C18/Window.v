(** C18 — locality of the StringView model: each query on a view depends only on the view's size and on a short
    window of its bytes. These theorems justify how ocaml/C18_driver.ml evaluates the model on the huge views of
    the "huge sizes" family (size as a number, bytes of the touched window as a list). *)
From Coq Require Import List NArith ZArith Bool Lia.
From TLXV Require Import C18.Defs C18.StdSV C18.Lemmas C18.SV C18.SVDims C18.AlgoLemmas C18.SVProofs C18.FindProofs.
Import ListNotations.
Open Scope N_scope.

(* ------------------------------------------------------------------ size arithmetic factors out *)

Theorem at_factor h pos :
  SV.at_ h pos = if at_throws (size h) pos then OutOfRange else Ok (nthN (window h pos 1) 0).
Proof.
  unfold SV.at_, at_throws, window. destruct (size h <=? pos); [reflexivity|].
  rewrite nthN_takeN by lia. rewrite nthN_dropN. f_equal. f_equal. lia.
Qed.

Theorem substr_factor h pos n :
  SV.substr h pos n = match substr_dims (size h) pos n with
                      | Ok (o, l) => Ok (window h o l)
                      | OutOfRange => OutOfRange
                      | Terminate => Terminate
                      end.
Proof. unfold SV.substr, substr_dims, window. destruct (size h <? pos); reflexivity. Qed.

Theorem remove_prefix_factor h n :
  SV.remove_prefix h n = window h (fst (remove_prefix_dims (size h) n)) (snd (remove_prefix_dims (size h) n)).
Proof. reflexivity. Qed.

Theorem remove_suffix_factor h n :
  SV.remove_suffix h n = window h (fst (remove_suffix_dims (size h) n)) (snd (remove_suffix_dims (size h) n)).
Proof. unfold SV.remove_suffix, remove_suffix_dims, window. cbn [fst snd]. now rewrite dropN_0. Qed.

Theorem copy_factor h buf n pos :
  SV.copy h buf n pos = match copy_dims (size h) n pos with
                        | Ok r => Ok (r, window h pos r ++ dropN r buf)
                        | OutOfRange => OutOfRange
                        | Terminate => Terminate
                        end.
Proof. unfold SV.copy, copy_dims, window. destruct (size h <? pos); reflexivity. Qed.

Theorem compare3_factor h pos1 n1 x :
  SV.compare3 h pos1 n1 x = match substr_dims (size h) pos1 n1 with
                            | Ok (o, l) => Ok (SV.compare (window h o l) x)
                            | _ => OutOfRange
                            end.
Proof. unfold SV.compare3. rewrite substr_factor. destruct (substr_dims (size h) pos1 n1) as [[o l]| |]; reflexivity. Qed.

Theorem compare5_factor h pos1 n1 x pos2 n2 :
  SV.compare5 h pos1 n1 x pos2 n2 =
  match substr_dims (size h) pos1 n1, substr_dims (size x) pos2 n2 with
  | Ok (o, l), Ok (o2, l2) => Ok (SV.compare (window h o l) (window x o2 l2))
  | _, _ => OutOfRange
  end.
Proof.
  unfold SV.compare5. rewrite !substr_factor.
  destruct (substr_dims (size h) pos1 n1) as [[o l]| |], (substr_dims (size x) pos2 n2) as [[o2 l2]| |]; reflexivity.
Qed.

(* ------------------------------------------------------------------ compare and the operators look at |b|+1 bytes *)

Lemma takeN_cons_pos n x t : 0 < n -> takeN n (x :: t) = x :: takeN (n - 1) t.
Proof. intros Hn. cbn [takeN]. destruct (N.eqb_spec n 0); [lia|]. now rewrite N.sub_1_r. Qed.

Theorem compare_window : forall a b, SV.compare a b = SV.compare (takeN (size b + 1) a) b.
Proof.
  induction a as [|x a IH]; intros b; [reflexivity|].
  rewrite takeN_cons_pos by lia. destruct b as [|y b].
  - rewrite !compare_cons_nil. reflexivity.
  - rewrite !compare_cons_cons. rewrite size_cons. replace (size b + 1 + 1 - 1) with (size b + 1) by lia.
    now rewrite <- IH.
Qed.

Theorem compare_window_r a b : SV.compare b a = SV.compare b (takeN (size b + 1) a).
Proof. rewrite (compare_antisym a b), (compare_antisym (takeN (size b + 1) a) b). now rewrite <- compare_window. Qed.

Theorem operators_window a b :
  let a' := takeN (size b + 1) a in
  (SV.op_eq a b = SV.op_eq a' b /\ SV.op_ne a b = SV.op_ne a' b /\ SV.op_lt a b = SV.op_lt a' b /\
   SV.op_gt a b = SV.op_gt a' b /\ SV.op_le a b = SV.op_le a' b /\ SV.op_ge a b = SV.op_ge a' b) /\
  (SV.op_eq b a = SV.op_eq b a' /\ SV.op_ne b a = SV.op_ne b a' /\ SV.op_lt b a = SV.op_lt b a' /\
   SV.op_gt b a = SV.op_gt b a' /\ SV.op_le b a = SV.op_le b a' /\ SV.op_ge b a = SV.op_ge b a').
Proof.
  cbv zeta. unfold SV.op_ne, SV.op_gt, SV.op_le, SV.op_ge, SV.op_lt.
  rewrite !op_eq_compare, !lex_lt_compare.
  rewrite <- !compare_window, <- !compare_window_r. repeat split; reflexivity.
Qed.

(* ------------------------------------------------------------------ starts_with / ends_with *)

Theorem starts_with_window h x : size x <= size h ->
  SV.starts_with h x = SV.starts_with (window h 0 (size x)) x.
Proof.
  intros Hle. unfold SV.starts_with, window. rewrite dropN_0, size_takeN.
  replace (N.min (size x) (size h)) with (size x) by lia.
  rewrite (takeN_all (takeN (size x) h)) by (rewrite size_takeN; lia).
  destruct (N.leb_spec (size x) (size h)); [|lia]. now rewrite N.leb_refl.
Qed.

Theorem ends_with_window h x : size x <= size h ->
  SV.ends_with h x = SV.ends_with (window h (size h - size x) (size x)) x.
Proof.
  intros Hle. unfold SV.ends_with, window.
  rewrite (takeN_all (dropN (size h - size x) h)) by (rewrite size_dropN; lia).
  rewrite size_dropN. replace (size h - (size h - size x)) with (size x) by lia.
  rewrite !wsub_le by lia. rewrite N.sub_diag, dropN_0.
  destruct (N.leb_spec (size x) (size h)); [|lia]. now rewrite N.leb_refl.
Qed.

Theorem starts_with_char_window h c : 0 < size h ->
  SV.starts_with_char h c = SV.starts_with_char (window h 0 1) c.
Proof.
  intros Hne. unfold SV.starts_with_char, SV.front, is_empty, window. rewrite dropN_0, size_takeN.
  rewrite nthN_takeN by lia.
  destruct (N.eqb_spec (size h) 0), (N.eqb_spec (N.min 1 (size h)) 0); try lia; reflexivity.
Qed.

Theorem ends_with_char_window h c : 0 < size h ->
  SV.ends_with_char h c = SV.ends_with_char (window h (size h - 1) 1) c.
Proof.
  intros Hne. unfold SV.ends_with_char, SV.back, is_empty, window.
  rewrite size_takeN, size_dropN. replace (N.min 1 (size h - (size h - 1))) with 1 by lia.
  rewrite !wsub_le by lia. rewrite nthN_takeN by lia. rewrite nthN_dropN.
  replace (size h - 1 + (1 - 1)) with (size h - 1) by lia.
  destruct (N.eqb_spec (size h) 0); [lia|]. reflexivity.
Qed.

(* ------------------------------------------------------------------ searches can be run on a suffix of the view *)

Lemma lowest_shift P P' o bound bound' :
  (forall x, P (o + x) = P' x) -> (forall y, y < o -> P y = false) ->
  (forall x, P' x = true -> x < bound') -> (forall x, P x = true -> x < bound) ->
  bound <= npos -> bound' <= npos ->
  lowest P bound = (let r := lowest P' bound' in if r =? npos then npos else o + r).
Proof.
  intros Hsh Hlow Hb' Hb Hn Hn'. cbv zeta. apply lowest_char; [assumption|assumption|].
  destruct (lowest_spec P' bound' Hb') as [(Hr & Hall)|(HP & Hmin)].
  - rewrite Hr, N.eqb_refl. right. split; [reflexivity|]. intros y.
    destruct (N.lt_ge_cases y o) as [Hy|Hy]; [now apply Hlow|].
    replace y with (o + (y - o)) by lia. rewrite Hsh. apply Hall.
  - apply Hb' in HP as Hlt. destruct (N.eqb_spec (lowest P' bound') npos) as [E|_]; [lia|].
    left. split; [now rewrite Hsh|]. intros y Hy.
    destruct (N.lt_ge_cases y o) as [Hyo|Hyo]; [rewrite Hlow in Hy by assumption; discriminate|].
    replace y with (o + (y - o)) in Hy by lia. rewrite Hsh in Hy. apply Hmin in Hy. lia.
Qed.

Lemma highest_shift P P' o bound bound' r :
  (forall x, P (o + x) = P' x) ->
  (forall x, P' x = true -> x < bound') -> (forall x, P x = true -> x < bound) -> bound <= npos ->
  highest P' bound' = r -> P' r = true -> highest P bound = o + r.
Proof.
  intros Hsh Hb' Hb Hn Hr HPr. apply highest_char; [assumption|assumption|].
  left. split; [now rewrite Hsh|]. intros y Hy.
  destruct (N.lt_ge_cases y o) as [Hyo|Hyo]; [lia|].
  replace y with (o + (y - o)) in Hy by lia. rewrite Hsh in Hy.
  destruct (highest_spec P' bound' Hb') as [(_ & Hall)|(_ & Hmax)].
  - rewrite Hall in Hy. discriminate.
  - rewrite Hr in Hmax. apply Hmax in Hy. lia.
Qed.

Lemma match_at_shift h s o x : o <= size h -> match_at h s (o + x) = match_at (dropN o h) s x.
Proof.
  intros Ho. apply bool_eq_iff. unfold match_at. rewrite !andb_true_iff, !N.leb_le, !forallN_spec, size_dropN. split.
  - intros (Hs & He). split; [lia|]. intros i Hi. specialize (He i Hi). apply N.eqb_eq in He. apply N.eqb_eq.
    rewrite nthN_dropN. rewrite <- He. f_equal. lia.
  - intros (Hs & He). split; [lia|]. intros i Hi. specialize (He i Hi). apply N.eqb_eq in He. apply N.eqb_eq.
    rewrite nthN_dropN in He. rewrite <- He. f_equal. lia.
Qed.

Lemma one_of_shift h s o x : o <= size h -> one_of h s (o + x) = one_of (dropN o h) s x.
Proof.
  intros Ho. unfold one_of. rewrite size_dropN, nthN_dropN.
  destruct (N.ltb_spec (o + x) (size h)), (N.ltb_spec x (size h - o)); try lia; reflexivity.
Qed.

Lemma none_of_shift h s o x : o <= size h -> none_of h s (o + x) = none_of (dropN o h) s x.
Proof.
  intros Ho. unfold none_of. rewrite size_dropN, nthN_dropN.
  destruct (N.ltb_spec (o + x) (size h)), (N.ltb_spec x (size h - o)); try lia; reflexivity.
Qed.

Lemma match_at_bound h s x : match_at h s x = true -> x < size h + 1.
Proof. unfold match_at. rewrite andb_true_iff, N.leb_le. lia. Qed.
Lemma one_of_bound h s x : one_of h s x = true -> x < size h.
Proof. unfold one_of. rewrite andb_true_iff, N.ltb_lt. lia. Qed.
Lemma none_of_bound h s x : none_of h s x = true -> x < size h.
Proof. unfold none_of. rewrite andb_true_iff, N.ltb_lt. lia. Qed.

Ltac fwd_shift Hsh Hbnd :=
  apply lowest_shift;
  [ intros x; rewrite Hsh by assumption; f_equal; apply bool_eq_iff; rewrite !N.leb_le; lia
  | intros y Hy; match goal with |- (?a <=? ?b) && _ = false => rewrite (proj2 (N.leb_gt a b)) by lia; reflexivity end
  | intros x Hx; apply andb_true_iff in Hx; destruct Hx as (_ & Hx); apply Hbnd in Hx; rewrite size_dropN in Hx; lia
  | intros x Hx; apply andb_true_iff in Hx; destruct Hx as (_ & Hx); apply Hbnd in Hx; lia
  | lia | rewrite ?size_dropN; lia ].

(** forward searches started at [pos] never look before [pos]: run them on [dropN o h] for any o <= pos *)
Theorem find_shift h s pos o : size h < npos -> o <= pos -> o <= size h ->
  SV.find h s pos = (let r := SV.find (dropN o h) s (pos - o) in if r =? npos then npos else o + r).
Proof.
  intros Hh Hop Hoh. rewrite !sv_eq_std_find by (rewrite ?size_dropN; lia). unfold StdSV.find.
  rewrite size_dropN. fwd_shift match_at_shift match_at_bound.
Qed.

Theorem find_first_of_shift h s pos o : size h <= npos -> o <= pos -> o <= size h ->
  SV.find_first_of h s pos =
  (let r := SV.find_first_of (dropN o h) s (pos - o) in if r =? npos then npos else o + r).
Proof.
  intros Hh Hop Hoh. rewrite !sv_eq_std_find_first_of by (rewrite ?size_dropN; lia). unfold StdSV.find_first_of.
  rewrite size_dropN. fwd_shift one_of_shift one_of_bound.
Qed.

Theorem find_first_not_of_shift h s pos o : size h <= npos -> o <= pos -> o <= size h ->
  SV.find_first_not_of h s pos =
  (let r := SV.find_first_not_of (dropN o h) s (pos - o) in if r =? npos then npos else o + r).
Proof.
  intros Hh Hop Hoh. rewrite !sv_eq_std_find_first_not_of by (rewrite ?size_dropN; lia). unfold StdSV.find_first_not_of.
  rewrite size_dropN. fwd_shift none_of_shift none_of_bound.
Qed.

Ltac bwd_shift P'0 b'0 Hsh Hbnd Hr :=
  apply (highest_shift _ P'0 _ _ b'0 _);
  [ intros x; rewrite Hsh by assumption; f_equal; apply bool_eq_iff; rewrite !N.leb_le; lia
  | intros x Hx; apply andb_true_iff in Hx; destruct Hx as (_ & Hx); apply Hbnd in Hx; exact Hx
  | intros x Hx; apply andb_true_iff in Hx; destruct Hx as (_ & Hx); apply Hbnd in Hx; exact Hx
  | lia | exact Hr | ].

(** backward searches: an occurrence found inside the suffix [dropN o h] is the answer for the whole view *)
Theorem rfind_shift h s pos o r : size h < npos -> o <= pos -> o <= size h ->
  SV.rfind (dropN o h) s (pos - o) = r -> r <> npos -> SV.rfind h s pos = o + r.
Proof.
  intros Hh Hop Hoh Hr Hne. rewrite sv_eq_std_rfind in * by (rewrite ?size_dropN; lia). unfold StdSV.rfind in *.
  bwd_shift (fun x => (x <=? pos - o) && match_at (dropN o h) s x) (size (dropN o h) + 1) match_at_shift match_at_bound Hr.
  assert (Hb : forall x, (x <=? pos - o) && match_at (dropN o h) s x = true -> x < size (dropN o h) + 1).
  { intros x Hx. apply andb_true_iff in Hx. destruct Hx as (_ & Hx). now apply match_at_bound in Hx. }
  destruct (highest_spec _ _ Hb) as [(Hn & _)|(HP & _)]; [congruence|]. rewrite Hr in HP. exact HP.
Qed.

Theorem find_last_of_shift h s pos o r : size h <= npos -> o <= pos -> o <= size h ->
  SV.find_last_of (dropN o h) s (pos - o) = r -> r <> npos -> SV.find_last_of h s pos = o + r.
Proof.
  intros Hh Hop Hoh Hr Hne. rewrite sv_eq_std_find_last_of in * by (rewrite ?size_dropN; lia). unfold StdSV.find_last_of in *.
  bwd_shift (fun x => (x <=? pos - o) && one_of (dropN o h) s x) (size (dropN o h)) one_of_shift one_of_bound Hr.
  assert (Hb : forall x, (x <=? pos - o) && one_of (dropN o h) s x = true -> x < size (dropN o h)).
  { intros x Hx. apply andb_true_iff in Hx. destruct Hx as (_ & Hx). now apply one_of_bound in Hx. }
  destruct (highest_spec _ _ Hb) as [(Hn & _)|(HP & _)]; [congruence|]. rewrite Hr in HP. exact HP.
Qed.

Theorem find_last_not_of_shift h s pos o r : size h <= npos -> o <= pos -> o <= size h ->
  SV.find_last_not_of (dropN o h) s (pos - o) = r -> r <> npos -> SV.find_last_not_of h s pos = o + r.
Proof.
  intros Hh Hop Hoh Hr Hne. rewrite sv_eq_std_find_last_not_of in * by (rewrite ?size_dropN; lia).
  unfold StdSV.find_last_not_of in *.
  bwd_shift (fun x => (x <=? pos - o) && none_of (dropN o h) s x) (size (dropN o h)) none_of_shift none_of_bound Hr.
  assert (Hb : forall x, (x <=? pos - o) && none_of (dropN o h) s x = true -> x < size (dropN o h)).
  { intros x Hx. apply andb_true_iff in Hx. destruct Hx as (_ & Hx). now apply none_of_bound in Hx. }
  destruct (highest_spec _ _ Hb) as [(Hn & _)|(HP & _)]; [congruence|]. rewrite Hr in HP. exact HP.
Qed.

(* ------------------------------------------------------------------ backward searches from a small pos look only at a prefix *)

Lemma highest_same P P' bound bound' :
  (forall x, P x = P' x) -> (forall x, P x = true -> x < bound) -> (forall x, P' x = true -> x < bound') ->
  bound <= npos -> highest P bound = highest P' bound'.
Proof.
  intros He Hb Hb' Hn. apply highest_char; [assumption|assumption|].
  destruct (highest_spec P' bound' Hb') as [(Hr & Hall)|(HP & Hmax)].
  - right. split; [assumption|]. intros y. rewrite He. apply Hall.
  - left. split; [now rewrite He|]. intros y Hy. rewrite He in Hy. now apply Hmax.
Qed.

Lemma match_at_takeN h s k x : x + size s <= k -> k <= size h -> match_at (takeN k h) s x = match_at h s x.
Proof.
  intros Hx Hk. apply bool_eq_iff. unfold match_at. rewrite !andb_true_iff, !N.leb_le, !forallN_spec, size_takeN. split.
  - intros (_ & He). split; [lia|]. intros i Hi. rewrite <- (nthN_takeN h k) by lia. now apply He.
  - intros (_ & He). split; [lia|]. intros i Hi. rewrite nthN_takeN by lia. now apply He.
Qed.

Theorem rfind_prefix h s pos : size h < npos -> pos + size s <= size h ->
  SV.rfind h s pos = SV.rfind (window h 0 (pos + size s)) s pos.
Proof.
  intros Hh Hp. unfold window. rewrite dropN_0.
  rewrite !sv_eq_std_rfind by (rewrite ?size_takeN; lia). unfold StdSV.rfind.
  apply highest_same.
  - intros x. destruct (N.leb_spec x pos); [|reflexivity]. cbn [andb]. symmetry. apply match_at_takeN; lia.
  - intros x Hx. apply andb_true_iff in Hx. destruct Hx as (_ & Hx). now apply match_at_bound in Hx.
  - intros x Hx. apply andb_true_iff in Hx. destruct Hx as (_ & Hx). now apply match_at_bound in Hx.
  - lia.
Qed.

Theorem find_last_of_prefix h s pos : size h <= npos -> pos < size h ->
  SV.find_last_of h s pos = SV.find_last_of (window h 0 (pos + 1)) s pos.
Proof.
  intros Hh Hp. unfold window. rewrite dropN_0.
  rewrite !sv_eq_std_find_last_of by (rewrite ?size_takeN; lia). unfold StdSV.find_last_of.
  apply highest_same.
  - intros x. destruct (N.leb_spec x pos); [|reflexivity]. cbn [andb]. unfold one_of.
    rewrite size_takeN, nthN_takeN by lia.
    destruct (N.ltb_spec x (size h)), (N.ltb_spec x (N.min (pos + 1) (size h))); try lia; reflexivity.
  - intros x Hx. apply andb_true_iff in Hx. destruct Hx as (_ & Hx). now apply one_of_bound in Hx.
  - intros x Hx. apply andb_true_iff in Hx. destruct Hx as (_ & Hx). now apply one_of_bound in Hx.
  - lia.
Qed.

Theorem find_last_not_of_prefix h s pos : size h <= npos -> pos < size h ->
  SV.find_last_not_of h s pos = SV.find_last_not_of (window h 0 (pos + 1)) s pos.
Proof.
  intros Hh Hp. unfold window. rewrite dropN_0.
  rewrite !sv_eq_std_find_last_not_of by (rewrite ?size_takeN; lia). unfold StdSV.find_last_not_of.
  apply highest_same.
  - intros x. destruct (N.leb_spec x pos); [|reflexivity]. cbn [andb]. unfold none_of.
    rewrite size_takeN, nthN_takeN by lia.
    destruct (N.ltb_spec x (size h)), (N.ltb_spec x (N.min (pos + 1) (size h))); try lia; reflexivity.
  - intros x Hx. apply andb_true_iff in Hx. destruct Hx as (_ & Hx). now apply none_of_bound in Hx.
  - intros x Hx. apply andb_true_iff in Hx. destruct Hx as (_ & Hx). now apply none_of_bound in Hx.
  - lia.
Qed.
