(** C18 — library lemmas: size_type arithmetic, N-indexed list access, tabulate, lowest/highest. *)
From Coq Require Import List NArith ZArith Bool Lia.
From TLXV Require Import C18.Defs C18.StdSV.
Import ListNotations.
Open Scope N_scope.

(* ------------------------------------------------------------------ size_type arithmetic *)

Lemma npos_two64 : npos + 1 = two64.
Proof. reflexivity. Qed.

Lemma wsub_le a b : b <= a -> wsub a b = a - b.
Proof. unfold wsub; intros Hle. destruct (N.leb_spec b a); lia. Qed.

Lemma wsub_wrap a b : a < b -> wsub a b = a + two64 - b.
Proof. unfold wsub; intros Hlt. destruct (N.leb_spec b a); lia. Qed.

Lemma wadd_small a b : a + b < two64 -> wadd a b = a + b.
Proof. unfold wadd; intros Hlt. cbv zeta. destruct (N.ltb_spec (a + b) two64); lia. Qed.

Lemma wadd_wrap a b : two64 <= a + b -> wadd a b = a + b - two64.
Proof. unfold wadd; intros Hle. cbv zeta. destruct (N.ltb_spec (a + b) two64); lia. Qed.

(** [wsub]/[wadd] are subtraction/addition modulo 2^64 on size_type values *)
Lemma wsub_mod a b : a < two64 -> b < two64 -> wsub a b = (a + two64 - b) mod two64.
Proof.
  intros Ha Hb. unfold wsub. destruct (N.leb_spec b a) as [Hle|Hlt].
  - apply N.mod_unique with (q := 1); lia.
  - apply N.mod_unique with (q := 0); lia.
Qed.

Lemma wadd_mod a b : a < two64 -> b < two64 -> wadd a b = (a + b) mod two64.
Proof.
  intros Ha Hb. unfold wadd. cbv zeta. destruct (N.ltb_spec (a + b) two64) as [Hlt|Hle].
  - apply N.mod_unique with (q := 0); lia.
  - apply N.mod_unique with (q := 1); lia.
Qed.

(* ------------------------------------------------------------------ N-indexed list access *)

Lemma nthN_cons_0 x t : nthN (x :: t) 0 = x.
Proof. reflexivity. Qed.

Lemma nthN_cons_pos x t i : 0 < i -> nthN (x :: t) i = nthN t (i - 1).
Proof.
  intros Hi. cbn [nthN]. destruct (N.eqb_spec i 0) as [->|_]; [lia|]. now rewrite N.sub_1_r.
Qed.

Lemma nthN_cons_succ x t i : nthN (x :: t) (N.succ i) = nthN t i.
Proof. rewrite nthN_cons_pos by lia. f_equal. lia. Qed.

Lemma size_cons x t : size (x :: t) = size t + 1.
Proof. cbn [size]. lia. Qed.

Lemma size_app a b : size (a ++ b) = size a + size b.
Proof. induction a as [|x a IH]; cbn [app size]; lia. Qed.

Lemma size_0_nil l : size l = 0 -> l = [].
Proof. destruct l; cbn [size]; [auto|lia]. Qed.

Lemma nthN_oob l : forall i, size l <= i -> nthN l i = 0.
Proof.
  induction l as [|x t IH]; intros i Hi; [reflexivity|].
  rewrite size_cons in Hi. rewrite nthN_cons_pos by lia. apply IH. lia.
Qed.

Lemma nthN_app a b : forall i, nthN (a ++ b) i = if i <? size a then nthN a i else nthN b (i - size a).
Proof.
  induction a as [|x a IH]; intros i.
  - cbn [app size]. destruct (N.ltb_spec i 0); [lia|]. f_equal. lia.
  - rewrite <- app_comm_cons, size_cons. destruct (N.eqb_spec i 0) as [->|Hne].
    + destruct (N.ltb_spec 0 (size a + 1)); [|lia]. reflexivity.
    + rewrite !nthN_cons_pos by lia. rewrite IH.
      destruct (N.ltb_spec (i - 1) (size a)), (N.ltb_spec i (size a + 1)); try lia; auto.
      f_equal. lia.
Qed.

Lemma size_dropN : forall l n, size (dropN n l) = size l - n.
Proof.
  induction l as [|x t IH]; intros n; cbn [dropN]; [cbn [size]; lia|].
  destruct (N.eqb_spec n 0) as [->|Hne]; [lia|]. rewrite IH, size_cons. lia.
Qed.

Lemma size_takeN : forall l n, size (takeN n l) = N.min n (size l).
Proof.
  induction l as [|x t IH]; intros n; cbn [takeN]; [cbn [size]; lia|].
  destruct (N.eqb_spec n 0) as [->|Hne]; [cbn [size]; lia|]. rewrite !size_cons, IH. lia.
Qed.

Lemma nthN_dropN : forall l n i, nthN (dropN n l) i = nthN l (n + i).
Proof.
  induction l as [|x t IH]; intros n i; cbn [dropN]; [reflexivity|].
  destruct (N.eqb_spec n 0) as [->|Hne]; [now rewrite N.add_0_l|].
  rewrite IH. rewrite (nthN_cons_pos x t (n + i)) by lia. f_equal. lia.
Qed.

Lemma nthN_takeN : forall l n i, i < n -> nthN (takeN n l) i = nthN l i.
Proof.
  induction l as [|x t IH]; intros n i Hi; cbn [takeN]; [reflexivity|].
  destruct (N.eqb_spec n 0) as [->|Hne]; [lia|].
  destruct (N.eqb_spec i 0) as [->|Hi0]; [reflexivity|].
  rewrite !nthN_cons_pos by lia. apply IH. lia.
Qed.

Lemma dropN_0 l : dropN 0 l = l.
Proof. destruct l; reflexivity. Qed.

Lemma dropN_all l : forall n, size l <= n -> dropN n l = [].
Proof. intros n Hn. apply size_0_nil. rewrite size_dropN. lia. Qed.

Lemma view_ext : forall a b, size a = size b -> (forall i, i < size a -> nthN a i = nthN b i) -> a = b.
Proof.
  induction a as [|x a IH]; intros b Hs He.
  - symmetry. apply size_0_nil. cbn [size] in Hs. lia.
  - destruct b as [|y b]; [rewrite size_cons in Hs; cbn [size] in Hs; lia|].
    rewrite !size_cons in Hs. f_equal.
    + specialize (He 0). rewrite !nthN_cons_0 in He. apply He. rewrite size_cons. lia.
    + apply IH; [lia|]. intros i Hi. specialize (He (N.succ i)). rewrite !nthN_cons_succ in He.
      apply He. rewrite size_cons. lia.
Qed.

Lemma takeN_all l : forall n, size l <= n -> takeN n l = l.
Proof.
  intros n Hn. apply view_ext.
  - rewrite size_takeN. lia.
  - intros i Hi. rewrite size_takeN in Hi. apply nthN_takeN. lia.
Qed.

Lemma size_rev h : size (rev h) = size h.
Proof. induction h as [|x t IH]; [reflexivity|]. cbn [rev]. rewrite size_app, IH, !size_cons. cbn [size]. lia. Qed.

Lemma nthN_rev : forall h i, i < size h -> nthN (rev h) i = nthN h (size h - 1 - i).
Proof.
  induction h as [|x t IH]; intros i Hi; [cbn [size] in Hi; lia|].
  rewrite size_cons in *. cbn [rev]. rewrite nthN_app, size_rev.
  destruct (N.ltb_spec i (size t)) as [Hlt|Hge].
  - rewrite IH by lia. rewrite (nthN_cons_pos x t) by lia. f_equal. lia.
  - replace (i - size t) with 0 by lia. replace (size t + 1 - 1 - i) with 0 by lia. reflexivity.
Qed.

(* ------------------------------------------------------------------ iota / tabulate / bounded quantifiers *)

Lemma size_iota_from : forall k x, size (iota_from k x) = N.of_nat k.
Proof. induction k as [|k IH]; intros x; cbn [iota_from]; [reflexivity|]. rewrite size_cons, IH. lia. Qed.

Lemma nthN_iota_from : forall k x i, i < N.of_nat k -> nthN (iota_from k x) i = x + i.
Proof.
  induction k as [|k IH]; intros x i Hi; [lia|]. cbn [iota_from].
  destruct (N.eqb_spec i 0) as [->|Hne]; [rewrite nthN_cons_0; lia|].
  rewrite nthN_cons_pos by lia. rewrite IH by lia. lia.
Qed.

Lemma In_iota_from : forall k x i, In i (iota_from k x) <-> x <= i < x + N.of_nat k.
Proof.
  induction k as [|k IH]; intros x i; cbn [iota_from In]; [lia|].
  rewrite IH. lia.
Qed.

Lemma In_iotaN n i : In i (iotaN n) <-> i < n.
Proof. unfold iotaN. rewrite In_iota_from. lia. Qed.

Lemma size_map (f : N -> N) l : size (map f l) = size l.
Proof. induction l as [|x t IH]; [reflexivity|]. cbn [map]. rewrite !size_cons, IH. reflexivity. Qed.

Lemma nthN_map (f : N -> N) : forall l i, i < size l -> nthN (map f l) i = f (nthN l i).
Proof.
  induction l as [|x t IH]; intros i Hi; [cbn [size] in Hi; lia|]. rewrite size_cons in Hi. cbn [map].
  destruct (N.eqb_spec i 0) as [->|Hne]; [reflexivity|]. rewrite !nthN_cons_pos by lia. apply IH. lia.
Qed.

Lemma size_tabulate f n : size (tabulate f n) = n.
Proof. unfold tabulate, iotaN. rewrite size_map, size_iota_from. lia. Qed.

Lemma nthN_tabulate f n i : i < n -> nthN (tabulate f n) i = f i.
Proof.
  intros Hi. unfold tabulate, iotaN. rewrite nthN_map by (rewrite size_iota_from; lia).
  rewrite nthN_iota_from by lia. reflexivity.
Qed.

(** a view is the tabulation of its own elements; two ranges with the same elements are the same view *)
Lemma tabulate_eq f n (v : view) : size v = n -> (forall i, i < n -> nthN v i = f i) -> v = tabulate f n.
Proof.
  intros Hs He. apply view_ext; [now rewrite size_tabulate|].
  intros i Hi. rewrite nthN_tabulate by lia. apply He. lia.
Qed.

Lemma forallN_spec P n : forallN P n = true <-> forall i, i < n -> P i = true.
Proof.
  unfold forallN. rewrite forallb_forall. split; intros H i Hi; apply H; now apply In_iotaN.
Qed.

Lemma existsN_spec P n : existsN P n = true <-> exists i, i < n /\ P i = true.
Proof.
  unfold existsN. rewrite existsb_exists. split; intros (i & Hi & HP); exists i; split; auto; now apply In_iotaN.
Qed.

Lemma existsN_false P n : existsN P n = false <-> forall i, i < n -> P i = false.
Proof.
  split.
  - intros H i Hi. destruct (P i) eqn:E; [|reflexivity].
    assert (existsN P n = true) by (apply existsN_spec; eauto). congruence.
  - intros H. destruct (existsN P n) eqn:E; [|reflexivity].
    apply existsN_spec in E. destruct E as (i & Hi & HP). rewrite H in HP by assumption. discriminate.
Qed.

(* ------------------------------------------------------------------ lowest / highest *)

Lemma lowest_aux_spec : forall P fuel x,
  let r := lowest_aux P fuel x in
  (r = npos /\ forall y, x <= y < x + N.of_nat fuel -> P y = false) \/
  (x <= r < x + N.of_nat fuel /\ P r = true /\ forall y, x <= y < r -> P y = false).
Proof.
  induction fuel as [|f IH]; intros x; cbn [lowest_aux].
  - left. split; [reflexivity|]. intros y Hy. lia.
  - destruct (P x) eqn:E.
    + right. split; [lia|]. split; [assumption|]. intros y Hy. lia.
    + specialize (IH (N.succ x)). cbv zeta in IH. destruct IH as [(Hr & Hall)|(Hr & HP & Hall)].
      * left. split; [assumption|]. intros y Hy. destruct (N.eq_dec y x) as [->|Hne]; [assumption|].
        apply Hall. lia.
      * right. split; [lia|]. split; [assumption|]. intros y Hy.
        destruct (N.eq_dec y x) as [->|Hne]; [assumption|]. apply Hall. lia.
Qed.

(** [lowest P bound] is the least x with P x (for predicates that only hold below bound), npos if none *)
Lemma lowest_spec P bound : (forall x, P x = true -> x < bound) ->
  let r := lowest P bound in
  (r = npos /\ forall y, P y = false) \/ (P r = true /\ forall y, P y = true -> r <= y).
Proof.
  intros Hb. cbv zeta. unfold lowest.
  destruct (lowest_aux_spec P (N.to_nat bound) 0) as [(Hr & Hall)|(Hr & HP & Hall)].
  - left. split; [assumption|]. intros y. destruct (P y) eqn:E; [|reflexivity].
    apply Hb in E as Hlt. rewrite Hall in E by lia. discriminate.
  - right. split; [assumption|]. intros y Hy.
    destruct (N.le_gt_cases (lowest_aux P (N.to_nat bound) 0) y) as [Hle|Hgt]; [assumption|].
    rewrite Hall in Hy by lia. discriminate.
Qed.

Lemma lowest_char P bound r : (forall x, P x = true -> x < bound) -> bound <= npos ->
  ((P r = true /\ forall y, P y = true -> r <= y) \/ (r = npos /\ forall y, P y = false)) ->
  lowest P bound = r.
Proof.
  intros Hb Hbn Hr. destruct (lowest_spec P bound Hb) as [(Hn & Hall)|(HP & Hmin)].
  - destruct Hr as [(HPr & _)|(-> & _)]; [|assumption]. rewrite Hall in HPr. discriminate.
  - destruct Hr as [(HPr & Hminr)|(_ & Hall)].
    + apply N.le_antisymm; auto.
    + rewrite Hall in HP. discriminate.
Qed.

(** bounded form (no assumption on P outside the bound) *)
Lemma lowest_char_b P bound r : bound <= npos ->
  ((r < bound /\ P r = true /\ forall y, y < r -> P y = false) \/ (r = npos /\ forall y, y < bound -> P y = false)) ->
  lowest P bound = r.
Proof.
  intros Hbn Hr. unfold lowest.
  destruct (lowest_aux_spec P (N.to_nat bound) 0) as [(Hn & Hall)|(Hrng & HP & Hall)].
  - destruct Hr as [(Hlt & HPr & _)|(-> & _)]; [|assumption]. rewrite Hall in HPr by lia. discriminate.
  - destruct Hr as [(Hlt & HPr & Hbefore)|(_ & Hnone)].
    + destruct (N.lt_trichotomy (lowest_aux P (N.to_nat bound) 0) r) as [Hc|[Hc|Hc]]; [|assumption|].
      * rewrite Hbefore in HP by assumption. discriminate.
      * rewrite Hall in HPr by lia. discriminate.
    + rewrite Hnone in HP by lia. discriminate.
Qed.

Lemma highest_aux_spec : forall P fuel,
  let r := highest_aux P fuel in
  (r = npos /\ forall y, y < N.of_nat fuel -> P y = false) \/
  (r < N.of_nat fuel /\ P r = true /\ forall y, r < y < N.of_nat fuel -> P y = false).
Proof.
  induction fuel as [|f IH]; cbn [highest_aux].
  - left. split; [reflexivity|]. intros y Hy. lia.
  - destruct (P (N.of_nat f)) eqn:E.
    + right. split; [lia|]. split; [assumption|]. intros y Hy. lia.
    + cbv zeta in IH. destruct IH as [(Hr & Hall)|(Hr & HP & Hall)].
      * left. split; [assumption|]. intros y Hy. destruct (N.eq_dec y (N.of_nat f)) as [->|Hne]; [assumption|].
        apply Hall. lia.
      * right. split; [lia|]. split; [assumption|]. intros y Hy.
        destruct (N.eq_dec y (N.of_nat f)) as [->|Hne]; [assumption|]. apply Hall. lia.
Qed.

(** [highest P bound] is the greatest x with P x (for predicates that only hold below bound), npos if none *)
Lemma highest_spec P bound : (forall x, P x = true -> x < bound) ->
  let r := highest P bound in
  (r = npos /\ forall y, P y = false) \/ (P r = true /\ forall y, P y = true -> y <= r).
Proof.
  intros Hb. cbv zeta. unfold highest.
  destruct (highest_aux_spec P (N.to_nat bound)) as [(Hr & Hall)|(Hr & HP & Hall)].
  - left. split; [assumption|]. intros y. destruct (P y) eqn:E; [|reflexivity].
    apply Hb in E as Hlt. rewrite Hall in E by lia. discriminate.
  - right. split; [assumption|]. intros y Hy.
    destruct (N.le_gt_cases y (highest_aux P (N.to_nat bound))) as [Hle|Hgt]; [assumption|].
    apply Hb in Hy as Hlt. rewrite Hall in Hy by lia. discriminate.
Qed.

Lemma highest_char P bound r : (forall x, P x = true -> x < bound) -> bound <= npos ->
  ((P r = true /\ forall y, P y = true -> y <= r) \/ (r = npos /\ forall y, P y = false)) ->
  highest P bound = r.
Proof.
  intros Hb Hbn Hr. destruct (highest_spec P bound Hb) as [(Hn & Hall)|(HP & Hmax)].
  - destruct Hr as [(HPr & _)|(-> & _)]; [|assumption]. rewrite Hall in HPr. discriminate.
  - destruct Hr as [(HPr & Hmaxr)|(_ & Hall)].
    + apply N.le_antisymm; auto.
    + rewrite Hall in HP. discriminate.
Qed.

Lemma highest_char_b P bound r : bound <= npos ->
  ((r < bound /\ P r = true /\ forall y, r < y < bound -> P y = false) \/ (r = npos /\ forall y, y < bound -> P y = false)) ->
  highest P bound = r.
Proof.
  intros Hbn Hr. unfold highest.
  destruct (highest_aux_spec P (N.to_nat bound)) as [(Hn & Hall)|(Hrng & HP & Hall)].
  - destruct Hr as [(Hlt & HPr & _)|(-> & _)]; [|assumption]. rewrite Hall in HPr by lia. discriminate.
  - destruct Hr as [(Hlt & HPr & Hafter)|(_ & Hnone)].
    + destruct (N.lt_trichotomy (highest_aux P (N.to_nat bound)) r) as [Hc|[Hc|Hc]]; [|assumption|].
      * rewrite Hall in HPr by lia. discriminate.
      * rewrite Hafter in HP by lia. discriminate.
    + rewrite Hnone in HP by lia. discriminate.
Qed.

Lemma lowest_ext P P' bound : (forall x, P x = P' x) -> lowest P bound = lowest P' bound.
Proof.
  intros He. unfold lowest. generalize 0 as x. induction (N.to_nat bound) as [|f IH]; intros x; cbn [lowest_aux].
  - reflexivity.
  - rewrite He, IH. reflexivity.
Qed.

Lemma highest_ext P P' bound : (forall x, P x = P' x) -> highest P bound = highest P' bound.
Proof.
  intros He. unfold highest. induction (N.to_nat bound) as [|f IH]; cbn [highest_aux].
  - reflexivity.
  - rewrite He, IH. reflexivity.
Qed.
