(** C18 — what the modelled std algorithms / loops of SV.v compute (one specification lemma per loop). *)
From Coq Require Import List NArith ZArith Bool Lia.
From TLXV Require Import C18.Defs C18.StdSV C18.Lemmas C18.SV.
Import ListNotations.
Open Scope N_scope.

Lemma dropN_cons_succ x t k : dropN (N.succ k) (x :: t) = dropN k t.
Proof. cbn [dropN]. destruct (N.eqb_spec (N.succ k) 0); [lia|]. now rewrite N.pred_succ. Qed.

Lemma bool_eq_iff (a b : bool) : (a = true <-> b = true) -> a = b.
Proof. destruct a, b; intuition congruence. Qed.

(* ------------------------------------------------------------------ is_prefix / equal / search *)

Lemma is_prefix_char : forall s h,
  is_prefix s h = true <-> (size s <= size h /\ forall i, i < size s -> nthN h i = nthN s i).
Proof.
  induction s as [|y s IH]; intros h; cbn [is_prefix].
  - split; [intros _; split; [cbn [size]; lia|intros i Hi; cbn [size] in Hi; lia]|reflexivity].
  - destruct h as [|x h].
    + split; [discriminate|]. intros (Hs & _). rewrite size_cons in Hs. cbn [size] in Hs. lia.
    + rewrite andb_true_iff, IH, !size_cons. split.
      * intros (Hxy & Hs & He). apply N.eqb_eq in Hxy. subst y. split; [lia|]. intros i Hi.
        destruct (N.eqb_spec i 0) as [->|Hne]; [reflexivity|]. rewrite !nthN_cons_pos by lia. apply He. lia.
      * intros (Hs & He). split; [|split; [lia|]].
        -- apply N.eqb_eq. specialize (He 0). rewrite !nthN_cons_0 in He. apply He. lia.
        -- intros i Hi. specialize (He (N.succ i)). rewrite !nthN_cons_succ in He. apply He. lia.
Qed.

Lemma is_prefix_match_at h s x : 0 < size s \/ x <= size h ->
  is_prefix s (dropN x h) = match_at h s x.
Proof.
  intros Hx. apply bool_eq_iff. rewrite is_prefix_char. unfold match_at.
  rewrite andb_true_iff, N.leb_le, forallN_spec, size_dropN. split.
  - intros (Hs & He). split; [lia|]. intros i Hi. apply N.eqb_eq. rewrite <- nthN_dropN. now apply He.
  - intros (Hs & He). split; [lia|]. intros i Hi. rewrite nthN_dropN. apply N.eqb_eq. now apply He.
Qed.

Lemma equal_char : forall a b, size a <= size b ->
  (equal a b = true <-> forall i, i < size a -> nthN a i = nthN b i).
Proof.
  induction a as [|x a IH]; intros b Hs; cbn [equal].
  - split; [intros _ i Hi; cbn [size] in Hi; lia|reflexivity].
  - destruct b as [|y b]; [rewrite size_cons in Hs; cbn [size] in Hs; lia|].
    rewrite !size_cons in *. rewrite andb_true_iff, IH by lia. split.
    + intros (Hxy & He) i Hi. apply N.eqb_eq in Hxy. subst y.
      destruct (N.eqb_spec i 0) as [->|Hne]; [reflexivity|]. rewrite !nthN_cons_pos by lia. apply He. lia.
    + intros He. split.
      * apply N.eqb_eq. specialize (He 0). rewrite !nthN_cons_0 in He. apply He. lia.
      * intros i Hi. specialize (He (N.succ i)). rewrite !nthN_cons_succ in He. apply He. lia.
Qed.

Lemma search_spec s : forall h,
  let i := search h s in
  i <= size h /\ (forall j, j < i -> is_prefix s (dropN j h) = false) /\
  (i < size h -> is_prefix s (dropN i h) = true).
Proof.
  induction h as [|x t IH]; cbv zeta.
  - assert (E : search [] s = 0) by (cbn [search]; destruct (is_prefix s []); reflexivity).
    rewrite E. cbn [size]. split; [lia|]. split; intros; lia.
  - cbn [search]. destruct (is_prefix s (x :: t)) eqn:E.
    + split; [lia|]. split; [intros j Hj; lia|]. intros _. now rewrite dropN_0.
    + cbv zeta in IH. destruct IH as (Hle & Hbefore & Hat). rewrite size_cons. split; [lia|]. split.
      * intros j Hj. destruct (N.eqb_spec j 0) as [->|Hne]; [now rewrite dropN_0|].
        replace j with (N.succ (j - 1)) by lia. rewrite dropN_cons_succ. apply Hbefore. lia.
      * intros Hlt. rewrite dropN_cons_succ. apply Hat. lia.
Qed.

(* ------------------------------------------------------------------ mem / first_of / first_not_of *)

Lemma mem_spec c : forall s, mem c s = existsN (fun I => c =? nthN s I) (size s).
Proof.
  intros s. apply bool_eq_iff. rewrite existsN_spec. induction s as [|y s IH]; cbn [mem].
  - split; [discriminate|]. intros (i & Hi & _). cbn [size] in Hi. lia.
  - rewrite orb_true_iff, IH, size_cons. split.
    + intros [Hc|(i & Hi & Hc)].
      * exists 0. split; [lia|]. now rewrite nthN_cons_0.
      * exists (N.succ i). split; [lia|]. now rewrite nthN_cons_succ.
    + intros (i & Hi & Hc). destruct (N.eqb_spec i 0) as [->|Hne].
      * left. now rewrite nthN_cons_0 in Hc.
      * right. exists (i - 1). split; [lia|]. now rewrite nthN_cons_pos in Hc by lia.
Qed.

(** first position whose byte satisfies Q (the common shape of find_first_of's and find_not_of's loops) *)
Fixpoint first_where (Q : byte -> bool) (h : view) : N :=
  match h with
  | [] => 0
  | x :: t => if Q x then 0 else N.succ (first_where Q t)
  end.

Lemma first_of_where s : forall h, first_of h s = first_where (fun c => mem c s) h.
Proof. induction h as [|x t IH]; cbn [first_of first_where]; [reflexivity|]. now rewrite IH. Qed.

Lemma first_not_of_where s : forall h, first_not_of h s = first_where (fun c => negb (mem c s)) h.
Proof.
  induction h as [|x t IH]; cbn [first_not_of first_where]; [reflexivity|]. rewrite IH.
  destruct (mem x s); reflexivity.
Qed.

Lemma first_where_spec Q : forall h,
  let i := first_where Q h in
  i <= size h /\ (forall j, j < i -> Q (nthN h j) = false) /\ (i < size h -> Q (nthN h i) = true).
Proof.
  induction h as [|x t IH]; cbv zeta; cbn [first_where].
  - cbn [size]. split; [lia|]. split; intros; lia.
  - rewrite size_cons. destruct (Q x) eqn:E.
    + split; [lia|]. split; [intros; lia|]. intros _. now rewrite nthN_cons_0.
    + cbv zeta in IH. destruct IH as (Hle & Hbefore & Hat). split; [lia|]. split.
      * intros j Hj. destruct (N.eqb_spec j 0) as [->|Hne]; [now rewrite nthN_cons_0|].
        rewrite nthN_cons_pos by lia. apply Hbefore. lia.
      * intros Hlt. rewrite nthN_cons_succ. apply Hat. lia.
Qed.

(* ------------------------------------------------------------------ memcmp / compare *)

Lemma memcmp_cases : forall a b n, n <= size a -> n <= size b ->
  (memcmp a b n = 0%Z /\ forall i, i < n -> nthN a i = nthN b i) \/
  (exists j, j < n /\ (forall i, i < j -> nthN a i = nthN b i) /\ nthN a j <> nthN b j /\
             memcmp a b n = if nthN a j <? nthN b j then (-1)%Z else 1%Z).
Proof.
  induction a as [|x a IH]; intros b n Ha Hb.
  - cbn [size] in Ha. left. split; [reflexivity|]. intros i Hi. lia.
  - destruct b as [|y b]; [cbn [size] in Hb; left; split; [reflexivity|intros i Hi; lia]|].
    rewrite !size_cons in *. cbn [memcmp]. destruct (N.eqb_spec n 0) as [->|Hn].
    + left. split; [reflexivity|]. intros i Hi. lia.
    + destruct (N.ltb_spec x y) as [Hxy|Hxy].
      * right. exists 0. rewrite !nthN_cons_0. split; [lia|]. split; [intros i Hi; lia|]. split; [lia|].
        destruct (N.ltb_spec x y); [reflexivity|lia].
      * destruct (N.ltb_spec y x) as [Hyx|Hyx].
        -- right. exists 0. rewrite !nthN_cons_0. split; [lia|]. split; [intros i Hi; lia|]. split; [lia|].
           destruct (N.ltb_spec x y); [lia|reflexivity].
        -- assert (x = y) by lia. subst y.
           destruct (IH b (N.pred n)) as [(Hz & He)|(j & Hj & He & Hne & Hr)]; [lia|lia| |].
           ++ left. split; [assumption|]. intros i Hi.
              destruct (N.eqb_spec i 0) as [->|Hi0]; [reflexivity|]. rewrite !nthN_cons_pos by lia. apply He. lia.
           ++ right. exists (N.succ j). rewrite !nthN_cons_succ. split; [lia|]. split; [|split; assumption].
              intros i Hi. destruct (N.eqb_spec i 0) as [->|Hi0]; [reflexivity|].
              rewrite !nthN_cons_pos by lia. apply He. lia.
Qed.

Lemma memcmp_zero_iff a b n : n <= size a -> n <= size b ->
  (memcmp a b n = 0%Z <-> forall i, i < n -> nthN a i = nthN b i).
Proof.
  intros Ha Hb. destruct (memcmp_cases a b n Ha Hb) as [(Hz & He)|(j & Hj & He & Hne & Hr)].
  - split; auto.
  - split.
    + intros Hz. rewrite Hz in Hr. destruct (nthN a j <? nthN b j); discriminate.
    + intros Hall. exfalso. apply Hne. now apply Hall.
Qed.

(** the model's memcmp is char_traits<char>::compare as specified in [char.traits.require] *)
Lemma memcmp_traits a b n : n <= size a -> n <= size b -> n <= npos ->
  memcmp a b n = traits_compare a b n.
Proof.
  intros Ha Hb Hn. unfold traits_compare. cbv zeta.
  destruct (memcmp_cases a b n Ha Hb) as [(Hz & He)|(j & Hj & He & Hne & Hr)].
  - rewrite (lowest_char_b _ n npos).
    + rewrite N.eqb_refl. assumption.
    + assumption.
    + right. split; [reflexivity|]. intros y Hy. rewrite He by assumption. rewrite N.eqb_refl.
      now rewrite andb_false_r.
  - rewrite (lowest_char_b _ n j).
    + destruct (N.eqb_spec j npos) as [Hjn|_]; [lia|]. assumption.
    + assumption.
    + left. split; [assumption|]. split.
      * destruct (N.ltb_spec j n); [|lia]. destruct (N.eqb_spec (nthN a j) (nthN b j)); [contradiction|reflexivity].
      * intros y Hy. rewrite He by assumption. rewrite N.eqb_refl. now rewrite andb_false_r.
Qed.

Lemma size_order_cons x y a b : size_order (x :: a) (y :: b) = size_order a b.
Proof.
  unfold size_order. rewrite !size_cons.
  destruct (N.eqb_spec (size a + 1) (size b + 1)), (N.eqb_spec (size a) (size b)); try lia; try reflexivity.
  destruct (N.ltb_spec (size a + 1) (size b + 1)), (N.ltb_spec (size a) (size b)); try lia; reflexivity.
Qed.

Lemma compare_nil_nil : SV.compare [] [] = 0%Z.
Proof. reflexivity. Qed.

Lemma compare_nil_cons y b : SV.compare [] (y :: b) = (-1)%Z.
Proof.
  unfold SV.compare, size_order. cbn [memcmp]. cbv zeta. rewrite size_cons. cbn [size Z.eqb].
  destruct (N.eqb_spec 0 (size b + 1)); [lia|]. destruct (N.ltb_spec 0 (size b + 1)); [reflexivity|lia].
Qed.

Lemma compare_cons_nil x a : SV.compare (x :: a) [] = 1%Z.
Proof.
  unfold SV.compare, size_order. cbn [memcmp]. cbv zeta. rewrite size_cons. cbn [size Z.eqb].
  destruct (N.eqb_spec (size a + 1) 0); [lia|]. destruct (N.ltb_spec (size a + 1) 0); [lia|reflexivity].
Qed.

Lemma compare_cons_cons x y a b :
  SV.compare (x :: a) (y :: b) = if x <? y then (-1)%Z else if y <? x then 1%Z else SV.compare a b.
Proof.
  unfold SV.compare. cbv zeta. rewrite size_order_cons. cbn [memcmp]. rewrite !size_cons.
  destruct (N.eqb_spec (N.min (size a + 1) (size b + 1)) 0) as [E|_]; [lia|].
  destruct (x <? y); [reflexivity|]. destruct (y <? x); [reflexivity|].
  replace (N.pred (N.min (size a + 1) (size b + 1))) with (N.min (size a) (size b)) by lia. reflexivity.
Qed.

Lemma lex_lt_compare : forall a b, lex_lt ult a b = (SV.compare a b <? 0)%Z.
Proof.
  induction a as [|x a IH]; intros [|y b]; cbn [lex_lt].
  - reflexivity.
  - now rewrite compare_nil_cons.
  - now rewrite compare_cons_nil.
  - rewrite compare_cons_cons. unfold ult. destruct (x <? y); [reflexivity|]. destruct (y <? x); [reflexivity|]. apply IH.
Qed.

Lemma op_eq_compare : forall a b, SV.op_eq a b = (SV.compare a b =? 0)%Z.
Proof.
  unfold SV.op_eq. induction a as [|x a IH]; intros [|y b]; cbn [equal].
  - reflexivity.
  - rewrite compare_nil_cons, size_cons. cbn [size]. destruct (N.eqb_spec 0 (size b + 1)); [lia|reflexivity].
  - rewrite compare_cons_nil, size_cons. cbn [size]. destruct (N.eqb_spec (size a + 1) 0); [lia|reflexivity].
  - rewrite compare_cons_cons, !size_cons. specialize (IH b).
    replace (size a + 1 =? size b + 1) with (size a =? size b)
      by (destruct (N.eqb_spec (size a) (size b)), (N.eqb_spec (size a + 1) (size b + 1)); lia || reflexivity).
    destruct (N.ltb_spec x y) as [Hxy|Hxy].
    + destruct (N.eqb_spec x y); [lia|]. cbn [andb]. now rewrite andb_false_r.
    + destruct (N.ltb_spec y x) as [Hyx|Hyx].
      * destruct (N.eqb_spec x y); [lia|]. cbn [andb]. now rewrite andb_false_r.
      * destruct (N.eqb_spec x y); [|lia]. cbn [andb]. exact IH.
Qed.

Lemma compare_antisym : forall a b, SV.compare b a = (- SV.compare a b)%Z.
Proof.
  induction a as [|x a IH]; intros [|y b].
  - reflexivity.
  - now rewrite compare_nil_cons, compare_cons_nil.
  - now rewrite compare_nil_cons, compare_cons_nil.
  - rewrite !compare_cons_cons. destruct (N.ltb_spec x y), (N.ltb_spec y x); try lia; try reflexivity. apply IH.
Qed.

(* ------------------------------------------------------------------ strlen *)

Lemma cstr_spec : forall s,
  size (cstr s) <= size s /\ (forall i, i < size (cstr s) -> nthN (cstr s) i = nthN s i /\ nthN s i <> 0) /\
  nthN s (size (cstr s)) = 0.
Proof.
  induction s as [|x s IH]; cbn [cstr].
  - cbn [size]. split; [lia|]. split; [intros i Hi; lia|reflexivity].
  - destruct (N.eqb_spec x 0) as [->|Hx].
    + cbn [size]. split; [lia|]. split; [intros i Hi; lia|reflexivity].
    + destruct IH as (Hle & He & Hz). rewrite !size_cons. split; [lia|]. split.
      * intros i Hi. destruct (N.eqb_spec i 0) as [->|Hi0]; [rewrite !nthN_cons_0; auto|].
        rewrite !nthN_cons_pos by lia. apply He. lia.
      * rewrite nthN_cons_pos by lia. replace (size (cstr s) + 1 - 1) with (size (cstr s)) by lia. assumption.
Qed.
