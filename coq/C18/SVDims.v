(** C18 — size arithmetic of the StringView queries, separated from the bytes.

    The "huge sizes" family of the correspondence run uses views of 2^31 .. 2^32+2^31 bytes (a read-only
    zero mapping); such a view cannot be handed to the extracted model as a byte list. What the model needs of it
    is only its size and a short window of its bytes. The functions below are the size / offset computations of
    SV.v (same case splits, same wsub/min), and C18/Window.v proves that every query of SV.v on a view [h] equals
    these computations on [size h] combined with the query on a window [takeN l (dropN o h)] of [h]. *)
From Coq Require Import List NArith ZArith Bool.
From TLXV Require Import C18.Defs.
Import ListNotations.
Open Scope N_scope.

(** the sub-range [ptr_+o, ptr_+o+l) *)
Definition window (h : view) (o l : N) : view := takeN l (dropN o h).

Definition at_throws (sz pos : N) : bool := sz <=? pos.

(** substr(pos, n): (offset of the result's data(), its size()) *)
Definition substr_dims (sz pos n : N) : res (N * N) :=
  if sz <? pos then OutOfRange else Ok (pos, N.min (wsub sz pos) n).

Definition remove_prefix_dims (sz n : N) : N * N :=
  let n := if sz <? n then sz else n in (n, wsub sz n).

Definition remove_suffix_dims (sz n : N) : N * N :=
  let n := if sz <? n then sz else n in (0, wsub sz n).

(** copy(s, n, pos): the returned count; the bytes copied are the window (pos, count) *)
Definition copy_dims (sz n pos : N) : res N :=
  if sz <? pos then OutOfRange else Ok (N.min n (wsub sz pos)).
