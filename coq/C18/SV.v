(** C18 — executable model of tlx::StringView (tlx/container/string_view.hpp), query by query, with the
    clamping rules, case splits and loop structure of the C++.

    Iterators are offsets from [begin()]; a std algorithm on [first, last) is a structural recursion over
    the list of bytes of that range and returns the offset of the result iterator from [first]
    ([size] of the range = [last]).  Reverse iterators walk [rev h]; [crbegin() + k] is [dropN k (rev h)].

    The definitions without suffix are the behaviour of the working tree with fixes/C18/*.patch applied;
    the shipped (704fd0b) behaviour of the five repaired functions is kept as [*_shipped]. *)
From Coq Require Import List NArith ZArith Bool.
From TLXV Require Import C18.Defs.
Import ListNotations.
Open Scope N_scope.

(* ------------------------------------------------------------------ std algorithms on byte ranges *)

(** std::equal(first1, last1, first2): [a] is exactly the first range, [b] starts at first2 *)
Fixpoint equal (a b : view) : bool :=
  match a with
  | [] => true
  | x :: a' => match b with
               | [] => false           (* second range too short: excluded by the callers' size tests *)
               | y :: b' => (x =? y) && equal a' b'
               end
  end.

(** does [s] occur at the very start of [h] *)
Fixpoint is_prefix (s h : view) : bool :=
  match s with
  | [] => true
  | y :: s' => match h with
               | [] => false
               | x :: h' => (x =? y) && is_prefix s' h'
               end
  end.

(** std::search(first, last, s_first, s_last): offset of the first occurrence, [size h] (= last) if none *)
Fixpoint search (h s : view) : N :=
  if is_prefix s h then 0
  else match h with
       | [] => 0
       | _ :: t => N.succ (search t s)
       end.

(** std::char_traits<char>::find(s, n, c) != nullptr *)
Fixpoint mem (c : byte) (s : view) : bool :=
  match s with
  | [] => false
  | y :: s' => (c =? y) || mem c s'
  end.

(** std::find_first_of(first, last, s_first, s_last) *)
Fixpoint first_of (h s : view) : N :=
  match h with
  | [] => 0
  | x :: t => if mem x s then 0 else N.succ (first_of t s)
  end.

(** StringView::find_not_of(first, last, s) *)
Fixpoint first_not_of (h s : view) : N :=
  match h with
  | [] => 0
  | x :: t => if mem x s then N.succ (first_not_of t s) else 0
  end.

(** std::char_traits<char>::compare(a, b, n) = memcmp: bytes compared as unsigned char; only the sign of
    the result is modelled (the standard fixes nothing else). *)
Fixpoint memcmp (a b : view) (n : N) : Z :=
  match a, b with
  | x :: a', y :: b' =>
      if n =? 0 then 0%Z
      else if x <? y then (-1)%Z
      else if y <? x then 1%Z
      else memcmp a' b' (N.pred n)
  | _, _ => 0%Z                        (* n exceeds a range: excluded, n <= both sizes at every call *)
  end.

(** std::strncmp(a, b, n): like memcmp but stops after a NUL that is equal in both *)
Fixpoint strncmp (a b : view) (n : N) : Z :=
  match a, b with
  | x :: a', y :: b' =>
      if n =? 0 then 0%Z
      else if x <? y then (-1)%Z
      else if y <? x then 1%Z
      else if x =? 0 then 0%Z
      else strncmp a' b' (N.pred n)
  | _, _ => 0%Z
  end.

(** std::lexicographical_compare(first1, last1, first2, last2, lt) *)
Fixpoint lex_lt (lt : byte -> byte -> bool) (a b : view) : bool :=
  match a, b with
  | _, [] => false
  | [], _ :: _ => true
  | x :: a', y :: b' => if lt x y then true else if lt y x then false else lex_lt lt a' b'
  end.

(** char_traits<char>::lt : as unsigned char *)
Definition ult (x y : byte) : bool := x <? y.
(** built-in < on plain char, which is a signed type on the target (x86-64 Linux) *)
Definition signed (x : byte) : Z := if x <? 128 then Z.of_N x else (Z.of_N x - 256)%Z.
Definition slt (x y : byte) : bool := (signed x <? signed y)%Z.

(** strlen: the bytes before the first NUL (the argument is the memory from the pointer on; the callers
    guarantee a terminator, the harness appends one after the needle) *)
Fixpoint cstr (s : view) : view :=
  match s with
  | [] => []
  | x :: t => if x =? 0 then [] else x :: cstr t
  end.

(* ------------------------------------------------------------------ element access, modifiers *)

Definition index (h : view) (pos : N) : byte := nthN h pos.                 (* operator[], pos < size *)

Definition at_ (h : view) (pos : N) : res byte :=
  if size h <=? pos then OutOfRange else Ok (nthN h pos).

Definition front (h : view) : byte := nthN h 0.                               (* non-empty *)
Definition back (h : view) : byte := nthN h (wsub (size h) 1).                (* non-empty *)

Definition remove_prefix (h : view) (n : N) : view :=
  let n := if size h <? n then size h else n in
  takeN (wsub (size h) n) (dropN n h).

Definition remove_suffix (h : view) (n : N) : view :=
  let n := if size h <? n then size h else n in
  takeN (wsub (size h) n) h.

Definition to_string (h : view) : view := takeN (size h) h.                   (* std::string(ptr_, size_) *)

(** copy(s, n, pos): result = (returned count, contents of the destination buffer afterwards) *)
Definition copy (h buf : view) (n pos : N) : res (N * view) :=
  if size h <? pos then OutOfRange
  else let rsize := N.min n (wsub (size h) pos) in
       Ok (rsize, takeN rsize (dropN pos h) ++ dropN rsize buf).

Definition copy_shipped (h buf : view) (n pos : N) : res (N * view) :=
  if size h <? pos then OutOfRange
  else let rsize := N.min n (wsub (size h) pos) in
       Ok (rsize, takeN rsize h ++ dropN rsize buf).

Definition substr (h : view) (pos n : N) : res view :=
  if size h <? pos then OutOfRange
  else Ok (takeN (N.min (wsub (size h) pos) n) (dropN pos h)).

(* ------------------------------------------------------------------ comparisons *)

Definition size_order (a b : view) : Z :=
  if size a =? size b then 0%Z else if size a <? size b then (-1)%Z else 1%Z.

Definition compare (a b : view) : Z :=
  let cmp := memcmp a b (N.min (size a) (size b)) in
  if (cmp =? 0)%Z then size_order a b else cmp.

Definition compare_shipped (a b : view) : Z :=
  let cmp := strncmp a b (N.min (size a) (size b)) in
  if (cmp =? 0)%Z then size_order a b else cmp.

(** compare(pos1, n1, x) *)
Definition compare3 (h : view) (pos1 n1 : N) (x : view) : res Z :=
  match substr h pos1 n1 with
  | Ok v => Ok (compare v x)
  | _ => OutOfRange
  end.

(** as shipped the overload is declared noexcept: the out_of_range of substr() ends in std::terminate *)
Definition compare3_shipped (h : view) (pos1 n1 : N) (x : view) : res Z :=
  match substr h pos1 n1 with
  | Ok v => Ok (compare v x)
  | _ => Terminate
  end.

(** compare(pos1, n1, x, pos2, n2) *)
Definition compare5 (h : view) (pos1 n1 : N) (x : view) (pos2 n2 : N) : res Z :=
  match substr h pos1 n1, substr x pos2 n2 with
  | Ok v, Ok w => Ok (compare v w)
  | _, _ => OutOfRange
  end.

Definition op_eq (a b : view) : bool := (size a =? size b) && equal a b.
Definition op_ne (a b : view) : bool := negb (op_eq a b).
Definition op_lt (a b : view) : bool := lex_lt ult a b.
Definition op_gt (a b : view) : bool := op_lt b a.
Definition op_le (a b : view) : bool := negb (op_lt b a).
Definition op_ge (a b : view) : bool := negb (op_lt a b).

Definition op_lt_shipped (a b : view) : bool := lex_lt slt a b.
Definition op_gt_shipped (a b : view) : bool := op_lt_shipped b a.
Definition op_le_shipped (a b : view) : bool := negb (op_lt_shipped b a).
Definition op_ge_shipped (a b : view) : bool := negb (op_lt_shipped a b).

(* ------------------------------------------------------------------ starts_with / ends_with *)

Definition starts_with_char (h : view) (c : byte) : bool := negb (is_empty h) && (c =? front h).
Definition ends_with_char (h : view) (c : byte) : bool := negb (is_empty h) && (c =? back h).

Definition starts_with (h x : view) : bool :=
  (size x <=? size h) && equal (takeN (size x) h) x.

Definition ends_with (h x : view) : bool :=
  (size x <=? size h) && equal (dropN (wsub (size h) (size x)) h) x.

(* ------------------------------------------------------------------ find family *)

Definition find (h s : view) (pos : N) : N :=
  if size h <? pos then npos
  else if is_empty s then pos
  else let it := pos + search (dropN pos h) s in
       if it =? size h then npos else it.

(** the rfind loop: for (cur = ptr_ + pos;; --cur) { if (match at cur) return cur; if (cur == ptr_) return npos; } *)
Fixpoint rfind_loop (cmp : view -> view -> N -> Z) (h s : view) (cur : nat) : N :=
  if (cmp (dropN (N.of_nat cur) h) s (size s) =? 0)%Z then N.of_nat cur
  else match cur with
       | O => npos
       | S c => rfind_loop cmp h s c
       end.

Definition rfind_with (cmp : view -> view -> N -> Z) (h s : view) (pos : N) : N :=
  if size h <? size s then npos
  else let pos := if wsub (size h) (size s) <? pos then wsub (size h) (size s) else pos in
       if size s =? 0 then pos
       else rfind_loop cmp h s (N.to_nat pos).            (* pos <= size h here *)

Definition rfind := rfind_with memcmp.
Definition rfind_shipped := rfind_with strncmp.

Definition find_first_of (h s : view) (pos : N) : N :=
  if (size h <=? pos) || (size s =? 0) then npos
  else let it := pos + first_of (dropN pos h) s in
       if it =? size h then npos else it.

(** reverse_distance(crbegin(), iter) = size_ - 1 - distance *)
Definition reverse_distance (h : view) (d : N) : N := wsub (wsub (size h) 1) d.

Definition find_last_of (h s : view) (pos : N) : N :=
  if size s =? 0 then npos
  else let pos := if size h <=? pos then 0 else wsub (size h) (wadd pos 1) in
       let it := pos + first_of (dropN pos (rev h)) s in
       if it =? size h then npos else reverse_distance h it.

Definition find_first_not_of (h s : view) (pos : N) : N :=
  if size h <=? pos then npos
  else if size s =? 0 then pos
  else let it := pos + first_not_of (dropN pos h) s in
       if it =? size h then npos else it.

Definition find_last_not_of (h s : view) (pos : N) : N :=
  let pos := if size h <=? pos then wsub (size h) 1 else pos in
  if size s =? 0 then pos
  else let pos := wsub (size h) (wadd pos 1) in
       let it := pos + first_not_of (dropN pos (rev h)) s in
       if it =? size h then npos else reverse_distance h it.

(* ------------------------------------------------------------------ overloads (delegations in the C++) *)

(** f(char c, pos) = f(StringView(&c, 1), pos);  f(const char *s, pos, n) = f(StringView(s, n), pos);
    f(const char *s, pos) = f(StringView(s), pos) where the C-string constructor uses strlen *)
Definition of_char (c : byte) : view := [c].
Definition of_ptr_n (s : view) (n : N) : view := takeN n s.
Definition of_cstr (s : view) : view := cstr s.
