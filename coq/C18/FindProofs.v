(** C18 — the find family: each modelled search returns the lowest / highest position the standard describes. *)
From Coq Require Import List NArith ZArith Bool Lia.
From TLXV Require Import C18.Defs C18.StdSV C18.Lemmas C18.SV C18.AlgoLemmas.
Import ListNotations.
Open Scope N_scope.

Lemma existsN_0 P : existsN P 0 = false.
Proof. reflexivity. Qed.
Lemma forallN_0 P : forallN P 0 = true.
Proof. reflexivity. Qed.

(* ------------------------------------------------------------------ find *)

Theorem sv_eq_std_find h s pos : size h < npos -> SV.find h s pos = StdSV.find h s pos.
Proof.
  intros Hh. unfold SV.find, StdSV.find. symmetry. apply lowest_char.
  - intros x Hx. apply andb_true_iff in Hx. destruct Hx as (_ & Hm). unfold match_at in Hm.
    apply andb_true_iff in Hm. destruct Hm as (Hm & _). apply N.leb_le in Hm. lia.
  - lia.
  - destruct (N.ltb_spec (size h) pos) as [Hgt|Hle].
    + right. split; [reflexivity|]. intros y. destruct (N.leb_spec pos y); [|reflexivity]. cbn [andb].
      unfold match_at. destruct (N.leb_spec (y + size s) (size h)); [lia|reflexivity].
    + unfold is_empty. destruct (N.eqb_spec (size s) 0) as [Hs0|Hs0].
      * left. split.
        -- rewrite N.leb_refl. unfold match_at. rewrite Hs0, forallN_0.
           destruct (N.leb_spec (pos + 0) (size h)); [reflexivity|lia].
        -- intros y Hy. apply andb_true_iff in Hy. destruct Hy as (Hy & _). now apply N.leb_le in Hy.
      * destruct (search_spec s (dropN pos h)) as (Hi & Hbefore & Hat). rewrite size_dropN in *.
        set (i := search (dropN pos h) s) in *.
        assert (Hpref : forall j, is_prefix s (dropN j (dropN pos h)) = match_at h s (pos + j)).
        { intros j. rewrite <- is_prefix_match_at by lia. f_equal.
          apply view_ext; [rewrite !size_dropN; lia|]. intros k _. rewrite !nthN_dropN. f_equal. lia. }
        destruct (N.eqb_spec (pos + i) (size h)) as [Hend|Hfound].
        -- right. split; [reflexivity|]. intros y. destruct (N.leb_spec pos y) as [Hpy|]; [|reflexivity]. cbn [andb].
           destruct (N.lt_ge_cases (y - pos) i) as [Hlt|Hge].
           ++ rewrite <- (Hbefore (y - pos) Hlt), Hpref. f_equal. lia.
           ++ unfold match_at. destruct (N.leb_spec (y + size s) (size h)); [lia|reflexivity].
        -- left. split.
           ++ destruct (N.leb_spec pos (pos + i)); [|lia]. cbn [andb]. rewrite <- Hpref. apply Hat. lia.
           ++ intros y Hy. apply andb_true_iff in Hy. destruct Hy as (Hpy & Hm). apply N.leb_le in Hpy.
              destruct (N.lt_ge_cases (y - pos) i) as [Hlt|Hge]; [|lia].
              specialize (Hbefore (y - pos) Hlt). rewrite Hpref in Hbefore.
              replace (pos + (y - pos)) with y in Hbefore by lia. congruence.
Qed.

(* ------------------------------------------------------------------ rfind *)

Lemma memcmp_match_at h s x : x + size s <= size h ->
  (memcmp (dropN x h) s (size s) =? 0)%Z = match_at h s x.
Proof.
  intros Hx. apply bool_eq_iff. rewrite Z.eqb_eq, memcmp_zero_iff by (rewrite ?size_dropN; lia).
  unfold match_at. rewrite andb_true_iff, N.leb_le, forallN_spec. split.
  - intros He. split; [assumption|]. intros i Hi. apply N.eqb_eq. rewrite <- nthN_dropN. now apply He.
  - intros (_ & He) i Hi. rewrite nthN_dropN. apply N.eqb_eq. now apply He.
Qed.

Lemma rfind_loop_spec h s : forall cur, N.of_nat cur + size s <= size h ->
  let r := rfind_loop memcmp h s cur in
  (r = npos /\ forall y, y <= N.of_nat cur -> match_at h s y = false) \/
  (r <= N.of_nat cur /\ match_at h s r = true /\ forall y, r < y <= N.of_nat cur -> match_at h s y = false).
Proof.
  induction cur as [|c IH]; intros Hc; cbv zeta; cbn [rfind_loop]; rewrite memcmp_match_at by assumption.
  - destruct (match_at h s (N.of_nat 0)) eqn:E.
    + right. split; [lia|]. split; [assumption|]. intros y Hy. lia.
    + left. split; [reflexivity|]. intros y Hy. replace y with (N.of_nat 0) by lia. assumption.
  - destruct (match_at h s (N.of_nat (S c))) eqn:E.
    + right. split; [lia|]. split; [assumption|]. intros y Hy. lia.
    + destruct (IH ltac:(lia)) as [(Hr & Hall)|(Hr & Hm & Hall)].
      * left. split; [assumption|]. intros y Hy.
        destruct (N.eq_dec y (N.of_nat (S c))) as [->|Hne]; [assumption|]. apply Hall. lia.
      * right. split; [lia|]. split; [assumption|]. intros y Hy.
        destruct (N.eq_dec y (N.of_nat (S c))) as [->|Hne]; [assumption|]. apply Hall. lia.
Qed.

Theorem sv_eq_std_rfind h s pos : size h < npos -> SV.rfind h s pos = StdSV.rfind h s pos.
Proof.
  intros Hh. unfold SV.rfind, rfind_with, StdSV.rfind. symmetry. apply highest_char_b; [lia|].
  destruct (N.ltb_spec (size h) (size s)) as [Hlt|Hge].
  - right. split; [reflexivity|]. intros y Hy. unfold match_at.
    destruct (N.leb_spec (y + size s) (size h)); [lia|]. now rewrite andb_false_r.
  - rewrite wsub_le by lia.
    set (p := if size h - size s <? pos then size h - size s else pos).
    assert (Hp : p = N.min pos (size h - size s)).
    { unfold p. destruct (N.ltb_spec (size h - size s) pos); lia. }
    clearbody p. destruct (N.eqb_spec (size s) 0) as [Hs0|Hs0].
    + left. split; [lia|]. split.
      * destruct (N.leb_spec p pos); [|lia]. cbn [andb]. unfold match_at. rewrite Hs0, forallN_0.
        destruct (N.leb_spec (p + 0) (size h)); [reflexivity|lia].
      * intros y Hy. destruct (N.leb_spec y pos); [lia|reflexivity].
    + destruct (rfind_loop_spec h s (N.to_nat p) ltac:(lia)) as [(Hr & Hall)|(Hr & Hm & Hall)].
      * right. split; [assumption|]. intros y Hy. destruct (N.leb_spec y pos); [|reflexivity]. cbn [andb].
        destruct (N.le_gt_cases y p) as [Hyp|Hyp]; [apply Hall; lia|].
        unfold match_at. destruct (N.leb_spec (y + size s) (size h)); [lia|reflexivity].
      * left. split; [lia|]. split.
        -- rewrite Hm. destruct (N.leb_spec (rfind_loop memcmp h s (N.to_nat p)) pos); [reflexivity|lia].
        -- intros y Hy. destruct (N.leb_spec y pos); [|reflexivity]. cbn [andb].
           destruct (N.le_gt_cases y p) as [Hyp|Hyp]; [apply Hall; lia|].
           unfold match_at. destruct (N.leb_spec (y + size s) (size h)); [lia|reflexivity].
Qed.

(* ------------------------------------------------------------------ forward / backward byte scans *)

Lemma fwd_scan Q h pos : pos < size h -> size h <= npos ->
  lowest (fun x => (pos <=? x) && ((x <? size h) && Q (nthN h x))) (size h) =
  (let it := pos + first_where Q (dropN pos h) in if it =? size h then npos else it).
Proof.
  intros Hpos Hh. cbv zeta. destruct (first_where_spec Q (dropN pos h)) as (Hle & Hbefore & Hat).
  rewrite size_dropN in *. set (i := first_where Q (dropN pos h)) in *.
  assert (Hb : forall y, pos <= y -> y < pos + i -> Q (nthN h y) = false).
  { intros y H1 H2. specialize (Hbefore (y - pos) ltac:(lia)). rewrite nthN_dropN in Hbefore.
    now replace (pos + (y - pos)) with y in Hbefore by lia. }
  apply lowest_char_b; [assumption|]. destruct (N.eqb_spec (pos + i) (size h)) as [Hend|Hfound].
  - right. split; [reflexivity|]. intros y Hy. destruct (N.leb_spec pos y); [|reflexivity].
    rewrite Hb by lia. now rewrite !andb_false_r.
  - left. split; [lia|]. split.
    + destruct (N.leb_spec pos (pos + i)); [|lia]. destruct (N.ltb_spec (pos + i) (size h)); [|lia].
      cbn [andb]. rewrite <- nthN_dropN. apply Hat. lia.
    + intros y Hy. destruct (N.leb_spec pos y); [|reflexivity]. rewrite Hb by lia. now rewrite !andb_false_r.
Qed.

Lemma bwd_scan Q h p0 : p0 < size h -> size h <= npos ->
  highest (fun x => (x <=? p0) && ((x <? size h) && Q (nthN h x))) (size h) =
  (let pos' := size h - 1 - p0 in
   let it := pos' + first_where Q (dropN pos' (rev h)) in
   if it =? size h then npos else size h - 1 - it).
Proof.
  intros Hp0 Hh. cbv zeta. set (pos' := size h - 1 - p0).
  destruct (first_where_spec Q (dropN pos' (rev h))) as (Hle & Hbefore & Hat).
  rewrite size_dropN, size_rev in *. set (i := first_where Q (dropN pos' (rev h))) in *.
  assert (Hidx : forall j, j <= p0 -> nthN (dropN pos' (rev h)) j = nthN h (p0 - j)).
  { intros j Hj. rewrite nthN_dropN, nthN_rev by lia. f_equal. lia. }
  assert (Hb : forall y, y <= p0 -> p0 - i < y \/ p0 < i -> Q (nthN h y) = false).
  { intros y H1 H2. specialize (Hbefore (p0 - y) ltac:(lia)). rewrite Hidx in Hbefore by lia.
    now replace (p0 - (p0 - y)) with y in Hbefore by lia. }
  apply highest_char_b; [assumption|]. destruct (N.eqb_spec (pos' + i) (size h)) as [Hend|Hfound].
  - right. split; [reflexivity|]. intros y Hy. destruct (N.leb_spec y p0); [|reflexivity].
    rewrite Hb by lia. now rewrite !andb_false_r.
  - left. split; [lia|]. split.
    + destruct (N.leb_spec (size h - 1 - (pos' + i)) p0); [|lia].
      destruct (N.ltb_spec (size h - 1 - (pos' + i)) (size h)); [|lia]. cbn [andb].
      replace (size h - 1 - (pos' + i)) with (p0 - i) by lia. rewrite <- Hidx by lia. apply Hat. lia.
    + intros y Hy. destruct (N.leb_spec y p0); [|reflexivity]. rewrite Hb by lia. now rewrite !andb_false_r.
Qed.

(* ------------------------------------------------------------------ find_first_of / find_first_not_of *)

Theorem sv_eq_std_find_first_of h s pos : size h <= npos ->
  SV.find_first_of h s pos = StdSV.find_first_of h s pos.
Proof.
  intros Hh. unfold SV.find_first_of, StdSV.find_first_of.
  destruct ((size h <=? pos) || (size s =? 0)) eqn:E.
  - symmetry. apply lowest_char_b; [assumption|]. right. split; [reflexivity|]. intros y Hy.
    apply orb_true_iff in E. unfold one_of. destruct E as [E|E].
    + apply N.leb_le in E. destruct (N.leb_spec pos y); [lia|reflexivity].
    + apply N.eqb_eq in E. rewrite E, existsN_0. now rewrite !andb_false_r.
  - apply orb_false_iff in E. destruct E as (E1 & _). apply N.leb_gt in E1.
    rewrite first_of_where.
    transitivity (lowest (fun x => (pos <=? x) && ((x <? size h) && mem (nthN h x) s)) (size h)).
    + symmetry. apply (fwd_scan (fun c => mem c s)); assumption.
    + apply lowest_ext. intros x. unfold one_of. now rewrite mem_spec.
Qed.

Theorem sv_eq_std_find_first_not_of h s pos : size h <= npos ->
  SV.find_first_not_of h s pos = StdSV.find_first_not_of h s pos.
Proof.
  intros Hh. unfold SV.find_first_not_of, StdSV.find_first_not_of.
  destruct (N.leb_spec (size h) pos) as [Hge|Hlt].
  - symmetry. apply lowest_char_b; [assumption|]. right. split; [reflexivity|]. intros y Hy.
    destruct (N.leb_spec pos y); [lia|reflexivity].
  - destruct (N.eqb_spec (size s) 0) as [Hs0|Hs0].
    + symmetry. apply lowest_char_b; [assumption|]. left. split; [assumption|]. split.
      * rewrite N.leb_refl. unfold none_of. rewrite Hs0, existsN_0.
        destruct (N.ltb_spec pos (size h)); [reflexivity|lia].
      * intros y Hy. destruct (N.leb_spec pos y); [lia|reflexivity].
    + rewrite first_not_of_where.
      transitivity (lowest (fun x => (pos <=? x) && ((x <? size h) && negb (mem (nthN h x) s))) (size h)).
      * symmetry. apply (fwd_scan (fun c => negb (mem c s))); assumption.
      * apply lowest_ext. intros x. unfold none_of. now rewrite mem_spec.
Qed.

(* ------------------------------------------------------------------ find_last_of / find_last_not_of *)

Lemma highest_0 P : highest P 0 = npos.
Proof. reflexivity. Qed.

Theorem sv_eq_std_find_last_of h s pos : size h <= npos ->
  SV.find_last_of h s pos = StdSV.find_last_of h s pos.
Proof.
  intros Hh. unfold SV.find_last_of, StdSV.find_last_of.
  destruct (N.eqb_spec (size s) 0) as [Hs0|Hs0].
  - symmetry. apply highest_char_b; [assumption|]. right. split; [reflexivity|]. intros y Hy.
    unfold one_of. rewrite Hs0, existsN_0. now rewrite !andb_false_r.
  - destruct (N.eqb_spec (size h) 0) as [Hh0|Hh0].
    + apply size_0_nil in Hh0. subst h. cbn [size rev]. rewrite highest_0.
      destruct (N.leb_spec 0 pos); [|lia]. reflexivity.
    + set (p0 := if size h <=? pos then size h - 1 else pos).
      assert (Hp0 : p0 < size h) by (unfold p0; destruct (N.leb_spec (size h) pos); lia).
      assert (Hpos' : (if size h <=? pos then 0 else wsub (size h) (wadd pos 1)) = size h - 1 - p0).
      { unfold p0. destruct (N.leb_spec (size h) pos); [lia|].
        rewrite wadd_small by (change two64 with (npos + 1); lia). rewrite wsub_le by lia. lia. }
      rewrite Hpos', first_of_where. cbv zeta.
      transitivity (highest (fun x => (x <=? p0) && ((x <? size h) && mem (nthN h x) s)) (size h)).
      * rewrite (bwd_scan (fun c => mem c s) h p0) by assumption. cbv zeta.
        destruct (first_where_spec (fun c => mem c s) (dropN (size h - 1 - p0) (rev h))) as (Hle & _).
        rewrite size_dropN, size_rev in Hle.
        destruct (N.eqb_spec (size h - 1 - p0 + first_where (fun c => mem c s) (dropN (size h - 1 - p0) (rev h))) (size h));
          [reflexivity|]. unfold reverse_distance. rewrite (wsub_le (size h) 1) by lia. now rewrite wsub_le by lia.
      * apply highest_ext. intros x. unfold one_of. rewrite mem_spec. unfold p0.
        destruct (N.ltb_spec x (size h)); [|now rewrite !andb_false_r]. cbn [andb].
        destruct (N.leb_spec (size h) pos), (N.leb_spec x pos), (N.leb_spec x (size h - 1)); try lia; reflexivity.
Qed.

Theorem sv_eq_std_find_last_not_of h s pos : size h <= npos ->
  SV.find_last_not_of h s pos = StdSV.find_last_not_of h s pos.
Proof.
  intros Hh. unfold SV.find_last_not_of, StdSV.find_last_not_of. cbv zeta.
  destruct (N.eqb_spec (size h) 0) as [Hh0|Hh0].
  - apply size_0_nil in Hh0. subst h. cbn [size rev]. rewrite highest_0.
    destruct (N.leb_spec 0 pos); [|lia]. destruct (size s =? 0); reflexivity.
  - set (p0 := if size h <=? pos then size h - 1 else pos).
    assert (Hp0 : p0 < size h) by (unfold p0; destruct (N.leb_spec (size h) pos); lia).
    assert (Hpos1 : (if size h <=? pos then wsub (size h) 1 else pos) = p0).
    { unfold p0. destruct (N.leb_spec (size h) pos); [now rewrite wsub_le by lia|reflexivity]. }
    rewrite Hpos1.
    assert (Hext : forall x, (x <=? pos) && none_of h s x =
                             (x <=? p0) && ((x <? size h) && negb (mem (nthN h x) s))).
    { intros x. unfold none_of. rewrite mem_spec. unfold p0.
      destruct (N.ltb_spec x (size h)); [|now rewrite !andb_false_r]. cbn [andb].
      destruct (N.leb_spec (size h) pos), (N.leb_spec x pos), (N.leb_spec x (size h - 1)); try lia; reflexivity. }
    destruct (N.eqb_spec (size s) 0) as [Hs0|Hs0].
    + symmetry. apply highest_char_b; [assumption|]. left. split; [assumption|]. split.
      * rewrite Hext, N.leb_refl. destruct (N.ltb_spec p0 (size h)); [|lia]. cbn [andb].
        rewrite mem_spec, Hs0, existsN_0. reflexivity.
      * intros y Hy. rewrite Hext. destruct (N.leb_spec y p0); [lia|reflexivity].
    + rewrite wadd_small by (change two64 with (npos + 1); lia).
      replace (wsub (size h) (p0 + 1)) with (size h - 1 - p0) by (rewrite wsub_le by lia; lia).
      rewrite first_not_of_where.
      transitivity (highest (fun x => (x <=? p0) && ((x <? size h) && negb (mem (nthN h x) s))) (size h)).
      * rewrite (bwd_scan (fun c => negb (mem c s)) h p0) by assumption. cbv zeta.
        destruct (first_where_spec (fun c => negb (mem c s)) (dropN (size h - 1 - p0) (rev h))) as (Hle & _).
        rewrite size_dropN, size_rev in Hle.
        destruct (N.eqb_spec (size h - 1 - p0 + first_where (fun c => negb (mem c s)) (dropN (size h - 1 - p0) (rev h))) (size h));
          [reflexivity|]. unfold reverse_distance. rewrite (wsub_le (size h) 1) by lia. now rewrite wsub_le by lia.
      * apply highest_ext. intros x. now rewrite Hext.
Qed.
