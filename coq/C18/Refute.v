(** C18 — the shipped (704fd0b) behaviour of the five repaired functions contradicts the specification:
    concrete witnesses, closed by computation. Plus examples showing that the hypotheses of the main
    theorems are satisfiable and what the functions compute on views with NUL and high bytes. *)
From Coq Require Import List NArith ZArith Bool Lia.
From TLXV Require Import C18.Defs C18.StdSV C18.Lemmas C18.SV.
Import ListNotations.
Open Scope N_scope.

(** "abcdef".copy(buf, 2, 3) copies "ab"; std::string_view copies "de" *)
Lemma copy_shipped_refuted :
  exists h buf n pos, (pos <= size h -> N.min n (size h - pos) <= size buf) /\
    SV.copy_shipped h buf n pos = Ok (2, [97; 98; 46]) /\ StdSV.copy h buf n pos = Ok (2, [100; 101; 46]).
Proof. exists [97; 98; 99; 100; 101; 102], [46; 46; 46], 2, 3. split; [intros _; vm_compute; discriminate|]. split; vm_compute; reflexivity. Qed.

(** "a\0b".compare("a\0c") is 0 with strncmp; the standard says negative *)
Lemma compare_shipped_refuted :
  exists a b, size a <= npos /\ SV.compare_shipped a b = 0%Z /\ StdSV.compare a b = (-1)%Z.
Proof. exists [97; 0; 98], [97; 0; 99]. split; [vm_compute; discriminate|]. split; vm_compute; reflexivity. Qed.

(** "\0a\0b".rfind("\0a") is 2 with strncmp ("\0b" and "\0a" look equal); the standard says 0 *)
Lemma rfind_shipped_refuted :
  exists h s pos, size h < npos /\ SV.rfind_shipped h s pos = 2 /\ StdSV.rfind h s pos = 0.
Proof. exists [0; 97; 0; 98], [0; 97], npos. split; [vm_compute; reflexivity|]. split; vm_compute; reflexivity. Qed.

(** "\x80" < "a" is true when plain (signed) chars are compared; the standard compares as unsigned char *)
Lemma op_lt_shipped_refuted :
  exists a b, size a <= npos /\
    SV.op_lt_shipped a b = true /\ StdSV.op_lt a b = false /\
    SV.op_ge_shipped a b = false /\ StdSV.op_ge a b = true /\
    SV.op_gt_shipped a b = false /\ StdSV.op_gt a b = true /\
    SV.op_le_shipped a b = true /\ StdSV.op_le a b = false.
Proof. exists [128], [97]. split; [vm_compute; discriminate|]. repeat split; vm_compute; reflexivity. Qed.

(** "abc".compare(4, 1, "a"): the noexcept overload terminates; the standard throws out_of_range *)
Lemma compare3_shipped_refuted :
  exists h pos1 n1 x, size h <= npos /\
    SV.compare3_shipped h pos1 n1 x = Terminate /\ StdSV.compare3 h pos1 n1 x = OutOfRange.
Proof. exists [97; 98; 99], 4, 1, [97]. split; [vm_compute; discriminate|]. split; vm_compute; reflexivity. Qed.

(** the repaired definitions agree with the specification on the same witnesses *)
Example fixed_on_witnesses :
  SV.copy [97; 98; 99; 100; 101; 102] [46; 46; 46] 2 3 = Ok (2, [100; 101; 46]) /\
  SV.compare [97; 0; 98] [97; 0; 99] = (-1)%Z /\
  SV.rfind [0; 97; 0; 98] [0; 97] npos = 0 /\
  SV.op_lt [128] [97] = false /\
  SV.compare3 [97; 98; 99] 4 1 [97] = OutOfRange.
Proof. repeat split; vm_compute; reflexivity. Qed.

(** hypotheses of the main theorems hold for ordinary views; sample values on a view with NUL and high bytes *)
Example hypotheses_satisfiable :
  let h := [0; 97; 128; 255; 97; 0] in
  size h < npos /\ size h <= npos /\
  SV.find h [97; 0] 0 = 4 /\ StdSV.find h [97; 0] 0 = 4 /\
  SV.rfind h [97] npos = 4 /\ SV.find_last_not_of h [0; 97] npos = 3 /\
  SV.find_last_of [] [97] npos = npos /\ SV.find_last_not_of [] [] npos = npos /\
  SV.substr h 2 npos = Ok [128; 255; 97; 0] /\ SV.substr h 7 0 = OutOfRange /\
  (2 <= size h /\ SV.remove_prefix h 2 = [128; 255; 97; 0]) /\
  (forall pos, pos <= size h -> N.min 3 (size h - pos) <= size [46; 46; 46]).
Proof. cbv zeta. repeat split; try (vm_compute; reflexivity); try (vm_compute; discriminate). intros pos _. cbn [size]. lia. Qed.
