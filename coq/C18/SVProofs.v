(** C18 — the theorems: every modelled StringView query equals the [string.view] definition.
    Hypotheses are only the ones the platform guarantees (a view is shorter than 2^64-1 bytes) and the
    preconditions std::string_view itself states (e.g. remove_prefix(n) requires n <= size()). Position and count
    arguments are arbitrary (all of N, hence in particular every size_type value including npos). *)
From Coq Require Import List NArith ZArith Bool Lia.
From TLXV Require Import C18.Defs C18.StdSV C18.Lemmas C18.SV C18.AlgoLemmas.
Import ListNotations.
Open Scope N_scope.

(* ------------------------------------------------------------------ element access, modifiers, conversion *)

Theorem sv_eq_std_at h pos : SV.at_ h pos = StdSV.at_ h pos.
Proof. reflexivity. Qed.

Theorem sv_eq_std_index h pos : pos < size h -> SV.index h pos = StdSV.index h pos.
Proof. reflexivity. Qed.

Theorem sv_eq_std_front h : 0 < size h -> SV.front h = StdSV.front h.
Proof. reflexivity. Qed.

Theorem sv_eq_std_back h : 0 < size h -> SV.back h = StdSV.back h.
Proof. intros Hne. unfold SV.back, StdSV.back. rewrite wsub_le by lia. reflexivity. Qed.

Theorem sv_eq_std_remove_prefix h n : n <= size h -> SV.remove_prefix h n = StdSV.remove_prefix h n.
Proof.
  intros Hn. unfold SV.remove_prefix, StdSV.remove_prefix. cbv zeta.
  destruct (N.ltb_spec (size h) n); [lia|]. rewrite wsub_le by lia. apply tabulate_eq.
  - rewrite size_takeN, size_dropN. lia.
  - intros i Hi. rewrite nthN_takeN by lia. apply nthN_dropN.
Qed.

Theorem sv_eq_std_remove_suffix h n : n <= size h -> SV.remove_suffix h n = StdSV.remove_suffix h n.
Proof.
  intros Hn. unfold SV.remove_suffix, StdSV.remove_suffix. cbv zeta.
  destruct (N.ltb_spec (size h) n); [lia|]. rewrite wsub_le by lia. apply tabulate_eq.
  - rewrite size_takeN. lia.
  - intros i Hi. now rewrite nthN_takeN by lia.
Qed.

Theorem sv_eq_std_to_string h : SV.to_string h = StdSV.to_string h.
Proof.
  unfold SV.to_string, StdSV.to_string. apply tabulate_eq.
  - rewrite size_takeN. lia.
  - intros i Hi. now rewrite nthN_takeN by lia.
Qed.

Theorem sv_eq_std_substr h pos n : SV.substr h pos n = StdSV.substr h pos n.
Proof.
  unfold SV.substr, StdSV.substr. destruct (N.ltb_spec (size h) pos); [reflexivity|].
  rewrite wsub_le by lia. cbv zeta. f_equal. apply tabulate_eq.
  - rewrite size_takeN, size_dropN. lia.
  - intros i Hi. rewrite nthN_takeN by lia. apply nthN_dropN.
Qed.

(** copy: the destination [s, s + rlen) must be a valid range (precondition of std::string_view::copy) *)
Theorem sv_eq_std_copy h buf n pos :
  (pos <= size h -> N.min n (size h - pos) <= size buf) ->
  SV.copy h buf n pos = StdSV.copy h buf n pos.
Proof.
  intros Hbuf. unfold SV.copy, StdSV.copy. destruct (N.ltb_spec (size h) pos); [reflexivity|].
  rewrite wsub_le by lia. cbv zeta. specialize (Hbuf ltac:(lia)).
  set (rlen := N.min n (size h - pos)) in *. f_equal. f_equal. apply tabulate_eq.
  - rewrite size_app, size_takeN, !size_dropN. lia.
  - intros i Hi. rewrite nthN_app, size_takeN, size_dropN.
    replace (N.min rlen (size h - pos)) with rlen by lia.
    destruct (N.ltb_spec i rlen).
    + rewrite nthN_takeN by lia. apply nthN_dropN.
    + rewrite nthN_dropN. f_equal. lia.
Qed.

(* ------------------------------------------------------------------ compare and the operators *)

Theorem sv_eq_std_compare a b : size a <= npos -> SV.compare a b = StdSV.compare a b.
Proof.
  intros Ha. unfold SV.compare, StdSV.compare. cbv zeta. rewrite memcmp_traits by lia.
  destruct (traits_compare a b (N.min (size a) (size b)) =? 0)%Z; cbn [negb]; [|reflexivity].
  unfold size_order.
  destruct (N.eqb_spec (size a) (size b)), (N.ltb_spec (size a) (size b)); try lia; reflexivity.
Qed.

Theorem sv_eq_std_compare3 h pos1 n1 x : size h <= npos ->
  SV.compare3 h pos1 n1 x = StdSV.compare3 h pos1 n1 x.
Proof.
  intros Hh. unfold SV.compare3, StdSV.compare3. rewrite sv_eq_std_substr.
  destruct (StdSV.substr h pos1 n1) as [v| |] eqn:E; try reflexivity.
  f_equal. apply sv_eq_std_compare.
  unfold StdSV.substr in E. destruct (size h <? pos1); [discriminate|]. cbv zeta in E.
  injection E as <-. rewrite size_tabulate. lia.
Qed.

Theorem sv_eq_std_compare5 h pos1 n1 x pos2 n2 : size h <= npos ->
  SV.compare5 h pos1 n1 x pos2 n2 = StdSV.compare5 h pos1 n1 x pos2 n2.
Proof.
  intros Hh. unfold SV.compare5, StdSV.compare5. rewrite !sv_eq_std_substr.
  destruct (StdSV.substr h pos1 n1) as [v| |] eqn:E; try reflexivity.
  destruct (StdSV.substr x pos2 n2) as [w| |]; try reflexivity.
  f_equal. apply sv_eq_std_compare.
  unfold StdSV.substr in E. destruct (size h <? pos1); [discriminate|]. cbv zeta in E.
  injection E as <-. rewrite size_tabulate. lia.
Qed.

Theorem sv_eq_std_op_eq a b : size a <= npos -> SV.op_eq a b = StdSV.op_eq a b.
Proof. intros Ha. unfold StdSV.op_eq. rewrite <- sv_eq_std_compare by assumption. apply op_eq_compare. Qed.

Theorem sv_eq_std_op_ne a b : size a <= npos -> SV.op_ne a b = StdSV.op_ne a b.
Proof. intros Ha. unfold SV.op_ne, StdSV.op_ne. rewrite <- sv_eq_std_compare by assumption. now rewrite op_eq_compare. Qed.

Theorem sv_eq_std_op_lt a b : size a <= npos -> SV.op_lt a b = StdSV.op_lt a b.
Proof. intros Ha. unfold SV.op_lt, StdSV.op_lt. rewrite <- sv_eq_std_compare by assumption. apply lex_lt_compare. Qed.

Theorem sv_eq_std_op_gt a b : size a <= npos -> SV.op_gt a b = StdSV.op_gt a b.
Proof.
  intros Ha. unfold SV.op_gt, SV.op_lt, StdSV.op_gt. rewrite <- sv_eq_std_compare by assumption.
  rewrite lex_lt_compare, compare_antisym.
  destruct (Z.ltb_spec (- SV.compare a b) 0), (Z.ltb_spec 0 (SV.compare a b)); lia || reflexivity.
Qed.

Theorem sv_eq_std_op_le a b : size a <= npos -> SV.op_le a b = StdSV.op_le a b.
Proof.
  intros Ha. unfold SV.op_le, SV.op_lt, StdSV.op_le. rewrite <- sv_eq_std_compare by assumption.
  rewrite lex_lt_compare, compare_antisym.
  destruct (Z.ltb_spec (- SV.compare a b) 0), (Z.leb_spec (SV.compare a b) 0); lia || reflexivity.
Qed.

Theorem sv_eq_std_op_ge a b : size a <= npos -> SV.op_ge a b = StdSV.op_ge a b.
Proof.
  intros Ha. unfold SV.op_ge, SV.op_lt, StdSV.op_ge. rewrite <- sv_eq_std_compare by assumption.
  rewrite lex_lt_compare.
  destruct (Z.ltb_spec (SV.compare a b) 0), (Z.leb_spec 0 (SV.compare a b)); lia || reflexivity.
Qed.

(* ------------------------------------------------------------------ starts_with / ends_with *)

Theorem sv_eq_std_starts_with_char h c : SV.starts_with_char h c = StdSV.starts_with_char h c.
Proof. unfold SV.starts_with_char, StdSV.starts_with_char. now rewrite N.eqb_sym. Qed.

Theorem sv_eq_std_ends_with_char h c : SV.ends_with_char h c = StdSV.ends_with_char h c.
Proof.
  unfold SV.ends_with_char, StdSV.ends_with_char, is_empty.
  destruct (N.eqb_spec (size h) 0); [reflexivity|]. cbn [negb andb].
  rewrite sv_eq_std_back by lia. apply N.eqb_sym.
Qed.

Theorem sv_eq_std_starts_with h x : size h <= npos -> SV.starts_with h x = StdSV.starts_with h x.
Proof.
  intros Hh. unfold SV.starts_with, StdSV.starts_with.
  set (t := tabulate (nthN h) (N.min (size h) (size x))).
  assert (Ht : size t = N.min (size h) (size x)) by apply size_tabulate.
  rewrite <- sv_eq_std_op_eq by lia. unfold SV.op_eq.
  destruct (N.leb_spec (size x) (size h)) as [Hle|Hgt].
  - replace (takeN (size x) h) with t.
    + rewrite Ht. destruct (N.eqb_spec (N.min (size h) (size x)) (size x)); [reflexivity|lia].
    + symmetry. apply tabulate_eq; [rewrite size_takeN; lia|]. intros i Hi. apply nthN_takeN. lia.
  - rewrite Ht. destruct (N.eqb_spec (N.min (size h) (size x)) (size x)); [lia|reflexivity].
Qed.

Theorem sv_eq_std_ends_with h x : size h <= npos -> SV.ends_with h x = StdSV.ends_with h x.
Proof.
  intros Hh. unfold SV.ends_with, StdSV.ends_with.
  destruct (N.leb_spec (size x) (size h)) as [Hle|Hgt]; [|reflexivity]. cbn [andb].
  rewrite wsub_le by lia. unfold StdSV.compare3, StdSV.substr.
  destruct (N.ltb_spec (size h) (size h - size x)); [lia|]. cbv zeta.
  replace (N.min npos (size h - (size h - size x))) with (size x) by lia.
  set (t := tabulate (fun i => nthN h (size h - size x + i)) (size x)).
  assert (Ht : size t = size x) by apply size_tabulate.
  replace (dropN (size h - size x) h) with t.
  - fold (StdSV.op_eq t x). rewrite <- sv_eq_std_op_eq by lia. unfold SV.op_eq.
    rewrite Ht, N.eqb_refl. reflexivity.
  - symmetry. apply tabulate_eq; [rewrite size_dropN; lia|]. intros i Hi. apply nthN_dropN.
Qed.

(* ------------------------------------------------------------------ the overload adaptors *)

Theorem sv_eq_std_of_cstr s : size s < npos -> SV.of_cstr s = StdSV.of_cstr s.
Proof.
  intros Hs. unfold SV.of_cstr, StdSV.of_cstr, traits_length.
  destruct (cstr_spec s) as (Hle & He & Hz).
  rewrite (lowest_char_b _ (size s + 1) (size (cstr s))).
  - apply tabulate_eq; [reflexivity|]. intros i Hi. now apply He.
  - lia.
  - left. split; [lia|]. split.
    + rewrite Hz, N.eqb_refl. destruct (N.leb_spec (size (cstr s)) (size s)); [reflexivity|lia].
    + intros y Hy. destruct (He y Hy) as (_ & Hnz). destruct (N.eqb_spec (nthN s y) 0); [contradiction|].
      now rewrite andb_false_r.
Qed.

Theorem sv_eq_std_of_ptr_n s n : n <= size s -> SV.of_ptr_n s n = tabulate (nthN s) n.
Proof.
  intros Hn. unfold SV.of_ptr_n. apply tabulate_eq; [rewrite size_takeN; lia|].
  intros i Hi. now apply nthN_takeN.
Qed.

(* ------------------------------------------------------------------ bundles quoted by Properties_C18.v *)

Lemma size_type_arithmetic a b : a < two64 -> b < two64 ->
  wsub a b = (a + two64 - b) mod two64 /\ wadd a b = (a + b) mod two64.
Proof. intros Ha Hb. split; [exact (wsub_mod a b Ha Hb)|exact (wadd_mod a b Ha Hb)]. Qed.

Lemma sv_eq_std_index_front_back h :
  (forall pos, pos < size h -> SV.index h pos = StdSV.index h pos) /\
  (0 < size h -> SV.front h = StdSV.front h /\ SV.back h = StdSV.back h).
Proof.
  split; [exact (sv_eq_std_index h)|]. intros H. split; [exact (sv_eq_std_front h H)|exact (sv_eq_std_back h H)].
Qed.

Lemma sv_eq_std_operators a b : size a <= npos ->
  SV.op_eq a b = StdSV.op_eq a b /\ SV.op_ne a b = StdSV.op_ne a b /\
  SV.op_lt a b = StdSV.op_lt a b /\ SV.op_gt a b = StdSV.op_gt a b /\
  SV.op_le a b = StdSV.op_le a b /\ SV.op_ge a b = StdSV.op_ge a b.
Proof.
  intros H. repeat split;
    [exact (sv_eq_std_op_eq a b H)|exact (sv_eq_std_op_ne a b H)|exact (sv_eq_std_op_lt a b H)
    |exact (sv_eq_std_op_gt a b H)|exact (sv_eq_std_op_le a b H)|exact (sv_eq_std_op_ge a b H)].
Qed.

Lemma sv_eq_std_starts_ends_with h x c : size h <= npos ->
  SV.starts_with h x = StdSV.starts_with h x /\ SV.ends_with h x = StdSV.ends_with h x /\
  SV.starts_with_char h c = StdSV.starts_with_char h c /\ SV.ends_with_char h c = StdSV.ends_with_char h c.
Proof.
  intros H. repeat split;
    [exact (sv_eq_std_starts_with h x H)|exact (sv_eq_std_ends_with h x H)
    |exact (sv_eq_std_starts_with_char h c)|exact (sv_eq_std_ends_with_char h c)].
Qed.

Lemma sv_eq_std_overload_adaptors s n : size s < npos ->
  SV.of_cstr s = StdSV.of_cstr s /\ (n <= size s -> SV.of_ptr_n s n = tabulate (nthN s) n).
Proof. intros H. split; [exact (sv_eq_std_of_cstr s H)|exact (sv_eq_std_of_ptr_n s n)]. Qed.

(** beyond std's precondition: remove_prefix / remove_suffix(n) with n > size() behave like n = size() (tlx clamps) *)
Theorem remove_prefix_suffix_clamp h n : size h <= n ->
  SV.remove_prefix h n = SV.remove_prefix h (size h) /\ SV.remove_suffix h n = SV.remove_suffix h (size h).
Proof.
  intros Hn. unfold SV.remove_prefix, SV.remove_suffix. cbv zeta.
  destruct (N.ltb_spec (size h) n) as [Hlt|Hge], (N.ltb_spec (size h) (size h)) as [Habs|_]; try lia.
  - split; reflexivity.
  - assert (E : n = size h) by lia. rewrite E. split; reflexivity.
Qed.
