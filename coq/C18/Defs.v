(** C18 — shared definitions for the StringView model and the [string.view] specification.

    A view is the byte range [ptr_, ptr_+size_) as a [list byte]; bytes are numbers (0..255 in every run,
    but no theorem needs the bound).  Positions, counts and sizes are [N]; [size_type] is the 64-bit
    unsigned type, so the C++ subtractions/additions that can wrap are written [wsub]/[wadd]
    (arithmetic modulo 2^64) and [npos] is 2^64-1.  All list access is by N-indexed structural
    functions (no [N.to_nat] of an unclamped argument anywhere), so the extracted model is total and
    fast even for pos = npos. *)
From Coq Require Import List NArith ZArith Bool.
Import ListNotations.
Open Scope N_scope.

Definition byte := N.
Definition view := list byte.

Definition two64 : N := 18446744073709551616.
Definition npos : N := 18446744073709551615.

(** a - b and a + b on size_type for a, b < 2^64 (one conditional correction instead of [mod], which is
    the same function on that domain -- see Lemmas.wsub_mod / wadd_mod -- and extracts to fast code) *)
Definition wsub (a b : N) : N := if b <=? a then a - b else a + two64 - b.
Definition wadd (a b : N) : N := let s := a + b in if s <? two64 then s else s - two64.

Fixpoint size (l : view) : N :=
  match l with [] => 0 | _ :: t => N.succ (size t) end.

Definition is_empty (l : view) : bool := size l =? 0.

(** ptr_[n]; reads 0 outside the range (every use is guarded by an explicit bound) *)
Fixpoint nthN (l : view) (n : N) : byte :=
  match l with
  | [] => 0
  | x :: t => if n =? 0 then x else nthN t (N.pred n)
  end.

(** the range [ptr_+n, ptr_+size_) *)
Fixpoint dropN (n : N) (l : view) : view :=
  match l with
  | [] => []
  | _ :: t => if n =? 0 then l else dropN (N.pred n) t
  end.

(** the range [ptr_, ptr_+n) *)
Fixpoint takeN (n : N) (l : view) : view :=
  match l with
  | [] => []
  | x :: t => if n =? 0 then [] else x :: takeN (N.pred n) t
  end.

(** results of calls that may throw *)
Inductive res (A : Type) : Type :=
| Ok (a : A)
| OutOfRange            (* std::out_of_range thrown *)
| Terminate.            (* exception escaped a noexcept function: std::terminate (shipped code only) *)
Arguments Ok {A} a.
Arguments OutOfRange {A}.
Arguments Terminate {A}.
