(** C01 — B+ tree containers are observationally equal to the std ordered containers.
    Statements only; proofs live in C01/*.v.  Everything is stated for an arbitrary key type K and value type V,
    any strict weak order [ltb] (std::less and std::greater are instances: C01.Examples.SWO_less/SWO_greater),
    any key projection (set/multiset: identity, map/multimap: first), every leaf and inner capacity >= 4
    (chosen independently), both [dup] (unique / multi containers) and both in-node search strategies
    ([binsearch]).  The specification is the same operation on the key-sorted list [t_elems t]
    (C01/Defs.v, C01/Spec.v) — the contract of std::set/multiset/map/multimap with a new equal key placed in
    front of its run, the one choice the property leaves open. *)
From Coq Require Import List Bool Arith.
From TLXV Require Import Common.Order C01.Model C01.Defs C01.Spec C01.SearchProofs C01.LookupProofs
     C01.BulkProofs C01.BulkDedup C01.InsertProofs C01.EraseElems C01.EraseInv C01.History.
Import ListNotations.

(** Both in-node search strategies return the same slot on every sorted node, of every size. *)
Theorem C01_find_lower_bin_eq_lin : forall (K : Type) (ltb : K -> K -> bool) (dk : K), SWO ltb ->
  forall ks k, sortedk ltb ks = true -> find_lower_bin ltb dk ks k = find_lower_lin ltb ks k.
Proof. exact (@find_lower_bin_eq_lin). Qed.
Print Assumptions C01_find_lower_bin_eq_lin.

Theorem C01_find_upper_bin_eq_lin : forall (K : Type) (ltb : K -> K -> bool) (dk : K), SWO ltb ->
  forall ks k, sortedk ltb ks = true -> find_upper_bin ltb dk ks k = find_upper_lin ltb ks k.
Proof. exact (@find_upper_bin_eq_lin). Qed.
Print Assumptions C01_find_upper_bin_eq_lin.

(** Lookups by descent = counting on the sorted contents; the iterator returned is the canonical one
    ([Some rank]: a real slot or end(), never a dangling (leaf, slotuse) position). *)
Theorem C01_lookups : forall (K V : Type) (ltb : K -> K -> bool) (key : V -> K) (dk : K)
    (leafmax innermax : nat) (dup binsearch : bool), SWO ltb ->
  forall (t : @tree K V) k, Inv ltb key dk leafmax innermax dup t ->
    t_lower_bound ltb key dk binsearch t k = Some (spec_lower ltb key (t_elems t) k)
 /\ t_upper_bound ltb key dk binsearch t k = Some (spec_upper ltb key (t_elems t) k)
 /\ t_exists ltb key dk binsearch t k = spec_has ltb key dk (t_elems t) k
 /\ t_find ltb key dk binsearch t k = spec_find ltb key dk (t_elems t) k
 /\ t_count ltb key dk binsearch t k = spec_count ltb key (t_elems t) k.
Proof.
  intros K V ltb key dk leafmax innermax dup binsearch Hswo t k HI.
  exact (conj (t_lower_bound_spec ltb key dk leafmax innermax dup binsearch Hswo t k HI)
        (conj (t_upper_bound_spec ltb key dk leafmax innermax dup binsearch Hswo t k HI)
        (conj (t_exists_spec ltb key dk leafmax innermax dup binsearch Hswo t k HI)
        (conj (t_find_spec ltb key dk leafmax innermax dup binsearch Hswo t k HI)
              (t_count_spec ltb key dk leafmax innermax dup binsearch Hswo t k HI))))).
Qed.
Print Assumptions C01_lookups.

(** insert (with leaf/inner splits and root growth) = sorted-list insertion: contents, returned rank,
    inserted flag; the invariant is kept; exactly [al] nodes are allocated. *)
Theorem C01_insert_refines : forall (K V : Type) (ltb : K -> K -> bool) (key : V -> K) (dk : K)
    (leafmax innermax : nat) (dup binsearch : bool), SWO ltb -> 4 <= leafmax -> 4 <= innermax ->
  forall (t : @tree K V) v, Inv ltb key dk leafmax innermax dup t ->
    let '(t', rank, ok, al) := insert ltb key dk leafmax innermax dup binsearch t v in
    (t_elems t', rank, ok) = spec_insert ltb key dk dup (t_elems t) v
    /\ Inv ltb key dk leafmax innermax dup t' /\ t_nodes t' = t_nodes t + al.
Proof. exact (@insert_refines). Qed.
Print Assumptions C01_insert_refines.

(** erase_one(key) removes exactly the first entry with an equivalent key (all six underflow cases,
    merges, shifts, root collapse included). *)
Theorem C01_erase_one_refines : forall (K V : Type) (ltb : K -> K -> bool) (key : V -> K) (dk : K)
    (leafmax innermax : nat) (dup binsearch : bool), SWO ltb -> 4 <= leafmax -> 4 <= innermax ->
  forall (t : @tree K V) k, Inv ltb key dk leafmax innermax dup t ->
    let '(t', found, fr, bad) := erase_one ltb key dk leafmax innermax binsearch t k in
    (t_elems t', found) = spec_erase_one ltb key dk (t_elems t) k.
Proof. exact (@erase_one_elems). Qed.
Print Assumptions C01_erase_one_refines.

(** erase(iterator) removes exactly the entry at the iterator's rank. *)
Theorem C01_erase_iter_refines : forall (K V : Type) (ltb : K -> K -> bool) (key : V -> K) (dk : K)
    (leafmax innermax : nat) (dup binsearch : bool), SWO ltb -> 4 <= leafmax -> 4 <= innermax ->
  forall (t : @tree K V) r, Inv ltb key dk leafmax innermax dup t -> r < t_size t ->
    let '(t', found, fr, bad) := erase_iter ltb key dk leafmax innermax binsearch t r in
    found = true /\ t_elems t' = remove_at r (t_elems t).
Proof. exact (@erase_iter_elems). Qed.
Print Assumptions C01_erase_iter_refines.

(** bulk_load of any range yields exactly that range as contents — in containers without duplicates: the first
    entry of every run of equal keys ([bulk_items] = [dedup]), which is what std::set / std::map built from the
    range hold — for every length (incl. capacity multiples); for EVERY sorted range (equal keys allowed, in all
    four containers, runs crossing leaf boundaries or ending the range) the result satisfies the invariant
    (minimum fill of every node for every n). *)
Theorem C01_bulk_load_refines : forall (K V : Type) (ltb : K -> K -> bool) (key : V -> K) (dk : K)
    (leafmax innermax : nat) (dup : bool), SWO ltb -> 4 <= leafmax -> 4 <= innermax ->
  forall l : list V,
    t_elems (bulk_load ltb key dk leafmax innermax dup l) = (if dup then l else dedup ltb key l)
    /\ (sortedk ltb (map key l) = true ->
        Inv ltb key dk leafmax innermax dup (bulk_load ltb key dk leafmax innermax dup l)).
Proof.
  intros K V ltb key dk leafmax innermax dup Hswo Hl Hi l.
  exact (conj (bulk_load_elems ltb key dk leafmax innermax dup Hl Hi l)
              (bulk_load_inv ltb key dk leafmax innermax dup Hswo Hl Hi l)).
Qed.
Print Assumptions C01_bulk_load_refines.

(** The bulk_load shipped before b2f41a5 stored every item also in set / map: witness 1 1 2 3 3 3 4. *)
Theorem C01_bulk_load_shipped_refuted :
  exists l : list nat,
    sortedk Nat.ltb (map (fun x => x) l) = true
    /\ inv_b Nat.ltb (fun x => x) 0 4 4 false (bulk_load_shipped (fun x => x) 0 4 4 l) = false
    /\ length (t_elems (bulk_load_shipped (fun x : nat => x) 0 4 4 l)) = 7
    /\ t_elems (bulk_load Nat.ltb (fun x => x) 0 4 4 false l) = [1; 2; 3; 4]
    /\ inv_b Nat.ltb (fun x => x) 0 4 4 false (bulk_load Nat.ltb (fun x => x) 0 4 4 false l) = true.
Proof. exact bulk_load_shipped_refuted. Qed.
Print Assumptions C01_bulk_load_shipped_refuted.

(** Histories: for every finite operation history over any number of container variables (insert, erase by
    key / one occurrence / iterator, find, exists, count, lower/upper bound, equal_range, full iteration,
    clear, assignment, copy construction, swap, the six comparisons, bulk load of a sorted range — equal keys
    allowed — into an empty container), started in any invariant-satisfying state: every output and the final contents equal
    those of the sorted-list specification machine, the invariant holds after every step, the model never
    reaches a state it declares impossible, and allocations minus frees equal the change in node count. *)
Theorem C01_history_refines : forall (K V : Type) (ltb : K -> K -> bool) (key : V -> K) (dk : K)
    (leafmax innermax : nat) (dup binsearch : bool) (veqb vltb : V -> V -> bool),
  SWO ltb -> 4 <= leafmax -> 4 <= innermax ->
  forall (ops : list (@op K V)) (st : list (@tree K V)),
    Forall (Inv ltb key dk leafmax innermax dup) st -> hist_wf ltb key (length st) ops ->
    let '(st', rs) := run ltb key dk leafmax innermax dup binsearch veqb vltb st ops in
    Forall (Inv ltb key dk leafmax innermax dup) st'
    /\ abs st' = fst (spec_run ltb key dk dup veqb vltb (abs st) ops)
    /\ map s_out rs = snd (spec_run ltb key dk dup veqb vltb (abs st) ops)
    /\ Forall (fun s => s_bad s = false /\ Forall (Inv ltb key dk leafmax innermax dup) (s_state s)) rs
    /\ total_nodes st + sum_allocs rs = total_nodes st' + sum_frees rs.
Proof. exact (@run_refines). Qed.
Print Assumptions C01_history_refines.
