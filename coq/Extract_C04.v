From TLXV Require Import C04.Jobs.
Require Extraction. Require ExtrOcamlBasic.
Extraction Language OCaml.
Extraction "../ocaml/gen/C04_model.ml" Jobs.run Jobs.lstep Jobs.all_dead.
