From TLXV Require Import C09.LoserTree C09.Spec.
Require Extraction. Require ExtrOcamlBasic.
Extraction Language OCaml.
Extraction "../ocaml/gen/C09_model.ml" Spec.run_N Spec.check_N Spec.run_gN Spec.check_gN LoserTree.invalid_.
