From TLXV Require Import C09.LoserTree C09.Spec C09.Instances C09.BuildOrder.
Require Extraction. Require ExtrOcamlBasic.
Extraction Language OCaml.
Extraction "../ocaml/gen/C09_model.ml" Spec.run_N Spec.check_N Spec.run_gN Spec.check_gN
  Instances.run_Ngt Instances.check_Ngt Instances.run_gNgt Instances.check_gNgt
  BuildOrder.run_oN BuildOrder.run_goN LoserTree.invalid_.
