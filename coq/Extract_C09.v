From TLXV Require Import C09.LoserTree C09.Spec C09.Instances.
Require Extraction. Require ExtrOcamlBasic.
Extraction Language OCaml.
Extraction "../ocaml/gen/C09_model.ml" Spec.run_N Spec.check_N Spec.run_gN Spec.check_gN
  Instances.run_Ngt Instances.check_Ngt Instances.run_gNgt Instances.check_gNgt LoserTree.invalid_.
