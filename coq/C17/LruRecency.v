(** C17 — "pop removes the key least recently put or touched" as a theorem about the reference LRU list:
    run the reference with every entry stamped by the index of the operation that last put or touched it;
    forgetting the stamps gives back the reference; the stamps strictly decrease along the list, so the last
    element (the one pop returns) carries the smallest stamp of all cached keys. *)
From Coq Require Import List Arith Bool Lia Sorting.Sorted.
From TLXV Require Import C17.Lru C17.LruProofs.
Import ListNotations.

Definition stamped := (entry * nat)%type.
Definition strip (l : list stamped) : list entry := map fst l.
Definition skey (e : stamped) : nat := fst (fst e).

Definition tothers (k : nat) (l : list stamped) := filter (fun e => negb (k =? skey e)) l.
Definition tlookup (k : nat) (l : list stamped) := find (fun e => k =? skey e) l.
Definition ttouch (c k : nat) (l : list stamped) : list stamped :=
  match tlookup k l with Some e => (fst e, c) :: tothers k l | None => l end.

(** the reference step at time c (= index of the operation in the history) *)
Definition tstep (c : nat) (l : list stamped) (o : lop) : list stamped :=
  match o with
  | LPut k v => ((k, v), c) :: tothers k l
  | LTouch k | LTouchIf k | LGetTouch k => ttouch c k l
  | LErase k | LEraseIf k => tothers k l
  | LPop => removelast l
  | LClear => []
  | LGet _ | LExists _ | LSize => l
  end.

Fixpoint trun (c : nat) (l : list stamped) (ops : list lop) : list stamped :=
  match ops with [] => l | o :: t => trun (S c) (tstep c l o) t end.

Lemma strip_tothers k l : strip (tothers k l) = others k (strip l).
Proof.
  unfold strip, tothers, others, skey. induction l as [|e t IH]; simpl; [reflexivity|].
  destruct (negb (k =? fst (fst e))); simpl; now rewrite IH.
Qed.

Lemma strip_tlookup k l : option_map fst (tlookup k l) = lookup k (strip l).
Proof.
  unfold strip, tlookup, lookup, skey. induction l as [|e t IH]; simpl; [reflexivity|].
  destruct (k =? fst (fst e)); simpl; [reflexivity|assumption].
Qed.

Lemma strip_removelast l : strip (removelast l) = removelast (strip l).
Proof.
  unfold strip. induction l as [|e t IH]; [reflexivity|]. destruct t as [|e' t']; [reflexivity|].
  change (map fst (e :: removelast (e' :: t')) = fst e :: removelast (map fst (e' :: t'))). now rewrite <- IH.
Qed.

(** forgetting the stamps gives the reference LRU list *)
Lemma tstep_strip c l o : strip (tstep c l o) = fst (lref_step (strip l) o).
Proof.
  assert (Htouch : forall k, strip (ttouch c k l) =
            match lookup k (strip l) with Some e => e :: others k (strip l) | None => strip l end).
  { intros k. unfold ttouch. pose proof (strip_tlookup k l) as Hl. destruct (tlookup k l) as [e|]; simpl in Hl; rewrite <- Hl.
    - unfold strip at 1. simpl. f_equal. apply strip_tothers.
    - reflexivity. }
  assert (Herase : forall k, strip (tothers k l) =
            match lookup k (strip l) with Some _ => others k (strip l) | None => strip l end).
  { intros k. rewrite strip_tothers. destruct (lookup k (strip l)) eqn:E; [reflexivity|].
    apply others_notin. now apply lookup_none. }
  destruct o as [k v|k|k|k|k|k|k|k| | |]; cbn [tstep lref_step].
  - unfold strip at 1. simpl. f_equal. apply strip_tothers.
  - rewrite Htouch. destruct (lookup k (strip l)); reflexivity.
  - rewrite Htouch. destruct (lookup k (strip l)); reflexivity.
  - destruct (lookup k (strip l)); reflexivity.
  - rewrite Htouch. destruct (lookup k (strip l)); reflexivity.
  - rewrite Herase. destruct (lookup k (strip l)); reflexivity.
  - rewrite Herase. destruct (lookup k (strip l)); reflexivity.
  - reflexivity.
  - reflexivity.
  - rewrite strip_removelast. destruct (rev (strip l)) eqn:E; [|reflexivity]. simpl.
    apply (f_equal (@rev _)) in E. rewrite rev_involutive in E. now rewrite E.
  - reflexivity.
Qed.

Lemma trun_strip : forall ops c l, strip (trun c l ops) = fst (lref_run (strip l) ops).
Proof.
  induction ops as [|o t IH]; intros c l; simpl; [reflexivity|].
  pose proof (tstep_strip c l o) as Hs. destruct (lref_step (strip l) o) as [l1 r]. simpl in Hs.
  rewrite IH, Hs. destruct (lref_run l1 t). reflexivity.
Qed.

(** stamps strictly decrease from the front, and all lie below the clock *)
Definition desc (c : nat) (l : list stamped) : Prop :=
  StronglySorted (fun a b => snd b < snd a) l /\ Forall (fun e => snd e < c) l.

Lemma desc_filter c p l : desc c l -> desc c (filter p l).
Proof.
  intros [S F]. split.
  - induction S as [|a t S IH Fa]; simpl; [constructor|]. inversion F; subst.
    destruct (p a); [|auto]. constructor; [auto|]. apply Forall_forall. intros x Hx. apply filter_In in Hx.
    rewrite Forall_forall in Fa. apply Fa. tauto.
  - apply Forall_forall. intros x Hx. apply filter_In in Hx. rewrite Forall_forall in F. apply F. tauto.
Qed.

Lemma desc_push c e l : desc c l -> desc (S c) ((e, c) :: l).
Proof.
  intros [S F]. split.
  - constructor; [assumption|]. eapply Forall_impl; [|exact F]. simpl. auto.
  - constructor; [simpl; lia|]. eapply Forall_impl; [|exact F]. simpl. intros; lia.
Qed.

Lemma desc_mono c l : desc c l -> desc (S c) l.
Proof. intros [S F]. split; [assumption|]. eapply Forall_impl; [|exact F]. simpl. intros; lia. Qed.

Lemma desc_removelast c l : desc c l -> desc c (removelast l).
Proof.
  intros [S F]. destruct (rev l) as [|e r] eqn:E.
  - apply (f_equal (@rev _)) in E. rewrite rev_involutive in E. subst. split; constructor.
  - destruct (rev_cons_split _ _ _ E) as [Hl Hr]. rewrite Hr. rewrite Hl in S, F.
    apply Forall_app in F. split; [|tauto].
    clear -S. induction (rev r) as [|a t IH]; simpl in *; [constructor|].
    inversion S as [|? ? S' Fa]; subst. constructor; [auto|]. apply Forall_app in Fa. tauto.
Qed.

Lemma tstep_desc c l o : desc c l -> desc (S c) (tstep c l o).
Proof.
  intros H. destruct o; cbn [tstep]; unfold ttouch, tothers; try (apply desc_mono; assumption).
  - apply desc_push, desc_filter, H.
  - destruct (tlookup k l); [apply desc_push, desc_filter, H|now apply desc_mono].
  - destruct (tlookup k l); [apply desc_push, desc_filter, H|now apply desc_mono].
  - destruct (tlookup k l); [apply desc_push, desc_filter, H|now apply desc_mono].
  - apply desc_mono, desc_filter, H.
  - apply desc_mono, desc_filter, H.
  - apply desc_mono, desc_removelast, H.
  - split; constructor.
Qed.

Lemma trun_desc : forall ops c l, desc c l -> desc (c + length ops) (trun c l ops).
Proof.
  induction ops as [|o t IH]; intros c l H; simpl; [now rewrite Nat.add_0_r|].
  rewrite <- Nat.add_succ_comm. apply IH, tstep_desc, H.
Qed.

(** Theorem: after any history the reference list is ordered by strictly decreasing time of last put/touch,
    so its last element -- the one pop() returns (ref_pop_last) -- is the least recently put or touched key:
    every other cached entry has a strictly larger stamp. *)
Theorem lru_pop_least_recent : forall ops l e r,
  l = trun 0 [] ops -> rev l = e :: r ->
  strip l = fst (lref_run [] ops) /\
  Forall (fun x => snd e < snd x) (rev r).
Proof.
  intros ops l e r -> Hr. split; [apply (trun_strip ops 0 [])|].
  destruct (trun_desc ops 0 []) as [S _]; [split; constructor|].
  destruct (rev_cons_split _ _ _ Hr) as [Hl _]. rewrite Hl in S. clear -S.
  induction (rev r) as [|a t IH]; simpl in *; [constructor|].
  inversion S as [|? ? S' Fa]; subst. constructor; [|auto].
  apply Forall_app in Fa. destruct Fa as [_ Fa]. now inversion Fa.
Qed.

Example recency_example :
  trun 0 [] [LPut 1 5; LPut 2 6; LPut 3 7; LTouch 1; LGetTouch 2; LGet 3] = [((2, 6), 4); ((1, 5), 3); ((3, 7), 2)].
Proof. vm_compute. reflexivity. Qed.
