(** C17 — SplayTree (set and multiset) refines the sorted-list reference for every history; size_ is exact;
    the search-tree invariant is kept; every allocated node is freed exactly once. *)
From Coq Require Import List Arith Bool Lia Sorting.Sorted Sorting.Permutation.
From TLXV Require Import C17.Splay C17.SplayProofs.
Import ListNotations.

Definition ids (t : tree) : list nat := map nid (inorder t).

(** class invariant *)
Record Good (dup : bool) (s : st) : Prop := {
  g_sorted : srt (keys (root s));                                  (* valid search tree, see bst_sorted *)
  g_nodup : dup = false -> NoDup (keys (root s));                  (* a set stores a key at most once *)
  g_size : sz s = length (inorder (root s));                       (* size_ is the node count *)
  g_ledger : Permutation (ids (root s) ++ freed s) (seq 0 (next s))  (* live + freed = allocated, each once *)
}.

Lemma good_init dup : Good dup st_init.
Proof. constructor; simpl; auto; constructor. Qed.

Lemma perm_insert_mid {A} (l1 l2 l' : list A) a :
  Permutation (l1 ++ l2) l' -> Permutation (l1 ++ a :: l2) (l' ++ [a]).
Proof.
  intros P. eapply perm_trans; [apply Permutation_sym, Permutation_middle|].
  eapply perm_trans; [apply perm_skip; exact P|]. apply Permutation_cons_append.
Qed.

Lemma keys_inorder t : keys t = map key (inorder t).
Proof. reflexivity. Qed.

(** ---------------------------------------------------------------------------------- insert *)
Lemma insert_refines dup s k :
  Good dup s ->
  let '(s1, b) := insert dup s k in
  Good dup s1 /\ rstep dup (keys (root s)) (SInsert k) = (keys (root s1), SBool b).
Proof.
  intros [Hs Hn Hz Hl]. unfold insert. cbn [rstep].
  assert (Hb : bst (root s)) by now apply bst_sorted.
  destruct (root s) as [|t1 n t2] eqn:Hr.
  - (* empty tree *)
    cbn [negb andb mem existsb keys inorder map]. rewrite andb_false_r. cbn [splay_insert].
    split; [|reflexivity]. constructor; cbn [root sz next freed keys inorder map app ids].
    + constructor; constructor.
    + intros _. constructor; [simpl; tauto|constructor].
    + simpl in Hz. now rewrite Hz.
    + rewrite seq_S. simpl. simpl in Hl. apply (perm_insert_mid [] (freed s) _ (next s)). exact Hl.
  - set (t := N t1 n t2) in *.
    pose proof (splay_inorder k t) as Hin. pose proof (splay_bst k t Hb) as Hb'.
    destruct (splay k t) as [|l x r] eqn:Hsp; [exfalso; eapply splay_nonempty; [|exact Hsp]; discriminate|].
    pose proof (splay_finds k t l x r Hb Hsp) as Hf. destruct (splay_root k t l x r Hb Hsp) as [Hlo Hhi].
    assert (Hk : keys (N l x r) = keys t) by (unfold keys; now rewrite Hin).
    destruct (negb dup && is_eq k x) eqn:Hp.
    + (* already there (set) *)
      apply andb_true_iff in Hp. destruct Hp as [Hd He]. apply is_eq_iff in He.
      assert (Hm : mem k (keys t) = true) by (apply mem_In, Hf, He).
      rewrite Hd, Hm. cbn [andb]. split; [|cbn [root]; now rewrite Hk].
      constructor; cbn [root sz next freed]; try rewrite Hk; auto.
      * now rewrite Hin.
      * unfold ids. now rewrite Hin.
    + (* new node *)
      assert (Hm : negb dup && mem k (keys t) = false).
      { destruct dup; [reflexivity|]. cbn [negb andb] in *. destruct (mem k (keys t)) eqn:Hm; [|reflexivity].
        apply mem_In, Hf, is_eq_iff in Hm. congruence. }
      rewrite Hm.
      destruct (splay_insert_spec (k, next s) l x r Hb' Hlo Hhi) as (l1 & l2 & H12 & Hnew & Hbn).
      rewrite Hin in H12.
      assert (Hkn : keys (splay_insert (k, next s) (N l x r)) = sorted_insert k (keys t)).
      { apply srt_unique.
        - now apply bst_sorted.
        - now apply sorted_insert_srt.
        - eapply perm_trans; [|apply sorted_insert_perm]. unfold keys. rewrite Hnew, H12, !map_app. cbn [map key fst].
          apply Permutation_sym, Permutation_middle. }
      split; [|cbn [root]; now rewrite Hkn].
      constructor; cbn [root sz next freed].
      * now apply bst_sorted.
      * intros Hd. subst dup. rewrite Hkn. eapply Permutation_NoDup; [apply sorted_insert_perm|].
        constructor; [|auto]. intros Hc. apply mem_In in Hc. cbn [negb andb] in Hm. congruence.
      * rewrite Hnew, Hz, H12, !app_length. simpl. lia.
      * unfold ids in *. rewrite Hnew, map_app. cbn [map nid snd]. rewrite seq_S. cbn [plus].
        rewrite <- app_assoc. cbn [app]. apply perm_insert_mid. rewrite H12, map_app, <- app_assoc in Hl. exact Hl.
Qed.

(** ---------------------------------------------------------------------------------- erase *)
Lemma erase_refines dup s k :
  Good dup s ->
  let '(s1, b) := erase s k in
  Good dup s1 /\ rstep dup (keys (root s)) (SErase k) = (keys (root s1), SBool b).
Proof.
  intros [Hs Hn Hz Hl]. unfold erase. cbn [rstep].
  assert (Hb : bst (root s)) by now apply bst_sorted.
  pose proof (splay_erase_spec k (root s) Hb) as He.
  destruct (splay_erase k (root s)) as [[x|] t'].
  - destruct He as (Hkx & l1 & l2 & H1 & H2).
    assert (Hk : keys (root s) = map key l1 ++ k :: map key l2) by (unfold keys; rewrite H1, map_app; simpl; now rewrite Hkx).
    assert (Hk' : keys t' = map key l1 ++ map key l2) by (unfold keys; now rewrite H2, map_app).
    assert (Hm : mem k (keys (root s)) = true) by (apply mem_In; rewrite Hk, in_app_iff; simpl; auto).
    rewrite Hm.
    assert (Hrm : keys t' = remove_one k (keys (root s))).
    { apply srt_unique.
      - rewrite Hk'. rewrite Hk in Hs. eapply srt_app_drop; exact Hs.
      - now apply remove_one_srt.
      - eapply Permutation_cons_inv with (a := k). eapply perm_trans; [|apply Permutation_sym, remove_one_perm; now apply mem_In].
        rewrite Hk, Hk'. apply Permutation_middle. }
    split; [|cbn [root]; now rewrite Hrm].
    constructor; cbn [root sz next freed].
    + rewrite Hk'. rewrite Hk in Hs. eapply srt_app_drop; exact Hs.
    + intros Hd. specialize (Hn Hd). rewrite Hk in Hn. rewrite Hk'. eapply NoDup_remove_1; exact Hn.
    + rewrite Hz, H1, H2, !app_length. simpl. lia.
    + unfold ids in *. rewrite H1, map_app in Hl. cbn [map] in Hl. rewrite H2, map_app, <- app_assoc.
      eapply perm_trans; [|exact Hl]. rewrite <- app_assoc. cbn [app].
      apply Permutation_app_head. apply Permutation_sym, Permutation_middle.
  - destruct He as [Hni Hin].
    assert (Hk : keys t' = keys (root s)) by (unfold keys; now rewrite Hin).
    assert (Hm : mem k (keys (root s)) = false).
    { destruct (mem k (keys (root s))) eqn:Hm; [|reflexivity]. apply mem_In in Hm. contradiction. }
    rewrite Hm. split; [|cbn [root]; now rewrite Hk].
    constructor; cbn [root sz next freed]; try rewrite Hk; auto.
    + now rewrite Hin.
    + unfold ids. now rewrite Hin.
Qed.

(** ---------------------------------------------------------------------------------- exists / find *)
Lemma good_splayed dup s k :
  Good dup s -> Good dup {| root := splay k (root s); sz := sz s; next := next s; freed := freed s |}.
Proof.
  intros [Hs Hn Hz Hl]. constructor; cbn [root sz next freed]; unfold keys, ids in *; rewrite splay_inorder; auto.
Qed.

Lemma keys_splay k t : keys (splay k t) = keys t.
Proof. unfold keys. now rewrite splay_inorder. Qed.

Lemma exists_refines dup s k :
  Good dup s ->
  let '(s1, b) := exists_ s k in
  Good dup s1 /\ rstep dup (keys (root s)) (SExists k) = (keys (root s1), SBool b).
Proof.
  intros HG. unfold exists_. cbn [rstep].
  assert (Hb : bst (root s)) by (apply bst_sorted, (g_sorted dup s HG)).
  destruct (root s) as [|t1 n t2] eqn:Hr.
  - split; [assumption|]. rewrite Hr. reflexivity.
  - pose proof (good_splayed dup s k HG) as HGs. rewrite Hr in HGs. set (t := N t1 n t2) in *.
    split; [exact HGs|]. cbn [root]. rewrite keys_splay.
    destruct (splay k t) as [|l x r] eqn:Hsp; [exfalso; eapply splay_nonempty; [|exact Hsp]; discriminate|].
    pose proof (splay_finds k t l x r Hb Hsp) as Hf. do 2 f_equal.
    destruct (is_eq k x) eqn:He.
    + apply mem_In, Hf, is_eq_iff, He.
    + destruct (mem k (keys t)) eqn:Hm; [|reflexivity]. apply mem_In, Hf, is_eq_iff in Hm. congruence.
Qed.

Lemma find_refines dup s k :
  Good dup s ->
  let '(s1, r) := find s k in
  Good dup s1 /\ rstep dup (keys (root s)) (SFind k) = (keys (root s1), abs_res (SFind k) (SFound r)).
Proof.
  intros HG. unfold find. cbn [rstep abs_res].
  assert (Hb : bst (root s)) by (apply bst_sorted, (g_sorted dup s HG)).
  split; [now apply good_splayed|]. cbn [root]. rewrite keys_splay. f_equal.
  destruct (splay k (root s)) as [|l x r] eqn:Hsp.
  - f_equal. pose proof (keys_splay k (root s)) as Hin. rewrite Hsp in Hin. rewrite <- Hin. reflexivity.
  - pose proof (splay_finds k (root s) l x r Hb Hsp) as Hf. f_equal.
    destruct (key x =? k) eqn:He.
    + apply Nat.eqb_eq in He. apply mem_In, Hf, He.
    + apply Nat.eqb_neq in He. destruct (mem k (keys (root s))) eqn:Hm; [|reflexivity]. apply mem_In, Hf in Hm. congruence.
Qed.

(** ---------------------------------------------------------------------------------- clear *)
Lemma postorder_perm t : Permutation (postorder t) (inorder t).
Proof.
  induction t as [|l IHl x r IHr]; simpl; [constructor|].
  apply Permutation_app; [assumption|]. eapply perm_trans; [apply Permutation_sym, Permutation_cons_append|].
  now apply perm_skip.
Qed.

Lemma delete_all_spec t z f : delete_all t z f = (z - length (postorder t), rev (map nid (postorder t)) ++ f).
Proof.
  unfold delete_all. revert z f. induction (postorder t) as [|n l IH]; intros z f; simpl.
  - now rewrite Nat.sub_0_r.
  - rewrite IH. simpl. f_equal; [lia|]. now rewrite <- app_assoc.
Qed.

Lemma clear_good dup s : Good dup s -> Good dup (clear s) /\ root (clear s) = E.
Proof.
  intros [Hs Hn Hz Hl]. unfold clear. rewrite delete_all_spec. split; [|reflexivity].
  constructor; cbn [root sz next freed keys inorder map ids app].
  - constructor.
  - intros _. constructor.
  - rewrite Hz. rewrite (Permutation_length (postorder_perm (root s))). simpl. lia.
  - eapply perm_trans; [|exact Hl]. apply Permutation_app_tail. unfold ids.
    eapply perm_trans; [apply Permutation_sym, Permutation_rev|]. apply Permutation_map, postorder_perm.
Qed.

(** ---------------------------------------------------------------------------------- histories *)
Lemma sstep_refines dup s o :
  Good dup s ->
  let '(s1, r) := sstep dup s o in
  Good dup s1 /\ rstep dup (keys (root s)) o = (keys (root s1), abs_res o r).
Proof.
  intros HG. destruct o as [k|k|k|k| |]; cbn [sstep].
  - pose proof (insert_refines dup s k HG) as H. destruct (insert dup s k). exact H.
  - pose proof (erase_refines dup s k HG) as H. destruct (erase s k). exact H.
  - pose proof (exists_refines dup s k HG) as H. destruct (exists_ s k). exact H.
  - pose proof (find_refines dup s k HG) as H. destruct (find s k). exact H.
  - destruct (clear_good dup s HG) as [H1 H2]. split; [assumption|]. rewrite H2. reflexivity.
  - split; [assumption|reflexivity].
Qed.

Lemma srun_refines dup : forall ops s,
  Good dup s ->
  let '(s1, outs) := srun dup s ops in
  Good dup s1 /\ rrun dup (keys (root s)) ops = (keys (root s1), abs_out ops outs).
Proof.
  induction ops as [|o t IH]; intros s HG; cbn [srun rrun abs_out]; [auto|].
  pose proof (sstep_refines dup s o HG) as Hst. destruct (sstep dup s o) as [s1 r]. destruct Hst as [HG1 Hst].
  rewrite Hst. specialize (IH s1 HG1). destruct (srun dup s1 t) as [s2 rs]. destruct IH as [HG2 IH].
  rewrite IH. cbn [abs_out]. split; [assumption|].
  rewrite (g_size dup s1 HG1). unfold keys. now rewrite map_length.
Qed.

(** count-based ledger verdict used by the driver follows from the permutation statement *)
Lemma count_perm x l1 l2 : Permutation l1 l2 -> count x l1 = count x l2.
Proof. induction 1; simpl; lia. Qed.

Lemma count_notin x l : ~ In x l -> count x l = 0.
Proof.
  induction l as [|a t IH]; simpl; [reflexivity|]. intros Hn.
  destruct (x =? a) eqn:E; [apply Nat.eqb_eq in E; subst; tauto|]. simpl. apply IH. tauto.
Qed.

Lemma count_nodup_in x l : NoDup l -> In x l -> count x l = 1.
Proof.
  induction 1 as [|a t Hni Hnd IH]; simpl; [tauto|]. intros [->|Hin].
  - rewrite Nat.eqb_refl, count_notin; auto.
  - destruct (x =? a) eqn:E; [apply Nat.eqb_eq in E; subst; contradiction|]. simpl. auto.
Qed.

Lemma ledger_ok_of_perm s : Permutation (freed s) (seq 0 (next s)) -> ledger_ok s = true.
Proof.
  intros P. unfold ledger_ok. apply andb_true_iff. split.
  - apply forallb_forall. intros i Hi. rewrite (count_perm i _ _ P), count_nodup_in; auto using seq_NoDup.
  - apply Nat.eqb_eq. rewrite (Permutation_length P). apply seq_length.
Qed.

(** Main theorem: for every history (set: dup = false, multiset: dup = true), starting from the empty tree,
    every result, size() and the in-order key sequence after every operation are those of the sorted-list
    reference (std::set / std::multiset); the class invariant (search tree, size_, allocation ledger) holds
    at the end; and after the destructor every node ever allocated has been freed exactly once. *)
Theorem splay_refines_reference : forall dup ops,
  let s := fst (srun dup st_init ops) in
  abs_out ops (snd (srun dup st_init ops)) = snd (rrun dup [] ops) /\
  keys (root s) = fst (rrun dup [] ops) /\
  Good dup s /\ bst (root s) /\
  Permutation (freed (destroy s)) (seq 0 (next (destroy s))) /\ NoDup (freed (destroy s)) /\
  sz (destroy s) = 0 /\ ledger_ok (destroy s) = true.
Proof.
  intros dup ops. pose proof (srun_refines dup ops st_init (good_init dup)) as H.
  destruct (srun dup st_init ops) as [s outs]. cbn [fst snd]. destruct H as [HG H].
  cbn [st_init root keys inorder map] in H. rewrite H. cbn [fst snd].
  destruct (clear_good dup s HG) as [HGc Hrc]. unfold destroy.
  pose proof (g_ledger dup _ HGc) as Hl. rewrite Hrc in Hl. cbn [ids inorder map app] in Hl.
  split_all; auto.
  - apply bst_sorted, (g_sorted dup s HG).
  - eapply Permutation_NoDup; [apply Permutation_sym; exact Hl|apply seq_NoDup].
  - rewrite (g_size dup _ HGc), Hrc. reflexivity.
  - now apply ledger_ok_of_perm.
Qed.

(** the reference really is std::set / std::multiset as a sorted list: its state stays sorted (and duplicate
    free for the set) *)
Lemma rrun_sorted dup ops : srt (fst (rrun dup [] ops)) /\ (dup = false -> NoDup (fst (rrun dup [] ops))).
Proof.
  destruct (splay_refines_reference dup ops) as (_ & Hk & HG & _). rewrite <- Hk.
  split; [apply (g_sorted dup _ HG)|apply (g_nodup dup _ HG)].
Qed.

(** the hypotheses are satisfiable by a non-trivial state: a 5-node multiset history incl. the witness of
    defect 03, reuse after clear, and queries on the empty tree *)
Example splay_example :
  let ops := [SExists 3; SInsert 3; SInsert 5; SInsert 5; SInsert 5; SInsert 5; SFind 4; SErase 5; STraverse;
              SClear; SFind 1; SInsert 2; SInsert 2] in
  map (fun x => snd x) (snd (srun true st_init ops)) =
    [[]; [3]; [3;5]; [3;5;5]; [3;5;5;5]; [3;5;5;5;5]; [3;5;5;5;5]; [3;5;5;5]; [3;5;5;5]; []; []; [2]; [2;2]] /\
  map (fun x => snd (fst x)) (snd (srun true st_init ops)) = [0;1;2;3;4;5;5;4;4;0;0;1;2].
Proof. vm_compute. auto. Qed.

(** ------------------------------------------------------------------------------------------
    The code as shipped (704fd0b) violates the statements above: concrete witnesses. *)

(** defect 01: exists() on the empty tree dereferences the null root *)
Lemma exists_shipped_refuted : exists k, exists_shipped st_init k = None /\ exists_ st_init k = (st_init, false).
Proof. exists 3. vm_compute. auto. Qed.

(** defect 02: after clear() root_ still points at freed nodes: the next operation reads freed memory, and the
    destructor frees the same block again *)
Lemma clear_shipped_refuted :
  exists s, s = clear_shipped (fst (insert false st_init 1)) /\ sz s = 0 /\ dangling s = true /\
            freed (clear_shipped s) = [0; 0] /\
            dangling (clear (fst (insert false st_init 1))) = false.
Proof. eexists. split; [reflexivity|]. vm_compute. auto. Qed.

(** defect 03: multiset erase drops a node that is still stored (insert 3,5,5,5,5; find 4; erase 5) *)
Definition witness03 : st :=
  fst (find (fst (srun true st_init [SInsert 3; SInsert 5; SInsert 5; SInsert 5; SInsert 5])) 4).
Lemma erase_shipped_refuted :
  keys (root (fst (erase_shipped witness03 5))) = [3; 5; 5] /\ sz (fst (erase_shipped witness03 5)) = 4 /\
  keys (root (fst (erase witness03 5))) = [3; 5; 5; 5] /\ sz (fst (erase witness03 5)) = 4.
Proof. vm_compute. auto. Qed.
