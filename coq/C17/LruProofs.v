(** C17 — LRU: the list_ + map_ model refines the reference LRU list, for every history. *)
From Coq Require Import List Arith Bool Lia.
From TLXV Require Import C17.Lru.
Import ListNotations.

Definition lkeys (l : list entry) : list nat := map fst l.

(** the representation invariant of the class: map_ holds exactly the keys of list_, each once, and no stale
    iterator has been followed *)
Record Inv (s : lru) : Prop := {
  inv_bad : bad s = false;
  inv_nodup_l : NoDup (lkeys (lst s));
  inv_nodup_m : NoDup (idx s);
  inv_same : forall k, In k (idx s) <-> In k (lkeys (lst s))
}.

Lemma map_has_In k m : map_has k m = true <-> In k m.
Proof.
  unfold map_has. rewrite existsb_exists. split.
  - intros (x & Hin & He). apply Nat.eqb_eq in He. now subst.
  - intros Hin. exists k. split; [assumption|apply Nat.eqb_refl].
Qed.

Lemma map_has_false k m : map_has k m = false <-> ~ In k m.
Proof. rewrite <- map_has_In. destruct (map_has k m); intuition congruence. Qed.

Lemma list_at_lookup k l : list_at k l = lookup k l.
Proof. unfold lookup. induction l as [|e t IH]; simpl; [reflexivity|]. now rewrite IH. Qed.

Lemma lookup_some_in k l e : lookup k l = Some e -> In e l /\ fst e = k.
Proof.
  unfold lookup. intros Hf. apply find_some in Hf. destruct Hf as [Hin He].
  apply Nat.eqb_eq in He. auto.
Qed.

Lemma lookup_none k l : lookup k l = None <-> ~ In k (lkeys l).
Proof.
  unfold lookup, lkeys. induction l as [|e t IH]; simpl; [intuition|].
  destruct (k =? fst e) eqn:Ek.
  - apply Nat.eqb_eq in Ek. split; [discriminate|]. intros Hn. exfalso. apply Hn. left. congruence.
  - apply Nat.eqb_neq in Ek. rewrite IH. intuition congruence.
Qed.

Lemma lookup_in k l : In k (lkeys l) -> exists e, lookup k l = Some e.
Proof.
  intros Hin. destruct (lookup k l) eqn:E; [eauto|]. apply lookup_none in E. contradiction.
Qed.

Lemma others_notin k l : ~ In k (lkeys l) -> others k l = l.
Proof.
  unfold others, lkeys. induction l as [|e t IH]; simpl; [reflexivity|]. intros Hn.
  destruct (k =? fst e) eqn:Ek.
  - apply Nat.eqb_eq in Ek. exfalso. apply Hn. left. congruence.
  - simpl. rewrite IH; [reflexivity|]. intuition.
Qed.

Lemma erase_at_others k l : NoDup (lkeys l) -> list_erase_at k l = others k l.
Proof.
  unfold others, lkeys. induction l as [|e t IH]; simpl; [reflexivity|]. intros Hnd.
  inversion Hnd as [|? ? Hni Hnd']; subst.
  destruct (k =? fst e) eqn:Ek; simpl.
  - apply Nat.eqb_eq in Ek. subst k. symmetry. apply (others_notin (fst e) t Hni).
  - now rewrite IH.
Qed.

Lemma others_keys k l x : In x (lkeys (others k l)) <-> In x (lkeys l) /\ x <> k.
Proof.
  unfold others, lkeys. rewrite !in_map_iff. split.
  - intros (e & He & Hin). apply filter_In in Hin. destruct Hin as [Hin Hb].
    apply negb_true_iff, Nat.eqb_neq in Hb. split; [eauto|congruence].
  - intros ((e & He & Hin) & Hne). exists e. split; [assumption|]. apply filter_In. split; [assumption|].
    apply negb_true_iff, Nat.eqb_neq. congruence.
Qed.

Lemma others_nodup k l : NoDup (lkeys l) -> NoDup (lkeys (others k l)).
Proof.
  unfold others, lkeys. induction l as [|e t IH]; simpl; [constructor|]. intros Hnd.
  inversion Hnd as [|? ? Hni Hnd']; subst.
  destruct (negb (k =? fst e)); simpl; [|auto]. constructor; [|auto].
  intros Hin. apply Hni. apply (others_keys k t (fst e)) in Hin. tauto.
Qed.

Lemma map_erase_in k m x : NoDup m -> (In x (map_erase k m) <-> In x m /\ x <> k).
Proof.
  induction m as [|y t IH]; simpl; [intuition|]. intros Hnd.
  inversion Hnd as [|? ? Hni Hnd']; subst.
  destruct (k =? y) eqn:Ek.
  - apply Nat.eqb_eq in Ek. subst y. split.
    + intros Hin. split; [auto|]. intros ->. contradiction.
    + intros [[->|Hin] Hne]; [congruence|assumption].
  - apply Nat.eqb_neq in Ek. simpl. rewrite (IH Hnd'). intuition congruence.
Qed.

Lemma map_erase_nodup k m : NoDup m -> NoDup (map_erase k m).
Proof.
  induction m as [|y t IH]; simpl; [constructor|]. intros Hnd.
  inversion Hnd as [|? ? Hni Hnd']; subst.
  destruct (k =? y); [assumption|]. constructor; [|auto].
  intros Hin. apply (map_erase_in k t y Hnd') in Hin. tauto.
Qed.

Lemma stale_false k l : In k (lkeys l) -> stale k l = false.
Proof. intros Hin. unfold stale. rewrite list_at_lookup. destruct (lookup_in k l Hin) as [e ->]. reflexivity. Qed.

Lemma same_length (m : list nat) (l : list entry) :
  NoDup m -> NoDup (lkeys l) -> (forall k, In k m <-> In k (lkeys l)) -> length m = length l.
Proof.
  intros Hm Hl Hs. replace (length l) with (length (lkeys l)) by apply map_length.
  apply Nat.le_antisymm; apply NoDup_incl_length; try assumption; intros x Hx; now apply Hs.
Qed.

(** removing the erased / re-inserted key *)
Lemma inv_erase s k :
  Inv s -> In k (idx s) ->
  Inv (mk (list_erase_at k (lst s)) (map_erase k (idx s)) (bad s || stale k (lst s))) /\
  list_erase_at k (lst s) = others k (lst s).
Proof.
  intros [Hb Hl Hm Hs] Hin. pose proof (erase_at_others k (lst s) Hl) as He. split; [|assumption].
  constructor; simpl.
  - rewrite Hb, stale_false; [reflexivity|now apply Hs].
  - rewrite He. now apply others_nodup.
  - now apply map_erase_nodup.
  - intros x. rewrite He, others_keys, (map_erase_in k (idx s) x Hm), Hs. tauto.
Qed.

Lemma inv_push s e :
  Inv s -> ~ In (fst e) (idx s) -> Inv (mk (e :: lst s) (map_insert (fst e) (idx s)) (bad s)).
Proof.
  intros [Hb Hl Hm Hs] Hni. unfold map_insert. rewrite (proj2 (map_has_false (fst e) (idx s)) Hni).
  constructor; simpl; try assumption.
  - constructor; [|assumption]. intros Hin. apply Hni. now apply Hs.
  - constructor; assumption.
  - intros x. rewrite Hs. tauto.
Qed.

Lemma inv_splice s k e :
  Inv s -> lookup k (lst s) = Some e ->
  Inv (mk (list_splice_front k (lst s)) (idx s) (bad s || stale k (lst s))) /\
  list_splice_front k (lst s) = e :: others k (lst s).
Proof.
  intros HI Hlk. destruct HI as [Hb Hl Hm Hs].
  destruct (lookup_some_in _ _ _ Hlk) as [Hine Hke].
  assert (Hink : In k (lkeys (lst s))) by (subst k; now apply in_map).
  unfold list_splice_front. rewrite list_at_lookup, Hlk, (erase_at_others k _ Hl). split; [|reflexivity].
  constructor; simpl.
  - rewrite Hb, stale_false; auto.
  - constructor; [|now apply others_nodup]. rewrite Hke. intros Hin. apply others_keys in Hin. tauto.
  - assumption.
  - intros x. change (lkeys (e :: others k (lst s))) with (fst e :: lkeys (others k (lst s))).
    simpl. rewrite Hs, others_keys, Hke. destruct (Nat.eq_dec x k); [subst; tauto|]. split; [tauto|].
    intros [Hx|Hx]; [congruence|tauto].
Qed.

Lemma has_lookup s k : Inv s ->
  (map_has k (idx s) = true -> exists e, lookup k (lst s) = Some e) /\
  (map_has k (idx s) = false -> lookup k (lst s) = None).
Proof.
  intros HI. split.
  - intros Hh. apply lookup_in. apply (inv_same s HI). now apply map_has_In.
  - intros Hh. apply lookup_none. rewrite <- (inv_same s HI). now apply map_has_false.
Qed.

Lemma rev_cons_split {A} (l : list A) e r : rev l = e :: r -> l = rev r ++ [e] /\ removelast l = rev r.
Proof.
  intros H. assert (l = rev (e :: r)) as -> by (rewrite <- H; now rewrite rev_involutive).
  simpl. split; [reflexivity|]. now rewrite removelast_last.
Qed.

(** one step: same result, same list, invariant kept *)
Lemma lstep_refines s o :
  Inv s -> let '(s1, r) := lstep s o in lref_step (lst s) o = (lst s1, r) /\ Inv s1.
Proof.
  intros HI. destruct (has_lookup s) with (k := match o with LPut k _ | LTouch k | LTouchIf k | LGet k | LGetTouch k
    | LErase k | LEraseIf k | LExists k => k | _ => 0 end) as [Hyes Hno]; [assumption|].
  destruct o as [k v|k|k|k|k|k|k|k| | |]; cbn [lstep lref_step].
  - (* put *)
    unfold put. destruct (map_has k (idx s)) eqn:Hh.
    + destruct (inv_erase s k HI) as [HI1 He]; [now apply map_has_In|].
      cbn [lst idx bad mk]. split; [now rewrite He|].
      apply (inv_push _ (k, v) HI1). simpl. intros Hin.
      apply (map_erase_in k (idx s) k (inv_nodup_m s HI)) in Hin. tauto.
    + split; [|apply (inv_push s (k, v) HI); simpl; now apply map_has_false].
      simpl. rewrite others_notin; [reflexivity|]. rewrite <- (inv_same s HI). now apply map_has_false.
  - (* touch *)
    unfold touch. destruct (map_has k (idx s)) eqn:Hh.
    + destruct (Hyes eq_refl) as [e He]. rewrite He. destruct (inv_splice s k e HI He) as [HI1 Hsp].
      cbn [lst mk fst snd]. split; [now rewrite Hsp|exact HI1].
    + rewrite (Hno eq_refl). auto.
  - unfold touch_if_exists. destruct (map_has k (idx s)) eqn:Hh.
    + destruct (Hyes eq_refl) as [e He]. rewrite He. destruct (inv_splice s k e HI He) as [HI1 Hsp].
      cbn [lst mk fst snd]. split; [now rewrite Hsp|exact HI1].
    + rewrite (Hno eq_refl). auto.
  - (* get *)
    unfold get. destruct (map_has k (idx s)) eqn:Hh.
    + destruct (Hyes eq_refl) as [e He]. rewrite list_at_lookup, He. auto.
    + rewrite (Hno eq_refl). auto.
  - unfold get_touch. destruct (map_has k (idx s)) eqn:Hh.
    + destruct (Hyes eq_refl) as [e He]. rewrite list_at_lookup, He.
      destruct (inv_splice s k e HI He) as [HI1 Hsp]. cbn [lst mk fst snd]. split; [now rewrite Hsp|].
      destruct HI1 as [Hb1 H1 H2 H3]. cbn [lst idx bad mk] in *. constructor; cbn [lst idx bad mk]; try assumption.
      apply (inv_bad s HI).
    + rewrite (Hno eq_refl). auto.
  - (* erase *)
    unfold erase. destruct (map_has k (idx s)) eqn:Hh.
    + destruct (Hyes eq_refl) as [e He]. rewrite He.
      destruct (inv_erase s k HI) as [HI1 Her]; [now apply map_has_In|]. cbn [lst mk fst snd]. split; [now rewrite Her|exact HI1].
    + rewrite (Hno eq_refl). auto.
  - unfold erase_if_exists. destruct (map_has k (idx s)) eqn:Hh.
    + destruct (Hyes eq_refl) as [e He]. rewrite He.
      destruct (inv_erase s k HI) as [HI1 Her]; [now apply map_has_In|]. cbn [lst mk fst snd]. split; [now rewrite Her|exact HI1].
    + rewrite (Hno eq_refl). auto.
  - (* exists *)
    destruct (map_has k (idx s)) eqn:Hh.
    + destruct (Hyes eq_refl) as [e ->]. auto.
    + rewrite (Hno eq_refl). auto.
  - (* size *)
    split; [|assumption]. simpl. now rewrite (same_length _ _ (inv_nodup_m s HI) (inv_nodup_l s HI) (inv_same s HI)).
  - (* pop *)
    unfold pop. destruct (rev (lst s)) as [|e r] eqn:Hr; [auto|]. cbn [lst]. split; [reflexivity|].
    destruct (rev_cons_split _ _ _ Hr) as [Hl Hrl]. destruct HI as [Hb Hnl Hnm Hs].
    assert (Hk : forall x, In x (lkeys (lst s)) <-> In x (lkeys (rev r)) \/ x = fst e).
    { intros x. rewrite Hl at 1. unfold lkeys. rewrite map_app, in_app_iff. simpl. intuition. }
    assert (Hnd : NoDup (lkeys (rev r)) /\ ~ In (fst e) (lkeys (rev r))).
    { rewrite Hl in Hnl. unfold lkeys in *. rewrite map_app in Hnl. simpl in Hnl.
      apply NoDup_remove in Hnl. rewrite app_nil_r in Hnl. exact Hnl. }
    constructor; simpl.
    + rewrite Hb. simpl. apply negb_false_iff, map_has_In, Hs, Hk. now right.
    + rewrite Hrl. tauto.
    + now apply map_erase_nodup.
    + intros x. rewrite Hrl, (map_erase_in _ _ x Hnm), Hs, Hk.
      destruct Hnd as [_ Hni]. destruct (Nat.eq_dec x (fst e)); [subst; tauto|tauto].
  - (* clear *)
    split; [reflexivity|]. constructor; simpl; try constructor; [apply (inv_bad s HI)|tauto|tauto].
Qed.

Lemma inv_init : Inv lru_init.
Proof. constructor; simpl; try constructor; tauto. Qed.

Lemma lrun_refines : forall ops s,
  Inv s -> let '(s1, outs) := lrun s ops in lref_run (lst s) ops = (lst s1, outs) /\ Inv s1.
Proof.
  induction ops as [|o t IH]; intros s HI; simpl; [auto|].
  pose proof (lstep_refines s o HI) as Hst. destruct (lstep s o) as [s1 r]. destruct Hst as [Hst HI1].
  rewrite Hst. specialize (IH s1 HI1). destruct (lrun s1 t) as [s2 rs]. destruct IH as [IH HI2].
  rewrite IH. auto.
Qed.

(** a valid history (pop only on a non-empty cache) never reports the precondition marker *)
Lemma lref_run_valid : forall ops l, lvalid l ops = true ->
  Forall (fun x => fst x <> RPre) (snd (lref_run l ops)).
Proof.
  induction ops as [|o t IH]; intros l Hv; simpl; [constructor|].
  assert (Hr : snd (lref_step l o) <> RPre /\ lvalid (fst (lref_step l o)) t = true).
  { simpl in Hv. destruct o; simpl in *; try (destruct (lookup k l)); simpl; try (split; [discriminate|assumption]).
    destruct l as [|e l']; [discriminate|]. split; [|assumption].
    destruct (rev (e :: l')) eqn:Hr; [|discriminate]. apply (f_equal (@length _)) in Hr.
    rewrite rev_length in Hr. discriminate. }
  destruct (lref_step l o) as [l1 r]. simpl in Hr. destruct Hr as [Hr Hv1]. specialize (IH l1 Hv1).
  destruct (lref_run l1 t) as [l2 rs]. simpl in *. constructor; [assumption|assumption].
Qed.

(** Main theorem: for every history from the empty cache respecting pop's precondition, every result
    (value, bool, exception, popped pair, size) and the recency list after every operation are those of the
    reference LRU list; the class invariant holds at the end; no precondition marker occurs. *)
Theorem lru_refines_reference : forall ops,
  lvalid [] ops = true ->
  snd (lrun lru_init ops) = snd (lref_run [] ops) /\
  lst (fst (lrun lru_init ops)) = fst (lref_run [] ops) /\
  Inv (fst (lrun lru_init ops)) /\
  Forall (fun x => fst x <> RPre) (snd (lrun lru_init ops)).
Proof.
  intros ops Hv. pose proof (lrun_refines ops lru_init inv_init) as H.
  pose proof (lref_run_valid ops [] Hv) as Hp.
  destruct (lrun lru_init ops) as [s1 outs]. destruct H as [H HI]. simpl in H. rewrite H in *. simpl in *. auto.
Qed.

(** What the reference says, spelled out on the list (so that the reading "LRU order" is a theorem and not a
    definition): after put/touch the key is the most recent one; pop returns the last element of the list, and a
    key is last iff every other cached key was put or touched after it (list order = recency order). *)
Lemma ref_put_front k v l : fst (lref_step l (LPut k v)) = (k, v) :: others k l.
Proof. reflexivity. Qed.

Lemma ref_touch_front k l e : lookup k l = Some e -> fst (lref_step l (LTouch k)) = e :: others k l.
Proof. intros H. simpl. now rewrite H. Qed.

Lemma ref_pop_last l e r : rev l = e :: r -> lref_step l LPop = (rev r, RPop e) /\ l = rev r ++ [e].
Proof.
  intros H. destruct (rev_cons_split _ _ _ H) as [Hl Hrl]. simpl. rewrite H, Hrl. auto.
Qed.

(** exceptions exactly for absent keys *)
Lemma ref_err_iff_absent l o k :
  (o = LTouch k \/ o = LGet k \/ o = LGetTouch k \/ o = LErase k) ->
  (snd (lref_step l o) = RErr <-> ~ In k (lkeys l)).
Proof.
  intros Ho. rewrite <- lookup_none.
  destruct Ho as [-> | [-> | [-> | ->]]]; simpl; destruct (lookup k l); simpl; split; congruence.
Qed.

(** the hypotheses of the main theorem are satisfiable by a non-trivial history *)
Example lru_example :
  let ops := [LPut 1 5; LPut 2 6; LTouch 1; LGet 2; LGetTouch 2; LGet 7; LEraseIf 1; LPut 3 1; LPop; LSize] in
  lvalid [] ops = true /\ map fst (snd (lrun lru_init ops)) =
    [RUnit; RUnit; RUnit; RVal 6; RVal 6; RErr; RBool true; RUnit; RPop (2, 6); RSize 1].
Proof. vm_compute. auto. Qed.
