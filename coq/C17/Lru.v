(** C17 — executable model of tlx::LruCacheMap / tlx::LruCacheSet (tlx/container/lru_cache.hpp).

    State = the two private members:
      [lst]  list_  : std::list<pair<Key,Value>>, front = most recently used
      [idx]  map_   : std::unordered_map<Key, list iterator>; modelled as the collection of keys it holds
                      (an unordered_map has no observable order; the model keeps insertion order, no theorem
                      depends on it).  The stored iterator of key k is modelled as "the entry of list_ whose key
                      is k"; following an iterator whose entry is not in the list (a stale map entry) sets the
                      [bad] flag -- the invariant theorem shows that never happens.
    Every method follows the C++ text: first [map_.find(key)], then the same branch.
    LruCacheSet is the same code with the value dropped: it is run through this model with value 0.
    Exceptions (std::range_error "There is no such key in cache") are the result [RErr]. *)
From Coq Require Import List Arith Bool.
Import ListNotations.

Definition entry := (nat * nat)%type.          (* key, value *)

Record lru := { lst : list entry; idx : list nat; bad : bool }.

Definition lru_init : lru := {| lst := []; idx := []; bad := false |}.

(** map_.find(key) != map_.end() *)
Definition map_has (k : nat) (m : list nat) : bool := existsb (Nat.eqb k) m.
(** map_.erase(it) / map_.erase(key): an unordered_map holds a key at most once; erase removes that one *)
Fixpoint map_erase (k : nat) (m : list nat) : list nat :=
  match m with
  | [] => []
  | x :: t => if k =? x then t else x :: map_erase k t
  end.
(** map_.insert(make_pair(key, it)): does nothing when the key is already present *)
Definition map_insert (k : nat) (m : list nat) : list nat := if map_has k m then m else k :: m.

(** *it->second : the list entry the stored iterator points to *)
Fixpoint list_at (k : nat) (l : list entry) : option entry :=
  match l with
  | [] => None
  | e :: t => if k =? fst e then Some e else list_at k t
  end.
(** list_.erase(it->second): unlink exactly that one entry *)
Fixpoint list_erase_at (k : nat) (l : list entry) : list entry :=
  match l with
  | [] => []
  | e :: t => if k =? fst e then t else e :: list_erase_at k t
  end.
(** list_.splice(list_.begin(), list_, it->second): move that entry to the front *)
Definition list_splice_front (k : nat) (l : list entry) : list entry :=
  match list_at k l with
  | Some e => e :: list_erase_at k l
  | None => l
  end.
Definition stale (k : nat) (l : list entry) : bool :=
  match list_at k l with Some _ => false | None => true end.

Inductive lop :=
| LPut (k v : nat) | LTouch (k : nat) | LTouchIf (k : nat) | LGet (k : nat) | LGetTouch (k : nat)
| LErase (k : nat) | LEraseIf (k : nat) | LExists (k : nat) | LSize | LPop | LClear.

Inductive lres :=
| RUnit | RErr | RBool (b : bool) | RVal (v : nat) | RSize (n : nat) | RPop (e : entry)
| RPre.   (* precondition violated: pop() on an empty cache is assert(size()) in the C++ *)

Definition mk (l : list entry) (m : list nat) (b : bool) : lru := {| lst := l; idx := m; bad := b |}.

Definition put (s : lru) (k v : nat) : lru :=
  let s1 := if map_has k (idx s)
            then mk (list_erase_at k (lst s)) (map_erase k (idx s)) (bad s || stale k (lst s))
            else s in
  mk ((k, v) :: lst s1) (map_insert k (idx s1)) (bad s1).

Definition touch (s : lru) (k : nat) : lru * lres :=
  if map_has k (idx s)
  then (mk (list_splice_front k (lst s)) (idx s) (bad s || stale k (lst s)), RUnit)
  else (s, RErr).

Definition touch_if_exists (s : lru) (k : nat) : lru * lres :=
  if map_has k (idx s)
  then (mk (list_splice_front k (lst s)) (idx s) (bad s || stale k (lst s)), RBool true)
  else (s, RBool false).

Definition erase (s : lru) (k : nat) : lru * lres :=
  if map_has k (idx s)
  then (mk (list_erase_at k (lst s)) (map_erase k (idx s)) (bad s || stale k (lst s)), RUnit)
  else (s, RErr).

Definition erase_if_exists (s : lru) (k : nat) : lru * lres :=
  if map_has k (idx s)
  then (mk (list_erase_at k (lst s)) (map_erase k (idx s)) (bad s || stale k (lst s)), RBool true)
  else (s, RBool false).

Definition get (s : lru) (k : nat) : lru * lres :=
  if map_has k (idx s)
  then match list_at k (lst s) with
       | Some e => (s, RVal (snd e))
       | None => (mk (lst s) (idx s) true, RVal 0)
       end
  else (s, RErr).

Definition get_touch (s : lru) (k : nat) : lru * lres :=
  if map_has k (idx s)
  then match list_at k (lst s) with
       | Some e => (mk (list_splice_front k (lst s)) (idx s) (bad s), RVal (snd e))
       | None => (mk (lst s) (idx s) true, RVal 0)
       end
  else (s, RErr).

(** pop(): last = --list_.end(); out = *last; map_.erase(out.first); list_.pop_back() *)
Definition pop (s : lru) : lru * lres :=
  match rev (lst s) with
  | [] => (s, RPre)
  | e :: _ => (mk (removelast (lst s)) (map_erase (fst e) (idx s)) (bad s || negb (map_has (fst e) (idx s))), RPop e)
  end.

Definition lstep (s : lru) (o : lop) : lru * lres :=
  match o with
  | LPut k v => (put s k v, RUnit)
  | LTouch k => touch s k
  | LTouchIf k => touch_if_exists s k
  | LGet k => get s k
  | LGetTouch k => get_touch s k
  | LErase k => erase s k
  | LEraseIf k => erase_if_exists s k
  | LExists k => (s, RBool (map_has k (idx s)))
  | LSize => (s, RSize (length (idx s)))                 (* size() is map_.size() *)
  | LPop => pop s
  | LClear => (mk [] [] (bad s), RUnit)
  end.

(** a run records, after every operation, its result and the recency list *)
Fixpoint lrun (s : lru) (ops : list lop) : lru * list (lres * list entry) :=
  match ops with
  | [] => (s, [])
  | o :: t => let '(s1, r) := lstep s o in
              let '(s2, rs) := lrun s1 t in (s2, (r, lst s1) :: rs)
  end.

(** ------------------------------------------------------------------------------------------
    The reference LRU list (specification): one list of (key, value), front = most recently put or
    touched, written without any index. *)
Definition others (k : nat) (l : list entry) : list entry := filter (fun e => negb (k =? fst e)) l.
Definition lookup (k : nat) (l : list entry) : option entry := find (fun e => k =? fst e) l.

Definition lref_step (l : list entry) (o : lop) : list entry * lres :=
  match o with
  | LPut k v => ((k, v) :: others k l, RUnit)
  | LTouch k => match lookup k l with Some e => (e :: others k l, RUnit) | None => (l, RErr) end
  | LTouchIf k => match lookup k l with Some e => (e :: others k l, RBool true) | None => (l, RBool false) end
  | LGet k => match lookup k l with Some e => (l, RVal (snd e)) | None => (l, RErr) end
  | LGetTouch k => match lookup k l with Some e => (e :: others k l, RVal (snd e)) | None => (l, RErr) end
  | LErase k => match lookup k l with Some _ => (others k l, RUnit) | None => (l, RErr) end
  | LEraseIf k => match lookup k l with Some _ => (others k l, RBool true) | None => (l, RBool false) end
  | LExists k => (l, RBool (match lookup k l with Some _ => true | None => false end))
  | LSize => (l, RSize (length l))
  | LPop => match rev l with [] => (l, RPre) | e :: _ => (removelast l, RPop e) end
  | LClear => ([], RUnit)
  end.

Fixpoint lref_run (l : list entry) (ops : list lop) : list entry * list (lres * list entry) :=
  match ops with
  | [] => (l, [])
  | o :: t => let '(l1, r) := lref_step l o in
              let '(l2, rs) := lref_run l1 t in (l2, (r, l1) :: rs)
  end.

(** a history is valid when it respects the one documented precondition: pop() only on a non-empty cache *)
Fixpoint lvalid (l : list entry) (ops : list lop) : bool :=
  match ops with
  | [] => true
  | o :: t => match o, l with
              | LPop, [] => false
              | _, _ => lvalid (fst (lref_step l o)) t
              end
  end.
