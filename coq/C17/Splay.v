(** C17 — executable model of tlx::SplayTree and the free functions splay / splay_insert / splay_erase
    (tlx/container/splay_tree.hpp), Compare = std::less over natural-number keys.

    A tree is [E] (nullptr) or [N left node right]; a node carries its key and the identity of the heap
    block it lives in (allocation number), so that "every node is freed exactly once" can be stated.

    [splay] is the *top-down* splay of the source: the loop keeps the current subtree [t] and the two
    assembly trees.  The left assembly (C++: head N_right, tail pointer l, linked through ->right) is the
    list [L] of (left subtree, node) pairs, newest first; the right assembly (head N_left, tail r, linked
    through ->left) is the list [R] of (node, right subtree) pairs, newest first.  "link left" pushes the
    current node with its left subtree on [L]; "link right" pushes it with its right subtree on [R].  The
    final assemble step hangs t->left under the last left link, t->right under the last right link and makes
    the two assemblies the children of t.  The loop is structurally recursive on [t]: every iteration
    continues in t->left, t->right, t->left->left or t->right->right. *)
From Coq Require Import List Arith Bool.
Import ListNotations.

Definition node := (nat * nat)%type.           (* key, allocation id *)
Definition key (n : node) : nat := fst n.
Definition nid (n : node) : nat := snd n.

Inductive tree := E | N (l : tree) (x : node) (r : tree).

Definition lctx := list (tree * node).
Definition rctx := list (node * tree).

Definition cmp (a b : nat) : bool := a <? b.    (* std::less<Key> *)

Fixpoint splay_loop (k : nat) (t : tree) (L : lctx) (R : rctx) {struct t} : tree * lctx * rctx :=
  match t with
  | E => (E, L, R)
  | N tl x tr =>
    if cmp k (key x) then
      match tl with
      | E => (t, L, R)                                          (* t->left == nullptr: break *)
      | N a y b =>
        if cmp k (key y) then
          (* rotate right: y becomes the subtree root, x its right child *)
          match a with
          | E => (N E y (N b x tr), L, R)                       (* after rotation t->left == nullptr: break *)
          | N _ _ _ => splay_loop k a L ((y, N b x tr) :: R)    (* link right y; continue in y->left *)
          end
        else splay_loop k tl L ((x, tr) :: R)                   (* link right x; continue in x->left *)
      end
    else if cmp (key x) k then
      match tr with
      | E => (t, L, R)
      | N a y b =>
        if cmp (key y) k then
          (* rotate left *)
          match b with
          | E => (N (N tl x a) y E, L, R)
          | N _ _ _ => splay_loop k b ((N tl x a, y) :: L) R    (* link left y; continue in y->right *)
          end
        else splay_loop k tr ((tl, x) :: L) R                   (* link left x; continue in x->right *)
      end
    else (t, L, R)
  end.

(** the left assembly with [h] hung under its last ->right pointer; dually the right assembly *)
Definition asmL (L : lctx) (h : tree) : tree := fold_left (fun acc p => N (fst p) (snd p) acc) L h.
Definition asmR (R : rctx) (h : tree) : tree := fold_left (fun acc p => N acc (fst p) (snd p)) R h.

Definition splay (k : nat) (t : tree) : tree :=
  match splay_loop k t [] [] with
  | (N tl x tr, L, R) => N (asmL L tl) x (asmR R tr)
  | (E, _, _) => E
  end.

(** splay_insert(nn, t): t has been splayed for nn's key *)
Definition splay_insert (nn : node) (t : tree) : tree :=
  match t with
  | E => N E nn E
  | N l x r => if cmp (key nn) (key x) then N l nn (N E x r) else N (N l x E) nn r
  end.

(** rotate the maximum of a tree to its root: while (x->right) rotate left   (part of fix 03) *)
Fixpoint rot_max (l : tree) (x : node) (r : tree) : tree :=
  match r with
  | E => N l x E
  | N rl y rr => rot_max (N l x rl) y rr
  end.

(** splay_erase(k, t): returns the unlinked node (or None) and the new tree *)
Definition splay_erase (k : nat) (t : tree) : option node * tree :=
  match t with
  | E => (None, E)
  | _ =>
    match splay k t with
    | E => (None, E)
    | N l x r =>
      if negb (cmp k (key x)) && negb (cmp (key x) k) then
        match l with
        | E => (Some x, r)
        | _ => match splay k l with
               | E => (Some x, r)                                  (* unreachable: l is not empty *)
               | N a y b => match rot_max a y b with
                            | N a' y' _ => (Some x, N a' y' r)     (* x->right = t->right *)
                            | E => (Some x, r)
                            end
               end
        end
      else (None, N l x r)
    end
  end.

(** traversals *)
Fixpoint inorder (t : tree) : list node :=
  match t with E => [] | N l x r => inorder l ++ x :: inorder r end.
Fixpoint postorder (t : tree) : list node :=
  match t with E => [] | N l x r => postorder l ++ postorder r ++ [x] end.
Definition keys (t : tree) : list nat := map key (inorder t).

(** ------------------------------------------------------------------------------------------
    class SplayTree: root_, size_, plus the allocator's history (next allocation id, list of freed ids) *)
Record st := { root : tree; sz : nat; next : nat; freed : list nat }.
Definition st_init : st := {| root := E; sz := 0; next := 0; freed := [] |}.

Definition is_eq (k : nat) (x : node) : bool := negb (cmp k (key x)) && negb (cmp (key x) k).

(** insert(k); [dup] is the template parameter Duplicates *)
Definition insert (dup : bool) (s : st) (k : nat) : st * bool :=
  let t := match root s with E => E | _ => splay k (root s) end in
  let present := match t with E => false | N _ x _ => negb dup && is_eq k x end in
  if present then ({| root := t; sz := sz s; next := next s; freed := freed s |}, false)
  else ({| root := splay_insert (k, next s) t; sz := S (sz s); next := S (next s); freed := freed s |}, true).

(** erase(k): splay_erase, then delete_node(out) (which does size_--) *)
Definition erase (s : st) (k : nat) : st * bool :=
  match splay_erase k (root s) with
  | (None, t) => ({| root := t; sz := sz s; next := next s; freed := freed s |}, false)
  | (Some x, t) => ({| root := t; sz := pred (sz s); next := next s; freed := nid x :: freed s |}, true)
  end.

(** clear(): post-order delete_node of every node, then root_ = nullptr   (fix 02) *)
Definition delete_all (t : tree) (s : nat) (f : list nat) : nat * list nat :=
  fold_left (fun a n => (pred (fst a), nid n :: snd a)) (postorder t) (s, f).
Definition clear (s : st) : st :=
  let '(z, f) := delete_all (root s) (sz s) (freed s) in
  {| root := E; sz := z; next := next s; freed := f |}.

(** exists(k): empty tree -> false (fix 01); else splay and compare with the root *)
Definition exists_ (s : st) (k : nat) : st * bool :=
  match root s with
  | E => (s, false)
  | _ => let t := splay k (root s) in
         ({| root := t; sz := sz s; next := next s; freed := freed s |},
          match t with N _ x _ => is_eq k x | E => false end)
  end.

(** find(k): root_ = splay(k, root_); returns the root node (nullptr on the empty tree) *)
Definition find (s : st) (k : nat) : st * option nat :=
  let t := splay k (root s) in
  ({| root := t; sz := sz s; next := next s; freed := freed s |},
   match t with N _ x _ => Some (key x) | E => None end).

Inductive sop := SInsert (k : nat) | SErase (k : nat) | SExists (k : nat) | SFind (k : nat) | SClear | STraverse.
Inductive sres := SBool (b : bool) | SFound (o : option nat) | SUnit | SKeys (l : list nat).

Definition sstep (dup : bool) (s : st) (o : sop) : st * sres :=
  match o with
  | SInsert k => let '(s1, b) := insert dup s k in (s1, SBool b)
  | SErase k => let '(s1, b) := erase s k in (s1, SBool b)
  | SExists k => let '(s1, b) := exists_ s k in (s1, SBool b)
  | SFind k => let '(s1, r) := find s k in (s1, SFound r)
  | SClear => (clear s, SUnit)
  | STraverse => (s, SKeys (keys (root s)))
  end.

(** a run records after every operation: its result, size(), the in-order key sequence, and the tree shape is
    kept in the state *)
Fixpoint srun (dup : bool) (s : st) (ops : list sop) : st * list (sres * nat * list nat) :=
  match ops with
  | [] => (s, [])
  | o :: t => let '(s1, r) := sstep dup s o in
              let '(s2, rs) := srun dup s1 t in (s2, (r, sz s1, keys (root s1)) :: rs)
  end.

(** the destructor: ~SplayTree() { clear(); } *)
Definition destroy (s : st) : st := clear s.

(** ledger verdict at the end of the object's life: every allocated block freed exactly once *)
Fixpoint count (x : nat) (l : list nat) : nat :=
  match l with [] => 0 | y :: t => (if x =? y then 1 else 0) + count x t end.
Definition ledger_ok (s : st) : bool :=
  forallb (fun i => count i (freed s) =? 1) (seq 0 (next s)) && (length (freed s) =? next s).

(** ------------------------------------------------------------------------------------------
    The code as shipped in 704fd0b (before fixes/C17/01..03), kept for the refutation lemmas. *)

(** exists() without the empty-tree test: None = null pointer dereference *)
Definition exists_shipped (s : st) (k : nat) : option (st * bool) :=
  match splay k (root s) with
  | E => None
  | N l x r => Some ({| root := N l x r; sz := sz s; next := next s; freed := freed s |}, is_eq k x)
  end.

(** clear() without root_ = nullptr: the nodes are freed but stay reachable from root_ *)
Definition clear_shipped (s : st) : st :=
  let '(z, f) := delete_all (root s) (sz s) (freed s) in
  {| root := root s; sz := z; next := next s; freed := f |}.
(** does root_ reach a freed block? (any later operation then reads freed memory) *)
Definition dangling (s : st) : bool :=
  existsb (fun n => existsb (Nat.eqb (nid n)) (freed s)) (inorder (root s)).

(** splay_erase() without the rot_max loop: x->right is overwritten *)
Definition splay_erase_shipped (k : nat) (t : tree) : option node * tree :=
  match t with
  | E => (None, E)
  | _ =>
    match splay k t with
    | E => (None, E)
    | N l x r =>
      if is_eq k x then
        match l with
        | E => (Some x, r)
        | _ => match splay k l with
               | E => (Some x, r)
               | N a y _ => (Some x, N a y r)
               end
        end
      else (None, N l x r)
    end
  end.
Definition erase_shipped (s : st) (k : nat) : st * bool :=
  match splay_erase_shipped k (root s) with
  | (None, t) => ({| root := t; sz := sz s; next := next s; freed := freed s |}, false)
  | (Some x, t) => ({| root := t; sz := pred (sz s); next := next s; freed := nid x :: freed s |}, true)
  end.

(** ------------------------------------------------------------------------------------------
    Reference: std::set / std::multiset as a sorted list of keys. *)
Fixpoint sorted_insert (k : nat) (l : list nat) : list nat :=
  match l with
  | [] => [k]
  | x :: t => if k <=? x then k :: l else x :: sorted_insert k t
  end.
Fixpoint remove_one (k : nat) (l : list nat) : list nat :=
  match l with
  | [] => []
  | x :: t => if k =? x then t else x :: remove_one k t
  end.
Definition mem (k : nat) (l : list nat) : bool := existsb (Nat.eqb k) l.

(** reference results; find is specified through membership only (which neighbour is returned for an absent
    key is left open by the documentation; the neighbour property is a separate theorem) *)
Definition rstep (dup : bool) (l : list nat) (o : sop) : list nat * sres :=
  match o with
  | SInsert k => if negb dup && mem k l then (l, SBool false) else (sorted_insert k l, SBool true)
  | SErase k => if mem k l then (remove_one k l, SBool true) else (l, SBool false)
  | SExists k => (l, SBool (mem k l))
  | SFind k => (l, SBool (mem k l))
  | SClear => ([], SUnit)
  | STraverse => (l, SKeys l)
  end.
Fixpoint rrun (dup : bool) (l : list nat) (ops : list sop) : list nat * list (sres * nat * list nat) :=
  match ops with
  | [] => (l, [])
  | o :: t => let '(l1, r) := rstep dup l o in
              let '(l2, rs) := rrun dup l1 t in (l2, (r, length l1, l1) :: rs)
  end.

(** what of a model result the reference fixes: find(k) -> "is the returned node's key k" *)
Definition abs_res (o : sop) (r : sres) : sres :=
  match o, r with
  | SFind k, SFound (Some x) => SBool (x =? k)
  | SFind k, SFound None => SBool false
  | _, _ => r
  end.
Fixpoint abs_out (ops : list sop) (rs : list (sres * nat * list nat)) : list (sres * nat * list nat) :=
  match ops, rs with
  | o :: t, (r, n, l) :: rt => (abs_res o r, n, l) :: abs_out t rt
  | _, _ => []
  end.
