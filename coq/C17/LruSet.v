(** C17 — executable model of tlx::LruCacheSet (tlx/container/lru_cache.hpp) in its own right, following the
    text of that class (which is a separate copy of the algorithm in the C++: list_ is a std::list<Key>, pop()
    erases the map entry by key value [map_.erase(out)], there is no get / get_touch), and the proof that it is
    the LruCacheMap model of C17/Lru.v run with the unit value 0 on every key.

    State = the two private members of LruCacheSet:
      [klst]  list_ : std::list<Key>, front = most recently used
      [kidx]  map_  : std::unordered_map<Key, list iterator>, modelled as the collection of its keys
      [kbad]  set when a stored iterator is followed whose entry is no longer in list_ (never happens: theorem).
    The simulation theorem [kset_is_map_with_unit] is what justifies running the C++ LruCacheSet against the
    Map model with value 0 in the correspondence driver; [kset_refines_reference] composes it with
    [lru_refines_reference]. *)
From Coq Require Import List Arith Bool Lia.
From TLXV Require Import C17.Lru C17.LruProofs.
Import ListNotations.

Record kset := { klst : list nat; kidx : list nat; kbad : bool }.
Definition kset_init : kset := {| klst := []; kidx := []; kbad := false |}.
Definition kmk (l m : list nat) (b : bool) : kset := {| klst := l; kidx := m; kbad := b |}.

(** list_.erase(it->second) on a list of keys: unlink the first (only) node holding k = [map_erase k] *)
Definition klist_erase (k : nat) (l : list nat) : list nat := map_erase k l.
(** following the stored iterator of k finds a node of list_ iff some node holds k *)
Definition kstale (k : nat) (l : list nat) : bool := negb (map_has k l).
(** list_.splice(list_.begin(), list_, it->second) *)
Definition klist_splice_front (k : nat) (l : list nat) : list nat :=
  if map_has k l then k :: klist_erase k l else l.

Inductive kop :=
| KPut (k : nat) | KTouch (k : nat) | KTouchIf (k : nat) | KErase (k : nat) | KEraseIf (k : nat)
| KExists (k : nat) | KSize | KPop | KClear.

Definition kput (s : kset) (k : nat) : kset :=
  let s1 := if map_has k (kidx s)
            then kmk (klist_erase k (klst s)) (map_erase k (kidx s)) (kbad s || kstale k (klst s))
            else s in
  kmk (k :: klst s1) (map_insert k (kidx s1)) (kbad s1).

Definition ktouch_gen (s : kset) (k : nat) (hit miss : lres) : kset * lres :=
  if map_has k (kidx s)
  then (kmk (klist_splice_front k (klst s)) (kidx s) (kbad s || kstale k (klst s)), hit)
  else (s, miss).

Definition kerase_gen (s : kset) (k : nat) (hit miss : lres) : kset * lres :=
  if map_has k (kidx s)
  then (kmk (klist_erase k (klst s)) (map_erase k (kidx s)) (kbad s || kstale k (klst s)), hit)
  else (s, miss).

(** pop(): last = --list_.end(); out = *last; map_.erase(out); list_.pop_back(); return out.
    The result is reported as the pair (key, 0) so that it can be compared with the Map model's. *)
Definition kpop (s : kset) : kset * lres :=
  match rev (klst s) with
  | [] => (s, RPre)
  | k :: _ => (kmk (removelast (klst s)) (map_erase k (kidx s)) (kbad s || negb (map_has k (kidx s))), RPop (k, 0))
  end.

Definition kstep (s : kset) (o : kop) : kset * lres :=
  match o with
  | KPut k => (kput s k, RUnit)
  | KTouch k => ktouch_gen s k RUnit RErr
  | KTouchIf k => ktouch_gen s k (RBool true) (RBool false)
  | KErase k => kerase_gen s k RUnit RErr
  | KEraseIf k => kerase_gen s k (RBool true) (RBool false)
  | KExists k => (s, RBool (map_has k (kidx s)))
  | KSize => (s, RSize (length (kidx s)))
  | KPop => kpop s
  | KClear => (kmk [] [] (kbad s), RUnit)
  end.

Fixpoint krun (s : kset) (ops : list kop) : kset * list (lres * list nat) :=
  match ops with
  | [] => (s, [])
  | o :: t => let '(s1, r) := kstep s o in
              let '(s2, rs) := krun s1 t in (s2, (r, klst s1) :: rs)
  end.

(** ---------------------------------------------------------------------------------------------
    The embedding into the Map model. *)
Definition unit_entry (k : nat) : entry := (k, 0).
Definition emb (s : kset) : lru := mk (map unit_entry (klst s)) (kidx s) (kbad s).
Definition to_lop (o : kop) : lop :=
  match o with
  | KPut k => LPut k 0 | KTouch k => LTouch k | KTouchIf k => LTouchIf k | KErase k => LErase k
  | KEraseIf k => LEraseIf k | KExists k => LExists k | KSize => LSize | KPop => LPop | KClear => LClear
  end.

Lemma list_at_unit k l :
  list_at k (map unit_entry l) = if map_has k l then Some (unit_entry k) else None.
Proof.
  induction l as [|x t IH]; [reflexivity|]. simpl. unfold map_has in *. simpl.
  destruct (k =? x) eqn:E; simpl.
  - apply Nat.eqb_eq in E. now subst.
  - exact IH.
Qed.

Lemma stale_unit k l : stale k (map unit_entry l) = kstale k l.
Proof. unfold stale, kstale. rewrite list_at_unit. now destruct (map_has k l). Qed.

Lemma erase_at_unit k l : list_erase_at k (map unit_entry l) = map unit_entry (klist_erase k l).
Proof.
  unfold klist_erase. induction l as [|x t IH]; [reflexivity|]. simpl.
  destruct (k =? x); simpl; [reflexivity|]. now rewrite IH.
Qed.

Lemma splice_unit k l : list_splice_front k (map unit_entry l) = map unit_entry (klist_splice_front k l).
Proof.
  unfold list_splice_front, klist_splice_front. rewrite list_at_unit.
  destruct (map_has k l); [|reflexivity]. simpl. now rewrite erase_at_unit.
Qed.

Lemma removelast_map {A B} (f : A -> B) l : removelast (map f l) = map f (removelast l).
Proof.
  induction l as [|x t IH]; [reflexivity|]. destruct t as [|y t']; [reflexivity|].
  change (f x :: removelast (map f (y :: t')) = f x :: map f (removelast (y :: t'))). now rewrite IH.
Qed.

Lemma kstep_sim s o : lstep (emb s) (to_lop o) = (emb (fst (kstep s o)), snd (kstep s o)).
Proof.
  destruct s as [l m b]. destruct o as [k|k|k|k|k|k| | |]; unfold emb; simpl.
  - (* put *) unfold put, kput. simpl. destruct (map_has k m); simpl.
    + now rewrite erase_at_unit, stale_unit.
    + reflexivity.
  - unfold touch, ktouch_gen. simpl. destruct (map_has k m); simpl; [|reflexivity].
    now rewrite splice_unit, stale_unit.
  - unfold touch_if_exists, ktouch_gen. simpl. destruct (map_has k m); simpl; [|reflexivity].
    now rewrite splice_unit, stale_unit.
  - unfold erase, kerase_gen. simpl. destruct (map_has k m); simpl; [|reflexivity].
    now rewrite erase_at_unit, stale_unit.
  - unfold erase_if_exists, kerase_gen. simpl. destruct (map_has k m); simpl; [|reflexivity].
    now rewrite erase_at_unit, stale_unit.
  - reflexivity.
  - reflexivity.
  - unfold pop, kpop. simpl. rewrite <- map_rev. destruct (rev l) as [|x r]; simpl; [reflexivity|].
    now rewrite removelast_map.
  - reflexivity.
Qed.

Definition emb_outs (outs : list (lres * list nat)) : list (lres * list entry) :=
  map (fun x => (fst x, map unit_entry (snd x))) outs.

Lemma krun_sim ops : forall s,
  lrun (emb s) (map to_lop ops) = (emb (fst (krun s ops)), emb_outs (snd (krun s ops))).
Proof.
  induction ops as [|o t IH]; intros s; [reflexivity|].
  simpl. rewrite kstep_sim. destruct (kstep s o) as [s1 r]. simpl.
  rewrite IH. destruct (krun s1 t) as [s2 rs]. reflexivity.
Qed.

(** LruCacheSet is LruCacheMap with the unit value: results, recency lists after every operation, and all three
    members of the final state coincide, for EVERY history (valid or not). *)
Theorem kset_is_map_with_unit : forall ops,
  lrun lru_init (map to_lop ops) = (emb (fst (krun kset_init ops)), emb_outs (snd (krun kset_init ops))).
Proof. intros ops. exact (krun_sim ops kset_init). Qed.

(** hence, for every history respecting pop's precondition, LruCacheSet's results and recency lists are those of
    the reference LRU list over (key, 0) entries, its invariant holds (map_ = the keys of list_, each once, no
    stale iterator followed), and the precondition marker never appears *)
Definition KInv (s : kset) : Prop :=
  kbad s = false /\ NoDup (klst s) /\ NoDup (kidx s) /\ forall k, In k (kidx s) <-> In k (klst s).

Theorem kset_refines_reference : forall ops,
  lvalid [] (map to_lop ops) = true ->
  emb_outs (snd (krun kset_init ops)) = snd (lref_run [] (map to_lop ops)) /\
  map unit_entry (klst (fst (krun kset_init ops))) = fst (lref_run [] (map to_lop ops)) /\
  KInv (fst (krun kset_init ops)) /\
  Forall (fun x => fst x <> RPre) (snd (krun kset_init ops)).
Proof.
  intros ops Hv. destruct (lru_refines_reference _ Hv) as (H1 & H2 & H3 & H4).
  rewrite kset_is_map_with_unit in H1, H2, H3, H4. simpl in H1, H2, H3, H4.
  split; [exact H1|]. split; [exact H2|]. split.
  - destruct H3 as [Hb Hl Hm Hs]. simpl in Hb, Hl, Hm, Hs.
    assert (Hk : lkeys (map unit_entry (klst (fst (krun kset_init ops)))) = klst (fst (krun kset_init ops))).
    { unfold lkeys. rewrite map_map. simpl. apply map_id. }
    rewrite Hk in Hl, Hs. repeat split; try assumption; apply Hs.
  - unfold emb_outs in H4. rewrite Forall_map in H4. exact H4.
Qed.

(** non-vacuity: a concrete history through every operation, including a touch that reorders and a pop *)
Example kset_example :
  let ops := [KPut 1; KPut 2; KPut 3; KTouch 1; KPut 2; KEraseIf 3; KTouchIf 9; KExists 1; KSize; KPop; KErase 7; KPop; KClear] in
  lvalid [] (map to_lop ops) = true /\
  map fst (snd (krun kset_init ops)) =
    [RUnit; RUnit; RUnit; RUnit; RUnit; RBool true; RBool false; RBool true; RSize 2; RPop (1, 0); RErr; RPop (2, 0); RUnit].
Proof. vm_compute. split; reflexivity. Qed.
