(** C17 — facts about the top-down splay: it preserves the in-order node sequence (for any tree), and on a
    search tree it brings a neighbour of k to the root with everything smaller than k on the left assembly
    and everything larger on the right assembly. *)
From Coq Require Import List Arith Bool Lia FunInd Sorting.Sorted Sorting.Permutation.
From TLXV Require Import C17.Splay.
Import ListNotations.

Functional Scheme splay_loop_ind := Induction for splay_loop Sort Prop.

(** in-order content of the two assemblies *)
Fixpoint inL (L : lctx) : list node :=
  match L with [] => [] | (a, x) :: L' => inL L' ++ inorder a ++ [x] end.
Fixpoint inR (R : rctx) : list node :=
  match R with [] => [] | (x, b) :: R' => x :: inorder b ++ inR R' end.

Lemma inorder_asmL L : forall h, inorder (asmL L h) = inL L ++ inorder h.
Proof.
  unfold asmL. induction L as [|[a x] L IH]; intros h; simpl; [reflexivity|].
  rewrite IH. simpl. now rewrite <- !app_assoc.
Qed.

Lemma inorder_asmR R : forall h, inorder (asmR R h) = inorder h ++ inR R.
Proof.
  unfold asmR. induction R as [|[x b] R IH]; intros h; simpl; [now rewrite app_nil_r|].
  rewrite IH. simpl. now rewrite <- !app_assoc.
Qed.

(** search-tree invariant (non-strict: equal keys may sit on either side, as in a multiset) *)
Fixpoint bst (t : tree) : Prop :=
  match t with
  | E => True
  | N l x r => bst l /\ bst r /\ Forall (fun y => key y <= key x) (inorder l) /\
               Forall (fun y => key x <= key y) (inorder r)
  end.

Lemma cmp_true a b : cmp a b = true <-> a < b.
Proof. unfold cmp. apply Nat.ltb_lt. Qed.
Lemma cmp_false a b : cmp a b = false <-> b <= a.
Proof. unfold cmp. rewrite Nat.ltb_ge. tauto. Qed.

Ltac fa :=
  match goal with
  | |- Forall _ [] => constructor
  | H : Forall _ ?l |- Forall _ ?l => solve [eapply Forall_impl; [|exact H]; cbv beta; intros; lia]
  end.
Ltac lnorm := cbn [inorder app]; repeat (rewrite <- app_assoc; cbn [app]).
Ltac split_all := repeat match goal with |- _ /\ _ => split end.
Ltac fa_norm := rewrite ?Forall_app, ?Forall_cons_iff in *.

Definition below (k : nat) (l : list node) : Prop := Forall (fun y => key y < k) l.
Definition above (k : nat) (l : list node) : Prop := Forall (fun y => k < key y) l.

Definition loop_post (k : nat) (t : tree) (L : lctx) (R : rctx) (res : tree * lctx * rctx) : Prop :=
  let '(t', L', R') := res in
  (inL L' ++ inorder t' ++ inR R' = inL L ++ inorder t ++ inR R) /\
  (t <> E -> t' <> E) /\
  (bst t -> below k (inL L) -> above k (inR R) ->
   bst t' /\ below k (inL L') /\ above k (inR R') /\
   match t' with E => True | N tl x tr => (k < key x -> tl = E) /\ (key x < k -> tr = E) end).

Lemma splay_loop_spec k : forall t L R, loop_post k t L R (splay_loop k t L R).
Proof.
  intros t L R. functional induction (splay_loop k t L R); unfold loop_post in *;
    repeat match goal with H : cmp _ _ = true |- _ => apply cmp_true in H
                      | H : cmp _ _ = false |- _ => apply cmp_false in H end.
  - (* E *) split_all; auto.
  - (* k < x, left empty *)
    split_all; auto; try discriminate. intros; split_all; auto. lia.
  - (* zig-zig right, then left empty *)
    split_all; try discriminate.
    + lnorm. reflexivity.
    + cbn [bst inorder]. unfold below, above. intros Hb HL HR. fa_norm.
      destruct Hb as ((_ & Hbb & _ & Hyb) & Hbtr & (_ & Hyx & Hbx) & Hxtr).
      split_all; auto; try fa; try lia; try (intros; lia).
  - (* zig-zig right, link right *)
    destruct (splay_loop k (N _x _x0 _x1) L ((y, N b x tr) :: R)) as [[t' L'] R'].
    destruct IHp as (Hin & Hne & Hinv). split_all.
    + rewrite Hin. cbn [inR]. lnorm. reflexivity.
    + intros _. apply Hne. discriminate.
    + cbn [bst inorder inR] in *. unfold below, above in *. intros Hb HL HR. fa_norm.
      destruct Hb as ((Hba & Hbb & Hay & Hyb) & Hbtr & (Hax & Hyx & Hbx) & Hxtr).
      apply Hinv; auto. fa_norm. split_all; auto; try fa; try lia.
  - (* zig right: link right *)
    destruct (splay_loop k (N a y b) L ((x, tr) :: R)) as [[t' L'] R'].
    destruct IHp as (Hin & Hne & Hinv). split_all.
    + rewrite Hin. cbn [inR]. lnorm. reflexivity.
    + intros _. apply Hne. discriminate.
    + cbn [bst inorder inR] in *. unfold below, above in *. intros Hb HL HR. fa_norm.
      destruct Hb as ((Hba & Hbb & Hay & Hyb) & Hbtr & (Hax & Hyx & Hbx) & Hxtr).
      apply Hinv; auto. fa_norm. split_all; auto; try fa; try lia.
  - (* x < k, right empty *)
    split_all; auto; try discriminate. intros; split_all; auto. lia.
  - (* zig-zig left, then right empty *)
    split_all; try discriminate.
    + lnorm. reflexivity.
    + cbn [bst inorder]. unfold below, above. intros Hb HL HR. fa_norm.
      destruct Hb as (Hbtl & (Hba & _ & Hay & _) & Htlx & (Hxa & Hxy & _)).
      split_all; auto; try fa; try lia; try (intros; lia).
  - (* zig-zig left, link left *)
    destruct (splay_loop k (N _x _x0 _x1) ((N tl x a, y) :: L) R) as [[t' L'] R'].
    destruct IHp as (Hin & Hne & Hinv). split_all.
    + rewrite Hin. cbn [inL]. lnorm. reflexivity.
    + intros _. apply Hne. discriminate.
    + cbn [bst inorder inL] in *. unfold below, above in *. intros Hb HL HR. fa_norm.
      destruct Hb as (Hbtl & (Hba & Hbb & Hay & Hyb) & Htlx & (Hxa & Hxy & Hxb)).
      apply Hinv; auto. fa_norm. split_all; auto; try fa; try lia.
  - (* zig left: link left *)
    destruct (splay_loop k (N a y b) ((tl, x) :: L) R) as [[t' L'] R'].
    destruct IHp as (Hin & Hne & Hinv). split_all.
    + rewrite Hin. cbn [inL]. lnorm. reflexivity.
    + intros _. apply Hne. discriminate.
    + cbn [bst inorder inL] in *. unfold below, above in *. intros Hb HL HR. fa_norm.
      destruct Hb as (Hbtl & (Hba & Hbb & Hay & Hyb) & Htlx & (Hxa & Hxy & Hxb)).
      apply Hinv; auto. fa_norm. split_all; auto; try fa; try lia.
  - (* equal *)
    split_all; auto; try discriminate. intros; split_all; auto; lia.
Qed.

(** ------------------------------------------------------------------------------------------ sorted lists *)
Definition srt (l : list nat) : Prop := StronglySorted le l.

Lemma srt_app_cons l1 x l2 :
  srt (l1 ++ x :: l2) <-> srt l1 /\ srt l2 /\ Forall (fun y => y <= x) l1 /\ Forall (fun y => x <= y) l2.
Proof.
  unfold srt. induction l1 as [|a l1 IH]; simpl.
  - split.
    + intros H. apply StronglySorted_inv in H. destruct H. split_all; auto; constructor.
    + intros (_ & H2 & _ & H4). constructor; assumption.
  - split.
    + intros H. apply StronglySorted_inv in H. destruct H as [Hs Hf]. apply IH in Hs.
      destruct Hs as (S1 & S2 & F1 & F2). apply Forall_app in Hf. destruct Hf as [Hf1 Hf2].
      apply Forall_cons_iff in Hf2. destruct Hf2 as [Hax Hf2].
      split_all; auto. constructor; assumption.
    + intros (S1 & S2 & F1 & F2). apply StronglySorted_inv in S1. destruct S1 as [S1 Fa].
      apply Forall_cons_iff in F1. destruct F1 as [Hax F1].
      constructor; [apply IH; auto|]. apply Forall_app. split; [assumption|].
      constructor; [assumption|]. eapply Forall_impl; [|exact F2]. cbv beta. intros; lia.
Qed.

Lemma srt_app_drop l1 x l2 : srt (l1 ++ x :: l2) -> srt (l1 ++ l2).
Proof.
  unfold srt. induction l1 as [|a l1 IH]; simpl; intros H; apply StronglySorted_inv in H; destruct H as [Hs Hf].
  - assumption.
  - constructor; [auto|]. apply Forall_app in Hf. destruct Hf as [F1 F2]. apply Forall_cons_iff in F2.
    apply Forall_app. tauto.
Qed.

Lemma bst_sorted t : bst t <-> srt (keys t).
Proof.
  unfold keys. induction t as [|l IHl x r IHr]; simpl.
  - split; [constructor|auto].
  - rewrite map_app. simpl. rewrite srt_app_cons, IHl, IHr, !Forall_map. tauto.
Qed.

Lemma srt_unique : forall l1 l2, srt l1 -> srt l2 -> Permutation l1 l2 -> l1 = l2.
Proof.
  unfold srt. induction l1 as [|x t IH]; intros l2 S1 S2 P.
  - apply Permutation_nil in P. now subst.
  - destruct l2 as [|y u]; [apply Permutation_sym, Permutation_nil in P; discriminate|].
    apply StronglySorted_inv in S1. destruct S1 as [S1 F1].
    apply StronglySorted_inv in S2. destruct S2 as [S2 F2].
    assert (x = y).
    { assert (Hx : In x (y :: u)) by (eapply Permutation_in; [exact P|now left]).
      assert (Hy : In y (x :: t)) by (eapply Permutation_in; [apply Permutation_sym; exact P|now left]).
      rewrite Forall_forall in F1, F2.
      destruct Hx as [->|Hx]; [reflexivity|]. destruct Hy as [->|Hy]; [reflexivity|].
      specialize (F1 _ Hy). specialize (F2 _ Hx). lia. }
    subst y. f_equal. apply IH; auto. eapply Permutation_cons_inv; exact P.
Qed.

Lemma sorted_insert_perm k l : Permutation (k :: l) (sorted_insert k l).
Proof.
  induction l as [|x t IH]; simpl; [auto|]. destruct (k <=? x); [auto|].
  eapply perm_trans; [apply perm_swap|]. now apply perm_skip.
Qed.

Lemma sorted_insert_srt k l : srt l -> srt (sorted_insert k l).
Proof.
  unfold srt. induction l as [|x t IH]; simpl; intros S.
  - constructor; constructor.
  - apply StronglySorted_inv in S. destruct S as [S F]. destruct (k <=? x) eqn:E.
    + apply Nat.leb_le in E. constructor; [constructor; assumption|].
      constructor; [assumption|]. eapply Forall_impl; [|exact F]. cbv beta. intros; lia.
    + apply Nat.leb_gt in E. constructor; [auto|].
      eapply Permutation_Forall; [apply sorted_insert_perm|]. constructor; [lia|assumption].
Qed.

Lemma mem_In k l : mem k l = true <-> In k l.
Proof.
  unfold mem. rewrite existsb_exists. split.
  - intros (x & Hin & He). apply Nat.eqb_eq in He. now subst.
  - intros Hin. exists k. split; [assumption|apply Nat.eqb_refl].
Qed.

Lemma remove_one_perm k l : In k l -> Permutation (k :: remove_one k l) l.
Proof.
  induction l as [|x t IH]; simpl; [tauto|]. intros Hin. destruct (k =? x) eqn:E.
  - apply Nat.eqb_eq in E. now subst.
  - apply Nat.eqb_neq in E. destruct Hin as [->|Hin]; [congruence|].
    eapply perm_trans; [apply perm_swap|]. apply perm_skip. auto.
Qed.

Lemma remove_one_split k l1 l2 : ~ In k l1 -> remove_one k (l1 ++ k :: l2) = l1 ++ l2.
Proof.
  induction l1 as [|x t IH]; simpl; intros Hn.
  - now rewrite Nat.eqb_refl.
  - destruct (k =? x) eqn:E; [apply Nat.eqb_eq in E; subst; tauto|]. f_equal. apply IH. tauto.
Qed.

Lemma remove_one_srt k l : srt l -> srt (remove_one k l).
Proof.
  unfold srt. induction l as [|x t IH]; simpl; intros S; [constructor|].
  apply StronglySorted_inv in S. destruct S as [S F]. destruct (k =? x) eqn:E; [assumption|].
  destruct (in_dec Nat.eq_dec k t) as [Hin|Hn].
  - constructor; [auto|]. pose proof (remove_one_perm k t Hin) as P.
    assert (F' : Forall (le x) (k :: remove_one k t)) by (eapply Permutation_Forall; [apply Permutation_sym; exact P|assumption]).
    now apply Forall_cons_iff in F'.
  - assert (remove_one k t = t) as ->; [|constructor; assumption].
    clear -Hn. induction t as [|y u IHu]; simpl; [reflexivity|].
    destruct (k =? y) eqn:E; [apply Nat.eqb_eq in E; subst; simpl in Hn; tauto|]. f_equal. apply IHu. simpl in Hn. tauto.
Qed.

(** ------------------------------------------------------------------------------------------ splay *)
Theorem splay_inorder k t : inorder (splay k t) = inorder t.
Proof.
  unfold splay. pose proof (splay_loop_spec k t [] []) as H. unfold loop_post in H.
  destruct (splay_loop k t [] []) as [[t' L'] R']. destruct H as (Hin & Hne & _).
  simpl in Hin. rewrite app_nil_r in Hin. destruct t' as [|tl x tr].
  - destruct t; [reflexivity|]. exfalso. apply Hne; [discriminate|reflexivity].
  - rewrite <- Hin. cbn [inorder]. rewrite inorder_asmL, inorder_asmR. lnorm. reflexivity.
Qed.

Lemma splay_nonempty k t : t <> E -> splay k t <> E.
Proof.
  intros Hne He. pose proof (splay_inorder k t) as H. rewrite He in H. destruct t; [auto|].
  simpl in H. destruct (inorder t1); discriminate.
Qed.

Lemma splay_bst k t : bst t -> bst (splay k t).
Proof. rewrite !bst_sorted. unfold keys. now rewrite splay_inorder. Qed.

(** the root after splaying a search tree: everything left of it is < k when k < root, everything right of
    it is > k when root < k *)
Theorem splay_root k t l x r :
  bst t -> splay k t = N l x r ->
  (k < key x -> below k (inorder l)) /\ (key x < k -> above k (inorder r)).
Proof.
  unfold splay. pose proof (splay_loop_spec k t [] []) as H. unfold loop_post in H.
  destruct (splay_loop k t [] []) as [[t' L'] R']. destruct H as (_ & _ & Hinv).
  intros Hb Hs. destruct t' as [|tl x' tr]; [discriminate|]. inversion Hs; subst; clear Hs.
  assert (Hn1 : below k (inL [])) by constructor. assert (Hn2 : above k (inR [])) by constructor.
  destruct (Hinv Hb Hn1 Hn2) as (_ & HL & HR & Hl & Hr).
  split; intros Hlt.
  - rewrite (Hl Hlt), inorder_asmL. simpl. now rewrite app_nil_r.
  - rewrite (Hr Hlt), inorder_asmR. simpl. assumption.
Qed.

Lemma is_eq_iff k x : is_eq k x = true <-> key x = k.
Proof.
  unfold is_eq. rewrite andb_true_iff, !negb_true_iff, !cmp_false. lia.
Qed.

(** if k is stored in the search tree, splaying brings a node with key k to the root *)
Theorem splay_finds k t l x r :
  bst t -> splay k t = N l x r -> (In k (keys t) <-> key x = k).
Proof.
  intros Hb Hs. destruct (splay_root k t l x r Hb Hs) as [Hl Hr].
  pose proof (splay_bst k t Hb) as Hb'. rewrite Hs in Hb'. cbn [bst] in Hb'. destruct Hb' as (_ & _ & Fl & Fr).
  unfold keys. rewrite <- (splay_inorder k t), Hs. cbn [inorder]. rewrite map_app, in_app_iff. simpl.
  unfold below, above in *. rewrite Forall_forall in *. split.
  - intros [Hin | [Hx | Hin]]; [|assumption|]; apply in_map_iff in Hin; destruct Hin as (y & Hy & Hin).
    + specialize (Fl _ Hin). destruct (Nat.lt_ge_cases k (key x)) as [Hlt|Hge]; [|lia].
      specialize (Hl Hlt _ Hin). lia.
    + specialize (Fr _ Hin). destruct (Nat.lt_ge_cases (key x) k) as [Hlt|Hge]; [|lia].
      specialize (Hr Hlt _ Hin). lia.
  - auto.
Qed.

(** the returned root is a neighbour of k: no stored key lies strictly between k and the root key *)
Theorem splay_neighbour k t l x r :
  bst t -> splay k t = N l x r ->
  forall y, In y (keys t) -> ~ (k <= y < key x) /\ ~ (key x < y <= k).
Proof.
  intros Hb Hs y. destruct (splay_root k t l x r Hb Hs) as [Hl Hr].
  pose proof (splay_bst k t Hb) as Hb'. rewrite Hs in Hb'. cbn [bst] in Hb'. destruct Hb' as (_ & _ & Fl & Fr).
  unfold keys. rewrite <- (splay_inorder k t), Hs. cbn [inorder]. rewrite map_app, in_app_iff. simpl.
  unfold below, above in *. rewrite Forall_forall in *.
  intros [Hin | [Hx | Hin]]; [|lia|]; apply in_map_iff in Hin; destruct Hin as (z & Hz & Hin); subst y.
  - specialize (Fl _ Hin). split; [|lia]. intros [H1 H2]. assert (Hlt : k < key x) by lia. specialize (Hl Hlt _ Hin). lia.
  - specialize (Fr _ Hin). split; [lia|]. intros [H1 H2]. assert (Hlt : key x < k) by lia. specialize (Hr Hlt _ Hin). lia.
Qed.

(** splay_insert on a splayed search tree: the new node lands between two halves of the in-order sequence *)
Lemma splay_insert_spec nn l x r :
  bst (N l x r) ->
  (key nn < key x -> below (key nn) (inorder l)) -> (key x < key nn -> above (key nn) (inorder r)) ->
  exists l1 l2, inorder (N l x r) = l1 ++ l2 /\ inorder (splay_insert nn (N l x r)) = l1 ++ nn :: l2 /\
                bst (splay_insert nn (N l x r)).
Proof.
  intros Hb Hl Hr. cbn [bst] in Hb. destruct Hb as (Hbl & Hbr & Fl & Fr). unfold splay_insert.
  destruct (cmp (key nn) (key x)) eqn:Ec.
  - apply cmp_true in Ec. exists (inorder l), (x :: inorder r). split_all; try reflexivity.
    specialize (Hl Ec). unfold below in Hl. cbn [bst inorder app]. fa_norm. split_all; auto; try fa; try lia.
  - apply cmp_false in Ec. exists (inorder l ++ [x]), (inorder r). split_all.
    + lnorm. reflexivity.
    + lnorm. reflexivity.
    + cbn [bst inorder app]. fa_norm. split_all; auto; try fa; try lia.
      destruct (Nat.eq_dec (key x) (key nn)) as [He|Hne].
      * rewrite <- He. assumption.
      * assert (Hlt : key x < key nn) by lia. specialize (Hr Hlt). unfold above in Hr. fa.
Qed.

Lemma rot_max_spec : forall r l x, exists a y, rot_max l x r = N a y E /\ inorder a ++ [y] = inorder l ++ x :: inorder r.
Proof.
  induction r as [|rl _ y rr IH]; intros l x; simpl.
  - exists l, x. auto.
  - destruct (IH (N l x rl) y) as (a & z & He & Hi). exists a, z. split; [assumption|].
    rewrite Hi. lnorm. reflexivity.
Qed.

(** splay_erase: the unlinked node has key k and is cut out of the in-order sequence; nothing else changes *)
Theorem splay_erase_spec k t :
  bst t ->
  match splay_erase k t with
  | (None, t') => ~ In k (keys t) /\ inorder t' = inorder t
  | (Some x, t') => key x = k /\ exists l1 l2, inorder t = l1 ++ x :: l2 /\ inorder t' = l1 ++ l2
  end.
Proof.
  intros Hb. unfold splay_erase. destruct t as [|t1 n t2]; [simpl; auto|].
  set (t := N t1 n t2) in *. pose proof (splay_inorder k t) as Hin.
  destruct (splay k t) as [|l x r] eqn:Hs; [exfalso; eapply splay_nonempty; [|exact Hs]; discriminate|].
  pose proof (splay_finds k t l x r Hb Hs) as Hf. fold (is_eq k x).
  destruct (is_eq k x) eqn:He.
  - apply is_eq_iff in He.
    destruct l as [|ll lx lr].
    + split; [assumption|]. exists [], (inorder r). rewrite <- Hin. auto.
    + set (l := N ll lx lr) in *. pose proof (splay_inorder k l) as Hil.
      destruct (splay k l) as [|a y b] eqn:Hsl; [exfalso; eapply splay_nonempty; [|exact Hsl]; discriminate|].
      destruct (rot_max_spec b a y) as (a' & y' & Hrm & Hri). rewrite Hrm.
      split; [assumption|]. exists (inorder l), (inorder r). rewrite <- Hin. split; [reflexivity|].
      cbn [inorder]. rewrite <- Hil. cbn [inorder]. rewrite <- Hri. lnorm. reflexivity.
  - split; [|assumption]. intros Hk. apply Hf in Hk. apply is_eq_iff in Hk. congruence.
Qed.
