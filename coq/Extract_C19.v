From TLXV Require Import C19.Bytes C19.Codec C19.Split C19.Helpers.
Require Extraction. Require ExtrOcamlBasic.
Extraction Language OCaml.
Extraction "../ocaml/gen/C19_model.ml"
  Codec.base64_encode Codec.base64_decode Codec.rfc4648_base64
  Codec.hexdump Codec.hexdump_lc Codec.parse_hexdump Codec.rfc4648_base16 Codec.rfc_base16_alphabet Codec.lc_base16_alphabet
  Split.npos Split.split_char Split.split_str Split.split_char_min Split.split_str_min Split.join Split.join_char Split.cleanb
  Split.join_quoted Split.split_quoted
  Split.replace_first Split.replace_first_char Split.replace_all Split.replace_all_char
  Helpers.to_lower Helpers.to_upper Helpers.compare_icase Helpers.strcmp_sign Helpers.equal_icase Helpers.less_icase
  Helpers.starts_with Helpers.starts_with_icase Helpers.ends_with Helpers.ends_with_icase Helpers.contains Helpers.contains_char
  Helpers.trim_inplace Helpers.trim_copy Helpers.trim_left Helpers.trim_right Helpers.trim_spec Helpers.trim_left_spec Helpers.trim_right_spec
  Helpers.erase_all Helpers.erase_all_inplace Helpers.pad Helpers.levenshtein Helpers.levenshtein_icase Helpers.lev_spec Helpers.icase_eq.
