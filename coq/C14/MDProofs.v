(** C14 — chunking independence of the buffering machine of MD.v, proved once for every block geometry,
    compression function and length encoding:
      for every list of process() arguments, constructor; process(c1); ...; process(ck); finalize
      returns H_spec (c1 ++ ... ++ ck), never runs out of fuel, and does not depend on the uninitialised buf_. *)
From Coq Require Import NArith List Lia Arith.
From TLXV Require Import C14.Words C14.MD.
Import ListNotations.

(* ------------------------------------------------------------------------------------------ word facts *)
Lemma wrap_mod : forall w x, wrap w x = (x mod 2 ^ w)%N.
Proof. intros. unfold wrap. apply N.land_ones. Qed.

Lemma wrap_add_l : forall w a b, wrap w (wrap w a + b) = wrap w (a + b).
Proof.
  intros. rewrite !wrap_mod. apply N.add_mod_idemp_l. apply N.pow_nonzero. discriminate.
Qed.

Lemma wrap_small : forall w x, (x < 2 ^ w)%N -> wrap w x = x.
Proof. intros. rewrite wrap_mod. apply N.mod_small. assumption. Qed.

(* ------------------------------------------------------------------------------------------ list facts *)
Lemma blit_app : forall (a c d : list N) pos,
  length a = pos -> blit (a ++ c) pos d = a ++ d ++ skipn (length d) c.
Proof.
  intros a c d pos Hp. unfold blit. subst pos.
  rewrite firstn_app, firstn_all, Nat.sub_diag, firstn_O, app_nil_r.
  rewrite skipn_app, skipn_all2 by lia.
  replace (length a + length d - length a) with (length d) by lia. reflexivity.
Qed.

Lemma zero_fill_app : forall (a c : list N) from to,
  length a = from -> zero_fill (a ++ c) from to = a ++ repeat 0%N (to - from) ++ skipn (to - from) c.
Proof.
  intros. unfold zero_fill. rewrite blit_app by assumption. rewrite repeat_length. reflexivity.
Qed.

Lemma chunk_concat : forall B (bs : list (list N)) k t,
  Forall (fun b => length b = B) bs ->
  chunk B (length bs + k) (concat bs ++ t) = bs ++ chunk B k t.
Proof.
  intros B bs k t HF. induction HF as [|b bs Hb HF IH]; cbn [length concat app Nat.add chunk].
  - reflexivity.
  - rewrite <- app_assoc.
    rewrite firstn_app, firstn_all2 by lia. rewrite Hb, Nat.sub_diag, firstn_O, app_nil_r.
    rewrite skipn_app, skipn_all2 by lia. rewrite Hb, Nat.sub_diag. cbn [skipn app].
    rewrite IH. reflexivity.
Qed.

Lemma concat_length_blocks : forall B (bs : list (list N)),
  Forall (fun b => length b = B) bs -> length (concat bs) = B * length bs.
Proof.
  intros B bs HF. induction HF as [|b bs Hb HF IH]; cbn [concat length].
  - lia.
  - rewrite app_length, IH, Hb. lia.
Qed.

Lemma fold_left_snoc : forall (A X : Type) (f : A -> X -> A) l x a,
  fold_left f (l ++ [x]) a = f (fold_left f l a) x.
Proof. intros. rewrite fold_left_app. reflexivity. Qed.

Section Proofs.
  Variable H : Type.
  Variables (B P L : nat).
  Variable compress : H -> list N -> H.
  Variable enc_len : N -> list N.
  Variable iv : H.
  Variable out : H -> list N.
  Variable spec_field : N -> list N.

  (** [ok n]: the bit lengths n for which the standard's length field is what the code stores, namely the 64-bit length_
      (= n mod 2^64) behind L - P zero bytes.  MD5 (RFC 1321: "the low-order 64 bits"): every n.  SHA-1 / SHA-256: n < 2^64,
      the standard's own limit.  SHA-512: n < 2^64 (the standard allows 2^128; sha512.cpp documents the restriction). *)
  Variable ok : N -> Prop.

  (** side conditions on the geometry and the encoders (discharged per instance in HashProofs.v) *)
  Hypothesis HBL : B = L + 8.
  Hypothesis HPL : P <= L.
  Hypothesis HP0 : 0 < P.
  Hypothesis Henc : forall n, length (enc_len n) = 8.
  Hypothesis Hfield : forall n, ok n -> spec_field n = repeat 0%N (L - P) ++ enc_len (wrap 64 n).

  Notation state := (state H).
  Notation process_loop := (process_loop H B compress).
  Notation process := (process H B compress).
  Notation finalize := (finalize H B P L compress enc_len out).
  Notation run := (run H B compress iv).
  Notation H_spec := (H_spec H B P compress iv out spec_field).

  (** The buffering invariant: the bytes seen so far are [concat bs ++ rem] where [bs] are the blocks already
      compressed, [rem] (shorter than a block) is what buf_[0..curlen_) holds, length_ counts the bits of [bs]. *)
  Definition Inv (st : state) (bs : list (list N)) (rem : list N) : Prop :=
    Forall (fun b => length b = B) bs /\
    st_h st = fold_left compress bs iv /\
    firstn (st_cur st) (st_buf st) = rem /\
    st_cur st = length rem /\
    st_cur st < B /\
    length (st_buf st) = B /\
    st_len st = wrap 64 (N.of_nat (8 * B * length bs)).

  Lemma init_inv : forall junk, length junk = B -> Inv (init H iv junk) [] [].
  Proof.
    intros junk Hj. unfold Inv, init. cbn [st_h st_buf st_cur st_len length fold_left firstn].
    repeat split; try reflexivity; try assumption; try lia. constructor.
    rewrite Nat.mul_0_r. reflexivity.
  Qed.

  Lemma len_step : forall k, wrap 64 (wrap 64 (N.of_nat (8 * B * k)) + N.of_nat (8 * B)) = wrap 64 (N.of_nat (8 * B * (k + 1))).
  Proof.
    intros. rewrite wrap_add_l, <- Nat2N.inj_add. do 2 f_equal. lia.
  Qed.

  Lemma process_loop_inv : forall fuel st inp size bs rem,
    Inv st bs rem -> size = length inp -> size <= fuel ->
    exists st' bs' rem',
      process_loop fuel st inp size = Some st' /\ Inv st' bs' rem' /\
      concat bs' ++ rem' = concat bs ++ rem ++ inp.
  Proof.
    induction fuel as [|fuel IH]; intros st inp size bs rem HI Hs Hf.
    - assert (size = 0) by lia. subst size. destruct inp; [|discriminate].
      exists st, bs, rem. cbn. rewrite app_nil_r. auto.
    - destruct size as [|sz] eqn:Esz.
      + destruct inp; [|discriminate]. exists st, bs, rem. cbn. rewrite app_nil_r. auto.
      + rewrite <- Esz in *. assert (Hpos : 0 < size) by lia. clear Esz.
        destruct HI as (HF & Hh & Hbuf & Hcur & HcB & Hlb & Hlen).
        cbn [MD.process_loop]. destruct size as [|sz']; [lia|]. set (size := S sz') in *.
        destruct (andb (Nat.eqb (st_cur st) 0) (Nat.leb B size)) eqn:Etest.
        * (* whole block straight from the input *)
          apply andb_prop in Etest. destruct Etest as [E0 EB].
          apply Nat.eqb_eq in E0. apply Nat.leb_le in EB.
          assert (Hrem : rem = []) by (destruct rem; [reflexivity|cbn in Hcur; lia]). rewrite Hrem in *. clear Hrem.
          edestruct (IH (mk (compress (st_h st) (firstn B inp)) (st_buf st) (st_cur st)
                            (wrap 64 (st_len st + N.of_nat (B * 8))))
                        (skipn B inp) (size - B) (bs ++ [firstn B inp]) [])
            as (st' & bs' & rem' & Hrun & HI' & Hcat).
          { unfold Inv. cbn [st_h st_buf st_cur st_len].
            repeat split; try assumption.
            - apply Forall_app. split; [assumption|]. constructor; [|constructor].
              rewrite firstn_length. lia.
            - rewrite fold_left_snoc, Hh. reflexivity.
            - rewrite Hlen, app_length. cbn [length]. replace (B * 8) with (8 * B) by lia. apply len_step. }
          { rewrite skipn_length. lia. }
          { lia. }
          exists st', bs', rem'. split; [exact Hrun|]. split; [exact HI'|].
          rewrite Hcat, concat_app. cbn [concat app]. rewrite app_nil_r, <- app_assoc.
          cbn [app]. rewrite firstn_skipn. reflexivity.
        * (* fill the buffer, flush when full *)
          assert (Hn : 1 <= Nat.min size (B - st_cur st) /\ Nat.min size (B - st_cur st) <= size /\
                       st_cur st + Nat.min size (B - st_cur st) <= B) by lia.
          set (n := Nat.min size (B - st_cur st)) in *.
          assert (Hfl : length (firstn n inp) = n) by (rewrite firstn_length; lia).
          assert (Hbufsplit : st_buf st = rem ++ skipn (st_cur st) (st_buf st))
            by (rewrite <- Hbuf; symmetry; apply firstn_skipn).
          assert (Hblit : blit (st_buf st) (st_cur st) (firstn n inp) =
                          (rem ++ firstn n inp) ++ skipn n (skipn (st_cur st) (st_buf st))).
          { rewrite Hbufsplit at 1. rewrite blit_app by (symmetry; exact Hcur). rewrite Hfl, app_assoc. reflexivity. }
          destruct (Nat.eqb (st_cur st + n) B) eqn:Efull.
          -- apply Nat.eqb_eq in Efull.
             assert (Hfullbuf : blit (st_buf st) (st_cur st) (firstn n inp) = rem ++ firstn n inp).
             { rewrite Hblit. rewrite skipn_all2; [apply app_nil_r|]. rewrite skipn_length. lia. }
             edestruct (IH (mk (compress (st_h st) (blit (st_buf st) (st_cur st) (firstn n inp)))
                               (blit (st_buf st) (st_cur st) (firstn n inp)) 0
                               (wrap 64 (st_len st + N.of_nat (8 * B))))
                           (skipn n inp) (size - n) (bs ++ [rem ++ firstn n inp]) [])
               as (st' & bs' & rem' & Hrun & HI' & Hcat).
             { unfold Inv. cbn [st_h st_buf st_cur st_len].
               repeat split; try reflexivity.
               - apply Forall_app. split; [assumption|]. constructor; [|constructor].
                 rewrite app_length, Hfl. lia.
               - rewrite fold_left_snoc, Hh, Hfullbuf. reflexivity.
               - lia.
               - rewrite Hfullbuf, app_length, Hfl. lia.
               - rewrite Hlen, app_length. cbn [length]. apply len_step. }
             { rewrite skipn_length. lia. }
             { lia. }
             exists st', bs', rem'. split; [exact Hrun|]. split; [exact HI'|].
             rewrite Hcat, concat_app. cbn [concat app]. rewrite app_nil_r, <- !app_assoc.
             cbn [app]. rewrite firstn_skipn. reflexivity.
          -- apply Nat.eqb_neq in Efull.
             edestruct (IH (mk (st_h st) (blit (st_buf st) (st_cur st) (firstn n inp)) (st_cur st + n) (st_len st))
                           (skipn n inp) (size - n) bs (rem ++ firstn n inp))
               as (st' & bs' & rem' & Hrun & HI' & Hcat).
             { unfold Inv. cbn [st_h st_buf st_cur st_len].
               repeat split; try assumption.
               - rewrite Hblit. rewrite firstn_app, firstn_all2 by (rewrite app_length, Hfl; lia).
                 replace (st_cur st + n - length (rem ++ firstn n inp)) with 0 by (rewrite app_length, Hfl; lia).
                 rewrite firstn_O, app_nil_r. reflexivity.
               - rewrite app_length, Hfl. lia.
               - lia.
               - rewrite Hblit, !app_length, Hfl, !skipn_length. lia. }
             { rewrite skipn_length. lia. }
             { lia. }
             exists st', bs', rem'. split; [exact Hrun|]. split; [exact HI'|].
             rewrite Hcat, <- !app_assoc. rewrite firstn_skipn. reflexivity.
  Qed.

  Lemma process_inv : forall st data bs rem,
    Inv st bs rem ->
    exists st' bs' rem', process st data = Some st' /\ Inv st' bs' rem' /\
                         concat bs' ++ rem' = concat bs ++ rem ++ data.
  Proof. intros. unfold MD.process. eapply process_loop_inv; eauto. Qed.

  Lemma run_from_inv : forall chunks st bs rem,
    Inv st bs rem ->
    exists st' bs' rem',
      fold_left (fun o c => match o with Some s => process s c | None => None end) chunks (Some st) = Some st' /\
      Inv st' bs' rem' /\ concat bs' ++ rem' = concat bs ++ rem ++ concat chunks.
  Proof.
    induction chunks as [|c chunks IH]; intros st bs rem HI.
    - exists st, bs, rem. cbn. rewrite app_nil_r. auto.
    - destruct (process_inv st c bs rem HI) as (st1 & bs1 & rem1 & Hp & HI1 & Hc1).
      destruct (IH st1 bs1 rem1 HI1) as (st' & bs' & rem' & Hr & HI' & Hc).
      exists st', bs', rem'. cbn [fold_left concat]. rewrite Hp. split; [exact Hr|]. split; [exact HI'|].
      rewrite Hc, app_assoc, Hc1, <- !app_assoc. reflexivity.
  Qed.

  (** padding arithmetic *)
  Lemma mod_blocks : forall k r, r < B -> (B * k + r) mod B = r.
  Proof.
    intros. rewrite Nat.add_comm, Nat.mul_comm, Nat.mod_add by lia. apply Nat.mod_small. assumption.
  Qed.

  Lemma pad_zeros_short : forall k r, r < B -> S r <= P ->
    pad_zeros B P (B * k + r) = P - 1 - r.
  Proof.
    intros. unfold pad_zeros. rewrite mod_blocks by assumption.
    replace (P + B - 1 - r) with ((P - 1 - r) + 1 * B) by lia.
    rewrite Nat.mod_add by lia. apply Nat.mod_small. lia.
  Qed.

  Lemma pad_zeros_long : forall k r, r < B -> P < S r ->
    pad_zeros B P (B * k + r) = P + B - 1 - r.
  Proof.
    intros. unfold pad_zeros. rewrite mod_blocks by assumption. apply Nat.mod_small. lia.
  Qed.

  Lemma div_blocks : forall k j, (B * k + j * B) / B = k + j.
  Proof.
    intros. replace (B * k + j * B) with ((k + j) * B) by lia. apply Nat.div_mul. lia.
  Qed.

  Lemma finalize_spec : forall st bs rem,
    Inv st bs rem ->
    ok (8 * N.of_nat (length (concat bs ++ rem))) ->
    finalize st = H_spec (concat bs ++ rem).
  Proof.
    intros st bs rem (HF & Hh & Hbuf & Hcur & HcB & Hlb & Hlen) Hbits.
    set (r := length rem) in *.
    assert (Hmsglen : length (concat bs ++ rem) = B * length bs + r)
      by (rewrite app_length, (concat_length_blocks B) by assumption; reflexivity).
    (* the stored length *)
    assert (Hl : wrap 64 (st_len st + N.of_nat (st_cur st * 8)) = wrap 64 (8 * N.of_nat (length (concat bs ++ rem)))%N).
    { rewrite Hlen, wrap_add_l, <- Nat2N.inj_add.
      replace (8 * B * length bs + st_cur st * 8) with (8 * (B * length bs + r)) by lia.
      rewrite Nat2N.inj_mul, <- Hmsglen. reflexivity. }
    set (len := (8 * N.of_nat (length (concat bs ++ rem)))%N) in *.
    (* buf_ = rem ++ rest *)
    set (rest := skipn (st_cur st) (st_buf st)).
    assert (Hbufsplit : st_buf st = rem ++ rest) by (rewrite <- Hbuf; symmetry; apply firstn_skipn).
    assert (Hrest : length rest = B - r) by (unfold rest; rewrite skipn_length; lia).
    assert (Hbuf1 : blit (st_buf st) (st_cur st) [128%N] = (rem ++ [128%N]) ++ skipn 1 rest).
    { rewrite Hbufsplit. rewrite blit_app by (symmetry; exact Hcur). cbn [length]. rewrite <- app_assoc. reflexivity. }
    assert (Hp1 : length (rem ++ [128%N]) = S (st_cur st)) by (rewrite app_length; cbn [length]; lia).
    unfold MD.finalize, MD.H_spec, MD.pad. rewrite Hl, Hbuf1.
    fold len. rewrite (Hfield len Hbits). rewrite Hmsglen.
    destruct (Nat.ltb P (S (st_cur st))) eqn:Ecase.
    - (* two final blocks *)
      apply Nat.ltb_lt in Ecase.
      rewrite pad_zeros_long by lia.
      rewrite (zero_fill_app (rem ++ [128%N]) (skipn 1 rest) (S (st_cur st)) B Hp1).
      set (T1 := (rem ++ [128%N]) ++ repeat 0%N (B - S (st_cur st)) ++ skipn (B - S (st_cur st)) (skipn 1 rest)).
      assert (HT1 : T1 = (rem ++ [128%N]) ++ repeat 0%N (B - S (st_cur st))).
      { unfold T1. rewrite (skipn_all2 (skipn 1 rest)) by (rewrite skipn_length; lia). rewrite app_nil_r. reflexivity. }
      assert (HT1len : length T1 = B) by (rewrite HT1, app_length, repeat_length, Hp1; lia).
      (* second block *)
      assert (HT2 : blit (zero_fill T1 0 L) L (enc_len (wrap 64 len)) = repeat 0%N L ++ enc_len (wrap 64 len)).
      { change T1 with ([] ++ T1) at 1. rewrite zero_fill_app by reflexivity. cbn [app]. rewrite Nat.sub_0_r.
        rewrite blit_app by (apply repeat_length). rewrite Henc.
        rewrite skipn_all2 by (rewrite skipn_length; lia). rewrite app_nil_r. reflexivity. }
      rewrite HT2.
      (* the specification side *)
      assert (Hpad : (concat bs ++ rem) ++ 128%N :: repeat 0%N (P + B - 1 - r) ++ repeat 0%N (L - P) ++ enc_len (wrap 64 len)
                     = concat bs ++ T1 ++ (repeat 0%N L ++ enc_len (wrap 64 len)) ++ []).
      { rewrite HT1, app_nil_r, <- !app_assoc. cbn [app]. do 3 f_equal.
        rewrite !app_assoc, <- !repeat_app. do 2 f_equal. lia. }
      rewrite Hpad.
      assert (Hplen : length (concat bs ++ T1 ++ (repeat 0%N L ++ enc_len (wrap 64 len)) ++ []) = B * length bs + 2 * B).
      { rewrite !app_length, (concat_length_blocks B) by assumption.
        rewrite HT1len, repeat_length, Henc. cbn [length]. lia. }
      rewrite Hplen, div_blocks, chunk_concat by assumption.
      cbn [chunk]. rewrite fold_left_app. cbn [fold_left].
      rewrite firstn_app, firstn_all2 by lia. rewrite HT1len, Nat.sub_diag, firstn_O, app_nil_r.
      rewrite skipn_app, skipn_all2 by lia. rewrite HT1len, Nat.sub_diag. cbn [skipn app].
      rewrite firstn_app, firstn_all2 by (rewrite app_length, repeat_length, Henc; lia).
      rewrite app_length, repeat_length, Henc.
      replace (B - (L + 8)) with 0 by lia. rewrite firstn_O, app_nil_r.
      rewrite Hh. reflexivity.
    - (* one final block *)
      apply Nat.ltb_ge in Ecase.
      rewrite pad_zeros_short by lia.
      rewrite (zero_fill_app (rem ++ [128%N]) (skipn 1 rest) (S (st_cur st)) L Hp1).
      rewrite app_assoc.
      rewrite blit_app by (rewrite app_length, repeat_length, Hp1; lia).
      rewrite Henc. rewrite (skipn_all2 (skipn (L - S (st_cur st)) (skipn 1 rest))) by (rewrite !skipn_length; lia).
      rewrite app_nil_r.
      set (T := ((rem ++ [128%N]) ++ repeat 0%N (L - S (st_cur st))) ++ enc_len (wrap 64 len)).
      assert (HTlen : length T = B).
      { unfold T. rewrite !app_length, repeat_length, Henc. cbn [length]. lia. }
      assert (Hpad : (concat bs ++ rem) ++ 128%N :: repeat 0%N (P - 1 - r) ++ repeat 0%N (L - P) ++ enc_len (wrap 64 len)
                     = concat bs ++ T ++ []).
      { unfold T. rewrite app_nil_r, <- !app_assoc. cbn [app]. do 3 f_equal.
        rewrite app_assoc, <- repeat_app. do 2 f_equal. lia. }
      rewrite Hpad.
      assert (Hplen : length (concat bs ++ T ++ []) = B * length bs + 1 * B).
      { rewrite !app_length, (concat_length_blocks B) by assumption. rewrite HTlen. cbn [length]. lia. }
      rewrite Hplen, div_blocks, chunk_concat by assumption.
      cbn [chunk]. rewrite fold_left_app. cbn [fold_left].
      rewrite app_nil_r, firstn_all2 by lia.
      rewrite Hh. reflexivity.
  Qed.

  (** Main theorem (generic): every chunking of every message whose bit length is in the domain [ok] yields the standard's digest. *)
  Theorem chunking_independent_generic : forall junk chunks,
    length junk = B ->
    ok (8 * N.of_nat (length (concat chunks))) ->
    exists st, run junk chunks = Some st /\ finalize st = H_spec (concat chunks).
  Proof.
    intros junk chunks Hj Hbits.
    destruct (run_from_inv chunks (init H iv junk) [] [] (init_inv junk Hj)) as (st & bs & rem & Hr & HI & Hc).
    exists st. split; [exact Hr|].
    cbn [concat app] in Hc. rewrite <- Hc in *. apply (finalize_spec st bs rem HI Hbits).
  Qed.

  Corollary digest_of_spec : forall junk chunks,
    length junk = B ->
    ok (8 * N.of_nat (length (concat chunks))) ->
    digest_of H B P L compress enc_len iv out junk chunks = Some (H_spec (concat chunks)).
  Proof.
    intros junk chunks Hj Hb. unfold digest_of.
    destruct (chunking_independent_generic junk chunks Hj Hb) as (st & Hr & Hf).
    rewrite Hr, Hf. reflexivity.
  Qed.

  (** shape of the padding (boundary cases as a lemma, not samples): the padded message is a whole number of
      blocks; exactly one more block when the last partial block leaves room for 0x80 and the length field
      (|msg| mod B < P: e.g. up to 55 resp. 111 bytes), exactly two more otherwise (56..63 resp. 112..127). *)
  Lemma pad_shape : forall msg, ok (8 * N.of_nat (length msg)) ->
    length (pad B P spec_field msg) mod B = 0 /\
    (length msg mod B < P -> length (pad B P spec_field msg) = B * (length msg / B) + B) /\
    (P <= length msg mod B -> length (pad B P spec_field msg) = B * (length msg / B) + 2 * B).
  Proof.
    intros msg Hlt.
    unfold pad. rewrite (Hfield _ Hlt). rewrite app_length. cbn [length].
    rewrite !app_length, !repeat_length, Henc.
    set (n := length msg).
    assert (HB0 : B <> 0) by lia.
    pose proof (Nat.div_mod n B HB0) as Hdm. pose proof (Nat.mod_upper_bound n B HB0) as Hub.
    set (q := n / B) in *. set (r := n mod B) in *.
    replace (pad_zeros B P n) with (pad_zeros B P (B * q + r)) by (f_equal; lia).
    destruct (le_lt_dec (S r) P) as [Hs|Hl].
    - rewrite pad_zeros_short by lia.
      replace (n + S (P - 1 - r + (L - P + 8))) with ((q + 1) * B) by lia.
      split; [apply Nat.mod_mul; lia|]. split; intros; lia.
    - rewrite pad_zeros_long by lia.
      replace (n + S (P + B - 1 - r + (L - P + 8))) with ((q + 2) * B) by lia.
      split; [apply Nat.mod_mul; lia|]. split; intros; lia.
  Qed.
End Proofs.
