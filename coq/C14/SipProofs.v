(** C14 — SipHash: siphash_sse2 = siphash_plain (lane bookkeeping; the 32-bit and 16-bit shuffles are swaps and
    rotations of the 64-bit lanes, proved at bit level) and siphash_plain = SipHash-2-4 (block loop = fold over
    the parsed words; the fall-through tail switch = little-endian word of tail ++ zero padding ++ [len mod 256]). *)
From Coq Require Import NArith List Lia Bool Btauto Arith.
From TLXV Require Import C14.Words C14.Sip gen.Tables_C14_gen.
Import ListNotations.
Local Open Scope N_scope.

Definition w64 (x : N) : Prop := x < 2 ^ 64.

Lemma testbit_high : forall x n i, x < 2 ^ n -> n <= i -> N.testbit x i = false.
Proof.
  intros x n i Hx Hi. destruct (N.eq_dec x 0) as [->|Hnz]; [apply N.bits_0|].
  apply N.bits_above_log2. apply N.log2_lt_pow2 in Hx; lia.
Qed.

Lemma lt_pow2_bits : forall x n, (forall i, n <= i -> N.testbit x i = false) -> x < 2 ^ n.
Proof.
  intros x n Hb. destruct (N.eq_dec x 0) as [->|Hnz]; [assert (2 ^ n <> 0) by (apply N.pow_nonzero; discriminate); lia|].
  apply N.log2_lt_pow2; [lia|].
  destruct (N.lt_ge_cases (N.log2 x) n) as [Hlt|Hge]; [exact Hlt|].
  pose proof (N.bit_log2 x Hnz) as Ht. rewrite (Hb _ Hge) in Ht. discriminate.
Qed.

Lemma testbit_shiftl_if : forall a n i, N.testbit (N.shiftl a n) i = if n <=? i then N.testbit a (i - n) else false.
Proof.
  intros. destruct (N.leb_spec n i).
  - apply N.shiftl_spec_high'. assumption.
  - apply N.shiftl_spec_low. assumption.
Qed.

Lemma testbit_ones_ltb : forall n i, N.testbit (N.ones n) i = (i <? n).
Proof.
  intros. destruct (N.ltb_spec i n).
  - apply N.ones_spec_low. assumption.
  - apply N.ones_spec_high. assumption.
Qed.

Ltac bits_rw :=
  repeat (rewrite ?N.lor_spec, ?N.land_spec, ?N.lxor_spec, ?testbit_shiftl_if, ?N.shiftr_spec', ?testbit_ones_ltb, ?N.bits_0).
(* resolve every comparison on the bit index with lia (the range of the index is in the context) *)
Ltac cmp_resolve :=
  repeat match goal with
  | |- context [N.leb ?x ?y] => first [ rewrite (proj2 (N.leb_le x y)) by lia | rewrite (proj2 (N.leb_gt x y)) by lia ]
  | |- context [N.ltb ?x ?y] => first [ rewrite (proj2 (N.ltb_lt x y)) by lia | rewrite (proj2 (N.ltb_ge x y)) by lia ]
  end.
Ltac high_zero :=
  repeat match goal with
  | H : ?a < 2 ^ ?n |- context [N.testbit ?a ?j] => rewrite (testbit_high a n j H) by lia
  | H : w64 ?a |- context [N.testbit ?a ?j] => rewrite (testbit_high a 64 j H) by lia
  end.
Ltac idx_norm :=
  repeat match goal with
  | |- context [N.testbit ?a ?j1] =>
    match goal with
    | |- context [N.testbit a ?j2] => lazymatch j1 with j2 => fail | _ => replace j1 with j2 by lia end
    end
  end.
Ltac bool_simpl := cbn [andb orb xorb negb]; rewrite ?orb_false_r, ?orb_false_l, ?andb_true_r, ?andb_true_l, ?andb_false_r, ?andb_false_l, ?xorb_false_r, ?xorb_false_l.
Ltac finish_bits := cmp_resolve; bool_simpl; high_zero; bool_simpl; idx_norm; try reflexivity; try btauto.

Lemma split32 : forall x, N.lor (N.land x m32) (N.shiftl (N.shiftr x 32) 32) = x.
Proof.
  intros x. unfold m32. apply N.bits_inj. intro i. bits_rw.
  destruct (N.lt_ge_cases i 32); finish_bits.
Qed.

Lemma rol32_swap : forall a, w64 a -> N.lor (N.shiftr a 32) (N.shiftl (N.land a m32) 32) = rol 64 a 32.
Proof.
  intros a Ha. unfold rol, wrap, m32. change (32 mod 64) with 32. change ((64 - 32) mod 64) with 32.
  apply N.bits_inj. intro i. bits_rw.
  destruct (N.lt_ge_cases i 32); [|destruct (N.lt_ge_cases i 64)]; finish_bits.
Qed.

Lemma rol16_words : forall a, w64 a ->
  N.lor (N.lor (N.lor (N.shiftr a 48) (N.shiftl (N.land a m16) 16)) (N.shiftl (N.land (N.shiftr a 16) m16) 32))
        (N.shiftl (N.land (N.shiftr a 32) m16) 48) = rol 64 a 16.
Proof.
  intros a Ha. unfold rol, wrap, m16. change (16 mod 64) with 16. change ((64 - 16) mod 64) with 48.
  apply N.bits_inj. intro i. bits_rw.
  destruct (N.lt_ge_cases i 16); [|destruct (N.lt_ge_cases i 32); [|destruct (N.lt_ge_cases i 48); [|destruct (N.lt_ge_cases i 64)]]];
    finish_bits.
Qed.

Lemma rot_pair_rol : forall a k, w64 a -> 0 < k -> k < 64 ->
  N.lor (shl 64 a k) (shr a (64 - k)) = rol 64 a k.
Proof.
  intros a k Ha Hk0 Hk. unfold rol, shl, shr, wrap.
  rewrite (N.mod_small k 64) by lia. rewrite (N.mod_small (64 - k) 64) by lia.
  apply N.bits_inj. intro i. bits_rw.
  destruct (N.lt_ge_cases i k); [|destruct (N.lt_ge_cases i 64)]; finish_bits.
Qed.

Lemma lo_hi_join : forall x, w64 x ->
  N.lor (N.shiftl (N.land (N.lor (N.shiftr x 32) (N.shiftl (N.land x m32) 32)) m32) 32) (N.land x m32) = x.
Proof.
  intros x Hx. unfold m32. apply N.bits_inj. intro i. bits_rw.
  destruct (N.lt_ge_cases i 32); [|destruct (N.lt_ge_cases i 64)]; finish_bits.
Qed.

(* ------------------------------------------------------------------------------------------- bounds *)
Lemma w64_wrap : forall x, w64 (wrap 64 x).
Proof. intros. unfold w64, wrap. rewrite N.land_ones. apply N.mod_lt. apply N.pow_nonzero. discriminate. Qed.
Lemma w64_rol : forall x n, w64 (rol 64 x n).
Proof. intros. unfold rol. apply w64_wrap. Qed.
Lemma w64_sadd : forall a b, w64 (sadd a b).
Proof. intros. apply w64_wrap. Qed.
Lemma lt_lxor : forall n a b, a < 2 ^ n -> b < 2 ^ n -> N.lxor a b < 2 ^ n.
Proof.
  intros n a b Ha Hb. apply lt_pow2_bits. intros i Hi. rewrite N.lxor_spec.
  rewrite (testbit_high a n i Ha Hi), (testbit_high b n i Hb Hi). reflexivity.
Qed.
Lemma lt_lor : forall n a b, a < 2 ^ n -> b < 2 ^ n -> N.lor a b < 2 ^ n.
Proof.
  intros n a b Ha Hb. apply lt_pow2_bits. intros i Hi. rewrite N.lor_spec.
  rewrite (testbit_high a n i Ha Hi), (testbit_high b n i Hb Hi). reflexivity.
Qed.
Lemma w64_lxor : forall a b, w64 a -> w64 b -> w64 (N.lxor a b).
Proof. intros. apply lt_lxor; assumption. Qed.
Lemma lt_shiftl : forall a n k, a < 2 ^ n -> N.shiftl a k < 2 ^ (n + k).
Proof.
  intros a n k Ha. apply lt_pow2_bits. intros i Hi. rewrite testbit_shiftl_if.
  destruct (N.leb_spec k i); [|reflexivity]. apply (testbit_high a n); [assumption|lia].
Qed.
Lemma lt_pow2_mono : forall a n m, a < 2 ^ n -> n <= m -> a < 2 ^ m.
Proof. intros a n m Ha Hnm. eapply N.lt_le_trans; [exact Ha|]. apply N.pow_le_mono_r; [discriminate|assumption]. Qed.

Lemma load_le_bound : forall l, Forall (fun b => b < 256) l -> load_le l < 2 ^ (8 * N.of_nat (length l)).
Proof.
  induction 1 as [|b l Hb HF IH]; cbn [load_le fold_right length].
  - cbn. lia.
  - fold (load_le l). rewrite Nat2N.inj_succ.
    apply lt_lor.
    + apply (lt_pow2_mono b 8); [exact Hb|lia].
    + replace (8 * N.succ (N.of_nat (length l))) with (8 * N.of_nat (length l) + 8) by lia.
      apply lt_shiftl. exact IH.
Qed.

Lemma load_le_w64 : forall l, Forall (fun b => b < 256) l -> w64 (load_le (firstn 8 l)).
Proof.
  intros l HF. unfold w64.
  assert (HF8 : Forall (fun b => b < 256) (firstn 8 l)).
  { rewrite <- (firstn_skipn 8 l) in HF. apply Forall_app in HF. apply HF. }
  apply (lt_pow2_mono _ _ 64 (load_le_bound _ HF8)).
  assert (length (firstn 8 l) <= 8)%nat by apply firstn_le_length. lia.
Qed.

(* ------------------------------------------------------------------------- intrinsics on 64-bit lanes *)
Lemma shuffle_swap : forall a b, mm_shuffle_epi32 (a, b) (1, 0, 3, 2)%nat = (b, a).
Proof.
  intros. unfold mm_shuffle_epi32, dwords, of_dwords. cbn [nth fst snd]. rewrite !split32. reflexivity.
Qed.

Lemma shuffle_rot32 : forall a b, w64 a -> mm_shuffle_epi32 (a, b) (0, 1, 3, 2)%nat = (b, rol64 a 32).
Proof.
  intros a b Ha. unfold mm_shuffle_epi32, dwords, of_dwords. cbn [nth fst snd].
  rewrite split32, (rol32_swap a Ha). reflexivity.
Qed.

Lemma shufflelo_rot16 : forall a b, w64 a -> mm_shufflelo_epi16 (a, b) (2, 1, 0, 3)%nat = (rol64 a 16, b).
Proof.
  intros a b Ha. unfold mm_shufflelo_epi16, words16. cbn [nth fst snd].
  rewrite (rol16_words a Ha). reflexivity.
Qed.

Lemma rot_pair_ok : forall a b k, w64 a -> w64 b -> 0 < k -> k < 64 ->
  rot_pair (a, b) (k, 64 - k) = (rol64 a k, rol64 b k).
Proof.
  intros. unfold rot_pair, mm_or, mm_slli_epi64, mm_srli_epi64. cbn [fst snd].
  rewrite !rot_pair_rol by assumption. reflexivity.
Qed.

Definition lanes (v : sipst) : vec * vec := let '(v0, v1, v2, v3) := v in ((v0, v2), (v1, v3)).
Definition w64s (v : sipst) : Prop := let '(v0, v1, v2, v3) := v in w64 v0 /\ w64 v1 /\ w64 v2 /\ w64 v3.

Lemma sse_tables : sse_shuffles = [(1, 0, 3, 2); (2, 1, 0, 3); (0, 1, 3, 2); (1, 0, 3, 2); (0, 1, 3, 2)]%nat /\
                   sse_shifts = [(13, 64 - 13); (17, 64 - 17); (21, 64 - 21)] /\
                   sip_rots = [13; 16; 32; 17; 21; 32] /\ sse_final_shuffle = (1, 0, 3, 2)%nat.
Proof. repeat split; reflexivity. Qed.

Lemma sipround_w64 : forall v, w64s (sipround v).
Proof.
  intros [[[v0 v1] v2] v3]. unfold sipround, sipround_r, w64s.
  repeat split; try apply w64_sadd; try apply w64_rol; apply w64_lxor; try apply w64_rol; try apply w64_sadd.
Qed.

Ltac w64_solve :=
  first [ assumption | lia | apply w64_sadd | apply w64_rol | apply w64_wrap | (apply w64_lxor; w64_solve) ].

Lemma sse_round_ok : forall v, w64s v -> sse_round (lanes v) = lanes (sipround v).
Proof.
  intros [[[v0 v1] v2] v3] (H0 & H1 & H2 & H3).
  destruct sse_tables as (Es & Er & Ep & _).
  unfold sse_round, sipround. rewrite Es, Er, Ep.
  unfold sse_round_g, sipround_r, lanes. cbn [nth].
  repeat first
    [ progress (unfold mm_add_epi64, mm_xor, mm_unpacklo_epi64; cbn [fst snd])
    | rewrite shuffle_swap
    | rewrite shufflelo_rot16 by w64_solve
    | rewrite shuffle_rot32 by w64_solve
    | rewrite rot_pair_ok by w64_solve ].
  reflexivity.
Qed.

Lemma sse_absorb_ok : forall v mi, w64s v -> w64 mi ->
  sse_absorb (lanes v) (mi, 0) = lanes (sip_absorb v mi) /\ w64s (sip_absorb v mi).
Proof.
  intros [[[v0 v1] v2] v3] mi (H0 & H1 & H2 & H3) Hm.
  unfold sse_absorb, sip_absorb. cbn [lanes].
  unfold mm_slli_si128_8, mm_xor at 1. cbn [fst snd]. rewrite N.lxor_0_r.
  change ((v0, v2), (v1, N.lxor v3 mi)) with (lanes (v0, v1, v2, N.lxor v3 mi)).
  rewrite sse_round_ok by (repeat split; w64_solve).
  rewrite sse_round_ok by apply sipround_w64.
  pose proof (sipround_w64 (sipround (v0, v1, v2, N.lxor v3 mi))) as Hw.
  destruct (sipround (sipround (v0, v1, v2, N.lxor v3 mi))) as [[[a b] c] d].
  destruct Hw as (Ha & Hb & Hc & Hd).
  cbn [lanes]. unfold mm_xor. cbn [fst snd]. rewrite N.lxor_0_r.
  split; [reflexivity|]. repeat split; w64_solve.
Qed.

Lemma sse_blocks_ok : forall n v m, w64s v -> Forall (fun b => b < 256) m ->
  sse_blocks n (lanes v) m = (lanes (fst (sip_blocks n v m)), snd (sip_blocks n v m)) /\
  w64s (fst (sip_blocks n v m)).
Proof.
  induction n as [|n IH]; intros v m Hv Hm; cbn [sse_blocks sip_blocks fst snd].
  - split; [reflexivity|assumption].
  - unfold mm_loadl_epi64.
    destruct (sse_absorb_ok v (load_le (firstn 8 m)) Hv (load_le_w64 m Hm)) as [E Hw].
    rewrite E. apply IH; [exact Hw|].
    rewrite <- (firstn_skipn 8 m) in Hm. apply Forall_app in Hm. apply Hm.
Qed.

(** the tail word: last7 < 2^64, and the two-dword construction of mi yields (last7, 0) *)
Lemma mi_of_last7 : forall l, w64 l ->
  mm_unpacklo_epi32 (mm_cvtsi32_si128 l) (mm_cvtsi32_si128 (N.shiftr l 32)) = (l, 0).
Proof.
  intros l Hl. unfold mm_unpacklo_epi32, mm_cvtsi32_si128, dwords, of_dwords. cbn [nth fst snd].
  f_equal.
  - unfold m32. apply N.bits_inj. intro i. bits_rw.
    destruct (N.lt_ge_cases i 32); [|destruct (N.lt_ge_cases i 64)]; finish_bits.
  - unfold m32. apply N.bits_inj. intro i. bits_rw.
    destruct (N.lt_ge_cases i 32); finish_bits.
Qed.

Lemma sip_last7_w64 : forall len t, Forall (fun b => b < 256) t -> w64 (sip_last7 len t).
Proof.
  intros len t Ht. unfold sip_last7.
  assert (Hnth : forall i, nth i t 0 < 2 ^ 8).
  { intros i. destruct (Nat.lt_ge_cases i (length t)) as [Hi|Hi].
    - apply (proj1 (Forall_forall _ t) Ht). apply nth_In. exact Hi.
    - rewrite nth_overflow by exact Hi. reflexivity. }
  assert (Hstep : forall rows acc, w64 acc -> Forall (fun row : nat * nat * N => snd row <= 56) rows ->
     w64 (fold_left (fun l (row : nat * nat * N) => let '(label, idx, sh) := row in
            if Nat.leb label (length t) then N.lor l (N.shiftl (nth idx t 0) sh) else l) rows acc)).
  { induction rows as [|[[label idx] sh] rows IH]; intros acc Ha HR; cbn [fold_left]; [exact Ha|].
    inversion HR as [|? ? Hsh HR']; subst. cbn [snd] in Hsh. apply IH; [|exact HR'].
    destruct (Nat.leb label (length t)); [|exact Ha].
    apply lt_lor; [exact Ha|]. apply (lt_pow2_mono _ (8 + sh)); [apply lt_shiftl; apply Hnth|lia]. }
  apply Hstep; [apply w64_wrap|].
  unfold sip_tail_table. repeat constructor; cbn [snd]; lia.
Qed.

Lemma sse_finish_ok : forall v, w64s v ->
  (let '(v02, v13) := sse_round (sse_round (sse_round (sse_round (lanes v)))) in
   let v02 := mm_xor v02 v13 in
   let v02 := mm_xor v02 (mm_shuffle_epi32 v02 sse_final_shuffle) in
   N.lor (N.shiftl (mm_cvtsi128_si32 (mm_srli_si128_4 v02)) 32) (mm_cvtsi128_si32 v02)) =
  (let '(v0, v1, v2, v3) := sipround (sipround (sipround (sipround v))) in N.lxor (N.lxor (N.lxor v0 v1) v2) v3).
Proof.
  intros v Hv.
  rewrite sse_round_ok by exact Hv. rewrite !sse_round_ok by apply sipround_w64.
  pose proof (sipround_w64 (sipround (sipround (sipround v)))) as Hw.
  destruct (sipround (sipround (sipround (sipround v)))) as [[[a b] c] d]. destruct Hw as (Ha & Hb & Hc & Hd).
  destruct sse_tables as (_ & _ & _ & Ef). rewrite Ef.
  cbn [lanes]. cbv zeta. unfold mm_xor. cbn [fst snd]. rewrite shuffle_swap.
  unfold mm_srli_si128_4, mm_cvtsi128_si32. cbn [fst snd].
  rewrite (N.lxor_comm (N.lxor c d) (N.lxor a b)).
  rewrite lo_hi_join by w64_solve.
  rewrite N.lxor_assoc. rewrite <- (N.lxor_assoc b c d). rewrite <- !N.lxor_assoc. reflexivity.
Qed.

Lemma sip_tables : sse_init = [nth 0 sip_init 0; nth 2 sip_init 0; nth 1 sip_init 0; nth 3 sip_init 0] /\
                   sse_final = [0; sip_final] /\ w64 (nth 0 sip_init 0) /\ w64 (nth 1 sip_init 0) /\
                   w64 (nth 2 sip_init 0) /\ w64 (nth 3 sip_init 0) /\ w64 sip_final.
Proof. repeat split; reflexivity. Qed.

(** siphash_sse2 computes the same function as siphash_plain, for every key and message made of bytes *)
Theorem sip_sse2_eq_plain : forall key m,
  Forall (fun b => b < 256) key -> Forall (fun b => b < 256) m ->
  siphash_sse2 key m = siphash_plain key m.
Proof.
  intros key m Hk Hm.
  destruct sip_tables as (Ei & Ef & I0 & I1 & I2 & I3 & IF).
  unfold siphash_sse2, siphash_plain. rewrite Ei, Ef. cbn [nth].
  set (k0 := load_le (firstn 8 key)). set (k1 := load_le (firstn 8 (skipn 8 key))).
  assert (Hk0 : w64 k0) by (apply load_le_w64; exact Hk).
  assert (Hk1 : w64 k1).
  { apply load_le_w64. rewrite <- (firstn_skipn 8 key) in Hk. apply Forall_app in Hk. apply Hk. }
  unfold mm_unpacklo_epi64, mm_unpackhi_epi64, mm_xor at 1 2. cbn [fst snd].
  rewrite (N.lxor_comm (nth 0 sip_init 0) k0), (N.lxor_comm (nth 2 sip_init 0) k0),
          (N.lxor_comm (nth 1 sip_init 0) k1), (N.lxor_comm (nth 3 sip_init 0) k1).
  set (v := (N.lxor k0 (nth 0 sip_init 0), N.lxor k1 (nth 1 sip_init 0),
             N.lxor k0 (nth 2 sip_init 0), N.lxor k1 (nth 3 sip_init 0))).
  change ((N.lxor k0 (nth 0 sip_init 0), N.lxor k0 (nth 2 sip_init 0)),
          (N.lxor k1 (nth 1 sip_init 0), N.lxor k1 (nth 3 sip_init 0))) with (lanes v).
  assert (Hv : w64s v) by (repeat split; w64_solve).
  destruct (sse_blocks_ok (Nat.div (length m) 8) v m Hv Hm) as [Eb Hw].
  rewrite Eb.
  assert (Ht : Forall (fun b => b < 256) (snd (sip_blocks (Nat.div (length m) 8) v m))).
  { clear - Hm. generalize v as u. generalize (Nat.div (length m) 8) as n. intros n. revert m Hm.
    induction n as [|n IH]; intros m Hm u; cbn [sip_blocks snd]; [exact Hm|].
    apply IH. rewrite <- (firstn_skipn 8 m) in Hm. apply Forall_app in Hm. apply Hm. }
  destruct (sip_blocks (Nat.div (length m) 8) v m) as [v' t]. cbn [fst snd] in *.
  pose proof (sip_last7_w64 (N.of_nat (length m)) t Ht) as Hl.
  rewrite (mi_of_last7 _ Hl).
  destruct (sse_absorb_ok v' (sip_last7 (N.of_nat (length m)) t) Hw Hl) as [Ea Hwa].
  rewrite Ea.
  destruct (sip_absorb v' (sip_last7 (N.of_nat (length m)) t)) as [[[a b] c] d]. destruct Hwa as (Ha & Hb & Hc & Hd).
  cbn [lanes]. unfold mm_xor at 1. cbn [fst snd]. rewrite N.lxor_0_r.
  change ((a, N.lxor c sip_final), (b, d)) with (lanes (a, b, N.lxor c sip_final, d)).
  unfold sip_finish.
  apply (sse_finish_ok (a, b, N.lxor c sip_final, d)). repeat split; w64_solve.
Qed.

(* ------------------------------------------------------------------------------ plain = SipHash-2-4 *)
Lemma sipround_is_SipRound : forall v, sipround v = SipRound v.
Proof.
  intros [[[v0 v1] v2] v3]. destruct sse_tables as (_ & _ & Ep & _).
  unfold sipround. rewrite Ep. reflexivity.
Qed.

Local Open Scope nat_scope.

Lemma skipn_skipn' : forall (a b : nat) (l : list N), skipn a (skipn b l) = skipn (b + a) l.
Proof.
  intros a b. induction b as [|b IH]; intros l; [reflexivity|].
  destruct l as [|x l]; cbn [skipn Nat.add]; [destruct a; reflexivity|apply IH].
Qed.

Lemma chunk_snoc : forall sz q (l : list N),
  chunk sz (S q) l = chunk sz q l ++ [firstn sz (skipn (sz * q) l)].
Proof.
  intros sz q. induction q as [|q IH]; intros l.
  - cbn [chunk app]. rewrite Nat.mul_0_r. reflexivity.
  - change (chunk sz (S (S q)) l) with (firstn sz l :: chunk sz (S q) (skipn sz l)).
    rewrite IH. cbn [chunk app]. rewrite skipn_skipn'. replace (sz * S q) with (sz + sz * q) by lia. reflexivity.
Qed.

Lemma chunk_app_full : forall sz q (l z : list N), sz * q <= length l -> chunk sz q (l ++ z) = chunk sz q l.
Proof.
  intros sz q. induction q as [|q IH]; intros l z Hl; cbn [chunk]; [reflexivity|].
  assert (sz <= length l) by lia.
  rewrite firstn_app, skipn_app.
  replace (sz - length l) with 0 by lia. rewrite firstn_O, app_nil_r. cbn [skipn].
  rewrite IH; [reflexivity|]. rewrite skipn_length. lia.
Qed.

Lemma sip_blocks_fold : forall n v m,
  sip_blocks n v m = (fold_left sip_absorb (map load_le (chunk 8 n m)) v, skipn (8 * n) m).
Proof.
  induction n as [|n IH]; intros v m.
  - reflexivity.
  - cbn [sip_blocks chunk map fold_left]. rewrite IH. rewrite skipn_skipn'. replace (8 * S n) with (8 + 8 * n) by lia. reflexivity.
Qed.

(** the fall-through switch packs exactly the little-endian word of (tail ++ zero padding ++ [len mod 256]) *)
Lemma sip_last7_le : forall len t, length t <= 7 ->
  sip_last7 len t = load_le (t ++ repeat 0%N (7 - length t) ++ [N.land len 255]).
Proof.
  intros len t Ht.
  assert (Hl0 : shl 64 (N.land len sip_lenmask) sip_lenshift = N.shiftl (N.land len 255) 56).
  { unfold shl, wrap. change sip_lenmask with 255%N. change sip_lenshift with 56%N.
    assert (Hb : (N.land len 255 < 2 ^ 8)%N).
    { change 255%N with (N.ones 8). rewrite N.land_ones. apply N.mod_lt. discriminate. }
    set (lb := N.land len 255) in *.
    apply N.bits_inj. intro i. bits_rw.
    destruct (N.lt_ge_cases i 56); [|destruct (N.lt_ge_cases i 64)]; cmp_resolve; bool_simpl; try reflexivity.
    rewrite (testbit_high lb 8 (i - 56) Hb) by lia. reflexivity. }
  unfold sip_last7. rewrite Hl0. unfold sip_tail_table.
  destruct t as [|t0 [|t1 [|t2 [|t3 [|t4 [|t5 [|t6 [|t7 t]]]]]]]]; cbn [length] in Ht; try lia;
    cbn [fold_left length Nat.leb nth Nat.sub repeat app load_le fold_right];
    rewrite ?N.shiftl_lor, ?N.shiftl_shiftl, ?N.shiftl_0_l, ?N.shiftl_0_r, ?N.lor_0_r, ?N.lor_0_l;
    cbn [N.add Pos.add Pos.succ Pos.add_carry];
    try reflexivity; apply N.bits_inj; intro i; rewrite ?N.lor_spec; btauto.
Qed.

Lemma sip_words_split : forall m,
  sip_words m = map load_le (chunk 8 (length m / 8) m) ++
                [load_le (skipn (8 * (length m / 8)) m ++ repeat 0%N (7 - length m mod 8) ++ [N.land (N.of_nat (length m)) 255])].
Proof.
  intros m. unfold sip_words.
  pose proof (Nat.div_mod (length m) 8 ltac:(lia)) as Hdm.
  pose proof (Nat.mod_upper_bound (length m) 8 ltac:(lia)) as Hub.
  set (q := length m / 8) in *. set (r := length m mod 8) in *.
  rewrite chunk_snoc, map_app. cbn [map]. f_equal.
  - rewrite chunk_app_full by lia. reflexivity.
  - do 2 f_equal. rewrite skipn_app.
    replace (8 * q - length m) with 0 by lia. cbn [skipn].
    apply firstn_all2. rewrite !app_length, skipn_length, repeat_length. cbn [length]. lia.
Qed.

(** the code's round / absorb / finish are the paper's (same data flow, statements interleaved differently) *)
Lemma spec_step_eq : forall u mi, spec_step u mi = sip_absorb u mi.
Proof.
  intros [[[u0 u1] u2] u3] mi. unfold spec_step, sip_absorb.
  rewrite <- (sipround_is_SipRound (u0, u1, u2, N.lxor u3 mi)).
  rewrite <- (sipround_is_SipRound (sipround (u0, u1, u2, N.lxor u3 mi))). reflexivity.
Qed.

Lemma spec_fold_eq : forall l u, fold_left spec_step l u = fold_left sip_absorb l u.
Proof. induction l as [|x l IH]; intros u; cbn [fold_left]; [reflexivity|]. rewrite spec_step_eq. apply IH. Qed.

Lemma spec_finalize_eq : forall v, spec_finalize v = sip_finish v.
Proof.
  intros [[[a b] c] d]. unfold spec_finalize, sip_finish. change sip_final with 255%N.
  rewrite <- (sipround_is_SipRound (a, b, N.lxor c 255, d)).
  rewrite <- (sipround_is_SipRound (sipround (a, b, N.lxor c 255, d))).
  rewrite <- (sipround_is_SipRound (sipround (sipround (a, b, N.lxor c 255, d)))).
  rewrite <- (sipround_is_SipRound (sipround (sipround (sipround (a, b, N.lxor c 255, d))))). reflexivity.
Qed.

(** siphash_plain is SipHash-2-4 *)
Theorem sip_plain_eq_spec : forall key m, siphash_plain key m = sip_spec key m.
Proof.
  intros key m. unfold siphash_plain, sip_spec.
  change (nth 0 sip_init 0%N) with 0x736f6d6570736575%N. change (nth 1 sip_init 0%N) with 0x646f72616e646f6d%N.
  change (nth 2 sip_init 0%N) with 0x6c7967656e657261%N. change (nth 3 sip_init 0%N) with 0x7465646279746573%N.
  set (v := (N.lxor (load_le (firstn 8 key)) 0x736f6d6570736575%N, N.lxor (load_le (firstn 8 (skipn 8 key))) 0x646f72616e646f6d%N,
             N.lxor (load_le (firstn 8 key)) 0x6c7967656e657261%N, N.lxor (load_le (firstn 8 (skipn 8 key))) 0x7465646279746573%N)).
  rewrite sip_blocks_fold, sip_words_split, fold_left_app. cbn [fold_left]. cbv beta iota.
  rewrite sip_last7_le.
  2:{ rewrite skipn_length. pose proof (Nat.div_mod (length m) 8 ltac:(lia)).
      pose proof (Nat.mod_upper_bound (length m) 8 ltac:(lia)). lia. }
  assert (Hr : 7 - length (skipn (8 * (length m / 8)) m) = 7 - length m mod 8).
  { rewrite skipn_length. pose proof (Nat.div_mod (length m) 8 ltac:(lia)). lia. }
  rewrite Hr. symmetry.
  etransitivity; [apply spec_finalize_eq|]. f_equal.
Qed.

(** both implementations are SipHash-2-4 *)
Corollary sip_sse2_eq_spec : forall key m,
  Forall (fun b => b < 256)%N key -> Forall (fun b => b < 256)%N m -> siphash_sse2 key m = sip_spec key m.
Proof. intros. rewrite sip_sse2_eq_plain by assumption. apply sip_plain_eq_spec. Qed.
