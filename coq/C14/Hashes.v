(** C14 — the four compression functions in the shape of tlx/digest/{md5,sha1,sha256,sha512}.cpp, the four
    instances of the buffering machine of MD.v, hexdump, and the API-level functions
    (digest / digest_hex / digest_hex_uc / xxx_hex / xxx_hex_uc).
    All numeric constants come from gen/Tables_C14_gen.v (re-parsed from /repo on every run). *)
From Coq Require Import NArith List.
From TLXV Require Import C14.Words C14.MD gen.Tables_C14_gen.
Import ListNotations.
Local Open Scope N_scope.

Definition add32 := add 32.
Definition add64 := add 64.
Definition x3 (a b c : N) := N.lxor (N.lxor a b) c.

(* ------------------------------------------------------------------------------------------------ MD5 *)
Definition md5_F x y z := N.lxor z (N.land x (N.lxor y z)).
Definition md5_G x y z := N.lxor y (N.land z (N.lxor y x)).
Definition md5_H x y z := N.lxor (N.lxor x y) z.
Definition md5_I x y z := N.lxor y (N.lor x (lnot 32 z)).

Definition st4 := (N * N * N * N)%type.

(** one loop iteration: FF/GG/HH/II(a,b,c,d, W[Worder[i]], Rorder[i], Korder[i]); t=d,d=c,c=b,b=a,a=t *)
Definition md5_step (f : N -> N -> N -> N) (W : list N) (v : st4) (row : nat * N * N) : st4 :=
  let '(a, b, c, d) := v in
  let '(wo, s, t) := row in
  let a1 := add32 (add32 (add32 a (f b c d)) (nth wo W 0)) t in
  let a2 := add32 (rol 32 a1 s) b in
  (d, a2, b, c).

Definition md5_compress (st : st4) (blk : list N) : st4 :=
  let W := map load_le (chunk 4 16 blk) in
  let rows := combine (combine md5_Worder md5_Rorder) md5_Korder in
  let v := fold_left (md5_step md5_F W) (firstn 16 rows) st in
  let v := fold_left (md5_step md5_G W) (firstn 16 (skipn 16 rows)) v in
  let v := fold_left (md5_step md5_H W) (firstn 16 (skipn 32 rows)) v in
  let v := fold_left (md5_step md5_I W) (firstn 16 (skipn 48 rows)) v in
  let '(s0, s1, s2, s3) := st in
  let '(a, b, c, d) := v in
  (add32 s0 a, add32 s1 b, add32 s2 c, add32 s3 d).

Definition md5_iv : st4 := (nth 0 md5_IV 0, nth 1 md5_IV 0, nth 2 md5_IV 0, nth 3 md5_IV 0).
Definition md5_out (st : st4) : list N :=
  let '(s0, s1, s2, s3) := st in concat (map (store_le 4) [s0; s1; s2; s3]).

(* ------------------------------------------------------------------------------------------------ SHA-1 *)
Definition sha1_F0 x y z := N.lxor z (N.land x (N.lxor y z)).
Definition sha1_F1 x y z := N.lxor (N.lxor x y) z.
Definition sha1_F2 x y z := N.lor (N.land x y) (N.land z (N.lor x y)).
Definition sha1_F3 x y z := N.lxor (N.lxor x y) z.

Definition st5 := (N * N * N * N * N)%type.

(** e = rol(a,5) + F(b,c,d) + e + W[i] + K;  b = rol(b,30);  t=e,e=d,d=c,c=b,b=a,a=t *)
Definition sha1_step (f : N -> N -> N -> N) (k : N) (v : st5) (w : N) : st5 :=
  let '(a, b, c, d, e) := v in
  let e1 := add32 (add32 (add32 (add32 (rol 32 a 5) (f b c d)) e) w) k in
  let b1 := rol 32 b 30 in
  (e1, a, b1, c, d).

(** W[i] = rol32(W[i-3] ^ W[i-8] ^ W[i-14] ^ W[i-16], 1) on the reversed schedule *)
Definition sha1_sched (rw : list N) : N :=
  rol 32 (N.lxor (N.lxor (N.lxor (nth 2 rw 0) (nth 7 rw 0)) (nth 13 rw 0)) (nth 15 rw 0)) 1.

Definition sha1_compress (st : st5) (blk : list N) : st5 :=
  let W16 := map load_be (chunk 4 16 blk) in
  let W := rev (expand 64 sha1_sched (rev W16)) in
  let v := fold_left (sha1_step sha1_F0 (nth 0 sha1_K 0)) (firstn 20 W) st in
  let v := fold_left (sha1_step sha1_F1 (nth 1 sha1_K 0)) (firstn 20 (skipn 20 W)) v in
  let v := fold_left (sha1_step sha1_F2 (nth 2 sha1_K 0)) (firstn 20 (skipn 40 W)) v in
  let v := fold_left (sha1_step sha1_F3 (nth 3 sha1_K 0)) (firstn 20 (skipn 60 W)) v in
  let '(s0, s1, s2, s3, s4) := st in
  let '(a, b, c, d, e) := v in
  (add32 s0 a, add32 s1 b, add32 s2 c, add32 s3 d, add32 s4 e).

Definition sha1_iv : st5 :=
  (nth 0 sha1_IV 0, nth 1 sha1_IV 0, nth 2 sha1_IV 0, nth 3 sha1_IV 0, nth 4 sha1_IV 0).
Definition sha1_out (st : st5) : list N :=
  let '(s0, s1, s2, s3, s4) := st in concat (map (store_be 4) [s0; s1; s2; s3; s4]).

(* ------------------------------------------------------------------------------------------------ SHA-2 *)
Definition st8 := (N * N * N * N * N * N * N * N)%type.

Definition Ch x y z := N.lxor z (N.land x (N.lxor y z)).
Definition Maj x y z := N.lor (N.land (N.lor x y) z) (N.land x y).
(** ror ^ ror ^ ror   and   ror ^ ror ^ Sh   with the amounts of the source *)
Definition sig_rrr (w : N) (r : list N) (x : N) :=
  N.lxor (N.lxor (ror w x (nth 0 r 0)) (ror w x (nth 1 r 0))) (ror w x (nth 2 r 0)).
Definition sig_rrs (w : N) (r : list N) (x : N) :=
  N.lxor (N.lxor (ror w x (nth 0 r 0)) (ror w x (nth 1 r 0))) (shr x (nth 2 r 0)).

(** the RND lambda: returns the new values of its two reference arguments (d, h) *)
Definition RND (w : N) (S0 S1 : list N) (a b c d e f g h k wi : N) : N * N :=
  let t0 := add w (add w (add w (add w h (sig_rrr w S1 e)) (Ch e f g)) k) wi in
  let t1 := add w (sig_rrr w S0 a) (Maj a b c) in
  (add w d t0, add w t0 t1).

(** W[i] = Gamma1(W[i-2]) + W[i-7] + Gamma0(W[i-15]) + W[i-16] *)
Definition sha2_sched (w : N) (G0 G1 : list N) (rw : list N) : N :=
  add w (add w (add w (sig_rrs w G1 (nth 1 rw 0)) (nth 6 rw 0)) (sig_rrs w G0 (nth 14 rw 0))) (nth 15 rw 0).

(** SHA-256: for i < 64 { RND(S[0..7], i); rotate S right by one } *)
Definition sha256_round (v : st8) (kw : N * N) : st8 :=
  let '(s0, s1, s2, s3, s4, s5, s6, s7) := v in
  let '(d', h') := RND 32 sha256_Sigma0 sha256_Sigma1 s0 s1 s2 s3 s4 s5 s6 s7 (fst kw) (snd kw) in
  (h', s0, s1, s2, d', s4, s5, s6).

Definition sha256_compress (st : st8) (blk : list N) : st8 :=
  let W16 := map load_be (chunk 4 16 blk) in
  let W := rev (expand 48 (sha2_sched 32 sha256_Gamma0 sha256_Gamma1) (rev W16)) in
  let v := fold_left sha256_round (combine sha256_K W) st in
  let '(t0, t1, t2, t3, t4, t5, t6, t7) := st in
  let '(s0, s1, s2, s3, s4, s5, s6, s7) := v in
  (add32 t0 s0, add32 t1 s1, add32 t2 s2, add32 t3 s3, add32 t4 s4, add32 t5 s5, add32 t6 s6, add32 t7 s7).

Definition iv8 (l : list N) : st8 :=
  (nth 0 l 0, nth 1 l 0, nth 2 l 0, nth 3 l 0, nth 4 l 0, nth 5 l 0, nth 6 l 0, nth 7 l 0).
Definition sha256_iv := iv8 sha256_IV.
Definition out8 (n : nat) (st : st8) : list N :=
  let '(s0, s1, s2, s3, s4, s5, s6, s7) := st in concat (map (store_be n) [s0; s1; s2; s3; s4; s5; s6; s7]).
Definition sha256_out := out8 4.

(** SHA-512: for (i = 0; i < 80; i += 8) { eight RND calls with the register roles rotated, no data movement } *)
Definition sha512_rnd8 (v : st8) (kws : list (N * N)) : st8 :=
  let R := RND 64 sha512_Sigma0 sha512_Sigma1 in
  let kw i := nth i kws (0, 0) in
  let '(s0, s1, s2, s3, s4, s5, s6, s7) := v in
  let '(s3, s7) := R s0 s1 s2 s3 s4 s5 s6 s7 (fst (kw 0%nat)) (snd (kw 0%nat)) in
  let '(s2, s6) := R s7 s0 s1 s2 s3 s4 s5 s6 (fst (kw 1%nat)) (snd (kw 1%nat)) in
  let '(s1, s5) := R s6 s7 s0 s1 s2 s3 s4 s5 (fst (kw 2%nat)) (snd (kw 2%nat)) in
  let '(s0, s4) := R s5 s6 s7 s0 s1 s2 s3 s4 (fst (kw 3%nat)) (snd (kw 3%nat)) in
  let '(s7, s3) := R s4 s5 s6 s7 s0 s1 s2 s3 (fst (kw 4%nat)) (snd (kw 4%nat)) in
  let '(s6, s2) := R s3 s4 s5 s6 s7 s0 s1 s2 (fst (kw 5%nat)) (snd (kw 5%nat)) in
  let '(s5, s1) := R s2 s3 s4 s5 s6 s7 s0 s1 (fst (kw 6%nat)) (snd (kw 6%nat)) in
  let '(s4, s0) := R s1 s2 s3 s4 s5 s6 s7 s0 (fst (kw 7%nat)) (snd (kw 7%nat)) in
  (s0, s1, s2, s3, s4, s5, s6, s7).

Fixpoint sha512_rounds (n : nat) (v : st8) (kws : list (N * N)) : st8 :=
  match n with
  | O => v
  | S n' => sha512_rounds n' (sha512_rnd8 v (firstn 8 kws)) (skipn 8 kws)
  end.

Definition sha512_compress (st : st8) (blk : list N) : st8 :=
  let W16 := map load_be (chunk 8 16 blk) in
  let W := rev (expand 64 (sha2_sched 64 sha512_Gamma0 sha512_Gamma1) (rev W16)) in
  let v := sha512_rounds 10 st (combine sha512_K W) in
  let '(t0, t1, t2, t3, t4, t5, t6, t7) := st in
  let '(s0, s1, s2, s3, s4, s5, s6, s7) := v in
  (add64 t0 s0, add64 t1 s1, add64 t2 s2, add64 t3 s3, add64 t4 s4, add64 t5 s5, add64 t6 s6, add64 t7 s7).

Definition sha512_iv := iv8 sha512_IV.
Definition sha512_out := out8 8.

(* ------------------------------------------------------------------------------------------- instances *)
(** length field of the standards: 64-bit little-endian (MD5), 64-bit big-endian (SHA-1, SHA-256),
    128-bit big-endian (SHA-512); the code always stores the 64-bit length_. *)
Definition md5_state := state st4.
Definition md5_init := init st4 md5_iv.
Definition md5_process := process st4 md5_B md5_compress.
Definition md5_finalize := finalize st4 md5_B md5_P md5_L md5_compress (store_le 8) md5_out.
Definition md5_digest_of := digest_of st4 md5_B md5_P md5_L md5_compress (store_le 8) md5_iv md5_out.
Definition md5_spec := H_spec st4 md5_B md5_P md5_compress md5_iv md5_out (store_le 8).

Definition sha1_digest_of := digest_of st5 sha1_B sha1_P sha1_L sha1_compress (store_be 8) sha1_iv sha1_out.
Definition sha1_spec := H_spec st5 sha1_B sha1_P sha1_compress sha1_iv sha1_out (store_be 8).

Definition sha256_digest_of := digest_of st8 sha256_B sha256_P sha256_L sha256_compress (store_be 8) sha256_iv sha256_out.
Definition sha256_spec := H_spec st8 sha256_B sha256_P sha256_compress sha256_iv sha256_out (store_be 8).

Definition sha512_digest_of := digest_of st8 sha512_B sha512_P sha512_L sha512_compress (store_be 8) sha512_iv sha512_out.
Definition sha512_spec := H_spec st8 sha512_B sha512_P sha512_compress sha512_iv sha512_out (store_be 16).

(* --------------------------------------------------------------------------------------------- hexdump *)
(** tlx::hexdump / hexdump_lc: out[2i] = xdigits[(b & 0xF0) >> 4], out[2i+1] = xdigits[b & 0x0F] *)
Definition hexdump (digits : list N) (bs : list N) : list N :=
  flat_map (fun b => [nth (N.to_nat (N.shiftr (N.land b 240) 4)) digits 0;
                      nth (N.to_nat (N.land b 15)) digits 0]) bs.

(** API level. [junk] = the uninitialised content of buf_ after construction. A history is the list of
    process() arguments; digest() / digest_hex() / digest_hex_uc() each finalise.
    xxx_hex(data) = XXX(data).digest_hex(),  xxx_hex_uc(data) = XXX(data).digest_hex_uc(). *)
Inductive algo := AMD5 | ASHA1 | ASHA256 | ASHA512.

Definition algo_B (a : algo) : nat :=
  match a with AMD5 => md5_B | ASHA1 => sha1_B | ASHA256 => sha256_B | ASHA512 => sha512_B end.

Definition digest (a : algo) (junk : list N) (chunks : list (list N)) : option (list N) :=
  match a with
  | AMD5 => md5_digest_of junk chunks
  | ASHA1 => sha1_digest_of junk chunks
  | ASHA256 => sha256_digest_of junk chunks
  | ASHA512 => sha512_digest_of junk chunks
  end.
Definition digest_hex a junk chunks := option_map (hexdump hex_lc) (digest a junk chunks).
Definition digest_hex_uc a junk chunks := option_map (hexdump hex_uc) (digest a junk chunks).
Definition helper_hex a junk (msg : list N) := digest_hex a junk [msg].
Definition helper_hex_uc a junk (msg : list N) := digest_hex_uc a junk [msg].

Definition spec (a : algo) (msg : list N) : list N :=
  match a with
  | AMD5 => md5_spec msg
  | ASHA1 => sha1_spec msg
  | ASHA256 => sha256_spec msg
  | ASHA512 => sha512_spec msg
  end.

(** compression functions alone on list-encoded states (for the compress-only correspondence) *)
Definition compress_raw (a : algo) (st : list N) (blk : list N) : list N :=
  match a with
  | AMD5 => let '(a0, a1, a2, a3) := md5_compress (nth 0 st 0, nth 1 st 0, nth 2 st 0, nth 3 st 0) blk in [a0; a1; a2; a3]
  | ASHA1 => let '(a0, a1, a2, a3, a4) := sha1_compress (nth 0 st 0, nth 1 st 0, nth 2 st 0, nth 3 st 0, nth 4 st 0) blk in
             [a0; a1; a2; a3; a4]
  | ASHA256 => let '(a0, a1, a2, a3, a4, a5, a6, a7) := sha256_compress (iv8 st) blk in [a0; a1; a2; a3; a4; a5; a6; a7]
  | ASHA512 => let '(a0, a1, a2, a3, a4, a5, a6, a7) := sha512_compress (iv8 st) blk in [a0; a1; a2; a3; a4; a5; a6; a7]
  end.
