(** C14 — machine words on [N] (binary), byte (de)serialisation, list helpers.
    Model of the C++ unsigned arithmetic: every operation that can leave the word wraps explicitly. *)
From Coq Require Import NArith List.
Import ListNotations.
Local Open Scope N_scope.

(** [wrap w x] = x mod 2^w, written with [land] (linear in the size of x once extracted). *)
Definition wrap (w x : N) : N := N.land x (N.ones w).
Definition add (w a b : N) : N := wrap w (a + b).
Definition shl (w x n : N) : N := wrap w (N.shiftl x n).
Definition shr (x n : N) : N := N.shiftr x n.
Definition lnot (w x : N) : N := N.lxor x (N.ones w).

(** tlx/math/rol.hpp, ror.hpp: (x << (i & (w-1))) | (x >> ((w - (i & (w-1))) & (w-1))); the x86 [rol]/[ror]
    instructions used by the asm variants compute the same function. *)
Definition rol (w x n : N) : N :=
  let k := n mod w in wrap w (N.lor (N.shiftl x k) (N.shiftr x ((w - k) mod w))).
Definition ror (w x n : N) : N :=
  let k := n mod w in wrap w (N.lor (N.shiftr x k) (N.shiftl x ((w - k) mod w))).

(** big-endian / little-endian loads of a byte list *)
Definition load_be (bs : list N) : N := fold_left (fun acc b => N.lor (N.shiftl acc 8) b) bs 0.
Definition load_le (bs : list N) : N := fold_right (fun b acc => N.lor b (N.shiftl acc 8)) 0 bs.

(** storeNN: [for i < n: y[i] = (x >> ((n-1-i)*8)) & 255] resp. [(x >> (i*8)) & 255] *)
Definition store_be (n : nat) (x : N) : list N :=
  map (fun i => N.land (N.shiftr x (8 * N.of_nat (n - 1 - i))) 255) (seq 0 n).
Definition store_le (n : nat) (x : N) : list N :=
  map (fun i => N.land (N.shiftr x (8 * N.of_nat i)) 255) (seq 0 n).

(** [chunk sz n l]: the first n consecutive pieces of size sz of l *)
Fixpoint chunk (sz n : nat) (l : list N) : list (list N) :=
  match n with
  | O => []
  | S n' => firstn sz l :: chunk sz n' (skipn sz l)
  end.

(** [blit buf pos data]: std::copy(data, buf + pos) — overwrite |data| cells starting at pos *)
Definition blit (buf : list N) (pos : nat) (data : list N) : list N :=
  firstn pos buf ++ data ++ skipn (pos + length data) buf.

(** [while (cur < to) buf[cur++] = 0] *)
Definition zero_fill (buf : list N) (from to : nat) : list N :=
  blit buf from (repeat 0 (to - from)).

(** W-schedule expansion on a reversed list (head = most recent word) *)
Fixpoint expand (n : nat) (f : list N -> N) (rw : list N) : list N :=
  match n with
  | O => rw
  | S n' => expand n' f (f rw :: rw)
  end.

Definition is_byte (b : N) : Prop := b < 256.
