(** C14 — validation of the specifications against the standards' published test vectors (closed by vm_compute),
    the same vectors through the model of the code under several chunkings, and satisfiability of the
    hypotheses of the main theorems.  These are Examples, not the theorems (see HashProofs.v / SipProofs.v). *)
From Coq Require Import NArith List String Ascii Lia.
From TLXV Require Import C14.Words C14.MD C14.Hashes C14.Sip C14.HashProofs gen.Tables_C14_gen.
Import ListNotations.
Local Open Scope string_scope.

Definition str (s : string) : list N := map N_of_ascii (list_ascii_of_string s).
Definition hexs (a : algo) (msg : list N) : list N := hexdump hex_lc (spec a msg).
Definition junk (a : algo) : list N := repeat 170%N (algo_B a).

(** RFC 1321, appendix A.5 *)
Example md5_rfc1321_0 : hexs AMD5 (str "") = str "d41d8cd98f00b204e9800998ecf8427e".
Proof. vm_compute. reflexivity. Qed.
Example md5_rfc1321_1 : hexs AMD5 (str "a") = str "0cc175b9c0f1b6a831c399e269772661".
Proof. vm_compute. reflexivity. Qed.
Example md5_rfc1321_2 : hexs AMD5 (str "abc") = str "900150983cd24fb0d6963f7d28e17f72".
Proof. vm_compute. reflexivity. Qed.
Example md5_rfc1321_3 : hexs AMD5 (str "message digest") = str "f96b697d7cb7938d525a2f31aaf161d0".
Proof. vm_compute. reflexivity. Qed.
Example md5_rfc1321_4 : hexs AMD5 (str "abcdefghijklmnopqrstuvwxyz") = str "c3fcd3d76192e4007dfb496cca67e13b".
Proof. vm_compute. reflexivity. Qed.
Example md5_rfc1321_5 : hexs AMD5 (str "ABCDEFGHIJKLMNOPQRSTUVWXYZabcdefghijklmnopqrstuvwxyz0123456789") = str "d174ab98d277d9f5a5611c2c9f419d9f".
Proof. vm_compute. reflexivity. Qed.
Example md5_rfc1321_6 : hexs AMD5 (str "12345678901234567890123456789012345678901234567890123456789012345678901234567890") = str "57edf4a22be3c955ac49da2e2107b67a".
Proof. vm_compute. reflexivity. Qed.
(** FIPS 180 examples: the empty message, "abc", the 448-bit message (SHA-1, SHA-256), the 896-bit message (SHA-512) *)
Example sha1_empty : hexs ASHA1 (str "") = str "da39a3ee5e6b4b0d3255bfef95601890afd80709".
Proof. vm_compute. reflexivity. Qed.
Example sha1_abc : hexs ASHA1 (str "abc") = str "a9993e364706816aba3e25717850c26c9cd0d89d".
Proof. vm_compute. reflexivity. Qed.
Example sha1_448 : hexs ASHA1 (str "abcdbcdecdefdefgefghfghighijhijkijkljklmklmnlmnomnopnopq") = str "84983e441c3bd26ebaae4aa1f95129e5e54670f1".
Proof. vm_compute. reflexivity. Qed.
Example sha1_896 : hexs ASHA1 (str "abcdefghbcdefghicdefghijdefghijkefghijklfghijklmghijklmnhijklmnoijklmnopjklmnopqklmnopqrlmnopqrsmnopqrstnopqrstu") = str "a49b2446a02c645bf419f995b67091253a04a259".
Proof. vm_compute. reflexivity. Qed.
Example sha256_empty : hexs ASHA256 (str "") = str "e3b0c44298fc1c149afbf4c8996fb92427ae41e4649b934ca495991b7852b855".
Proof. vm_compute. reflexivity. Qed.
Example sha256_abc : hexs ASHA256 (str "abc") = str "ba7816bf8f01cfea414140de5dae2223b00361a396177a9cb410ff61f20015ad".
Proof. vm_compute. reflexivity. Qed.
Example sha256_448 : hexs ASHA256 (str "abcdbcdecdefdefgefghfghighijhijkijkljklmklmnlmnomnopnopq") = str "248d6a61d20638b8e5c026930c3e6039a33ce45964ff2167f6ecedd419db06c1".
Proof. vm_compute. reflexivity. Qed.
Example sha256_896 : hexs ASHA256 (str "abcdefghbcdefghicdefghijdefghijkefghijklfghijklmghijklmnhijklmnoijklmnopjklmnopqklmnopqrlmnopqrsmnopqrstnopqrstu") = str "cf5b16a778af8380036ce59e7b0492370b249b11e8f07a51afac45037afee9d1".
Proof. vm_compute. reflexivity. Qed.
Example sha512_empty : hexs ASHA512 (str "") = str "cf83e1357eefb8bdf1542850d66d8007d620e4050b5715dc83f4a921d36ce9ce47d0d13c5d85f2b0ff8318d2877eec2f63b931bd47417a81a538327af927da3e".
Proof. vm_compute. reflexivity. Qed.
Example sha512_abc : hexs ASHA512 (str "abc") = str "ddaf35a193617abacc417349ae20413112e6fa4e89a97ea20a9eeee64b55d39a2192992a274fc1a836ba3c23a3feebbd454d4423643ce80e2a9ac94fa54ca49f".
Proof. vm_compute. reflexivity. Qed.
Example sha512_448 : hexs ASHA512 (str "abcdbcdecdefdefgefghfghighijhijkijkljklmklmnlmnomnopnopq") = str "204a8fc6dda82f0a0ced7beb8e08a41657c16ef468b228a8279be331a703c33596fd15c13b1b07f9aa1d3bea57789ca031ad85c7a71dd70354ec631238ca3445".
Proof. vm_compute. reflexivity. Qed.
Example sha512_896 : hexs ASHA512 (str "abcdefghbcdefghicdefghijdefghijkefghijklfghijklmghijklmnhijklmnoijklmnopjklmnopqklmnopqrlmnopqrsmnopqrstnopqrstu") = str "8e959b75dae313da8cf4f72814fc143f8f7779c6eb9f7fa17299aeadb6889018501d289e4900f7e4331b99dec4b5433ac7d329eeb6dd26545e96e55b874be909".
Proof. vm_compute. reflexivity. Qed.
(** one message longer than two blocks for each algorithm *)
Example md5_long : hexs AMD5 (str "The quick brown fox jumps over the lazy dog. The quick brown fox jumps over the lazy dog. The quick brown fox jumps over the lazy dog. The quick brown fox jumps over the lazy dog. The quick brown fox jumps over the lazy dog. The quick brown fox jumps over the lazy dog. The quick brown fox jumps over the lazy dog. ") = str "04b03ba58b42114be277268065683b7c".
Proof. vm_compute. reflexivity. Qed.
Example sha1_long : hexs ASHA1 (str "The quick brown fox jumps over the lazy dog. The quick brown fox jumps over the lazy dog. The quick brown fox jumps over the lazy dog. The quick brown fox jumps over the lazy dog. The quick brown fox jumps over the lazy dog. The quick brown fox jumps over the lazy dog. The quick brown fox jumps over the lazy dog. ") = str "89af0cf38747bb77cb8fd98365081d70db48cb87".
Proof. vm_compute. reflexivity. Qed.
Example sha256_long : hexs ASHA256 (str "The quick brown fox jumps over the lazy dog. The quick brown fox jumps over the lazy dog. The quick brown fox jumps over the lazy dog. The quick brown fox jumps over the lazy dog. The quick brown fox jumps over the lazy dog. The quick brown fox jumps over the lazy dog. The quick brown fox jumps over the lazy dog. ") = str "dababee8658b645e01725be3eab108b2f506b7220e19ef399a18a11ae9e78e66".
Proof. vm_compute. reflexivity. Qed.
Example sha512_long : hexs ASHA512 (str "The quick brown fox jumps over the lazy dog. The quick brown fox jumps over the lazy dog. The quick brown fox jumps over the lazy dog. The quick brown fox jumps over the lazy dog. The quick brown fox jumps over the lazy dog. The quick brown fox jumps over the lazy dog. The quick brown fox jumps over the lazy dog. ") = str "693b80eeac14efcb80b5071e167983ca93d8a6934f24573964929da52538a9fcdda6d1e1635848ecca6233cff4a6ac955d8451d56224226e7ed8bb7107560198".
Proof. vm_compute. reflexivity. Qed.

(** the same vectors through the model of the code (constructor, process(c) ..., digest_hex / digest_hex_uc),
    split across process() calls at the padding boundary *)
Example md5_model_chunked :
  digest_hex AMD5 (junk AMD5) [str "abcdefghbcdefghicdefghijdefghijkefghijklfghijklmghijklm"; []; str "n"; str "hijklmnoijklmnopjklmnopqklmnopqrlmnopqrsmnopqrstnopqrstu"] = Some (str "03dd8807a93175fb062dfb55dc7d359c") /\
  digest_hex_uc AMD5 (junk AMD5) [str "abcdefghbcdefghicdefghijdefghijkefghijklfghijklmghijklmnhijklmnoijklmnopjklmnopqklmnopqrlmnopqrsmnopqrstnopqrstu"] = Some (str "03DD8807A93175FB062DFB55DC7D359C").
Proof. vm_compute. split; reflexivity. Qed.
Example sha1_model_chunked :
  digest_hex ASHA1 (junk ASHA1) [str "abcdefghbcdefghicdefghijdefghijkefghijklfghijklmghijklm"; []; str "n"; str "hijklmnoijklmnopjklmnopqklmnopqrlmnopqrsmnopqrstnopqrstu"] = Some (str "a49b2446a02c645bf419f995b67091253a04a259") /\
  digest_hex_uc ASHA1 (junk ASHA1) [str "abcdefghbcdefghicdefghijdefghijkefghijklfghijklmghijklmnhijklmnoijklmnopjklmnopqklmnopqrlmnopqrsmnopqrstnopqrstu"] = Some (str "A49B2446A02C645BF419F995B67091253A04A259").
Proof. vm_compute. split; reflexivity. Qed.
Example sha256_model_chunked :
  digest_hex ASHA256 (junk ASHA256) [str "abcdefghbcdefghicdefghijdefghijkefghijklfghijklmghijklm"; []; str "n"; str "hijklmnoijklmnopjklmnopqklmnopqrlmnopqrsmnopqrstnopqrstu"] = Some (str "cf5b16a778af8380036ce59e7b0492370b249b11e8f07a51afac45037afee9d1") /\
  digest_hex_uc ASHA256 (junk ASHA256) [str "abcdefghbcdefghicdefghijdefghijkefghijklfghijklmghijklmnhijklmnoijklmnopjklmnopqklmnopqrlmnopqrsmnopqrstnopqrstu"] = Some (str "CF5B16A778AF8380036CE59E7B0492370B249B11E8F07A51AFAC45037AFEE9D1").
Proof. vm_compute. split; reflexivity. Qed.
Example sha512_model_chunked :
  digest_hex ASHA512 (junk ASHA512) [str "abcdefghbcdefghicdefghijdefghijkefghijklfghijklmghijklm"; []; str "n"; str "hijklmnoijklmnopjklmnopqklmnopqrlmnopqrsmnopqrstnopqrstu"] = Some (str "8e959b75dae313da8cf4f72814fc143f8f7779c6eb9f7fa17299aeadb6889018501d289e4900f7e4331b99dec4b5433ac7d329eeb6dd26545e96e55b874be909") /\
  digest_hex_uc ASHA512 (junk ASHA512) [str "abcdefghbcdefghicdefghijdefghijkefghijklfghijklmghijklmnhijklmnoijklmnopjklmnopqklmnopqrlmnopqrsmnopqrstnopqrstu"] = Some (str "8E959B75DAE313DA8CF4F72814FC143F8F7779C6EB9F7FA17299AEADB6889018501D289E4900F7E4331B99DEC4B5433AC7D329EEB6DD26545E96E55B874BE909").
Proof. vm_compute. split; reflexivity. Qed.

(** SipHash-2-4: the 64 vectors of the reference implementation (key 00..0f, message 00..(n-1), n = 0..63) *)
Local Open Scope N_scope.
Definition sip_key : list N := map N.of_nat (seq 0 16).
Definition sip_msg (n : nat) : list N := map N.of_nat (seq 0 n).
Definition sip_vectors : list N := [
  0x726fdb47dd0e0e31; 0x74f839c593dc67fd; 0x0d6c8009d9a94f5a; 0x85676696d7fb7e2d;
  0xcf2794e0277187b7; 0x18765564cd99a68d; 0xcbc9466e58fee3ce; 0xab0200f58b01d137;
  0x93f5f5799a932462; 0x9e0082df0ba9e4b0; 0x7a5dbbc594ddb9f3; 0xf4b32f46226bada7;
  0x751e8fbc860ee5fb; 0x14ea5627c0843d90; 0xf723ca908e7af2ee; 0xa129ca6149be45e5;
  0x3f2acc7f57c29bdb; 0x699ae9f52cbe4794; 0x4bc1b3f0968dd39c; 0xbb6dc91da77961bd;
  0xbed65cf21aa2ee98; 0xd0f2cbb02e3b67c7; 0x93536795e3a33e88; 0xa80c038ccd5ccec8;
  0xb8ad50c6f649af94; 0xbce192de8a85b8ea; 0x17d835b85bbb15f3; 0x2f2e6163076bcfad;
  0xde4daaaca71dc9a5; 0xa6a2506687956571; 0xad87a3535c49ef28; 0x32d892fad841c342;
  0x7127512f72f27cce; 0xa7f32346f95978e3; 0x12e0b01abb051238; 0x15e034d40fa197ae;
  0x314dffbe0815a3b4; 0x027990f029623981; 0xcadcd4e59ef40c4d; 0x9abfd8766a33735c;
  0x0e3ea96b5304a7d0; 0xad0c42d6fc585992; 0x187306c89bc215a9; 0xd4a60abcf3792b95;
  0xf935451de4f21df2; 0xa9538f0419755787; 0xdb9acddff56ca510; 0xd06c98cd5c0975eb;
  0xe612a3cb9ecba951; 0xc766e62cfcadaf96; 0xee64435a9752fe72; 0xa192d576b245165a;
  0x0a8787bf8ecb74b2; 0x81b3e73d20b49b6f; 0x7fa8220ba3b2ecea; 0x245731c13ca42499;
  0xb78dbfaf3a8d83bd; 0xea1ad565322a1a0b; 0x60e61c23a3795013; 0x6606d7e446282b93;
  0x6ca4ecb15c5f91e1; 0x9f626da15c9625f3; 0xe51b38608ef25f57; 0x958a324ceb064572].
Example sip_spec_vectors : map (fun n => sip_spec sip_key (sip_msg n)) (seq 0 64) = sip_vectors.
Proof. vm_compute. reflexivity. Qed.
Example sip_plain_vectors : map (fun n => siphash_plain sip_key (sip_msg n)) (seq 0 64) = sip_vectors.
Proof. vm_compute. reflexivity. Qed.
Example sip_sse2_vectors : map (fun n => siphash_sse2 sip_key (sip_msg n)) (seq 0 64) = sip_vectors.
Proof. vm_compute. reflexivity. Qed.
(** the value printed in the SipHash paper (appendix A): 15-byte message *)
Example sip_paper_example : sip_spec sip_key (sip_msg 15) = 0xa129ca6149be45e5.
Proof. vm_compute. reflexivity. Qed.

(** table shapes the models rely on (a shorter table would silently shorten a loop) *)
Example table_lengths :
  (List.length md5_Worder, List.length md5_Rorder, List.length md5_Korder, List.length md5_IV, List.length sha1_IV, List.length sha1_K,
   List.length sha256_K, List.length sha256_IV, List.length sha512_K, List.length sha512_IV, List.length hex_lc, List.length hex_uc,
   List.length sip_init, List.length sip_rots, List.length sip_tail_table) = (64, 64, 64, 4, 5, 4, 64, 8, 80, 8, 16, 16, 4, 6, 7)%nat.
Proof. reflexivity. Qed.

(** the hypotheses of the main theorems are satisfiable by non-trivial histories *)
Example chunking_hypotheses_satisfiable :
  exists (jk : list N) (chunks : list (list N)), List.length jk = algo_B ASHA512 /\ bits_ok ASHA512 chunks /\ List.length chunks = 4%nat /\
                    List.length (List.concat chunks) = 300%nat /\ In [] chunks.
Proof.
  exists (junk ASHA512), [repeat 1 111; []; repeat 2 17; repeat 3 172].
  repeat split; try reflexivity. cbn. right. left. reflexivity.
Qed.
Example sip_hypotheses_satisfiable :
  Forall (fun b => b < 256) sip_key /\ Forall (fun b => b < 256) (sip_msg 63) /\ List.length (sip_msg 63) = 63%nat.
Proof. repeat split; try reflexivity; apply Forall_forall; intros x Hx; apply in_map_iff in Hx;
  destruct Hx as (i & <- & Hi); apply in_seq in Hi; lia. Qed.
