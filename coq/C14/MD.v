(** C14 — the buffering machine shared by tlx::MD5 / SHA1 / SHA256 / SHA512 (tlx/digest/*.cpp), generic in the
    block size, the compression function and the length-field encoding; and the standards' definition
    [H_spec] (pad, split into blocks, fold the compression function).

    State = the four data members of each class:
      state_  ([st_h]),  buf_ ([st_buf], a fixed array of B bytes; cells at index >= curlen_ hold stale
      bytes),  curlen_ ([st_cur]),  length_ ([st_len], uint64 bit count of the *flushed* blocks). *)
From Coq Require Import NArith List.
From TLXV Require Import C14.Words.
Import ListNotations.
Local Open Scope N_scope.

Section MD.
  Variable H : Type.                       (* chaining state (state_[]) *)
  Variables (B P L : nat).                 (* sizeof(buf_); the "> P" test of finalize; offset of the stored length *)
  Variable compress : H -> list N -> H.    (* xxx_compress(state_, ptr): reads B bytes at ptr *)
  Variable enc_len : N -> list N.          (* store64 / store64l / store64h of length_ *)
  Variable iv : H.                         (* constructor *)
  Variable out : H -> list N.              (* "Copy output" loop of finalize *)
  Variable spec_field : N -> list N.       (* the standard's length field (B - P bytes) *)

  Record state := mk { st_h : H; st_buf : list N; st_cur : nat; st_len : N }.

  (** The constructor leaves buf_ uninitialised: [junk] is that content (any B bytes). *)
  Definition init (junk : list N) : state := mk iv junk 0 0.

  (** process(data, size):   while (size > 0) { if (curlen_ == 0 && size >= block_size) {A} else {B} }
      [inp]/[size] are the C++ [in]/[size]; [fuel] bounds the loop (one unit per iteration; [None] = fuel
      exhausted, proved unreachable for fuel >= size in MDProofs.process_loop_inv). *)
  Fixpoint process_loop (fuel : nat) (st : state) (inp : list N) (size : nat) : option state :=
    match size with
    | O => Some st
    | S _ =>
      match fuel with
      | O => None
      | S fuel' =>
        if andb (Nat.eqb (st_cur st) 0) (Nat.leb B size) then
          (* compress straight from the input *)
          process_loop fuel'
            (mk (compress (st_h st) (firstn B inp)) (st_buf st) (st_cur st)
                (wrap 64 (st_len st + N.of_nat (B * 8))))
            (skipn B inp) (size - B)
        else
          let n := Nat.min size (B - st_cur st) in
          let buf1 := blit (st_buf st) (st_cur st) (firstn n inp) in
          let cur1 := (st_cur st + n)%nat in
          let st1 :=
            if Nat.eqb cur1 B
            then mk (compress (st_h st) buf1) buf1 0 (wrap 64 (st_len st + N.of_nat (8 * B)))
            else mk (st_h st) buf1 cur1 (st_len st) in
          process_loop fuel' st1 (skipn n inp) (size - n)
      end
    end.

  Definition process (st : state) (data : list N) : option state :=
    process_loop (length data) st data (length data).

  (** finalize(digest) *)
  Definition finalize (st : state) : list N :=
    let len := wrap 64 (st_len st + N.of_nat (st_cur st * 8)) in       (* length_ += curlen_ * 8 *)
    let buf1 := blit (st_buf st) (st_cur st) [128] in                   (* buf_[curlen_++] = 0x80 *)
    let cur1 := S (st_cur st) in
    let '(h2, buf2, cur2) :=
      if Nat.ltb P cur1                                                 (* if (curlen_ > P) *)
      then let b := zero_fill buf1 cur1 B in (compress (st_h st) b, b, O)
      else (st_h st, buf1, cur1) in
    let buf3 := zero_fill buf2 cur2 L in                                (* while (curlen_ < L) buf_[curlen_++] = 0 *)
    let buf4 := blit buf3 L (enc_len len) in                            (* storeNN(length_, buf_ + L) *)
    out (compress h2 buf4).

  (** a whole history: constructor, process(c) for every chunk in order, finalize *)
  Definition run (junk : list N) (chunks : list (list N)) : option state :=
    fold_left (fun o c => match o with Some s => process s c | None => None end) chunks (Some (init junk)).

  Definition digest_of (junk : list N) (chunks : list (list N)) : option (list N) :=
    match run junk chunks with Some s => Some (finalize s) | None => None end.

  (** The standards (RFC 1321 3.1-3.2, FIPS 180-4 5.1): append 0x80, then the least number of zero bytes
      that brings the length to P mod B, then the length field; split into B-byte blocks; fold. *)
  Definition pad_zeros (n : nat) : nat := Nat.modulo (P + B - 1 - Nat.modulo n B) B.
  Definition pad (msg : list N) : list N :=
    msg ++ 128 :: repeat 0 (pad_zeros (length msg)) ++ spec_field (8 * N.of_nat (length msg)).
  Definition H_spec (msg : list N) : list N :=
    let p := pad msg in out (fold_left compress (chunk B (Nat.div (length p) B) p) iv).
End MD.

Arguments mk {H}.
Arguments st_h {H}.
Arguments st_buf {H}.
Arguments st_cur {H}.
Arguments st_len {H}.
