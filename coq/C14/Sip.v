(** C14 — tlx/siphash.hpp: siphash_plain, siphash_sse2 (128-bit vectors as pairs of 64-bit lanes, one
    definition per intrinsic), and the SipHash-2-4 definition of Aumasson & Bernstein ([sip_spec]).
    Constants (initial words, rotation amounts, tail table, shuffle immediates, shift pairs) come from
    gen/Tables_C14_gen.v. *)
From Coq Require Import NArith List.
From TLXV Require Import C14.Words gen.Tables_C14_gen.
Import ListNotations.
Local Open Scope N_scope.

Definition sipst := (N * N * N * N)%type.
Definition rol64 := rol 64.
Definition sadd := add 64.

(** TLX_SIPCOMPRESS() of siphash_plain, with the six rotation amounts [r] *)
Definition sipround_r (r : list N) (v : sipst) : sipst :=
  let '(v0, v1, v2, v3) := v in
  let v0 := sadd v0 v1 in
  let v2 := sadd v2 v3 in
  let v1 := rol64 v1 (nth 0 r 0) in
  let v3 := rol64 v3 (nth 1 r 0) in
  let v1 := N.lxor v1 v0 in
  let v3 := N.lxor v3 v2 in
  let v0 := rol64 v0 (nth 2 r 0) in
  let v2 := sadd v2 v1 in
  let v0 := sadd v0 v3 in
  let v1 := rol64 v1 (nth 3 r 0) in
  let v3 := rol64 v3 (nth 4 r 0) in
  let v1 := N.lxor v1 v2 in
  let v3 := N.lxor v3 v0 in
  let v2 := rol64 v2 (nth 5 r 0) in
  (v0, v1, v2, v3).
Definition sipround := sipround_r sip_rots.

(** v3 ^= mi; 2 x SIPCOMPRESS; v0 ^= mi *)
Definition sip_absorb (v : sipst) (mi : N) : sipst :=
  let '(v0, v1, v2, v3) := v in
  let '(v0, v1, v2, v3) := sipround (sipround (v0, v1, v2, N.lxor v3 mi)) in
  (N.lxor v0 mi, v1, v2, v3).

(** for (i = 0, blocks = len & ~7; i < blocks; i += 8): n = len / 8 iterations, 8 bytes each, little-endian load *)
Fixpoint sip_blocks (n : nat) (v : sipst) (m : list N) : sipst * list N :=
  match n with
  | O => (v, m)
  | S n' => sip_blocks n' (sip_absorb v (load_le (firstn 8 m))) (skipn 8 m)
  end.

(** last7 = (len & 0xff) << 56, then the fall-through switch over len - blocks: every case label <= r runs *)
Definition sip_last7 (len : N) (t : list N) : N :=
  fold_left (fun l (row : nat * nat * N) =>
               let '(label, idx, sh) := row in
               if Nat.leb label (length t) then N.lor l (N.shiftl (nth idx t 0) sh) else l)
            sip_tail_table (shl 64 (N.land len sip_lenmask) sip_lenshift).

Definition sip_finish (v : sipst) : N :=
  let '(v0, v1, v2, v3) := v in
  let '(v0, v1, v2, v3) := sipround (sipround (sipround (sipround (v0, v1, N.lxor v2 sip_final, v3)))) in
  N.lxor (N.lxor (N.lxor v0 v1) v2) v3.

Definition siphash_plain (key m : list N) : N :=
  let k0 := load_le (firstn 8 key) in
  let k1 := load_le (firstn 8 (skipn 8 key)) in
  let v := (N.lxor k0 (nth 0 sip_init 0), N.lxor k1 (nth 1 sip_init 0),
            N.lxor k0 (nth 2 sip_init 0), N.lxor k1 (nth 3 sip_init 0)) in
  let '(v, t) := sip_blocks (Nat.div (length m) 8) v m in
  let last7 := sip_last7 (N.of_nat (length m)) t in
  sip_finish (sip_absorb v last7).

(* ---------------------------------------------------------------------------------------------- SSE2 *)
(** __m128i = (low 64-bit lane, high 64-bit lane) *)
Definition vec := (N * N)%type.
Definition m16 := N.ones 16.
Definition m32 := N.ones 32.

Definition dwords (v : vec) : list N :=
  [N.land (fst v) m32; N.shiftr (fst v) 32; N.land (snd v) m32; N.shiftr (snd v) 32].
Definition of_dwords (d0 d1 d2 d3 : N) : vec := (N.lor d0 (N.shiftl d1 32), N.lor d2 (N.shiftl d3 32)).

(** _mm_shuffle_epi32(v, _MM_SHUFFLE(z,y,x,w)): dst dword 0..3 = src dword w,x,y,z *)
Definition mm_shuffle_epi32 (v : vec) (imm : nat * nat * nat * nat) : vec :=
  let '(z, y, x, w) := imm in
  let d := dwords v in of_dwords (nth w d 0) (nth x d 0) (nth y d 0) (nth z d 0).

(** _mm_shufflelo_epi16: the four 16-bit words of the low lane are permuted, the high lane is copied *)
Definition words16 (x : N) : list N :=
  [N.land x m16; N.land (N.shiftr x 16) m16; N.land (N.shiftr x 32) m16; N.shiftr x 48].
Definition mm_shufflelo_epi16 (v : vec) (imm : nat * nat * nat * nat) : vec :=
  let '(z, y, x, w) := imm in
  let q := words16 (fst v) in
  (N.lor (N.lor (N.lor (nth w q 0) (N.shiftl (nth x q 0) 16)) (N.shiftl (nth y q 0) 32)) (N.shiftl (nth z q 0) 48),
   snd v).

Definition mm_slli_epi64 (v : vec) (n : N) : vec := (shl 64 (fst v) n, shl 64 (snd v) n).
Definition mm_srli_epi64 (v : vec) (n : N) : vec := (shr (fst v) n, shr (snd v) n).
Definition mm_or (a b : vec) : vec := (N.lor (fst a) (fst b), N.lor (snd a) (snd b)).
Definition mm_xor (a b : vec) : vec := (N.lxor (fst a) (fst b), N.lxor (snd a) (snd b)).
Definition mm_add_epi64 (a b : vec) : vec := (sadd (fst a) (fst b), sadd (snd a) (snd b)).
Definition mm_unpacklo_epi64 (a b : vec) : vec := (fst a, fst b).
Definition mm_unpackhi_epi64 (a b : vec) : vec := (snd a, snd b).
Definition mm_slli_si128_8 (v : vec) : vec := (0, fst v).                       (* byte shift left by 8 *)
Definition mm_srli_si128_4 (v : vec) : vec :=                                     (* byte shift right by 4 *)
  (N.lor (N.shiftr (fst v) 32) (N.shiftl (N.land (snd v) m32) 32), N.shiftr (snd v) 32).
Definition mm_loadl_epi64 (x : N) : vec := (x, 0).
Definition mm_cvtsi32_si128 (x : N) : vec := (N.land x m32, 0).
Definition mm_cvtsi128_si32 (v : vec) : N := N.land (fst v) m32.
Definition mm_unpacklo_epi32 (a b : vec) : vec :=
  of_dwords (nth 0 (dwords a) 0) (nth 0 (dwords b) 0) (nth 1 (dwords a) 0) (nth 1 (dwords b) 0).

Definition rot_pair (v : vec) (p : N * N) : vec := mm_or (mm_slli_epi64 v (fst p)) (mm_srli_epi64 v (snd p)).

(** the SSE2 TLX_SIPCOMPRESS() on (v02, v13), statement by statement *)
Definition sse_round_g (sh : list (nat * nat * nat * nat)) (rp : list (N * N)) (s : vec * vec) : vec * vec :=
  let '(v02, v13) := s in
  let shf i := nth i sh (0, 0, 0, 0)%nat in
  let rpp i := nth i rp (0, 0) in
  let v11 := v13 in
  let v33 := mm_shuffle_epi32 v13 (shf 0%nat) in
  let v11 := rot_pair v11 (rpp 0%nat) in
  let v02 := mm_add_epi64 v02 v13 in
  let v33 := mm_shufflelo_epi16 v33 (shf 1%nat) in
  let v13 := mm_unpacklo_epi64 v11 v33 in
  let v13 := mm_xor v13 v02 in
  let v20 := mm_shuffle_epi32 v02 (shf 2%nat) in
  let v11 := v13 in
  let v33 := mm_shuffle_epi32 v13 (shf 3%nat) in
  let v11 := rot_pair v11 (rpp 1%nat) in
  let v20 := mm_add_epi64 v20 v13 in
  let v33 := rot_pair v33 (rpp 2%nat) in
  let v13 := mm_unpacklo_epi64 v11 v33 in
  let v02 := mm_shuffle_epi32 v20 (shf 4%nat) in
  let v13 := mm_xor v13 v20 in
  (v02, v13).
Definition sse_round := sse_round_g sse_shuffles sse_shifts.

(** v13 ^= slli_si128(mi, 8); 2 x SIPCOMPRESS; v02 ^= mi *)
Definition sse_absorb (s : vec * vec) (mi : vec) : vec * vec :=
  let '(v02, v13) := s in
  let '(v02, v13) := sse_round (sse_round (v02, mm_xor v13 (mm_slli_si128_8 mi))) in
  (mm_xor v02 mi, v13).

Fixpoint sse_blocks (n : nat) (s : vec * vec) (m : list N) : (vec * vec) * list N :=
  match n with
  | O => (s, m)
  | S n' => sse_blocks n' (sse_absorb s (mm_loadl_epi64 (load_le (firstn 8 m)))) (skipn 8 m)
  end.

Definition siphash_sse2 (key m : list N) : N :=
  let k : vec := (load_le (firstn 8 key), load_le (firstn 8 (skipn 8 key))) in      (* _mm_loadu_si128 *)
  let v02 : vec := (nth 0 sse_init 0, nth 1 sse_init 0) in
  let v13 : vec := (nth 2 sse_init 0, nth 3 sse_init 0) in
  let v02 := mm_xor v02 (mm_unpacklo_epi64 k k) in
  let v13 := mm_xor v13 (mm_unpackhi_epi64 k k) in
  let '(s, t) := sse_blocks (Nat.div (length m) 8) (v02, v13) m in
  let last7 := sip_last7 (N.of_nat (length m)) t in
  let mi := mm_unpacklo_epi32 (mm_cvtsi32_si128 last7) (mm_cvtsi32_si128 (N.shiftr last7 32)) in
  let '(v02, v13) := sse_absorb s mi in
  let v02 := mm_xor v02 (nth 0 sse_final 0, nth 1 sse_final 0) in
  let '(v02, v13) := sse_round (sse_round (sse_round (sse_round (v02, v13)))) in
  let v02 := mm_xor v02 v13 in
  let v02 := mm_xor v02 (mm_shuffle_epi32 v02 sse_final_shuffle) in
  let lo := mm_cvtsi128_si32 v02 in
  let hi := mm_cvtsi128_si32 (mm_srli_si128_4 v02) in
  N.lor (N.shiftl hi 32) lo.

(* ---------------------------------------------------------------------------------------------- spec *)
(** SipHash-2-4 (Aumasson, Bernstein 2012, section 2): k0, k1 little-endian; v0..v3 initialised with
    "somepseudorandomlygeneratedbytes"; the message is parsed into w = ceil((b+1)/8) little-endian 64-bit
    words, the last of which holds the remaining bytes, zero padding and b mod 256 in its top byte; each word:
    v3 ^= m, 2 SipRounds, v0 ^= m; then v2 ^= 0xff, 4 SipRounds, v0^v1^v2^v3. *)
Definition SipRound (v : sipst) : sipst :=
  let '(v0, v1, v2, v3) := v in
  let v0 := sadd v0 v1 in let v1 := rol64 v1 13 in let v1 := N.lxor v1 v0 in let v0 := rol64 v0 32 in
  let v2 := sadd v2 v3 in let v3 := rol64 v3 16 in let v3 := N.lxor v3 v2 in
  let v0 := sadd v0 v3 in let v3 := rol64 v3 21 in let v3 := N.lxor v3 v0 in
  let v2 := sadd v2 v1 in let v1 := rol64 v1 17 in let v1 := N.lxor v1 v2 in let v2 := rol64 v2 32 in
  (v0, v1, v2, v3).

Definition sip_words (m : list N) : list N :=
  let b := length m in
  let padded := m ++ repeat 0 (7 - Nat.modulo b 8) ++ [N.land (N.of_nat b) 255] in
  map load_le (chunk 8 (S (Nat.div b 8)) padded).

Definition spec_step (v : sipst) (mi : N) : sipst :=
  let '(v0, v1, v2, v3) := v in
  let '(v0, v1, v2, v3) := SipRound (SipRound (v0, v1, v2, N.lxor v3 mi)) in
  (N.lxor v0 mi, v1, v2, v3).

Definition spec_finalize (v : sipst) : N :=
  let '(v0, v1, v2, v3) := v in
  let '(v0, v1, v2, v3) := SipRound (SipRound (SipRound (SipRound (v0, v1, N.lxor v2 255, v3)))) in
  N.lxor (N.lxor (N.lxor v0 v1) v2) v3.

Definition sip_spec (key m : list N) : N :=
  let k0 := load_le (firstn 8 key) in
  let k1 := load_le (firstn 8 (skipn 8 key)) in
  let v := (N.lxor k0 0x736f6d6570736575, N.lxor k1 0x646f72616e646f6d,
            N.lxor k0 0x6c7967656e657261, N.lxor k1 0x7465646279746573) in
  spec_finalize (fold_left spec_step (sip_words m) v).
