(** C14 — the four instances of MDProofs.chunking_independent_generic, the API-level corollaries
    (raw / hex / HEX / helper functions), and correctness of hexdump. *)
From Coq Require Import NArith List Lia Arith Bool.
From TLXV Require Import C14.Words C14.MD C14.MDProofs C14.Hashes gen.Tables_C14_gen.
Import ListNotations.

Lemma store_le_length : forall n x, length (store_le n x) = n.
Proof. intros. unfold store_le. rewrite map_length, seq_length. reflexivity. Qed.
Lemma store_be_length : forall n x, length (store_be n x) = n.
Proof. intros. unfold store_be. rewrite map_length, seq_length. reflexivity. Qed.

(** a 64-bit value written as a 128-bit big-endian field = eight zero bytes, then its 64-bit big-endian form
    (SHA-512: the code zero-fills up to offset 120 and stores the 64-bit length_ there) *)
Lemma byte_high_zero : forall x k, (x < 2 ^ 64)%N -> (64 <= k)%N -> N.land (N.shiftr x k) 255 = 0%N.
Proof.
  intros x k Hx Hk.
  assert (N.shiftr x k = 0%N) as ->; [|reflexivity].
  destruct (N.eq_dec x 0) as [->|Hnz]; [apply N.shiftr_0_l|].
  apply N.shiftr_eq_0. apply N.log2_lt_pow2 in Hx; lia.
Qed.

Lemma store_be_16_of_64 : forall x, (x < 2 ^ 64)%N -> store_be 16 x = repeat 0%N 8 ++ store_be 8 x.
Proof.
  intros x Hx. unfold store_be. cbn [seq map repeat app Nat.sub].
  rewrite !(byte_high_zero x) by (assumption || (cbn; lia)).
  reflexivity.
Qed.

(** the code stores length_ mod 2^64; reading eight bytes of it never looks above bit 63 *)
Lemma byte_of_wrap : forall n k, (k + 8 <= 64)%N -> N.land (N.shiftr (wrap 64 n) k) 255 = N.land (N.shiftr n k) 255.
Proof.
  intros n k Hk. unfold wrap. change 255%N with (N.ones 8). apply N.bits_inj. intro i.
  rewrite !N.land_spec, !N.shiftr_spec', N.land_spec.
  destruct (N.lt_ge_cases i 8) as [Hi|Hi].
  - rewrite (N.ones_spec_low 64 (i + k)) by lia. rewrite Bool.andb_true_r. reflexivity.
  - rewrite (N.ones_spec_high 8 i) by lia. rewrite !Bool.andb_false_r. reflexivity.
Qed.

Lemma store_le_8_wrap : forall n, store_le 8 (wrap 64 n) = store_le 8 n.
Proof.
  intros n. unfold store_le. cbn [seq map]. rewrite !byte_of_wrap by (cbn; lia). reflexivity.
Qed.

Lemma wrap64_small : forall n, (n < 2 ^ 64)%N -> wrap 64 n = n.
Proof. intros. apply wrap_small. assumption. Qed.

(* ----------------------------------------------------------------------------------------- instances *)
(** Domain of each algorithm, in message BYTES: MD5 has none (RFC 1321 3.2 appends "the low-order 64 bits" of the bit
    length, and so does the code: length_ wraps modulo 2^64). SHA-1 and SHA-256 are defined by FIPS 180-4 for messages
    of less than 2^64 bits only. SHA-512 is defined up to 2^128 bits; tlx documents in SHA512::finalize that it
    supports less than 2^64 bits (the upper half of the length field is zero-filled). *)
Definition in_domain (a : algo) (nbytes : nat) : Prop :=
  match a with AMD5 => True | _ => (8 * N.of_nat nbytes < 2 ^ 64)%N end.
Definition bits_ok (a : algo) (chunks : list (list N)) : Prop := in_domain a (length (concat chunks)).

Theorem md5_chunking_independent : forall junk chunks,
  length junk = md5_B -> md5_digest_of junk chunks = Some (md5_spec (concat chunks)).
Proof.
  intros junk chunks Hj. unfold md5_digest_of, md5_spec.
  assert (HBL : md5_B = md5_L + 8) by reflexivity.
  assert (HPL : md5_P <= md5_L) by (cbv; lia).
  assert (HP0 : 0 < md5_P) by (cbv; lia).
  exact (digest_of_spec st4 md5_B md5_P md5_L md5_compress (store_le 8) md5_iv md5_out (store_le 8) (fun _ => True) HBL HPL HP0
           (fun n => store_le_length 8 n) (fun n _ => eq_sym (store_le_8_wrap n)) junk chunks Hj I).
Qed.

Lemma be8_field : forall n, (n < 2 ^ 64)%N -> store_be 8 n = repeat 0%N 0 ++ store_be 8 (wrap 64 n).
Proof. intros n Hn. rewrite (wrap64_small n Hn). reflexivity. Qed.

Lemma be16_field : forall n, (n < 2 ^ 64)%N -> store_be 16 n = repeat 0%N 8 ++ store_be 8 (wrap 64 n).
Proof. intros n Hn. rewrite (wrap64_small n Hn). apply store_be_16_of_64. exact Hn. Qed.

Theorem sha1_chunking_independent : forall junk chunks,
  length junk = sha1_B -> bits_ok ASHA1 chunks -> sha1_digest_of junk chunks = Some (sha1_spec (concat chunks)).
Proof.
  intros junk chunks Hj Hb. unfold sha1_digest_of, sha1_spec.
  assert (HBL : sha1_B = sha1_L + 8) by reflexivity.
  assert (HPL : sha1_P <= sha1_L) by (cbv; lia).
  assert (HP0 : 0 < sha1_P) by (cbv; lia).
  exact (digest_of_spec st5 sha1_B sha1_P sha1_L sha1_compress (store_be 8) sha1_iv sha1_out (store_be 8) (fun n => (n < 2 ^ 64)%N) HBL HPL HP0
           (fun n => store_be_length 8 n) be8_field junk chunks Hj Hb).
Qed.

Theorem sha256_chunking_independent : forall junk chunks,
  length junk = sha256_B -> bits_ok ASHA256 chunks -> sha256_digest_of junk chunks = Some (sha256_spec (concat chunks)).
Proof.
  intros junk chunks Hj Hb. unfold sha256_digest_of, sha256_spec.
  assert (HBL : sha256_B = sha256_L + 8) by reflexivity.
  assert (HPL : sha256_P <= sha256_L) by (cbv; lia).
  assert (HP0 : 0 < sha256_P) by (cbv; lia).
  exact (digest_of_spec st8 sha256_B sha256_P sha256_L sha256_compress (store_be 8) sha256_iv sha256_out (store_be 8) (fun n => (n < 2 ^ 64)%N) HBL HPL HP0
           (fun n => store_be_length 8 n) be8_field junk chunks Hj Hb).
Qed.

Theorem sha512_chunking_independent : forall junk chunks,
  length junk = sha512_B -> bits_ok ASHA512 chunks -> sha512_digest_of junk chunks = Some (sha512_spec (concat chunks)).
Proof.
  intros junk chunks Hj Hb. unfold sha512_digest_of, sha512_spec.
  assert (HBL : sha512_B = sha512_L + 8) by reflexivity.
  assert (HPL : sha512_P <= sha512_L) by (cbv; lia).
  assert (HP0 : 0 < sha512_P) by (cbv; lia).
  exact (digest_of_spec st8 sha512_B sha512_P sha512_L sha512_compress (store_be 8) sha512_iv sha512_out (store_be 16) (fun n => (n < 2 ^ 64)%N) HBL HPL HP0
           (fun n => store_be_length 8 n) be16_field junk chunks Hj Hb).
Qed.

(** all four at once, at the API level *)
Theorem chunking_independent : forall a junk chunks,
  length junk = algo_B a -> bits_ok a chunks -> digest a junk chunks = Some (spec a (concat chunks)).
Proof.
  intros a junk chunks Hj Hb. destruct a; cbn [digest spec algo_B] in *.
  - apply md5_chunking_independent; assumption.
  - apply sha1_chunking_independent; assumption.
  - apply sha256_chunking_independent; assumption.
  - apply sha512_chunking_independent; assumption.
Qed.

Corollary digest_hex_correct : forall a junk chunks,
  length junk = algo_B a -> bits_ok a chunks ->
  digest_hex a junk chunks = Some (hexdump hex_lc (spec a (concat chunks))) /\
  digest_hex_uc a junk chunks = Some (hexdump hex_uc (spec a (concat chunks))).
Proof.
  intros a junk chunks Hj Hb. unfold digest_hex, digest_hex_uc.
  rewrite (chunking_independent a junk chunks Hj Hb). split; reflexivity.
Qed.

Corollary helper_correct : forall a junk msg,
  length junk = algo_B a -> in_domain a (length msg) ->
  helper_hex a junk msg = Some (hexdump hex_lc (spec a msg)) /\
  helper_hex_uc a junk msg = Some (hexdump hex_uc (spec a msg)).
Proof.
  intros a junk msg Hj Hb. unfold helper_hex, helper_hex_uc.
  assert (Hc : concat [msg] = msg) by (cbn; apply app_nil_r).
  destruct (digest_hex_correct a junk [msg] Hj) as [H1 H2].
  - unfold bits_ok. rewrite Hc. exact Hb.
  - rewrite Hc in *. split; assumption.
Qed.

(** two chunkings of the same message give the same digest, whatever buf_ contained *)
Corollary chunking_irrelevant : forall a junk1 junk2 chunks1 chunks2,
  length junk1 = algo_B a -> length junk2 = algo_B a ->
  concat chunks1 = concat chunks2 -> bits_ok a chunks1 ->
  digest a junk1 chunks1 = digest a junk2 chunks2.
Proof.
  intros a j1 j2 c1 c2 H1 H2 Hc Hb.
  rewrite (chunking_independent a j1 c1 H1 Hb).
  assert (Hb2 : bits_ok a c2) by (unfold bits_ok in *; rewrite <- Hc; exact Hb).
  rewrite (chunking_independent a j2 c2 H2 Hb2), Hc. reflexivity.
Qed.

(** digest sizes *)
Lemma spec_length : forall a msg,
  length (spec a msg) = match a with AMD5 => md5_D | ASHA1 => sha1_D | ASHA256 => sha256_D | ASHA512 => sha512_D end.
Proof.
  intros a msg. destruct a; cbn [spec].
  - unfold md5_spec, H_spec. destruct (fold_left _ _ _) as [[[? ?] ?] ?]. reflexivity.
  - unfold sha1_spec, H_spec. destruct (fold_left _ _ _) as [[[[? ?] ?] ?] ?]. reflexivity.
  - unfold sha256_spec, H_spec. destruct (fold_left _ _ _) as [[[[[[[? ?] ?] ?] ?] ?] ?] ?]. reflexivity.
  - unfold sha512_spec, H_spec. destruct (fold_left _ _ _) as [[[[[[[? ?] ?] ?] ?] ?] ?] ?]. reflexivity.
Qed.

(* ------------------------------------------------------------------------------------------- hexdump *)
(** the usual hexadecimal notation: digit d -> '0'+d (d < 10), 'a'+d-10 resp. 'A'+d-10 *)
Definition lc_digit (d : N) : N := if (d <? 10)%N then (48 + d)%N else (87 + d)%N.
Definition uc_digit (d : N) : N := if (d <? 10)%N then (48 + d)%N else (55 + d)%N.
Definition hex_spec (dig : N -> N) (bs : list N) : list N :=
  concat (map (fun b => [dig (b / 16)%N; dig (b mod 16)%N]) bs).

Definition bytes256 : list N := map N.of_nat (seq 0 256).
Lemma in_bytes256 : forall b, (b < 256)%N -> In b bytes256.
Proof.
  intros b Hb. unfold bytes256. rewrite <- (N2Nat.id b). apply in_map. apply in_seq. lia.
Qed.

Definition hex_byte_ok (b : N) : bool :=
  andb (andb (N.eqb (nth (N.to_nat (N.shiftr (N.land b 240) 4)) hex_lc 0%N) (lc_digit (b / 16)))
             (N.eqb (nth (N.to_nat (N.land b 15)) hex_lc 0%N) (lc_digit (b mod 16))))
       (andb (N.eqb (nth (N.to_nat (N.shiftr (N.land b 240) 4)) hex_uc 0%N) (uc_digit (b / 16)))
             (N.eqb (nth (N.to_nat (N.land b 15)) hex_uc 0%N) (uc_digit (b mod 16)))).

Lemma hex_bytes_ok : forallb hex_byte_ok bytes256 = true.
Proof. vm_compute. reflexivity. Qed.

Theorem hex_correct : forall bs, Forall (fun b => (b < 256)%N) bs ->
  hexdump hex_lc bs = hex_spec lc_digit bs /\ hexdump hex_uc bs = hex_spec uc_digit bs.
Proof.
  intros bs HF. unfold hexdump, hex_spec. rewrite !flat_map_concat_map.
  induction HF as [|b bs Hb HF [IH1 IH2]]; [split; reflexivity|].
  cbn [map concat].
  pose proof (proj1 (forallb_forall hex_byte_ok bytes256) hex_bytes_ok b (in_bytes256 b Hb)) as Hok.
  unfold hex_byte_ok in Hok. rewrite !andb_true_iff, !N.eqb_eq in Hok.
  destruct Hok as [[E1 E2] [E3 E4]].
  rewrite IH1, IH2, E1, E2, E3, E4. split; reflexivity.
Qed.

(** digest bytes are bytes (so hex_correct applies to every digest) *)
Lemma store_be_bytes : forall n x, Forall (fun b => (b < 256)%N) (store_be n x).
Proof.
  intros. unfold store_be. apply Forall_forall. intros b Hin. apply in_map_iff in Hin.
  destruct Hin as (i & <- & _). change 255%N with (N.ones 8). rewrite N.land_ones. apply N.mod_lt. discriminate.
Qed.
Lemma store_le_bytes : forall n x, Forall (fun b => (b < 256)%N) (store_le n x).
Proof.
  intros. unfold store_le. apply Forall_forall. intros b Hin. apply in_map_iff in Hin.
  destruct Hin as (i & <- & _). change 255%N with (N.ones 8). rewrite N.land_ones. apply N.mod_lt. discriminate.
Qed.

Lemma spec_bytes : forall a msg, Forall (fun b => (b < 256)%N) (spec a msg).
Proof.
  intros a msg. destruct a; cbn [spec].
  - unfold md5_spec, H_spec, md5_out. destruct (fold_left _ _ _) as [[[? ?] ?] ?].
    apply Forall_concat. repeat (apply Forall_cons; [apply store_le_bytes|]). apply Forall_nil.
  - unfold sha1_spec, H_spec, sha1_out. destruct (fold_left _ _ _) as [[[[? ?] ?] ?] ?].
    apply Forall_concat. repeat (apply Forall_cons; [apply store_be_bytes|]). apply Forall_nil.
  - unfold sha256_spec, H_spec, sha256_out, out8. destruct (fold_left _ _ _) as [[[[[[[? ?] ?] ?] ?] ?] ?] ?].
    apply Forall_concat. repeat (apply Forall_cons; [apply store_be_bytes|]). apply Forall_nil.
  - unfold sha512_spec, H_spec, sha512_out, out8. destruct (fold_left _ _ _) as [[[[[[[? ?] ?] ?] ?] ?] ?] ?].
    apply Forall_concat. repeat (apply Forall_cons; [apply store_be_bytes|]). apply Forall_nil.
Qed.

(** The three output forms and the helper functions, in the usual hexadecimal notation *)
Theorem api_forms : forall a junk chunks,
  length junk = algo_B a -> bits_ok a chunks ->
  let d := spec a (concat chunks) in
  digest a junk chunks = Some d /\
  digest_hex a junk chunks = Some (hex_spec lc_digit d) /\
  digest_hex_uc a junk chunks = Some (hex_spec uc_digit d).
Proof.
  intros a junk chunks Hj Hb d.
  destruct (digest_hex_correct a junk chunks Hj Hb) as [H1 H2].
  destruct (hex_correct d (spec_bytes a (concat chunks))) as [E1 E2].
  split; [apply chunking_independent; assumption|]. split.
  - rewrite H1. fold d. rewrite E1. reflexivity.
  - rewrite H2. fold d. rewrite E2. reflexivity.
Qed.

Theorem helper_forms : forall a junk msg,
  length junk = algo_B a -> in_domain a (length msg) ->
  helper_hex a junk msg = Some (hex_spec lc_digit (spec a msg)) /\
  helper_hex_uc a junk msg = Some (hex_spec uc_digit (spec a msg)).
Proof.
  intros a junk msg Hj Hb.
  destruct (helper_correct a junk msg Hj Hb) as [H1 H2].
  destruct (hex_correct (spec a msg) (spec_bytes a msg)) as [E1 E2].
  rewrite H1, H2, E1, E2. split; reflexivity.
Qed.
